(** * C02: track identity invariant (event-unique ids, issued parents) and the
    exactly-once bookkeeping of every operation. *)
From Coq Require Import List Arith Bool PeanoNat Lia Permutation.
From Celer Require Import C02.TrackInit C02.ListLemmas C02.InvA C02.InvA2.
Import ListNotations.

Definition key (t : trk) : nat * nat := (tev t, tid t).

Definition is_active (sl : slot) : bool := negb (is_inactive sl).
Definition active_tracks (sls : list slot) : list trk := map str (filter is_active sls).
Definition all_tracks (s : state) : list trk := active_tracks (slots s) ++ stack s.

Lemma active_tracks_app : forall a b, active_tracks (a ++ b) = active_tracks a ++ active_tracks b.
Proof. intros. unfold active_tracks. rewrite filter_app, map_app. reflexivity. Qed.

(** every track in flight has an id below its event's counter, a known event,
    and a parent that was issued before it *)
Definition bounded (nev : nat) (nx : list nat) (t : trk) : Prop :=
  tev t < nev /\ tid t < nth (tev t) nx 0 /\ (forall p, tpar t = Some p -> p < tid t).

Definition InvB (cfg : config) (s : state) : Prop :=
  ph s <> Failed ->
  NoDup (map key (all_tracks s)) /\ Forall (bounded (n_events cfg) (next_id s)) (all_tracks s).

(** ** Batches of freshly issued ids *)

Definition fresh_batch (nev : nat) (nx nx' : list nat) (ts : list trk) : Prop :=
  length nx' = length nx /\
  (forall e, nth e nx 0 <= nth e nx' 0) /\
  Forall (fun t => tev t < nev /\ nth (tev t) nx 0 <= tid t < nth (tev t) nx' 0) ts /\
  NoDup (map key ts).

Lemma fresh_batch_nil : forall nev nx, fresh_batch nev nx nx [].
Proof. intros. repeat split; auto; constructor. Qed.

Lemma fresh_batch_app : forall nev nx nx1 nx2 a b,
  fresh_batch nev nx nx1 a -> fresh_batch nev nx1 nx2 b -> fresh_batch nev nx nx2 (a ++ b).
Proof.
  intros nev nx nx1 nx2 a b (L1 & M1 & F1 & N1) (L2 & M2 & F2 & N2).
  split; [congruence|]. split; [intros e; specialize (M1 e); specialize (M2 e); lia|]. split.
  - apply Forall_app. split.
    + eapply Forall_impl; [|exact F1]. intros t (A & B). split; [exact A|]. specialize (M2 (tev t)). lia.
    + eapply Forall_impl; [|exact F2]. intros t (A & B). split; [exact A|]. specialize (M1 (tev t)). lia.
  - rewrite map_app. apply NoDup_app_intro; [exact N1|exact N2|].
    intros k Ha Hb. apply in_map_iff in Ha, Hb. destruct Ha as [ta [Ka Ia]]. destruct Hb as [tb [Kb Ib]].
    rewrite Forall_forall in F1, F2. specialize (F1 ta Ia). specialize (F2 tb Ib).
    unfold key in *. subst k. inversion Kb as [[He Hi]]. rewrite He in F2. lia.
Qed.

Lemma nth_upd_same : forall (nx : list nat) e v, e < length nx -> nth e (upd e v nx) 0 = v.
Proof. intros. apply nth_upd_eq. assumption. Qed.

Lemma make_track_id_fresh : forall nev ev nx (t : trk),
  ev < nev -> length nx = nev -> tev t = ev -> tid t = nth ev nx 0 ->
  fresh_batch nev nx (snd (make_track_id ev nx)) [t].
Proof.
  intros nev ev nx t Hev Hlen Ht Hid. unfold make_track_id. cbn [snd].
  split; [apply upd_length|]. split.
  - intros e. destruct (Nat.eq_dec e ev) as [->|Hne].
    + rewrite nth_upd_same by lia. lia.
    + rewrite nth_upd_neq by congruence. lia.
  - split; [|cbn; constructor; [intros []|constructor]].
    constructor; [|constructor]. rewrite Ht, Hid. rewrite nth_upd_same by lia. lia.
Qed.

(** adding a fresh batch to a well-formed population keeps it well-formed *)
Lemma extend_fresh : forall nev nx nx' old new,
  NoDup (map key old) -> Forall (bounded nev nx) old ->
  fresh_batch nev nx nx' new ->
  Forall (fun t => forall p, tpar t = Some p -> p < tid t) new ->
  NoDup (map key (old ++ new)) /\ Forall (bounded nev nx') (old ++ new).
Proof.
  intros nev nx nx' old new Hnd Hb (L & M & F & N) Hp. split.
  - rewrite map_app. apply NoDup_app_intro; [exact Hnd|exact N|].
    intros k Ha Hc. apply in_map_iff in Ha, Hc. destruct Ha as [ta [Ka Ia]]. destruct Hc as [tb [Kb Ib]].
    rewrite Forall_forall in Hb, F. specialize (Hb ta Ia). specialize (F tb Ib).
    destruct Hb as (B1 & B2 & B3). unfold key in *. subst k. inversion Kb as [[He Hi]]. rewrite He in F. lia.
  - apply Forall_app. split.
    + eapply Forall_impl; [|exact Hb]. intros t (B1 & B2 & B3). split; [exact B1|]. split; [|exact B3].
      specialize (M (tev t)). lia.
    + rewrite Forall_forall in *. intros t Ht. destruct (F t Ht) as (A & B). split; [exact A|]. split; [lia|].
      apply Hp. exact Ht.
Qed.

Lemma bounded_perm : forall nev nx a b, Permutation a b ->
  NoDup (map key a) /\ Forall (bounded nev nx) a -> NoDup (map key b) /\ Forall (bounded nev nx) b.
Proof.
  intros nev nx a b Hp [H1 H2]. split.
  - eapply Permutation_NoDup; [apply Permutation_map; exact Hp|exact H1].
  - eapply Permutation_Forall; eauto.
Qed.

(** ** primaries *)

Fixpoint issue_primaries (ps : list primary) (nx : list nat) : list trk * list nat :=
  match ps with
  | [] => ([], nx)
  | p :: r =>
    let '(id, nx1) := make_track_id (p_ev p) nx in
    let '(ts, nx2) := issue_primaries r nx1 in
    (mkTrk id None (p_ev p) (p_pid p) (p_bad p) :: ts, nx2)
  end.

Lemma issue_primaries_cons : forall p r nx,
  issue_primaries (p :: r) nx =
  (mkTrk (nth (p_ev p) nx 0) None (p_ev p) (p_pid p) (p_bad p)
     :: fst (issue_primaries r (upd (p_ev p) (S (nth (p_ev p) nx 0)) nx)),
   snd (issue_primaries r (upd (p_ev p) (S (nth (p_ev p) nx 0)) nx))).
Proof.
  intros. cbn [issue_primaries]. unfold make_track_id.
  destruct (issue_primaries r _); reflexivity.
Qed.

Lemma issue_primaries_length : forall ps nx, length (fst (issue_primaries ps nx)) = length ps.
Proof.
  induction ps as [|p r IH]; intros nx; [reflexivity|]. rewrite issue_primaries_cons. cbn [fst length].
  rewrite IH. reflexivity.
Qed.

(** the array written by ProcessPrimariesExecutor: exactly the old
    initializers followed by the new ones, in thread order (index_after) *)
Lemma process_primaries_arr : forall ps stk done nx cinit nprim,
  cinit - nprim = length stk ->
  fold_left (process_primary cinit nprim) (combine (seq (length done) (length ps)) ps)
            (stk ++ done ++ repeat dflt_trk (length ps), nx)
  = (stk ++ done ++ fst (issue_primaries ps nx), snd (issue_primaries ps nx)).
Proof.
  induction ps as [|p r IH]; intros stk done nx cinit nprim Hbase; [reflexivity|].
  rewrite issue_primaries_cons. cbn [fst snd].
  cbn [length seq combine fold_left repeat]. unfold process_primary at 2.
  unfold make_track_id. cbn zeta.
  set (t := mkTrk (nth (p_ev p) nx 0) None (p_ev p) (p_pid p) (p_bad p)).
  set (nx1 := upd (p_ev p) (S (nth (p_ev p) nx 0)) nx).
  assert (Hupd : upd (index_after (cinit - nprim) (length done)) t
                     (stk ++ done ++ dflt_trk :: repeat dflt_trk (length r))
                 = stk ++ (done ++ [t]) ++ repeat dflt_trk (length r)).
  { unfold index_after. rewrite Hbase, <- app_length, app_assoc.
    rewrite upd_app_exact. rewrite <- !app_assoc. reflexivity. }
  rewrite Hupd.
  specialize (IH stk (done ++ [t]) nx1 cinit nprim Hbase).
  rewrite app_length in IH. cbn [length] in IH. rewrite Nat.add_1_r in IH. rewrite IH.
  rewrite <- !app_assoc. reflexivity.
Qed.

Lemma issue_primaries_fresh : forall nev ps nx,
  length nx = nev -> forallb (fun p => p_ev p <? nev) ps = true ->
  fresh_batch nev nx (snd (issue_primaries ps nx)) (fst (issue_primaries ps nx)) /\
  Forall (fun t => tpar t = None) (fst (issue_primaries ps nx)).
Proof.
  induction ps as [|p r IH]; intros nx Hlen Hev; [split; [apply fresh_batch_nil|constructor]|].
  cbn [forallb] in Hev. apply andb_true_iff in Hev. destruct Hev as [Hp Hr]. apply Nat.ltb_lt in Hp.
  rewrite issue_primaries_cons. cbn [fst snd].
  pose proof (make_track_id_fresh nev (p_ev p) nx (mkTrk (nth (p_ev p) nx 0) None (p_ev p) (p_pid p) (p_bad p))
                Hp Hlen eq_refl eq_refl) as Hf1.
  unfold make_track_id in Hf1. cbn [snd] in Hf1.
  set (nx1 := upd (p_ev p) (S (nth (p_ev p) nx 0)) nx) in *.
  destruct (IH nx1 ltac:(unfold nx1; rewrite upd_length; exact Hlen) Hr) as [Hf2 Hn2].
  split; [|constructor; [reflexivity|exact Hn2]].
  change (mkTrk (nth (p_ev p) nx 0) None (p_ev p) (p_pid p) (p_bad p) :: fst (issue_primaries r nx1))
    with ([mkTrk (nth (p_ev p) nx 0) None (p_ev p) (p_pid p) (p_bad p)] ++ fst (issue_primaries r nx1)).
  eapply fresh_batch_app; eauto.
Qed.

(** exactly-once, primaries: the new stack is the old one followed by one
    initializer per primary, with fresh ids *)
Lemma insert_primaries_stack : forall cfg s ps s',
  InvA cfg s -> insert_primaries cfg s ps = Ok s' ->
  slots s' = slots s /\
  stack s' = stack s ++ fst (issue_primaries ps (next_id s)) /\
  next_id s' = snd (issue_primaries ps (next_id s)) /\
  forallb (fun p => p_ev p <? n_events cfg) ps = true /\ ph s = Ready.
Proof.
  intros cfg s ps s' ((Hl & Hp & Hn) & Hlive & Hready & Hstep) H. unfold insert_primaries in H.
  destruct (phase_eqb (ph s) Ready) eqn:Hph; cbn [negb] in H; [|discriminate].
  destruct (forallb (fun p => p_ev p <? n_events cfg) ps) eqn:Hev; cbn [negb] in H; [|discriminate].
  destruct (capacity cfg <? length ps + c_init (cnt s)) eqn:Hcap; [discriminate|].
  apply phase_eqb_eq in Hph. rewrite Hph in Hlive.
  destruct (Hlive ltac:(discriminate)) as (A & B & C & D).
  unfold process_primaries in H.
  pose proof (process_primaries_arr ps (stack s) [] (next_id s) (c_init (cnt s) + length ps) (length ps)
                ltac:(lia)) as Harr.
  cbn [length app] in Harr. rewrite Harr in H.
  inversion H; subst s'; clear H. cbn. auto.
Qed.

Lemma InvB_insert_ok : forall cfg s ps s',
  InvA cfg s -> InvB cfg s -> insert_primaries cfg s ps = Ok s' -> InvB cfg s'.
Proof.
  intros cfg s ps s' HA HB H.
  destruct (insert_primaries_stack cfg s ps s' HA H) as (E1 & E2 & E3 & Hev & Hph).
  destruct HA as ((Hl & Hp & Hn) & _).
  destruct (HB ltac:(rewrite Hph; discriminate)) as [Hnd Hbd].
  destruct (issue_primaries_fresh (n_events cfg) ps (next_id s) Hn Hev) as [Hf Hnone].
  intros _. unfold all_tracks. rewrite E1, E2, E3, app_assoc.
  apply extend_fresh with (nx := next_id s); auto.
  eapply Forall_impl; [|exact Hnone]. intros t Ht p Hp'. congruence.
Qed.

(** ** initialize_tracks: the tracks in flight are only moved *)

Definition wtrk (w : nat * trk * option nat) : trk := snd (fst w).

Lemma active_tracks_mid : forall a o b x,
  is_inactive o = true -> is_inactive x = false ->
  Permutation (active_tracks (a ++ x :: b)) (str x :: active_tracks (a ++ o :: b)).
Proof.
  intros a o b x Hold Hnew.
  change (x :: b) with ([x] ++ b). change (o :: b) with ([o] ++ b).
  rewrite !active_tracks_app. unfold active_tracks at 2 5. unfold is_active. cbn [filter map].
  rewrite Hold, Hnew. cbn [negb map app].
  apply Permutation_sym. apply Permutation_middle.
Qed.

Lemma active_tracks_upd : forall sls i x,
  i < length sls -> is_inactive (nth i sls dflt_slot) = true -> is_inactive x = false ->
  Permutation (active_tracks (upd i x sls)) (str x :: active_tracks sls).
Proof.
  intros sls i x Hi Hold Hnew.
  destruct (upd_split sls i x dflt_slot Hi) as [H1 H2].
  pose proof (active_tracks_mid (firstn i sls) (nth i sls dflt_slot) (skipn (S i) sls) x Hold Hnew) as P.
  rewrite <- H2 in P. rewrite H1. exact P.
Qed.

Lemma fold_init_write_tracks : forall ws sls,
  NoDup (map wsid ws) ->
  (forall w, In w ws -> wsid w < length sls /\ is_inactive (nth (wsid w) sls dflt_slot) = true) ->
  Permutation (active_tracks (fold_left init_write ws sls)) (map wtrk ws ++ active_tracks sls).
Proof.
  induction ws as [|w ws IH]; intros sls Hnd Hin; [reflexivity|].
  cbn [fold_left map] in *. inversion Hnd as [|? ? Hnotin Hnd']; subst.
  destruct (Hin w (or_introl eq_refl)) as [Hlt Hina].
  destruct w as [[sid ini] par]. unfold wsid in Hlt, Hina, Hnotin. cbn [fst] in Hlt, Hina, Hnotin.
  set (x := mkSlot (if is_some par then Initializing else if tbad ini then Errored else Initializing)
                   ini (ssecs (nth sid sls dflt_slot)) true).
  assert (Hx : is_inactive x = false).
  { unfold x, is_inactive. cbn. destruct (is_some par); [reflexivity|]. destruct (tbad ini); reflexivity. }
  change (init_write sls (sid, ini, par)) with (upd sid x sls).
  rewrite IH; [| exact Hnd' |].
  - rewrite (active_tracks_upd sls sid x Hlt Hina Hx). unfold wtrk at 2. cbn [fst snd app].
    change (str x) with ini. apply Permutation_sym. apply Permutation_middle.
  - intros w' Hw'. destruct (Hin w' (or_intror Hw')) as [A B].
    rewrite upd_length. split; [exact A|].
    rewrite nth_upd_neq; [exact B|]. intros Heq. apply Hnotin. apply in_map_iff. exists w'. split; [symmetry; exact Heq|exact Hw'].
Qed.

Lemma iidx_window_perm : forall stk ci cv num_new charge,
  num_new <= ci -> num_new <= cv -> ci = length stk ->
  Permutation (map (fun t => nth (iidx stk ci num_new charge t) stk dflt_trk) (seq 0 num_new))
              (skipn (ci - num_new) stk).
Proof.
  intros stk ci cv num_new charge Hci Hcv Hlen.
  rewrite <- (map_nth_seq_skipn stk dflt_trk (ci - num_new) num_new ltac:(lia)).
  rewrite <- (map_map (iidx stk ci num_new charge) (fun i => nth i stk dflt_trk)).
  apply Permutation_map. apply NoDup_Permutation_bis.
  - apply NoDup_map_seq. intros a b Ha Hb Heq. exact (iidx_inj stk ci cv num_new Hci Hcv charge a b Ha Hb Heq).
  - rewrite map_length, !seq_length. lia.
  - intros x Hx. apply in_map_iff in Hx. destruct Hx as [t [Ht Hin]]. apply in_seq in Hin. subst x.
    apply in_seq. pose proof (iidx_range stk ci cv num_new Hci Hcv charge t ltac:(lia)). lia.
Qed.

(** exactly-once, initialisation: the multiset of tracks in flight (slots +
    initializer stack) is unchanged; occupied slots are not written *)
Lemma initialize_tracks_perm : forall cfg s s',
  InvA cfg s -> initialize_tracks cfg s = Ok s' ->
  Permutation (all_tracks s') (all_tracks s) /\ next_id s' = next_id s /\
  (forall j, is_inactive (nth j (slots s) dflt_slot) = false -> j < length (slots s) ->
             nth j (slots s') dflt_slot = nth j (slots s) dflt_slot).
Proof.
  intros cfg s s' Hinv H. pose proof Hinv as ((Hl & Hp & Hn) & Hlive & Hready & Hstep).
  unfold initialize_tracks in H.
  destruct (phase_eqb (ph s) Ready) eqn:Hph; cbn [negb] in H; [|discriminate].
  apply phase_eqb_eq in Hph.
  rewrite Hph in Hlive. destruct (Hlive ltac:(discriminate)) as (A & B & C & D).
  destruct (Nat.min (c_vac (cnt s)) (c_init (cnt s)) =? 0) eqn:Hz.
  - inversion H; subst s'; clear H. unfold all_tracks. cbn. auto.
  - set (num_new := Nat.min (c_vac (cnt s)) (c_init (cnt s))) in *.
    assert (Hcv : num_new <= c_vac (cnt s)) by (unfold num_new; lia).
    assert (Hci : num_new <= c_init (cnt s)) by (unfold num_new; lia).
    destruct (init_targets cfg s num_new Hinv Hph Hcv Hci) as [Hnd Htg].
    cbn zeta in Hnd, Htg.
    pose proof (fold_init_write_tracks _ (slots s) Hnd Htg) as Hperm.
    destruct (fold_init_write _ (slots s) Hnd Htg (status_ready_inited _ D)) as (L & N & S & U).
    inversion H; subst s'; clear H. unfold all_tracks. proj_simpl.
    split; [|split; [reflexivity|]].
    + rewrite Hperm. rewrite map_map.
      assert (Hw : forall t, wtrk (init_thread cfg s
                       (if charge_order cfg then partition_initializers (stack s) (c_init (cnt s)) num_new else [])
                       num_new t)
                     = nth (iidx (stack s) (c_init (cnt s)) num_new (charge_order cfg) t) (stack s) dflt_trk).
      { intros t. unfold init_thread, wtrk, iidx. cbn [fst snd]. destruct (charge_order cfg); reflexivity. }
      rewrite (map_ext _ _ Hw).
      rewrite (iidx_window_perm (stack s) (c_init (cnt s)) (c_vac (cnt s)) num_new (charge_order cfg) Hci Hcv A).
      rewrite <- (firstn_skipn (c_init (cnt s) - num_new) (stack s)) at 3.
      rewrite <- app_assoc. rewrite Permutation_app_comm. rewrite <- app_assoc. reflexivity.
    + intros j Hj Hlt. apply U. intros Hin. apply in_map_iff in Hin. destruct Hin as [w [Hw Hwin]].
      destruct (Htg w Hwin) as [_ Hina]. rewrite Hw in Hina. congruence.
Qed.

Lemma InvB_initialize : forall cfg s s',
  InvA cfg s -> InvB cfg s -> initialize_tracks cfg s = Ok s' -> InvB cfg s'.
Proof.
  intros cfg s s' HA HB H.
  destruct (initialize_tracks_perm cfg s s' HA H) as (Hperm & Hnx & _).
  assert (Hph : ph s = Ready).
  { unfold initialize_tracks in H. destruct (phase_eqb (ph s) Ready) eqn:E; [apply phase_eqb_eq; exact E|discriminate]. }
  intros _. rewrite Hnx. apply (bounded_perm _ _ (all_tracks s)); [apply Permutation_sym; exact Hperm|].
  apply HB. rewrite Hph. discriminate.
Qed.

(** ** physics: identities untouched *)
Lemma physics_slots_tracks : forall sls f, active_tracks (physics_slots sls f) = active_tracks sls.
Proof.
  unfold active_tracks, is_active. induction sls as [|x r IH]; intros f; cbn [physics_slots filter map]; [reflexivity|].
  rewrite physics_slot_inactive.
  assert (Hstr : str (physics_slot x (hd dflt_outcome f)) = str x).
  { unfold physics_slot. destruct (sst x); reflexivity. }
  destruct (is_inactive x); cbn [negb map]; rewrite IH; [reflexivity|]. rewrite Hstr. reflexivity.
Qed.

Lemma InvB_physics : forall cfg s f s', InvB cfg s -> physics_outcome cfg s f = Ok s' -> InvB cfg s'.
Proof.
  intros cfg s f s' HB H. unfold physics_outcome in H.
  destruct (phase_eqb (ph s) Inited) eqn:Hph; cbn [negb] in H; [|discriminate].
  apply phase_eqb_eq in Hph. inversion H; subst s'; clear H.
  intros _. unfold all_tracks. proj_simpl. rewrite physics_slots_tracks.
  apply HB. rewrite Hph. discriminate.
Qed.

(** ** extend_from_secondaries *)

(** array-free specification of ProcessSecondariesExecutor for one slot:
    (new slot, initializers pushed, new counters) *)
Definition spec_slot (charge : bool) (sl : slot) (nx : list nat) : slot * list trk * list nat :=
  if status_eqb (sst sl) Inactive then (sl, [], nx)
  else
    let '(ts, nx') := make_secondaries (tid (str sl)) (tev (str sl)) (live_secs sl) nx in
    match ts, negb (status_eqb (sst sl) Alive) && negb charge with
    | t0 :: rest, true => (mkSlot Initializing t0 (ssecs sl) true, rest, nx')
    | _, _ => (if status_eqb (sst sl) Killed then mkSlot Inactive (str sl) (ssecs sl) (sused sl) else sl, ts, nx')
    end.

Fixpoint spec_all (charge : bool) (sls : list slot) (nx : list nat) : list slot * list trk * list nat :=
  match sls with
  | [] => ([], [], nx)
  | sl :: r =>
    let '(sl', q, nx1) := spec_slot charge sl nx in
    let '(sls', qs, nx2) := spec_all charge r nx1 in
    (sl' :: sls', q ++ qs, nx2)
  end.

(** scan_ranges_disjoint, operational form: the writes of one slot land
    exactly on its own window [cinit - offset, cinit - offset + count) *)
Lemma push_secondaries_arr : forall charge nslots cinit i alive ts offset pre junk post par,
  length junk = length ts -> length pre = cinit - offset -> length ts <= offset -> offset <= cinit ->
  fst (push_secondaries charge nslots cinit i alive offset ts (pre ++ junk ++ post) par) = pre ++ ts ++ post.
Proof.
  induction ts as [|t r IH]; intros offset pre junk post par Hj Hpre Hoff Hci.
  - destruct junk; [reflexivity|discriminate].
  - destruct junk as [|j0 junk']; [discriminate|]. cbn [push_secondaries].
    cbn [length] in *. rewrite <- Hpre.
    change ((j0 :: junk') ++ post) with (j0 :: junk' ++ post). rewrite upd_app_exact.
    change (pre ++ t :: junk' ++ post) with (pre ++ [t] ++ junk' ++ post). rewrite app_assoc.
    rewrite (IH (offset - 1) (pre ++ [t]) junk' post); [rewrite <- app_assoc; reflexivity|lia| |lia|lia].
    rewrite app_length. cbn [length]. lia.
Qed.

Lemma locate_count : forall charge i sl nx,
  snd (locate_alive charge i sl) = length (snd (fst (spec_slot charge sl nx))).
Proof.
  intros charge i sl nx. unfold locate_alive, spec_slot.
  destruct (status_eqb (sst sl) Inactive) eqn:Hin.
  { destruct (sst sl); try discriminate. reflexivity. }
  destruct (make_secondaries_lengths (tid (str sl)) (tev (str sl)) (live_secs sl) nx) as [Hts _].
  destruct (make_secondaries _ _ _ nx) as [ts nx']. cbn [fst] in Hts.
  destruct (status_eqb (sst sl) Alive) eqn:Hal; cbn [negb andb].
  - cbn [snd]. destruct ts; cbn [fst snd]; exact (eq_sym Hts).
  - destruct ts as [|t0 rest]; cbn [length] in Hts; rewrite <- Hts; destruct charge; cbn; try reflexivity; lia.
Qed.

Lemma proc_slot_arr : forall charge nslots cinit total ps i sl sc pre junk post,
  p_arr ps = pre ++ junk ++ post ->
  length junk = snd (locate_alive charge i sl) ->
  length pre = cinit - (total - sc) -> length junk <= total - sc -> total - sc <= cinit ->
  let r := proc_slot charge nslots cinit total ps (i, sl, sc) in
  let sp := spec_slot charge sl (p_nx ps) in
  fst r = fst (fst sp) /\ p_arr (snd r) = pre ++ snd (fst sp) ++ post /\ p_nx (snd r) = snd sp.
Proof.
  intros charge nslots cinit total ps i sl sc pre junk post Harr Hj Hpre Hoff Hci. cbn zeta.
  rewrite (locate_count charge i sl (p_nx ps)) in Hj.
  unfold proc_slot, spec_slot in *.
  destruct (status_eqb (sst sl) Inactive) eqn:Hin.
  { cbn [fst snd length] in *. destruct junk; [|discriminate]. auto. }
  destruct (make_secondaries (tid (str sl)) (tev (str sl)) (live_secs sl) (p_nx ps)) as [ts nx'].
  destruct ts as [|t0 rest].
  - cbn [fst snd length] in Hj. destruct junk; [|discriminate].
    cbn [push_secondaries fst snd p_arr p_nx]. rewrite Harr. auto.
  - destruct (negb (status_eqb (sst sl) Alive) && negb charge) eqn:Hcond; cbn [fst snd] in Hj.
    + pose proof (push_secondaries_arr charge nslots cinit i (status_eqb (sst sl) Alive) rest (total - sc)
                    pre junk post (p_par ps) Hj Hpre ltac:(lia) Hci) as Hp.
      rewrite Harr. destruct (push_secondaries _ _ _ _ _ _ rest _ _) as [arr par]. cbn [fst snd p_arr p_nx] in *.
      subst arr. auto.
    + pose proof (push_secondaries_arr charge nslots cinit i (status_eqb (sst sl) Alive) (t0 :: rest) (total - sc)
                    pre junk post (p_par ps) Hj Hpre ltac:(lia) Hci) as Hp.
      rewrite Harr. destruct (push_secondaries _ _ _ _ _ _ (t0 :: rest) _ _) as [arr par]. cbn [fst snd p_arr p_nx] in *.
      subst arr. auto.
Qed.

Lemma spec_all_cons : forall charge sl r nx,
  spec_all charge (sl :: r) nx =
  (fst (fst (spec_slot charge sl nx)) :: fst (fst (spec_all charge r (snd (spec_slot charge sl nx)))),
   snd (fst (spec_slot charge sl nx)) ++ snd (fst (spec_all charge r (snd (spec_slot charge sl nx)))),
   snd (spec_all charge r (snd (spec_slot charge sl nx)))).
Proof.
  intros. cbn [spec_all]. destruct (spec_slot charge sl nx) as [[sl' q] nx1]. cbn [fst snd].
  destruct (spec_all charge r nx1) as [[sls' qs] nx2]. reflexivity.
Qed.

Lemma exclusive_scan_cons : forall acc x r,
  exclusive_scan acc (x :: r) = (acc :: fst (exclusive_scan (acc + x) r), snd (exclusive_scan (acc + x) r)).
Proof. intros. cbn [exclusive_scan]. destruct (exclusive_scan (acc + x) r); reflexivity. Qed.

(** the whole grid: the initializer array after ProcessSecondaries is the old
    stack followed by the pushed secondaries of slot 0, 1, ... in order; no
    default entry is left, nothing is overwritten *)
Lemma proc_all_arr : forall charge nslots cinit total stk sls i W P ps,
  W + list_sum (map snd (locate_all charge i sls)) = total ->
  cinit = length stk + total -> length P = W ->
  p_arr ps = stk ++ P ++ repeat dflt_trk (total - W) ->
  let r := proc_all charge nslots cinit total ps i sls
             (fst (exclusive_scan W (map snd (locate_all charge i sls)))) in
  let sp := spec_all charge sls (p_nx ps) in
  fst r = fst (fst sp) /\ p_arr (snd r) = stk ++ P ++ snd (fst sp) /\ p_nx (snd r) = snd sp.
Proof.
  induction sls as [|sl rest IH]; intros i W P ps Htot Hci HP Harr; cbn zeta.
  - cbn in Htot. cbn [locate_all map exclusive_scan fst proc_all spec_all snd].
    rewrite Harr. replace (total - W) with 0 by lia. cbn [repeat]. auto.
  - cbn [locate_all map] in *. rewrite exclusive_scan_cons. cbn [fst proc_all].
    rewrite spec_all_cons. cbn [fst snd].
    set (c := snd (locate_alive charge i sl)) in *.
    cbn [list_sum fold_right] in Htot. fold (list_sum (map snd (locate_all charge (S i) rest))) in Htot.
    assert (Hsplit : repeat dflt_trk (total - W) = repeat dflt_trk c ++ repeat dflt_trk (total - W - c)).
    { rewrite <- repeat_app. f_equal. lia. }
    pose proof (proc_slot_arr charge nslots cinit total ps i sl W (stk ++ P) (repeat dflt_trk c)
                  (repeat dflt_trk (total - W - c))) as Hs.
    cbn zeta in Hs. destruct Hs as (S1 & S2 & S3).
    { rewrite Harr, Hsplit, <- app_assoc. reflexivity. }
    { apply repeat_length. }
    { rewrite app_length. lia. }
    { rewrite repeat_length. lia. }
    { lia. }
    destruct (proc_slot charge nslots cinit total ps (i, sl, W)) as [sl' ps'] eqn:Hp. cbn [fst snd] in *.
    set (q := snd (fst (spec_slot charge sl (p_nx ps)))) in *.
    assert (Hq : length q = c) by (unfold q, c; symmetry; apply locate_count).
    specialize (IH (S i) (W + c) (P ++ q) ps' ltac:(lia) Hci ltac:(rewrite app_length; lia)).
    cbn zeta in IH. destruct IH as (I1 & I2 & I3).
    { rewrite S2. rewrite <- !app_assoc. f_equal. f_equal. f_equal. f_equal. lia. }
    destruct (proc_all charge nslots cinit total ps' (S i) rest _) as [sls' ps''] eqn:Hq'. cbn [fst snd] in *.
    rewrite S3 in *. split; [rewrite S1, I1; reflexivity|]. split; [|exact I3].
    rewrite I2. rewrite <- !app_assoc. reflexivity.
Qed.

(** *** identities created by ProcessSecondaries *)

Definition survivors (sls : list slot) : list trk :=
  map str (filter (fun sl => status_eqb (sst sl) Alive) sls).

Lemma make_secondaries_cons : forall p ev k r nx,
  make_secondaries p ev (k :: r) nx =
  (mk_secondary p ev (nth ev nx 0) k :: fst (make_secondaries p ev r (upd ev (S (nth ev nx 0)) nx)),
   snd (make_secondaries p ev r (upd ev (S (nth ev nx 0)) nx))).
Proof.
  intros. cbn [make_secondaries]. unfold make_track_id.
  destruct (make_secondaries p ev r _); reflexivity.
Qed.

Lemma make_secondaries_fresh : forall nev p ev ks nx,
  ev < nev -> length nx = nev ->
  fresh_batch nev nx (snd (make_secondaries p ev ks nx)) (fst (make_secondaries p ev ks nx)) /\
  Forall (fun t => tev t = ev /\ tpar t = Some p) (fst (make_secondaries p ev ks nx)).
Proof.
  induction ks as [|k r IH]; intros nx Hev Hlen; [split; [apply fresh_batch_nil|constructor]|].
  rewrite make_secondaries_cons. cbn [fst snd].
  pose proof (make_track_id_fresh nev ev nx (mk_secondary p ev (nth ev nx 0) k) Hev Hlen eq_refl eq_refl) as Hf1.
  unfold make_track_id in Hf1. cbn [snd] in Hf1.
  set (nx1 := upd ev (S (nth ev nx 0)) nx) in *.
  destruct (IH nx1 Hev ltac:(unfold nx1; rewrite upd_length; exact Hlen)) as [Hf2 Hn2].
  split; [|constructor; [split; reflexivity|exact Hn2]].
  change (mk_secondary p ev (nth ev nx 0) k :: fst (make_secondaries p ev r nx1))
    with ([mk_secondary p ev (nth ev nx 0) k] ++ fst (make_secondaries p ev r nx1)).
  eapply fresh_batch_app; eauto.
Qed.

Lemma spec_slot_tracks : forall nev charge sl nx,
  status_ok Interacted (sst sl) -> length nx = nev ->
  (is_active sl = true -> tev (str sl) < nev) ->
  exists news,
    fresh_batch nev nx (snd (spec_slot charge sl nx)) news /\
    Forall (fun t => tev t = tev (str sl) /\ tpar t = Some (tid (str sl))) news /\
    Permutation (active_tracks [fst (fst (spec_slot charge sl nx))] ++ snd (fst (spec_slot charge sl nx)))
                (survivors [sl] ++ news).
Proof.
  intros nev charge sl nx Hst Hlen Hev. unfold spec_slot.
  destruct (status_eqb (sst sl) Inactive) eqn:Hin.
  { exists []. cbn [fst snd]. split; [apply fresh_batch_nil|]. split; [constructor|].
    unfold active_tracks, survivors, is_active, is_inactive. cbn [filter]. rewrite Hin.
    destruct (sst sl); try discriminate. cbn. constructor. }
  assert (Hact : is_active sl = true) by (unfold is_active, is_inactive; rewrite Hin; reflexivity).
  destruct (make_secondaries_fresh nev (tid (str sl)) (tev (str sl)) (live_secs sl) nx (Hev Hact) Hlen) as [Hf Hp].
  destruct (make_secondaries (tid (str sl)) (tev (str sl)) (live_secs sl) nx) as [ts nx'].
  cbn [fst snd] in Hf, Hp. exists ts.
  cbn in Hst. destruct Hst as [Hs|[Hs|Hs]]; rewrite Hs in *; try discriminate; cbn [status_eqb negb andb].
  - (* alive: the slot is untouched, every secondary is pushed *)
    assert (E : (match ts with | t0 :: rest => (sl, ts, nx') | [] => (sl, ts, nx') end) = (sl, ts, nx')) by (destruct ts; reflexivity).
    replace (match ts with | [] => (sl, ts, nx') | _ :: _ => (sl, ts, nx') end) with (sl, ts, nx') by (destruct ts; reflexivity).
    cbn [fst snd]. split; [exact Hf|]. split; [exact Hp|].
    unfold active_tracks, survivors, is_active, is_inactive. cbn [filter]. rewrite Hs. cbn. reflexivity.
  - (* killed *)
    destruct ts as [|t0 rest]; [|destruct charge]; cbn [negb fst snd].
    + split; [exact Hf|]. split; [exact Hp|].
      unfold active_tracks, survivors, is_active, is_inactive. cbn [filter sst]. rewrite Hs. cbn. constructor.
    + split; [exact Hf|]. split; [exact Hp|].
      unfold active_tracks, survivors, is_active, is_inactive. cbn [filter sst]. rewrite Hs. cbn. reflexivity.
    + split; [exact Hf|]. split; [exact Hp|].
      unfold active_tracks, survivors, is_active, is_inactive. cbn [filter sst]. rewrite Hs. cbn. reflexivity.
Qed.

Lemma perm_4 : forall {A} (a b c d : list A), Permutation ((a ++ c) ++ b ++ d) ((a ++ b) ++ c ++ d).
Proof.
  intros. rewrite <- !app_assoc. apply Permutation_app_head. rewrite !app_assoc.
  apply Permutation_app_tail. apply Permutation_app_comm.
Qed.

Lemma spec_all_tracks : forall nev charge sls nx,
  Forall (fun sl => status_ok Interacted (sst sl)) sls -> length nx = nev ->
  Forall (fun sl => is_active sl = true ->
                    tev (str sl) < nev /\ tid (str sl) < nth (tev (str sl)) nx 0) sls ->
  exists news,
    fresh_batch nev nx (snd (spec_all charge sls nx)) news /\
    Forall (fun t => forall p, tpar t = Some p -> p < tid t) news /\
    Permutation (active_tracks (fst (fst (spec_all charge sls nx))) ++ snd (fst (spec_all charge sls nx)))
                (survivors sls ++ news).
Proof.
  induction sls as [|sl r IH]; intros nx Hst Hlen Hb.
  - exists []. cbn. split; [apply fresh_batch_nil|]. split; constructor.
  - pose proof (Forall_inv Hst) as Hs1. pose proof (Forall_inv_tail Hst) as Hsr.
    pose proof (Forall_inv Hb) as Hb1. pose proof (Forall_inv_tail Hb) as Hbr. cbn beta in Hs1, Hb1.
    rewrite spec_all_cons. cbn [fst snd].
    destruct (spec_slot_tracks nev charge sl nx Hs1 Hlen (fun a => proj1 (Hb1 a))) as (n1 & F1 & P1 & M1).
    set (nx1 := snd (spec_slot charge sl nx)) in *.
    assert (Hlen1 : length nx1 = nev) by (destruct F1 as (L & _); congruence).
    destruct (IH nx1 Hsr Hlen1) as (n2 & F2 & Q2 & M2).
    { eapply Forall_impl; [|exact Hbr]. intros x Hx Ha. destruct (Hx Ha) as [A B]. split; [exact A|].
      destruct F1 as (_ & Mono & _). specialize (Mono (tev (str x))). lia. }
    exists (n1 ++ n2). split; [eapply fresh_batch_app; eauto|]. split.
    + apply Forall_app. split; [|exact Q2].
      rewrite Forall_forall in *. intros t Ht p Hp.
      destruct (P1 t Ht) as [Pe Pp]. rewrite Pp in Hp. inversion Hp; subst p.
      pose proof F1 as (_ & _ & Fr & _). rewrite Forall_forall in Fr. destruct (Fr t Ht) as [_ Fr'].
      (* the parent is the (active) track of this slot *)
      assert (Ha : is_active sl = true).
      { destruct (is_active sl) eqn:E; [reflexivity|exfalso].
        unfold is_active in E. apply negb_false_iff in E. unfold is_inactive in E.
        unfold spec_slot in M1. rewrite E in M1. cbn [fst snd] in M1.
        unfold active_tracks, survivors, is_active, is_inactive in M1. cbn [filter] in M1. rewrite E in M1.
        destruct (sst sl); try discriminate. cbn in M1. apply Permutation_nil in M1. subst n1. destruct Ht. }
      destruct (Hb1 Ha) as [_ Hlt]. rewrite Pe in Fr'. lia.
    + change (fst (fst (spec_slot charge sl nx)) :: fst (fst (spec_all charge r nx1)))
        with ([fst (fst (spec_slot charge sl nx))] ++ fst (fst (spec_all charge r nx1))).
      rewrite active_tracks_app.
      change (survivors (sl :: r)) with (survivors ([sl] ++ r)).
      unfold survivors at 1. rewrite filter_app, map_app. fold (survivors [sl]). fold (survivors r).
      rewrite perm_4. rewrite M1, M2. apply perm_4.
Qed.

Lemma NoDup_map_filter : forall {A B} (g : A -> B) (f : A -> bool) l, NoDup (map g l) -> NoDup (map g (filter f l)).
Proof.
  induction l as [|x r IH]; intros H; cbn; [constructor|]. inversion H as [|? ? Hx Hr]; subst.
  destruct (f x); cbn; [|apply IH; exact Hr]. constructor; [|apply IH; exact Hr].
  intros Hin. apply Hx. apply in_map_iff in Hin. destruct Hin as [y [Hy Hyin]]. apply filter_In in Hyin.
  apply in_map_iff. exists y. tauto.
Qed.

Lemma survivors_sub : forall sls, exists rest, Permutation (active_tracks sls) (survivors sls ++ rest).
Proof.
  induction sls as [|sl r [rest IH]]; [exists []; constructor|].
  unfold active_tracks, survivors, is_active, is_inactive in *. cbn [filter].
  destruct (sst sl); cbn [status_eqb negb map].
  - exists rest. exact IH.
  - exists (str sl :: rest). rewrite IH. apply Permutation_middle.
  - exists rest. cbn. constructor. exact IH.
  - exists (str sl :: rest). rewrite IH. apply Permutation_middle.
  - exists (str sl :: rest). rewrite IH. apply Permutation_middle.
Qed.

(** exactly-once, secondaries: the population after the step is the alive
    tracks and the old stack plus one fresh track per emitted secondary *)
Lemma extend_from_secondaries_tracks : forall cfg s s',
  InvA cfg s -> InvB cfg s -> extend_from_secondaries cfg s = Ok s' ->
  exists news,
    Permutation (all_tracks s') ((survivors (slots s) ++ stack s) ++ news) /\
    fresh_batch (n_events cfg) (next_id s) (next_id s') news /\
    Forall (fun t => forall p, tpar t = Some p -> p < tid t) news /\
    slots s' = fst (fst (spec_all (charge_order cfg) (slots s) (next_id s))).
Proof.
  intros cfg s s' ((Hl & Hp & Hn) & Hlive & Hready & Hstep) HB H.
  unfold extend_from_secondaries in H.
  destruct (phase_eqb (ph s) Interacted) eqn:Hph; cbn [negb] in H; [|discriminate].
  apply phase_eqb_eq in Hph. rewrite Hph in Hlive.
  destruct (Hlive ltac:(discriminate)) as (A & B & C & D).
  destruct (HB ltac:(rewrite Hph; discriminate)) as [Hnd Hbd].
  pose proof (exclusive_scan_total (map snd (locate_all (charge_order cfg) 0 (slots s))) 0) as Htot.
  destruct (exclusive_scan 0 (map snd (locate_all (charge_order cfg) 0 (slots s)))) as [scan total] eqn:Hscan.
  cbn [snd] in Htot.
  destruct (capacity cfg <? c_init (cnt s) + total) eqn:Hcap; [discriminate|].
  pose proof (proc_all_arr (charge_order cfg) (n_slots cfg) (c_init (cnt s) + total) total (stack s) (slots s) 0 0 []
                (mkP (stack s ++ repeat dflt_trk total) (parents s) (next_id s))
                ltac:(lia) ltac:(lia) eq_refl) as Harr.
  cbn zeta in Harr. rewrite Hscan in Harr. cbn [fst p_arr p_nx app] in Harr.
  rewrite Nat.sub_0_r in Harr. specialize (Harr eq_refl). destruct Harr as (R1 & R2 & R3).
  destruct (proc_all _ _ _ _ _ _ _ _) as [slots' ps] eqn:Hpa. cbn [fst snd] in *.
  inversion H; subst s'; clear H.
  destruct (spec_all_tracks (n_events cfg) (charge_order cfg) (slots s) (next_id s) D Hn) as (news & F & Q & M).
  { rewrite Forall_forall. intros sl Hin Ha.
    assert (Hin' : In (str sl) (all_tracks s)).
    { unfold all_tracks, active_tracks. apply in_or_app. left. apply in_map. apply filter_In. auto. }
    rewrite Forall_forall in Hbd. destruct (Hbd _ Hin') as (B1 & B2 & _). auto. }
  exists news. unfold all_tracks. proj_simpl. rewrite R1, R2, R3.
  split; [|split; [exact F|split; [exact Q|reflexivity]]].
  rewrite (Permutation_app_comm (stack s)). rewrite app_assoc. rewrite M.
  rewrite <- !app_assoc. apply Permutation_app_head. apply Permutation_app_comm.
Qed.

Lemma InvB_extend_sec : forall cfg s s',
  InvA cfg s -> InvB cfg s -> extend_from_secondaries cfg s = Ok s' -> InvB cfg s'.
Proof.
  intros cfg s s' HA HB H.
  destruct (extend_from_secondaries_tracks cfg s s' HA HB H) as (news & P & F & Q & _).
  assert (Hph : ph s = Interacted).
  { unfold extend_from_secondaries in H. destruct (phase_eqb (ph s) Interacted) eqn:E; [apply phase_eqb_eq; exact E|discriminate]. }
  destruct (HB ltac:(rewrite Hph; discriminate)) as [Hnd Hbd].
  intros _. apply (bounded_perm _ _ _ _ (Permutation_sym P)).
  destruct (survivors_sub (slots s)) as [rest Hrest].
  assert (Hall : Permutation (all_tracks s) ((survivors (slots s) ++ stack s) ++ rest)).
  { unfold all_tracks. rewrite Hrest. rewrite <- !app_assoc. apply Permutation_app_head. apply Permutation_app_comm. }
  destruct (bounded_perm _ _ _ _ Hall (conj Hnd Hbd)) as [Hnd2 Hbd2].
  rewrite map_app in Hnd2. apply NoDup_app_elim in Hnd2. destruct Hnd2 as (N1 & _ & _).
  apply Forall_app in Hbd2. destruct Hbd2 as [B1 _].
  eapply extend_fresh; eauto.
Qed.

(** ** reset / reseed / extend_from_primaries / errors *)

Lemma active_tracks_all_inactive : forall sls,
  Forall (fun sl => is_inactive sl = true) sls -> active_tracks sls = [].
Proof.
  unfold active_tracks, is_active. induction sls as [|x r IH]; intros H; [reflexivity|].
  inversion H; subst. cbn [filter]. rewrite H2. cbn. apply IH. assumption.
Qed.

Lemma InvB_reset : forall cfg s s', reset cfg s = Ok s' -> InvB cfg s' /\ all_tracks s' = [].
Proof.
  intros cfg s s' H. unfold reset in H. inversion H; subst s'; clear H.
  assert (E : all_tracks (mkState (map (fun sl => mkSlot Inactive (str sl) (ssecs sl) (sused sl)) (slots s)) []
                            (parents s) (seq 0 (n_slots cfg)) (mkCnt 0 0 (n_slots cfg) 0 0 0) (next_id s) Ready) = []).
  { unfold all_tracks. cbn [slots stack]. rewrite active_tracks_all_inactive by apply map_reset_inactive. reflexivity. }
  split; [|exact E]. intros _. rewrite E. split; constructor.
Qed.

Lemma drained_no_tracks : forall cfg s, InvA cfg s -> ph s = Ready -> drained s = true -> all_tracks s = [].
Proof.
  intros cfg s (_ & Hlive & _) Hph Hd. rewrite Hph in Hlive. destruct (Hlive ltac:(discriminate)) as (A & _).
  unfold drained in Hd. apply andb_true_iff in Hd. destruct Hd as [H1 H2]. apply Nat.eqb_eq in H2.
  unfold all_tracks. rewrite active_tracks_all_inactive.
  - destruct (stack s); [reflexivity|]. cbn in A. lia.
  - rewrite forallb_forall in H1. apply Forall_forall. exact H1.
Qed.

Lemma InvB_reseed : forall cfg s s', InvA cfg s -> reseed cfg s = Ok s' -> InvB cfg s'.
Proof.
  intros cfg s s' HA H. unfold reseed in H.
  destruct (phase_eqb (ph s) Ready) eqn:Hph; cbn [negb] in H; [|discriminate].
  destruct (drained s) eqn:Hd; cbn [negb] in H; [|discriminate].
  apply phase_eqb_eq in Hph. inversion H; subst s'; clear H.
  pose proof (drained_no_tracks cfg s HA Hph Hd) as E.
  intros _. unfold all_tracks in *. proj_simpl. rewrite E. split; constructor.
Qed.

Lemma InvB_extend_prim : forall cfg s s', InvB cfg s -> extend_from_primaries cfg s = Ok s' -> InvB cfg s'.
Proof.
  intros cfg s s' HB H. unfold extend_from_primaries in H.
  destruct (phase_eqb (ph s) Ready) eqn:Hph; cbn [negb] in H; [|discriminate].
  apply phase_eqb_eq in Hph. inversion H; subst s'; clear H.
  intros _. unfold all_tracks. proj_simpl. apply HB. rewrite Hph. discriminate.
Qed.

Lemma InvB_init : forall cfg, InvB cfg (init_state cfg).
Proof.
  intros cfg _. unfold all_tracks, init_state. cbn [slots stack].
  rewrite active_tracks_all_inactive by apply repeat_dflt_inactive. split; constructor.
Qed.

Lemma InvB_of_failed : forall cfg s, ph s = Failed -> InvB cfg s.
Proof. intros cfg s H Hc. contradiction. Qed.
