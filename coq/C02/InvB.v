(** * C02: track identity invariant (event-unique ids, issued parents) and the
    exactly-once bookkeeping of every operation. *)
From Coq Require Import List Arith Bool PeanoNat Lia Permutation.
From Celer Require Import C02.TrackInit C02.ListLemmas C02.InvA C02.InvA2.
Import ListNotations.

Definition key (t : trk) : nat * nat := (tev t, tid t).

Definition is_active (sl : slot) : bool := negb (is_inactive sl).
Definition active_tracks (sls : list slot) : list trk := map str (filter is_active sls).
Definition all_tracks (s : state) : list trk := active_tracks (slots s) ++ stack s.

Lemma active_tracks_app : forall a b, active_tracks (a ++ b) = active_tracks a ++ active_tracks b.
Proof. intros. unfold active_tracks. rewrite filter_app, map_app. reflexivity. Qed.

(** every track in flight has an id below its event's counter, a known event,
    and a parent that was issued before it *)
Definition bounded (nev : nat) (nx : list nat) (t : trk) : Prop :=
  tev t < nev /\ tid t < nth (tev t) nx 0 /\ (forall p, tpar t = Some p -> p < tid t).

Definition InvB (cfg : config) (s : state) : Prop :=
  ph s <> Failed ->
  NoDup (map key (all_tracks s)) /\ Forall (bounded (n_events cfg) (next_id s)) (all_tracks s).

(** ** Batches of freshly issued ids *)

Definition fresh_batch (nev : nat) (nx nx' : list nat) (ts : list trk) : Prop :=
  length nx' = length nx /\
  (forall e, nth e nx 0 <= nth e nx' 0) /\
  Forall (fun t => tev t < nev /\ nth (tev t) nx 0 <= tid t < nth (tev t) nx' 0) ts /\
  NoDup (map key ts).

Lemma fresh_batch_nil : forall nev nx, fresh_batch nev nx nx [].
Proof. intros. repeat split; auto; constructor. Qed.

Lemma fresh_batch_app : forall nev nx nx1 nx2 a b,
  fresh_batch nev nx nx1 a -> fresh_batch nev nx1 nx2 b -> fresh_batch nev nx nx2 (a ++ b).
Proof.
  intros nev nx nx1 nx2 a b (L1 & M1 & F1 & N1) (L2 & M2 & F2 & N2).
  split; [congruence|]. split; [intros e; specialize (M1 e); specialize (M2 e); lia|]. split.
  - apply Forall_app. split.
    + eapply Forall_impl; [|exact F1]. intros t (A & B). split; [exact A|]. specialize (M2 (tev t)). lia.
    + eapply Forall_impl; [|exact F2]. intros t (A & B). split; [exact A|]. specialize (M1 (tev t)). lia.
  - rewrite map_app. apply NoDup_app_iff'. split; [exact N1|]. split; [exact N2|].
    intros k [Ha Hb]. apply in_map_iff in Ha, Hb. destruct Ha as [ta [Ka Ia]]. destruct Hb as [tb [Kb Ib]].
    rewrite Forall_forall in F1, F2. specialize (F1 ta Ia). specialize (F2 tb Ib).
    unfold key in *. subst k. inversion Kb as [[He Hi]]. rewrite He in F2. lia.
Qed.
