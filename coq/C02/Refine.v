(** * C02/C16: after an error and [reset] the machine behaves like a fresh one.

    [reset] (CoreState::reset) leaves stale track data in the (now inactive)
    slots, stale secondaries, a stale [parents] scratch array and does not
    touch the per-event track counters (that is Stepper::reseed's job).  We
    show that none of the stale data can ever be observed: the reset state is
    bisimilar to the freshly constructed state with the same track counters,
    for every continuation that starts, as every Stepper step does, with the
    primaries action (which clears [parents]). *)
From Coq Require Import List Arith Bool PeanoNat Lia.
From Celer Require Import C02.TrackInit C02.ListLemmas.
Import ListNotations.

(** what can be observed of a slot: its status; the track of a slot that is
    not inactive; the attached secondaries only between the interaction and
    extend-from-secondaries *)
Definition slot_rel (p : phase) (x y : slot) : Prop :=
  sst x = sst y /\
  (sst x <> Inactive -> str x = str y /\ (p = Interacted -> ssecs x = ssecs y)).

(** [pp = true]: the parents scratch array is compared too *)
Definition state_rel (pp : bool) (a b : state) : Prop :=
  ph a = ph b /\ stack a = stack b /\ (pp = true -> parents a = parents b) /\ vac a = vac b /\
  cnt a = cnt b /\ next_id a = next_id b /\ Forall2 (slot_rel (ph a)) (slots a) (slots b).

Definition res_rel (r r' : result) : Prop :=
  match r, r' with
  | Ok a, Ok b => state_rel true a b
  | Err a, Err b => state_rel true a b
  | Misuse, Misuse => True
  | _, _ => False
  end.

(** the freshly constructed state, except that the track counters are [nx] *)
Definition fresh_with (cfg : config) (nx : list nat) : state :=
  mkState (repeat dflt_slot (n_slots cfg)) [] (clear_parents (n_slots cfg))
    (seq 0 (n_slots cfg)) (mkCnt 0 0 (n_slots cfg) 0 0 0) nx Ready.

Lemma slot_rel_weaken : forall p p' x y, p' <> Interacted -> slot_rel p x y -> slot_rel p' x y.
Proof.
  intros p p' x y Hp [H1 H2]. split; [exact H1|]. intros Hn. destruct (H2 Hn) as [H3 _]. split; [exact H3|].
  intros E. contradiction.
Qed.

Lemma Forall2_weaken : forall p p' sa sb, p' <> Interacted ->
  Forall2 (slot_rel p) sa sb -> Forall2 (slot_rel p') sa sb.
Proof. intros p p' sa sb Hp H. induction H; constructor; eauto using slot_rel_weaken. Qed.

Lemma Forall2_upd : forall {A} (P : A -> A -> Prop) la lb i x y,
  Forall2 P la lb -> P x y -> Forall2 P (upd i x la) (upd i y lb).
Proof.
  intros A P la lb i x y H Hxy. revert i. induction H as [|a b ra rb Hab Hr IH]; intros i; [destruct i; constructor|].
  destruct i; cbn; constructor; auto.
Qed.

Lemma phase_eqb_eq_local : forall a b, phase_eqb a b = true -> a = b.
Proof. intros a b; destruct a, b; cbn; congruence. Qed.

(** ** per-op simulation *)

Lemma sim_init_write : forall p ws sa sb, p <> Interacted ->
  Forall2 (slot_rel p) sa sb -> Forall2 (slot_rel p) (fold_left init_write ws sa) (fold_left init_write ws sb).
Proof.
  intros p. induction ws as [|[[sid ini] par] ws IH]; intros sa sb Hp H; [exact H|].
  cbn [fold_left]. apply IH; [exact Hp|]. unfold init_write. apply Forall2_upd; [exact H|].
  split; [reflexivity|]. intros _. split; [reflexivity|]. intros E. contradiction.
Qed.

Lemma sim_physics_slots : forall p sa sb f, Forall2 (slot_rel p) sa sb ->
  Forall2 (slot_rel Interacted) (physics_slots sa f) (physics_slots sb f).
Proof.
  intros p sa sb f H. revert f. induction H as [|x y ra rb [H1 H2] Hr IH]; intros f; [constructor|].
  cbn [physics_slots]. constructor; [|apply IH].
  unfold physics_slot. rewrite <- H1. destruct (sst x) eqn:Hs.
  - split; [congruence|]. intros Hn. congruence.
  - destruct (H2 ltac:(discriminate)) as [H3 _]. split; [reflexivity|]. intros _. cbn. rewrite H3. auto.
  - destruct (H2 ltac:(discriminate)) as [H3 _]. split; [reflexivity|]. intros _. cbn. rewrite H3. auto.
  - destruct (H2 ltac:(discriminate)) as [H3 _]. split; [reflexivity|]. intros _. cbn. rewrite H3. auto.
  - destruct (H2 ltac:(discriminate)) as [H3 _]. split; [reflexivity|]. intros _. cbn. rewrite H3. auto.
Qed.

Lemma sim_locate_all : forall charge sa sb i, Forall2 (slot_rel Interacted) sa sb ->
  locate_all charge i sa = locate_all charge i sb.
Proof.
  intros charge sa sb i H. revert i. induction H as [|x y ra rb [H1 H2] Hr IH]; intros i; [reflexivity|].
  cbn [locate_all]. rewrite IH. f_equal. unfold locate_alive, live_secs. rewrite <- H1.
  destruct (sst x) eqn:Hs; cbn [status_eqb]; try reflexivity;
    destruct (H2 ltac:(discriminate)) as [_ H4]; rewrite (H4 eq_refl); reflexivity.
Qed.

Lemma sim_proc_slot : forall charge nslots cinit total ps i x y sc,
  slot_rel Interacted x y ->
  slot_rel Ready (fst (proc_slot charge nslots cinit total ps (i, x, sc)))
                 (fst (proc_slot charge nslots cinit total ps (i, y, sc))) /\
  snd (proc_slot charge nslots cinit total ps (i, x, sc)) = snd (proc_slot charge nslots cinit total ps (i, y, sc)).
Proof.
  intros charge nslots cinit total ps i x y sc [H1 H2]. unfold proc_slot. rewrite <- H1.
  destruct (status_eqb (sst x) Inactive) eqn:Hin.
  { cbn [fst snd]. split; [|reflexivity]. split; [exact H1|]. intros Hn. destruct (sst x); try discriminate. contradiction. }
  assert (Hn : sst x <> Inactive) by (intros E; rewrite E in Hin; discriminate).
  destruct (H2 Hn) as [H3 H4]. specialize (H4 eq_refl). unfold live_secs. rewrite <- H3, <- H4.
  destruct (make_secondaries _ _ _ _) as [ts nx'].
  destruct ts as [|t0 rest]; [|destruct (negb (status_eqb (sst x) Alive) && negb charge)].
  - destruct (push_secondaries _ _ _ _ _ _ _ _ _) as [arr par]. cbn [fst snd]. split; [|reflexivity].
    destruct (status_eqb (sst x) Killed).
    + split; [reflexivity|]. intros E. cbn in E. contradiction.
    + split; [exact H1|]. intros _. split; [exact H3|]. discriminate.
  - destruct (push_secondaries _ _ _ _ _ _ _ _ _) as [arr par]. cbn [fst snd]. split; [|reflexivity].
    split; [reflexivity|]. intros _. split; [reflexivity|]. discriminate.
  - destruct (push_secondaries _ _ _ _ _ _ _ _ _) as [arr par]. cbn [fst snd]. split; [|reflexivity].
    destruct (status_eqb (sst x) Killed).
    + split; [reflexivity|]. intros E. cbn in E. contradiction.
    + split; [exact H1|]. intros _. split; [exact H3|]. discriminate.
Qed.

Lemma sim_proc_all : forall charge nslots cinit total sa sb,
  Forall2 (slot_rel Interacted) sa sb -> forall ps i scan,
  Forall2 (slot_rel Ready) (fst (proc_all charge nslots cinit total ps i sa scan))
                           (fst (proc_all charge nslots cinit total ps i sb scan)) /\
  snd (proc_all charge nslots cinit total ps i sa scan) = snd (proc_all charge nslots cinit total ps i sb scan).
Proof.
  intros charge nslots cinit total sa sb H. induction H as [|x y ra rb Hxy Hr IH]; intros ps i scan.
  - cbn. split; [constructor|reflexivity].
  - destruct scan as [|sc rs]; [cbn; split; [constructor|reflexivity]|].
    cbn [proc_all]. destruct (sim_proc_slot charge nslots cinit total ps i x y sc Hxy) as [S1 S2].
    destruct (proc_slot charge nslots cinit total ps (i, x, sc)) as [x' psx].
    destruct (proc_slot charge nslots cinit total ps (i, y, sc)) as [y' psy]. cbn [fst snd] in S1, S2. subst psy.
    destruct (IH psx (S i) rs) as [I1 I2].
    destruct (proc_all charge nslots cinit total psx (S i) ra rs) as [ra' p1].
    destruct (proc_all charge nslots cinit total psx (S i) rb rs) as [rb' p2]. cbn [fst snd] in *. subst p2.
    split; [constructor; assumption|reflexivity].
Qed.

Lemma sim_drained_slots : forall p sa sb, Forall2 (slot_rel p) sa sb ->
  forallb (fun sl => status_eqb (sst sl) Inactive) sa = forallb (fun sl => status_eqb (sst sl) Inactive) sb.
Proof.
  intros p sa sb H. induction H as [|x y ra rb [H1 _] Hr IH]; [reflexivity|]. cbn. rewrite H1, IH. reflexivity.
Qed.

Lemma sim_reset_slots : forall p p' sa sb, Forall2 (slot_rel p) sa sb ->
  Forall2 (slot_rel p') (map (fun sl => mkSlot Inactive (str sl) (ssecs sl) (sused sl)) sa)
                        (map (fun sl => mkSlot Inactive (str sl) (ssecs sl) (sused sl)) sb).
Proof.
  intros p p' sa sb H. induction H; cbn; constructor; auto. split; [reflexivity|]. intros E. cbn in E. contradiction.
Qed.

(** every op maps related states to related results *)
Lemma sim_step : forall cfg a b o, state_rel true a b -> res_rel (step cfg a o) (step cfg b o).
Proof.
  intros cfg [sa stk par vc cn nx p] [sb stk' par' vc' cn' nx' p'] o (E1 & E2 & E3 & E4 & E5 & E6 & HS).
  cbn [ph stack parents vac cnt next_id slots] in *. specialize (E3 eq_refl). subst stk' par' vc' cn' nx' p'.
  assert (Hw : forall q, q <> Interacted -> Forall2 (slot_rel q) sa sb) by (intros q Hq; eapply Forall2_weaken; eauto).
  unfold step. cbn [ph]. destruct o as [ps| | |f| | |].
  - (* insert *)
    destruct (phase_eqb p Failed); [exact I|]. unfold insert_primaries. cbn [ph cnt stack next_id slots vac parents].
    destruct (negb (phase_eqb p Ready)) eqn:Hp; [exact I|]. destruct (negb (forallb _ ps)); [exact I|].
    destruct (capacity cfg <? length ps + c_init cn).
    + cbn. unfold set_ph. cbn. repeat split; auto. apply Hw. discriminate.
    + destruct (process_primaries _ _ _ _) as [arr nx2]. cbn. repeat split; auto. apply Hw. discriminate.
  - destruct (phase_eqb p Failed); [exact I|]. unfold extend_from_primaries. cbn [ph cnt stack next_id slots vac parents].
    destruct (negb (phase_eqb p Ready)); [exact I|]. cbn. repeat split; auto. apply Hw. discriminate.
  - (* initialize-tracks *)
    destruct (phase_eqb p Failed); [exact I|]. unfold initialize_tracks. cbn [ph cnt stack next_id slots vac parents].
    destruct (negb (phase_eqb p Ready)); [exact I|].
    destruct (Nat.min (c_vac cn) (c_init cn) =? 0).
    + cbn. repeat split; auto. apply Hw. discriminate.
    + cbn [res_rel]. unfold state_rel. cbn [ph cnt stack next_id slots vac parents]. repeat split; auto.
      assert (Hwr : forall ind t, init_thread cfg (mkState sa stk par vc cn nx p) ind (Nat.min (c_vac cn) (c_init cn)) t
                               = init_thread cfg (mkState sb stk par vc cn nx p) ind (Nat.min (c_vac cn) (c_init cn)) t)
        by reflexivity.
      rewrite (map_ext _ _ (Hwr _)). apply sim_init_write; [discriminate|]. apply Hw. discriminate.
  - (* physics *)
    destruct (phase_eqb p Failed); [exact I|]. unfold physics_outcome. cbn [ph cnt stack next_id slots vac parents].
    destruct (negb (phase_eqb p Inited)); [exact I|]. cbn. repeat split; auto. eapply sim_physics_slots; eauto.
  - (* extend-from-secondaries *)
    destruct (phase_eqb p Failed); [exact I|]. unfold extend_from_secondaries. cbn [ph cnt stack next_id slots vac parents].
    destruct (phase_eqb p Interacted) eqn:Hp; cbn [negb]; [|exact I].
    apply phase_eqb_eq_local in Hp. subst p.
    rewrite (sim_locate_all (charge_order cfg) sa sb 0 HS).
    destruct (exclusive_scan 0 _) as [scan total].
    destruct (capacity cfg <? c_init cn + total).
    + cbn. repeat split; auto. apply Hw. discriminate.
    + destruct (sim_proc_all (charge_order cfg) (n_slots cfg) (c_init cn + total) total sa sb HS
                  (mkP (stk ++ repeat dflt_trk total) par nx) 0 scan) as [P1 P2].
      destruct (proc_all _ _ _ _ _ _ sa _) as [sa' psa]. destruct (proc_all _ _ _ _ _ _ sb _) as [sb' psb].
      cbn [fst snd] in P1, P2. subst psb. cbn. repeat split; auto.
  - (* reset *)
    unfold reset. cbn. repeat split; auto. eapply sim_reset_slots; eauto.
  - (* reseed *)
    destruct (phase_eqb p Failed); [exact I|]. unfold reseed. cbn [ph cnt stack next_id slots vac parents].
    destruct (negb (phase_eqb p Ready)); [exact I|]. unfold drained. cbn [slots cnt].
    rewrite (sim_drained_slots p sa sb HS).
    destruct (negb _); [exact I|]. cbn. repeat split; auto. apply Hw. discriminate.
Qed.

(** ** ops that do not look at the parents array work on states that differ there *)

Definition reads_parents (o : op) : bool :=
  match o with InitializeTracks | PhysicsOutcome _ | ExtendFromSecondaries => true | _ => false end.

Definition clears_parents (o : op) : bool :=
  match o with InsertPrimaries _ | ExtendFromPrimaries => true | _ => false end.

Definition res_rel_gen (pp : bool) (o : op) (r r' : result) : Prop :=
  match r, r' with
  | Ok a, Ok b => state_rel (pp || clears_parents o) a b
  | Err a, Err b => state_rel pp a b
  | Misuse, Misuse => True
  | _, _ => False
  end.

Lemma sim_step_weak : forall cfg a b o, state_rel false a b -> reads_parents o = false ->
  res_rel_gen false o (step cfg a o) (step cfg b o).
Proof.
  intros cfg [sa stk par vc cn nx p] [sb stk' par' vc' cn' nx' p'] o (E1 & E2 & _ & E4 & E5 & E6 & HS) Hr.
  cbn [ph stack parents vac cnt next_id slots] in *. subst stk' vc' cn' nx' p'.
  assert (Hw : forall q, q <> Interacted -> Forall2 (slot_rel q) sa sb) by (intros q Hq; eapply Forall2_weaken; eauto).
  unfold step. cbn [ph]. destruct o as [ps| | |f| | |]; try discriminate.
  - destruct (phase_eqb p Failed); [exact I|]. unfold insert_primaries. cbn [ph cnt stack next_id slots vac parents].
    destruct (negb (phase_eqb p Ready)) eqn:Hp; [exact I|]. destruct (negb (forallb _ ps)); [exact I|].
    destruct (capacity cfg <? length ps + c_init cn).
    + cbn. unfold set_ph. cbn. repeat split; auto; try discriminate. apply Hw. discriminate.
    + destruct (process_primaries _ _ _ _) as [arr nx2]. cbn. repeat split; auto. apply Hw. discriminate.
  - destruct (phase_eqb p Failed); [exact I|]. unfold extend_from_primaries. cbn [ph cnt stack next_id slots vac parents].
    destruct (negb (phase_eqb p Ready)); [exact I|]. cbn. repeat split; auto. apply Hw. discriminate.
  - unfold reset. cbn. repeat split; auto; try discriminate. eapply sim_reset_slots; eauto.
  - destruct (phase_eqb p Failed); [exact I|]. unfold reseed. cbn [ph cnt stack next_id slots vac parents].
    destruct (negb (phase_eqb p Ready)); [exact I|]. unfold drained. cbn [slots cnt].
    rewrite (sim_drained_slots p sa sb HS).
    destruct (negb _); [exact I|]. cbn. repeat split; auto; try discriminate. apply Hw. discriminate.
Qed.

(** ** the Stepper protocol: initialize-tracks .. extend-from-secondaries only
    after the primaries action has run since the last reset *)
Fixpoint stepper_protocol (clean : bool) (ops : list op) : bool :=
  match ops with
  | [] => true
  | o :: r =>
    if clears_parents o then stepper_protocol true r
    else match o with
         | Reset => stepper_protocol false r
         | Reseed => stepper_protocol clean r
         | _ => clean && stepper_protocol clean r
         end
  end.

(** observable equality of two results: everything except the parents scratch
    array and the stale data of vacated slots *)
Definition res_obs (r r' : result) : Prop :=
  match r, r' with
  | Ok a, Ok b => state_rel false a b
  | Err a, Err b => state_rel false a b
  | Misuse, Misuse => True
  | _, _ => False
  end.

Definition inv_rel (clean : bool) (a b : state) : Prop :=
  state_rel false a b /\ (clean = true -> ph a <> Failed -> parents a = parents b).

Lemma state_rel_true_false : forall a b, state_rel true a b -> state_rel false a b.
Proof. intros a b (E1 & E2 & E3 & E4 & E5 & E6 & HS). repeat split; auto; discriminate. Qed.

Lemma state_rel_false_true : forall a b, state_rel false a b -> parents a = parents b -> state_rel true a b.
Proof. intros a b (E1 & E2 & E3 & E4 & E5 & E6 & HS) Hp. repeat split; auto. Qed.

Lemma step_failed_misuse : forall cfg s o, ph s = Failed -> o <> Reset -> step cfg s o = Misuse.
Proof. intros cfg s o H Ho. unfold step. rewrite H. destruct o; try reflexivity. contradiction. Qed.

Lemma err_is_failed : forall cfg s o s', step cfg s o = Err s' -> ph s' = Failed.
Proof.
  intros cfg s o s' H. unfold step in H. destruct o; try (destruct (phase_eqb (ph s) Failed); [discriminate|]).
  - unfold insert_primaries in H. destruct (negb _); [discriminate|]. destruct (negb _); [discriminate|].
    destruct (capacity cfg <? _); [inversion H; reflexivity|]. destruct (process_primaries _ _ _ _); discriminate.
  - unfold extend_from_primaries in H. destruct (negb _); discriminate.
  - unfold initialize_tracks in H. destruct (negb _); [discriminate|]. destruct (_ =? 0); discriminate.
  - unfold physics_outcome in H. destruct (negb _); discriminate.
  - unfold extend_from_secondaries in H. destruct (negb _); [discriminate|]. destruct (exclusive_scan _ _).
    destruct (capacity cfg <? _); [inversion H; reflexivity|]. destruct (proc_all _ _ _ _ _ _ _ _); discriminate.
  - unfold reset in H. discriminate.
  - unfold reseed in H. destruct (negb _); [discriminate|]. destruct (negb _); discriminate.
Qed.

Lemma sim_run_protocol : forall cfg ops clean a b,
  inv_rel clean a b -> stepper_protocol clean ops = true ->
  Forall2 res_obs (run cfg a ops) (run cfg b ops).
Proof.
  intros cfg. induction ops as [|o r IH]; intros clean a b [HR Hpar] Hprot; [constructor|].
  cbn [run]. cbn [stepper_protocol] in Hprot.
  destruct (phase_eqb (ph a) Failed) eqn:Hf.
  - (* failed phase: only Reset does anything *)
    apply phase_eqb_eq_local in Hf. assert (Hfb : ph b = Failed) by (destruct HR as (E1 & _); congruence).
    destruct o; try (rewrite !step_failed_misuse by (auto; discriminate); constructor; [exact I|constructor]).
    pose proof (sim_step_weak cfg a b Reset HR eq_refl) as Hs. cbn [clears_parents] in Hprot.
    destruct (step cfg a Reset) as [a1|a1|], (step cfg b Reset) as [b1|b1|]; cbn in Hs; try contradiction.
    + constructor; [exact Hs|]. cbn [res_state]. apply (IH false); [split; [exact Hs|discriminate]|exact Hprot].
    + constructor; [exact Hs|]. cbn [res_state]. apply (IH false); [split; [exact Hs|discriminate]|exact Hprot].
    + constructor; [exact I|constructor].
  - assert (Hnf : ph a <> Failed) by (intros E; rewrite E in Hf; discriminate).
    destruct (reads_parents o) eqn:Hrd.
    + (* needs the parents array: the primaries action has run *)
      assert (Hc : clean = true /\ stepper_protocol clean r = true).
      { destruct o; try discriminate; cbn [clears_parents] in Hprot; apply andb_true_iff in Hprot; exact Hprot. }
      destruct Hc as [Hc Hprot']. subst clean.
      pose proof (sim_step cfg a b o (state_rel_false_true a b HR (Hpar eq_refl Hnf))) as Hs.
      pose proof (err_is_failed cfg a o) as Herr.
      destruct (step cfg a o) as [a1|a1|], (step cfg b o) as [b1|b1|]; cbn in Hs; try contradiction.
      * constructor; [apply state_rel_true_false; exact Hs|]. cbn [res_state].
        apply (IH true); [|exact Hprot']. split; [apply state_rel_true_false; exact Hs|]. intros _ _. destruct Hs as (_ & _ & E3 & _). auto.
      * constructor; [apply state_rel_true_false; exact Hs|]. cbn [res_state].
        apply (IH true); [|exact Hprot']. split; [apply state_rel_true_false; exact Hs|]. intros _ _. destruct Hs as (_ & _ & E3 & _). auto.
      * constructor; [exact I|constructor].
    + pose proof (sim_step_weak cfg a b o HR Hrd) as Hs.
      pose proof (err_is_failed cfg a o) as Herr.
      destruct (clears_parents o) eqn:Hcl.
      * destruct (step cfg a o) as [a1|a1|], (step cfg b o) as [b1|b1|]; cbn in Hs; rewrite ?Hcl in Hs; cbn in Hs; try contradiction.
        -- constructor; [apply state_rel_true_false; exact Hs|]. cbn [res_state].
           apply (IH true); [|exact Hprot]. split; [apply state_rel_true_false; exact Hs|]. intros _ _. destruct Hs as (_ & _ & E3 & _). auto.
        -- constructor; [exact Hs|]. cbn [res_state].
           apply (IH true); [|exact Hprot]. split; [exact Hs|]. intros _ Hn. exfalso. apply Hn. apply Herr. reflexivity.
        -- constructor; [exact I|constructor].
      * destruct o; try discriminate.
        -- (* Reset *)
           destruct (step cfg a Reset) as [a1|a1|], (step cfg b Reset) as [b1|b1|]; cbn in Hs; try contradiction.
           ++ constructor; [exact Hs|]. cbn [res_state]. apply (IH false); [split; [exact Hs|discriminate]|exact Hprot].
           ++ constructor; [exact Hs|]. cbn [res_state]. apply (IH false); [split; [exact Hs|discriminate]|exact Hprot].
           ++ constructor; [exact I|constructor].
        -- (* Reseed: parents pass through *)
           assert (Hkeep : forall s s', step cfg s Reseed = Ok s' -> parents s' = parents s).
           { intros s s' H. unfold step in H. destruct (phase_eqb (ph s) Failed); [discriminate|].
             unfold reseed in H. destruct (negb _); [discriminate|]. destruct (negb _); [discriminate|]. inversion H; reflexivity. }
           pose proof (Hkeep a) as Ka. pose proof (Hkeep b) as Kb.
           destruct (step cfg a Reseed) as [a1|a1|] eqn:Ea, (step cfg b Reseed) as [b1|b1|] eqn:Eb; cbn in Hs; try contradiction.
           ++ constructor; [exact Hs|]. cbn [res_state]. apply (IH clean); [|exact Hprot]. split; [exact Hs|].
              intros Hc _. rewrite (Ka a1 eq_refl), (Kb b1 eq_refl). apply Hpar; assumption.
           ++ exfalso. unfold step in Ea. destruct (phase_eqb (ph a) Failed); [discriminate|]. unfold reseed in Ea.
              destruct (negb _); [discriminate|]. destruct (negb _); discriminate.
           ++ constructor; [exact I|constructor].
Qed.
