(** * C02: proofs about the track initialisation model *)
From Coq Require Import List Arith Bool PeanoNat Lia.
From Celer Require Import C02.TrackInit.
Import ListNotations.

Lemma insert_capacity_checked_first : forall cfg s ps,
  ph s = Ready -> forallb (fun p => p_ev p <? n_events cfg) ps = true ->
  capacity cfg < length ps + c_init (cnt s) ->
  insert_primaries cfg s ps = Err (set_ph Failed s).
Proof.
  intros cfg s ps Hph Hev Hcap. unfold insert_primaries.
  apply Nat.ltb_lt in Hcap.
  rewrite Hph, Hev, Hcap. reflexivity.
Qed.

(** ** The structural invariant holds in every reachable state *)
From Celer Require Import C02.ListLemmas C02.InvA C02.InvA2.

Lemma InvA_step : forall cfg s o, InvA cfg s ->
  match step cfg s o with Ok s' => InvA cfg s' | Err s' => InvA cfg s' | Misuse => True end.
Proof.
  intros cfg s o Hinv. unfold step.
  destruct o as [ps| | |f| | |].
  - destruct (phase_eqb (ph s) Failed); [exact I|].
    destruct (insert_primaries cfg s ps) as [s'|s'|] eqn:H; [|apply insert_err_state in H; subst|exact I].
    + eapply InvA_insert_ok; eauto.
    + apply InvA_failed. exact Hinv.
  - destruct (phase_eqb (ph s) Failed); [exact I|].
    destruct (extend_from_primaries cfg s) as [s'|s'|] eqn:H; [eapply InvA_extend_prim; eauto| |exact I].
    unfold extend_from_primaries in H. destruct (negb _); discriminate.
  - destruct (phase_eqb (ph s) Failed); [exact I|].
    destruct (initialize_tracks cfg s) as [s'|s'|] eqn:H; [eapply InvA_initialize; eauto| |exact I].
    unfold initialize_tracks in H. destruct (negb _); [discriminate|]. destruct (_ =? 0); discriminate.
  - destruct (phase_eqb (ph s) Failed); [exact I|].
    destruct (physics_outcome cfg s f) as [s'|s'|] eqn:H; [eapply InvA_physics; eauto| |exact I].
    unfold physics_outcome in H. destruct (negb _); discriminate.
  - destruct (phase_eqb (ph s) Failed); [exact I|].
    destruct (extend_from_secondaries cfg s) as [s'|s'|] eqn:H; [| |exact I];
      eapply InvA_extend_sec; eauto.
  - destruct (reset cfg s) as [s'|s'|] eqn:H; [eapply InvA_reset; eauto| |exact I].
    unfold reset in H. discriminate.
  - destruct (phase_eqb (ph s) Failed); [exact I|].
    destruct (reseed cfg s) as [s'|s'|] eqn:H; [eapply InvA_reseed; eauto| |exact I].
    unfold reseed in H. destruct (negb _); [discriminate|]. destruct (negb _); discriminate.
Qed.

Lemma InvA_exec : forall cfg ops s s', InvA cfg s -> exec cfg s ops = Some s' -> InvA cfg s'.
Proof.
  induction ops as [|o r IH]; intros s s' Hinv H; cbn in H; [inversion H; subst; exact Hinv|].
  pose proof (InvA_step cfg s o Hinv) as Hs.
  destruct (step cfg s o) as [s1|s1|]; [| |discriminate]; cbn in H; eapply IH; eauto.
Qed.

(** counters / vacancies exact, for every op list from the initial state *)
Lemma counters_exact : forall cfg ops s,
  exec cfg (init_state cfg) ops = Some s -> InvA cfg s.
Proof. intros cfg ops s H. eapply InvA_exec; [apply InvA_init|exact H]. Qed.
