(** * C02: proofs about the track initialisation model *)
From Coq Require Import List Arith Bool PeanoNat Lia Permutation.
From Celer Require Import C02.TrackInit.
Import ListNotations.

Lemma insert_capacity_checked_first : forall cfg s ps,
  ph s = Ready -> forallb (fun p => p_ev p <? n_events cfg) ps = true ->
  capacity cfg < length ps + c_init (cnt s) ->
  insert_primaries cfg s ps = Err (set_ph Failed s).
Proof.
  intros cfg s ps Hph Hev Hcap. unfold insert_primaries.
  apply Nat.ltb_lt in Hcap.
  rewrite Hph, Hev, Hcap. reflexivity.
Qed.

(** ** The structural invariant holds in every reachable state *)
From Celer Require Import C02.ListLemmas C02.InvA C02.InvA2.

Lemma InvA_step : forall cfg s o, InvA cfg s ->
  match step cfg s o with Ok s' => InvA cfg s' | Err s' => InvA cfg s' | Misuse => True end.
Proof.
  intros cfg s o Hinv. unfold step.
  destruct o as [ps| | |f| | |].
  - destruct (phase_eqb (ph s) Failed); [exact I|].
    destruct (insert_primaries cfg s ps) as [s'|s'|] eqn:H; [|apply insert_err_state in H; subst|exact I].
    + eapply InvA_insert_ok; eauto.
    + apply InvA_failed. exact Hinv.
  - destruct (phase_eqb (ph s) Failed); [exact I|].
    destruct (extend_from_primaries cfg s) as [s'|s'|] eqn:H; [eapply InvA_extend_prim; eauto| |exact I].
    unfold extend_from_primaries in H. destruct (negb _); discriminate.
  - destruct (phase_eqb (ph s) Failed); [exact I|].
    destruct (initialize_tracks cfg s) as [s'|s'|] eqn:H; [eapply InvA_initialize; eauto| |exact I].
    unfold initialize_tracks in H. destruct (negb _); [discriminate|]. destruct (_ =? 0); discriminate.
  - destruct (phase_eqb (ph s) Failed); [exact I|].
    destruct (physics_outcome cfg s f) as [s'|s'|] eqn:H; [eapply InvA_physics; eauto| |exact I].
    unfold physics_outcome in H. destruct (negb _); discriminate.
  - destruct (phase_eqb (ph s) Failed); [exact I|].
    destruct (extend_from_secondaries cfg s) as [s'|s'|] eqn:H; [| |exact I];
      eapply InvA_extend_sec; eauto.
  - destruct (reset cfg s) as [s'|s'|] eqn:H; [eapply InvA_reset; eauto| |exact I].
    unfold reset in H. discriminate.
  - destruct (phase_eqb (ph s) Failed); [exact I|].
    destruct (reseed cfg s) as [s'|s'|] eqn:H; [eapply InvA_reseed; eauto| |exact I].
    unfold reseed in H. destruct (negb _); [discriminate|]. destruct (negb _); discriminate.
Qed.

Lemma InvA_exec : forall cfg ops s s', InvA cfg s -> exec cfg s ops = Some s' -> InvA cfg s'.
Proof.
  induction ops as [|o r IH]; intros s s' Hinv H; cbn in H; [inversion H; subst; exact Hinv|].
  pose proof (InvA_step cfg s o Hinv) as Hs.
  destruct (step cfg s o) as [s1|s1|]; [| |discriminate]; cbn in H; eapply IH; eauto.
Qed.

(** counters / vacancies exact, for every op list from the initial state *)
Lemma counters_exact : forall cfg ops s,
  exec cfg (init_state cfg) ops = Some s -> InvA cfg s.
Proof. intros cfg ops s H. eapply InvA_exec; [apply InvA_init|exact H]. Qed.

(** ** The identity invariant holds in every reachable state *)
From Celer Require Import C02.InvB.

Lemma extend_sec_err_failed : forall cfg s s', extend_from_secondaries cfg s = Err s' -> ph s' = Failed.
Proof.
  intros cfg s s' H. unfold extend_from_secondaries in H.
  destruct (negb _); [discriminate|].
  destruct (exclusive_scan _ _) as [scan total].
  destruct (capacity cfg <? _); [inversion H; reflexivity|].
  destruct (proc_all _ _ _ _ _ _ _ _); discriminate.
Qed.

Lemma Inv_step : forall cfg s o, InvA cfg s -> InvB cfg s ->
  match step cfg s o with Ok s' => InvB cfg s' | Err s' => InvB cfg s' | Misuse => True end.
Proof.
  intros cfg s o HA HB. unfold step.
  destruct o as [ps| | |f| | |].
  - destruct (phase_eqb (ph s) Failed); [exact I|].
    destruct (insert_primaries cfg s ps) as [s'|s'|] eqn:H; [|apply insert_err_state in H; subst|exact I].
    + eapply InvB_insert_ok; eauto.
    + apply InvB_of_failed. reflexivity.
  - destruct (phase_eqb (ph s) Failed); [exact I|].
    destruct (extend_from_primaries cfg s) as [s'|s'|] eqn:H; [eapply InvB_extend_prim; eauto| |exact I].
    unfold extend_from_primaries in H. destruct (negb _); discriminate.
  - destruct (phase_eqb (ph s) Failed); [exact I|].
    destruct (initialize_tracks cfg s) as [s'|s'|] eqn:H; [eapply InvB_initialize; eauto| |exact I].
    unfold initialize_tracks in H. destruct (negb _); [discriminate|]. destruct (_ =? 0); discriminate.
  - destruct (phase_eqb (ph s) Failed); [exact I|].
    destruct (physics_outcome cfg s f) as [s'|s'|] eqn:H; [eapply InvB_physics; eauto| |exact I].
    unfold physics_outcome in H. destruct (negb _); discriminate.
  - destruct (phase_eqb (ph s) Failed); [exact I|].
    destruct (extend_from_secondaries cfg s) as [s'|s'|] eqn:H; [| |exact I].
    + eapply InvB_extend_sec; eauto.
    + apply InvB_of_failed. eapply extend_sec_err_failed; eauto.
  - destruct (reset cfg s) as [s'|s'|] eqn:H; [apply (InvB_reset cfg s s' H)| |exact I].
    unfold reset in H. discriminate.
  - destruct (phase_eqb (ph s) Failed); [exact I|].
    destruct (reseed cfg s) as [s'|s'|] eqn:H; [eapply InvB_reseed; eauto| |exact I].
    unfold reseed in H. destruct (negb _); [discriminate|]. destruct (negb _); discriminate.
Qed.

Lemma Inv_exec : forall cfg ops s s', InvA cfg s -> InvB cfg s -> exec cfg s ops = Some s' ->
  InvA cfg s' /\ InvB cfg s'.
Proof.
  induction ops as [|o r IH]; intros s s' HA HB H; cbn in H; [inversion H; subst; auto|].
  pose proof (InvA_step cfg s o HA) as Hs. pose proof (Inv_step cfg s o HA HB) as Hb.
  destruct (step cfg s o) as [s1|s1|]; [| |discriminate]; cbn in H; eapply IH; eauto.
Qed.

Lemma reachable_inv : forall cfg ops s,
  exec cfg (init_state cfg) ops = Some s -> InvA cfg s /\ InvB cfg s.
Proof. intros cfg ops s H. eapply Inv_exec; [apply InvA_init|apply InvB_init|exact H]. Qed.

(** ** Theorems in their final form (restated in Properties_C02.v) *)

Lemma counters_vacancies_exact : forall cfg ops s,
  exec cfg (init_state cfg) ops = Some s -> ph s <> Failed ->
  length (slots s) = n_slots cfg /\
  c_init (cnt s) = length (stack s) /\ length (stack s) <= capacity cfg /\
  c_vac (cnt s) = n_inactive (slots s) /\
  (ph s = Ready -> vac s = inactive_from 0 (slots s) /\ length (vac s) = c_vac (cnt s) /\
                   c_alive (cnt s) = n_slots cfg - n_inactive (slots s)) /\
  (ph s = Inited \/ ph s = Interacted -> c_active (cnt s) = n_slots cfg - n_inactive (slots s)).
Proof.
  intros cfg ops s H Hph. destruct (counters_exact cfg ops s H) as ((Hl & _ & _) & Hlive & Hready & Hstep).
  destruct (Hlive Hph) as (A & B & C & D).
  split; [exact Hl|]. split; [exact A|]. split; [exact B|]. split; [exact C|]. split.
  - intros Hr. destruct (Hready Hr) as [E F]. split; [exact E|]. split; [|exact F].
    rewrite E, inactive_from_length. symmetry. exact C.
  - exact Hstep.
Qed.

(** the per-step counters *)
Lemma step_counters : forall cfg ops s,
  exec cfg (init_state cfg) ops = Some s ->
  (forall ps s', insert_primaries cfg s ps = Ok s' ->
     c_gen (cnt s') = c_gen (cnt s) + length ps /\ length (stack s') = length (stack s) + length ps) /\
  (forall s', extend_from_secondaries cfg s = Ok s' ->
     c_sec (cnt s') + length (stack s) = length (stack s') /\
     c_alive (cnt s') = n_slots cfg - length (vac s') /\ c_vac (cnt s') = length (vac s')) /\
  (forall s', initialize_tracks cfg s = Ok s' ->
     length (stack s) - length (stack s') = Nat.min (c_vac (cnt s)) (c_init (cnt s)) /\
     c_active (cnt s') = n_slots cfg - c_vac (cnt s')).
Proof.
  intros cfg ops s H. pose proof (counters_exact cfg ops s H) as HA. split; [|split].
  - intros ps s' Hi. destruct (insert_primaries_stack cfg s ps s' HA Hi) as (E1 & E2 & E3 & _ & _).
    split.
    + unfold insert_primaries in Hi. destruct (negb _); [discriminate|]. destruct (negb _); [discriminate|].
      destruct (capacity cfg <? _); [discriminate|]. destruct (process_primaries _ _ _ _).
      inversion Hi; subst s'. reflexivity.
    + rewrite E2, app_length, issue_primaries_length. reflexivity.
  - intros s' He.
    pose proof (InvA_extend_sec cfg s s' HA (or_introl He)) as ((_ & _ & _) & Hlive' & Hready' & _).
    assert (Hph' : ph s' = Ready).
    { unfold extend_from_secondaries in He. destruct (negb _); [discriminate|].
      destruct (exclusive_scan _ _). destruct (capacity cfg <? _); [discriminate|].
      destruct (proc_all _ _ _ _ _ _ _ _). inversion He; reflexivity. }
    destruct (Hlive' ltac:(rewrite Hph'; discriminate)) as (A' & _ & C' & _).
    destruct (Hready' Hph') as [E' F'].
    destruct HA as (_ & Hlive & _).
    assert (Hph : ph s = Interacted).
    { unfold extend_from_secondaries in He. destruct (phase_eqb (ph s) Interacted) eqn:E; [apply phase_eqb_eq; exact E|discriminate]. }
    destruct (Hlive ltac:(rewrite Hph; discriminate)) as (A & _).
    assert (Hsec : c_init (cnt s') = c_init (cnt s) + c_sec (cnt s')).
    { unfold extend_from_secondaries in He. destruct (negb _); [discriminate|].
      destruct (exclusive_scan _ _). destruct (capacity cfg <? _); [discriminate|].
      destruct (proc_all _ _ _ _ _ _ _ _). inversion He; reflexivity. }
    rewrite E', inactive_from_length. repeat split; lia.
  - intros s' Hi.
    assert (Hph : ph s = Ready).
    { unfold initialize_tracks in Hi. destruct (phase_eqb (ph s) Ready) eqn:E; [apply phase_eqb_eq; exact E|discriminate]. }
    destruct HA as (_ & Hlive & _). destruct (Hlive ltac:(rewrite Hph; discriminate)) as (A & _).
    unfold initialize_tracks in Hi. destruct (negb _); [discriminate|].
    destruct (Nat.min (c_vac (cnt s)) (c_init (cnt s)) =? 0) eqn:Hz.
    + apply Nat.eqb_eq in Hz. inversion Hi; subst s'. cbn. rewrite Hz. split; lia.
    + inversion Hi; subst s'. cbn. rewrite firstn_length. split; lia.
Qed.

(** track_ids_unique *)
Lemma track_ids_unique : forall cfg ops s,
  exec cfg (init_state cfg) ops = Some s -> ph s <> Failed ->
  NoDup (map key (all_tracks s)) /\
  Forall (fun t => tev t < n_events cfg /\ tid t < nth (tev t) (next_id s) 0 /\
                   (forall p, tpar t = Some p -> p < tid t)) (all_tracks s).
Proof. intros cfg ops s H Hph. destruct (reachable_inv cfg ops s H) as [_ HB]. exact (HB Hph). Qed.

(** init_assignment_injective *)
Lemma init_assignment_injective : forall cfg ops s,
  exec cfg (init_state cfg) ops = Some s -> ph s = Ready ->
  let ci := c_init (cnt s) in
  let cv := c_vac (cnt s) in
  let num_new := Nat.min cv ci in
  let indices := if charge_order cfg then partition_initializers (stack s) ci num_new else [] in
  let ii := iidx (stack s) ci num_new (charge_order cfg) in
  let vi := vidx (stack s) ci cv num_new (charge_order cfg) in
  (* what each thread reads and writes *)
  (forall t, fst (fst (init_thread cfg s indices num_new t)) = nth (vi t) (vac s) 0 /\
             snd (fst (init_thread cfg s indices num_new t)) = nth (ii t) (stack s) dflt_trk) /\
  (* both index maps are injective into their windows *)
  (forall t, t < num_new -> ci - num_new <= ii t < ci /\ vi t < cv) /\
  (forall t1 t2, t1 < num_new -> t2 < num_new -> ii t1 = ii t2 -> t1 = t2) /\
  (forall t1 t2, t1 < num_new -> t2 < num_new -> vi t1 = vi t2 -> t1 = t2) /\
  (* hence distinct threads write distinct, vacant slots *)
  NoDup (map (fun t => nth (vi t) (vac s) 0) (seq 0 num_new)) /\
  (forall t, t < num_new -> nth (vi t) (vac s) 0 < n_slots cfg /\
                            sst (nth (nth (vi t) (vac s) 0) (slots s) dflt_slot) = Inactive).
Proof.
  intros cfg ops s H Hph ci cv num_new indices ii vi.
  pose proof (counters_exact cfg ops s H) as HA.
  assert (Hcv : num_new <= cv) by (unfold num_new; lia).
  assert (Hci : num_new <= ci) by (unfold num_new; lia).
  assert (Hsid : forall t, fst (fst (init_thread cfg s indices num_new t)) = nth (vi t) (vac s) 0).
  { intros t. unfold init_thread, vi, vidx, iidx, indices. cbn [fst]. destruct (charge_order cfg); reflexivity. }
  split; [|split; [|split; [|split; [|split]]]].
  - intros t. split; [apply Hsid|].
    unfold init_thread, ii, iidx, indices. cbn [fst snd]. destruct (charge_order cfg); reflexivity.
  - intros t Ht. split; [exact (iidx_range (stack s) ci cv num_new Hci Hcv _ t Ht)|exact (vidx_lt (stack s) ci cv num_new Hci Hcv _ t Ht)].
  - intros t1 t2 H1 H2. exact (iidx_inj (stack s) ci cv num_new Hci Hcv _ t1 t2 H1 H2).
  - intros t1 t2 H1 H2. exact (vidx_inj (stack s) ci cv num_new Hci Hcv _ t1 t2 H1 H2).
  - destruct (init_targets cfg s num_new HA Hph Hcv Hci) as [Hnd _]. cbn zeta in Hnd.
    rewrite map_map in Hnd. fold indices in Hnd.
    rewrite (map_ext _ (fun t => nth (vi t) (vac s) 0)) in Hnd; [exact Hnd|]. intros t. unfold wsid. apply Hsid.
  - intros t Ht. destruct (init_targets cfg s num_new HA Hph Hcv Hci) as [_ Htg]. cbn zeta in Htg. fold indices in Htg.
    destruct (Htg (init_thread cfg s indices num_new t)) as [A B].
    { apply in_map. apply in_seq. lia. }
    unfold wsid in A, B. rewrite Hsid in A, B. destruct HA as ((Hl & _) & _). rewrite Hl in A. split; [exact A|].
    unfold is_inactive in B. destruct (sst _); try discriminate. reflexivity.
Qed.

(** scan_ranges_disjoint: arithmetic form *)
Lemma list_sum_firstn_mono : forall l i j, i <= j -> list_sum (firstn i l) <= list_sum (firstn j l).
Proof.
  unfold list_sum. induction l as [|x r IH]; intros i j Hij; [destruct i, j; cbn; lia|].
  destruct i, j; cbn; try lia. specialize (IH i j ltac:(lia)). lia.
Qed.

Lemma scan_ranges_disjoint : forall counts i j,
  i < j -> j < length counts ->
  let scan := fst (exclusive_scan 0 counts) in
  let total := snd (exclusive_scan 0 counts) in
  nth i scan 0 + nth i counts 0 <= nth j scan 0 /\ nth j scan 0 + nth j counts 0 <= total.
Proof.
  intros counts i j Hij Hj scan total. unfold scan, total.
  rewrite !exclusive_scan_nth by lia. rewrite exclusive_scan_total. cbn [Nat.add].
  rewrite <- !list_sum_firstn_S by lia. split.
  - apply list_sum_firstn_mono. lia.
  - apply list_sum_firstn_le.
Qed.

(** scan_ranges_disjoint: operational form -- after ExtendFromSecondaries the
    initializer array is the old stack followed by the secondaries pushed by
    slot 0, 1, ... (each slot wrote exactly its own window, nothing was
    overwritten, no default entry is left), and ids come from the counters *)
Lemma secondaries_layout_inv : forall cfg s s',
  InvA cfg s -> extend_from_secondaries cfg s = Ok s' ->
  let sp := spec_all (charge_order cfg) (slots s) (next_id s) in
  slots s' = fst (fst sp) /\ stack s' = stack s ++ snd (fst sp) /\ next_id s' = snd sp.
Proof.
  intros cfg s s' ((Hl & Hp & Hn) & Hlive & _) H sp.
  unfold extend_from_secondaries in H.
  destruct (phase_eqb (ph s) Interacted) eqn:Hph; cbn [negb] in H; [|discriminate].
  apply phase_eqb_eq in Hph. rewrite Hph in Hlive.
  destruct (Hlive ltac:(discriminate)) as (A & B & C & D).
  pose proof (exclusive_scan_total (map snd (locate_all (charge_order cfg) 0 (slots s))) 0) as Htot.
  destruct (exclusive_scan 0 (map snd (locate_all (charge_order cfg) 0 (slots s)))) as [scan total] eqn:Hscan.
  cbn [snd] in Htot.
  destruct (capacity cfg <? c_init (cnt s) + total) eqn:Hcap; [discriminate|].
  pose proof (proc_all_arr (charge_order cfg) (n_slots cfg) (c_init (cnt s) + total) total (stack s) (slots s) 0 0 []
                (mkP (stack s ++ repeat dflt_trk total) (parents s) (next_id s))
                ltac:(lia) ltac:(lia) eq_refl) as Harr.
  cbn zeta in Harr. rewrite Hscan in Harr. cbn [fst p_arr p_nx app] in Harr.
  rewrite Nat.sub_0_r in Harr. specialize (Harr eq_refl). destruct Harr as (R1 & R2 & R3).
  destruct (proc_all _ _ _ _ _ _ _ _) as [slots' ps] eqn:Hpa. cbn [fst snd] in *.
  inversion H; subst s'; clear H. cbn. auto.
Qed.

Lemma secondaries_layout : forall cfg ops s s',
  exec cfg (init_state cfg) ops = Some s -> extend_from_secondaries cfg s = Ok s' ->
  let sp := spec_all (charge_order cfg) (slots s) (next_id s) in
  slots s' = fst (fst sp) /\ stack s' = stack s ++ snd (fst sp) /\ next_id s' = snd sp.
Proof.
  intros cfg ops s s' Hex H. apply secondaries_layout_inv; [eapply counters_exact; eauto|exact H].
Qed.

(** exactly_once *)
Lemma exactly_once : forall cfg ops s,
  exec cfg (init_state cfg) ops = Some s ->
  (* primaries: one fresh initializer per primary, nothing else changes *)
  (forall ps s', insert_primaries cfg s ps = Ok s' ->
     slots s' = slots s /\
     exists news, stack s' = stack s ++ news /\ length news = length ps /\
       fresh_batch (n_events cfg) (next_id s) (next_id s') news) /\
  (* initialisation: tracks are only moved from the stack into vacant slots *)
  (forall s', initialize_tracks cfg s = Ok s' ->
     Permutation (all_tracks s') (all_tracks s) /\
     (forall j, j < n_slots cfg -> sst (nth j (slots s) dflt_slot) <> Inactive ->
                nth j (slots s') dflt_slot = nth j (slots s) dflt_slot)) /\
  (* physics does not touch identities *)
  (forall f s', physics_outcome cfg s f = Ok s' -> all_tracks s' = all_tracks s) /\
  (* secondaries: alive tracks and queued initializers stay, killed tracks
     leave, each emitted secondary appears exactly once with a fresh id *)
  (forall s', extend_from_secondaries cfg s = Ok s' ->
     exists news,
       Permutation (all_tracks s') ((survivors (slots s) ++ stack s) ++ news) /\
       fresh_batch (n_events cfg) (next_id s) (next_id s') news /\
       (forall j, sst (nth j (slots s) dflt_slot) = Alive -> j < n_slots cfg ->
                  nth j (slots s') dflt_slot = nth j (slots s) dflt_slot)).
Proof.
  intros cfg ops s Hex. destruct (reachable_inv cfg ops s Hex) as [HA HB].
  pose proof HA as ((Hl & Hp & Hn) & _).
  split; [|split; [|split]].
  - intros ps s' H. destruct (insert_primaries_stack cfg s ps s' HA H) as (E1 & E2 & E3 & Hev & _).
    split; [exact E1|]. exists (fst (issue_primaries ps (next_id s))).
    split; [exact E2|]. split; [apply issue_primaries_length|].
    rewrite E3. apply issue_primaries_fresh; assumption.
  - intros s' H. destruct (initialize_tracks_perm cfg s s' HA H) as (P & _ & U). split; [exact P|].
    intros j Hj Hst. apply U; [|lia]. unfold is_inactive. destruct (sst _); try reflexivity. contradiction.
  - intros f s' H. unfold physics_outcome in H. destruct (negb _); [discriminate|]. inversion H; subst s'.
    unfold all_tracks. proj_simpl. rewrite physics_slots_tracks. reflexivity.
  - intros s' H. destruct (extend_from_secondaries_tracks cfg s s' HA HB H) as (news & P & F & _ & Hs).
    exists news. split; [exact P|]. split; [exact F|].
    intros j Hal Hj. rewrite Hs. clear - Hal Hj Hl.
    rewrite <- Hl in Hj. clear Hl. revert j Hal Hj. generalize (next_id s) as nx. generalize (slots s) as sls.
    induction sls as [|sl r IH]; intros nx j Hal Hj; [cbn in Hj; lia|].
    rewrite spec_all_cons. cbn [fst]. destruct j as [|j'].
    + cbn [nth] in *. unfold spec_slot. rewrite Hal. cbn [status_eqb].
      destruct (make_secondaries _ _ _ nx) as [ts nx']. cbn [negb andb]. destruct ts; reflexivity.
    + cbn [nth] in *. apply IH; [exact Hal|cbn in Hj; lia].
Qed.

(** capacity_checked_first (shared with C16) *)
Lemma capacity_checked_first : forall cfg s,
  (forall ps s', insert_primaries cfg s ps = Err s' ->
     capacity cfg < length ps + c_init (cnt s) /\ s' = set_ph Failed s) /\
  (forall ps, ph s = Ready -> forallb (fun p => p_ev p <? n_events cfg) ps = true ->
     capacity cfg < length ps + c_init (cnt s) -> insert_primaries cfg s ps = Err (set_ph Failed s)) /\
  (forall s', extend_from_secondaries cfg s = Err s' ->
     slots s' = slots s /\ stack s' = stack s /\ parents s' = parents s /\ next_id s' = next_id s /\
     capacity cfg < c_init (cnt s')) /\
  (forall s', extend_from_secondaries cfg s = Ok s' -> c_init (cnt s') <= capacity cfg).
Proof.
  intros cfg s. split; [|split; [|split]].
  - intros ps s' H. split; [|eapply insert_err_state; eauto].
    unfold insert_primaries in H. destruct (negb _); [discriminate|]. destruct (negb _); [discriminate|].
    destruct (capacity cfg <? _) eqn:E; [apply Nat.ltb_lt in E; exact E|].
    destruct (process_primaries _ _ _ _); discriminate.
  - apply insert_capacity_checked_first.
  - intros s' H. unfold extend_from_secondaries in H. destruct (negb _); [discriminate|].
    destruct (exclusive_scan _ _) as [scan total].
    destruct (capacity cfg <? _) eqn:E; [|destruct (proc_all _ _ _ _ _ _ _ _); discriminate].
    inversion H; subst s'. cbn. apply Nat.ltb_lt in E. auto.
  - intros s' H. unfold extend_from_secondaries in H. destruct (negb _); [discriminate|].
    destruct (exclusive_scan _ _) as [scan total].
    destruct (capacity cfg <? _) eqn:E; [discriminate|]. apply Nat.ltb_ge in E.
    destruct (proc_all _ _ _ _ _ _ _ _). inversion H; subst s'. cbn. exact E.
Qed.

(** reset_then_run_ok (C16): whatever happened before (including an error),
    after reset the machine is in a state that satisfies every invariant of
    the initial state, so all theorems above apply to the continuation *)
Lemma reset_then_run_ok : forall cfg ops s s1 ops' s2,
  exec cfg (init_state cfg) ops = Some s ->
  reset cfg s = Ok s1 ->
  exec cfg s1 ops' = Some s2 ->
  (stack s1 = [] /\ vac s1 = seq 0 (n_slots cfg) /\ cnt s1 = cnt (init_state cfg) /\ ph s1 = Ready /\
   Forall (fun sl => sst sl = Inactive) (slots s1)) /\
  InvA cfg s2 /\ InvB cfg s2.
Proof.
  intros cfg ops s s1 ops' s2 Hex Hr Hex'.
  destruct (reachable_inv cfg ops s Hex) as [HA HB].
  pose proof (InvA_reset cfg s s1 HA Hr) as HA1. destruct (InvB_reset cfg s s1 Hr) as [HB1 _].
  split; [|eapply Inv_exec; eauto].
  unfold reset in Hr. inversion Hr; subst s1. cbn. repeat split; auto.
  apply Forall_forall. intros sl Hin. apply in_map_iff in Hin. destruct Hin as [x [Hx _]]. subst. reflexivity.
Qed.

(** drain_terminates (partial): no deadlock -- whenever initializers are
    queued and no track is in flight, the next InitializeTracks starts at
    least one track; and every InitializeTracks pops exactly min(vacancies,
    queued) initializers.  The well-founded measure argument for the whole
    loop is not mechanised. *)
Lemma drain_progress_partial : forall cfg ops s s',
  exec cfg (init_state cfg) ops = Some s -> 1 <= n_slots cfg ->
  initialize_tracks cfg s = Ok s' ->
  length (stack s') = length (stack s) - Nat.min (n_inactive (slots s)) (length (stack s)) /\
  (n_inactive (slots s) = n_slots cfg -> 0 < length (stack s) ->
     length (stack s') < length (stack s) /\ n_inactive (slots s') < n_slots cfg).
Proof.
  intros cfg ops s s' Hex Hn Hi.
  pose proof (counters_exact cfg ops s Hex) as HA.
  pose proof (InvA_initialize cfg s s' HA Hi) as HA'.
  destruct (step_counters cfg ops s Hex) as (_ & _ & Hcnt). destruct (Hcnt s' Hi) as [Hpop Hact].
  assert (Hph : ph s = Ready).
  { unfold initialize_tracks in Hi. destruct (phase_eqb (ph s) Ready) eqn:E; [apply phase_eqb_eq; exact E|discriminate]. }
  assert (Hph' : ph s' = Inited).
  { unfold initialize_tracks in Hi. destruct (negb _); [discriminate|]. destruct (_ =? 0); inversion Hi; reflexivity. }
  destruct HA as (_ & Hlive & _). destruct (Hlive ltac:(rewrite Hph; discriminate)) as (A & B & C & _).
  destruct HA' as (_ & Hlive' & _). destruct (Hlive' ltac:(rewrite Hph'; discriminate)) as (A' & B' & C' & _).
  rewrite C, A in Hpop.
  assert (Hle : length (stack s') <= length (stack s)).
  { unfold initialize_tracks in Hi. destruct (negb _); [discriminate|]. destruct (_ =? 0); inversion Hi; cbn; [lia|].
    rewrite firstn_length. lia. }
  split; [lia|]. intros Hall Hq.
  assert (Hcv' : c_vac (cnt s') = c_vac (cnt s) - Nat.min (c_vac (cnt s)) (c_init (cnt s))).
  { unfold initialize_tracks in Hi. destruct (negb _); [discriminate|].
    destruct (Nat.min (c_vac (cnt s)) (c_init (cnt s)) =? 0) eqn:Hz; inversion Hi; cbn; [|reflexivity].
    apply Nat.eqb_eq in Hz. lia. }
  rewrite <- C'. rewrite Hcv', C, A. lia.
Qed.
