(** * C02: executable model of celeritas track initialisation bookkeeping.

    Mirrors (nat/list, serial semantics):
    - [ExtendFromPrimariesAction::insert / step_impl], [ProcessPrimariesExecutor]
    - [InitializeTracksAction::step_impl], [InitTracksExecutor],
      [partition_initializers]
    - [ExtendFromSecondariesAction::step_impl], [LocateAliveExecutor],
      [remove_if_alive], [exclusive_scan_counts], [ProcessSecondariesExecutor]
    - [CoreState::reset], [TrackInitParams::reset_track_ids]
    - [detail/Utils.hh]: [index_before], [index_after], [index_partitioned],
      [make_track_id]
    plus the pre-step / tracking-cut status transitions that the bookkeeping
    depends on.  NO proofs in this file (it must keep running when a proof
    breaks); see TrackInitProofs.v. *)
From Coq Require Import List Arith Bool PeanoNat.
Import ListNotations.

(** ** Data *)

Inductive status := Inactive | Initializing | Alive | Errored | Killed.

Definition status_eqb (a b : status) : bool :=
  match a, b with
  | Inactive, Inactive | Initializing, Initializing | Alive, Alive
  | Errored, Errored | Killed, Killed => true
  | _, _ => false
  end.

(** A track (also the content of a [TrackInitializer]): raw track id, parent
    track id, event, particle id (0 = gamma: neutral, 1 = electron: charged),
    and whether its start position is outside the geometry (geometry
    initialisation fails: only primaries can be like that). *)
Record trk := mkTrk { tid : nat; tpar : option nat; tev : nat; tpid : nat; tbad : bool }.

Definition dflt_trk : trk := mkTrk 0 None 0 0 false.

(** A track slot: status, (possibly stale) track data, the kinds of the
    secondaries attached by the last interaction (0 = null/cut away,
    [S p] = particle id p), and whether the slot was ever written (only used
    to print never-written slots like the C++ prints its null ids). *)
Record slot := mkSlot { sst : status; str : trk; ssecs : list nat; sused : bool }.

Definition dflt_slot : slot := mkSlot Inactive dflt_trk [] false.

Record counters := mkCnt {
  c_gen : nat; c_init : nat; c_vac : nat; c_active : nat; c_sec : nat; c_alive : nat }.

(** Protocol phase (the order in which the Stepper's action sequence calls
    the actions; see NOTES.md). *)
Inductive phase := Ready | Inited | Interacted | Failed.

Definition phase_eqb (a b : phase) : bool :=
  match a, b with
  | Ready, Ready | Inited, Inited | Interacted, Interacted | Failed, Failed => true
  | _, _ => false
  end.

Record config := mkCfg {
  n_slots : nat;        (* number of track slots *)
  capacity : nat;       (* TrackInitParams::capacity *)
  charge_order : bool;  (* track_order == init_charge *)
  n_events : nat }.     (* max_events *)

Record state := mkState {
  slots : list slot;
  stack : list trk;               (* initializers[0, num_initializers) *)
  parents : list (option nat);    (* TrackInitStateData::parents (all n entries) *)
  vac : list nat;                 (* vacancies[0, num_vacancies) *)
  cnt : counters;
  next_id : list nat;             (* track_counters *)
  ph : phase }.

Record primary := mkPrim { p_ev : nat; p_pid : nat; p_bad : bool }.
Record outcome := mkOut { o_dies : bool; o_secs : list nat }.
Definition dflt_outcome := mkOut false [].

Inductive op :=
| InsertPrimaries (ps : list primary)   (* insert() + extend-from-primaries step *)
| ExtendFromPrimaries                   (* the step with no pending primaries *)
| InitializeTracks
| PhysicsOutcome (f : list outcome)     (* pre-step, interactions, tracking cut *)
| ExtendFromSecondaries
| Reset
| Reseed.

(** [Err]: a CELER_VALIDATE fired (RuntimeError); the state is what the code
    leaves behind.  [Misuse]: the caller broke the calling protocol (a
    CELER_EXPECT-level obligation of the Stepper, not a checked error). *)
Inductive result := Ok (s : state) | Err (s : state) | Misuse.

(** ** Generic helpers *)

Fixpoint upd {A} (i : nat) (x : A) (l : list A) : list A :=
  match l, i with
  | [], _ => []
  | _ :: r, 0 => x :: r
  | y :: r, S j => y :: upd j x r
  end.

Definition is_some {A} (o : option A) : bool :=
  match o with Some _ => true | None => false end.

(** ** detail/Utils.hh *)

Definition index_before (size tid : nat) : nat := size - tid - 1.
Definition index_after (size tid : nat) : nat := size + tid.
Definition index_partitioned (num_new num_vac : nat) (from_front : bool) (tid : nat) : nat :=
  if from_front then index_before num_new tid else index_before num_vac tid.

(** atomic_add on the per-event counter: returns the old value *)
Definition make_track_id (ev : nat) (nx : list nat) : nat * list nat :=
  let v := nth ev nx 0 in (v, upd ev (S v) nx).

Definition is_neutral (t : trk) : bool := tpid t =? 0.

(** ** detail/TrackInitAlgorithms.cc *)

(** std::remove_if(.., IsEqual{occupied()}): keep the non-occupied entries in order *)
Fixpoint remove_if_alive (l : list (option nat)) : list nat :=
  match l with
  | [] => []
  | None :: r => remove_if_alive r
  | Some i :: r => i :: remove_if_alive r
  end.

(** exclusive prefix sum; second component = the total (the C++ reads it from
    the extra last element) *)
Fixpoint exclusive_scan (acc : nat) (l : list nat) : list nat * nat :=
  match l with
  | [] => ([], acc)
  | x :: r => let (s, t) := exclusive_scan (acc + x) r in (acc :: s, t)
  end.

(** std::stable_partition *)
Definition stable_partition {A} (f : A -> bool) (l : list A) : list A :=
  filter f l ++ filter (fun x => negb (f x)) l.

(** partition_initializers: indices 0..count-1 partitioned by the charge of
    initializers[num_initializers - count + i] (neutral first) *)
Definition partition_initializers (stk : list trk) (num_init count : nat) : list nat :=
  stable_partition (fun i => is_neutral (nth (num_init - count + i) stk dflt_trk)) (seq 0 count).

(** ** ExtendFromPrimariesAction *)

Definition clear_parents (n : nat) : list (option nat) := repeat None n.

(** ProcessPrimariesExecutor, threads 0..|ps|-1 in order; [arr] is the
    initializer storage, [cinit] the already incremented num_initializers *)
Definition process_primary (cinit nprim : nat) (acc : list trk * list nat) (tp : nat * primary)
  : list trk * list nat :=
  let '(arr, nx) := acc in
  let '(t, p) := tp in
  let '(id, nx') := make_track_id (p_ev p) nx in
  (upd (index_after (cinit - nprim) t) (mkTrk id None (p_ev p) (p_pid p) (p_bad p)) arr, nx').

Definition process_primaries (cinit : nat) (ps : list primary) (arr : list trk) (nx : list nat)
  : list trk * list nat :=
  fold_left (process_primary cinit (length ps)) (combine (seq 0 (length ps)) ps) (arr, nx).

Definition set_ph (p : phase) (s : state) : state :=
  mkState (slots s) (stack s) (parents s) (vac s) (cnt s) (next_id s) p.

Definition insert_primaries (cfg : config) (s : state) (ps : list primary) : result :=
  if negb (phase_eqb (ph s) Ready) then Misuse
  else if negb (forallb (fun p => p_ev p <? n_events cfg) ps) then Misuse
  else
    let c := cnt s in
    (* ExtendFromPrimariesAction::insert: validate BEFORE anything is touched *)
    if capacity cfg <? length ps + c_init c then Err (set_ph Failed s)
    else
      (* step_impl *)
      let cinit := c_init c + length ps in
      let '(arr, nx) := process_primaries cinit ps (stack s ++ repeat dflt_trk (length ps)) (next_id s) in
      Ok (mkState (slots s) arr (clear_parents (n_slots cfg)) (vac s)
            (mkCnt (c_gen c + length ps) cinit (c_vac c) (c_active c) (c_sec c) (c_alive c))
            nx Ready).

Definition extend_from_primaries (cfg : config) (s : state) : result :=
  if negb (phase_eqb (ph s) Ready) then Misuse
  else Ok (mkState (slots s) (stack s) (clear_parents (n_slots cfg)) (vac s) (cnt s) (next_id s) Ready).

(** ** InitializeTracksAction / InitTracksExecutor *)

Definition get_idx (charge : bool) (indices : list nat) (num_new size tid : nat) : nat :=
  if charge then nth (index_before num_new tid) indices 0 + size - num_new
  else index_before size tid.

(** what thread [tid] reads: (vacant slot, initializer, parent slot) *)
Definition init_thread (cfg : config) (s : state) (indices : list nat) (num_new tid : nat)
  : nat * trk * option nat :=
  let c := cnt s in
  let ini := nth (get_idx (charge_order cfg) indices num_new (c_init c) tid) (stack s) dflt_trk in
  let vidx := if charge_order cfg
              then index_partitioned num_new (c_vac c) (is_neutral ini) tid
              else index_before (c_vac c) tid in
  let sid := nth vidx (vac s) 0 in
  let par := if tid <? c_sec c
             then nth (get_idx (charge_order cfg) indices num_new (n_slots cfg) tid) (parents s) None
             else None in
  (sid, ini, par).

(** what it writes: the sim/particle state, then the geometry (from the
    parent slot if there is one, else from the position, which may fail) *)
Definition init_write (sl : list slot) (w : nat * trk * option nat) : list slot :=
  let '(sid, ini, par) := w in
  let st' := if is_some par then Initializing
             else if tbad ini then Errored else Initializing in
  upd sid (mkSlot st' ini (ssecs (nth sid sl dflt_slot)) true) sl.

Definition initialize_tracks (cfg : config) (s : state) : result :=
  if negb (phase_eqb (ph s) Ready) then Misuse
  else
    let c := cnt s in
    let num_new := Nat.min (c_vac c) (c_init c) in
    if num_new =? 0 then
      Ok (mkState (slots s) (stack s) (parents s) (vac s)
            (mkCnt (c_gen c) (c_init c) (c_vac c) (n_slots cfg - c_vac c) (c_sec c) (c_alive c))
            (next_id s) Inited)
    else
      let indices := if charge_order cfg
                     then partition_initializers (stack s) (c_init c) num_new else [] in
      let writes := map (init_thread cfg s indices num_new) (seq 0 num_new) in
      let slots' := fold_left init_write writes (slots s) in
      let cv := c_vac c - num_new in
      let ci := c_init c - num_new in
      Ok (mkState slots' (firstn ci (stack s))
            (if charge_order cfg then clear_parents (n_slots cfg) else parents s)
            (firstn cv (vac s))
            (mkCnt (c_gen c) ci cv (n_slots cfg - cv) (c_sec c) (c_alive c))
            (next_id s) Inited).

(** ** pre-step, interaction, tracking cut (status/secondaries only) *)

Definition physics_slot (sl : slot) (o : outcome) : slot :=
  match sst sl with
  | Inactive => sl
  | Errored => mkSlot Killed (str sl) [] (sused sl)      (* pre-step clears, tracking cut kills *)
  | _ => mkSlot (if o_dies o then Killed else Alive) (str sl) (o_secs o) (sused sl)
  end.

Fixpoint physics_slots (sl : list slot) (f : list outcome) : list slot :=
  match sl with
  | [] => []
  | x :: r => physics_slot x (hd dflt_outcome f) :: physics_slots r (tl f)
  end.

Definition physics_outcome (cfg : config) (s : state) (f : list outcome) : result :=
  if negb (phase_eqb (ph s) Inited) then Misuse
  else Ok (mkState (physics_slots (slots s) f) (stack s) (parents s) (vac s) (cnt s)
             (next_id s) Interacted).

(** ** ExtendFromSecondariesAction *)

Definition live_secs (sl : slot) : list nat := filter (fun k => negb (k =? 0)) (ssecs sl).

(** LocateAliveExecutor: (vacancies[tid], secondary_counts[tid]) *)
Definition locate_alive (charge : bool) (i : nat) (sl : slot) : option nat * nat :=
  let ns := if status_eqb (sst sl) Inactive then 0 else length (live_secs sl) in
  if status_eqb (sst sl) Alive then (None, ns)
  else if (0 <? ns) && negb charge then (None, ns - 1)
  else (Some i, ns).

Fixpoint locate_all (charge : bool) (i : nat) (sl : list slot) : list (option nat * nat) :=
  match sl with
  | [] => []
  | x :: r => locate_alive charge i x :: locate_all charge (S i) r
  end.

(** loop state of ProcessSecondariesExecutor over the whole grid *)
Record pstate := mkP {
  p_arr : list trk;              (* initializer storage *)
  p_par : list (option nat);     (* parents *)
  p_nx : list nat }.             (* track counters *)

(** ProcessSecondariesExecutor, one slot.  The loop
    [for (secondary : secondaries) if (secondary) {...}] first creates a
    [TrackInitializer] with a fresh id for every non-null secondary, in order
    ([make_secondaries]); the first one is initialised in place when the
    parent is not alive and the order is not init_charge (the [initialized]
    flag of the C++), every other one is stored at
    [initializers[num_initializers - offset]], [offset] counting down
    ([push_secondaries]). *)
Definition mk_secondary (parent_id ev id k : nat) : trk := mkTrk id (Some parent_id) ev (k - 1) false.

Fixpoint make_secondaries (parent_id ev : nat) (ks : list nat) (nx : list nat) : list trk * list nat :=
  match ks with
  | [] => ([], nx)
  | k :: r =>
    let '(id, nx1) := make_track_id ev nx in
    let '(ts, nx2) := make_secondaries parent_id ev r nx1 in
    (mk_secondary parent_id ev id k :: ts, nx2)
  end.

Fixpoint push_secondaries (charge : bool) (nslots cinit i : nat) (alive : bool) (offset : nat)
  (ts : list trk) (arr : list trk) (par : list (option nat)) : list trk * list (option nat) :=
  match ts with
  | [] => (arr, par)
  | t :: r =>
    let arr' := upd (cinit - offset) t arr in
    let par' := if (offset <=? nslots) && (negb charge || alive)
                then upd (nslots - offset) (Some i) par else par in
    push_secondaries charge nslots cinit i alive (offset - 1) r arr' par'
  end.

(** [scan_i] = secondary_counts[i] after the scan, [total] =
    counters.num_secondaries, [cinit] = the already incremented
    counters.num_initializers *)
Definition proc_slot (charge : bool) (nslots cinit total : nat) (ps : pstate)
  (isc : nat * slot * nat) : slot * pstate :=
  let '(i, sl, scan_i) := isc in
  if status_eqb (sst sl) Inactive then (sl, ps)
  else
    let '(ts, nx') := make_secondaries (tid (str sl)) (tev (str sl)) (live_secs sl) (p_nx ps) in
    let alive := status_eqb (sst sl) Alive in
    let offset := total - scan_i in
    match ts, negb alive && negb charge with
    | t0 :: rest, true =>
      let '(arr, par) := push_secondaries charge nslots cinit i alive offset rest (p_arr ps) (p_par ps) in
      (mkSlot Initializing t0 (ssecs sl) true, mkP arr par nx')
    | _, _ =>
      let '(arr, par) := push_secondaries charge nslots cinit i alive offset ts (p_arr ps) (p_par ps) in
      (if status_eqb (sst sl) Killed then mkSlot Inactive (str sl) (ssecs sl) (sused sl) else sl,
       mkP arr par nx')
    end.

Fixpoint proc_all (charge : bool) (nslots cinit total : nat) (ps : pstate)
  (i : nat) (sls : list slot) (scan : list nat) : list slot * pstate :=
  match sls, scan with
  | sl :: r, sc :: rs =>
    let '(sl', ps') := proc_slot charge nslots cinit total ps (i, sl, sc) in
    let '(sls', ps'') := proc_all charge nslots cinit total ps' (S i) r rs in
    (sl' :: sls', ps'')
  | _, _ => ([], ps)
  end.

Definition extend_from_secondaries (cfg : config) (s : state) : result :=
  if negb (phase_eqb (ph s) Interacted) then Misuse
  else
    let c := cnt s in
    let n := n_slots cfg in
    let la := locate_all (charge_order cfg) 0 (slots s) in
    let vac' := remove_if_alive (map fst la) in
    let nvac := length vac' in
    let '(scan, total) := exclusive_scan 0 (map snd la) in
    let cinit := c_init c + total in
    if capacity cfg <? cinit then
      (* CELER_VALIDATE fires after the counters and the vacancies were
         updated but before any initializer / slot is written *)
      Err (mkState (slots s) (stack s) (parents s) vac'
             (mkCnt (c_gen c) cinit nvac (c_active c) total (c_alive c)) (next_id s) Failed)
    else
      let '(slots', ps) :=
        proc_all (charge_order cfg) n cinit total
          (mkP (stack s ++ repeat dflt_trk total) (parents s) (next_id s))
          0 (slots s) scan in
      Ok (mkState slots' (p_arr ps) (p_par ps) vac'
            (mkCnt (c_gen c) cinit nvac (c_active c) total (n - nvac)) (p_nx ps) Ready).

(** ** CoreState::reset, TrackInitParams::reset_track_ids *)

Definition reset (cfg : config) (s : state) : result :=
  Ok (mkState (map (fun sl => mkSlot Inactive (str sl) (ssecs sl) (sused sl)) (slots s))
        [] (parents s) (seq 0 (n_slots cfg))
        (mkCnt 0 0 (n_slots cfg) 0 0 0) (next_id s) Ready).

Definition drained (s : state) : bool :=
  forallb (fun sl => status_eqb (sst sl) Inactive) (slots s) && (c_init (cnt s) =? 0).

Definition reseed (cfg : config) (s : state) : result :=
  if negb (phase_eqb (ph s) Ready) then Misuse
  else if negb (drained s) then Misuse
  else Ok (mkState (slots s) (stack s) (parents s) (vac s) (cnt s)
             (repeat 0 (n_events cfg)) Ready).

(** ** The machine *)

Definition step (cfg : config) (s : state) (o : op) : result :=
  match o with
  | Reset => reset cfg s
  | _ =>
    if phase_eqb (ph s) Failed then Misuse
    else match o with
    | InsertPrimaries ps => insert_primaries cfg s ps
    | ExtendFromPrimaries => extend_from_primaries cfg s
    | InitializeTracks => initialize_tracks cfg s
    | PhysicsOutcome f => physics_outcome cfg s f
    | ExtendFromSecondaries => extend_from_secondaries cfg s
    | Reset => reset cfg s
    | Reseed => reseed cfg s
    end
  end.

Definition init_state (cfg : config) : state :=
  mkState (repeat dflt_slot (n_slots cfg)) [] (clear_parents (n_slots cfg))
    (seq 0 (n_slots cfg)) (mkCnt 0 0 (n_slots cfg) 0 0 0) (repeat 0 (n_events cfg)) Ready.

Definition res_state (r : result) (s : state) : state :=
  match r with Ok s' => s' | Err s' => s' | Misuse => s end.

(** trace of results; stops at the first [Misuse] *)
Fixpoint run (cfg : config) (s : state) (ops : list op) : list result :=
  match ops with
  | [] => []
  | o :: r =>
    match step cfg s o with
    | Misuse => [Misuse]
    | res => res :: run cfg (res_state res s) r
    end
  end.

(** final state if no step was a [Misuse] *)
Fixpoint exec (cfg : config) (s : state) (ops : list op) : option state :=
  match ops with
  | [] => Some s
  | o :: r =>
    match step cfg s o with
    | Misuse => None
    | res => exec cfg (res_state res s) r
    end
  end.
