(** * C02: non-vacuity for the state-construction theorems *)
From Coq Require Import List Arith Bool PeanoNat.
From Celer Require Import C02.TrackInit C02.InvA C02.InvB C02.InitData C02.InitDataProofs C02.Examples.
Import ListNotations.

(** 3 slots, capacity 2, init_charge, 2 events *)
Example ex_construct :
  construct_state (mkCfg 3 2 true 2) =
  Some (init_state (mkCfg 3 2 true 2),
        mkInitData [None; None; None] [0; 0; 0] [0; 0; 0; 0] [0; 1; 2] [0; 0] 2) /\
  data_assigned (resize_init_data (mkCfg 3 2 true 2)) = true.
Proof. split; reflexivity. Qed.

(** zero slots: the RuntimeError; capacity 0: constructed, but the data are "not assigned" *)
Example ex_construct_degenerate :
  construct_state (mkCfg 0 2 false 1) = None /\
  (exists s d, construct_state (mkCfg 2 0 false 1) = Some (s, d) /\ data_assigned d = false /\ InvA (mkCfg 2 0 false 1) s).
Proof.
  split; [reflexivity|]. eexists. eexists. split; [reflexivity|]. split; [reflexivity|].
  destruct (construct_state_ok (mkCfg 2 0 false 1)) as [_ H]. destruct (H _ _ eq_refl) as (_ & _ & HA & _). exact HA.
Qed.

(** the hypotheses of resize_sizes_suffice hold for the run of Examples.v *)
Example ex_sizes :
  exists s, exec (ex_cfg true) (init_state (ex_cfg true)) ex_ops = Some s /\ ph s <> Failed /\
            Nat.min (c_vac (cnt s)) (c_init (cnt s)) <= length (d_indices (resize_init_data (ex_cfg true))).
Proof.
  destruct (exec (ex_cfg true) (init_state (ex_cfg true)) ex_ops) as [s|] eqn:E; [|vm_compute in E; discriminate].
  exists s. split; [reflexivity|].
  assert (Hph : ph s <> Failed) by (vm_compute in E; inversion E; subst s; discriminate).
  split; [exact Hph|]. destruct (resize_sizes_suffice (ex_cfg true) ex_ops s E Hph) as (_ & H & _). apply H. reflexivity.
Qed.
