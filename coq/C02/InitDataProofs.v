(** * C02: the freshly constructed state satisfies every invariant, for every
    (slots, capacity, events, order) *)
From Coq Require Import List Arith Bool PeanoNat Lia.
From Celer Require Import C02.TrackInit C02.ListLemmas C02.InvA C02.InvA2 C02.InvB C02.TrackInitProofs C02.InitData.
Import ListNotations.

Lemma construct_state_ok : forall cfg,
  (construct_state cfg = None <-> n_slots cfg = 0) /\
  (forall s d, construct_state cfg = Some (s, d) ->
     s = init_state cfg /\ d = resize_init_data cfg /\
     InvA cfg s /\ InvB cfg s /\ all_tracks s = [] /\ drained s = true /\
     length (d_parents d) = n_slots cfg /\ length (d_vacancies d) = n_slots cfg /\
     length (d_secondary_counts d) = n_slots cfg + 1 /\
     length (d_indices d) = (if charge_order cfg then n_slots cfg else 0) /\
     length (d_track_counters d) = n_events cfg /\ d_initializers d = capacity cfg /\
     (data_assigned d = true <-> params_assigned cfg = true)).
Proof.
  intros cfg. unfold construct_state. split.
  - destruct (n_slots cfg =? 0) eqn:E; [apply Nat.eqb_eq in E|apply Nat.eqb_neq in E]; split; intros H; try discriminate; auto.
    contradiction.
  - intros s d H. destruct (n_slots cfg =? 0) eqn:E; [discriminate|]. injection H as Hs0 Hd0. subst d.
    assert (Hs : s = init_state cfg) by (rewrite <- Hs0; reflexivity). clear Hs0. subst s.
    split; [reflexivity|]. split; [reflexivity|].
    split; [apply InvA_init|]. split; [apply InvB_init|].
    assert (Hall : all_tracks (init_state cfg) = []).
    { unfold all_tracks, init_state. cbn [slots stack].
      rewrite active_tracks_all_inactive by apply repeat_dflt_inactive. reflexivity. }
    split; [exact Hall|]. split.
    { unfold drained, init_state. cbn [slots cnt c_init]. rewrite andb_true_r.
      apply forallb_forall. intros sl Hin. apply repeat_spec in Hin. subst. reflexivity. }
    unfold resize_init_data. cbn [d_parents d_vacancies d_secondary_counts d_indices d_track_counters d_initializers].
    rewrite !repeat_length, seq_length.
    split; [reflexivity|]. split; [reflexivity|]. split; [reflexivity|]. split.
    { destruct (charge_order cfg); [apply repeat_length|reflexivity]. }
    split; [reflexivity|]. split; [reflexivity|].
    unfold data_assigned, params_assigned.
    cbn [d_parents d_vacancies d_secondary_counts d_indices d_track_counters d_initializers].
    rewrite !repeat_length, seq_length, !Nat.eqb_refl.
    assert (Hi : ((length (if charge_order cfg then repeat 0 (n_slots cfg) else []) =? n_slots cfg)
                  || (length (if charge_order cfg then repeat 0 (n_slots cfg) else []) =? 0)) = true).
    { destruct (charge_order cfg); [rewrite repeat_length, Nat.eqb_refl; reflexivity|apply orb_true_r]. }
    rewrite Hi. cbn [andb].
    destruct (n_events cfg) as [|e]; destruct (capacity cfg) as [|c]; cbn; split; congruence.
Qed.

(** the scratch arrays sized by [resize] are large enough for every step of
    every run: initialize-tracks partitions at most [size] indices, the scan of
    extend-from-secondaries writes [size + 1] counts, the live vacancies never
    exceed [size], the queued initializers never exceed the storage *)
Lemma resize_sizes_suffice : forall cfg ops s,
  exec cfg (init_state cfg) ops = Some s -> ph s <> Failed ->
  let d := resize_init_data cfg in
  Nat.min (c_vac (cnt s)) (c_init (cnt s)) <= length (d_vacancies d) /\
  (charge_order cfg = true -> Nat.min (c_vac (cnt s)) (c_init (cnt s)) <= length (d_indices d)) /\
  length (fst (exclusive_scan 0 (map snd (locate_all (charge_order cfg) 0 (slots s))))) + 1
    = length (d_secondary_counts d) /\
  c_vac (cnt s) <= length (d_vacancies d) /\
  length (parents s) = length (d_parents d) /\
  length (next_id s) = length (d_track_counters d) /\
  c_init (cnt s) <= d_initializers d.
Proof.
  intros cfg ops s Hex Hph. cbn zeta.
  destruct (counters_exact cfg ops s Hex) as ((Hl & Hp & Hn) & Hlive & _).
  destruct (Hlive Hph) as (A & B & C & _).
  pose proof (n_inactive_le (slots s)) as Hle. rewrite Hl in Hle.
  unfold resize_init_data. cbn [d_parents d_vacancies d_secondary_counts d_indices d_track_counters d_initializers].
  rewrite !repeat_length, seq_length, exclusive_scan_length, map_length, locate_all_length, Hl.
  split; [lia|]. split; [intros Hc; rewrite Hc, repeat_length; lia|].
  split; [reflexivity|]. split; [lia|]. split; [exact Hp|]. split; [exact Hn|]. lia.
Qed.
