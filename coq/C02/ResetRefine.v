(** * C02/C16: reset_then_run_ok as a refinement to the freshly constructed state *)
From Coq Require Import List Arith Bool PeanoNat Lia.
From Celer Require Import C02.TrackInit C02.ListLemmas C02.InvA C02.InvA2 C02.InvB C02.TrackInitProofs C02.Refine.
Import ListNotations.

Lemma reset_slots_fresh : forall p l n, length l = n ->
  Forall2 (slot_rel p) (map (fun sl => mkSlot Inactive (str sl) (ssecs sl) (sused sl)) l) (repeat dflt_slot n).
Proof.
  intros p. induction l as [|x r IH]; intros n H; subst n; cbn; constructor.
  - split; [reflexivity|]. intros E. cbn in E. contradiction.
  - apply IH. reflexivity.
Qed.

(** From ANY reachable state (in particular after a capacity error), [reset]
    gives a state from which every continuation that follows the Stepper
    protocol produces, op by op, the same results (Ok / Err / Misuse) and
    observably equal states -- initializer stack, vacancies, all counters, track
    counters, slot statuses, the tracks of all occupied slots, the secondaries
    seen by extend-from-secondaries -- as the same continuation run on the
    freshly constructed state with the same track counters. *)
Lemma reset_refines_fresh : forall cfg ops s s1 ops',
  exec cfg (init_state cfg) ops = Some s -> reset cfg s = Ok s1 ->
  stepper_protocol false ops' = true ->
  state_rel false s1 (fresh_with cfg (next_id s)) /\
  Forall2 res_obs (run cfg s1 ops') (run cfg (fresh_with cfg (next_id s)) ops') /\
  fresh_with cfg (repeat 0 (n_events cfg)) = init_state cfg.
Proof.
  intros cfg ops s s1 ops' Hex Hr Hprot.
  destruct (counters_exact cfg ops s Hex) as ((Hl & _ & _) & _).
  assert (HR : state_rel false s1 (fresh_with cfg (next_id s))).
  { unfold reset in Hr. inversion Hr; subst s1; clear Hr. unfold fresh_with, state_rel.
    cbn [ph stack parents vac cnt next_id slots]. repeat split; auto; try discriminate.
    apply reset_slots_fresh. exact Hl. }
  split; [exact HR|]. split; [|reflexivity].
  apply (sim_run_protocol cfg ops' false); [|exact Hprot]. split; [exact HR|discriminate].
Qed.

(** a continuation as the Stepper produces it *)
Example stepper_protocol_ex :
  stepper_protocol false
    [InsertPrimaries [mkPrim 0 0 false]; InitializeTracks; PhysicsOutcome [mkOut true [1]];
     ExtendFromSecondaries; ExtendFromPrimaries; InitializeTracks; PhysicsOutcome [mkOut true []];
     ExtendFromSecondaries; Reseed; Reset; InsertPrimaries []] = true.
Proof. reflexivity. Qed.

(** error, reset, continuation: related results, and the stale data is really there *)
Definition rr_cfg : config := mkCfg 2 2 false 1.
Definition rr_ops : list op :=
  [InsertPrimaries [mkPrim 0 0 false; mkPrim 0 0 false]; InitializeTracks;
   PhysicsOutcome [mkOut false [1; 1]; mkOut false [2; 2]]; ExtendFromSecondaries].
Definition rr_ops' : list op :=
  [InsertPrimaries [mkPrim 0 1 false]; InitializeTracks; PhysicsOutcome [mkOut true [2]; mkOut true []];
   ExtendFromSecondaries].

Example reset_refines_fresh_ex :
  exists s s1,
    exec rr_cfg (init_state rr_cfg) rr_ops = Some s /\ ph s = Failed /\ reset rr_cfg s = Ok s1 /\
    s1 <> fresh_with rr_cfg (next_id s) /\
    Forall2 res_obs (run rr_cfg s1 rr_ops') (run rr_cfg (fresh_with rr_cfg (next_id s)) rr_ops') /\
    length (run rr_cfg s1 rr_ops') = 4.
Proof.
  destruct (exec rr_cfg (init_state rr_cfg) rr_ops) as [s|] eqn:Hs; [|vm_compute in Hs; discriminate].
  destruct (reset rr_cfg s) as [s1|s1|] eqn:Hr; try (unfold reset in Hr; discriminate).
  exists s, s1. destruct (reset_refines_fresh rr_cfg rr_ops s s1 rr_ops' Hs Hr eq_refl) as (_ & H & _).
  vm_compute in Hs. inversion Hs; subst s. vm_compute in Hr. inversion Hr; subst s1.
  split; [reflexivity|]. split; [reflexivity|]. split; [reflexivity|]. split.
  - intros E. apply (f_equal slots) in E. vm_compute in E. discriminate.
  - split; [exact H|]. vm_compute. reflexivity.
Qed.
