(** extraction of the C02 model for the op-sequence differential (ExtrOcamlBasic only) *)
From Coq Require Import Extraction ExtrOcamlBasic.
From Celer Require Import C02.TrackInit C02.Run.
Extraction Language OCaml.
Extraction "c02model.ml" run_case fresh_case.
