(** * C02: the [parents] entries written by ProcessSecondariesExecutor name the
    slot that pushed the corresponding initializer. *)
From Coq Require Import List Arith Bool PeanoNat Lia Permutation.
From Celer Require Import C02.TrackInit C02.ListLemmas C02.InvA C02.InvA2 C02.InvB C02.TrackInitProofs.
Import ListNotations.

(** the parents component of [push_secondaries] (it does not depend on the
    initializer array) *)
Fixpoint push_par (charge : bool) (nslots i : nat) (alive : bool) (offset len : nat)
  (par : list (option nat)) : list (option nat) :=
  match len with
  | 0 => par
  | S k =>
    push_par charge nslots i alive (offset - 1) k
      (if (offset <=? nslots) && (negb charge || alive) then upd (nslots - offset) (Some i) par else par)
  end.

Lemma push_secondaries_par : forall charge nslots cinit i alive ts offset arr par,
  snd (push_secondaries charge nslots cinit i alive offset ts arr par)
  = push_par charge nslots i alive offset (length ts) par.
Proof.
  induction ts as [|t r IH]; intros offset arr par; [reflexivity|].
  cbn [push_secondaries length push_par]. apply IH.
Qed.

(** closed form: the entry at distance [o] from the end *)
Lemma push_par_nth : forall charge nslots i alive len offset par o,
  length par = nslots -> len <= offset -> 1 <= o <= nslots ->
  nth (nslots - o) (push_par charge nslots i alive offset len par) None =
  if (offset - len <? o) && (o <=? offset) && (negb charge || alive)
  then Some i else nth (nslots - o) par None.
Proof.
  induction len as [|k IH]; intros offset par o Hlen Hoff Ho.
  - cbn [push_par]. replace (offset - 0) with offset by lia.
    destruct (offset <? o) eqn:E1; destruct (o <=? offset) eqn:E2; cbn; try reflexivity.
    apply Nat.ltb_lt in E1. apply Nat.leb_le in E2. lia.
  - cbn [push_par].
    set (par1 := if (offset <=? nslots) && (negb charge || alive)
                 then upd (nslots - offset) (Some i) par else par).
    assert (Hlen1 : length par1 = nslots).
    { unfold par1. destruct ((offset <=? nslots) && (negb charge || alive)); [rewrite upd_length|]; exact Hlen. }
    rewrite (IH (offset - 1) par1 o Hlen1 ltac:(lia) Ho).
    replace (offset - 1 - k) with (offset - S k) by lia.
    destruct (Nat.eq_dec o offset) as [Heq|Hne].
    + subst o.
      assert (E1 : (offset - S k <? offset) = true) by (apply Nat.ltb_lt; lia).
      assert (E2 : (offset <=? offset - 1) = false) by (apply Nat.leb_gt; lia).
      assert (E3 : (offset <=? offset) = true) by (apply Nat.leb_le; lia).
      assert (E4 : (offset <=? nslots) = true) by (apply Nat.leb_le; lia).
      rewrite E1, E2, E3. cbn [andb]. unfold par1. rewrite E4. cbn [andb].
      destruct (negb charge || alive); [|reflexivity].
      apply nth_upd_eq. lia.
    + assert (Hpar1 : nth (nslots - o) par1 None = nth (nslots - o) par None).
      { unfold par1. destruct ((offset <=? nslots) && (negb charge || alive)) eqn:E; [|reflexivity].
        apply andb_true_iff in E. destruct E as [E _]. apply Nat.leb_le in E.
        apply nth_upd_neq. lia. }
      rewrite Hpar1.
      assert (E : (o <=? offset - 1) = (o <=? offset)).
      { destruct (o <=? offset) eqn:E2.
        - apply Nat.leb_le in E2. apply Nat.leb_le. lia.
        - apply Nat.leb_gt in E2. apply Nat.leb_gt. lia. }
      rewrite E. reflexivity.
Qed.

Lemma push_par_length : forall charge nslots i alive len offset par,
  length (push_par charge nslots i alive offset len par) = length par.
Proof.
  induction len as [|k IH]; intros offset par; [reflexivity|]. cbn [push_par]. rewrite IH.
  destruct ((offset <=? nslots) && (negb charge || alive)); [apply upd_length|reflexivity].
Qed.

(** what one slot does to [parents] *)
Lemma proc_slot_par : forall charge nslots cinit total ps i sl sc,
  p_par (snd (proc_slot charge nslots cinit total ps (i, sl, sc)))
  = push_par charge nslots i (status_eqb (sst sl) Alive) (total - sc)
      (length (snd (fst (spec_slot charge sl (p_nx ps))))) (p_par ps).
Proof.
  intros. unfold proc_slot, spec_slot.
  destruct (status_eqb (sst sl) Inactive); [reflexivity|].
  destruct (make_secondaries (tid (str sl)) (tev (str sl)) (live_secs sl) (p_nx ps)) as [ts nx'].
  destruct ts as [|t0 rest].
  - cbn [push_secondaries fst snd p_par length push_par]. reflexivity.
  - destruct (negb (status_eqb (sst sl) Alive) && negb charge).
    + pose proof (push_secondaries_par charge nslots cinit i (status_eqb (sst sl) Alive) rest (total - sc) (p_arr ps) (p_par ps)) as H.
      destruct (push_secondaries _ _ _ _ _ _ rest _ _) as [arr par]. cbn [fst snd p_par] in *. exact H.
    + pose proof (push_secondaries_par charge nslots cinit i (status_eqb (sst sl) Alive) (t0 :: rest) (total - sc) (p_arr ps) (p_par ps)) as H.
      destruct (push_secondaries _ _ _ _ _ _ (t0 :: rest) _ _) as [arr par]. cbn [fst snd p_par] in *. exact H.
Qed.

(** origin slot (and whether that slot is alive) of every pushed initializer,
    in push order *)
Fixpoint origins (charge : bool) (i : nat) (sls : list slot) : list (nat * bool) :=
  match sls with
  | [] => []
  | sl :: r =>
    repeat (i, status_eqb (sst sl) Alive) (snd (locate_alive charge i sl)) ++ origins charge (S i) r
  end.

Lemma origins_length : forall charge sls i,
  length (origins charge i sls) = list_sum (map snd (locate_all charge i sls)).
Proof.
  induction sls as [|sl r IH]; intros i; [reflexivity|].
  cbn [origins locate_all map list_sum fold_right]. rewrite app_length, repeat_length, IH. reflexivity.
Qed.

(** the whole grid *)
Lemma proc_all_par : forall charge nslots cinit total sls i W ps par0 done,
  W + list_sum (map snd (locate_all charge i sls)) = total ->
  length (p_par ps) = nslots -> length done = W ->
  (forall o, 1 <= o <= nslots ->
     nth (nslots - o) (p_par ps) None =
     match nth_error done (total - o) with
     | Some (j, al) => if (o <=? total) && (negb charge || al) then Some j else nth (nslots - o) par0 None
     | None => nth (nslots - o) par0 None
     end) ->
  let r := proc_all charge nslots cinit total ps i sls
             (fst (exclusive_scan W (map snd (locate_all charge i sls)))) in
  let all := done ++ origins charge i sls in
  length (p_par (snd r)) = nslots /\
  (forall o, 1 <= o <= nslots ->
     nth (nslots - o) (p_par (snd r)) None =
     match nth_error all (total - o) with
     | Some (j, al) => if (o <=? total) && (negb charge || al) then Some j else nth (nslots - o) par0 None
     | None => nth (nslots - o) par0 None
     end).
Proof.
  induction sls as [|sl rest IH]; intros i W ps par0 done Htot Hlen Hd Hinv; cbn zeta.
  - cbn [locate_all map exclusive_scan fst proc_all snd origins]. rewrite app_nil_r. auto.
  - cbn [locate_all map origins] in *. rewrite exclusive_scan_cons. cbn [fst proc_all].
    set (c := snd (locate_alive charge i sl)) in *.
    cbn [list_sum fold_right] in Htot. fold (list_sum (map snd (locate_all charge (S i) rest))) in Htot.
    pose proof (proc_slot_par charge nslots cinit total ps i sl W) as Hpar.
    rewrite <- (locate_count charge i sl (p_nx ps)) in Hpar. fold c in Hpar.
    destruct (proc_slot charge nslots cinit total ps (i, sl, W)) as [sl' ps'] eqn:Hp. cbn [fst snd] in *.
    specialize (IH (S i) (W + c) ps' par0 (done ++ repeat (i, status_eqb (sst sl) Alive) c) ltac:(lia)).
    rewrite Hpar, push_par_length in IH. specialize (IH Hlen ltac:(rewrite app_length, repeat_length; lia)).
    cbn zeta in IH. rewrite <- app_assoc in IH.
    destruct (proc_all charge nslots cinit total ps' (S i) rest _) as [sls' ps''] eqn:Hq. cbn [fst snd] in *.
    apply IH. clear IH.
    intros o Ho.
    rewrite (push_par_nth charge nslots i (status_eqb (sst sl) Alive) c (total - W) (p_par ps) o Hlen ltac:(lia) Ho).
    rewrite (Hinv o Ho).
    destruct (Nat.lt_ge_cases (total - o) W) as [Hlt|Hge].
    + (* an earlier push *)
      rewrite nth_error_app1 by lia.
      assert (E : (total - W - c <? o) && (o <=? total - W) = false).
      { apply andb_false_iff. right. apply Nat.leb_gt. lia. }
      rewrite E. cbn [andb]. reflexivity.
    + rewrite (proj2 (nth_error_None done (total - o)) ltac:(lia)).
      rewrite nth_error_app2 by lia.
      destruct (Nat.lt_ge_cases (total - o - W) c) as [Hin|Hout].
      * (* one of this slot's pushes *)
        assert (Hn : nth_error (repeat (i, status_eqb (sst sl) Alive) c) (total - o - length done)
                     = Some (i, status_eqb (sst sl) Alive)).
        { rewrite Hd. rewrite nth_error_nth' with (d := (i, status_eqb (sst sl) Alive)) by (rewrite repeat_length; lia).
          f_equal. apply nth_repeat. }
        rewrite Hn.
        destruct (Nat.le_gt_cases o total) as [Hot|Hot].
        -- assert (E1 : (total - W - c <? o) = true) by (apply Nat.ltb_lt; lia).
           assert (E2 : (o <=? total - W) = true) by (apply Nat.leb_le; lia).
           assert (E3 : (o <=? total) = true) by (apply Nat.leb_le; lia).
           rewrite E1, E2, E3. cbn [andb]. destruct (negb charge || status_eqb (sst sl) Alive); reflexivity.
        -- (* o > total: total - o = 0 *)
           assert (E2 : (o <=? total - W) = false) by (apply Nat.leb_gt; lia).
           assert (E3 : (o <=? total) = false) by (apply Nat.leb_gt; lia).
           rewrite E2, E3. rewrite andb_false_r. cbn [andb]. reflexivity.
      * rewrite (proj2 (nth_error_None (repeat (i, status_eqb (sst sl) Alive) c) (total - o - length done)))
          by (rewrite repeat_length; lia).
        assert (E : (total - W - c <? o) && (o <=? total - W) = false).
        { apply andb_false_iff. destruct (Nat.le_gt_cases o total) as [Hot|Hot].
          - left. apply Nat.ltb_ge. lia.
          - right. apply Nat.leb_gt. lia. }
        rewrite E. cbn [andb]. reflexivity.
Qed.

(** every pushed initializer carries the id / event of the track of its
    origin slot *)
Lemma make_secondaries_parent : forall p ev ks nx,
  Forall (fun t => tev t = ev /\ tpar t = Some p) (fst (make_secondaries p ev ks nx)).
Proof.
  induction ks as [|k r IH]; intros nx; [constructor|].
  rewrite make_secondaries_cons. cbn [fst]. constructor; [split; reflexivity|apply IH].
Qed.

Lemma spec_slot_pushed_parent : forall charge sl nx,
  Forall (fun t => tev t = tev (str sl) /\ tpar t = Some (tid (str sl))) (snd (fst (spec_slot charge sl nx))).
Proof.
  intros charge sl nx. unfold spec_slot.
  destruct (status_eqb (sst sl) Inactive); [constructor|].
  pose proof (make_secondaries_parent (tid (str sl)) (tev (str sl)) (live_secs sl) nx) as H.
  destruct (make_secondaries _ _ _ nx) as [ts nx']. cbn [fst] in H.
  destruct ts as [|t0 rest]; [constructor|].
  destruct (negb (status_eqb (sst sl) Alive) && negb charge); cbn [fst snd]; [|exact H].
  inversion H; assumption.
Qed.

Lemma Forall2_repeat : forall {A B} (P : A -> B -> Prop) (l : list A) (x : B),
  Forall (fun a => P a x) l -> Forall2 P l (repeat x (length l)).
Proof. induction l as [|a r IH]; intros x H; cbn; constructor; inversion H; subst; auto. Qed.

Lemma spec_all_origins : forall charge full sls pre nx,
  full = pre ++ sls ->
  Forall2 (fun t (o : nat * bool) =>
             let sl := nth (fst o) full dflt_slot in
             tev t = tev (str sl) /\ tpar t = Some (tid (str sl)) /\ snd o = status_eqb (sst sl) Alive)
          (snd (fst (spec_all charge sls nx))) (origins charge (length pre) sls).
Proof.
  induction sls as [|sl r IH]; intros pre nx Hfull; [constructor|].
  rewrite spec_all_cons. cbn [fst snd origins].
  apply Forall2_app.
  - rewrite (locate_count charge (length pre) sl nx).
    apply Forall2_repeat. cbn [fst snd].
    assert (Hn : nth (length pre) full dflt_slot = sl) by (subst full; rewrite app_nth2, Nat.sub_diag; [reflexivity|lia]).
    rewrite Hn. eapply Forall_impl; [|apply spec_slot_pushed_parent]. intros t [A B]. auto.
  - specialize (IH (pre ++ [sl]) (snd (spec_slot charge sl nx))).
    rewrite app_length in IH. cbn [length] in IH. rewrite Nat.add_1_r in IH. apply IH.
    rewrite <- app_assoc. exact Hfull.
Qed.

(** scan_ranges_disjoint, third clause: after ExtendFromSecondaries, for every
    distance [o] from the top of the stack with [o <= min(total, slots)], the
    initializer [stack'[n_init' - o]] was pushed by slot [j] (it carries that
    slot's track id as parent and its event), and [parents[slots - o] = j]
    whenever the code stores a parent (order /= init_charge, or the parent is
    still alive); every other entry of [parents] is unchanged. *)
Lemma parents_correct : forall cfg ops s s',
  exec cfg (init_state cfg) ops = Some s -> extend_from_secondaries cfg s = Ok s' ->
  let n := n_slots cfg in
  let total := c_sec (cnt s') in
  let orig := origins (charge_order cfg) 0 (slots s) in
  let pushed := skipn (length (stack s)) (stack s') in
  length orig = total /\
  Forall2 (fun t (o : nat * bool) =>
             let sl := nth (fst o) (slots s) dflt_slot in
             tev t = tev (str sl) /\ tpar t = Some (tid (str sl)) /\ snd o = status_eqb (sst sl) Alive)
          pushed orig /\
  (forall o, 1 <= o <= n ->
     nth (n - o) (parents s') None =
     match nth_error orig (total - o) with
     | Some (j, al) => if (o <=? total) && (negb (charge_order cfg) || al) then Some j
                       else nth (n - o) (parents s) None
     | None => nth (n - o) (parents s) None
     end).
Proof.
  intros cfg ops s s' Hex H n total orig pushed.
  pose proof (counters_exact cfg ops s Hex) as ((Hl & Hp & Hn) & Hlive & _).
  destruct (secondaries_layout cfg ops s s' Hex H) as (L1 & L2 & L3).
  unfold extend_from_secondaries in H.
  destruct (phase_eqb (ph s) Interacted) eqn:Hph; cbn [negb] in H; [|discriminate].
  apply phase_eqb_eq in Hph. rewrite Hph in Hlive.
  destruct (Hlive ltac:(discriminate)) as (A & B & C & D).
  pose proof (exclusive_scan_total (map snd (locate_all (charge_order cfg) 0 (slots s))) 0) as Htot.
  destruct (exclusive_scan 0 (map snd (locate_all (charge_order cfg) 0 (slots s)))) as [scan tot] eqn:Hscan.
  cbn [snd] in Htot.
  destruct (capacity cfg <? c_init (cnt s) + tot) eqn:Hcap; [discriminate|].
  pose proof (proc_all_par (charge_order cfg) (n_slots cfg) (c_init (cnt s) + tot) tot (slots s) 0 0
                (mkP (stack s ++ repeat dflt_trk tot) (parents s) (next_id s)) (parents s) []
                ltac:(lia) Hp eq_refl) as Hpar.
  cbn zeta in Hpar. rewrite Hscan in Hpar. cbn [fst p_par app] in Hpar.
  destruct Hpar as [_ Hpar].
  { intros o Ho. destruct (tot - o); reflexivity. }
  destruct (proc_all _ _ _ _ _ _ _ _) as [slots' ps] eqn:Hpa. cbn [fst snd] in *.
  inversion H; subst s'; clear H. unfold total, pushed, orig, n. proj_simpl. cbn [stack cnt c_sec] in *.
  split; [rewrite origins_length; lia|]. split.
  - rewrite L2. rewrite skipn_app, Nat.sub_diag, skipn_all. cbn [app skipn].
    apply (spec_all_origins (charge_order cfg) (slots s) (slots s) [] (next_id s) eq_refl).
  - exact Hpar.
Qed.
