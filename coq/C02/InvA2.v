(** * C02: the structural invariant is preserved by initialize_tracks and
    extend_from_secondaries; injectivity of the thread -> (initializer,
    vacancy) assignment for both track orders. *)
From Coq Require Import List Arith Bool PeanoNat Lia Permutation.
From Celer Require Import C02.TrackInit C02.ListLemmas C02.InvA.
Import ListNotations.

(** ** generic *)

Lemma NoDup_map_on : forall {A B} (g : A -> B) (l : list A),
  NoDup l -> (forall a b, In a l -> In b l -> g a = g b -> a = b) -> NoDup (map g l).
Proof.
  induction l as [|x r IH]; intros Hnd Hinj; cbn; [constructor|].
  inversion Hnd as [|? ? Hnotin Hnd']; subst. constructor.
  - intros Hin. apply in_map_iff in Hin. destruct Hin as [y [Hy Hyin]].
    assert (y = x) by (apply Hinj; [right; exact Hyin|left; reflexivity|exact Hy]). subst. contradiction.
  - apply IH; [exact Hnd'|]. intros a b Ha Hb. apply Hinj; right; assumption.
Qed.

Lemma NoDup_map_seq : forall (g : nat -> nat) m,
  (forall a b, a < m -> b < m -> g a = g b -> a = b) -> NoDup (map g (seq 0 m)).
Proof.
  intros g m H. apply NoDup_map_on; [apply seq_NoDup|].
  intros a b Ha Hb. apply in_seq in Ha, Hb. apply H; lia.
Qed.

Lemma Forall_upd : forall {A} (P : A -> Prop) l i x, Forall P l -> P x -> Forall P (upd i x l).
Proof.
  induction l as [|y r IH]; intros i x Hl Hx; [destruct i; constructor|].
  inversion Hl; subst. destruct i; cbn; constructor; auto.
Qed.

(** ** the thread -> vacancy index map of InitTracksExecutor *)

Section Assignment.
  Variables (stk : list trk) (ci cv num_new : nat).
  Hypothesis Hci : num_new <= ci.
  Hypothesis Hcv : num_new <= cv.

  Let f (i : nat) : bool := is_neutral (nth (ci - num_new + i) stk dflt_trk).
  Let indices : list nat := partition_initializers stk ci num_new.
  Let k : nat := length (filter f (seq 0 num_new)).

  (** initializer index of thread [tid] *)
  Definition iidx (charge : bool) (tid : nat) : nat := get_idx charge indices num_new ci tid.

  (** vacancy index of thread [tid] *)
  Definition vidx (charge : bool) (tid : nat) : nat :=
    if charge
    then index_partitioned num_new cv (is_neutral (nth (iidx true tid) stk dflt_trk)) tid
    else index_before cv tid.

  Lemma indices_perm : Permutation indices (seq 0 num_new).
  Proof. unfold indices, partition_initializers. apply stable_partition_perm. Qed.

  Lemma indices_length : length indices = num_new.
  Proof. rewrite (Permutation_length indices_perm). apply seq_length. Qed.

  Lemma indices_lt : forall p, p < num_new -> nth p indices 0 < num_new.
  Proof.
    intros p Hp. assert (Hin : In (nth p indices 0) indices) by (apply nth_In; rewrite indices_length; exact Hp).
    apply (Permutation_in _ indices_perm) in Hin. apply in_seq in Hin. lia.
  Qed.

  Lemma indices_NoDup : NoDup indices.
  Proof. apply (Permutation_NoDup (Permutation_sym indices_perm)). apply seq_NoDup. Qed.

  (** neutral initializers are read by the threads with the HIGH ids *)
  Lemma neutral_by_position : forall tid, tid < num_new ->
    let pos := index_before num_new tid in
    (is_neutral (nth (iidx true tid) stk dflt_trk) = true /\ pos < k) \/
    (is_neutral (nth (iidx true tid) stk dflt_trk) = false /\ k <= pos).
  Proof.
    intros tid Ht pos. unfold iidx, get_idx. fold pos.
    assert (Hpos : pos < num_new) by (unfold pos, index_before; lia).
    pose proof (indices_lt pos Hpos) as Hq.
    replace (nth pos indices 0 + ci - num_new) with (ci - num_new + nth pos indices 0) by lia.
    change (is_neutral (nth (ci - num_new + nth pos indices 0) stk dflt_trk)) with (f (nth pos indices 0)).
    unfold indices, partition_initializers. fold f.
    destruct (Nat.lt_ge_cases pos k) as [Hlt|Hge].
    - left. split; [|exact Hlt]. apply stable_partition_nth_front. exact Hlt.
    - right. split; [|exact Hge]. apply stable_partition_nth_back. rewrite seq_length. fold k. lia.
  Qed.

  Lemma vidx_lt : forall charge tid, tid < num_new -> vidx charge tid < cv.
  Proof.
    intros charge tid Ht. unfold vidx, index_partitioned, index_before.
    destruct charge; [destruct (is_neutral _)|]; lia.
  Qed.

  (** init_assignment_injective, vacancy component *)
  Lemma vidx_inj : forall charge t1 t2, t1 < num_new -> t2 < num_new ->
    vidx charge t1 = vidx charge t2 -> t1 = t2.
  Proof.
    intros charge t1 t2 H1 H2 Heq. unfold vidx in Heq. destruct charge.
    - assert (Hk : k <= num_new).
      { unfold k. rewrite <- (seq_length num_new 0) at 2.
        clear. induction (seq 0 num_new) as [|x r IH]; cbn; [lia|]. destruct (f x); cbn; lia. }
      destruct (neutral_by_position t1 H1) as [[N1 P1]|[N1 P1]];
      destruct (neutral_by_position t2 H2) as [[N2 P2]|[N2 P2]];
      rewrite N1, N2 in Heq; unfold index_partitioned, index_before in *; lia.
    - unfold index_before in Heq. lia.
  Qed.

  Lemma iidx_range : forall charge tid, tid < num_new -> ci - num_new <= iidx charge tid < ci.
  Proof.
    intros charge tid Ht. unfold iidx, get_idx, index_before. destruct charge; [|lia].
    pose proof (indices_lt (num_new - tid - 1) ltac:(lia)). lia.
  Qed.

  (** init_assignment_injective, initializer component *)
  Lemma iidx_inj : forall charge t1 t2, t1 < num_new -> t2 < num_new ->
    iidx charge t1 = iidx charge t2 -> t1 = t2.
  Proof.
    intros charge t1 t2 H1 H2 Heq. unfold iidx, get_idx, index_before in Heq. destruct charge; [|lia].
    pose proof (indices_lt (num_new - t1 - 1) ltac:(lia)).
    pose proof (indices_lt (num_new - t2 - 1) ltac:(lia)).
    assert (Hn : nth (num_new - t1 - 1) indices 0 = nth (num_new - t2 - 1) indices 0) by lia.
    apply (proj1 (NoDup_nth indices 0) indices_NoDup) in Hn; rewrite ?indices_length; lia.
  Qed.
End Assignment.

(** ** initialize_tracks *)

Definition wsid (w : nat * trk * option nat) : nat := fst (fst w).

Lemma init_write_active : forall sl w,
  is_inactive (nth (wsid w) (init_write sl w) dflt_slot) = false \/ length sl <= wsid w.
Proof.
  intros sl [[sid ini] par]. unfold init_write, wsid. cbn [fst].
  destruct (Nat.lt_ge_cases sid (length sl)) as [Hlt|Hge]; [left|right; exact Hge].
  rewrite nth_upd_eq by exact Hlt. unfold is_inactive. cbn.
  destruct (is_some par); [reflexivity|]. destruct (tbad ini); reflexivity.
Qed.

(** status sets: we carry the weaker "not Killed" through the fold *)
Lemma fold_init_write : forall ws sls,
  NoDup (map wsid ws) ->
  (forall w, In w ws -> wsid w < length sls /\ is_inactive (nth (wsid w) sls dflt_slot) = true) ->
  Forall (fun sl => status_ok Inited (sst sl)) sls ->
  length (fold_left init_write ws sls) = length sls /\
  n_inactive (fold_left init_write ws sls) + length ws = n_inactive sls /\
  Forall (fun sl => status_ok Inited (sst sl)) (fold_left init_write ws sls) /\
  (forall j, ~ In j (map wsid ws) -> nth j (fold_left init_write ws sls) dflt_slot = nth j sls dflt_slot).
Proof.
  induction ws as [|w ws IH]; intros sls Hnd Hin Hst.
  - cbn. repeat split; auto.
  - cbn [fold_left map] in *. inversion Hnd as [|? ? Hnotin Hnd']; subst.
    destruct (Hin w (or_introl eq_refl)) as [Hlt Hina].
    destruct w as [[sid ini] par]. unfold wsid in Hlt, Hina, Hnotin. cbn [fst] in Hlt, Hina, Hnotin.
    set (x := mkSlot (if is_some par then Initializing else if tbad ini then Errored else Initializing)
                     ini (ssecs (nth sid sls dflt_slot)) true).
    assert (Hx : is_inactive x = false).
    { unfold x, is_inactive. cbn. destruct (is_some par); [reflexivity|]. destruct (tbad ini); reflexivity. }
    change (init_write sls (sid, ini, par)) with (upd sid x sls).
    destruct (IH (upd sid x sls) Hnd') as (L & N & S & U).
    + intros w' Hw'. destruct (Hin w' (or_intror Hw')) as [A B].
      rewrite upd_length. split; [exact A|].
      rewrite nth_upd_neq; [exact B|]. intros Heq. apply Hnotin. apply in_map_iff. exists w'. split; [symmetry; exact Heq|exact Hw'].
    + apply Forall_upd; [exact Hst|]. unfold x. cbn.
      destruct (is_some par); [discriminate|]. destruct (tbad ini); discriminate.
    + rewrite upd_length in L. split; [exact L|]. split; [|split; [exact S|]].
      * rewrite (n_inactive_upd sls sid x Hlt Hina Hx). cbn [length]. lia.
      * intros j Hj. rewrite U.
        -- apply nth_upd_neq. intros Heq. apply Hj. left. unfold wsid. cbn. exact Heq.
        -- intros Hc. apply Hj. right. exact Hc.
Qed.

Lemma status_ready_inited : forall sls,
  Forall (fun sl => status_ok Ready (sst sl)) sls -> Forall (fun sl => status_ok Inited (sst sl)) sls.
Proof.
  intros sls H. eapply Forall_impl; [|exact H]. intros sl Hs. cbn in *.
  destruct Hs as [Hs|[Hs|Hs]]; rewrite Hs; discriminate.
Qed.

(** the slots written by the threads of one InitializeTracks call are
    pairwise distinct vacant slots *)
Lemma init_targets : forall cfg s num_new,
  InvA cfg s -> ph s = Ready ->
  num_new <= c_vac (cnt s) -> num_new <= c_init (cnt s) ->
  let indices := if charge_order cfg then partition_initializers (stack s) (c_init (cnt s)) num_new else [] in
  let ws := map (init_thread cfg s indices num_new) (seq 0 num_new) in
  NoDup (map wsid ws) /\
  (forall w, In w ws -> wsid w < length (slots s) /\ is_inactive (nth (wsid w) (slots s) dflt_slot) = true).
Proof.
  intros cfg s num_new ((Hl & Hp & Hn) & Hlive & Hready & _) Hph Hcv Hci indices ws.
  rewrite Hph in Hlive. destruct (Hlive ltac:(discriminate)) as (A & B & C & D).
  destruct (Hready Hph) as (E & F).
  assert (Hvlen : length (vac s) = c_vac (cnt s)) by (rewrite E, inactive_from_length; symmetry; exact C).
  (* the slot id written by thread t *)
  assert (Hsid : forall t, wsid (init_thread cfg s indices num_new t)
                           = nth (vidx (stack s) (c_init (cnt s)) (c_vac (cnt s)) num_new (charge_order cfg) t) (vac s) 0).
  { intros t. unfold init_thread, wsid, vidx, iidx, indices. cbn [fst].
    destruct (charge_order cfg); reflexivity. }
  split.
  - unfold ws. rewrite map_map.
    rewrite (map_ext _ (fun t => nth (vidx (stack s) (c_init (cnt s)) (c_vac (cnt s)) num_new (charge_order cfg) t) (vac s) 0) Hsid).
    apply NoDup_map_seq. intros a b Ha Hb Heq.
    pose proof (vidx_lt (stack s) (c_init (cnt s)) (c_vac (cnt s)) num_new Hci Hcv (charge_order cfg) a Ha) as La.
    pose proof (vidx_lt (stack s) (c_init (cnt s)) (c_vac (cnt s)) num_new Hci Hcv (charge_order cfg) b Hb) as Lb.
    assert (Hnd : NoDup (vac s)) by (rewrite E; apply inactive_from_NoDup).
    apply (proj1 (NoDup_nth (vac s) 0) Hnd) in Heq; [|lia|lia].
    exact (vidx_inj (stack s) _ _ num_new Hci Hcv (charge_order cfg) a b Ha Hb Heq).
  - intros w Hw. unfold ws in Hw. apply in_map_iff in Hw. destruct Hw as [t [Ht Htin]]. subst w.
    apply in_seq in Htin. rewrite Hsid.
    pose proof (vidx_lt (stack s) (c_init (cnt s)) (c_vac (cnt s)) num_new Hci Hcv (charge_order cfg) t ltac:(lia)) as Lt.
    assert (Hin : In (nth (vidx (stack s) (c_init (cnt s)) (c_vac (cnt s)) num_new (charge_order cfg) t) (vac s) 0) (vac s))
      by (apply nth_In; lia).
    rewrite E in Hin at 2. apply inactive_from_In in Hin. rewrite Nat.sub_0_r in Hin. cbn in Hin. tauto.
Qed.

Lemma InvA_initialize : forall cfg s s', InvA cfg s -> initialize_tracks cfg s = Ok s' -> InvA cfg s'.
Proof.
  intros cfg s s' Hinv H. pose proof Hinv as ((Hl & Hp & Hn) & Hlive & Hready & Hstep).
  unfold initialize_tracks in H.
  destruct (phase_eqb (ph s) Ready) eqn:Hph; cbn [negb] in H; [|discriminate].
  apply phase_eqb_eq in Hph.
  rewrite Hph in Hlive. destruct (Hlive ltac:(discriminate)) as (A & B & C & D).
  destruct (Nat.min (c_vac (cnt s)) (c_init (cnt s)) =? 0) eqn:Hz.
  - inversion H; subst s'; clear H. inv_unfold.
    split; [auto|]. split; [|split].
    + intros _. split; [auto|]. split; [auto|]. split; [auto|]. apply status_ready_inited. exact D.
    + discriminate.
    + intros _. rewrite C. reflexivity.
  - set (num_new := Nat.min (c_vac (cnt s)) (c_init (cnt s))) in *.
    assert (Hcv : num_new <= c_vac (cnt s)) by (unfold num_new; lia).
    assert (Hci : num_new <= c_init (cnt s)) by (unfold num_new; lia).
    destruct (init_targets cfg s num_new Hinv Hph Hcv Hci) as [Hnd Htg].
    cbn zeta in Hnd, Htg.
    destruct (fold_init_write _ (slots s) Hnd Htg (status_ready_inited _ D)) as (L & N & S & U).
    rewrite map_length, seq_length in N.
    inversion H; subst s'; clear H. inv_unfold.
    split; [split; [congruence|split; [|auto]]|].
    { destruct (charge_order cfg); [unfold clear_parents; apply repeat_length|exact Hp]. }
    split; [|split].
    + intros _. split; [|split; [|split]].
      * rewrite firstn_length. lia.
      * rewrite firstn_length. lia.
      * lia.
      * exact S.
    + discriminate.
    + intros _. f_equal. lia.
Qed.

(** ** extend_from_secondaries *)

Definition final_status (charge : bool) (sl : slot) : status :=
  match sst sl with
  | Inactive => Inactive
  | Alive => Alive
  | st =>
    match live_secs sl with
    | _ :: _ => if negb charge then Initializing else (if status_eqb st Killed then Inactive else st)
    | [] => if status_eqb st Killed then Inactive else st
    end
  end.

Lemma make_secondaries_lengths : forall p ev ks nx,
  length (fst (make_secondaries p ev ks nx)) = length ks /\
  length (snd (make_secondaries p ev ks nx)) = length nx.
Proof.
  induction ks as [|k r IH]; intros nx; [cbn; auto|].
  cbn [make_secondaries]. unfold make_track_id.
  destruct (IH (upd ev (S (nth ev nx 0)) nx)) as [H1 H2].
  destruct (make_secondaries p ev r (upd ev (S (nth ev nx 0)) nx)) as [ts nx2]. cbn in *.
  rewrite upd_length in H2. auto.
Qed.

Lemma push_secondaries_lengths : forall charge nslots cinit i alive ts offset arr par,
  length (fst (push_secondaries charge nslots cinit i alive offset ts arr par)) = length arr /\
  length (snd (push_secondaries charge nslots cinit i alive offset ts arr par)) = length par.
Proof.
  induction ts as [|t r IH]; intros offset arr par; [cbn; auto|].
  cbn [push_secondaries].
  destruct (IH (offset - 1) (upd (cinit - offset) t arr)
               (if (offset <=? nslots) && (negb charge || alive) then upd (nslots - offset) (Some i) par else par)) as [H1 H2].
  rewrite upd_length in H1. split; [exact H1|].
  rewrite H2. destruct ((offset <=? nslots) && (negb charge || alive)); [apply upd_length|reflexivity].
Qed.

Lemma proc_slot_spec : forall charge nslots cinit total ps i sl sc,
  let r := proc_slot charge nslots cinit total ps (i, sl, sc) in
  sst (fst r) = final_status charge sl /\
  length (p_arr (snd r)) = length (p_arr ps) /\
  length (p_par (snd r)) = length (p_par ps) /\
  length (p_nx (snd r)) = length (p_nx ps).
Proof.
  intros charge nslots cinit total ps i sl sc. cbn zeta. unfold proc_slot, final_status.
  destruct (status_eqb (sst sl) Inactive) eqn:Hin.
  { cbn [fst snd]. destruct (sst sl); try discriminate. auto. }
  destruct (make_secondaries_lengths (tid (str sl)) (tev (str sl)) (live_secs sl) (p_nx ps)) as [Hts Hnx].
  destruct (make_secondaries (tid (str sl)) (tev (str sl)) (live_secs sl) (p_nx ps)) as [ts nx'] eqn:Hms.
  cbn [fst snd] in Hts, Hnx.
  destruct ts as [|t0 rest].
  - (* no live secondaries *)
    destruct (live_secs sl); [|cbn in Hts; discriminate].
    pose proof (push_secondaries_lengths charge nslots cinit i (status_eqb (sst sl) Alive) [] (total - sc) (p_arr ps) (p_par ps)) as [L1 L2].
    destruct (push_secondaries _ _ _ _ _ _ [] _ _) as [arr par]. cbn [fst snd] in *.
    destruct (sst sl) eqn:Hs; try discriminate; cbn; auto.
  - destruct (live_secs sl) as [|k0 ks] eqn:Hlive; [cbn in Hts; discriminate|].
    destruct (negb (status_eqb (sst sl) Alive) && negb charge) eqn:Hcond.
    + pose proof (push_secondaries_lengths charge nslots cinit i (status_eqb (sst sl) Alive) rest (total - sc) (p_arr ps) (p_par ps)) as [L1 L2].
      destruct (push_secondaries _ _ _ _ _ _ rest _ _) as [arr par]. cbn [fst snd] in *.
      apply andb_true_iff in Hcond. destruct Hcond as [Ha Hc]. rewrite Hc.
      destruct (sst sl) eqn:Hs; try discriminate; cbn; auto.
    + pose proof (push_secondaries_lengths charge nslots cinit i (status_eqb (sst sl) Alive) (t0 :: rest) (total - sc) (p_arr ps) (p_par ps)) as [L1 L2].
      destruct (push_secondaries _ _ _ _ _ _ (t0 :: rest) _ _) as [arr par]. cbn [fst snd] in *.
      apply andb_false_iff in Hcond.
      destruct (sst sl) eqn:Hs; try discriminate; cbn in *; auto.
      all: destruct Hcond as [Hc|Hc]; try discriminate; rewrite Hc; cbn; auto.
Qed.

Lemma proc_all_spec : forall charge nslots cinit total sls scan ps i,
  length scan = length sls ->
  let r := proc_all charge nslots cinit total ps i sls scan in
  map sst (fst r) = map (final_status charge) sls /\
  length (p_arr (snd r)) = length (p_arr ps) /\
  length (p_par (snd r)) = length (p_par ps) /\
  length (p_nx (snd r)) = length (p_nx ps).
Proof.
  induction sls as [|sl r IH]; intros scan ps i Hlen; destruct scan as [|sc rs]; cbn in Hlen; try discriminate.
  - cbn. auto.
  - cbn [proc_all]. cbn zeta.
    pose proof (proc_slot_spec charge nslots cinit total ps i sl sc) as (S1 & S2 & S3 & S4).
    destruct (proc_slot charge nslots cinit total ps (i, sl, sc)) as [sl' ps'] eqn:Hp. cbn [fst snd] in *.
    specialize (IH rs ps' (S i) ltac:(lia)). cbn zeta in IH. destruct IH as (I1 & I2 & I3 & I4).
    destruct (proc_all charge nslots cinit total ps' (S i) r rs) as [sls' ps''] eqn:Hq. cbn [fst snd] in *.
    split; [cbn; rewrite S1, I1; reflexivity|]. repeat split; congruence.
Qed.

Lemma locate_all_length : forall charge sls i, length (locate_all charge i sls) = length sls.
Proof. induction sls as [|x r IH]; intros i; cbn; [reflexivity|]. rewrite IH. reflexivity. Qed.

(** the vacancy list computed by LocateAlive + remove_if_alive is exactly the
    list of slots that end up inactive *)
Lemma locate_vac : forall charge sls sls' i,
  Forall (fun sl => status_ok Interacted (sst sl)) sls ->
  map sst sls' = map (final_status charge) sls ->
  remove_if_alive (map fst (locate_all charge i sls)) = inactive_from i sls'.
Proof.
  induction sls as [|x r IH]; intros sls' i Hst Hm; destruct sls' as [|y s']; cbn in Hm; try discriminate; [reflexivity|].
  inversion Hm as [[H1 H2]]. inversion Hst as [|? ? Hx Hr]; subst.
  cbn [locate_all map inactive_from]. unfold is_inactive. rewrite H1.
  rewrite <- (IH s' (S i) Hr H2).
  unfold locate_alive, final_status. cbn in Hx.
  destruct Hx as [Hx|[Hx|Hx]]; rewrite Hx; cbn.
  - reflexivity.
  - reflexivity.
  - destruct (live_secs x) as [|k ks]; cbn; [reflexivity|].
    destruct charge; cbn; reflexivity.
Qed.

Lemma final_status_ready : forall charge sls,
  Forall (fun sl => status_ok Interacted (sst sl)) sls ->
  forall sls', map sst sls' = map (final_status charge) sls ->
  Forall (fun sl => status_ok Ready (sst sl)) sls'.
Proof.
  induction sls as [|x r IH]; intros Hst sls' Hm; destruct sls' as [|y s']; cbn in Hm; try discriminate; [constructor|].
  inversion Hm as [[H1 H2]]. inversion Hst as [|? ? Hx Hr]; subst. constructor; [|apply IH; assumption].
  rewrite H1. unfold final_status. cbn in *.
  destruct Hx as [Hx|[Hx|Hx]]; rewrite Hx; cbn; auto.
  destruct (live_secs x); cbn; auto. destruct charge; cbn; auto.
Qed.

Lemma InvA_extend_sec : forall cfg s s',
  InvA cfg s -> (extend_from_secondaries cfg s = Ok s' \/ extend_from_secondaries cfg s = Err s') -> InvA cfg s'.
Proof.
  intros cfg s s' ((Hl & Hp & Hn) & Hlive & Hready & Hstep) H.
  unfold extend_from_secondaries in H.
  destruct (phase_eqb (ph s) Interacted) eqn:Hph; cbn [negb] in H; [|destruct H; discriminate].
  apply phase_eqb_eq in Hph. rewrite Hph in Hlive.
  destruct (Hlive ltac:(discriminate)) as (A & B & C & D).
  pose proof (exclusive_scan_length (map snd (locate_all (charge_order cfg) 0 (slots s))) 0) as Hsl.
  rewrite map_length, locate_all_length in Hsl.
  destruct (exclusive_scan 0 (map snd (locate_all (charge_order cfg) 0 (slots s)))) as [scan total] eqn:Hscan.
  cbn [fst] in Hsl.
  destruct (capacity cfg <? c_init (cnt s) + total) eqn:Hcap.
  - (* error: only the lengths matter *)
    destruct H as [H|H]; [discriminate|]. inversion H; subst s'; clear H. inv_unfold.
    split; [auto|]. split; [|split].
    + intros Hc. exfalso. apply Hc. reflexivity.
    + discriminate.
    + intros [Hc|Hc]; discriminate.
  - pose proof (proc_all_spec (charge_order cfg) (n_slots cfg) (c_init (cnt s) + total) total (slots s) scan
                  (mkP (stack s ++ repeat dflt_trk total) (parents s) (next_id s)) 0 Hsl) as Hspec.
    cbn zeta in Hspec. destruct Hspec as (S1 & S2 & S3 & S4).
    destruct (proc_all _ _ _ _ _ _ _ _) as [slots' ps] eqn:Hpa. cbn [fst snd p_arr p_par p_nx] in *.
    destruct H as [H|H]; [|discriminate]. inversion H; subst s'; clear H.
    apply Nat.ltb_ge in Hcap.
    assert (Hlen' : length slots' = length (slots s)).
    { rewrite <- (map_length sst slots'), S1, map_length. reflexivity. }
    pose proof (locate_vac (charge_order cfg) (slots s) slots' 0 D S1) as Hvac.
    rewrite app_length, repeat_length in S2.
    inv_unfold.
    split; [split; [congruence|split; congruence]|]. split; [|split].
    + intros _. split; [lia|]. split; [lia|]. split.
      * rewrite Hvac. apply inactive_from_length.
      * eapply final_status_ready; eauto.
    + intros _. split; [exact Hvac|]. rewrite Hvac, inactive_from_length. reflexivity.
    + intros [Hc|Hc]; discriminate.
Qed.
