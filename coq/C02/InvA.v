(** * C02: the structural invariant (counters and vacancies are exact) and its
    preservation by every operation of the machine. *)
From Coq Require Import List Arith Bool PeanoNat Lia Permutation.
From Celer Require Import C02.TrackInit C02.ListLemmas.
Import ListNotations.

(** ** Inactive slots *)

Definition is_inactive (sl : slot) : bool := status_eqb (sst sl) Inactive.
Definition n_inactive (sls : list slot) : nat := length (filter is_inactive sls).
Arguments n_inactive : simpl never.

(** sorted indices of the inactive slots, counting from [i] *)
Fixpoint inactive_from (i : nat) (sls : list slot) : list nat :=
  match sls with
  | [] => []
  | x :: r => if is_inactive x then i :: inactive_from (S i) r else inactive_from (S i) r
  end.

Lemma inactive_from_length : forall sls i, length (inactive_from i sls) = n_inactive sls.
Proof.
  unfold n_inactive. induction sls as [|x r IH]; intros i; cbn; [reflexivity|].
  destruct (is_inactive x); cbn; rewrite IH; reflexivity.
Qed.

Lemma inactive_from_In : forall sls i j, In j (inactive_from i sls) ->
  i <= j < i + length sls /\ is_inactive (nth (j - i) sls dflt_slot) = true.
Proof.
  induction sls as [|x r IH]; intros i j Hin; cbn in Hin; [contradiction|].
  destruct (is_inactive x) eqn:Hx.
  - destruct Hin as [Heq|Hin].
    + subst j. cbn. rewrite Nat.sub_diag. split; [lia|exact Hx].
    + apply IH in Hin. destruct Hin as [Hr Hn]. cbn. split; [lia|].
      replace (j - i) with (S (j - S i)) by lia. exact Hn.
  - apply IH in Hin. destruct Hin as [Hr Hn]. cbn. split; [lia|].
    replace (j - i) with (S (j - S i)) by lia. exact Hn.
Qed.

Lemma inactive_from_lb : forall sls i j, In j (inactive_from i sls) -> i <= j.
Proof. intros sls i j H. apply inactive_from_In in H. lia. Qed.

Lemma inactive_from_NoDup : forall sls i, NoDup (inactive_from i sls).
Proof.
  induction sls as [|x r IH]; intros i; cbn; [constructor|].
  destruct (is_inactive x); [|apply IH].
  constructor; [|apply IH]. intros Hin. apply inactive_from_lb in Hin. lia.
Qed.

Lemma inactive_from_ext : forall a b i, map sst a = map sst b -> inactive_from i a = inactive_from i b.
Proof.
  induction a as [|x r IH]; intros b i Hm; destruct b as [|y s]; cbn in Hm; try discriminate; [reflexivity|].
  inversion Hm as [[H1 H2]]. cbn. unfold is_inactive. rewrite H1. rewrite (IH s (S i) H2). reflexivity.
Qed.

Lemma n_inactive_ext : forall a b, map sst a = map sst b -> n_inactive a = n_inactive b.
Proof. intros a b H. rewrite <- !(inactive_from_length _ 0). rewrite (inactive_from_ext a b 0 H). reflexivity. Qed.

Lemma n_inactive_app : forall a b, n_inactive (a ++ b) = n_inactive a + n_inactive b.
Proof. intros. unfold n_inactive. rewrite filter_app, app_length. reflexivity. Qed.

Lemma n_inactive_le : forall sls, n_inactive sls <= length sls.
Proof.
  unfold n_inactive. induction sls as [|x r IH]; cbn; [lia|]. destruct (is_inactive x); cbn; lia.
Qed.

Lemma inactive_from_all : forall sls i, Forall (fun sl => is_inactive sl = true) sls ->
  inactive_from i sls = seq i (length sls).
Proof.
  induction sls as [|x r IH]; intros i H; cbn; [reflexivity|].
  inversion H; subst. rewrite H2. rewrite IH by assumption. reflexivity.
Qed.

(** writing an active slot over an inactive one *)
Lemma n_inactive_upd : forall sls i x,
  i < length sls -> is_inactive (nth i sls dflt_slot) = true -> is_inactive x = false ->
  n_inactive sls = S (n_inactive (upd i x sls)).
Proof.
  intros sls i x Hi Hold Hnew.
  destruct (upd_split sls i x dflt_slot Hi) as [H1 H2].
  rewrite H1. rewrite H2 at 1. rewrite !n_inactive_app.
  change (nth i sls dflt_slot :: skipn (S i) sls) with ([nth i sls dflt_slot] ++ skipn (S i) sls).
  change (x :: skipn (S i) sls) with ([x] ++ skipn (S i) sls).
  rewrite !n_inactive_app. unfold n_inactive at 2 5. cbn. rewrite Hold, Hnew. cbn. lia.
Qed.

(** ** The invariant *)

Definition status_ok (p : phase) (st : status) : Prop :=
  match p with
  | Ready => st = Inactive \/ st = Alive \/ st = Initializing
  | Inited => st <> Killed
  | Interacted => st = Inactive \/ st = Alive \/ st = Killed
  | Failed => True
  end.

Definition InvA_live (cfg : config) (p : phase) (s : state) : Prop :=
  c_init (cnt s) = length (stack s) /\
  length (stack s) <= capacity cfg /\
  c_vac (cnt s) = n_inactive (slots s) /\
  Forall (fun sl => status_ok p (sst sl)) (slots s).

Definition InvA_ready (cfg : config) (s : state) : Prop :=
  vac s = inactive_from 0 (slots s) /\
  c_alive (cnt s) = n_slots cfg - n_inactive (slots s).

Definition InvA_step (cfg : config) (s : state) : Prop :=
  c_active (cnt s) = n_slots cfg - n_inactive (slots s).

Definition InvA (cfg : config) (s : state) : Prop :=
  (length (slots s) = n_slots cfg /\
   length (parents s) = n_slots cfg /\
   length (next_id s) = n_events cfg) /\
  (ph s <> Failed -> InvA_live cfg (ph s) s) /\
  (ph s = Ready -> InvA_ready cfg s) /\
  (ph s = Inited \/ ph s = Interacted -> InvA_step cfg s).

Ltac proj_simpl :=
  cbn [slots stack parents vac cnt next_id ph c_gen c_init c_vac c_active c_sec c_alive].
Ltac inv_unfold := unfold InvA, InvA_live, InvA_ready, InvA_step in *; proj_simpl.

Lemma phase_eqb_eq : forall a b, phase_eqb a b = true -> a = b.
Proof. intros a b; destruct a, b; cbn; congruence. Qed.

(** ** init_state, reset, reseed, extend_from_primaries *)

Lemma repeat_dflt_inactive : forall n, Forall (fun sl => is_inactive sl = true) (repeat dflt_slot n).
Proof. induction n; cbn; constructor; auto. Qed.

Lemma n_inactive_all : forall sls, Forall (fun sl => is_inactive sl = true) sls -> n_inactive sls = length sls.
Proof. intros sls H. rewrite <- (inactive_from_length sls 0), inactive_from_all by exact H. apply seq_length. Qed.

Lemma InvA_init : forall cfg, InvA cfg (init_state cfg).
Proof.
  intros cfg. unfold init_state, clear_parents. inv_unfold.
  rewrite !repeat_length.
  rewrite (n_inactive_all _ (repeat_dflt_inactive _)), repeat_length.
  rewrite (inactive_from_all _ 0 (repeat_dflt_inactive _)), repeat_length.
  split; [auto|]. split; [|split].
  - intros _. cbn [length]. split; [reflexivity|]. split; [lia|]. split; [reflexivity|].
    apply Forall_forall. intros sl Hin. apply repeat_spec in Hin. subst. left. reflexivity.
  - intros _. split; [reflexivity|lia].
  - intros [H|H]; discriminate.
Qed.

Lemma map_reset_inactive : forall sls,
  Forall (fun sl => is_inactive sl = true)
         (map (fun sl => mkSlot Inactive (str sl) (ssecs sl) (sused sl)) sls).
Proof. induction sls; cbn; constructor; auto. Qed.

Lemma InvA_reset : forall cfg s s', InvA cfg s -> reset cfg s = Ok s' -> InvA cfg s'.
Proof.
  intros cfg s s' ((Hl & Hp & Hn) & _) H. unfold reset in H. inversion H; subst s'; clear H.
  inv_unfold. rewrite map_length.
  rewrite (n_inactive_all _ (map_reset_inactive _)), map_length.
  rewrite (inactive_from_all _ 0 (map_reset_inactive _)), map_length, Hl.
  split; [auto|]. split; [|split].
  - intros _. cbn [length]. split; [reflexivity|]. split; [lia|]. split; [reflexivity|].
    apply Forall_forall. intros sl Hin. apply in_map_iff in Hin. destruct Hin as [x [Hx _]]. subst. left; reflexivity.
  - intros _. split; [reflexivity|lia].
  - intros [H|H]; discriminate.
Qed.

Lemma InvA_reseed : forall cfg s s', InvA cfg s -> reseed cfg s = Ok s' -> InvA cfg s'.
Proof.
  intros cfg s s' ((Hl & Hp & Hn) & Hlive & Hready & Hstep) H. unfold reseed in H.
  destruct (phase_eqb (ph s) Ready) eqn:Hph; cbn in H; [|discriminate].
  destruct (drained s); cbn in H; [|discriminate].
  inversion H; subst s'; clear H.
  apply phase_eqb_eq in Hph. rewrite Hph in *.
  inv_unfold. rewrite repeat_length.
  split; [auto|]. split; [exact Hlive|split; [exact Hready|exact Hstep]].
Qed.

Lemma InvA_extend_prim : forall cfg s s', InvA cfg s -> extend_from_primaries cfg s = Ok s' -> InvA cfg s'.
Proof.
  intros cfg s s' ((Hl & Hp & Hn) & Hlive & Hready & Hstep) H. unfold extend_from_primaries in H.
  destruct (phase_eqb (ph s) Ready) eqn:Hph; cbn in H; [|discriminate].
  inversion H; subst s'; clear H.
  apply phase_eqb_eq in Hph. rewrite Hph in *.
  unfold clear_parents. inv_unfold. rewrite repeat_length.
  split; [auto|]. split; [exact Hlive|split; [exact Hready|exact Hstep]].
Qed.

(** ** insert_primaries *)

Lemma process_primaries_lengths : forall cinit nprim tps arr nx,
  length (fst (fold_left (process_primary cinit nprim) tps (arr, nx))) = length arr /\
  length (snd (fold_left (process_primary cinit nprim) tps (arr, nx))) = length nx.
Proof.
  induction tps as [|[t p] tps IH]; intros arr nx; [cbn; auto|].
  cbn [fold_left]. unfold process_primary at 2. unfold make_track_id.
  destruct (IH (upd (index_after (cinit - nprim) t) (mkTrk (nth (p_ev p) nx 0) None (p_ev p) (p_pid p) (p_bad p)) arr)
               (upd (p_ev p) (S (nth (p_ev p) nx 0)) nx)) as [H1 H2].
  rewrite !upd_length in *. auto.
Qed.

Lemma InvA_insert_ok : forall cfg s ps s', InvA cfg s -> insert_primaries cfg s ps = Ok s' -> InvA cfg s'.
Proof.
  intros cfg s ps s' ((Hl & Hp & Hn) & Hlive & Hready & Hstep) H. unfold insert_primaries in H.
  destruct (phase_eqb (ph s) Ready) eqn:Hph; cbn [negb] in H; [|discriminate].
  destruct (forallb (fun p => p_ev p <? n_events cfg) ps); cbn [negb] in H; [|discriminate].
  destruct (capacity cfg <? length ps + c_init (cnt s)) eqn:Hcap; [discriminate|].
  apply phase_eqb_eq in Hph. rewrite Hph in *.
  destruct (Hlive ltac:(discriminate)) as (A & B & C & D).
  destruct (Hready eq_refl) as (E & F).
  unfold process_primaries in H.
  destruct (process_primaries_lengths (c_init (cnt s) + length ps) (length ps)
               (combine (seq 0 (length ps)) ps) (stack s ++ repeat dflt_trk (length ps)) (next_id s)) as [Ha Hx].
  destruct (fold_left _ _ _) as [arr nx] eqn:Hf. cbn [fst snd] in Ha, Hx.
  inversion H; subst s'; clear H.
  apply Nat.ltb_ge in Hcap.
  rewrite app_length, repeat_length in Ha.
  unfold clear_parents. inv_unfold. rewrite repeat_length.
  split; [split; [auto|split; [auto|lia]]|]. split; [|split].
  - intros _. split; [lia|]. split; [lia|]. auto.
  - intros _. auto.
  - intros [H|H]; discriminate.
Qed.

Lemma InvA_failed : forall cfg s, InvA cfg s -> InvA cfg (set_ph Failed s).
Proof.
  intros cfg s ((Hl & Hp & Hn) & _). unfold set_ph. inv_unfold.
  split; [auto|]. split; [|split].
  - intros Hc; exfalso; apply Hc; reflexivity.
  - discriminate.
  - intros [H|H]; discriminate.
Qed.

Lemma insert_err_state : forall cfg s ps s', insert_primaries cfg s ps = Err s' -> s' = set_ph Failed s.
Proof.
  intros cfg s ps s' H. unfold insert_primaries in H.
  destruct (negb (phase_eqb (ph s) Ready)); [discriminate|].
  destruct (negb (forallb _ ps)); [discriminate|].
  destruct (capacity cfg <? _); [inversion H; reflexivity|].
  destruct (process_primaries _ _ _ _); discriminate.
Qed.

(** ** physics *)

Lemma physics_slots_length : forall sls f, length (physics_slots sls f) = length sls.
Proof. induction sls as [|x r IH]; intros f; cbn; [reflexivity|]. rewrite IH. reflexivity. Qed.

Lemma physics_slot_inactive : forall sl o, is_inactive (physics_slot sl o) = is_inactive sl.
Proof.
  intros sl o. unfold physics_slot, is_inactive. destruct (sst sl) eqn:Hs; cbn; try rewrite Hs; try reflexivity.
  all: destruct (o_dies o); reflexivity.
Qed.

Lemma physics_slots_n_inactive : forall sls f, n_inactive (physics_slots sls f) = n_inactive sls.
Proof.
  unfold n_inactive. induction sls as [|x r IH]; intros f; cbn; [reflexivity|].
  rewrite physics_slot_inactive. destruct (is_inactive x); cbn; rewrite IH; reflexivity.
Qed.

Lemma physics_slots_status : forall sls f,
  Forall (fun sl => status_ok Inited (sst sl)) sls ->
  Forall (fun sl => status_ok Interacted (sst sl)) (physics_slots sls f).
Proof.
  induction sls as [|x r IH]; intros f H; cbn; constructor.
  - inversion H as [|? ? H2 H3]; subst. unfold physics_slot. cbn in H2.
    destruct (sst x) eqn:Hs; cbn [sst status_ok].
    + left. exact Hs.
    + destruct (o_dies _); auto.
    + destruct (o_dies _); auto.
    + auto.
    + congruence.
  - inversion H; subst. apply IH. assumption.
Qed.

Lemma InvA_physics : forall cfg s f s', InvA cfg s -> physics_outcome cfg s f = Ok s' -> InvA cfg s'.
Proof.
  intros cfg s f s' ((Hl & Hp & Hn) & Hlive & Hready & Hstep) H. unfold physics_outcome in H.
  destruct (phase_eqb (ph s) Inited) eqn:Hph; cbn [negb] in H; [|discriminate].
  inversion H; subst s'; clear H.
  apply phase_eqb_eq in Hph. rewrite Hph in *.
  destruct (Hlive ltac:(discriminate)) as (A & B & C & D).
  inv_unfold. rewrite physics_slots_length, physics_slots_n_inactive.
  split; [auto|]. split; [|split].
  - intros _. split; [auto|]. split; [auto|]. split; [auto|]. apply physics_slots_status. exact D.
  - discriminate.
  - intros _. apply Hstep. left; reflexivity.
Qed.
