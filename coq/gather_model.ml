
(** val negb : bool -> bool **)

let negb = function
| true -> false
| false -> true

type nat =
| O
| S of nat

(** val fst : ('a1 * 'a2) -> 'a1 **)

let fst = function
| (x, _) -> x

(** val snd : ('a1 * 'a2) -> 'a2 **)

let snd = function
| (_, y) -> y

(** val length : 'a1 list -> nat **)

let rec length = function
| [] -> O
| _ :: l' -> S (length l')

type comparison =
| Eq
| Lt
| Gt

(** val compOpp : comparison -> comparison **)

let compOpp = function
| Eq -> Eq
| Lt -> Gt
| Gt -> Lt

module Coq__1 = struct
 (** val add : nat -> nat -> nat **)
 let rec add n m =
   match n with
   | O -> m
   | S p -> S (add p m)
end
include Coq__1

module Nat =
 struct
  (** val eqb : nat -> nat -> bool **)

  let rec eqb n m =
    match n with
    | O -> (match m with
            | O -> true
            | S _ -> false)
    | S n' -> (match m with
               | O -> false
               | S m' -> eqb n' m')
 end

(** val nth_error : 'a1 list -> nat -> 'a1 option **)

let rec nth_error l = function
| O -> (match l with
        | [] -> None
        | x :: _ -> Some x)
| S n0 -> (match l with
           | [] -> None
           | _ :: l0 -> nth_error l0 n0)

(** val map : ('a1 -> 'a2) -> 'a1 list -> 'a2 list **)

let rec map f = function
| [] -> []
| a :: t -> (f a) :: (map f t)

(** val fold_left : ('a1 -> 'a2 -> 'a1) -> 'a2 list -> 'a1 -> 'a1 **)

let rec fold_left f l a0 =
  match l with
  | [] -> a0
  | b :: t -> fold_left f t (f a0 b)

(** val fold_right : ('a2 -> 'a1 -> 'a1) -> 'a1 -> 'a2 list -> 'a1 **)

let rec fold_right f a0 = function
| [] -> a0
| b :: t -> f b (fold_right f a0 t)

(** val filter : ('a1 -> bool) -> 'a1 list -> 'a1 list **)

let rec filter f = function
| [] -> []
| x :: l0 -> if f x then x :: (filter f l0) else filter f l0

(** val combine : 'a1 list -> 'a2 list -> ('a1 * 'a2) list **)

let rec combine l l' =
  match l with
  | [] -> []
  | x :: tl ->
    (match l' with
     | [] -> []
     | y :: tl' -> (x, y) :: (combine tl tl'))

(** val seq : nat -> nat -> nat list **)

let rec seq start = function
| O -> []
| S len0 -> start :: (seq (S start) len0)

type positive =
| XI of positive
| XO of positive
| XH

type z =
| Z0
| Zpos of positive
| Zneg of positive

module Pos =
 struct
  (** val succ : positive -> positive **)

  let rec succ = function
  | XI p -> XO (succ p)
  | XO p -> XI p
  | XH -> XO XH

  (** val add : positive -> positive -> positive **)

  let rec add x y =
    match x with
    | XI p ->
      (match y with
       | XI q -> XO (add_carry p q)
       | XO q -> XI (add p q)
       | XH -> XO (succ p))
    | XO p ->
      (match y with
       | XI q -> XI (add p q)
       | XO q -> XO (add p q)
       | XH -> XI p)
    | XH -> (match y with
             | XI q -> XO (succ q)
             | XO q -> XI q
             | XH -> XO XH)

  (** val add_carry : positive -> positive -> positive **)

  and add_carry x y =
    match x with
    | XI p ->
      (match y with
       | XI q -> XI (add_carry p q)
       | XO q -> XO (add_carry p q)
       | XH -> XI (succ p))
    | XO p ->
      (match y with
       | XI q -> XO (add_carry p q)
       | XO q -> XI (add p q)
       | XH -> XO (succ p))
    | XH ->
      (match y with
       | XI q -> XI (succ q)
       | XO q -> XO (succ q)
       | XH -> XI XH)

  (** val pred_double : positive -> positive **)

  let rec pred_double = function
  | XI p -> XI (XO p)
  | XO p -> XI (pred_double p)
  | XH -> XH

  (** val compare_cont : comparison -> positive -> positive -> comparison **)

  let rec compare_cont r x y =
    match x with
    | XI p ->
      (match y with
       | XI q -> compare_cont r p q
       | XO q -> compare_cont Gt p q
       | XH -> Gt)
    | XO p ->
      (match y with
       | XI q -> compare_cont Lt p q
       | XO q -> compare_cont r p q
       | XH -> Gt)
    | XH -> (match y with
             | XH -> r
             | _ -> Lt)

  (** val compare : positive -> positive -> comparison **)

  let compare =
    compare_cont Eq

  (** val eqb : positive -> positive -> bool **)

  let rec eqb p q =
    match p with
    | XI p0 -> (match q with
                | XI q0 -> eqb p0 q0
                | _ -> false)
    | XO p0 -> (match q with
                | XO q0 -> eqb p0 q0
                | _ -> false)
    | XH -> (match q with
             | XH -> true
             | _ -> false)

  (** val iter_op : ('a1 -> 'a1 -> 'a1) -> positive -> 'a1 -> 'a1 **)

  let rec iter_op op p a =
    match p with
    | XI p0 -> op a (iter_op op p0 (op a a))
    | XO p0 -> iter_op op p0 (op a a)
    | XH -> a

  (** val to_nat : positive -> nat **)

  let to_nat x =
    iter_op Coq__1.add x (S O)

  (** val of_succ_nat : nat -> positive **)

  let rec of_succ_nat = function
  | O -> XH
  | S x -> succ (of_succ_nat x)
 end

module Z =
 struct
  (** val double : z -> z **)

  let double = function
  | Z0 -> Z0
  | Zpos p -> Zpos (XO p)
  | Zneg p -> Zneg (XO p)

  (** val succ_double : z -> z **)

  let succ_double = function
  | Z0 -> Zpos XH
  | Zpos p -> Zpos (XI p)
  | Zneg p -> Zneg (Pos.pred_double p)

  (** val pred_double : z -> z **)

  let pred_double = function
  | Z0 -> Zneg XH
  | Zpos p -> Zpos (Pos.pred_double p)
  | Zneg p -> Zneg (XI p)

  (** val pos_sub : positive -> positive -> z **)

  let rec pos_sub x y =
    match x with
    | XI p ->
      (match y with
       | XI q -> double (pos_sub p q)
       | XO q -> succ_double (pos_sub p q)
       | XH -> Zpos (XO p))
    | XO p ->
      (match y with
       | XI q -> pred_double (pos_sub p q)
       | XO q -> double (pos_sub p q)
       | XH -> Zpos (Pos.pred_double p))
    | XH ->
      (match y with
       | XI q -> Zneg (XO q)
       | XO q -> Zneg (Pos.pred_double q)
       | XH -> Z0)

  (** val add : z -> z -> z **)

  let add x y =
    match x with
    | Z0 -> y
    | Zpos x' ->
      (match y with
       | Z0 -> x
       | Zpos y' -> Zpos (Pos.add x' y')
       | Zneg y' -> pos_sub x' y')
    | Zneg x' ->
      (match y with
       | Z0 -> x
       | Zpos y' -> pos_sub y' x'
       | Zneg y' -> Zneg (Pos.add x' y'))

  (** val opp : z -> z **)

  let opp = function
  | Z0 -> Z0
  | Zpos x0 -> Zneg x0
  | Zneg x0 -> Zpos x0

  (** val sub : z -> z -> z **)

  let sub m n =
    add m (opp n)

  (** val compare : z -> z -> comparison **)

  let compare x y =
    match x with
    | Z0 -> (match y with
             | Z0 -> Eq
             | Zpos _ -> Lt
             | Zneg _ -> Gt)
    | Zpos x' -> (match y with
                  | Zpos y' -> Pos.compare x' y'
                  | _ -> Gt)
    | Zneg x' ->
      (match y with
       | Zneg y' -> compOpp (Pos.compare x' y')
       | _ -> Lt)

  (** val ltb : z -> z -> bool **)

  let ltb x y =
    match compare x y with
    | Lt -> true
    | _ -> false

  (** val eqb : z -> z -> bool **)

  let eqb x y =
    match x with
    | Z0 -> (match y with
             | Z0 -> true
             | _ -> false)
    | Zpos p -> (match y with
                 | Zpos q -> Pos.eqb p q
                 | _ -> false)
    | Zneg p -> (match y with
                 | Zneg q -> Pos.eqb p q
                 | _ -> false)

  (** val min : z -> z -> z **)

  let min n m =
    match compare n m with
    | Gt -> m
    | _ -> n

  (** val to_nat : z -> nat **)

  let to_nat = function
  | Zpos p -> Pos.to_nat p
  | _ -> O

  (** val of_nat : nat -> z **)

  let of_nat = function
  | O -> Z0
  | S n0 -> Zpos (Pos.of_succ_nat n0)
 end

type status =
| Inactive
| Initializing
| Alive
| Errored
| Killed

(** val is_inactive : status -> bool **)

let is_inactive = function
| Inactive -> true
| _ -> false

(** val is_track_valid : status -> bool **)

let is_track_valid = function
| Inactive -> false
| Errored -> false
| _ -> true

(** val is_killed : status -> bool **)

let is_killed = function
| Killed -> true
| _ -> false

(** val is_some : 'a1 option -> bool **)

let is_some = function
| Some _ -> true
| None -> false

type 'f vec = ('f * 'f) * 'f

(** val vzero : 'a1 -> 'a1 vec **)

let vzero fzero =
  ((fzero, fzero), fzero)

type 'f slot_pre = { a_status : status; a_time : 'f; a_pos : 'f vec;
                     a_dir : 'f vec; a_outside : bool; a_vol : z;
                     a_energy : 'f }

type 'f slot_post = { b_status : status; b_track : z; b_event : z;
                      b_parent : z; b_nsteps : z; b_action : z;
                      b_steplen : 'f; b_time : 'f; b_pos : 'f vec;
                      b_dir : 'f vec; b_outside : bool; b_vol : z;
                      b_particle : z; b_energy : 'f; b_edep : 'f }

type psel = { s_time : bool; s_pos : bool; s_dir : bool; s_vol : bool;
              s_energy : bool }

type selection = { s_pre : psel; s_post : psel; s_event : bool;
                   s_parent : bool; s_nsteps : bool; s_action : bool;
                   s_steplen : bool; s_particle : bool; s_edep : bool }

type params = { p_sel : selection; p_detector : z option list;
                p_nonzero : bool }

(** val has_det : params -> bool **)

let has_det p =
  match p.p_detector with
  | [] -> false
  | _ :: _ -> true

(** val det_lookup : params -> z -> z option **)

let det_lookup p vol =
  if Z.ltb vol Z0
  then None
  else (match nth_error p.p_detector (Z.to_nat vol) with
        | Some d -> d
        | None -> None)

type 'f point = { t_time : 'f; t_pos : 'f vec; t_dir : 'f vec; t_vol : 
                  z; t_energy : 'f }

type 'f row = { r_track : z option; r_det : z option; r_event : z;
                r_parent : z; r_nsteps : z; r_action : z; r_steplen : 
                'f; r_particle : z; r_edep : 'f; r_pre : 'f point;
                r_post : 'f point }

(** val point0 : 'a1 -> 'a1 point **)

let point0 fzero =
  { t_time = fzero; t_pos = (vzero fzero); t_dir = (vzero fzero); t_vol =
    (Zneg XH); t_energy = fzero }

(** val row0 : 'a1 -> 'a1 row **)

let row0 fzero =
  { r_track = None; r_det = None; r_event = (Zneg XH); r_parent = (Zneg XH);
    r_nsteps = Z0; r_action = (Zneg XH); r_steplen = fzero; r_particle =
    (Zneg XH); r_edep = fzero; r_pre = (point0 fzero); r_post =
    (point0 fzero) }

(** val set_det : z option -> 'a1 row -> 'a1 row **)

let set_det d r =
  { r_track = r.r_track; r_det = d; r_event = r.r_event; r_parent =
    r.r_parent; r_nsteps = r.r_nsteps; r_action = r.r_action; r_steplen =
    r.r_steplen; r_particle = r.r_particle; r_edep = r.r_edep; r_pre =
    r.r_pre; r_post = r.r_post }

(** val set_track : z option -> 'a1 row -> 'a1 row **)

let set_track t r =
  { r_track = t; r_det = r.r_det; r_event = r.r_event; r_parent = r.r_parent;
    r_nsteps = r.r_nsteps; r_action = r.r_action; r_steplen = r.r_steplen;
    r_particle = r.r_particle; r_edep = r.r_edep; r_pre = r.r_pre; r_post =
    r.r_post }

(** val pick : bool -> 'a1 -> 'a1 -> 'a1 **)

let pick sel new0 old =
  if sel then new0 else old

(** val write_point :
    psel -> 'a1 -> 'a1 vec -> 'a1 vec -> z -> 'a1 -> 'a1 point -> 'a1 point **)

let write_point s time pos dir vol energy old =
  { t_time = (pick s.s_time time old.t_time); t_pos =
    (pick s.s_pos pos old.t_pos); t_dir = (pick s.s_dir dir old.t_dir);
    t_vol = (pick s.s_vol vol old.t_vol); t_energy =
    (pick s.s_energy energy old.t_energy) }

(** val write_pre : selection -> 'a1 slot_pre -> 'a1 row -> 'a1 row **)

let write_pre s a r =
  { r_track = r.r_track; r_det = r.r_det; r_event = r.r_event; r_parent =
    r.r_parent; r_nsteps = r.r_nsteps; r_action = r.r_action; r_steplen =
    r.r_steplen; r_particle = r.r_particle; r_edep = r.r_edep; r_pre =
    (write_point s.s_pre a.a_time a.a_pos a.a_dir
      (if a.a_outside then Zneg XH else a.a_vol) a.a_energy r.r_pre);
    r_post = r.r_post }

(** val write_post : selection -> 'a1 slot_post -> 'a1 row -> 'a1 row **)

let write_post s b r =
  { r_track = r.r_track; r_det = r.r_det; r_event =
    (pick s.s_event b.b_event r.r_event); r_parent =
    (pick s.s_parent b.b_parent r.r_parent); r_nsteps =
    (pick s.s_nsteps b.b_nsteps r.r_nsteps); r_action =
    (pick s.s_action b.b_action r.r_action); r_steplen =
    (pick s.s_steplen b.b_steplen r.r_steplen); r_particle =
    (pick s.s_particle b.b_particle r.r_particle); r_edep =
    (pick s.s_edep b.b_edep r.r_edep); r_pre = r.r_pre; r_post =
    (write_point s.s_post b.b_time b.b_pos b.b_dir
      (if b.b_outside then Zneg XH else b.b_vol) b.b_energy r.r_post) }

(** val gather_pre : params -> 'a1 slot_pre -> 'a1 row -> 'a1 row **)

let gather_pre p a r =
  if is_inactive a.a_status
  then if has_det p then set_det None r else r
  else let r1 = if has_det p then set_det (det_lookup p a.a_vol) r else r in
       if (&&) (has_det p) (negb (is_some r1.r_det))
       then r1
       else write_pre p.p_sel a r1

(** val gather_post :
    ('a1 -> bool) -> params -> 'a1 slot_post -> 'a1 row -> 'a1 row **)

let gather_post is_zero p b r =
  let inactive = is_inactive b.b_status in
  let r1 = set_track (if inactive then None else Some b.b_track) r in
  if inactive
  then r1
  else if (&&) (has_det p) (negb (is_some r1.r_det))
       then r1
       else if (&&) ((&&) (has_det p) p.p_nonzero) (is_zero b.b_edep)
            then set_det None r1
            else write_post p.p_sel b r1

(** val map2 : ('a1 -> 'a2 -> 'a3) -> 'a1 list -> 'a2 list -> 'a3 list **)

let rec map2 f la lb =
  match la with
  | [] -> []
  | a :: la' ->
    (match lb with
     | [] -> []
     | b :: lb' -> (f a b) :: (map2 f la' lb'))

(** val gather_pre_all :
    params -> 'a1 slot_pre list -> 'a1 row list -> 'a1 row list **)

let gather_pre_all p pres rows =
  map2 (gather_pre p) pres rows

(** val gather_post_all :
    ('a1 -> bool) -> params -> 'a1 slot_post list -> 'a1 row list -> 'a1 row
    list **)

let gather_post_all is_zero p posts rows =
  map2 (gather_post is_zero p) posts rows

(** val psel_any : psel -> bool **)

let psel_any s =
  (||) ((||) ((||) ((||) s.s_time s.s_pos) s.s_dir) s.s_vol) s.s_energy

(** val has_pre_action : params -> bool **)

let has_pre_action p =
  (||) (psel_any p.p_sel.s_pre) (has_det p)

(** val collector_step :
    ('a1 -> bool) -> params -> 'a1 slot_pre list -> 'a1 slot_post list -> 'a1
    row list -> 'a1 row list **)

let collector_step is_zero p pres posts rows =
  gather_post_all is_zero p posts
    (if has_pre_action p then gather_pre_all p pres rows else rows)

(** val row_valid : params -> 'a1 row -> bool **)

let row_valid p r =
  (&&) (is_some r.r_track) ((||) (negb (has_det p)) (is_some r.r_det))

(** val indexed_from : nat -> 'a1 list -> (nat * 'a1) list **)

let rec indexed_from n = function
| [] -> []
| x :: l' -> (n, x) :: (indexed_from (S n) l')

(** val indexed : 'a1 list -> (nat * 'a1) list **)

let indexed l =
  indexed_from O l

(** val delivered : params -> 'a1 row list -> (nat * 'a1 row) list **)

let delivered p rows =
  filter (fun ir -> row_valid p (snd ir)) (indexed rows)

(** val keep_det : params -> 'a1 slot_pre -> bool **)

let keep_det p a =
  (||) (negb (has_det p)) (is_some (det_lookup p a.a_vol))

(** val keep_nonzero : ('a1 -> bool) -> params -> 'a1 slot_post -> bool **)

let keep_nonzero is_zero p b =
  negb ((&&) ((&&) (has_det p) p.p_nonzero) (is_zero b.b_edep))

(** val keep :
    ('a1 -> bool) -> params -> ('a1 slot_pre * 'a1 slot_post) -> bool **)

let keep is_zero p ab =
  (&&) (keep_det p (fst ab)) (keep_nonzero is_zero p (snd ab))

(** val step_active : ('a1 slot_pre * 'a1 slot_post) -> bool **)

let step_active ab =
  negb (is_inactive (snd ab).b_status)

(** val ideal : params -> ('a1 slot_pre * 'a1 slot_post) -> 'a1 row **)

let ideal p = function
| (a, b) ->
  { r_track = (Some b.b_track); r_det =
    (if has_det p then det_lookup p a.a_vol else None); r_event = b.b_event;
    r_parent = b.b_parent; r_nsteps = b.b_nsteps; r_action = b.b_action;
    r_steplen = b.b_steplen; r_particle = b.b_particle; r_edep = b.b_edep;
    r_pre = { t_time = a.a_time; t_pos = a.a_pos; t_dir = a.a_dir; t_vol =
    (if a.a_outside then Zneg XH else a.a_vol); t_energy = a.a_energy };
    r_post = { t_time = b.b_time; t_pos = b.b_pos; t_dir = b.b_dir; t_vol =
    (if b.b_outside then Zneg XH else b.b_vol); t_energy = b.b_energy } }

(** val mask_point : 'a1 -> psel -> 'a1 point -> 'a1 point **)

let mask_point fzero s t =
  write_point s t.t_time t.t_pos t.t_dir t.t_vol t.t_energy (point0 fzero)

(** val mask : 'a1 -> params -> 'a1 row -> 'a1 row **)

let mask fzero p r =
  let s = p.p_sel in
  { r_track = r.r_track; r_det = (if has_det p then r.r_det else None);
  r_event = (pick s.s_event r.r_event (Zneg XH)); r_parent =
  (pick s.s_parent r.r_parent (Zneg XH)); r_nsteps =
  (pick s.s_nsteps r.r_nsteps Z0); r_action =
  (pick s.s_action r.r_action (Zneg XH)); r_steplen =
  (pick s.s_steplen r.r_steplen fzero); r_particle =
  (pick s.s_particle r.r_particle (Zneg XH)); r_edep =
  (pick s.s_edep r.r_edep fzero); r_pre = (mask_point fzero s.s_pre r.r_pre);
  r_post = (mask_point fzero s.s_post r.r_post) }

(** val expected :
    'a1 -> ('a1 -> bool) -> params -> 'a1 slot_pre list -> 'a1 slot_post list
    -> (nat * 'a1 row) list **)

let expected fzero is_zero p pres posts =
  map (fun iab -> ((fst iab), (mask fzero p (ideal p (snd iab)))))
    (filter (fun iab ->
      (&&) (step_active (snd iab)) (keep is_zero p (snd iab)))
      (indexed (combine pres posts)))

(** val det_valid : 'a1 row -> bool **)

let det_valid r =
  is_some r.r_det

(** val assign_field :
    bool -> ('a1 row -> 'a2) -> 'a1 row list -> 'a2 list **)

let assign_field in_use f rows =
  if in_use
  then fold_right (fun r acc -> if det_valid r then (f r) :: acc else acc) []
         rows
  else []

type 'f det_point_output = { o_time : 'f list; o_pos : 'f vec list;
                             o_dir : 'f vec list; o_energy : 'f list }

type 'f det_output = { o_detector : z option list; o_track : z option list;
                       o_pre : 'f det_point_output;
                       o_post : 'f det_point_output; o_event : z list;
                       o_parent : z list; o_nsteps : z list;
                       o_steplen : 'f list; o_particle : z list;
                       o_edep : 'f list }

(** val copy_point :
    psel -> ('a1 row -> 'a1 point) -> 'a1 row list -> 'a1 det_point_output **)

let copy_point s f rows =
  { o_time = (assign_field s.s_time (fun r -> (f r).t_time) rows); o_pos =
    (assign_field s.s_pos (fun r -> (f r).t_pos) rows); o_dir =
    (assign_field s.s_dir (fun r -> (f r).t_dir) rows); o_energy =
    (assign_field s.s_energy (fun r -> (f r).t_energy) rows) }

(** val copy_steps : params -> 'a1 row list -> 'a1 det_output **)

let copy_steps p rows =
  let s = p.p_sel in
  { o_detector = (assign_field true (fun r -> r.r_det) rows); o_track =
  (assign_field true (fun r -> r.r_track) rows); o_pre =
  (copy_point s.s_pre (fun r -> r.r_pre) rows); o_post =
  (copy_point s.s_post (fun r -> r.r_post) rows); o_event =
  (assign_field s.s_event (fun r -> r.r_event) rows); o_parent =
  (assign_field s.s_parent (fun r -> r.r_parent) rows); o_nsteps =
  (assign_field s.s_nsteps (fun r -> r.r_nsteps) rows); o_steplen =
  (assign_field s.s_steplen (fun r -> r.r_steplen) rows); o_particle =
  (assign_field s.s_particle (fun r -> r.r_particle) rows); o_edep =
  (assign_field s.s_edep (fun r -> r.r_edep) rows) }

type 'f tally = z -> 'f

(** val tally0 : 'a1 -> 'a1 tally **)

let tally0 fzero _ =
  fzero

(** val tally_add :
    ('a1 -> 'a1 -> 'a1) -> 'a1 tally -> z -> 'a1 -> 'a1 tally **)

let tally_add fadd t d x k =
  if Z.eqb k d then fadd (t k) x else t k

(** val calo_slot :
    ('a1 -> 'a1 -> 'a1) -> 'a1 tally -> 'a1 row -> 'a1 tally **)

let calo_slot fadd t r =
  match r.r_det with
  | Some d -> tally_add fadd t d r.r_edep
  | None -> t

(** val calo_accum :
    ('a1 -> 'a1 -> 'a1) -> 'a1 row list -> 'a1 tally -> 'a1 tally **)

let calo_accum fadd view t =
  fold_left (calo_slot fadd) view t

(** val tally_list : nat -> 'a1 tally -> 'a1 list **)

let tally_list n t =
  map (fun k -> t (Z.of_nat k)) (seq O n)

type counts = z -> z -> z

(** val counts0 : counts **)

let counts0 _ _ =
  Z0

(** val counts_incr : counts -> z -> z -> counts **)

let counts_incr c i j i' j' =
  if (&&) (Z.eqb i' i) (Z.eqb j' j)
  then Z.add (c i' j') (Zpos XH)
  else c i' j'

(** val action_slot : counts -> 'a1 slot_post -> counts **)

let action_slot c b =
  if is_track_valid b.b_status
  then counts_incr c b.b_particle b.b_action
  else c

(** val action_accum : 'a1 slot_post list -> counts -> counts **)

let action_accum posts c =
  fold_left action_slot posts c

(** val action_step : bool -> 'a1 slot_post list -> counts -> counts **)

let action_step skip_single posts c =
  if (&&) skip_single (Nat.eqb (length posts) (S O))
  then c
  else action_accum posts c

(** val stepdiag_bin : z -> 'a1 slot_post -> z **)

let stepdiag_bin num_bins b =
  Z.min b.b_nsteps (Z.sub num_bins (Zpos XH))

(** val stepdiag_slot : z -> counts -> 'a1 slot_post -> counts **)

let stepdiag_slot num_bins c b =
  if (&&) (is_track_valid b.b_status) (is_killed b.b_status)
  then counts_incr c b.b_particle (stepdiag_bin num_bins b)
  else c

(** val stepdiag_accum : z -> 'a1 slot_post list -> counts -> counts **)

let stepdiag_accum num_bins posts c =
  fold_left (stepdiag_slot num_bins) posts c

(** val counts_table : nat -> nat -> counts -> z list list **)

let counts_table np nb c =
  map (fun i -> map (fun j -> c (Z.of_nat i) (Z.of_nat j)) (seq O nb))
    (seq O np)
