
val negb : bool -> bool

type nat =
| O
| S of nat

val fst : ('a1 * 'a2) -> 'a1

val snd : ('a1 * 'a2) -> 'a2

val length : 'a1 list -> nat

val app : 'a1 list -> 'a1 list -> 'a1 list

val add : nat -> nat -> nat

val sub : nat -> nat -> nat

module Nat :
 sig
  val eqb : nat -> nat -> bool

  val leb : nat -> nat -> bool

  val ltb : nat -> nat -> bool

  val min : nat -> nat -> nat
 end

val hd : 'a1 -> 'a1 list -> 'a1

val tl : 'a1 list -> 'a1 list

val nth : nat -> 'a1 list -> 'a1 -> 'a1

val concat : 'a1 list list -> 'a1 list

val map : ('a1 -> 'a2) -> 'a1 list -> 'a2 list

val fold_left : ('a1 -> 'a2 -> 'a1) -> 'a2 list -> 'a1 -> 'a1

val forallb : ('a1 -> bool) -> 'a1 list -> bool

val filter : ('a1 -> bool) -> 'a1 list -> 'a1 list

val combine : 'a1 list -> 'a2 list -> ('a1 * 'a2) list

val firstn : nat -> 'a1 list -> 'a1 list

val seq : nat -> nat -> nat list

val repeat : 'a1 -> nat -> 'a1 list

type status =
| Inactive
| Initializing
| Alive
| Errored
| Killed

val status_eqb : status -> status -> bool

type trk = { tid : nat; tpar : nat option; tev : nat; tpid : nat; tbad : bool }

val dflt_trk : trk

type slot = { sst : status; str : trk; ssecs : nat list; sused : bool }

val dflt_slot : slot

type counters = { c_gen : nat; c_init : nat; c_vac : nat; c_active : 
                  nat; c_sec : nat; c_alive : nat }

type phase =
| Ready
| Inited
| Interacted
| Failed

val phase_eqb : phase -> phase -> bool

type config = { n_slots : nat; capacity : nat; charge_order : bool;
                n_events : nat }

type state = { slots : slot list; stack : trk list;
               parents : nat option list; vac : nat list; cnt : counters;
               next_id : nat list; ph : phase }

type primary = { p_ev : nat; p_pid : nat; p_bad : bool }

type outcome = { o_dies : bool; o_secs : nat list }

val dflt_outcome : outcome

type op =
| InsertPrimaries of primary list
| ExtendFromPrimaries
| InitializeTracks
| PhysicsOutcome of outcome list
| ExtendFromSecondaries
| Reset
| Reseed

type result =
| Ok of state
| Err of state
| Misuse

val upd : nat -> 'a1 -> 'a1 list -> 'a1 list

val is_some : 'a1 option -> bool

val index_before : nat -> nat -> nat

val index_after : nat -> nat -> nat

val index_partitioned : nat -> nat -> bool -> nat -> nat

val make_track_id : nat -> nat list -> nat * nat list

val is_neutral : trk -> bool

val remove_if_alive : nat option list -> nat list

val exclusive_scan : nat -> nat list -> nat list * nat

val stable_partition : ('a1 -> bool) -> 'a1 list -> 'a1 list

val partition_initializers : trk list -> nat -> nat -> nat list

val clear_parents : nat -> nat option list

val process_primary :
  nat -> nat -> (trk list * nat list) -> (nat * primary) -> trk list * nat
  list

val process_primaries :
  nat -> primary list -> trk list -> nat list -> trk list * nat list

val set_ph : phase -> state -> state

val insert_primaries : config -> state -> primary list -> result

val extend_from_primaries : config -> state -> result

val get_idx : bool -> nat list -> nat -> nat -> nat -> nat

val init_thread :
  config -> state -> nat list -> nat -> nat -> (nat * trk) * nat option

val init_write : slot list -> ((nat * trk) * nat option) -> slot list

val initialize_tracks : config -> state -> result

val physics_slot : slot -> outcome -> slot

val physics_slots : slot list -> outcome list -> slot list

val physics_outcome : config -> state -> outcome list -> result

val live_secs : slot -> nat list

val locate_alive : bool -> nat -> slot -> nat option * nat

val locate_all : bool -> nat -> slot list -> (nat option * nat) list

type pstate = { p_arr : trk list; p_par : nat option list; p_nx : nat list }

val mk_secondary : nat -> nat -> nat -> nat -> trk

val make_secondaries :
  nat -> nat -> nat list -> nat list -> trk list * nat list

val push_secondaries :
  bool -> nat -> nat -> nat -> bool -> nat -> trk list -> trk list -> nat
  option list -> trk list * nat option list

val proc_slot :
  bool -> nat -> nat -> nat -> pstate -> ((nat * slot) * nat) -> slot * pstate

val proc_all :
  bool -> nat -> nat -> nat -> pstate -> nat -> slot list -> nat list -> slot
  list * pstate

val extend_from_secondaries : config -> state -> result

val reset : config -> state -> result

val drained : state -> bool

val reseed : config -> state -> result

val step : config -> state -> op -> result

val init_state : config -> state

val res_state : result -> state -> state

val run : config -> state -> op list -> result list

type init_data = { d_parents : nat option list; d_indices : nat list;
                   d_secondary_counts : nat list; d_vacancies : nat list;
                   d_track_counters : nat list; d_initializers : nat }

val resize_init_data : config -> init_data

val data_assigned : init_data -> bool

val construct_state : config -> (state * init_data) option

val enc_opt : nat option -> nat

val status_code : status -> nat

val enc_slot : slot -> nat list

val enc_trk : trk -> nat list

val enc_state : nat -> state -> nat list

val enc_result : result -> nat list

val run_case : nat -> nat -> bool -> nat -> op list -> nat list list

val b2n : bool -> nat

val fresh_case : nat -> nat -> bool -> nat -> nat list
