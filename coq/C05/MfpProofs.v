(** * C05: interaction-MFP bookkeeping (PhysicsTrackView::interaction_mfp through
    PreStepExecutor / calc_physics_step_limit / TrackUpdater / DiscreteSelectExecutor). *)
From Coq Require Import Reals ZArith List Bool Lra Lia.
From Celer Require Import Base.Num Base.NumR Base.Vec3 C01.LedgerModel C01.LedgerProofs
  C05.StepModel C05.StepProofs C05.StepProofs2 C05.StatusCheck C05.StatusCheckProofs.
Import ListNotations.
Local Open Scope R_scope.

Lemma propagate_mfp i (s : simR) : mmfp (propagate_apply i s) = mmfp s.
Proof. unfold propagate_apply. numR. rb; reflexivity. Qed.
Lemma time_update_mfp i (s : simR) : mmfp (time_update i s) = mmfp s.
Proof. unfold time_update. destruct (mstat s); numR; rb; reflexivity. Qed.
Lemma eloss_act_mfp i (s : simR) : mmfp (eloss_act i s) = mmfp s.
Proof. reflexivity. Qed.

Lemma along_step_len i (s : simR) : mstep (along_step i s) = mstep (propagate_apply i s).
Proof. unfold along_step. rewrite track_update_step, eloss_act_step, time_update_step. reflexivity. Qed.

(** TrackUpdater: the remaining number of mean free paths after the along-step *)
Lemma along_step_mfp i (s : simR) :
  let a := along_step i s in
  mmfp a = match mstat a with
           | Alive => if paction_eqb (mpost a) ADiscrete then mmfp s
                      else mmfp s - mstep a * in_xs i
           | _ => mmfp s
           end.
Proof.
  cbn zeta. rewrite along_step_len. unfold along_step.
  set (e := eloss_act i (time_update i (propagate_apply i s))).
  assert (He : mmfp e = mmfp s) by (subst e; rewrite eloss_act_mfp, time_update_mfp, propagate_mfp; reflexivity).
  assert (Hs : mstep e = mstep (propagate_apply i s)) by (subst e; rewrite eloss_act_step, time_update_step; reflexivity).
  rewrite track_update_stat, track_update_post. unfold track_update.
  destruct (mstat e); cbn [mmfp]; rewrite ?He, ?Hs; try reflexivity.
  all: try (destruct (paction_eqb (mpost e) ADiscrete); numR; reflexivity).
Qed.

(** the interaction MFP never becomes negative: with the pre-step limit of
    calc_physics_step_limit (<= mfp/xs) and an along-step that can only shorten it *)
Theorem mfp_stays_nonneg i (s0 : simR) :
  mstat s0 = Alive -> 0 < in_xs i -> 0 <= mmfp s0 ->
  mstep s0 <= mmfp s0 / in_xs i ->
  0 <= mmfp (along_step_act i s0).
Proof.
  intros Hst Hxs Hm Hlim. unfold along_step_act. rewrite Hst.
  pose proof (along_step_mfp i s0) as Hmfp. cbn zeta in Hmfp. rewrite Hmfp.
  destruct (mstat (along_step i s0)); try exact Hm.
  destruct (paction_eqb (mpost (along_step i s0)) ADiscrete); [exact Hm|].
  rewrite along_step_len. pose proof (propagate_step_le i s0) as Hle.
  assert (H1 : mstep (propagate_apply i s0) * in_xs i <= mmfp s0 / in_xs i * in_xs i)
    by (apply Rmult_le_compat_r; lra).
  replace (mmfp s0 / in_xs i * in_xs i) with (mmfp s0) in H1 by (field; lra). lra.
Qed.

(** ... and it stays strictly positive (the CELER_ASSERT(mfp > 0) of TrackUpdater) as soon
    as the step ends strictly before the interaction point *)
Theorem mfp_stays_positive i (s0 : simR) :
  mstat s0 = Alive -> 0 < in_xs i -> 0 < mmfp s0 ->
  mstep (along_step_act i s0) < mmfp s0 / in_xs i ->
  0 < mmfp (along_step_act i s0).
Proof.
  intros Hst Hxs Hm Hlim. unfold along_step_act in *. rewrite Hst in *.
  pose proof (along_step_mfp i s0) as Hmfp. cbn zeta in Hmfp. rewrite Hmfp.
  destruct (mstat (along_step i s0)); try exact Hm.
  destruct (paction_eqb (mpost (along_step i s0)) ADiscrete); [exact Hm|].
  assert (H1 : mstep (along_step i s0) * in_xs i < mmfp s0 / in_xs i * in_xs i)
    by (apply Rmult_lt_compat_r; lra).
  replace (mmfp s0 / in_xs i * in_xs i) with (mmfp s0) in H1 by (field; lra). lra.
Qed.

(** a moving particle reaches discrete-select exactly when the physics (interaction)
    limit won: the pre-step action was the discrete one and nothing shortened the step, so
    the whole remaining MFP was travelled: mfp - step * xs = 0 *)
Theorem discrete_selected_iff_mfp_exhausted mfp xs he es fx np i (s0 : simR) :
  mstat s0 = Alive -> 0 < xs -> in_xs i = xs -> mmfp s0 = mfp ->
  (mstep s0, mpost s0) = calc_physics_step_limit false mfp xs he es fx np ->
  mstep s0 <> 0 ->
  (* the particle is not brought to rest by the continuous loss *)
  mE (along_step i s0) <> 0 ->
  (mpost (along_step_act i s0) = ADiscrete
   <-> (mpost s0 = ADiscrete /\ mstep s0 < in_next i))
  /\ (mpost (along_step_act i s0) = ADiscrete ->
      mmfp s0 - mstep (along_step_act i s0) * in_xs i = 0).
Proof.
  intros Hst Hxs Hix Hm Hlim Hnz HE. unfold along_step_act. rewrite Hst.
  assert (Hpa : mpost (along_step i s0) = spost (eloss_apply
            (match mstat (time_update i (propagate_apply i s0)) with Errored => false | _ => in_applicable i end)
            (in_at_rest i) (in_eloss i) (slot_of (time_update i (propagate_apply i s0))))).
  { unfold along_step. rewrite track_update_post. reflexivity. }
  assert (HEa : mE (along_step i s0) = tE (strk (eloss_apply
            (match mstat (time_update i (propagate_apply i s0)) with Errored => false | _ => in_applicable i end)
            (in_at_rest i) (in_eloss i) (slot_of (time_update i (propagate_apply i s0)))))).
  { unfold along_step, track_update. destruct (mstat (eloss_act _ _)); reflexivity. }
  set (app := match mstat (time_update i (propagate_apply i s0)) with Errored => false | _ => in_applicable i end) in *.
  set (x := slot_of (time_update i (propagate_apply i s0))) in *.
  (* eloss_apply changes the action only when it stops the particle *)
  assert (Hkeep : spost (eloss_apply app (in_at_rest i) (in_eloss i) x) = spost x
                  \/ tE (strk (eloss_apply app (in_at_rest i) (in_eloss i) x)) = 0).
  { unfold eloss_apply. destruct (negb app || is_stopped (strk x)); [now left|].
    destruct (n0 <? in_eloss i)%num; cbn [strk];
      match goal with |- context [is_stopped ?t] => destruct (is_stopped t) eqn:Z end;
      try (now left); right; unfold is_stopped in Z; numR; apply Reqb_true in Z;
      destruct (in_at_rest i); cbn [strk tE]; exact Z. }
  destruct Hkeep as [Hkeep|Hz]; [|rewrite <- HEa in Hz; contradiction].
  rewrite Hpa, Hkeep. subst x. cbn [slot_of spost]. rewrite time_update_post.
  (* propagation: boundary / shortened / untouched *)
  assert (Hprop : (mstep s0 < in_next i -> propagate_apply i s0 =
                     mkSim (mtime s0) (axpy (mstep s0) (mdir s0) (mpos s0)) (mdir s0) (mvol s0) (mstep s0)
                           (mpost s0) (mstat s0) (mnsteps s0) (mE s0) (mm s0) (manti s0) (mdep s0) (msecs s0) (mmfp s0))
                  /\ (in_next i <= mstep s0 -> mpost (propagate_apply i s0) = ABoundary)).
  { unfold propagate_apply. numR. unfold Reqb. destruct (Req_EM_T (mstep s0) 0); [contradiction|].
    split; intros Hc.
    - destruct (Rleb_spec (in_next i) (mstep s0)); [lra|]. cbn [mstep].
      destruct (Rltb_spec (mstep s0) (mstep s0)); [lra|]. reflexivity.
    - destruct (Rleb_spec (in_next i) (mstep s0)); [|lra]. reflexivity. }
  destruct Hprop as [Hfree Hbnd].
  split.
  - split.
    + intros Hd. destruct (Rlt_le_dec (mstep s0) (in_next i)) as [Hlt|Hge].
      * rewrite (Hfree Hlt) in Hd. cbn [mpost] in Hd. auto.
      * rewrite (Hbnd Hge) in Hd. discriminate.
    + intros [Hd Hlt]. rewrite (Hfree Hlt). exact Hd.
  - intros Hd. rewrite along_step_len.
    destruct (Rlt_le_dec (mstep s0) (in_next i)) as [Hlt|Hge]; [|rewrite (Hbnd Hge) in Hd; discriminate].
    rewrite (Hfree Hlt) in *. cbn [mpost mstep] in *.
    (* the discrete action of calc_physics_step_limit comes with step = mfp / xs *)
    unfold calc_physics_step_limit in Hlim. numR.
    rewrite Hix, Hm.
    destruct he.
    + destruct (Rleb_spec es (mfp / xs)); cbn [fst snd] in Hlim;
        match type of Hlim with context [if ?c then _ else _] => destruct c end;
        inversion Hlim as [[H1 H2]]; rewrite H2 in Hd; try discriminate.
      rewrite H1. field. lra.
    + destruct np; inversion Hlim as [[H1 H2]]; rewrite H2 in Hd; try discriminate.
      rewrite H1. field. lra.
Qed.

(** DiscreteSelectExecutor resets the MFP; PreStepExecutor samples a new one exactly then *)
Theorem mfp_reset_and_resampled i i' (s : simR) :
  mpost s = ADiscrete -> mstat s = Alive ->
  mmfp (discrete_select i s) = 0
  /\ mmfp (pre_step i' (discrete_select i s)) = in_newmfp i'
  /\ (0 < mmfp s -> mmfp (pre_step i' s) = mmfp s).
Proof.
  intros Hp Hs. unfold discrete_select. rewrite Hp. cbn [paction_eqb mmfp].
  split; [reflexivity|]. unfold pre_step. cbn [mstat mmfp]. rewrite Hs. cbn [mmfp]. numR.
  split.
  - destruct (Rltb_spec 0 0); [lra|reflexivity].
  - intros Hpos. destruct (Rltb_spec 0 (mmfp s)); [reflexivity|lra].
Qed.

(** non-vacuity: mfp 2, xs 4 -> limit 1/2 with the discrete action, boundary at 5 *)
Example ex_mfp_exhausted :
  let s0 : simR := mkSim 0 (V3 0 0 0) (V3 1 0 0) (Some 0%nat) (2 / 4) ADiscrete Alive 0 1 1 false 0 [] 2 in
  let i : sinputR := mkIn (2 / 4) ADiscrete 1 5 1 false false 0 4 AModel (mkInt IScattered 1 0 [])
                          (V3 0 1 0) false (fun _ => None) (Some 1%nat) in
  (mstep s0, mpost s0) = calc_physics_step_limit false 2 4 false 0 0 false
  /\ mstep s0 < in_next i /\ mstep s0 <= mmfp s0 / in_xs i.
Proof.
  cbn zeta. unfold calc_physics_step_limit. cbn. numR. repeat split; try lra.
Qed.
