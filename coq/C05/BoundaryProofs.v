(** * C05: the failure branches of BoundaryExecutor. *)
From Coq Require Import Reals ZArith List Bool Lra Lia.
From Celer Require Import Base.Num Base.NumR Base.Vec3 C01.LedgerModel C01.LedgerProofs
  C05.StepModel C05.StepProofs C05.Boundary.
Import ListNotations.
Local Open Scope R_scope.

(** without a failure the complete action is the one of the step model *)
Lemma boundary_act_full_ok i (s : simR) : boundary_act_full false false i s = boundary_act i s.
Proof.
  unfold boundary_act_full, boundary_act. destruct (paction_eqb _ _); [|reflexivity].
  destruct (in_nextvol i); reflexivity.
Qed.

(** status only moves forward: alive -> errored | killed *)
Lemma boundary_act_full_stat gf nm i (s : simR) :
  mstat s = Alive -> (rank (mstat s) <= rank (mstat (boundary_act_full gf nm i s)))%nat.
Proof.
  intros Hs. unfold boundary_act_full. destruct (paction_eqb _ _); [|lia].
  destruct gf; [|destruct (in_nextvol i); [destruct nm|]];
    unfold apply_errored, with_vol, with_stat; cbn [mstat]; rewrite ?Hs; cbn; lia.
Qed.

(** a track that fails at a boundary is handed to the tracking cut within the SAME
    iteration: it ends killed, with zero energy, everything (E + 2mc^2 of an antiparticle)
    deposited locally, its position, time and step length untouched *)
Theorem boundary_failure_is_cut gf nm i (s : simR) :
  mpost s = ABoundary -> mstat s = Alive ->
  (gf = true \/ (nm = true /\ in_nextvol i <> None)) ->
  let s' := tracking_cut_act (boundary_act_full gf nm i s) in
  mstat s' = Killed /\ mE s' = 0
  /\ mdep s' - mdep s = weight (mkTrack (mE s) (mm s) (manti s))
  /\ mstep s' = mstep s /\ mtime s' = mtime s /\ mpos s' = mpos s.
Proof.
  intros Hp Hs Hf. cbn zeta. unfold boundary_act_full. rewrite Hp. cbn [paction_eqb].
  assert (Hgen : forall x : simR, mE x = mE s -> mm x = mm s -> manti x = manti s -> mdep x = mdep s ->
                 mstep x = mstep s -> mtime x = mtime s -> mpos x = mpos s ->
                 let s' := tracking_cut_act (apply_errored x) in
                 mstat s' = Killed /\ mE s' = 0 /\ mdep s' - mdep s = weight (mkTrack (mE s) (mm s) (manti s))
                 /\ mstep s' = mstep s /\ mtime s' = mtime s /\ mpos s' = mpos s).
  { intros x E1 E2 E3 E4 E5 E6 E7. cbn zeta. unfold tracking_cut_act, apply_errored. cbn [mpost paction_eqb].
    unfold with_slot, tracking_cut_apply, slot_of, weight.
    cbn [strk sdep sstat spost ssecs tE tm tanti set_E mstat mE mdep mstep mtime mpos mm manti].
    rewrite E1, E2, E3, E4, E5, E6, E7. destruct (manti s); numR; repeat split; lra. }
  destruct Hf as [-> | [-> Hv]].
  - apply Hgen; reflexivity.
  - destruct gf; [apply Hgen; reflexivity|].
    destruct (in_nextvol i) as [v|]; [|contradiction]. apply Hgen; reflexivity.
Qed.

(** the errored track never stays alive and is not crossed into the next step *)
Corollary boundary_failure_not_alive gf nm i (s : simR) :
  mpost s = ABoundary -> mstat s = Alive ->
  (gf = true \/ (nm = true /\ in_nextvol i <> None)) ->
  mstat (boundary_act_full gf nm i s) = Errored /\ mpost (boundary_act_full gf nm i s) = ATrackingCut.
Proof.
  intros Hp Hs Hf. unfold boundary_act_full. rewrite Hp. cbn [paction_eqb].
  destruct Hf as [-> | [-> Hv]]; [split; reflexivity|].
  destruct gf; [split; reflexivity|]. destruct (in_nextvol i); [split; reflexivity|contradiction].
Qed.

Example ex_boundary_failure :
  let s : simR := mkSim 0 (V3 0 0 0) (V3 1 0 0) (Some 0%nat) 1 ABoundary Alive 0 3 1 true 0 [] 1 in
  let i : sinputR := mkIn 1 ADiscrete 1 1 1 false false 0 1 AModel (mkInt IScattered 1 0 [])
                          (V3 0 1 0) false (fun _ => None) (Some 1%nat) in
  mdep (tracking_cut_act (boundary_act_full true false i s)) = 0 + (3 + 2 * 1).
Proof.
  cbn zeta. unfold boundary_act_full, tracking_cut_act, apply_errored, with_slot, tracking_cut_apply, slot_of.
  cbn. numR. reflexivity.
Qed.
