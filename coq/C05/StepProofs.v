(** * C05: proofs over the real-number instance of the step model. *)
From Coq Require Import Reals ZArith List Bool Lra Lia.
From Celer Require Import Base.Num Base.NumR Base.Vec3 C01.LedgerModel C01.LedgerProofs C05.StepModel.
Import ListNotations.
Local Open Scope R_scope.

Notation simR := (sim R).
Notation sinputR := (sinput R).

Ltac rb :=
  repeat match goal with
  | |- context [Rltb ?a ?b] => destruct (Rltb_spec a b)
  | |- context [Rleb ?a ?b] => destruct (Rleb_spec a b)
  | |- context [Reqb ?a ?b] => unfold Reqb; destruct (Req_EM_T a b)
  end.

(** ** SimTrackView::step_limit *)

Theorem step_limit_only_lowers st a (s : simR) :
  let '(s', lim) := step_limit st a s in
  mstep s' <= mstep s
  /\ (lim = true -> st < mstep s /\ mstep s' = st /\ mpost s' = a)
  /\ (lim = false -> mstep s <= st /\ s' = s).
Proof.
  unfold step_limit. numR. destruct (Rltb_spec st (mstep s)); cbn.
  - repeat split; try lra; intros; try discriminate; auto.
  - repeat split; try lra; intros; try discriminate; auto.
Qed.

(** ** Frame facts of the single actions *)

Lemma eloss_apply_stat a r d (x : slot R) :
  sstat (eloss_apply a r d x) = sstat x \/ sstat (eloss_apply a r d x) = Killed.
Proof.
  unfold eloss_apply. destruct (negb a || is_stopped (strk x)); [now left|].
  destruct (n0 <? d)%num; cbn [strk];
    match goal with |- context [is_stopped ?t] => destruct (is_stopped t) end;
    try destruct r; cbn; auto.
Qed.

Lemma interaction_apply_stat ap c i (x : slot R) :
  sstat (fst (interaction_apply ap c i x)) = sstat x
  \/ sstat (fst (interaction_apply ap c i x)) = Killed.
Proof.
  unfold interaction_apply. destruct (iact i); cbn; auto;
    destruct ap; try destruct (cut_secondaries c (idep i) (isecs i)); cbn; auto.
Qed.

Lemma rank_killed_max x : (rank x <= rank Killed)%nat.
Proof. destruct x; cbn; lia. Qed.

(** ** limit_only_shrinks *)

Lemma propagate_step_le i (s : simR) : mstep (propagate_apply i s) <= mstep s.
Proof.
  unfold propagate_apply. numR. rb; cbn; try lra.
Qed.

Lemma time_update_step i (s : simR) : mstep (time_update i s) = mstep s.
Proof. unfold time_update. destruct (mstat s); numR; rb; reflexivity. Qed.

Lemma eloss_act_step i (s : simR) : mstep (eloss_act i s) = mstep s.
Proof. reflexivity. Qed.

Lemma track_update_step i (s : simR) : mstep (track_update i s) = mstep s.
Proof. unfold track_update. destruct (mstat s); reflexivity. Qed.

Lemma discrete_select_step i (s : simR) : mstep (discrete_select i s) = mstep s.
Proof. unfold discrete_select. destruct (paction_eqb _ _); reflexivity. Qed.

Lemma interact_act_step_le fx i (s : simR) : mstep (interact_act fx i s) <= mstep s.
Proof.
  unfold interact_act. destruct (paction_eqb _ _); [|lra].
  destruct (interaction_apply _ _ _ _) as [x f]. destruct f.
  - destruct fx; [cbn; lra|].
    pose proof (step_limit_only_lowers n0 AFailure s) as Hl.
    destruct (step_limit n0 AFailure s) as [s' l]. cbn. tauto.
  - destruct (iact (in_inter i)); cbn; lra.
Qed.

Lemma boundary_act_step i (s : simR) : mstep (boundary_act i s) = mstep s.
Proof. unfold boundary_act. destruct (paction_eqb _ _); [destruct (in_nextvol i)|]; reflexivity. Qed.

Lemma tracking_cut_act_step (s : simR) : mstep (tracking_cut_act s) = mstep s.
Proof. unfold tracking_cut_act. destruct (paction_eqb _ _); reflexivity. Qed.

Lemma pre_step_limit i (s : simR) :
  mstat s <> Errored -> mstep (pre_step i s) = in_phys_step i /\ mstat (pre_step i s) = Alive.
Proof. intros Hs. unfold pre_step. destruct (mstat s); try congruence; cbn; auto. Qed.

(** every state between pre-step and the end of the iteration has a step
    length <= the physics limit chosen in pre-step *)
Theorem limit_only_shrinks fx i (s : simR) :
  mstat s <> Errored ->
  Forall (fun x => mstep x <= in_phys_step i) (tl (step_trace fx i s)).
Proof.
  intros Hs. destruct (pre_step_limit i s Hs) as [H0 Ha].
  unfold step_trace. cbn [tl]. rewrite Ha.
  set (s0 := pre_step i s) in *.
  set (a1 := propagate_apply i s0). set (a2 := time_update i a1).
  set (a3 := eloss_act i a2). set (a4 := track_update i a3).
  set (p1 := discrete_select i a4). set (p2 := interact_act fx i p1).
  set (p3 := boundary_act i p2). set (p4 := tracking_cut_act p3).
  assert (E1 : mstep a1 <= in_phys_step i) by (subst a1; rewrite <- H0; apply propagate_step_le).
  assert (E2 : mstep a2 = mstep a1) by apply time_update_step.
  assert (E3 : mstep a3 = mstep a2) by apply eloss_act_step.
  assert (E4 : mstep a4 = mstep a3) by apply track_update_step.
  assert (E5 : mstep p1 = mstep a4) by apply discrete_select_step.
  assert (E6 : mstep p2 <= mstep p1) by apply interact_act_step_le.
  assert (E7 : mstep p3 = mstep p2) by apply boundary_act_step.
  assert (E8 : mstep p4 = mstep p3) by apply tracking_cut_act_step.
  repeat (apply Forall_cons; [lra|]). apply Forall_nil.
Qed.

(** ** status_monotone *)

Fixpoint mono_chain (l : list simR) : Prop :=
  match l with
  | a :: ((b :: _) as r) => (rank (mstat a) <= rank (mstat b))%nat /\ mono_chain r
  | _ => True
  end.

Lemma time_update_stat i (s : simR) : mstat (time_update i s) = mstat s.
Proof. unfold time_update. destruct (mstat s) eqn:E; numR; rb; cbn; auto. Qed.

Lemma propagate_stat i (s : simR) : mstat (propagate_apply i s) = mstat s.
Proof. unfold propagate_apply. numR. rb; cbn; auto. Qed.

Lemma track_update_stat i (s : simR) : mstat (track_update i s) = mstat s.
Proof. unfold track_update. destruct (mstat s) eqn:E; cbn; auto. Qed.

Lemma eloss_act_stat i (s : simR) :
  mstat (eloss_act i s) = mstat s \/ mstat (eloss_act i s) = Killed.
Proof. unfold eloss_act, with_slot. cbn [mstat]. apply (eloss_apply_stat _ _ _ (slot_of s)). Qed.

Lemma discrete_select_stat i (s : simR) : mstat (discrete_select i s) = mstat s.
Proof. unfold discrete_select. destruct (paction_eqb _ _); reflexivity. Qed.

Lemma interact_act_stat fx i (s : simR) :
  mstat (interact_act fx i s) = mstat s \/ mstat (interact_act fx i s) = Killed.
Proof.
  unfold interact_act. destruct (paction_eqb _ _); [|now left].
  pose proof (interaction_apply_stat (in_apply_post i) (in_cut i) (in_inter i) (slot_of s)) as Hs.
  destruct (interaction_apply _ _ _ _) as [x f]. cbn [fst] in Hs. destruct f.
  - destruct fx; [cbn; auto|]. unfold step_limit. destruct (_ <? _)%num; cbn; auto.
  - destruct (iact (in_inter i)); cbn [mstat with_slot]; exact Hs.
Qed.

Lemma boundary_act_stat i (s : simR) :
  mstat (boundary_act i s) = mstat s \/ mstat (boundary_act i s) = Killed.
Proof. unfold boundary_act. destruct (paction_eqb _ _); [destruct (in_nextvol i)|]; cbn; auto. Qed.

Lemma tracking_cut_act_stat (s : simR) :
  mstat (tracking_cut_act s) = mstat s \/ mstat (tracking_cut_act s) = Killed.
Proof. unfold tracking_cut_act. destruct (paction_eqb _ _); cbn; auto. Qed.

Lemma rank_step (a b : status) : a = b \/ a = Killed -> forall c, c = b -> (rank c <= rank a)%nat.
Proof.
  intros Hab c Hc. subst c. destruct Hab as [Hab|Hab]; subst a.
  - apply Nat.le_refl.
  - apply rank_killed_max.
Qed.

(** within one iteration the status of an active slot only moves forward:
    initializing -> alive -> (errored ->) killed *)
Theorem status_monotone fx i (s : simR) :
  (mstat s = Initializing \/ mstat s = Alive \/ mstat s = Errored) ->
  mono_chain (step_trace fx i s).
Proof.
  intros Hr. unfold step_trace.
  set (s0 := pre_step i s).
  assert (H0 : (rank (mstat s) <= rank (mstat s0))%nat).
  { subst s0. unfold pre_step. destruct Hr as [Hr|[Hr|Hr]]; rewrite Hr; cbn; lia. }
  destruct (mstat s0) eqn:E0.
  all: cbn [mono_chain].
  all: repeat match goal with |- _ /\ _ => split end; try exact I; try lia.
  all: try (rewrite ?E0; cbn; lia).
  all: try (rewrite ?E0 in *; exact H0).
  all: try match goal with
    | |- (rank (mstat ?a) <= rank (mstat (discrete_select _ ?a)))%nat => rewrite discrete_select_stat; lia
    | |- (rank (mstat ?a) <= rank (mstat (interact_act _ _ ?a)))%nat =>
        eapply rank_step; [apply interact_act_stat | reflexivity]
    | |- (rank (mstat ?a) <= rank (mstat (boundary_act _ ?a)))%nat =>
        eapply rank_step; [apply boundary_act_stat | reflexivity]
    | |- (rank (mstat ?a) <= rank (mstat (tracking_cut_act ?a)))%nat =>
        eapply rank_step; [apply tracking_cut_act_stat | reflexivity]
    | |- (rank (mstat ?a) <= rank (mstat (propagate_apply _ ?a)))%nat => rewrite propagate_stat; lia
    | |- (rank (mstat ?a) <= rank (mstat (time_update _ ?a)))%nat => rewrite time_update_stat; lia
    | |- (rank (mstat ?a) <= rank (mstat (track_update _ ?a)))%nat => rewrite track_update_stat; lia
    | |- (rank (mstat ?a) <= rank (mstat (eloss_act _ ?a)))%nat =>
        eapply rank_step; [apply eloss_act_stat | reflexivity]
    end.
Qed.

