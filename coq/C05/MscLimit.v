(** * C05: the Urban MSC true-path step limiters (executable, no proofs).

    [msc_true_path_limit] = [UrbanMscSafetyStepLimit::operator()] =
    [UrbanMscMinimalStepLimit::operator()] (em/msc/detail/: the two bodies are identical),
    branch for branch IN THE ORDER of the early returns, the sampled branch drawing from a
    fresh [NormalDistribution] (C15 model) out of the random stream.
    [safety_limit] / [safety_plus_max_step] / [minimal_limit] = the parts of the two
    constructors that compute [limit_] and [max_step_] from the cached [MscRange]. *)
From Coq Require Import ZArith List Bool.
From Celer Require Import Base.Num Base.Stream C15.Samplers.
Import ListNotations.
Local Open Scope num_scope.

Section MscLimit.
  Context {T : Type} `{Num T}.
  Notation M := (M T).

  (** operator()(rng): [max_step] = physics step limit of pre-step (max_step_),
      [limit] = limit_, [limit_min] = limit_min_ *)
  Definition msc_true_path_limit (max_step limit limit_min : T) : M T :=
    if max_step <=? limit then ret max_step                  (* physics step is limiting *)
    else if limit =? limit_min then ret limit_min            (* at the minimum: no sampling *)
    else
      '(x, _) <- normal_step limit (nQ 1 10 * (limit - limit_min)) None ;;
      ret (nclamp x limit_min max_step).

  (** UrbanMscSafetyStepLimit constructor: limit_ from range, safety and the cached
      (range_factor, range_init, limit_min) of the volume *)
  Definition safety_limit (range safety range_factor range_init safety_factor limit_min : T) : T :=
    let l := if safety <? range then nmax (range_factor * range_init) (safety_factor * safety)
             else range in
    nmax l limit_min.

  (** ... and max_step_ for the "safety plus" algorithm ([rho] = min_range, [alpha] =
      max_step_over_range) *)
  Definition safety_plus_max_step (use_safety_plus : bool) (phys_step range rho alpha : T) : T :=
    if use_safety_plus && (rho <? range) then
      nmin phys_step (alpha * range + rho * (n1 - alpha) * (n2 - rho / range))
    else phys_step.

  (** UrbanMscMinimalStepLimit constructor: the new range_init when on a boundary *)
  Definition minimal_limit (on_boundary : bool) (range_init range_factor range mfp limit_min : T) : T :=
    if on_boundary then nmax (range_factor * nmax range mfp) limit_min else range_init.
End MscLimit.
