(** * C05: one track through one iteration of the stepping loop (executable, no proofs).

    Extends the C01 slot with {time; pos; dir; vol; step_len; post action; status;
    nsteps; mfp} and mirrors, in the order of ActionSequence:

    - [pre_step]            phys/detail/PreStepExecutor.hh (+ calc_physics_step_limit result)
    - [step_limit]          track/SimTrackView.hh  (step_limit / reset_step_limit)
    - [propagate_apply]     global/alongstep/detail/PropagationApplier.hh + field/LinearPropagator.hh
    - [time_update]         global/alongstep/detail/TimeUpdater.hh
    - [eloss_act]           global/alongstep/detail/ElossApplier.hh   (C01 model)
    - [track_update]        global/alongstep/detail/TrackUpdater.hh
    - [discrete_select]     phys/detail/DiscreteSelectExecutor.hh
    - [interact_act]        phys/InteractionApplier.hh                (C01 model + failure branch)
    - [boundary_act]        geo/detail/BoundaryExecutor.hh
    - [tracking_cut_act]    phys/detail/TrackingCutExecutor.hh        (C01 model)

    MSC appliers are the identity here (no MSC data in this build: NoMsc). *)
From Coq Require Import ZArith List Bool.
From Celer Require Import Base.Num Base.Vec3 C01.LedgerModel.
Import ListNotations.
Local Open Scope num_scope.

Section Step.
  Context {T : Type} `{Num T}.

  Record sim := mkSim {
    mtime : T;
    mpos : vec3 T;
    mdir : vec3 T;
    mvol : option nat;          (* None: outside the world *)
    mstep : T;                  (* sim.step_length *)
    mpost : paction;            (* sim.post_step_action class *)
    mstat : status;
    mnsteps : nat;
    mE : T; mm : T; manti : bool;
    mdep : T;
    msecs : list (sec T);
    mmfp : T                    (* interaction_mfp; 0 = "not sampled" *)
  }.

  (** what the gather actions record at user_pre / user_post *)
  Record snapshot := mkSnap { ptime : T; ppos : vec3 T; pvol : option nat; pE : T }.
  Definition snap (s : sim) : snapshot := mkSnap (mtime s) (mpos s) (mvol s) (mE s).

  Definition with_step (s : sim) (st : T) (a : paction) : sim :=
    mkSim (mtime s) (mpos s) (mdir s) (mvol s) st a (mstat s) (mnsteps s)
          (mE s) (mm s) (manti s) (mdep s) (msecs s) (mmfp s).
  Definition with_stat (s : sim) (x : status) : sim :=
    mkSim (mtime s) (mpos s) (mdir s) (mvol s) (mstep s) (mpost s) x (mnsteps s)
          (mE s) (mm s) (manti s) (mdep s) (msecs s) (mmfp s).

  (** SimTrackView::reset_step_limit(sl) *)
  Definition reset_step_limit (st : T) (a : paction) (s : sim) : sim := with_step s st a.

  (** SimTrackView::step_limit(sl): strictly smaller limits only *)
  Definition step_limit (st : T) (a : paction) (s : sim) : sim * bool :=
    if st <? mstep s then (with_step s st a, true) else (s, false).

  (** view of the C01 slot inside the sim state and back *)
  Definition slot_of (s : sim) : slot T :=
    mkSlot (mkTrack (mE s) (mm s) (manti s)) (mdep s) (mstat s) (mpost s) (msecs s).
  Definition with_slot (s : sim) (x : slot T) : sim :=
    mkSim (mtime s) (mpos s) (mdir s) (mvol s) (mstep s) (spost x) (sstat x) (mnsteps s)
          (tE (strk x)) (tm (strk x)) (tanti (strk x)) (sdep x) (ssecs x) (mmfp s).

  (** external inputs of one iteration (everything the tables, the RNG and the
      geometry decide) *)
  Record sinput := mkIn {
    in_phys_step : T; in_phys_action : paction;   (* calc_physics_step_limit *)
    in_newmfp : T;                                (* sampled when none is stored *)
    in_next : T;                                  (* distance to the next boundary *)
    in_speed : T;
    in_applicable : bool; in_at_rest : bool; in_eloss : T;  (* eloss.calc_eloss(...) *)
    in_xs : T;                                    (* macro_xs *)
    in_select : paction;                          (* select_discrete_interaction *)
    in_inter : interaction T; in_newdir : vec3 T;
    in_apply_post : bool; in_cut : nat -> option T;
    in_nextvol : option nat                       (* cross_boundary *)
  }.

  (** PreStepExecutor for an active slot *)
  Definition pre_step (i : sinput) (s : sim) : sim :=
    let s0 := mkSim (mtime s) (mpos s) (mdir s) (mvol s) (mstep s) (mpost s) (mstat s)
                    (mnsteps s) (mE s) (mm s) (manti s) n0 [] (mmfp s) in
    match mstat s with
    | Errored => s0
    | _ =>
      let mfp := if n0 <? mmfp s0 then mmfp s0 else in_newmfp i in
      mkSim (mtime s0) (mpos s0) (mdir s0) (mvol s0) (in_phys_step i) (in_phys_action i)
            Alive (mnsteps s0) (mE s0) (mm s0) (manti s0) n0 [] mfp
    end.

  (** LinearPropagator::operator()(dist) + PropagationApplier *)
  Definition propagate_apply (i : sinput) (s : sim) : sim :=
    if mstep s =? n0 then s
    else
      let boundary := in_next i <=? mstep s in
      let dist := if boundary then in_next i else mstep s in
      let s1 := mkSim (mtime s) (axpy dist (mdir s) (mpos s)) (mdir s) (mvol s) (mstep s)
                      (mpost s) (mstat s) (mnsteps s) (mE s) (mm s) (manti s) (mdep s)
                      (msecs s) (mmfp s) in
      if boundary then with_step s1 dist ABoundary
      else if dist <? mstep s1 then with_step s1 dist AOther
      else s1.

  (** TimeUpdater *)
  Definition time_update (i : sinput) (s : sim) : sim :=
    match mstat s with
    | Errored => s
    | _ =>
      if n0 <? in_speed i then
        mkSim (mtime s + mstep s / in_speed i) (mpos s) (mdir s) (mvol s) (mstep s) (mpost s)
              (mstat s) (mnsteps s) (mE s) (mm s) (manti s) (mdep s) (msecs s) (mmfp s)
      else s
    end.

  (** ElossApplier (is_applicable is false for an errored track) *)
  Definition eloss_act (i : sinput) (s : sim) : sim :=
    let app := match mstat s with Errored => false | _ => in_applicable i end in
    with_slot s (eloss_apply app (in_at_rest i) (in_eloss i) (slot_of s)).

  (** TrackUpdater *)
  Definition track_update (i : sinput) (s : sim) : sim :=
    match mstat s with
    | Errored => s
    | st =>
      let mfp :=
        match st with
        | Alive => if paction_eqb (mpost s) ADiscrete then mmfp s
                   else mmfp s - mstep s * in_xs i
        | _ => mmfp s
        end in
      mkSim (mtime s) (mpos s) (mdir s) (mvol s) (mstep s) (mpost s) (mstat s)
            (S (mnsteps s)) (mE s) (mm s) (manti s) (mdep s) (msecs s) mfp
    end.

  (** AlongStep::operator() with NoMsc *)
  Definition along_step (i : sinput) (s : sim) : sim :=
    track_update i (eloss_act i (time_update i (propagate_apply i s))).

  (** the along-step kernel only runs for valid (non-inactive, non-errored) tracks *)
  Definition along_step_act (i : sinput) (s : sim) : sim :=
    match mstat s with Alive => along_step i s | _ => s end.

  (** DiscreteSelectExecutor *)
  Definition discrete_select (i : sinput) (s : sim) : sim :=
    if paction_eqb (mpost s) ADiscrete then
      mkSim (mtime s) (mpos s) (mdir s) (mvol s) (mstep s) (in_select i) (mstat s)
            (mnsteps s) (mE s) (mm s) (manti s) (mdep s) (msecs s) n0
    else s.

  (** InteractionApplier launched for tracks whose action is the model's.
      [fixed] selects the allocation-failure branch:
      - [false]: [sim.step_limit({0, failure})]  (the code in which finding F5 was made)
      - [true] : [sim.post_step_action(failure)] (the repair: step length untouched) *)
  Definition interact_act (fixed : bool) (i : sinput) (s : sim) : sim :=
    if paction_eqb (mpost s) AModel then
      let '(x, failed) := interaction_apply (in_apply_post i) (in_cut i) (in_inter i) (slot_of s) in
      if failed then
        (if fixed then with_step s (mstep s) AFailure else fst (step_limit n0 AFailure s))
      else
        let s1 := with_slot s x in
        match iact (in_inter i) with
        | IScattered =>
          mkSim (mtime s1) (mpos s1) (in_newdir i) (mvol s1) (mstep s1) (mpost s1) (mstat s1)
                (mnsteps s1) (mE s1) (mm s1) (manti s1) (mdep s1) (msecs s1) (mmfp s1)
        | _ => s1
        end
    else s.

  (** BoundaryExecutor (geometry failure branch not modelled) *)
  Definition boundary_act (i : sinput) (s : sim) : sim :=
    if paction_eqb (mpost s) ABoundary then
      match in_nextvol i with
      | Some v =>
        mkSim (mtime s) (mpos s) (mdir s) (Some v) (mstep s) (mpost s) (mstat s)
              (mnsteps s) (mE s) (mm s) (manti s) (mdep s) (msecs s) (mmfp s)
      | None =>
        mkSim (mtime s) (mpos s) (mdir s) None (mstep s) (mpost s) Killed
              (mnsteps s) (mE s) (mm s) (manti s) (mdep s) (msecs s) (mmfp s)
      end
    else s.

  Definition tracking_cut_act (s : sim) : sim :=
    if paction_eqb (mpost s) ATrackingCut then with_slot s (tracking_cut_apply (slot_of s)) else s.

  (** actions between the user_pre and user_post gather points, in ActionSequence order *)
  Definition post_actions (fixed : bool) (i : sinput) (s : sim) : sim :=
    tracking_cut_act (boundary_act i (interact_act fixed i (discrete_select i s))).

  Definition step_body (fixed : bool) (i : sinput) (s : sim) : sim :=
    post_actions fixed i (along_step_act i s).

  (** one iteration: returns the (pre, post) record and the new state *)
  Definition one_step (fixed : bool) (i : sinput) (s : sim) : snapshot * sim * sim :=
    let s0 := pre_step i s in
    let s1 := step_body fixed i s0 in
    (snap s0, s0, s1).

  (** the list of intermediate states of one iteration (for status monotonicity) *)
  Definition step_trace (fixed : bool) (i : sinput) (s : sim) : list sim :=
    let s0 := pre_step i s in
    let a1 := match mstat s0 with Alive => propagate_apply i s0 | _ => s0 end in
    let a2 := match mstat s0 with Alive => time_update i a1 | _ => s0 end in
    let a3 := match mstat s0 with Alive => eloss_act i a2 | _ => s0 end in
    let a4 := match mstat s0 with Alive => track_update i a3 | _ => s0 end in
    let p1 := discrete_select i a4 in
    let p2 := interact_act fixed i p1 in
    let p3 := boundary_act i p2 in
    let p4 := tracking_cut_act p3 in
    [s; s0; a1; a2; a3; a4; p1; p2; p3; p4].

  Definition rank (x : status) : nat :=
    match x with Inactive => 0 | Initializing => 1 | Alive => 2 | Errored => 3 | Killed => 4 end.

  (** a track's history: the same slot through consecutive iterations while it
      stays alive (ProcessSecondaries leaves the sim/particle/geo state of an
      alive track untouched) *)
  Fixpoint run_steps (fixed : bool) (ins : list sinput) (s : sim)
    : list (snapshot * snapshot * sim) :=
    match ins with
    | [] => []
    | i :: r =>
      let '(pre, s0, s1) := one_step fixed i s in
      (pre, snap s1, s1) ::
        match mstat s1 with Alive => run_steps fixed r s1 | _ => [] end
    end.

  (** ** calc_physics_step_limit (phys/PhysicsStepUtils.hh) given the table look-ups:
      [mfp] remaining interaction MFP, [xs] total macroscopic cross section,
      [eloss_step] = range_to_step(range) if the particle has an energy-loss process,
      [fixed] = fixed_step_limiter, [no_processes] = num_particle_processes == 0 *)
  Definition calc_physics_step_limit (stopped : bool) (mfp xs : T) (has_eloss : bool)
             (eloss_step fixed : T) (no_processes : bool) : T * paction :=
    if stopped then (n0, ADiscrete)
    else
      let l0 := mfp / xs in
      if has_eloss then
        let '(l1, a1) := if eloss_step <=? l0 then (eloss_step, ARange) else (l0, ADiscrete) in
        if (n0 <? fixed) && (fixed <? l1) then (fixed, AOther) else (l1, a1)
      else if no_processes then (l0, ANone)
      else (l0, ADiscrete).

  (** ** Appliers with scripted helpers (unit correspondence of the header templates) *)

  (** PropagationApplier given the propagator's answer (distance, boundary), non-looping *)
  Definition propagation_result_apply (dist : T) (boundary : bool) (s : sim) : sim :=
    if mstep s =? n0 then s
    else if boundary then with_step s dist ABoundary
    else if dist <? mstep s then with_step s dist AOther
    else s.

  (** PhysicsStepView::msc_step: persists in the slot from one step to the next *)
  Record mscstep := mkMsc { ms_true : T; ms_geom : T }.

  (** MscStepLimitApplier with a helper whose limit_step stores (true, geom) and sets the
      step to the geometrical path *)
  Definition msc_limit_act (applicable : bool) (t g : T) (s : sim) (m : mscstep) : sim * mscstep :=
    if applicable then (with_step s g (mpost s), mkMsc t g)
    else (s, mkMsc (ms_true m) n0).

  (** MscApplier with a helper whose apply_step restores the stored true path;
      the flag tells whether apply_step was called *)
  Definition msc_apply_act (s : sim) (m : mscstep) : sim * bool :=
    match mstat s with
    | Alive => if n0 <? ms_geom m then (with_step s (ms_true m) (mpost s), true) else (s, false)
    | _ => (s, false)
    end.

End Step.

Arguments sim T : clear implicits.
Arguments sinput T : clear implicits.
Arguments snapshot T : clear implicits.
Arguments mscstep T : clear implicits.
