(** * C05: entry points for the unit correspondence check (float instance). *)
From Coq Require Import ZArith List Floats Bool.
From Celer Require Import Base.Num Base.NumF Base.Vec3 C01.LedgerModel C01.Run C05.StepModel C05.StatusCheck C05.Boundary Base.Stream C05.MscLimit.
Import ListNotations.

Definition blank (st : status) (step : float) (post : paction) (E : float) (mfp time : float) : sim float :=
  mkSim time (V3 0 0 0)%float (V3 0 0 1)%float (Some 0%nat) step post st 0 E 0%float false
        0%float [] mfp.

Definition status_of (c : Z) : status :=
  match c with 0 => Inactive | 1 => Initializing | 2 => Alive | 3 => Errored | _ => Killed end%Z.

(** reset_step_limit then a sequence of step_limit calls: (is_limiting, step, action) after each *)
Fixpoint steplimit_seq (s : sim float) (l : list (float * Z)) : list (bool * float * Z) :=
  match l with
  | [] => []
  | (st, a) :: r =>
    let '(s', lim) := step_limit st (paction_of a) s in
    (lim, mstep s', paction_code (mpost s')) :: steplimit_seq s' r
  end.

Definition run_steplimit (s0 : float) (c0 : Z) (l : list (float * Z)) :=
  steplimit_seq (reset_step_limit s0 (paction_of c0) (blank Alive 0%float AOther 0%float 0%float 0%float)) l.

Definition upd_input (speed xs : float) : sinput float :=
  mkIn 0%float AOther 0%float 0%float speed false false 0%float xs AOther
       (mkInt IUnchanged 0%float 0%float []) (V3 0 0 1)%float false (fun _ => None) None.

(** TimeUpdater then TrackUpdater: (time, mfp, steps added) *)
Definition run_update (st : Z) (speed step time0 : float) (post : Z) (mfp xs E : float) :=
  let s := blank (status_of st) step (paction_of post) E mfp time0 in
  let i := upd_input speed xs in
  let s1 := track_update i (time_update i s) in
  (mtime s1, mmfp s1, Z.of_nat (mnsteps s1)).

(** allocation-failure branch of InteractionApplier on a slot whose step length is [step0]:
    (step length, post action) afterwards, for either variant of the branch *)
Definition run_ifail (fixed : bool) (step0 : float) :=
  let s := blank Alive step0 AModel 1%float 1%float 0%float in
  let i := mkIn 0%float AOther 0%float 0%float 1%float false false 0%float 0%float AOther
                (mkInt IFailed 0%float 0%float []) (V3 0 0 1)%float false (fun _ => None) None in
  let s1 := interact_act fixed i s in
  (mstep s1, paction_code (mpost s1)).

(** PropagationApplier with a scripted propagator: (step length, post action) *)
Definition run_propagate (post0 : Z) (step0 dist : float) (boundary : bool) :=
  let s := propagation_result_apply dist boundary
             (blank Alive step0 (paction_of post0) 1%float 1%float 0%float) in
  (mstep s, paction_code (mpost s)).

(** MscStepLimitApplier + MscApplier with a scripted helper over consecutive steps of one
    slot: per step (apply_step called?, step after limit, step after apply) *)
Fixpoint msc_seq (m : mscstep float) (l : list (float * bool * float * float))
  : list (bool * float * float) :=
  match l with
  | [] => []
  | (phys, app, t, g) :: r =>
    let s0 := blank Alive phys ADiscrete 1%float 1%float 0%float in
    let '(s1, m1) := msc_limit_act app t g s0 m in
    let '(s2, called) := msc_apply_act s1 m1 in
    (called, mstep s1, mstep s2) :: msc_seq m1 r
  end.
Definition run_msc (l : list (float * bool * float * float)) := msc_seq (mkMsc 0%float 0%float) l.

(** calc_physics_step_limit given the look-ups: (step, action code) *)
Definition run_physlimit (stopped : bool) (mfp xs : float) (has_eloss : bool)
           (eloss_step fixed : float) (no_processes : bool) :=
  let '(st, a) := calc_physics_step_limit stopped mfp xs has_eloss eloss_step fixed no_processes in
  (st, paction_code a).

(** StatusCheckExecutor: [tbl] = (action id, StepActionOrder or 14 = implicit) of the real
    registry, ids < 0 = invalid ActionId; result = code of the first failing condition *)
Definition order_of_Z (z : Z) : option sorder :=
  match z with
  | 0 => Some OGenerate | 1 => Some OStart | 2 => Some OUserStart | 3 => Some OSortStart
  | 4 => Some OPre | 5 => Some OUserPre | 6 => Some OSortPre | 7 => Some OAlong
  | 8 => Some OSortAlong | 9 => Some OPrePost | 10 => Some OSortPrePost | 11 => Some OPost
  | 12 => Some OUserPost | 13 => Some OEnd | _ => None
  end%Z.
Definition cfail_code (c : cfail) : Z :=
  match c with
  | CPass => 0 | CReverted => 1 | CInitializing => 2 | CMissingPost => 3
  | CMissingAlong => 4 | CAlongChanged => 5 | COutOfOrder => 6
  end%Z.
Definition run_statuscheck (tbl : list (Z * Z)) (order : Z) (ps pp pa : Z) (cs : Z) (inf : bool)
           (cp ca : Z) : Z :=
  let orders := fun id : nat =>
    match find (fun p => Z.eqb (fst p) (Z.of_nat id)) tbl with
    | Some (_, o) => order_of_Z o
    | None => None
    end in
  let oid := fun z : Z => if (z <? 0)%Z then None else Some (Z.to_nat z) in
  match order_of_Z order with
  | Some o => cfail_code (status_check orders o (mkCV (status_of ps) false (oid pp) (oid pa))
                                       (mkCV (status_of cs) inf (oid cp) (oid ca)))
  | None => (-1)%Z
  end.

(** CoreTrackView::apply_errored on a slot with the given status / post-step action class *)
Definition run_errored (st : Z) (post : Z) (step : float) :=
  let s := apply_errored (blank (status_of st) step (paction_of post) 1%float 1%float 0%float) in
  (status_code (mstat s), paction_code (mpost s), mstep s).

(** UrbanMscSafetyStepLimit (constructor's limit_ + operator()) and UrbanMscMinimalStepLimit
    (operator() on the stored range_init): (true path limit, random numbers consumed) *)
Definition out_msc (n : nat) (o : option (float * list float)) : float * Z :=
  match o with
  | Some (r, rest) => (r, Z.of_nat (n - length rest))
  | None => ((-1)%float, (-1)%Z)
  end.
Definition run_msclimit (phys_step range safety rf ri sf lmin : float) (us : list float) :=
  out_msc (length us) (msc_true_path_limit phys_step (safety_limit range safety rf ri sf lmin) lmin us).
Definition run_msclimit_min (phys_step limit lmin : float) (us : list float) :=
  out_msc (length us) (msc_true_path_limit phys_step limit lmin us).
