(** * C05: entry points for the unit correspondence check (float instance). *)
From Coq Require Import ZArith List Floats Bool.
From Celer Require Import Base.Num Base.NumF Base.Vec3 C01.LedgerModel C01.Run C05.StepModel.
Import ListNotations.

Definition blank (st : status) (step : float) (post : paction) (E : float) (mfp time : float) : sim float :=
  mkSim time (V3 0 0 0)%float (V3 0 0 1)%float (Some 0%nat) step post st 0 E 0%float false
        0%float [] mfp.

Definition status_of (c : Z) : status :=
  match c with 0 => Inactive | 1 => Initializing | 2 => Alive | 3 => Errored | _ => Killed end%Z.

(** reset_step_limit then a sequence of step_limit calls: (is_limiting, step, action) after each *)
Fixpoint steplimit_seq (s : sim float) (l : list (float * Z)) : list (bool * float * Z) :=
  match l with
  | [] => []
  | (st, a) :: r =>
    let '(s', lim) := step_limit st (paction_of a) s in
    (lim, mstep s', paction_code (mpost s')) :: steplimit_seq s' r
  end.

Definition run_steplimit (s0 : float) (c0 : Z) (l : list (float * Z)) :=
  steplimit_seq (reset_step_limit s0 (paction_of c0) (blank Alive 0%float AOther 0%float 0%float 0%float)) l.

Definition upd_input (speed xs : float) : sinput float :=
  mkIn 0%float AOther 0%float 0%float speed false false 0%float xs AOther
       (mkInt IUnchanged 0%float 0%float []) (V3 0 0 1)%float false (fun _ => None) None.

(** TimeUpdater then TrackUpdater: (time, mfp, steps added) *)
Definition run_update (st : Z) (speed step time0 : float) (post : Z) (mfp xs E : float) :=
  let s := blank (status_of st) step (paction_of post) E mfp time0 in
  let i := upd_input speed xs in
  let s1 := track_update i (time_update i s) in
  (mtime s1, mmfp s1, Z.of_nat (mnsteps s1)).

(** allocation-failure branch of InteractionApplier on a slot whose step length is [step0]:
    (step length, post action) afterwards, for either variant of the branch *)
Definition run_ifail (fixed : bool) (step0 : float) :=
  let s := blank Alive step0 AModel 1%float 1%float 0%float in
  let i := mkIn 0%float AOther 0%float 0%float 1%float false false 0%float 0%float AOther
                (mkInt IFailed 0%float 0%float []) (V3 0 0 1)%float false (fun _ => None) None in
  let s1 := interact_act fixed i s in
  (mstep s1, paction_code (mpost s1)).

(** PropagationApplier with a scripted propagator: (step length, post action) *)
Definition run_propagate (post0 : Z) (step0 dist : float) (boundary : bool) :=
  let s := propagation_result_apply dist boundary
             (blank Alive step0 (paction_of post0) 1%float 1%float 0%float) in
  (mstep s, paction_code (mpost s)).

(** MscStepLimitApplier + MscApplier with a scripted helper over consecutive steps of one
    slot: per step (apply_step called?, step after limit, step after apply) *)
Fixpoint msc_seq (m : mscstep float) (l : list (float * bool * float * float))
  : list (bool * float * float) :=
  match l with
  | [] => []
  | (phys, app, t, g) :: r =>
    let s0 := blank Alive phys ADiscrete 1%float 1%float 0%float in
    let '(s1, m1) := msc_limit_act app t g s0 m in
    let '(s2, called) := msc_apply_act s1 m1 in
    (called, mstep s1, mstep s2) :: msc_seq m1 r
  end.
Definition run_msc (l : list (float * bool * float * float)) := msc_seq (mkMsc 0%float 0%float) l.

(** calc_physics_step_limit given the look-ups: (step, action code) *)
Definition run_physlimit (stopped : bool) (mfp xs : float) (has_eloss : bool)
           (eloss_step fixed : float) (no_processes : bool) :=
  let '(st, a) := calc_physics_step_limit stopped mfp xs has_eloss eloss_step fixed no_processes in
  (st, paction_code a).
