(** * C05: the complete BoundaryExecutor (geo/detail/BoundaryExecutor.hh) incl. the
    geometry-failure and missing-material branches and CoreTrackView::apply_errored
    (executable, no proofs).  [StepModel.boundary_act] is the non-failing part. *)
From Coq Require Import ZArith List Bool.
From Celer Require Import Base.Num Base.Vec3 C01.LedgerModel C05.StepModel.
Import ListNotations.

Section Boundary.
  Context {T : Type} `{Num T}.

  (** CoreTrackView::apply_errored: status errored, along-step action cleared (not part
      of [sim]; see [StatusCheck.along_after_pre]), post-step action = tracking cut *)
  Definition apply_errored (s : sim T) : sim T :=
    mkSim (mtime s) (mpos s) (mdir s) (mvol s) (mstep s) ATrackingCut Errored
          (mnsteps s) (mE s) (mm s) (manti s) (mdep s) (msecs s) (mmfp s).

  Definition with_vol (s : sim T) (v : option nat) : sim T :=
    mkSim (mtime s) (mpos s) (mdir s) v (mstep s) (mpost s) (mstat s)
          (mnsteps s) (mE s) (mm s) (manti s) (mdep s) (msecs s) (mmfp s).

  (** [geo_failed]: geo.failed() after cross_boundary; [no_material]: the volume entered
      has no material id.  Launched for tracks whose post-step action is the boundary's. *)
  Definition boundary_act_full (geo_failed no_material : bool) (i : sinput T) (s : sim T) : sim T :=
    if paction_eqb (mpost s) ABoundary then
      if geo_failed then apply_errored s
      else
        match in_nextvol i with
        | Some v => if no_material then apply_errored (with_vol s (Some v)) else with_vol s (Some v)
        | None => with_stat (with_vol s None) Killed
        end
    else s.

  (** the post-step part of an iteration with the complete boundary action *)
  Definition post_actions_full (fixed geo_failed no_material : bool) (i : sinput T) (s : sim T) : sim T :=
    tracking_cut_act (boundary_act_full geo_failed no_material i (interact_act fixed i (discrete_select i s))).
End Boundary.
