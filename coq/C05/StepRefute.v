(** * C05: the allocation-failure witness refuting step_ge_displacement (finding F5),
    and satisfiability examples for the hypotheses of the positive theorems. *)
From Coq Require Import Reals ZArith List Bool Lra Lia.
From Celer Require Import Base.Num Base.NumR Base.Vec3 C01.LedgerModel C01.LedgerProofs C01.LedgerExamples
  C05.StepModel C05.StepProofs C05.StepProofs2.
Import ListNotations.
Local Open Scope R_scope.

(** the allocation-failure witness (finding F5): the [fixed = false] variant of the branch *)
Definition f5_state : sim R :=
  mkSim 0 (V3 0 0 0) (V3 1 0 0) (Some 0%nat) 0 AOther Alive 0 1 0 false 0 [] 1.
Definition f5_input : sinput R :=
  mkIn 1 ADiscrete 1 5 1 false false 0 1 AModel (mkInt IFailed 0 0 []) (V3 1 0 0)
       false (fun _ => None) None.

Ltac psimp :=
  cbn [mtime mpos mdir mvol mstep mpost mstat mnsteps mE mm manti mdep msecs mmfp
       in_phys_step in_phys_action in_newmfp in_next in_speed in_applicable in_at_rest
       in_eloss in_xs in_select in_inter in_newdir in_apply_post in_cut in_nextvol
       with_step with_stat with_slot slot_of strk sdep sstat spost ssecs tE tm tanti
       paction_eqb iact fst snd negb orb andb vx vy vz];
  numR; rdec.

Lemma f5_pre : pre_step f5_input f5_state
  = mkSim 0 (V3 0 0 0) (V3 1 0 0) (Some 0%nat) 1 ADiscrete Alive 0 1 0 false 0 [] 1.
Proof. unfold pre_step, f5_input, f5_state. psimp. reflexivity. Qed.

Lemma f5_along :
  along_step f5_input (mkSim 0 (V3 0 0 0) (V3 1 0 0) (Some 0%nat) 1 ADiscrete Alive 0 1 0 false 0 [] 1)
  = mkSim (0 + 1 / 1) (V3 (1 * 1 + 0) (1 * 0 + 0) (1 * 0 + 0)) (V3 1 0 0) (Some 0%nat) 1 ADiscrete
          Alive 1 1 0 false 0 [] 1.
Proof.
  unfold along_step, propagate_apply, f5_input. psimp.
  unfold axpy. psimp. unfold time_update. psimp.
  unfold eloss_act, eloss_apply. psimp. unfold track_update. psimp. reflexivity.
Qed.

Lemma f5_post :
  post_actions false f5_input
    (mkSim (0 + 1 / 1) (V3 (1 * 1 + 0) (1 * 0 + 0) (1 * 0 + 0)) (V3 1 0 0) (Some 0%nat) 1 ADiscrete
          Alive 1 1 0 false 0 [] 1)
  = mkSim (0 + 1 / 1) (V3 (1 * 1 + 0) (1 * 0 + 0) (1 * 0 + 0)) (V3 1 0 0) (Some 0%nat) 0 AFailure
          Alive 1 1 0 false 0 [] 0.
Proof.
  unfold post_actions, discrete_select, f5_input. psimp.
  unfold interact_act. psimp. unfold interaction_apply. psimp.
  unfold step_limit. psimp.
  unfold boundary_act. psimp. unfold tracking_cut_act. psimp. reflexivity.
Qed.

Theorem step_ge_displacement_refuted :
  exists (i : sinput R) (s : sim R),
    mstat s = Alive /\ dot (mdir s) (mdir s) = 1 /\ 0 < in_next i /\ 0 < in_phys_step i
    /\ 0 < mE s /\ iact (in_inter i) = IFailed
    /\ let '(pre, _, s1) := one_step false i s in
       mstep s1 = 0 /\ mstep s1 < distance (ppos pre) (mpos s1) /\ 0 < pE pre
       /\ mstat s1 = Alive.
Proof.
  exists f5_input, f5_state.
  split; [reflexivity|]. split; [unfold dot; cbn; numR; lra|].
  split; [cbn; lra|]. split; [cbn; lra|]. split; [cbn; lra|]. split; [reflexivity|].
  unfold one_step, step_body. rewrite f5_pre. unfold along_step_act. cbn [mstat].
  rewrite f5_along, f5_post. cbn [snap ppos pE mstep mpos mE mstat].
  split; [reflexivity|]. split; [|split; [lra|reflexivity]].
  unfold distance. cbn [vx vy vz]. numR.
  replace (0 + (1 * 1 + 0 - 0) * (1 * 1 + 0 - 0) + (1 * 0 + 0 - 0) * (1 * 0 + 0 - 0)
           + (1 * 0 + 0 - 0) * (1 * 0 + 0 - 0)) with 1 by ring.
  rewrite sqrt_1. lra.
Qed.

(** the same witness on the repaired branch: the step length is kept *)
Lemma f5_post_fixed :
  post_actions true f5_input
    (mkSim (0 + 1 / 1) (V3 (1 * 1 + 0) (1 * 0 + 0) (1 * 0 + 0)) (V3 1 0 0) (Some 0%nat) 1 ADiscrete
          Alive 1 1 0 false 0 [] 1)
  = mkSim (0 + 1 / 1) (V3 (1 * 1 + 0) (1 * 0 + 0) (1 * 0 + 0)) (V3 1 0 0) (Some 0%nat) 1 AFailure
          Alive 1 1 0 false 0 [] 0.
Proof.
  unfold post_actions, discrete_select, f5_input. psimp.
  unfold interact_act. psimp. unfold interaction_apply. psimp.
  unfold boundary_act. psimp. unfold tracking_cut_act. psimp. reflexivity.
Qed.

(** hypotheses of the positive theorems are satisfiable: same state, an
    interaction that scatters instead of failing *)
Definition ok_input : sinput R :=
  mkIn 1 ADiscrete 1 5 1 false false 0 1 AModel (mkInt IScattered (1/2) 0 []) (V3 0 1 0)
       false (fun _ => None) None.

Example positive_hypotheses_satisfiable :
  (mstat f5_state = Initializing \/ mstat f5_state = Alive)
  /\ iact (in_inter ok_input) <> IFailed
  /\ dot (mdir f5_state) (mdir f5_state) = 1 /\ 0 < in_next ok_input
  /\ 0 <= in_phys_step ok_input
  /\ (0 < in_phys_step ok_input \/ (in_phys_step ok_input = 0 /\ mE f5_state = 0))
  /\ 0 <= mE f5_state /\ 0 <= in_eloss ok_input <= mE f5_state.
Proof.
  repeat split; try (cbn; lra); try (right; reflexivity); try (left; cbn; lra);
    try (cbn; discriminate); try (unfold dot; cbn; numR; lra).
Qed.
