(** * C05: model of the repo's own debug checker (executable, no proofs).

    [status_check] mirrors, condition by condition and in the same order,
    [celeritas/track/detail/StatusCheckExecutor.hh] ([StatusCheckExecutor::operator()]):
    it is called by [StatusChecker::step] after every action of the stepping loop with
    [order] = StepActionOrder of the action that just ran, [prev] = the per-slot
    (status, post-step action, along-step action) saved after the previous action and
    the current sim state.  The result is the FIRST failing [CELER_FAIL_IF] or [CPass].

    [checks_of_step] lists the (order, previous state, current state) triples the checker
    sees while one iteration of [StepModel] runs: pre-step (pre), the along-step kernel
    (along), discrete-select (pre_post), the interaction kernel (post), boundary (post),
    tracking cut (post). *)
From Coq Require Import ZArith List Bool Arith.
From Celer Require Import Base.Num Base.Vec3 C01.LedgerModel C05.StepModel.
Import ListNotations.

(** StepActionOrder (corecel/sys/ActionInterface.hh), in enum order *)
Inductive sorder :=
| OGenerate | OStart | OUserStart | OSortStart | OPre | OUserPre | OSortPre | OAlong
| OSortAlong | OPrePost | OSortPrePost | OPost | OUserPost | OEnd.

Definition orank (o : sorder) : nat :=
  match o with
  | OGenerate => 0 | OStart => 1 | OUserStart => 2 | OSortStart => 3 | OPre => 4
  | OUserPre => 5 | OSortPre => 6 | OAlong => 7 | OSortAlong => 8 | OPrePost => 9
  | OSortPrePost => 10 | OPost => 11 | OUserPost => 12 | OEnd => 13
  end.

(** what the checker reads from the track slot: [None] action id = invalid ActionId *)
Record cview := mkCV {
  cv_status : status;
  cv_step_inf : bool;            (* sim.step_length() == infinity *)
  cv_post : option nat;          (* sim.post_step_action() *)
  cv_along : option nat          (* sim.along_step_action() *)
}.

(** the CELER_FAIL_IF messages *)
Inductive cfail :=
| CPass
| CReverted          (* "status was improperly reverted" *)
| CInitializing      (* "status cannot be 'initializing' after pre-step" *)
| CMissingPost       (* "missing post-step action" *)
| CMissingAlong      (* "missing along-step action" *)
| CAlongChanged      (* "along-step action cannot yet change" *)
| COutOfOrder.       (* "new post-step action is out of order" *)

Definition status_eqb (a b : status) : bool := Nat.eqb (rank a) (rank b).
Definition opt_eqb (a b : option nat) : bool :=
  match a, b with
  | Some x, Some y => Nat.eqb x y
  | None, None => true
  | _, _ => false
  end.

(** OrderedAction::operator< *)
Definition ordered_lt (o1 : nat) (i1 : nat) (o2 : nat) (i2 : nat) : bool :=
  if o1 <? o2 then true else if o2 <? o1 then false else i1 <? i2.

(** [orders id] = params.orders[id]; [None] = implicit_order (StepActionOrder::size_:
    the action is not a step action, e.g. eloss-range, physics-failure, the
    propagation limit).  params.orders[invalid id] is only evaluated under
    [prev_post_step] valid; an invalid NEXT id is treated as implicit here (the C++
    reads out of bounds; the "missing post-step action" test precedes it for finite
    steps). *)
Definition status_check (orders : nat -> option sorder) (order : sorder)
           (prev : cview) (cur : cview) : cfail :=
  let o := orank order in
  if ((orank OStart <? o) && (o <? orank OEnd))
     && negb (rank (cv_status prev) <=? rank (cv_status cur)) then CReverted
  else if ((orank OPre <=? o) && (o <? orank OEnd))
          && status_eqb (cv_status cur) Initializing then CInitializing
  else if status_eqb (cv_status cur) Inactive then CPass
  else if (o <? orank OPre) || (o =? orank OEnd) then CPass
  else if negb (cv_step_inf cur) && negb (match cv_post cur with Some _ => true | None => false end)
  then CMissingPost
  else if status_eqb (cv_status cur) Alive
          && negb (match cv_along cur with Some _ => true | None => false end)
  then CMissingAlong
  else if ((orank OPre <? o) && (match cv_along cur with Some _ => true | None => false end))
          && negb (opt_eqb (cv_along prev) (cv_along cur)) then CAlongChanged
  else
    match cv_post prev with
    | Some pp =>
      if (orank OPre <? o) && negb (opt_eqb (Some pp) (cv_post cur)) then
        let po := orders pp in
        let no := match cv_post cur with Some np => orders np | None => None end in
        match po, no, cv_post cur with
        | Some a, Some b, Some np =>
          if ordered_lt (orank a) pp (orank b) np then CPass else COutOfOrder
        | _, _, _ => CPass       (* one of them implicit *)
        end
      else CPass
    | None => CPass
    end.

(** ** the checker applied to one iteration of the step model *)

(** action ids of the post-step action classes of [LedgerModel.paction] in some
    action registry and the id of the along-step action *)
Record action_table := mkTbl {
  id_boundary : nat; id_range : nat; id_discrete : nat; id_cut : nat;
  id_failure : nat; id_other : nat; id_model : nat; id_along : nat }.

Definition act_id (tb : action_table) (a : paction) : option nat :=
  match a with
  | ABoundary => Some (id_boundary tb) | ARange => Some (id_range tb)
  | ADiscrete => Some (id_discrete tb) | ATrackingCut => Some (id_cut tb)
  | AFailure => Some (id_failure tb) | AOther => Some (id_other tb)
  | AModel => Some (id_model tb) | ANone => None
  end.

Section Views.
  Context {T : Type} `{Num T}.

  (** [is_inf]: the predicate [x == infinity]; [along]: the slot's along-step action
      (assigned by PreStepExecutor to every track that is not errored, then constant) *)
  Definition view_of (tb : action_table) (is_inf : T -> bool) (along : option nat) (s : sim T)
    : cview :=
    mkCV (mstat s) (is_inf (mstep s)) (act_id tb (mpost s)) along.

  Definition along_after_pre (tb : action_table) (s0 : sim T) : option nat :=
    match mstat s0 with Errored => None | _ => Some (id_along tb) end.

  (** the triples (order of the action that ran, state before, state after) *)
  Definition checks_of_step (fixed : bool) (i : sinput T) (s : sim T)
    : list (sorder * sim T * sim T) :=
    let s0 := pre_step i s in
    let a4 := along_step_act i s0 in
    let p1 := discrete_select i a4 in
    let p2 := interact_act fixed i p1 in
    let p3 := boundary_act i p2 in
    let p4 := tracking_cut_act p3 in
    [ (OPre, s, s0); (OAlong, s0, a4); (OPrePost, a4, p1); (OPost, p1, p2);
      (OPost, p2, p3); (OPost, p3, p4) ].

  (** result of the checker on every triple; [along0] = the (stale) along-step action
      of the slot before pre-step *)
  Definition check_step (tb : action_table) (orders : nat -> option sorder)
             (is_inf : T -> bool) (along0 : option nat)
             (fixed : bool) (i : sinput T) (s : sim T) : list cfail :=
    let s0 := pre_step i s in
    let al := along_after_pre tb s0 in
    map (fun '(o, a, b) =>
           let ala := match o with OPre => along0 | _ => al end in
           status_check orders o (view_of tb is_inf ala a) (view_of tb is_inf al b))
        (checks_of_step fixed i s).
End Views.
