(** * C05: the step model passes every condition of the repo's StatusChecker. *)
From Coq Require Import Reals ZArith List Bool Arith Lra Lia.
From Celer Require Import Base.Num Base.NumR Base.Vec3 C01.LedgerModel C01.LedgerProofs
  C05.StepModel C05.StepProofs C05.StatusCheck.
Import ListNotations.
Local Open Scope R_scope.

(** the registry facts the checker depends on: discrete-select is a [pre_post] action,
    interaction models, boundary and tracking cut are [post] actions, the eloss-range /
    failure / limiter actions are not step actions (implicit) *)
Definition table_ok (tb : action_table) (orders : nat -> option sorder) : Prop :=
  orders (id_discrete tb) = Some OPrePost /\ orders (id_model tb) = Some OPost /\
  orders (id_boundary tb) = Some OPost /\ orders (id_cut tb) = Some OPost /\
  orders (id_range tb) = None /\ orders (id_failure tb) = None /\ orders (id_other tb) = None.

Definition implicit_act (a : paction) : bool :=
  match a with ARange | AFailure | AOther => true | _ => false end.

(** allowed changes of the post-step action between two checker calls *)
Definition post_ok (pa na : paction) : bool :=
  paction_eqb pa na || implicit_act pa || implicit_act na ||
  match pa, na with
  | ADiscrete, AModel | ADiscrete, ABoundary | ADiscrete, ATrackingCut => true
  | _, _ => false
  end.

Lemma opt_eqb_refl o : opt_eqb o o = true.
Proof. destruct o; cbn; [apply Nat.eqb_refl|reflexivity]. Qed.

Definition noinf : R -> bool := fun _ => false.

Lemma check_pass tb orders o al_prev al (a b : simR) :
  table_ok tb orders ->
  (o = OPre \/ o = OAlong \/ o = OPrePost \/ o = OPost) ->
  (rank (mstat a) <= rank (mstat b))%nat ->
  (rank Alive <= rank (mstat b))%nat ->
  mpost b <> ANone ->
  (mstat b = Alive -> al <> None) ->
  (o <> OPre -> al_prev = al /\ post_ok (mpost a) (mpost b) = true) ->
  status_check orders o (view_of tb noinf al_prev a) (view_of tb noinf al b) = CPass.
Proof.
  intros (T1 & T2 & T3 & T4 & T5 & T6 & T7) Ho Hr Hal Hpost Halong Htr.
  unfold status_check, view_of, noinf. cbn [cv_status cv_step_inf cv_post cv_along].
  assert (R1 : (rank (mstat a) <=? rank (mstat b))%nat = true) by (apply Nat.leb_le; exact Hr).
  rewrite R1. cbn [negb]. rewrite andb_false_r.
  assert (R2 : status_eqb (mstat b) Initializing = false)
    by (unfold status_eqb; destruct (mstat b); cbn in *; try reflexivity; lia).
  assert (R3 : status_eqb (mstat b) Inactive = false)
    by (unfold status_eqb; destruct (mstat b); cbn in *; try reflexivity; lia).
  rewrite R2, R3, andb_false_r.
  assert (R4 : ((orank o <? orank OPre)%nat || (orank o =? orank OEnd)%nat) = false)
    by (destruct Ho as [-> | [-> | [-> | ->]]]; reflexivity).
  rewrite R4.
  assert (R5 : exists n, act_id tb (mpost b) = Some n)
    by (destruct (mpost b); cbn; eauto; contradiction).
  destruct R5 as [nb Hnb]. rewrite Hnb. cbn [negb andb].
  assert (R6 : (status_eqb (mstat b) Alive && negb (match al with Some _ => true | None => false end)) = false).
  { destruct (mstat b) eqn:Eb; cbn in *; try reflexivity; try lia.
    destruct al; [reflexivity|]. exfalso. apply Halong; reflexivity. }
  rewrite R6.
  destruct Ho as [-> | Ho].
  - cbn. destruct (act_id tb (mpost a)); reflexivity.
  - assert (Hne : o <> OPre) by (destruct Ho as [-> | [-> | ->]]; discriminate).
    destruct (Htr Hne) as [-> Hok].
    rewrite opt_eqb_refl. cbn [negb]. rewrite andb_false_r.
    assert (R7 : (orank OPre <? orank o)%nat = true) by (destruct Ho as [-> | [-> | ->]]; reflexivity).
    rewrite R7. cbn [andb].
    destruct (act_id tb (mpost a)) as [pa|] eqn:Hpa; [|reflexivity].
    destruct (opt_eqb (Some pa) (Some nb)) eqn:Heq; cbn [negb]; [reflexivity|].
    destruct (mpost a) eqn:Ea; destruct (mpost b) eqn:Eb; cbn in Hpa, Hnb, Hok;
      inversion Hpa; inversion Hnb; subst pa nb; try discriminate;
      rewrite ?T1, ?T2, ?T3, ?T4, ?T5, ?T6, ?T7; try reflexivity;
      try (cbn in Heq; rewrite Nat.eqb_refl in Heq; discriminate).
Qed.

(** ** how the post-step action moves through the actions of one iteration *)

Lemma eloss_apply_post a r d (x : slot R) :
  spost (eloss_apply a r d x) = spost x \/ spost (eloss_apply a r d x) = ADiscrete
  \/ spost (eloss_apply a r d x) = ARange.
Proof.
  unfold eloss_apply. destruct (negb a || is_stopped (strk x)); [now left|].
  destruct (n0 <? d)%num; cbn [strk];
    match goal with |- context [is_stopped ?t] => destruct (is_stopped t) end;
    try destruct r; cbn; auto.
Qed.

Lemma propagate_post i (s : simR) :
  mpost (propagate_apply i s) = mpost s \/ mpost (propagate_apply i s) = ABoundary
  \/ mpost (propagate_apply i s) = AOther.
Proof. unfold propagate_apply. numR. rb; cbn; auto. Qed.

Lemma time_update_post i (s : simR) : mpost (time_update i s) = mpost s.
Proof. unfold time_update. destruct (mstat s); numR; rb; reflexivity. Qed.

Lemma track_update_post i (s : simR) : mpost (track_update i s) = mpost s.
Proof. unfold track_update. destruct (mstat s); reflexivity. Qed.

Lemma along_step_post i (s : simR) :
  let a := mpost (along_step i s) in
  a = mpost s \/ a = ABoundary \/ a = AOther \/ a = ADiscrete \/ a = ARange.
Proof.
  cbn zeta. unfold along_step. rewrite track_update_post.
  unfold eloss_act, with_slot. cbn [mpost].
  destruct (eloss_apply_post (match mstat (time_update i (propagate_apply i s)) with
                              | Errored => false | _ => in_applicable i end)
              (in_at_rest i) (in_eloss i) (slot_of (time_update i (propagate_apply i s)))) as [E|[E|E]];
    rewrite E; auto.
  cbn [slot_of spost]. rewrite time_update_post.
  destruct (propagate_post i s) as [P|[P|P]]; rewrite P; auto.
Qed.

Lemma along_step_stat i (s : simR) :
  mstat (along_step i s) = mstat s \/ mstat (along_step i s) = Killed.
Proof.
  unfold along_step. rewrite track_update_stat.
  destruct (eloss_act_stat i (time_update i (propagate_apply i s))) as [E|E]; rewrite E; auto.
  rewrite time_update_stat, propagate_stat. auto.
Qed.

Lemma interact_act_post fx i (s : simR) :
  mpost (interact_act fx i s) = mpost s \/ mpost (interact_act fx i s) = AFailure.
Proof.
  unfold interact_act. destruct (paction_eqb _ _); [|now left].
  destruct (interaction_apply _ _ _ _) as [x f] eqn:Ei. destruct f.
  - destruct fx; [cbn; auto|]. unfold step_limit. destruct (_ <? _)%num; cbn; auto.
  - left. unfold interaction_apply in Ei.
    destruct (iact (in_inter i)) eqn:Ea;
      try (destruct (if in_apply_post i then _ else _) as [d secs] in Ei);
      inversion Ei; subst; cbn; reflexivity.
Qed.

Lemma boundary_act_post i (s : simR) : mpost (boundary_act i s) = mpost s.
Proof. unfold boundary_act. destruct (paction_eqb _ _); [destruct (in_nextvol i)|]; reflexivity. Qed.

Lemma tracking_cut_act_post (s : simR) : mpost (tracking_cut_act s) = mpost s.
Proof. unfold tracking_cut_act. destruct (paction_eqb _ _); reflexivity. Qed.

(** conforming inputs: the pre-step limit is one of calc_physics_step_limit's actions of
    a particle that has processes; discrete selection yields a model action or the
    integral-rejection / failure action; a track that failed its initialisation carries
    the tracking-cut action *)
Definition conforming (i : sinputR) (s : simR) : Prop :=
  (mstat s = Initializing \/ mstat s = Alive \/ mstat s = Errored) /\
  (in_phys_action i = ARange \/ in_phys_action i = ADiscrete \/ in_phys_action i = AOther) /\
  (in_select i = AModel \/ in_select i = AFailure) /\
  (mstat s = Errored -> mpost s = ATrackingCut).

Lemma rank_or (x y : status) : y = x \/ y = Killed -> (rank x <= rank y)%nat.
Proof. intros [->| ->]; [lia|apply rank_killed_max]. Qed.

(** THE theorem: every call of the checker during an iteration of the model passes *)
Theorem status_checker_accepts_model tb orders along0 fixed (i : sinputR) (s : simR) :
  table_ok tb orders -> conforming i s ->
  Forall (fun r => r = CPass) (check_step tb orders noinf along0 fixed i s).
Proof.
  intros Htb (Hst & Hpa & Hsel & Herr).
  unfold check_step, checks_of_step. cbn [map].
  set (s0 := pre_step i s).
  set (a4 := along_step_act i s0). set (p1 := discrete_select i a4).
  set (p2 := interact_act fixed i p1). set (p3 := boundary_act i p2). set (p4 := tracking_cut_act p3).
  set (al := along_after_pre tb s0).
  (* pre-step *)
  assert (H0 : (mstat s0 = Alive /\ mpost s0 = in_phys_action i /\ mstat s <> Errored)
               \/ (mstat s0 = Errored /\ mpost s0 = ATrackingCut /\ mstat s = Errored)).
  { subst s0. unfold pre_step. destruct Hst as [E|[E|E]]; rewrite E; cbn; [left|left|right];
      repeat split; auto; try discriminate. }
  assert (R0 : (rank (mstat s) <= rank (mstat s0))%nat).
  { destruct H0 as [(A & _ & C)|(A & _ & B)]; rewrite A; [|rewrite B; lia].
    destruct Hst as [E|[E|E]]; try (exfalso; apply C; exact E); rewrite E; cbn; lia. }
  assert (Hal : forall b : simR, (rank (mstat s0) <= rank (mstat b))%nat -> mstat b = Alive -> al <> None).
  { intros b Hb Hbal. subst al. unfold along_after_pre.
    destruct (mstat s0) eqn:E0; try discriminate. rewrite Hbal in Hb. cbn in Hb. lia. }
  assert (G0 : (rank Alive <= rank (mstat s0))%nat)
    by (destruct H0 as [(A & _)|(A & _)]; rewrite A; cbn; lia).
  assert (N0 : mpost s0 <> ANone).
  { destruct H0 as [(_ & A & _)|(_ & A & _)]; rewrite A; [|discriminate].
    destruct Hpa as [E|[E|E]]; rewrite E; discriminate. }
  (* along *)
  assert (H4 : (rank (mstat s0) <= rank (mstat a4))%nat /\ mpost a4 <> ANone
               /\ post_ok (mpost s0) (mpost a4) = true).
  { subst a4. unfold along_step_act. destruct H0 as [(A & B & _)|(A & B & _)]; rewrite A; cbv beta iota.
    - split; [rewrite <- A; apply rank_or; apply along_step_stat|].
      pose proof (along_step_post i s0) as Hp. cbn zeta in Hp. rewrite B in *.
      destruct Hpa as [E|[E|E]]; rewrite E in *;
        destruct Hp as [P|[P|[P|[P|P]]]]; rewrite P; split; try discriminate; reflexivity.
    - split; [rewrite A; lia|]. split; [exact N0|]. rewrite B. reflexivity. }
  destruct H4 as (R4 & N4 & K4).
  (* discrete select *)
  assert (H5 : mstat p1 = mstat a4 /\ mpost p1 <> ANone /\ post_ok (mpost a4) (mpost p1) = true).
  { subst p1. split; [apply discrete_select_stat|]. unfold discrete_select.
    destruct (paction_eqb (mpost a4) ADiscrete) eqn:E; cbn [mpost].
    - assert (Ea : mpost a4 = ADiscrete) by (destruct (mpost a4); cbn in E; try discriminate; reflexivity).
      rewrite Ea. destruct Hsel as [S|S]; rewrite S; split; try discriminate; reflexivity.
    - split; [exact N4|]. unfold post_ok. destruct (mpost a4); reflexivity. }
  destruct H5 as (S5 & N5 & K5).
  (* interaction *)
  assert (H6 : (rank (mstat p1) <= rank (mstat p2))%nat /\ mpost p2 <> ANone
               /\ post_ok (mpost p1) (mpost p2) = true).
  { subst p2. split; [apply rank_or; apply interact_act_stat|].
    destruct (interact_act_post fixed i p1) as [P|P]; rewrite P.
    - split; [exact N5|]. unfold post_ok. destruct (mpost p1); reflexivity.
    - split; [discriminate|]. unfold post_ok. destruct (mpost p1); reflexivity. }
  destruct H6 as (R6 & N6 & K6).
  assert (H7 : (rank (mstat p2) <= rank (mstat p3))%nat /\ mpost p3 = mpost p2).
  { subst p3. split; [apply rank_or; apply boundary_act_stat|apply boundary_act_post]. }
  destruct H7 as (R7 & P7).
  assert (H8 : (rank (mstat p3) <= rank (mstat p4))%nat /\ mpost p4 = mpost p3).
  { subst p4. split; [apply rank_or; apply tracking_cut_act_stat|apply tracking_cut_act_post]. }
  destruct H8 as (R8 & P8).
  assert (Hsame : forall x, post_ok x x = true) by (intros x; unfold post_ok; destruct x; reflexivity).
  assert (L1 : (rank (mstat s0) <= rank (mstat p1))%nat) by (rewrite S5; exact R4).
  assert (L2 : (rank (mstat s0) <= rank (mstat p2))%nat) by lia.
  assert (L3 : (rank (mstat s0) <= rank (mstat p3))%nat) by lia.
  assert (L4 : (rank (mstat s0) <= rank (mstat p4))%nat) by lia.
  assert (M3 : mpost p3 <> ANone) by (rewrite P7; exact N6).
  assert (M4 : mpost p4 <> ANone) by (rewrite P8; exact M3).
  assert (K7 : post_ok (mpost p2) (mpost p3) = true) by (rewrite P7; apply Hsame).
  assert (K8 : post_ok (mpost p3) (mpost p4) = true) by (rewrite P8; apply Hsame).
  assert (Q : forall b : simR, (rank (mstat s0) <= rank (mstat b))%nat -> mstat b = Alive -> al <> None)
    by exact Hal.
  repeat constructor;
    (apply check_pass; auto;
     first [ lia | rewrite S5; lia | rewrite <- S5; lia | (apply Q; first [lia | rewrite S5; lia])
           | (intros Hc; exfalso; apply Hc; reflexivity)
           | (intros _; split; [reflexivity|assumption]) ]).
Qed.

(** ** non-vacuity and sensitivity of the checker model *)

Definition ex_tb : action_table := mkTbl 7 3 5 8 4 2 9 1.
Definition ex_orders (id : nat) : option sorder :=
  match id with
  | 5 => Some OPrePost | 9 => Some OPost | 7 => Some OPost | 8 => Some OPost
  | 1 => Some OAlong | 0 => Some OPre
  | _ => None
  end%nat.

Example ex_table_ok : table_ok ex_tb ex_orders.
Proof. repeat split. Qed.

Definition ex_sim (st : status) (a : paction) : simR :=
  mkSim 0 (V3 0 0 0) (V3 1 0 0) (Some 0%nat) 1 a st 0 1 1 false 0 [] 0.
Definition ex_input : sinputR :=
  mkIn 1 ADiscrete 1 5 1 true false 0 1 AModel (mkInt IScattered 1 0 []) (V3 0 1 0) false
       (fun _ => None) (Some 1%nat).

Example ex_conforming : conforming ex_input (ex_sim Initializing ANone).
Proof. unfold conforming, ex_input, ex_sim; cbn. repeat split; auto; discriminate. Qed.

(** what the checker rejects (so passing it is informative): a reverted status, a track
    still initializing after pre-step, a finite step without a post-step action, an alive
    track without along-step action, a changed along-step action, and a post-step action
    that moves backwards in the action order (boundary -> discrete-select) *)
Example ex_rejects :
  status_check ex_orders OPost (mkCV Killed false (Some 7%nat) (Some 1%nat))
               (mkCV Alive false (Some 7%nat) (Some 1%nat)) = CReverted
  /\ status_check ex_orders OPre (mkCV Initializing false None None)
                  (mkCV Initializing false (Some 5%nat) (Some 1%nat)) = CInitializing
  /\ status_check ex_orders OPre (mkCV Initializing false None None)
                  (mkCV Alive false None (Some 1%nat)) = CMissingPost
  /\ status_check ex_orders OPre (mkCV Initializing false None None)
                  (mkCV Alive false (Some 5%nat) None) = CMissingAlong
  /\ status_check ex_orders OAlong (mkCV Alive false (Some 5%nat) (Some 1%nat))
                  (mkCV Alive false (Some 5%nat) (Some 6%nat)) = CAlongChanged
  /\ status_check ex_orders OAlong (mkCV Alive false (Some 7%nat) (Some 1%nat))
                  (mkCV Alive false (Some 5%nat) (Some 1%nat)) = COutOfOrder
  /\ status_check ex_orders OAlong (mkCV Alive false (Some 5%nat) (Some 1%nat))
                  (mkCV Alive false (Some 7%nat) (Some 1%nat)) = CPass
  /\ status_check ex_orders OPost (mkCV Alive false (Some 9%nat) (Some 1%nat))
                  (mkCV Alive false (Some 4%nat) (Some 1%nat)) = CPass
  /\ status_check ex_orders OEnd (mkCV Killed false (Some 9%nat) (Some 1%nat))
                  (mkCV Initializing false None None) = CPass.
Proof. repeat split. Qed.
