(** * C05: proofs, part 2 (continuity, time, energy, positivity, volume, displacement). *)
From Coq Require Import Reals ZArith List Bool Lra Lia.
From Celer Require Import Base.Num Base.NumR Base.Vec3 C01.LedgerModel C01.LedgerProofs
  C05.StepModel C05.StepProofs.
Import ListNotations.
Local Open Scope R_scope.

(** ** steps_join *)

Lemma pre_step_snap i (s : simR) : snap (pre_step i s) = snap s.
Proof. unfold pre_step, snap. destruct (mstat s); reflexivity. Qed.

Fixpoint joined (l : list (snapshot R * snapshot R * simR)) : Prop :=
  match l with
  | (_, post, _) :: r =>
    match r with (pre', _, _) :: _ => post = pre' | [] => True end /\ joined r
  | [] => True
  end.

(** post-step point of iteration k = pre-step point of iteration k+1 *)
Theorem steps_join fx ins : forall (s : simR), joined (run_steps fx ins s).
Proof.
  induction ins as [|i r IH]; intros s; [exact I|].
  cbn [run_steps one_step]. cbn [joined]. split.
  - destruct (mstat (step_body fx i (pre_step i s))); try exact I.
    destruct r as [|i' r']; [exact I|]. cbn [run_steps one_step].
    symmetry. apply pre_step_snap.
  - destruct (mstat (step_body fx i (pre_step i s))); try exact I. apply IH.
Qed.

(** ** time_nondecreasing *)

Lemma propagate_step_nonneg i (s : simR) :
  0 <= mstep s -> 0 <= in_next i -> 0 <= mstep (propagate_apply i s).
Proof. intros. unfold propagate_apply. numR. rb; cbn; lra. Qed.

Lemma propagate_time i (s : simR) : mtime (propagate_apply i s) = mtime s.
Proof. unfold propagate_apply. numR. rb; reflexivity. Qed.

Lemma time_update_time i (s : simR) :
  0 <= mstep s -> mtime s <= mtime (time_update i s).
Proof.
  intros Hs. unfold time_update. destruct (mstat s); numR; rb; cbn; try lra.
  all: assert (0 <= mstep s / in_speed i)
    by (apply Rmult_le_pos; [lra | left; apply Rinv_0_lt_compat; lra]); lra.
Qed.

Lemma track_update_time i (s : simR) : mtime (track_update i s) = mtime s.
Proof. unfold track_update. destruct (mstat s); reflexivity. Qed.

Lemma post_actions_time fx i (s : simR) : mtime (post_actions fx i s) = mtime s.
Proof.
  unfold post_actions, tracking_cut_act, boundary_act, interact_act, discrete_select, step_limit.
  repeat match goal with
  | |- context [paction_eqb ?a ?b] => destruct (paction_eqb a b)
  | |- context [interaction_apply ?a ?b ?c ?d] => destruct (interaction_apply a b c d) as [? []]
  | |- context [in_nextvol ?i] => destruct (in_nextvol i)
  | |- context [iact ?i] => destruct (iact i)
  | |- context [(?a <? ?b)%num] => destruct (a <? b)%num
  | |- context [if fx then _ else _] => destruct fx
  end; reflexivity.
Qed.

Theorem time_nondecreasing fx i (s : simR) :
  0 <= in_phys_step i -> 0 <= in_next i ->
  let '(pre, _, s1) := one_step fx i s in ptime pre <= mtime s1.
Proof.
  intros Hp Hn. unfold one_step, step_body. cbn [snap ptime].
  rewrite post_actions_time. unfold along_step_act.
  destruct (mstat (pre_step i s)) eqn:Es; try lra.
  unfold along_step. rewrite track_update_time. cbn [eloss_act with_slot mtime].
  assert (H0 : mstep (pre_step i s) = in_phys_step i).
  { unfold pre_step in *. destruct (mstat s); cbn in *; try discriminate; reflexivity. }
  assert (Hs0 : 0 <= mstep (pre_step i s)) by (rewrite H0; exact Hp).
  pose proof (propagate_step_nonneg i (pre_step i s) Hs0 Hn) as H1.
  pose proof (time_update_time i _ H1) as H2. rewrite propagate_time in H2. exact H2.
Qed.

(** ** energy_nonincreasing *)

Lemma eloss_act_E i (s : simR) :
  0 <= in_eloss i -> mE (eloss_act i s) <= mE s.
Proof.
  intros Hd. unfold eloss_act, with_slot, slot_of. cbn [mE].
  unfold eloss_apply. cbn [strk].
  match goal with |- context [negb ?a || ?b] => destruct (negb a || b) end; [cbn; lra|].
  destruct (n0 <? in_eloss i)%num; cbn [strk];
    match goal with |- context [is_stopped ?t] => destruct (is_stopped t) end;
    try destruct (in_at_rest i); cbn; numR; lra.
Qed.

Lemma along_step_act_E i (s : simR) :
  0 <= in_eloss i -> mE (along_step_act i s) <= mE s.
Proof.
  intros Hd. unfold along_step_act. destruct (mstat s); try lra.
  unfold along_step.
  assert (H1 : forall x, mE (track_update i x) = mE x)
    by (intros x; unfold track_update; destruct (mstat x); reflexivity).
  assert (H2 : forall x, mE (time_update i x) = mE x)
    by (intros x; unfold time_update; destruct (mstat x); numR; rb; reflexivity).
  assert (H3 : mE (propagate_apply i s) = mE s)
    by (unfold propagate_apply; numR; rb; reflexivity).
  rewrite H1. pose proof (eloss_act_E i (time_update i (propagate_apply i s)) Hd) as H4.
  rewrite H2, H3 in H4. exact H4.
Qed.

Lemma discrete_select_E i (s : simR) : mE (discrete_select i s) = mE s.
Proof. unfold discrete_select. destruct (paction_eqb _ _); reflexivity. Qed.

Lemma interact_act_E fx i (s : simR) :
  mE (interact_act fx i s) = mE s \/ mE (interact_act fx i s) = iE (in_inter i).
Proof.
  unfold interact_act. destruct (paction_eqb _ _); [|now left].
  unfold interaction_apply.
  destruct (iact (in_inter i)) eqn:Ea.
  - destruct (if in_apply_post i then _ else _) as [d secs]. cbn. now right.
  - destruct (if in_apply_post i then _ else _) as [d secs]. cbn. now right.
  - cbn. now left.
  - destruct fx; [cbn; now left|]. unfold step_limit. destruct (_ <? _)%num; cbn; now left.
Qed.

Lemma boundary_act_E i (s : simR) : mE (boundary_act i s) = mE s.
Proof. unfold boundary_act. destruct (paction_eqb _ _); [destruct (in_nextvol i)|]; reflexivity. Qed.

Lemma tracking_cut_act_E (s : simR) :
  mE (tracking_cut_act s) = mE s \/ mE (tracking_cut_act s) = mE s - mE s.
Proof. unfold tracking_cut_act. destruct (paction_eqb _ _); cbn; auto. Qed.

Lemma post_actions_E fx i (s : simR) :
  0 <= mE s -> 0 <= iE (in_inter i) <= mE s ->
  0 <= mE (post_actions fx i s) <= mE s.
Proof.
  intros HE Hi. unfold post_actions.
  set (p1 := discrete_select i s). set (p2 := interact_act fx i p1). set (p3 := boundary_act i p2).
  assert (E1 : mE p1 = mE s) by apply discrete_select_E.
  assert (E2 : mE p2 = mE p1 \/ mE p2 = iE (in_inter i)) by apply interact_act_E.
  assert (E3 : mE p3 = mE p2) by apply boundary_act_E.
  destruct (tracking_cut_act_E p3) as [E4|E4]; destruct E2 as [E2|E2]; lra.
Qed.

Theorem energy_nonincreasing fx i (s : simR) :
  0 <= mE s -> 0 <= in_eloss i <= mE s ->
  0 <= iE (in_inter i) <= mE (along_step_act i (pre_step i s)) ->
  let '(pre, _, s1) := one_step fx i s in mE s1 <= pE pre /\ 0 <= mE s1.
Proof.
  intros HE Hd Hi. unfold one_step, step_body. cbn [snap pE].
  assert (H0 : mE (pre_step i s) = mE s) by (unfold pre_step; destruct (mstat s); reflexivity).
  pose proof (along_step_act_E i (pre_step i s) ltac:(lra)) as H1.
  set (a := along_step_act i (pre_step i s)) in *.
  assert (Ha : 0 <= mE a) by lra.
  pose proof (post_actions_E fx i a Ha Hi) as H2. lra.
Qed.

(** ** frame facts for step length / position / volume in the post-step actions *)

Lemma interact_act_nofail fx i (s : simR) :
  (fx = true \/ iact (in_inter i) <> IFailed) ->
  mstep (interact_act fx i s) = mstep s /\ mpos (interact_act fx i s) = mpos s
  /\ mvol (interact_act fx i s) = mvol s.
Proof.
  intros Hf. unfold interact_act. destruct (paction_eqb _ _); [|auto].
  unfold interaction_apply.
  destruct (iact (in_inter i)) eqn:Ea.
  - destruct (if in_apply_post i then _ else _) as [d secs]. cbn. auto.
  - destruct (if in_apply_post i then _ else _) as [d secs]. cbn. auto.
  - cbn. auto.
  - destruct Hf as [->|Hf]; [cbn; auto | congruence].
Qed.

Lemma interact_act_pos fx i (s : simR) :
  mpos (interact_act fx i s) = mpos s /\ mvol (interact_act fx i s) = mvol s.
Proof.
  unfold interact_act. destruct (paction_eqb _ _); [|auto].
  unfold interaction_apply.
  destruct (iact (in_inter i)) eqn:Ea.
  - destruct (if in_apply_post i then _ else _) as [d secs]. cbn. auto.
  - destruct (if in_apply_post i then _ else _) as [d secs]. cbn. auto.
  - cbn. auto.
  - destruct fx; [cbn; auto|]. unfold step_limit. destruct (_ <? _)%num; cbn; auto.
Qed.

Lemma post_actions_pos fx i (s : simR) : mpos (post_actions fx i s) = mpos s.
Proof.
  unfold post_actions.
  assert (H1 : forall x, mpos (tracking_cut_act x) = mpos x)
    by (intros x; unfold tracking_cut_act; destruct (paction_eqb _ _); reflexivity).
  assert (H2 : forall x, mpos (boundary_act i x) = mpos x)
    by (intros x; unfold boundary_act; destruct (paction_eqb _ _); [destruct (in_nextvol i)|]; reflexivity).
  assert (H4 : forall x, mpos (discrete_select i x) = mpos x)
    by (intros x; unfold discrete_select; destruct (paction_eqb _ _); reflexivity).
  rewrite H1, H2. destruct (interact_act_pos fx i (discrete_select i s)) as [H3 _]. now rewrite H3, H4.
Qed.

Lemma post_actions_step_nofail fx i (s : simR) :
  (fx = true \/ iact (in_inter i) <> IFailed) -> mstep (post_actions fx i s) = mstep s.
Proof.
  intros Hf. unfold post_actions.
  rewrite tracking_cut_act_step, boundary_act_step.
  destruct (interact_act_nofail fx i (discrete_select i s) Hf) as [H3 _].
  now rewrite H3, discrete_select_step.
Qed.

Lemma along_pos i (s : simR) :
  mpos (track_update i (eloss_act i (time_update i (propagate_apply i s)))) = mpos (propagate_apply i s)
  /\ mstep (track_update i (eloss_act i (time_update i (propagate_apply i s)))) = mstep (propagate_apply i s).
Proof.
  split.
  - assert (H1 : forall x, mpos (track_update i x) = mpos x)
      by (intros x; unfold track_update; destruct (mstat x); reflexivity).
    assert (H2 : forall x, mpos (time_update i x) = mpos x)
      by (intros x; unfold time_update; destruct (mstat x); numR; rb; reflexivity).
    rewrite H1. cbn [eloss_act with_slot mpos]. apply H2.
  - rewrite track_update_step, eloss_act_step, time_update_step. reflexivity.
Qed.

(** ** step_positive_or_stopped *)
Theorem step_positive_or_stopped fx i (s : simR) :
  (mstat s = Initializing \/ mstat s = Alive) ->
  (fx = true \/ iact (in_inter i) <> IFailed) ->
  0 < in_next i ->
  (0 < in_phys_step i \/ (in_phys_step i = 0 /\ mE s = 0)) ->
  let '(pre, _, s1) := one_step fx i s in
  0 < mstep s1 \/ (mstep s1 = 0 /\ pE pre = 0).
Proof.
  intros Hs Hf Hn Hp. unfold one_step, step_body. cbn [snap pE].
  rewrite (post_actions_step_nofail _ _ _ Hf).
  assert (Hne : mstat s <> Errored) by (destruct Hs as [Hs|Hs]; rewrite Hs; discriminate).
  destruct (pre_step_limit i s Hne) as [H0 Ha].
  assert (HE : mE (pre_step i s) = mE s) by (unfold pre_step; destruct (mstat s); reflexivity).
  unfold along_step_act. rewrite Ha. unfold along_step.
  destruct (along_pos i (pre_step i s)) as [_ Hst]. rewrite Hst.
  unfold propagate_apply. rewrite H0. numR.
  unfold Reqb. destruct (Req_EM_T (in_phys_step i) 0) as [Hz|Hz].
  - right. split; [rewrite H0; exact Hz|]. rewrite HE. destruct Hp as [Hp|[_ Hp]]; [lra|exact Hp].
  - left. destruct Hp as [Hp|[Hp _]]; [|lra].
    rb; cbn [mstep with_step]; lra.
Qed.

(** ** volume_changes_only_at_boundary *)
Theorem volume_changes_only_at_boundary fx i (s : simR) :
  let '(pre, _, s1) := one_step fx i s in
  pvol pre <> mvol s1 -> mpost s1 = ABoundary.
Proof.
  unfold one_step, step_body. cbn [snap pvol]. intros Hv.
  set (a := along_step_act i (pre_step i s)) in *.
  assert (Hva : mvol a = mvol (pre_step i s)).
  { subst a. unfold along_step_act. destruct (mstat (pre_step i s)); try reflexivity.
    unfold along_step.
    assert (H1 : forall x, mvol (track_update i x) = mvol x)
      by (intros x; unfold track_update; destruct (mstat x); reflexivity).
    assert (H2 : forall x, mvol (time_update i x) = mvol x)
      by (intros x; unfold time_update; destruct (mstat x); numR; rb; reflexivity).
    rewrite H1. cbn [eloss_act with_slot mvol]. rewrite H2.
    unfold propagate_apply. numR. rb; reflexivity. }
  rewrite <- Hva in Hv. clearbody a. clear Hva.
  unfold post_actions in *.
  set (p1 := discrete_select i a) in *. set (p2 := interact_act fx i p1) in *.
  assert (V1 : mvol p1 = mvol a)
    by (subst p1; unfold discrete_select; destruct (paction_eqb _ _); reflexivity).
  assert (V2 : mvol p2 = mvol p1) by (subst p2; apply interact_act_pos).
  unfold tracking_cut_act, boundary_act in *.
  destruct (paction_eqb (mpost p2) ABoundary) eqn:Eb.
  - assert (Hb : mpost p2 = ABoundary) by (destruct (mpost p2); cbn in Eb; congruence).
    destruct (in_nextvol i); cbn [mpost] in *; rewrite ?Hb in *; cbn; reflexivity.
  - exfalso. apply Hv.
    destruct (paction_eqb (mpost p2) ATrackingCut); cbn [mvol with_slot]; congruence.
Qed.

(** ** step_ge_displacement *)

Lemma distance_axpy (d : R) (u p : vec3 R) :
  0 <= d -> dot u u = 1 -> distance p (axpy d u p) = d.
Proof.
  intros Hd Hu. unfold distance, axpy, dot in *. cbn [vx vy vz] in *. numR.
  replace (0 + (d * vx u + vx p - vx p) * (d * vx u + vx p - vx p)
           + (d * vy u + vy p - vy p) * (d * vy u + vy p - vy p)
           + (d * vz u + vz p - vz p) * (d * vz u + vz p - vz p))
    with (d * d) by (transitivity (d * d * (vz u * vz u + (vy u * vy u + (vx u * vx u + 0))));
                     [rewrite Hu; ring | ring]).
  apply sqrt_square. exact Hd.
Qed.

Lemma distance_self (p : vec3 R) : distance p p = 0.
Proof.
  unfold distance. numR.
  replace (0 + (vx p - vx p) * (vx p - vx p) + (vy p - vy p) * (vy p - vy p)
           + (vz p - vz p) * (vz p - vz p)) with 0 by ring.
  apply sqrt_0.
Qed.

(** without an allocation failure, the reported step length is never shorter
    than (here: equals) the straight-line displacement of the step *)
Theorem step_ge_displacement fx i (s : simR) :
  (mstat s = Initializing \/ mstat s = Alive) ->
  (fx = true \/ iact (in_inter i) <> IFailed) ->
  dot (mdir s) (mdir s) = 1 -> 0 < in_next i -> 0 <= in_phys_step i ->
  let '(pre, _, s1) := one_step fx i s in
  distance (ppos pre) (mpos s1) <= mstep s1.
Proof.
  intros Hs Hf Hu Hn Hp. unfold one_step, step_body. cbn [snap ppos].
  rewrite (post_actions_step_nofail _ _ _ Hf), post_actions_pos.
  assert (Hne : mstat s <> Errored) by (destruct Hs as [Hs|Hs]; rewrite Hs; discriminate).
  destruct (pre_step_limit i s Hne) as [H0 Ha].
  assert (HD : mdir (pre_step i s) = mdir s) by (unfold pre_step; destruct (mstat s); reflexivity).
  unfold along_step_act. rewrite Ha. unfold along_step.
  destruct (along_pos i (pre_step i s)) as [Hpos Hst]. rewrite Hpos, Hst.
  set (s0 := pre_step i s) in *.
  unfold propagate_apply. rewrite H0, HD. numR.
  unfold Reqb. destruct (Req_EM_T (in_phys_step i) 0) as [Hz|Hz].
  - rewrite distance_self. lra.
  - rb; cbn [mpos mstep with_step]; rewrite distance_axpy; try lra; try assumption.
Qed.

(** ** Appliers with scripted helpers *)

(** the linear-propagator instance of PropagationApplier factors through the scripted form *)
Lemma propagate_apply_factored i (s : simR) :
  let boundary := Rleb (in_next i) (mstep s) in
  let dist := if boundary then in_next i else mstep s in
  mstep (propagate_apply i s) = mstep (propagation_result_apply dist boundary s)
  /\ mpost (propagate_apply i s) = mpost (propagation_result_apply dist boundary s).
Proof.
  cbn zeta. unfold propagate_apply, propagation_result_apply. numR.
  unfold Reqb. destruct (Req_EM_T (mstep s) 0); [split; reflexivity|].
  destruct (Rleb_spec (in_next i) (mstep s)); cbn [mstep mpost with_step].
  - split; reflexivity.
  - destruct (Rltb_spec (mstep s) (mstep s)); [lra|]. split; reflexivity.
Qed.

(** a boundary hit ALWAYS hands the track to the boundary action with the travelled
    distance as step length -- also when that distance equals the pre-step limit *)
Theorem propagation_boundary_sets_action d (s : simR) :
  mstep s <> 0 ->
  let s' := propagation_result_apply d true s in
  mpost s' = ABoundary /\ mstep s' = d.
Proof.
  intros Hz. cbn zeta. unfold propagation_result_apply. numR.
  unfold Reqb. destruct (Req_EM_T (mstep s) 0); [contradiction|]. cbn. split; reflexivity.
Qed.

(** without a boundary the step is only ever shortened *)
Theorem propagation_result_step_le d b (s : simR) :
  (b = true -> d <= mstep s) ->
  mstep (propagation_result_apply d b s) <= mstep s.
Proof.
  intros Hb. unfold propagation_result_apply. numR.
  unfold Reqb. destruct (Req_EM_T (mstep s) 0); [lra|].
  destruct b; [cbn; apply Hb; reflexivity|].
  destruct (Rltb_spec d (mstep s)); cbn; lra.
Qed.

(** MSC: on a step for which MSC is not applicable, apply_step is NOT called and the step
    length stays what pre-step chose, whatever the slot's stale msc_step holds; on an
    applicable step it is called and restores that step's own true path *)
Theorem msc_apply_only_after_limit t g (s : simR) (m : mscstep R) :
  (let '(s1, m1) := msc_limit_act false t g s m in
   msc_apply_act s1 m1 = (s, false))
  /\ (mstat s = Alive -> 0 < g ->
      let '(s1, m1) := msc_limit_act true t g s m in
      snd (msc_apply_act s1 m1) = true /\ mstep (fst (msc_apply_act s1 m1)) = t).
Proof.
  split.
  - unfold msc_limit_act, msc_apply_act. cbn [ms_geom]. numR.
    destruct (mstat s); try reflexivity.
    destruct (Rltb_spec 0 0); [lra|reflexivity].
  - intros Ha Hg. unfold msc_limit_act, msc_apply_act. cbn [mstat with_step ms_geom ms_true].
    rewrite Ha. numR. destruct (Rltb_spec 0 g); [|lra]. cbn. split; reflexivity.
Qed.

(** ** calc_physics_step_limit: a stopped particle *)

Lemma calc_limit_stopped mfp xs he es fx np :
  calc_physics_step_limit (T:=R) true mfp xs he es fx np = (0, ADiscrete).
Proof. reflexivity. Qed.

Lemma calc_limit_le_mfp mfp xs he es fx np :
  fst (calc_physics_step_limit (T:=R) false mfp xs he es fx np) <= mfp / xs.
Proof.
  unfold calc_physics_step_limit. numR.
  destruct he; [|destruct np; cbn; lra].
  destruct (Rleb_spec es (mfp / xs)); cbn [andb];
    destruct (Rltb_spec 0 fx); cbn [andb fst];
    try match goal with |- context [Rltb ?a ?b] => destruct (Rltb_spec a b) end; cbn; lra.
Qed.

(** a stopped, live particle whose step limit comes from calc_physics_step_limit takes a
    zero-length step in place (no motion, no time, no loss) that is handed to the DISCRETE
    action: discrete-select runs and the at-rest interaction is the post-step action *)
Theorem stopped_particle_interacts_at_rest fx i (s : simR) mfp xs he es fl np :
  (mstat s = Initializing \/ mstat s = Alive) ->
  mE s = 0 ->
  (in_phys_step i, in_phys_action i) = calc_physics_step_limit true mfp xs he es fl np ->
  let a := along_step_act i (pre_step i s) in
  mstep a = 0 /\ mpost a = ADiscrete /\ mpos a = mpos s /\ mtime a = mtime s /\ mE a = 0
  /\ mstat a = Alive
  /\ mpost (discrete_select i a) = in_select i
  /\ (in_select i = AModel ->
      mpost (interact_act fx i (discrete_select i a)) = AModel
      \/ mpost (interact_act fx i (discrete_select i a)) = AFailure).
Proof.
  intros Hs HE Hl. rewrite calc_limit_stopped in Hl. inversion Hl as [[H1 H2]].
  assert (Hne : mstat s <> Errored) by (destruct Hs as [Hs|Hs]; rewrite Hs; discriminate).
  assert (H0 : pre_step i s =
    mkSim (mtime s) (mpos s) (mdir s) (mvol s) 0 ADiscrete Alive (mnsteps s) 0 (mm s) (manti s) 0 []
          (if Rltb 0 (mmfp s) then mmfp s else in_newmfp i)).
  { unfold pre_step. rewrite H1, H2, HE. destruct Hs as [Hs|Hs]; rewrite Hs; numR; reflexivity. }
  cbn zeta. rewrite H0. unfold along_step_act. cbn [mstat]. unfold along_step.
  set (s0 := mkSim _ _ _ _ _ _ _ _ _ _ _ _ _ _).
  assert (P : propagate_apply i s0 = s0).
  { unfold propagate_apply. subst s0. cbn [mstep]. numR.
    unfold Reqb. destruct (Req_EM_T 0 0); [reflexivity|congruence]. }
  rewrite P.
  assert (Tm : mtime (time_update i s0) = mtime s /\ time_update i s0
               = mkSim (mtime (time_update i s0)) (mpos s) (mdir s) (mvol s) 0 ADiscrete Alive
                       (mnsteps s) 0 (mm s) (manti s) 0 [] (mmfp s0)).
  { unfold time_update. subst s0. cbn [mstat mstep mtime]. numR.
    destruct (Rltb_spec 0 (in_speed i)); cbn; split; try reflexivity.
    unfold Rdiv. rewrite Rmult_0_l, Rplus_0_r. reflexivity. }
  destruct Tm as [Tm1 Tm2]. rewrite Tm2.
  set (s1 := mkSim _ _ _ _ _ _ _ _ _ _ _ _ _ _).
  assert (El : eloss_act i s1 = s1).
  { unfold eloss_act, eloss_apply, with_slot, slot_of, is_stopped. subst s1.
    cbn [mstat mE mm manti mdep mpost msecs strk tE mtime mpos mdir mvol mstep mnsteps mmfp].
    numR. unfold Reqb. destruct (Req_EM_T 0 0); [|congruence].
    rewrite Bool.orb_true_r. cbn. reflexivity. }
  rewrite El. unfold track_update. subst s1. cbn [mstat mpost paction_eqb].
  cbn [mstep mpost mpos mtime mE mstat].
  repeat split; try reflexivity; try exact Tm1; try (symmetry; assumption).
  intros Hsel. unfold discrete_select. cbn [mpost paction_eqb]. unfold interact_act.
  cbn [mpost]. rewrite Hsel. cbn [paction_eqb].
  destruct (interaction_apply _ _ _ _) as [x f] eqn:Ei.
  destruct f.
  - destruct fx; [right; reflexivity|].
    (* old branch: the step is already 0, step_limit({0, failure}) is not limiting *)
    left. unfold step_limit. cbn [mstep]. numR.
    destruct (Rltb_spec 0 0); [lra|]. reflexivity.
  - left. unfold interaction_apply in Ei. cbn [slot_of mpost spost] in Ei.
      destruct (iact (in_inter i)); try (inversion Ei; subst; cbn; reflexivity);
        destruct (if in_apply_post i then _ else _) as [d secs] in Ei;
        inversion Ei; subst; cbn; reflexivity.
Qed.
