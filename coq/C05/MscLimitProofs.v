(** * C05: the MSC true-path limit never exceeds the physics step limit. *)
From Coq Require Import Reals ZArith List Bool Lra.
From Celer Require Import Base.Num Base.NumR Base.Stream C15.Samplers C05.MscLimit.
Import ListNotations.
Local Open Scope R_scope.

Lemma nmax_ge_r (a b : R) : b <= nmax a b.
Proof. unfold nmax. numR. destruct (Rltb_spec a b); lra. Qed.
Lemma nmax_ge_l (a b : R) : a <= nmax a b.
Proof. unfold nmax. numR. destruct (Rltb_spec a b); lra. Qed.

(** for EVERY random stream: whatever is returned is <= the physics limit, and >= the
    smaller of (physics limit, minimum limit) *)
Theorem msc_step_limit_le_physics_limit (max_step limit limit_min : R) (s : list R) r s' :
  limit_min <= limit ->
  msc_true_path_limit max_step limit limit_min s = Some (r, s') ->
  r <= max_step /\ (max_step <= limit -> r = max_step) /\ (limit_min <= max_step -> limit_min <= r).
Proof.
  intros Hmin. unfold msc_true_path_limit. numR.
  destruct (Rleb_spec max_step limit) as [Hle|Hgt].
  - unfold ret. intros Hs. inversion Hs; subst. repeat split; intros; lra.
  - unfold Reqb. destruct (Req_EM_T limit limit_min) as [He|Hne].
    + unfold ret. intros Hs. inversion Hs; subst. repeat split; intros; lra.
    + unfold bind. destruct (normal_step limit _ None s) as [[[x st] s1]|]; [|discriminate].
      unfold ret. intros Hs. inversion Hs; subst. unfold nclamp. numR.
      destruct (Rltb_spec x limit_min); [repeat split; intros; lra|].
      destruct (Rltb_spec max_step x); repeat split; intros; lra.
Qed.

(** the constructors establish the hypothesis [limit_min <= limit] *)
Lemma safety_limit_ge_min (range safety rf ri sf lmin : R) :
  lmin <= safety_limit range safety rf ri sf lmin.
Proof. unfold safety_limit. apply nmax_ge_r. Qed.

Lemma safety_plus_max_step_le usp (phys_step range rho alpha : R) :
  safety_plus_max_step usp phys_step range rho alpha <= phys_step.
Proof.
  unfold safety_plus_max_step. destruct (usp && _)%bool; [|lra].
  unfold nmin. numR. match goal with |- context [Rltb ?a ?b] => destruct (Rltb_spec a b) end; lra.
Qed.

Lemma minimal_limit_ge_min ob (ri rf range mfp lmin : R) :
  lmin <= ri -> lmin <= minimal_limit ob ri rf range mfp lmin.
Proof. intros Hr. unfold minimal_limit. destruct ob; [apply nmax_ge_r|exact Hr]. Qed.

(** composed with the "safety" / "safety plus" constructor: no hypothesis left *)
Theorem msc_safety_step_limit_le_physics_limit usp phys_step range safety rf ri sf lmin rho alpha
        (s : list R) r s' :
  msc_true_path_limit (safety_plus_max_step usp phys_step range rho alpha)
                      (safety_limit range safety rf ri sf lmin) lmin s = Some (r, s') ->
  r <= phys_step.
Proof.
  intros Hs.
  destruct (msc_step_limit_le_physics_limit _ _ _ s r s' (safety_limit_ge_min _ _ _ _ _ _) Hs) as [H1 _].
  pose proof (safety_plus_max_step_le usp phys_step range rho alpha). lra.
Qed.

(** non-vacuity: the collapsed case limit = limit_min with a shorter physics limit returns
    the PHYSICS limit; the sampled branch is reached and clamps *)
Example ex_collapsed : msc_true_path_limit (T:=R) 1 4 4 [] = Some (1, []).
Proof.
  unfold msc_true_path_limit. numR. destruct (Rleb_spec 1 4); [reflexivity|lra].
Qed.
Example ex_min_returned : msc_true_path_limit (T:=R) 9 4 4 [] = Some (4, []).
Proof.
  unfold msc_true_path_limit. numR. destruct (Rleb_spec 9 4); [lra|].
  unfold Reqb. destruct (Req_EM_T 4 4); [reflexivity|lra].
Qed.
