(** * C08: model of [detail::PropagationApplierBaseImpl<MP>::operator()]
    (src/celeritas/global/alongstep/detail/PropagationApplier.hh) and of the
    looping bookkeeping of [SimTrackView] ([update_looping], [is_looping]) over
    [Num].  The propagator made by [make_propagator(track)] is represented by its
    result [p] and [tracks_can_loop()].  Executable definitions only.
    CELERITAS_DEBUG = 0: the CELER_ASSERTs ([p.distance > 0], [p.distance <=
    step] in the boundary branch, the three of the zero-step branch) and the
    whole [#if CELERITAS_DEBUG] block do not exist in this build; they are
    hypotheses of the theorems. *)
From Coq Require Import ZArith List Bool Arith.
From Celer Require Import Base.Num.
Local Open Scope num_scope.

(** the post-step actions the applier distinguishes; [APre c] = whatever the
    pre-step selected (c = the class number used by the harness) *)
Inductive paction := ABoundary | APropLimit | ATrackingCut | APre (c : nat).

Section Applier.
  Context {T : Type} `{Num T}.

  (** geocel/Types.hh [Propagation] *)
  Record propagation := Prop_ { p_dist : T; p_boundary : bool; p_looping : bool }.
  (** SimData.hh [LoopingThreshold] *)
  Record lthreshold := LThr { max_subthreshold_steps : nat; max_steps : nat; threshold_energy : T }.
  (** the part of the sim state the applier reads and writes *)
  Record simst := Sim { s_step : T; s_action : paction; s_nloop : nat }.

  (** SimTrackView::update_looping *)
  Definition update_looping (n : nat) (is_looping : bool) : nat := if is_looping then S n else O.
  (** SimTrackView::is_looping(pid, energy) *)
  Definition is_looping (thr : lthreshold) (n : nat) (energy : T) : bool :=
    if energy <? threshold_energy thr then (max_subthreshold_steps thr <=? n)%nat
    else (max_steps thr <=? n)%nat.

  (** returns the new sim state and the number of propagator calls (0 or 1) *)
  Definition apply_propagation (can_loop : bool) (p : propagation) (stable : bool) (energy : T)
      (thr : lthreshold) (s : simst) : simst * nat :=
    if s_step s =? n0 then (s, O)
    else
      let n := if can_loop then update_looping (s_nloop s) (p_looping p) else s_nloop s in
      if can_loop && p_looping p then
        (Sim (p_dist p)
             (if stable && is_looping thr n energy then ATrackingCut else APropLimit) n, 1%nat)
      else if p_boundary p then (Sim (p_dist p) ABoundary n, 1%nat)
      else if p_dist p <? s_step s then (Sim (p_dist p) APropLimit n, 1%nat)
      else (Sim (s_step s) (s_action s) n, 1%nat).

  (** consecutive along-step applications on one track slot; between them the
      pre-step resets (step limit, action) and the energy may change *)
  Record acall := ACall { a_step : T; a_pre : nat; a_energy : T; a_can_loop : bool; a_p : propagation }.
  Fixpoint apply_many (stable : bool) (thr : lthreshold) (n : nat) (calls : list acall)
      : list (simst * nat) :=
    match calls with
    | nil => nil
    | c :: rest =>
        let r := apply_propagation (a_can_loop c) (a_p c) stable (a_energy c) thr
                   (Sim (a_step c) (APre (a_pre c)) n) in
        r :: apply_many stable thr (s_nloop (fst r)) rest
    end.
End Applier.
Arguments propagation T : clear implicits.
Arguments lthreshold T : clear implicits.
Arguments simst T : clear implicits.
Arguments acall T : clear implicits.
