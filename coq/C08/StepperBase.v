(** * C08: [OdeState] helpers of celeritas/field/Types.hh used by the generated
    stepper models (Generated/C08_steppers.v).  Executable definitions only. *)
From Coq Require Import ZArith List Bool.
From Celer Require Import Base.Num Base.Vec3 C08.PropagatorModel.
Local Open Scope num_scope.

Section StepperBase.
  Context {T : Type} `{Num T}.
  (** [axpy(a, x, &y)] for OdeState: axpy(a, x.pos, &y->pos); axpy(a, x.mom, &y->mom) *)
  Definition oaxpy (a : T) (x y : ode T) : ode T :=
    Ode (axpy a (o_pos x) (o_pos y)) (axpy a (o_mom x) (o_mom y)).
  (** [{{0, 0, 0}, {0, 0, 0}}] *)
  Definition ozero : ode T := Ode (V3 n0 n0 n0) (V3 n0 n0 n0).
End StepperBase.
