(** * C08: model of [RZMapField::operator()] (src/celeritas/field/RZMapField.hh)
    with [UniformGrid::operator[] / find] (corecel/grid/UniformGrid.hh),
    [find_interp] (corecel/grid/FindInterp.hh) and
    [RZMapFieldParamsData::valid / id] over [Num].  Executable definitions only.
    NB the code interpolates B_z linearly in z only (at the lower r node) and
    B_r linearly in r only (at the lower z node). *)
From Coq Require Import ZArith List Bool.
From Celer Require Import Base.Num Base.Vec3.
Local Open Scope num_scope.

Section RZMap.
  Context {T : Type} `{Num T}.

  (** UniformGridData *)
  Record ugrid := UGrid { ug_front : T; ug_back : T; ug_delta : T; ug_size : Z }.
  (** operator[]: front + delta * i *)
  Definition ug_at (g : ugrid) (i : Z) : T := ug_front g + ug_delta g * nofZ i.
  (** find: static_cast<size_type>((value - front) / delta), decremented when it
      is the last grid point *)
  Definition ug_find (g : ugrid) (v : T) : Z :=
    let bin := nfloorZ ((v - ug_front g) / ug_delta g) in
    if (bin + 1 =? ug_size g)%Z then (bin - 1)%Z else bin.
  (** find_interp: (index, fraction) *)
  Definition find_interp (g : ugrid) (v : T) : Z * T :=
    let i := ug_find g v in
    let lo := ug_at g i in
    let hi := ug_at g (i + 1) in
    (i, (v - lo) / (hi - lo)).

  (** the field map: node (iz, ir) -> (value_z, value_r); id = iz * size_r + ir *)
  Variable gz gr : ugrid.
  Variable fmap : Z -> T * T.
  Definition rz_id (iz ir : Z) : Z := (iz * ug_size gr + ir)%Z.
  Definition rz_valid (z r : T) : bool :=
    (ug_front gz <=? z) && (z <=? ug_back gz) && (ug_front gr <=? r) && (r <=? ug_back gr).

  Definition lerp (low high frac : T) : T := low + (high - low) * frac.

  Definition rzmap_field (pos : vec3 T) : vec3 T :=
    let r := nsqrt (vx pos * vx pos + vy pos * vy pos) in
    if negb (rz_valid (vz pos) r) then V3 n0 n0 n0
    else
      let '(ir, fr) := find_interp gr r in
      let '(iz, fz) := find_interp gz (vz pos) in
      let bz := lerp (fst (fmap (rz_id iz ir))) (fst (fmap (rz_id (iz + 1) ir))) fz in
      let low := snd (fmap (rz_id iz ir)) in
      let high := snd (fmap (rz_id iz (ir + 1))) in
      let tmp := if r =? n0 then low else lerp low high fr / r in
      V3 (tmp * vx pos) (tmp * vy pos) bz.
End RZMap.
Arguments ugrid T : clear implicits.
