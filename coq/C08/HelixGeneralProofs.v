(** * C08: what [ZHelixStepper::operator()] computes for a GENERAL start state
    and both helicities, as an exact identity against the closed-form solution
    [ex_*] (HelixProofs.v): the momentum is always the exact one; the x,y
    position is the exact one plus (Rz(theta) - I) applied to the gyration
    centre; z is exact for q*Bz < 0 and runs backwards (defect -2 s u_z) for
    q*Bz > 0.  The stepper is therefore exact iff the gyration centre lies on
    the z axis (or theta is a multiple of 2 pi) and the helicity is positive. *)
From Coq Require Import Reals Lra Lia Psatz.
From Coquelicot Require Import Coquelicot.
From Celer Require Import Base.Num Base.NumR Base.Vec3 C08.PropagatorModel C08.PropagatorProofs
  C08.DriverModel C08.Helix C08.HelixProofs.
Local Open Scope R_scope.

Section General.
  Variables (c bz : R) (beg : ode R).
  Let m := o_mom beg.
  Let p0 := o_pos beg.
  Let P := norm m.
  Let rhs := lorentz_rhs c (V3 0 0 bz) beg.
  Let u := o_pos rhs.
  Let kappa := c * bz / P.
  Hypothesis P_pos : 0 < P.
  Hypothesis perp_pos : 0 < vx m * vx m + vy m * vy m.
  Hypothesis cb_nz : c * bz <> 0.

  Lemma P_sqrt : P = sqrt (vx m * vx m + vy m * vy m + vz m * vz m).
  Proof. unfold P, norm. numR. rewrite dot_R. reflexivity. Qed.

  Lemma u_val : u = V3 (vx m / P) (vy m / P) (vz m / P).
  Proof.
    assert (Hs : 0 < sqrt (dot m m)) by exact P_pos.
    unfold u, rhs, lorentz_rhs, vscale. cbn [o_pos]. fold m. unfold P, norm. numR.
    f_equal; field; lra.
  Qed.

  Lemma rhs_mom_val : o_mom rhs = V3 (kappa * vy m) (- kappa * vx m) 0.
  Proof.
    assert (Hs : 0 < sqrt (dot m m)) by exact P_pos.
    unfold rhs, lorentz_rhs, vscale, cross, kappa. cbn [o_mom vx vy vz]. fold m. unfold P, norm. numR.
    f_equal; field; lra.
  Qed.

  Lemma kappa_nz : kappa <> 0.
  Proof. unfold kappa. intro H. apply cb_nz. apply (Rmult_eq_reg_r (/ P)); [|apply Rinv_neq_0_compat; lra]. unfold Rdiv in H. lra. Qed.

  Lemma radius_val : zhelix_radius beg rhs = / Rabs kappa.
  Proof.
    pose proof kappa_nz as Hk.
    unfold zhelix_radius. fold m. rewrite rhs_mom_val. unfold norm. numR. rewrite !dot_R. cbn [vx vy vz].
    set (q := vx m * vx m + vy m * vy m) in *.
    replace (q + vz m * vz m - vz m * vz m) with q by ring.
    replace (kappa * vy m * (kappa * vy m) + - kappa * vx m * (- kappa * vx m) + 0 * 0)
      with (Rsqr kappa * q) by (unfold q, Rsqr; ring).
    rewrite sqrt_mult; [|apply Rle_0_sqr|lra]. rewrite sqrt_Rsqr_abs.
    assert (0 < sqrt q) by (apply sqrt_lt_R0; lra).
    assert (0 < Rabs kappa) by (apply Rabs_pos_lt; exact Hk).
    field. split; lra.
  Qed.

  (** the helicity flag is the sign of kappa (when it is decidable from the
      code's expression, i.e. mom_y <> 0) *)
  Lemma neg_val : vy m <> 0 -> zhelix_neg rhs = Rltb 0 kappa.
  Proof.
    intro Hy. unfold zhelix_neg. rewrite rhs_mom_val. fold u. rewrite u_val. cbn [vx vy vz]. numR.
    replace (kappa * vy m / (vy m / P)) with (kappa * P) by (field; split; lra).
    destruct (Rltb_spec 0 (kappa * P)) as [H1|H1]; destruct (Rltb_spec 0 kappa) as [H2|H2];
      try reflexivity; exfalso; nra.
  Qed.

  (** the rotation angle is -kappa*s for BOTH helicities *)
  Lemma del_phi_val s : vy m <> 0 ->
    del_phi s (zhelix_radius beg rhs) (zhelix_neg rhs) = - (kappa * s).
  Proof.
    intro Hy. pose proof kappa_nz as Hk. rewrite radius_val, (neg_val Hy). unfold del_phi.
    destruct (Rltb_spec 0 kappa) as [Hp|Hn].
    - rewrite Rabs_right by lra. field. lra.
    - rewrite Rabs_left by lra. field. lra.
  Qed.

  (** gyration centre of the true helix through (p0, u) *)
  Definition gyro_centre : vec3 R := V3 (vx p0 + vy u / kappa) (vy p0 - vx u / kappa) 0.

  Theorem zhelix_step_general s : vy m <> 0 ->
    let e := s_end (zhelix_step c bz s beg) in
    let th := - (kappa * s) in
    vx (o_mom e) = ex_ux kappa u s * P /\
    vy (o_mom e) = ex_uy kappa u s * P /\
    vz (o_mom e) = vz u * P /\
    vx (o_pos e) = ex_x kappa p0 u s + (vx (rotz th gyro_centre) - vx gyro_centre) /\
    vy (o_pos e) = ex_y kappa p0 u s + (vy (rotz th gyro_centre) - vy gyro_centre) /\
    vz (o_pos e) = ex_z p0 u s - (if Rltb 0 kappa then 2 * s * vz u else 0).
  Proof.
    intro Hy. pose proof kappa_nz as Hk. cbv zeta.
    unfold zhelix_step. cbv zeta. cbn [s_end].
    change (lorentz_rhs c (V3 n0 n0 bz) beg) with rhs.
    rewrite zhelix_move_rot. cbv zeta.
    rewrite (del_phi_val s Hy). cbn [o_pos o_mom vx vy vz]. fold u p0 m P.
    rewrite radius_val.
    unfold rotz, gyro_centre, ex_ux, ex_uy, ex_x, ex_y, ex_z. cbn [vx vy vz].
    rewrite cos_neg, sin_neg.
    repeat split; try (field; exact Hk).
    destruct (Rltb_spec 0 kappa) as [Hp|Hn].
    - rewrite Rabs_right by lra. field. lra.
    - rewrite Rabs_left by lra. field. lra.
  Qed.

  (** size of the x,y defect: |(Rz(th) - I) C|^2 = 2 (1 - cos th) |C|^2 *)
  Lemma rot_defect_sq th (C : vec3 R) :
    (vx (rotz th C) - vx C) ^ 2 + (vy (rotz th C) - vy C) ^ 2
    = 2 * (1 - cos th) * (vx C ^ 2 + vy C ^ 2).
  Proof.
    unfold rotz. cbn [vx vy vz]. pose proof (sin2_cos2 th) as H. unfold Rsqr in H.
    replace ((vx C * cos th - vy C * sin th - vx C) ^ 2 + (vx C * sin th + vy C * cos th - vy C) ^ 2)
      with ((vx C ^ 2 + vy C ^ 2) * ((sin th * sin th + cos th * cos th) + 1 - 2 * cos th)) by ring.
    rewrite H. ring.
  Qed.

  (** the stepper's end POSITION is the exact one iff the defect terms vanish *)
  Theorem zhelix_step_exact_iff s : vy m <> 0 ->
    let e := s_end (zhelix_step c bz s beg) in
    (vx (o_pos e) = ex_x kappa p0 u s /\ vy (o_pos e) = ex_y kappa p0 u s /\ vz (o_pos e) = ex_z p0 u s)
    <-> ((cos (kappa * s) = 1 \/ (vx gyro_centre = 0 /\ vy gyro_centre = 0))
         /\ (0 < kappa -> s * vz u = 0)).
  Proof.
    intro Hy. cbv zeta. destruct (zhelix_step_general s Hy) as [_ [_ [_ [Hx [Hyy Hz]]]]]. cbv zeta in *.
    pose proof (rot_defect_sq (- (kappa * s)) gyro_centre) as Hd. rewrite cos_neg in Hd.
    set (dx := vx (rotz (- (kappa * s)) gyro_centre) - vx gyro_centre) in *.
    set (dy := vy (rotz (- (kappa * s)) gyro_centre) - vy gyro_centre) in *.
    rewrite Hx, Hyy, Hz. pose proof (COS_bound (kappa * s)) as [_ Hc1].
    split.
    - intros [E1 [E2 E3]]. assert (Hdx : dx = 0) by lra. assert (Hdy : dy = 0) by lra. split.
      + rewrite Hdx, Hdy in Hd.
        destruct (Req_dec (cos (kappa * s)) 1) as [Hc|Hc]; [left; exact Hc|right].
        assert (Hs : vx gyro_centre ^ 2 + vy gyro_centre ^ 2 = 0).
        { apply (Rmult_eq_reg_l (2 * (1 - cos (kappa * s)))); [|lra]. lra. }
        split; nra.
      + intro Hp. destruct (Rltb_spec 0 kappa); lra.
    - intros [[Hc|[C1 C2]] Hzz].
      + rewrite Hc in Hd. assert (dx = 0 /\ dy = 0) as [-> ->] by (split; nra).
        repeat split; try lra. destruct (Rltb_spec 0 kappa) as [Hp|Hn]; [specialize (Hzz Hp)|]; lra.
      + rewrite C1, C2 in Hd. assert (dx = 0 /\ dy = 0) as [-> ->] by (split; nra).
        repeat split; try lra. destruct (Rltb_spec 0 kappa) as [Hp|Hn]; [specialize (Hzz Hp)|]; lra.
  Qed.
End General.

(** non-vacuity: an off-axis start with negative helicity (q*Bz > 0) *)
Example zhelix_general_hyp_satisfiable :
  exists (c bz : R) (beg : ode R),
    0 < norm (o_mom beg) /\ 0 < vx (o_mom beg) * vx (o_mom beg) + vy (o_mom beg) * vy (o_mom beg)
    /\ c * bz <> 0 /\ vy (o_mom beg) <> 0 /\ 0 < c * bz / norm (o_mom beg).
Proof.
  exists 1, 1, (Ode (V3 3 4 5) (V3 1 1 1)). cbn [o_mom vx vy vz].
  assert (Hn : 0 < norm (V3 1 1 1)).
  { unfold norm. numR. rewrite dot_R. cbn [vx vy vz]. apply sqrt_lt_R0. lra. }
  repeat split; try lra. apply Rmult_lt_0_compat; [lra|apply Rinv_0_lt_compat; exact Hn].
Qed.

(** the precise form of finding F-C08-1: for EVERY start state with q*Bz > 0
    and a direction component along the field, z ends exactly 2 s u_z behind the
    true position; for every start whose gyration centre is off the z axis the
    x,y end point is off the helix by sqrt(2 (1 - cos(kappa s))) |centre| *)
Theorem zhelix_defect_exact (c bz : R) (beg : ode R) (s : R) :
  0 < norm (o_mom beg) -> 0 < vx (o_mom beg) * vx (o_mom beg) + vy (o_mom beg) * vy (o_mom beg) ->
  c * bz <> 0 -> vy (o_mom beg) <> 0 ->
  let kappa := c * bz / norm (o_mom beg) in
  let u := o_pos (lorentz_rhs c (V3 0 0 bz) beg) in
  let e := s_end (zhelix_step c bz s beg) in
  let C := gyro_centre c bz beg in
  (vx (o_pos e) - ex_x kappa (o_pos beg) u s) ^ 2 + (vy (o_pos e) - ex_y kappa (o_pos beg) u s) ^ 2
    = 2 * (1 - cos (kappa * s)) * (vx C ^ 2 + vy C ^ 2)
  /\ (0 < kappa -> vz (o_pos e) - ex_z (o_pos beg) u s = - (2 * s * vz u))
  /\ (kappa < 0 -> vz (o_pos e) = ex_z (o_pos beg) u s).
Proof.
  intros HP Hq Hcb Hy. cbv zeta.
  destruct (zhelix_step_general c bz beg HP Hq Hcb s Hy) as [_ [_ [_ [Hx [Hyy Hz]]]]]. cbv zeta in *.
  rewrite Hx, Hyy, Hz.
  pose proof (rot_defect_sq (- (c * bz / norm (o_mom beg) * s)) (gyro_centre c bz beg)) as Hd.
  rewrite cos_neg in Hd. rewrite <- Hd.
  split; [ring|]. split; intro Hk.
  - destruct (Rltb_spec 0 (c * bz / norm (o_mom beg))); lra.
  - destruct (Rltb_spec 0 (c * bz / norm (o_mom beg))); lra.
Qed.
