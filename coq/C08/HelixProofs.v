(** * C08: proofs about the analytic helix stepper over the reals. *)
From Coq Require Import Reals Lra Lia Psatz.
From Coquelicot Require Import Coquelicot.
From Celer Require Import Base.Num Base.NumR Base.Vec3 C08.PropagatorModel C08.PropagatorProofs
  C08.DriverModel C08.Helix.
Local Open Scope R_scope.

(** rotation about the z axis *)
Definition rotz (phi : R) (v : vec3 R) : vec3 R :=
  V3 (vx v * cos phi - vy v * sin phi) (vx v * sin phi + vy v * cos phi) (vz v).

Lemma rotz_add a b v : rotz (a + b) v = rotz b (rotz a v).
Proof. unfold rotz. cbn [vx vy vz]. rewrite cos_plus, sin_plus. f_equal; ring. Qed.

Lemma rotz_norm phi v : norm (rotz phi v) = norm v.
Proof.
  unfold norm. numR. f_equal. rewrite !dot_R. unfold rotz. cbn [vx vy vz].
  pose proof (sin2_cos2 phi) as H. unfold Rsqr in H. nra.
Qed.

Definition del_phi (step radius : R) (neg : bool) : R :=
  if neg then (- step) / radius else step / radius.

(** [ZHelixStepper::move] is: rotate the position about the ORIGIN's z axis,
    advance z by del_phi*radius*dir_z, rotate the direction, scale by |p| *)
Lemma zhelix_move_rot step radius neg beg rhs :
  zhelix_move step radius neg beg rhs =
  let phi := del_phi step radius neg in
  Ode (V3 (vx (rotz phi (o_pos beg))) (vy (rotz phi (o_pos beg)))
          (vz (o_pos beg) + phi * radius * vz (o_pos rhs)))
      (V3 (vx (rotz phi (o_pos rhs)) * norm (o_mom beg)) (vy (rotz phi (o_pos rhs)) * norm (o_mom beg))
          (vz (o_pos rhs) * norm (o_mom beg))).
Proof. unfold zhelix_move, del_phi, rotz. numR. destruct neg; reflexivity. Qed.

(** ** |p| is conserved exactly by the helix stepper *)
Lemma zhelix_move_momentum step radius neg beg rhs :
  norm (o_pos rhs) = 1 ->
  norm (o_mom (zhelix_move step radius neg beg rhs)) = norm (o_mom beg).
Proof.
  intro Hu. rewrite zhelix_move_rot. cbn zeta. cbn [o_mom].
  set (p := norm (o_mom beg)). set (phi := del_phi step radius neg).
  assert (Hp : 0 <= p) by apply norm_nonneg.
  pose proof (rotz_norm phi (o_pos rhs)) as Hr. rewrite Hu in Hr.
  pose proof (norm_sq (rotz phi (o_pos rhs))) as Hs. rewrite Hr in Hs.
  assert (Hv : vz (rotz phi (o_pos rhs)) = vz (o_pos rhs)) by reflexivity.
  rewrite Hv in Hs.
  set (a := vx (rotz phi (o_pos rhs))) in *. set (b := vy (rotz phi (o_pos rhs))) in *.
  set (c := vz (o_pos rhs)) in *.
  unfold norm. numR. rewrite dot_R. cbn [vx vy vz].
  replace (a * p * (a * p) + b * p * (b * p) + c * p * (c * p)) with (p * p * (a * a + b * b + c * c)) by ring.
  rewrite <- Hs. replace (p * p * (1 * 1)) with (p * p) by ring. apply sqrt_square. exact Hp.
Qed.

Lemma lorentz_rhs_unit coeffi b y :
  0 < norm (o_mom y) -> norm (o_pos (lorentz_rhs coeffi b y)) = 1.
Proof.
  intro Hp. unfold lorentz_rhs. cbn [o_pos].
  pose proof (make_unit_vector_unit _ Hp) as Hu.
  unfold make_unit_vector in Hu. unfold vscale.
  replace (V3 (1 / sqrt (dot (o_mom y) (o_mom y)) * vx (o_mom y))
              (1 / sqrt (dot (o_mom y) (o_mom y)) * vy (o_mom y))
              (1 / sqrt (dot (o_mom y) (o_mom y)) * vz (o_mom y)))%num
    with (V3 (vx (o_mom y) * (n1 / norm (o_mom y))) (vy (o_mom y) * (n1 / norm (o_mom y)))
             (vz (o_mom y) * (n1 / norm (o_mom y))))%num.
  - exact Hu.
  - unfold norm. numR. f_equal; ring.
Qed.

Theorem zhelix_momentum_invariant coeffi bz step beg :
  0 < norm (o_mom beg) ->
  norm (o_mom (s_end (zhelix_step coeffi bz step beg))) = norm (o_mom beg) /\
  norm (o_mom (s_mid (zhelix_step coeffi bz step beg))) = norm (o_mom beg).
Proof.
  intro Hp. unfold zhelix_step. cbn [s_end s_mid].
  split; apply zhelix_move_momentum; apply lorentz_rhs_unit; exact Hp.
Qed.

(** ** composition: two consecutive moves equal one move of the summed length
    (for the radius and helicity of the step; [rhs'] is the right-hand side at
    the intermediate state, whose direction is the rotated direction) *)
Theorem zhelix_move_compose s1 s2 radius neg beg rhs rhs' :
  radius <> 0 -> norm (o_pos rhs) = 1 ->
  o_pos rhs' = V3 (vx (rotz (del_phi s1 radius neg) (o_pos rhs)))
                  (vy (rotz (del_phi s1 radius neg) (o_pos rhs))) (vz (o_pos rhs)) ->
  zhelix_move s2 radius neg (zhelix_move s1 radius neg beg rhs) rhs'
  = zhelix_move (s1 + s2) radius neg beg rhs.
Proof.
  intros Hr Hu Hrhs.
  pose proof (zhelix_move_momentum s1 radius neg beg rhs Hu) as Hm.
  rewrite (zhelix_move_rot s2). cbn zeta. rewrite Hm, Hrhs.
  rewrite (zhelix_move_rot (s1 + s2)). cbn zeta.
  rewrite (zhelix_move_rot s1). cbn zeta. cbn [o_pos o_mom vx vy vz].
  assert (Hphi : del_phi (s1 + s2) radius neg = del_phi s1 radius neg + del_phi s2 radius neg).
  { unfold del_phi. destruct neg; field; exact Hr. }
  rewrite Hphi. set (p1 := del_phi s1 radius neg). set (p2 := del_phi s2 radius neg).
  unfold rotz. cbn [vx vy vz]. rewrite cos_plus, sin_plus.
  f_equal; f_equal; ring.
Qed.

(** ** the analytic solution of  x' = u,  u' = kappa (u_y, -u_x, 0)  (uniform Bz;
    kappa = coeffi * Bz / |p|) in closed form, and the proof that it solves the ODE *)
Section Exact.
  Variables (kappa : R) (p0 u0 : vec3 R).
  Definition ex_ux (s : R) := vx u0 * cos (kappa * s) + vy u0 * sin (kappa * s).
  Definition ex_uy (s : R) := vy u0 * cos (kappa * s) - vx u0 * sin (kappa * s).
  Definition ex_x (s : R) := vx p0 + (vx u0 * sin (kappa * s) + vy u0 * (1 - cos (kappa * s))) / kappa.
  Definition ex_y (s : R) := vy p0 + (vy u0 * sin (kappa * s) - vx u0 * (1 - cos (kappa * s))) / kappa.
  Definition ex_z (s : R) := vz p0 + vz u0 * s.

  Lemma ex_x_derive s : kappa <> 0 -> is_derive ex_x s (ex_ux s).
  Proof. intro Hk. unfold ex_x, ex_ux. auto_derive; [auto|field; exact Hk]. Qed.
  Lemma ex_y_derive s : kappa <> 0 -> is_derive ex_y s (ex_uy s).
  Proof. intro Hk. unfold ex_y, ex_uy. auto_derive; [auto|field; exact Hk]. Qed.
  Lemma ex_z_derive s : is_derive ex_z s (vz u0).
  Proof. unfold ex_z. auto_derive; [auto|ring]. Qed.
  Lemma ex_ux_derive s : is_derive ex_ux s (kappa * ex_uy s).
  Proof. unfold ex_ux, ex_uy. auto_derive; [auto|ring]. Qed.
  Lemma ex_uy_derive s : is_derive ex_uy s (- kappa * ex_ux s).
  Proof. unfold ex_ux, ex_uy. auto_derive; [auto|ring]. Qed.

  Lemma exact_solves_ode : kappa <> 0 -> forall s,
    is_derive ex_x s (ex_ux s) /\ is_derive ex_y s (ex_uy s) /\ is_derive ex_z s (vz u0)
    /\ is_derive ex_ux s (kappa * ex_uy s) /\ is_derive ex_uy s (- kappa * ex_ux s)
    /\ ex_x 0 = vx p0 /\ ex_y 0 = vy p0 /\ ex_z 0 = vz p0 /\ ex_ux 0 = vx u0 /\ ex_uy 0 = vy u0.
  Proof.
    intros Hk s.
    split; [apply ex_x_derive; exact Hk|]. split; [apply ex_y_derive; exact Hk|].
    split; [apply ex_z_derive|]. split; [apply ex_ux_derive|]. split; [apply ex_uy_derive|].
    unfold ex_x, ex_y, ex_z, ex_ux, ex_uy. rewrite !Rmult_0_r, sin_0, cos_0.
    repeat split; try field; try exact Hk.
  Qed.
End Exact.

(** ** helix_endpoint_exact: when the gyration centre is on the z axis and the
    helicity is "positive" (del_phi = step/radius with 1/radius = -kappa), the
    stepper's end position and direction are the analytic solution *)
Theorem zhelix_move_exact kappa step radius beg rhs :
  kappa <> 0 -> radius = - / kappa ->
  vx (o_pos beg) = - vy (o_pos rhs) / kappa -> vy (o_pos beg) = vx (o_pos rhs) / kappa ->
  let e := zhelix_move step radius false beg rhs in
  vx (o_pos e) = ex_x kappa (o_pos beg) (o_pos rhs) step /\
  vy (o_pos e) = ex_y kappa (o_pos beg) (o_pos rhs) step /\
  vz (o_pos e) = ex_z (o_pos beg) (o_pos rhs) step /\
  vx (o_mom e) = ex_ux kappa (o_pos rhs) step * norm (o_mom beg) /\
  vy (o_mom e) = ex_uy kappa (o_pos rhs) step * norm (o_mom beg) /\
  vz (o_mom e) = vz (o_pos rhs) * norm (o_mom beg).
Proof.
  intros Hk Hr Hx Hy. cbn zeta. rewrite zhelix_move_rot. cbn zeta. cbn [o_pos o_mom vx vy vz].
  unfold del_phi, rotz, ex_x, ex_y, ex_z, ex_ux, ex_uy. cbn [vx vy vz].
  assert (Hphi : step / radius = - (kappa * step)) by (rewrite Hr; field; exact Hk).
  rewrite Hphi, cos_neg, sin_neg, Hx, Hy, Hr.
  repeat split; field; exact Hk.
Qed.

(** ** the two unconditional claims are false (findings F-C08-1a/1b, NOTES.md) *)
(** (a) a start whose gyration centre is not on the z axis: from the origin the
    stepper never moves in x,y although the particle travels [step] *)
Theorem zhelix_offaxis_refuted :
  exists (kappa step radius : R) (beg rhs : ode R),
    kappa <> 0 /\ radius = - / kappa /\ norm (o_pos rhs) = 1 /\ 0 < step /\
    vx (o_pos (zhelix_move step radius false beg rhs)) = vx (o_pos beg) /\
    vy (o_pos (zhelix_move step radius false beg rhs)) = vy (o_pos beg) /\
    ex_y kappa (o_pos beg) (o_pos rhs) step <> vy (o_pos beg).
Proof.
  exists (-1), (PI / 2), 1, (Ode (V3 0 0 0) (V3 0 1 0)), (Ode (V3 0 1 0) (V3 0 0 0)).
  repeat split; try lra.
  - unfold norm. numR. rewrite dot_R. cbn [o_pos vx vy vz].
    replace (0 * 0 + 1 * 1 + 0 * 0) with 1 by ring. apply sqrt_1.
  - pose proof PI_RGT_0. lra.
  - rewrite zhelix_move_rot. cbn zeta. cbn [o_pos vx vy vz rotz]. ring.
  - rewrite zhelix_move_rot. cbn zeta. cbn [o_pos vx vy vz rotz]. ring.
  - unfold ex_y. cbn [o_pos vx vy vz].
    replace (-1 * (PI / 2)) with (- (PI / 2)) by ring. rewrite sin_neg, cos_neg, sin_PI2, cos_PI2. lra.
Qed.

(** (b) negative helicity: z moves backwards (del_phi * radius = -step) *)
Theorem zhelix_negative_helicity_z_refuted :
  exists (step radius : R) (beg rhs : ode R),
    0 < radius /\ 0 < step /\ 0 < vz (o_pos rhs) /\
    vz (o_pos (zhelix_move step radius true beg rhs)) < vz (o_pos beg).
Proof.
  exists 1, 1, (Ode (V3 1 0 0) (V3 0 0 1)), (Ode (V3 0 0 1) (V3 0 0 0)).
  repeat split; try lra; cbn [o_pos vz]; try lra.
  rewrite zhelix_move_rot. cbn zeta. cbn [o_pos vz]. unfold del_phi. lra.
Qed.

(** the hypotheses of [zhelix_move_exact] are satisfiable (the configuration of
    the repository's own stepper test: start at (R,0,0) moving along +y) *)
Example helix_exact_hyp_satisfiable :
  exists (kappa radius : R) (beg rhs : ode R),
    kappa <> 0 /\ radius = - / kappa /\ norm (o_pos rhs) = 1 /\
    vx (o_pos beg) = - vy (o_pos rhs) / kappa /\ vy (o_pos beg) = vx (o_pos rhs) / kappa.
Proof.
  exists (-1), 1, (Ode (V3 1 0 0) (V3 0 1 0)), (Ode (V3 0 1 0) (V3 0 0 0)).
  cbn [o_pos vx vy vz]. repeat split; try lra; try (field; lra).
  unfold norm. numR. rewrite dot_R. cbn [vx vy vz].
  replace (0 * 0 + 1 * 1 + 0 * 0) with 1 by ring. apply sqrt_1.
Qed.
