(** * C08: proofs about the numerical integrators (RungeKuttaStepper,
    DormandPrinceStepper, MagFieldEquation) over the reals.  The models are
    Generated/C08_steppers.v (regenerated from the headers) and Steppers.v. *)
From Coq Require Import Reals Lra Lia Psatz List QArith Qreals.
From Celer Require Import Base.Num Base.NumR Base.Vec3 C08.PropagatorModel C08.PropagatorProofs
  C08.DriverModel C08.Helix C08.HelixProofs C08.StepperBase Generated.C08_steppers C08.Steppers.
Import ListNotations.
Local Open Scope R_scope.

(** ** OdeState as a real vector space *)
Definition oadd (x y : ode R) : ode R :=
  Ode (V3 (vx (o_pos x) + vx (o_pos y)) (vy (o_pos x) + vy (o_pos y)) (vz (o_pos x) + vz (o_pos y)))
      (V3 (vx (o_mom x) + vx (o_mom y)) (vy (o_mom x) + vy (o_mom y)) (vz (o_mom x) + vz (o_mom y))).
Definition oscale (a : R) (x : ode R) : ode R :=
  Ode (V3 (a * vx (o_pos x)) (a * vy (o_pos x)) (a * vz (o_pos x)))
      (V3 (a * vx (o_mom x)) (a * vy (o_mom x)) (a * vz (o_mom x))).
Definition osub (x y : ode R) : ode R := oadd x (oscale (-1) y).

Lemma oaxpy_R a x y : oaxpy a x y = oadd y (oscale a x).
Proof. unfold oaxpy, axpy, oadd, oscale. numR. cbn [o_pos o_mom vx vy vz]. f_equal; f_equal; ring. Qed.

(** componentwise equality of two states built with [oadd]/[oscale]/[ozero]
    from atoms: destructs nothing, only projects *)
Lemma ode_ext (x y : ode R) :
  vx (o_pos x) = vx (o_pos y) -> vy (o_pos x) = vy (o_pos y) -> vz (o_pos x) = vz (o_pos y) ->
  vx (o_mom x) = vx (o_mom y) -> vy (o_mom x) = vy (o_mom y) -> vz (o_mom x) = vz (o_mom y) -> x = y.
Proof.
  destruct x as [[a b c] [d e f]], y as [[a' b' c'] [d' e' f']]. cbn. intros; subst; reflexivity.
Qed.

Ltac ode_ring :=
  apply ode_ext; cbv beta iota zeta delta [osub oadd oscale ozero o_pos o_mom vx vy vz]; numR; timeout 60 ring.
Ltac ode_field :=
  apply ode_ext; cbv beta iota zeta delta [osub oadd oscale ozero o_pos o_mom vx vy vz]; numR; timeout 60 (field; lra).

(** the literal constants of the two headers, unfolded to rationals *)
Ltac unfold_tableau :=
  unfold rkd_sixth, rk_fourth_order_correction,
    dp_d71, dp_d73, dp_d74, dp_d75, dp_d76, dp_d77;
  unfold dp_a11, dp_a21, dp_a22, dp_a31, dp_a32, dp_a33, dp_a41, dp_a42, dp_a43, dp_a44,
    dp_a51, dp_a52, dp_a53, dp_a54, dp_a55, dp_a61, dp_a63, dp_a64, dp_a65, dp_a66,
    dp_c71, dp_c73, dp_c74, dp_c75, dp_c76, dp_c77; numR.

(** abstract the innermost right-hand-side evaluations of the goal *)
Ltac abs_rhs rhs :=
  repeat match goal with
  | |- context [rhs ?a] =>
      lazymatch a with
      | context [rhs _] => fail
      | _ => let k := fresh "k" in set (k := rhs a); clearbody k
      end
  end.

(** ** (c) MagFieldEquation: the momentum derivative is orthogonal to the
    momentum for every field value, coefficient and state; the position
    derivative is the unit direction *)
Theorem lorentz_force_orthogonal (coeffi : R) (b : vec3 R) (y : ode R) :
  dot (o_mom (lorentz_rhs coeffi b y)) (o_mom y) = 0.
Proof. rewrite dot_R. unfold lorentz_rhs, vscale, cross. numR. cbn [o_mom vx vy vz]. ring. Qed.

Theorem mfe_force_orthogonal (coeffi : R) (field : vec3 R -> vec3 R) (y : ode R) :
  dot (o_mom (mfe_rhs coeffi field y)) (o_mom y) = 0
  /\ dot (o_mom (mfe_rhs coeffi field y)) (field (o_pos y)) = 0
  /\ (0 < norm (o_mom y) -> norm (o_pos (mfe_rhs coeffi field y)) = 1).
Proof.
  unfold mfe_rhs. split; [apply lorentz_force_orthogonal|]. split.
  - rewrite dot_R. unfold lorentz_rhs, vscale, cross. numR. cbn [o_mom vx vy vz]. ring.
  - apply lorentz_rhs_unit.
Qed.

(** the Lorentz coefficient carries the sign of the charge (and is linear in it) *)
Theorem mfe_coeffi_sign (e_native mevc_native q : R) :
  0 < e_native -> 0 < mevc_native ->
  (0 < q -> 0 < mfe_coeffi e_native mevc_native q) /\
  (q < 0 -> mfe_coeffi e_native mevc_native q < 0) /\
  (q = 0 -> mfe_coeffi e_native mevc_native q = 0) /\
  mfe_coeffi e_native mevc_native (- q) = - mfe_coeffi e_native mevc_native q.
Proof.
  intros He Hm. unfold mfe_coeffi. numR.
  assert (Hi : 0 < / (1 * mevc_native)) by (apply Rinv_0_lt_compat; lra).
  unfold Rdiv. repeat split.
  - intro Hq. apply Rmult_lt_0_compat; [nra|exact Hi].
  - intro Hq. assert (0 < (- q * e_native) * / (1 * mevc_native)) by (apply Rmult_lt_0_compat; [nra|exact Hi]). nra.
  - intro Hq. subst q. ring.
  - ring.
Qed.

(** ** classical RK4: [do_step] is the textbook formula *)
Section Generic.
  Variable rhs : ode R -> ode R.

  Theorem rk_do_step_classical h y k1 :
    let k2 := rhs (oadd y (oscale (h / 2) k1)) in
    let k3 := rhs (oadd y (oscale (h / 2) k2)) in
    let k4 := rhs (oadd y (oscale h k3)) in
    rk_do_step rhs h y k1
    = oadd y (oscale (h / 6) (oadd (oadd k1 (oscale 2 k2)) (oadd (oscale 2 k3) k4))).
  Proof.
    cbv zeta. unfold rk_do_step. cbv zeta. rewrite !oaxpy_R. numR.
    set (k2 := rhs (oadd y (oscale (h / 2) k1))).
    set (k3 := rhs (oadd y (oscale (h / 2) k2))).
    set (k4 := rhs (oadd y (oscale h k3))).
    clearbody k2 k3 k4. unfold_tableau. ode_field.
  Qed.

  (** (d) step doubling: mid = one half step; the error estimate is the
      two-half-steps solution minus the full-step solution, and the returned end
      state is the two-half-steps solution plus 1/15 of that difference *)
  Theorem rk_step_doubling h y :
    let y_half := rk_do_step rhs (h / 2) y (rhs y) in
    let y2 := rk_do_step rhs (h / 2) y_half (rhs y_half) in
    let y1 := rk_do_step rhs h y (rhs y) in
    s_mid (rk_step rhs h y) = y_half /\
    s_err (rk_step rhs h y) = osub y2 y1 /\
    s_end (rk_step rhs h y) = oadd y2 (oscale (/ 15) (osub y2 y1)).
  Proof.
    cbv zeta. unfold rk_step. cbv zeta. cbn [s_mid s_end s_err]. rewrite !oaxpy_R. numR.
    split; [reflexivity|]. split; [reflexivity|].
    unfold rk_fourth_order_correction. numR. f_equal. f_equal. lra.
  Qed.

  (** ** (b) a right-hand side that is constant along the line through the
      start state: every stepper returns the exact straight-line end and mid
      states and a zero error estimate.  [Q] is any invariant of the line. *)
  Section ConstantRhs.
    Variable Q : ode R -> Prop.
    Variable k : ode R.
    Hypothesis rhs_const : forall y, Q y -> rhs y = k.
    Hypothesis Q_line : forall a y, Q y -> Q (oadd y (oscale a k)).

    Ltac rhs_to_k :=
      repeat match goal with
      | |- context [rhs ?a] =>
          lazymatch a with
          | context [rhs _] => fail
          | _ => rewrite (rhs_const a) by (repeat apply Q_line; assumption)
          end
      end.

    Lemma rk_do_step_const h y : Q y -> rk_do_step rhs h y k = oadd y (oscale h k).
    Proof.
      intro Hy. unfold rk_do_step. cbv zeta. rewrite !oaxpy_R. numR. rhs_to_k.
      unfold_tableau. ode_field.
    Qed.

    Theorem rk_step_const h y : Q y ->
      s_mid (rk_step rhs h y) = oadd y (oscale (h / 2) k) /\
      s_end (rk_step rhs h y) = oadd y (oscale h k) /\
      s_err (rk_step rhs h y) = ozero.
    Proof.
      intro Hy. destruct (rk_step_doubling h y) as [Hm [He Hn]]. cbv zeta in *.
      rewrite Hm, He, Hn. rewrite (rhs_const y Hy).
      rewrite (rk_do_step_const (h / 2) y Hy).
      rewrite (rhs_const _ (Q_line (h / 2) y Hy)).
      rewrite (rk_do_step_const (h / 2) _ (Q_line (h / 2) y Hy)).
      rewrite (rk_do_step_const h y Hy).
      repeat split; ode_field.
    Qed.

    Theorem dp_step_const h y : Q y ->
      s_mid (dp_step rhs h y) = oadd y (oscale (h / 2) k) /\
      s_end (dp_step rhs h y) = oadd y (oscale h k) /\
      s_err (dp_step rhs h y) = ozero.
    Proof.
      intro Hy. unfold dp_step. cbv zeta. cbn [s_mid s_end s_err]. rewrite !oaxpy_R. numR.
      rhs_to_k. unfold_tableau. repeat split; ode_field.
    Qed.
  End ConstantRhs.
End Generic.

(** zero curvature for the Lorentz equation: zero field along the line or a
    neutral particle (coefficient 0) *)
Theorem mag_steppers_straight_line (coeffi : R) (field : vec3 R -> vec3 R) (h : R) (y : ode R) :
  (coeffi = 0 \/ forall p, field p = V3 0 0 0) ->
  let k := Ode (vscale (1 / norm (o_mom y)) (o_mom y)) (V3 0 0 0) in
  (s_mid (rk4_mag coeffi field h y) = oadd y (oscale (h / 2) k) /\
   s_end (rk4_mag coeffi field h y) = oadd y (oscale h k) /\
   s_err (rk4_mag coeffi field h y) = ozero) /\
  (s_mid (dp_mag coeffi field h y) = oadd y (oscale (h / 2) k) /\
   s_end (dp_mag coeffi field h y) = oadd y (oscale h k) /\
   s_err (dp_mag coeffi field h y) = ozero).
Proof.
  intros Hz k.
  set (Q := fun z : ode R => o_mom z = o_mom y).
  assert (Hc : forall z, Q z -> mfe_rhs coeffi field z = k).
  { intros z Hq. unfold Q in Hq. unfold mfe_rhs, lorentz_rhs, k. rewrite Hq.
    unfold norm. numR. f_equal.
    destruct Hz as [Hz|Hz]; [subst coeffi|rewrite Hz]; unfold vscale, cross; numR; cbn [vx vy vz];
      f_equal; ring. }
  assert (Hl : forall a z, Q z -> Q (oadd z (oscale a k))).
  { intros a z Hq. unfold Q in *. unfold oadd, oscale, k. cbn [o_mom vx vy vz]. rewrite Hq.
    destruct (o_mom y) as [a1 a2 a3]. cbn [vx vy vz]. f_equal; ring. }
  assert (Hy : Q y) by reflexivity.
  split; [apply (rk_step_const _ Q k Hc Hl h y Hy)|apply (dp_step_const _ Q k Hc Hl h y Hy)].
Qed.

(** ** (a) the Butcher tableau of DormandPrinceStepper, built from the literal
    constants of the header: rows [a_ij], 5th-order weights [b] (= the row that
    forms end_state), embedded 4th-order weights [bhat = b - d7], mid-point
    weights [w = c7 / 2] (Shampine) *)
Definition dpA : list (list R) :=
  [ [0; 0; 0; 0; 0; 0; 0];
    [dp_a11; 0; 0; 0; 0; 0; 0];
    [dp_a21; dp_a22; 0; 0; 0; 0; 0];
    [dp_a31; dp_a32; dp_a33; 0; 0; 0; 0];
    [dp_a41; dp_a42; dp_a43; dp_a44; 0; 0; 0];
    [dp_a51; dp_a52; dp_a53; dp_a54; dp_a55; 0; 0];
    [dp_a61; 0; dp_a63; dp_a64; dp_a65; dp_a66; 0] ].
Definition dpb : list R := [dp_a61; 0; dp_a63; dp_a64; dp_a65; dp_a66; 0].
Definition dpd : list R := [dp_d71; 0; dp_d73; dp_d74; dp_d75; dp_d76; dp_d77].
Definition dpbhat : list R := map (fun bd => fst bd - snd bd) (combine dpb dpd).
Definition dpw : list R := map (fun c => c / 2) [dp_c71; 0; dp_c73; dp_c74; dp_c75; dp_c76; dp_c77].

Definition lsum (l : list R) : R := fold_right Rplus 0 l.
Definition ldot (u v : list R) : R := lsum (map (fun p => fst p * snd p) (combine u v)).
Definition lmul (u v : list R) : list R := map (fun p => fst p * snd p) (combine u v).
Definition mvec (A : list (list R)) (v : list R) : list R := map (fun row => ldot row v) A.
(** nodes c_i = sum_j a_ij *)
Definition nodes (A : list (list R)) : list R := map lsum A.

(** the rooted-tree order conditions of an explicit Runge-Kutta method with
    matrix [A] and weights [b], for end point theta (theta = 1: the step;
    theta = 1/2: the dense-output mid point), order by order *)
Definition order1 (A : list (list R)) (b : list R) (th : R) : Prop := lsum b = th.
Definition order2 A b th : Prop := let c := nodes A in ldot b c = th ^ 2 / 2.
Definition order3 A b th : Prop :=
  let c := nodes A in ldot b (lmul c c) = th ^ 3 / 3 /\ ldot b (mvec A c) = th ^ 3 / 6.
Definition order4 A b th : Prop :=
  let c := nodes A in
  ldot b (lmul c (lmul c c)) = th ^ 4 / 4 /\ ldot b (lmul c (mvec A c)) = th ^ 4 / 8 /\
  ldot b (mvec A (lmul c c)) = th ^ 4 / 12 /\ ldot b (mvec A (mvec A c)) = th ^ 4 / 24.
Definition order5 A b th : Prop :=
  let c := nodes A in
  ldot b (lmul (lmul c c) (lmul c c)) = th ^ 5 / 5 /\
  ldot b (lmul (lmul c c) (mvec A c)) = th ^ 5 / 10 /\
  ldot b (lmul c (mvec A (lmul c c))) = th ^ 5 / 15 /\
  ldot b (lmul c (mvec A (mvec A c))) = th ^ 5 / 30 /\
  ldot b (lmul (mvec A c) (mvec A c)) = th ^ 5 / 20 /\
  ldot b (mvec A (lmul c (lmul c c))) = th ^ 5 / 20 /\
  ldot b (mvec A (lmul c (mvec A c))) = th ^ 5 / 40 /\
  ldot b (mvec A (mvec A (lmul c c))) = th ^ 5 / 60 /\
  ldot b (mvec A (mvec A (mvec A c))) = th ^ 5 / 120.

Lemma list7_eq {A : Type} (a1 a2 a3 a4 a5 a6 a7 b1 b2 b3 b4 b5 b6 b7 : A) :
  a1 = b1 -> a2 = b2 -> a3 = b3 -> a4 = b4 -> a5 = b5 -> a6 = b6 -> a7 = b7 ->
  [a1; a2; a3; a4; a5; a6; a7] = [b1; b2; b3; b4; b5; b6; b7].
Proof. intros; subst; reflexivity. Qed.

(** *** the arithmetic is done in [Q] by computation and transported by [Q2R] *)
Definition lsumQ (l : list Q) : Q := fold_right (fun a acc => Qred (a + acc)%Q) 0%Q l.
Definition ldotQ (u v : list Q) : Q := lsumQ (map (fun p => Qred (fst p * snd p)%Q) (combine u v)).
Definition lmulQ (u v : list Q) : list Q := map (fun p => Qred (fst p * snd p)%Q) (combine u v).
Definition mvecQ (A : list (list Q)) (v : list Q) : list Q := map (fun row => ldotQ row v) A.
Definition nodesQ (A : list (list Q)) : list Q := map lsumQ A.
Definition qr (l : list Q) : list R := map Q2R l.

Lemma Q2R_red x : Q2R (Qred x) = Q2R x.
Proof. apply Qeq_eqR. apply Qred_correct. Qed.
Lemma lsum_qr l : lsum (qr l) = Q2R (lsumQ l).
Proof.
  induction l as [|a l IH]; cbn [qr map lsum lsumQ fold_right].
  - unfold Q2R. cbn. lra.
  - rewrite Q2R_red, Q2R_plus. f_equal. exact IH.
Qed.
Lemma lmul_qr u : forall v, lmul (qr u) (qr v) = qr (lmulQ u v).
Proof.
  induction u as [|a u IH]; intros [|b v]; cbn [qr map lmul lmulQ combine]; try reflexivity.
  cbn [fst snd]. rewrite Q2R_red, Q2R_mult. f_equal. apply IH.
Qed.
Lemma ldot_qr u v : ldot (qr u) (qr v) = Q2R (ldotQ u v).
Proof.
  unfold ldot, ldotQ. change (map (fun p : R * R => fst p * snd p) (combine (qr u) (qr v))) with (lmul (qr u) (qr v)).
  rewrite lmul_qr. unfold lmulQ. apply lsum_qr.
Qed.
Lemma mvec_qr A v : mvec (map qr A) (qr v) = qr (mvecQ A v).
Proof.
  induction A as [|row A IH]; cbn [map mvec mvecQ qr]; [reflexivity|].
  f_equal; [apply ldot_qr|exact IH].
Qed.
Lemma nodes_qr A : nodes (map qr A) = qr (nodesQ A).
Proof.
  induction A as [|row A IH]; cbn [map nodes nodesQ qr]; [reflexivity|].
  f_equal; [apply lsum_qr|exact IH].
Qed.

(** the tableau as rationals (a certificate: it must agree with the constants
    regenerated from the header, see [dpA_Q] etc.) *)
Local Open Scope Q_scope.
Definition dpAQ : list (list Q) :=
  [ [0; 0; 0; 0; 0; 0; 0];
    [2 # 10; 0; 0; 0; 0; 0; 0];
    [75 # 1000; 225 # 1000; 0; 0; 0; 0; 0];
    [44 # 45; -56 # 15; 32 # 9; 0; 0; 0; 0];
    [19372 # 6561; -25360 # 2187; 64448 # 6561; -212 # 729; 0; 0; 0];
    [9017 # 3168; -355 # 33; 46732 # 5247; 49 # 176; -5103 # 18656; 0; 0];
    [35 # 384; 0; 500 # 1113; 125 # 192; -2187 # 6784; 11 # 84; 0] ].
Definition dpbQ : list Q := [35 # 384; 0; 500 # 1113; 125 # 192; -2187 # 6784; 11 # 84; 0].
Definition dpdQ : list Q :=
  [(35 # 384) - (5179 # 57600); 0; (500 # 1113) - (7571 # 16695); (125 # 192) - (393 # 640);
   (-2187 # 6784) + (92097 # 339200); (11 # 84) - (187 # 2100); -1 # 40].
Definition dpbhatQ : list Q := map (fun bd => fst bd - snd bd) (combine dpbQ dpdQ).
Definition dpwQ : list Q :=
  map (fun c => c * (1 # 2)) [6025192743 # 30085553152; 0; 51252292925 # 65400821598; -2691868925 # 45128329728;
                        187940372067 # 1594534317056; -1776094331 # 19743644256; 11237099 # 235043384].
Local Close Scope Q_scope.

Ltac q2r_entry :=
  rewrite ?Q2R_minus, ?Q2R_plus, ?Q2R_mult;
  unfold Q2R; cbn [Qnum Qden]; timeout 30 (field || lra).

Lemma dpA_Q : dpA = map qr dpAQ.
Proof.
  unfold dpA, dpAQ. cbn [map qr]. unfold_tableau.
  apply list7_eq; apply list7_eq; q2r_entry.
Qed.
Lemma dpb_Q : dpb = qr dpbQ.
Proof. unfold dpb, dpbQ. cbn [map qr]. unfold_tableau. apply list7_eq; q2r_entry. Qed.
Lemma dpd_Q : dpd = qr dpdQ.
Proof. unfold dpd, dpdQ. cbn [map qr]. unfold_tableau. apply list7_eq; q2r_entry. Qed.
Lemma dpbhat_Q : dpbhat = qr dpbhatQ.
Proof.
  unfold dpbhat, dpbhatQ. rewrite dpb_Q, dpd_Q. unfold dpbQ, dpdQ. cbn [map qr combine fst snd].
  apply list7_eq; rewrite ?Q2R_minus, ?Q2R_plus; reflexivity.
Qed.
Lemma dpw_Q : dpw = qr dpwQ.
Proof. unfold dpw, dpwQ. cbn [map qr]. unfold_tableau. apply list7_eq; q2r_entry. Qed.

(** [Q2R x = r] for a closed rational [x] and a closed rational real [r] *)
Ltac q_eval :=
  match goal with
  | |- Q2R ?x = _ =>
      let y := eval vm_compute in (Qred x) in
      transitivity (Q2R y);
      [apply Qeq_eqR; vm_compute; reflexivity
      |unfold Q2R; cbn [Qnum Qden pow]; timeout 60 (field || lra)]
  end.
Ltac tableau_arith :=
  unfold order1, order2, order3, order4, order5; cbv zeta;
  rewrite ?dpbhat_Q, ?dpw_Q, ?dpb_Q, ?dpd_Q, ?dpA_Q;
  rewrite ?nodes_qr; repeat rewrite ?lmul_qr, ?mvec_qr; rewrite ?ldot_qr, ?lsum_qr;
  repeat split; q_eval.

(** each row sums to its node: c = (0, 1/5, 3/10, 4/5, 8/9, 1, 1) *)
Theorem dp_row_sums : nodes dpA = [0; 1 / 5; 3 / 10; 4 / 5; 8 / 9; 1; 1].
Proof.
  rewrite dpA_Q, nodes_qr. unfold nodesQ, dpAQ. cbn [map qr]. apply list7_eq; q_eval.
Qed.

(** the 5th-order solution (end_state) satisfies all 17 order conditions up to order 5 *)
Theorem dp_order5 :
  order1 dpA dpb 1 /\ order2 dpA dpb 1 /\ order3 dpA dpb 1 /\ order4 dpA dpb 1 /\ order5 dpA dpb 1.
Proof. tableau_arith. Qed.

(** the error weights sum to zero, and the embedded solution end_state - err_state
    (weights bhat = b - d7) satisfies the 8 order conditions up to order 4 *)
Theorem dp_error_weights : lsum dpd = 0.
Proof. tableau_arith. Qed.

Theorem dp_embedded_order4 :
  order1 dpA dpbhat 1 /\ order2 dpA dpbhat 1 /\ order3 dpA dpbhat 1 /\ order4 dpA dpbhat 1.
Proof. tableau_arith. Qed.

(** the mid point (weights c7/2) is a 4th-order dense output at theta = 1/2
    up to order 3 exactly; Shampine's order-4 conditions hold for three of the
    four trees exactly *)
Theorem dp_midpoint_order3 :
  order1 dpA dpw (1 / 2) /\ order2 dpA dpw (1 / 2) /\ order3 dpA dpw (1 / 2).
Proof. tableau_arith. Qed.

(** ** the generated [dp_step] IS the explicit Runge-Kutta scheme of that
    tableau: stage i evaluates the right-hand side at y + h sum_j a_ij k_j, the
    end state uses the weights [dpb], the error estimate the weights [dpd]
    (from the zero state) and the mid point the weights [dpw] *)
Definition lincomb (h : R) (cs : list R) (ks : list (ode R)) (y : ode R) : ode R :=
  fold_left (fun acc ck => oadd acc (oscale (fst ck * h) (snd ck))) (combine cs ks) y.
Fixpoint erk_stages (rhs : ode R -> ode R) (h : R) (y : ode R) (rows : list (list R))
    (ks : list (ode R)) : list (ode R) :=
  match rows with
  | [] => ks
  | row :: rest => erk_stages rhs h y rest (ks ++ [rhs (lincomb h row ks y)])
  end.

Ltac abs_rhs_once rhs :=
  match goal with
  | |- context [rhs ?a] =>
      lazymatch a with
      | context [rhs _] => fail
      | _ => let k := fresh "k" in set (k := rhs a); clearbody k
      end
  end.

Theorem dp_step_is_tableau (rhs : ode R -> ode R) (h : R) (y : ode R) :
  let ks := erk_stages rhs h y dpA [] in
  length ks = 7%nat /\
  s_end (dp_step rhs h y) = lincomb h dpb ks y /\
  s_err (dp_step rhs h y) = lincomb h dpd ks ozero /\
  s_mid (dp_step rhs h y) = lincomb h dpw ks y.
Proof.
  cbv zeta. unfold dp_step. cbv zeta. cbn [s_mid s_end s_err]. rewrite !oaxpy_R. numR.
  unfold dpA, dpb, dpd, dpw.
  cbn [erk_stages lincomb app combine fold_left fst snd map length].
  do 6 abs_rhs_once rhs.
  (* the seventh stage: the tableau row has an explicit zero for k2 *)
  match goal with
  | |- context [rhs (oadd (oadd (oadd (oadd (oadd (oadd y ?t1) ?t2) ?t3) ?t4) ?t5) ?t6)] =>
      replace (rhs (oadd (oadd (oadd (oadd (oadd (oadd y t1) t2) t3) t4) t5) t6))
        with (rhs (oadd (oadd (oadd (oadd (oadd y t1) t3) t4) t5) t6))
        by (f_equal; ode_ring)
  end.
  abs_rhs_once rhs.
  split; [reflexivity|]. repeat split; ode_field.
Qed.

(** non-vacuity: the hypotheses of the constant-right-hand-side theorems hold
    for a constant function with the trivial invariant *)
Example const_rhs_satisfiable :
  exists (rhs : ode R -> ode R) (Q : ode R -> Prop) (k y : ode R),
    (forall z, Q z -> rhs z = k) /\ (forall a z, Q z -> Q (oadd z (oscale a k))) /\ Q y.
Proof.
  exists (fun _ => Ode (V3 1 0 0) (V3 0 0 0)), (fun _ => True), (Ode (V3 1 0 0) (V3 0 0 0)), ozero.
  repeat split.
Qed.
