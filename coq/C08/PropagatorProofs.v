(** * C08: proofs about the propagator model over the reals. *)
From Coq Require Import Reals Lra Lia List Bool ZArith Psatz.
From Celer Require Import Base.Num Base.NumR Base.Vec3 C08.PropagatorModel.
Import ListNotations.
Local Open Scope R_scope.

(** ** Small facts about the real instance *)
Lemma dot_R (a b : vec3 R) : dot a b = vx a * vx b + vy a * vy b + vz a * vz b.
Proof. unfold dot, nfma. numR. ring. Qed.

Lemma norm_sq (a : vec3 R) : norm a * norm a = vx a * vx a + vy a * vy a + vz a * vz a.
Proof.
  unfold norm. numR. rewrite sqrt_sqrt. apply dot_R.
  rewrite dot_R. nra.
Qed.

Lemma norm_nonneg (a : vec3 R) : 0 <= norm a.
Proof. unfold norm. numR. apply sqrt_pos. Qed.

Lemma nfmin_R (a b : R) : nfmin a b = Rmin a b.
Proof.
  unfold nfmin. numR. unfold Rmin, Reqb.
  destruct (Rltb_spec a b); destruct (Rltb_spec b a); destruct (Rle_dec a b);
    destruct (Req_EM_T a a); try lra; try reflexivity.
Qed.

Lemma make_unit_vector_unit (v : vec3 R) : 0 < norm v -> norm (make_unit_vector v) = 1.
Proof.
  intro Hp. pose proof (norm_sq v) as Hs.
  assert (Hn : norm (make_unit_vector v) * norm (make_unit_vector v) = 1).
  { rewrite norm_sq. unfold make_unit_vector. cbn [vx vy vz]. numR.
    set (n := norm v) in *.
    replace (vx v * (1 / n) * (vx v * (1 / n)) + vy v * (1 / n) * (vy v * (1 / n)) +
             vz v * (1 / n) * (vz v * (1 / n)))
      with ((vx v * vx v + vy v * vy v + vz v * vz v) * (/ n * / n)) by (field; lra).
    rewrite <- Hs. field. lra. }
  pose proof (norm_nonneg (make_unit_vector v)). nra.
Qed.

(** [is_intercept_close] from the chord start, along the chord direction,
    to the chord end: the squared distance is exactly (dist - chord)^2 *)
Lemma intercept_close_spec (p q : vec3 R) (dist tol : R) :
  0 < c_len (make_chord p q) -> 0 <= tol ->
  is_intercept_close p (c_dir (make_chord p q)) dist q tol = true
  <-> Rabs (dist - c_len (make_chord p q)) <= tol.
Proof.
  intros Hc Ht. unfold is_intercept_close, make_chord in *. cbn [c_len c_dir vx vy vz] in *.
  set (a := vsub q p) in *. set (l := norm a) in *.
  pose proof (norm_sq a) as Hs. fold l in Hs.
  unfold a, vsub in Hs. cbn [vx vy vz] in Hs. numR.
  assert (E : 0 + (vx p - vx q + dist * (vx a / l)) * (vx p - vx q + dist * (vx a / l))
                + (vy p - vy q + dist * (vy a / l)) * (vy p - vy q + dist * (vy a / l))
                + (vz p - vz q + dist * (vz a / l)) * (vz p - vz q + dist * (vz a / l))
              = (dist - l) * (dist - l)).
  { unfold a, vsub. cbn [vx vy vz]. numR.
    set (ax := vx q - vx p) in *. set (ay := vy q - vy p) in *. set (az := vz q - vz p) in *.
    replace (vx p - vx q) with (- ax) by (unfold ax; ring).
    replace (vy p - vy q) with (- ay) by (unfold ay; ring).
    replace (vz p - vz q) with (- az) by (unfold az; ring).
    transitivity ((ax * ax + ay * ay + az * az) * ((dist / l - 1) * (dist / l - 1))).
    - field. lra.
    - rewrite <- Hs. field. lra. }
  rewrite E. split; intro Hx.
  - apply Rleb_true in Hx. apply Rsqr_le_abs_0 in Hx. rewrite (Rabs_pos_eq tol) in Hx by lra. exact Hx.
  - apply Rleb_true. apply Rsqr_le_abs_1. rewrite (Rabs_pos_eq tol) by lra. exact Hx.
Qed.

Section Proofs.
  Variables D G : Type.
  Variable advance : D -> R -> ode R -> D * dres R.
  Variable g_pos : G -> vec3 R.
  Variable g_on_boundary : G -> bool.
  Variable g_set_dir : G -> vec3 R -> G.
  Variable g_find_next : G -> R -> G * lin R.
  Variable g_move_internal : G -> vec3 R -> G.
  Variable g_move_to_boundary : G -> G.
  Variable o : popts R.
  Variable step : R.

  (** FieldDriverOptions validity + CELER_EXPECT(step > 0) *)
  Hypothesis step_pos : 0 < step.
  Hypothesis minsub_pos : 0 < minsub o.
  Hypothesis dint_gt : minsub o < dint o.
  Hypothesis maxsub_pos : (0 < max_substeps o)%nat.

  (** driver contract: CELER_ASSERT(substep.step > 0 && substep.step <= remaining);
      the chord of a curve is not longer than the curve; the end point differs
      from the start (the chord == 0 escape of the code is covered by the float
      replay only) *)
  Hypothesis advance_contract : forall d rem st, 0 < rem ->
    let sub := snd (advance d rem st) in
    0 < d_step sub <= rem /\
    0 < c_len (make_chord (o_pos st) (o_pos (d_state sub))) <= d_step sub.
  (** geometry contract (OrangeTrackView::find_next_step: 0 when re-entrant on a
      boundary, otherwise positive; never beyond the search limit) *)
  Hypothesis find_next_contract : forall g lim, 0 < lim ->
    let l := snd (g_find_next g lim) in
    0 <= l_dist l <= lim /\ (g_on_boundary g = false -> 0 < l_dist l).
  (** the driver never returns a zero momentum (steppers rotate it) *)
  Hypothesis advance_mom : forall d rem st, 0 < norm (o_mom (d_state (snd (advance d rem st)))).
  Hypothesis onb_set_dir : forall g d, g_on_boundary (g_set_dir g d) = g_on_boundary g.
  Hypothesis onb_find_next : forall g lim, g_on_boundary (fst (g_find_next g lim)) = g_on_boundary g.
  Hypothesis onb_move_internal : forall g p, g_on_boundary (g_move_internal g p) = false.
  Hypothesis onb_move_to_boundary : forall g, g_on_boundary (g_move_to_boundary g) = true.

  Notation lstate := (lstate (T:=R) D G).
  Notation body := (body D G advance g_set_dir g_find_next g_move_internal o step).
  Notation loop := (loop D G advance g_set_dir g_find_next g_move_internal o step).
  Notation tail := (tail D G g_pos g_set_dir g_move_internal g_move_to_boundary o step).
  Notation propagate := (propagate D G advance g_pos g_on_boundary g_set_dir g_find_next
                           g_move_internal g_move_to_boundary o step).
  Notation continue := (continue D G o).

  Definition head_is (s : lstate) (b : branch) : Prop :=
    match ls_trace s with x :: _ => x = b | [] => False end.

  (** loop invariant; [g0] is the geometry state at entry *)
  Record Inv (g0 : G) (s : lstate) : Prop := {
    i_dist : 0 <= ls_dist s;
    i_rem : 0 <= ls_rem s;
    i_sum : ls_dist s + ls_rem s <= step;
    i_onb : ~ head_is s (BFinish true) -> ls_bnd s = g_on_boundary (ls_g s);
    i_fin : head_is s (BFinish true) -> ls_bnd s = true /\ 0 < ls_dist s /\ ls_rem s = 0;
    i_bnd0 : ~ head_is s (BFinish true) -> ls_bnd s = true ->
             ls_dist s = 0 /\ g_on_boundary g0 = true;
    i_nsub : ls_nsub s = 0%nat -> head_is s BAccept;
    i_acc : head_is s BAccept -> ls_bnd s = false /\ 0 < ls_dist s /\
            exists g', ls_g s = g_move_internal g' (o_pos (ls_st s));
    i_fin0 : head_is s (BFinish false) -> ls_bnd s = false /\ 0 < ls_dist s /\ ls_rem s = 0 /\
            exists g', ls_g s = g_move_internal g' (o_pos (ls_st s));
    i_retry : head_is s BRetry -> minsub o < ls_rem s /\ (0 < ls_nsub s)%nat;
    i_halve : head_is s BHalve -> ls_bnd s = true;
    i_nil : ls_trace s = [] -> ls_dist s = 0 /\ (0 < ls_nsub s)%nat /\ ls_g s = g0
  }.

  Lemma init_inv d g st :
    Inv g (init_state D G g_on_boundary o step d g st).
  Proof.
    unfold init_state. constructor; cbn [ls_dist ls_rem ls_bnd ls_g ls_nsub ls_trace ls_st head_is];
      numR; try lra; try tauto; try (intros; lia); auto.
  Qed.

  (** effect of one iteration, by branch *)
  Definition step_effect (s s' : lstate) : Prop :=
    (head_is s' BAccept /\ ls_nsub s' = pred (ls_nsub s) /\ ls_bnd s' = false /\ ls_rem s' <= step)
    \/ (head_is s' BHalve /\ ls_nsub s' = ls_nsub s /\ ls_bnd s = true /\ ls_bnd s' = true
        /\ ls_rem s' <= ls_rem s / 2)
    \/ ((head_is s' (BFinish true) \/ head_is s' (BFinish false)) /\ ls_rem s' = 0)
    \/ (head_is s' BRetry /\ ls_nsub s' = ls_nsub s /\ ls_bnd s' = ls_bnd s
        /\ ls_rem s' <= ls_rem s - dint o).

  Lemma bump_pos : 0 < bump_distance o.
  Proof. unfold bump_distance. numR. lra. Qed.

  Lemma body_spec g0 (s : lstate) :
    Inv g0 s -> 0 < ls_rem s -> (0 < ls_nsub s)%nat ->
    ~ head_is s (BFinish true) ->
    Inv g0 (body s) /\ step_effect s (body s).
  Proof.
    intros I Hrem Hn Hnf.
    pose proof bump_pos as Hbump.
    unfold body.
    pose proof (advance_contract (ls_d s) (ls_rem s) (ls_st s) Hrem) as Ha.
    destruct (advance (ls_d s) (ls_rem s) (ls_st s)) as [d1 sub] eqn:Eadv.
    cbn [snd] in Ha. destruct Ha as [[Hs0 Hs1] [Hc0 Hc1]].
    set (ch := make_chord (o_pos (ls_st s)) (o_pos (d_state sub))) in *.
    set (g1 := if (minsub o <=? c_len ch)%num then g_set_dir (ls_g s) (c_dir ch) else ls_g s).
    assert (Hg1 : g_on_boundary g1 = g_on_boundary (ls_g s)).
    { unfold g1. destruct (minsub o <=? c_len ch)%num; [apply onb_set_dir|reflexivity]. }
    assert (Hlim : 0 < c_len ch + dint o) by lra.
    pose proof (find_next_contract g1 (c_len ch + dint o) Hlim) as Hf.
    pose proof (onb_find_next g1 (c_len ch + dint o)) as Hg2.
    numR.
    destruct (g_find_next g1 (c_len ch + dint o)) as [g2 l] eqn:Efn.
    cbn [snd fst] in Hf, Hg2. destruct Hf as [[Hl0 Hl1] Hlpos].
    rewrite Hg1 in Hg2, Hlpos.
    pose proof (i_onb _ _ I Hnf) as Honb.
    set (upd := d_step sub * l_dist l / c_len ch).
    assert (Hupd0 : 0 <= upd).
    { unfold upd. apply Rmult_le_pos; [nra|]. left. apply Rinv_0_lt_compat. lra. }
    pose proof (i_dist _ _ I) as Id. pose proof (i_sum _ _ I) as Is. pose proof (i_rem _ _ I) as Ir.
    pose proof (i_bnd0 _ _ I Hnf) as Ib0.
    destruct (l_boundary l) eqn:Elb; cbn [negb].
    2:{ (* accept *)
      split.
      - constructor; cbn [ls_dist ls_rem ls_bnd ls_g ls_nsub ls_trace ls_st head_is]; intros;
          first [ discriminate | lra | lia | reflexivity | congruence
                | (symmetry; apply onb_move_internal)
                | (split; [reflexivity|split; [lra|eexists; reflexivity]]) ].
      - left. cbn [ls_dist ls_rem ls_bnd ls_g ls_nsub ls_trace ls_st head_is].
        repeat split; auto; lra. }
    destruct (ls_bnd s && Rltb (l_dist l) (bump_distance o)) eqn:Eh.
    { (* halve *)
      apply andb_true_iff in Eh. destruct Eh as [Eb _].
      split.
      - constructor; cbn [ls_dist ls_rem ls_bnd ls_g ls_nsub ls_trace ls_st head_is]; intros;
          first [ discriminate | lra | lia | reflexivity | congruence | tauto ].
      - right; left. cbn [ls_dist ls_rem ls_bnd ls_g ls_nsub ls_trace ls_st head_is].
        repeat split; auto; lra. }
    (* past the halving test: the intercept distance is positive *)
    assert (Hlp : 0 < l_dist l).
    { destruct (ls_bnd s) eqn:Eb.
      - cbn [andb] in Eh. apply Rltb_false in Eh. lra.
      - apply Hlpos. rewrite <- Honb. reflexivity. }
    assert (Hupdp : 0 < upd).
    { unfold upd. apply Rmult_lt_0_compat; [nra|]. apply Rinv_0_lt_compat. lra. }
    destruct ((Rleb upd (minsub o)
               || is_intercept_close (o_pos (ls_st s)) (c_dir ch) (l_dist l) (o_pos (d_state sub)) (dint o)
               || Reqb (c_len ch) 0)%bool) eqn:Ef.
    { (* finish *)
      rewrite nfmin_R.
      assert (Hm0 : 0 < Rmin upd (d_step sub)) by (apply Rmin_glb_lt; lra).
      assert (Hm1 : Rmin upd (d_step sub) <= d_step sub) by apply Rmin_r.
      destruct ((Rleb (l_dist l) (c_len ch) || Rleb (ls_dist s + upd) step || Reqb (c_len ch) 0)%bool) eqn:Ebnd.
      + split.
        * constructor; cbn [ls_dist ls_rem ls_bnd ls_g ls_nsub ls_trace ls_st head_is o_pos o_mom]; intros;
            first [ discriminate | lra | lia | reflexivity | congruence | tauto
                  | (split; [reflexivity|split; [lra|reflexivity]]) ].
        * right; right; left. cbn [ls_dist ls_rem ls_bnd ls_g ls_nsub ls_trace ls_st head_is].
          split; [left|]; reflexivity.
      + split.
        * constructor; cbn [ls_dist ls_rem ls_bnd ls_g ls_nsub ls_trace ls_st head_is o_pos o_mom]; intros;
            first [ discriminate | lra | lia | reflexivity | congruence
                  | (symmetry; apply onb_move_internal)
                  | (split; [reflexivity|split; [lra|split; [reflexivity|eexists; reflexivity]]]) ].
        * right; right; left. cbn [ls_dist ls_rem ls_bnd ls_g ls_nsub ls_trace ls_st head_is].
          split; [right|]; reflexivity. }
    (* retry *)
    apply orb_false_iff in Ef. destruct Ef as [Ef _].
    apply orb_false_iff in Ef. destruct Ef as [Eu Ec].
    apply Rleb_false in Eu.
    assert (Hfar : l_dist l < c_len ch - dint o).
    { destruct (Rle_dec (Rabs (l_dist l - c_len ch)) (dint o)) as [Hle|Hgt].
      - apply (proj2 (intercept_close_spec (o_pos (ls_st s)) (o_pos (d_state sub)) (l_dist l) (dint o) Hc0
                        ltac:(lra))) in Hle.
        fold ch in Hle. rewrite Hle in Ec. discriminate Ec.
      - apply Rnot_le_lt in Hgt. unfold Rabs in Hgt. destruct (Rcase_abs (l_dist l - c_len ch)); lra. }
    assert (Hupd1 : upd <= d_step sub - dint o).
    { unfold upd.
      assert (d_step sub * l_dist l / c_len ch <= d_step sub * (c_len ch - dint o) / c_len ch).
      { unfold Rdiv. apply Rmult_le_compat_r; [left; apply Rinv_0_lt_compat; lra|]. nra. }
      assert (d_step sub * (c_len ch - dint o) / c_len ch = d_step sub - dint o * (d_step sub / c_len ch))
        by (field; lra).
      assert (1 <= d_step sub / c_len ch).
      { apply (Rmult_le_reg_r (c_len ch)); [lra|]. unfold Rdiv. rewrite Rmult_assoc, Rinv_l by lra. lra. }
      nra. }
    split.
    - constructor; cbn [ls_dist ls_rem ls_bnd ls_g ls_nsub ls_trace ls_st head_is]; intros;
        first [ discriminate | lra | lia | reflexivity | congruence | tauto
              | (split; [lra|lia]) ].
    - right; right; right. cbn [ls_dist ls_rem ls_bnd ls_g ls_nsub ls_trace ls_st head_is].
      repeat split; auto; lra.
  Qed.

  (** ** The loop preserves the invariant and exits in a non-continuing state *)
  Lemma continue_true (s : lstate) :
    continue s = true -> minsub o < ls_rem s /\ (0 < ls_nsub s)%nat.
  Proof.
    unfold continue. numR. intro Hc. apply andb_true_iff in Hc. destruct Hc as [Ha Hb].
    apply Rltb_true in Ha. apply Nat.ltb_lt in Hb. split; assumption.
  Qed.

  Lemma loop_exit g0 : forall fuel (s s' : lstate),
    Inv g0 s -> 0 < ls_rem s -> (0 < ls_nsub s)%nat -> ~ head_is s (BFinish true) ->
    loop fuel s = Some s' ->
    Inv g0 s' /\ continue s' = false /\ ls_trace s' <> [].
  Proof.
    induction fuel as [|f IH]; intros s s' I Hr Hn Hf Hl; [discriminate Hl|].
    cbn [PropagatorModel.loop] in Hl.
    destruct (body_spec g0 s I Hr Hn Hf) as [I' Eff].
    destruct (continue (body s)) eqn:Ec.
    - apply continue_true in Ec. destruct Ec as [Ec1 Ec2].
      apply (IH (body s) s' I'); try assumption; try lra.
      intro Hx. pose proof (i_fin _ _ I' Hx) as [_ [_ Hz]]. lra.
    - injection Hl as <-. split; [exact I'|]. split; [exact Ec|].
      unfold PropagatorModel.body.
      destruct (advance _ _ _) as [d1 sub]. destruct (g_find_next _ _) as [g2 l].
      destruct (negb (l_boundary l)); [discriminate|].
      destruct (_ && _)%bool; [discriminate|].
      destruct (_ || _ || _)%bool; discriminate.
  Qed.

  (** what the caller can rely on; [g0] = geometry state at entry *)
  Definition post (g0 : G) (r : presult (T:=R) D G) : Prop :=
    0 < r_distance r <= step
    /\ (r_looping r = true <-> (r_nsub r = 0%nat /\ r_loopdist r < step))
    /\ r_boundary r = g_on_boundary (r_g r)
    /\ norm (r_dir r) = 1
    /\ match r_outcome r with
       | OLooping => r_looping r = true /\ r_boundary r = false
                     /\ r_distance r = r_loopdist r /\ r_distance r < step
                     /\ exists g', r_g r = g_set_dir (g_move_internal g' (o_pos (r_state r))) (r_dir r)
       | OFullStep => r_looping r = false /\ r_boundary r = false /\ r_distance r = step
                     /\ exists g', r_g r = g_set_dir (g_move_internal g' (o_pos (r_state r))) (r_dir r)
       | OBoundary => r_looping r = false /\ r_boundary r = true
                     /\ exists g', r_g r = g_set_dir (g_move_to_boundary g') (r_dir r)
                                   /\ o_pos (r_state r) = g_pos (g_move_to_boundary g')
       | OBumped => r_looping r = false /\ r_boundary r = false
                     /\ r_distance r = Rmin (bump_distance o) step
                     /\ g_on_boundary g0 = true /\ r_loopdist r = 0
                     /\ exists g', r_g r = g_move_internal g' (o_pos (r_state r))
       end.

  Lemma tail_spec g0 (s : lstate) :
    Inv g0 s -> continue s = false -> ls_trace s <> [] ->
    0 < norm (o_mom (ls_st s)) ->
    post g0 (tail s).
  Proof.
    intros I Hc Hne Hmom.
    pose proof bump_pos as Hbump.
    pose proof (i_dist _ _ I) as Id. pose proof (i_sum _ _ I) as Is. pose proof (i_rem _ _ I) as Ir.
    pose proof (make_unit_vector_unit _ Hmom) as Hunit.
    assert (Hloop : forall (n : nat) (d : R),
               ((n =? 0)%nat && Rltb d step = true) <-> (n = 0%nat /\ d < step)).
    { intros n d. rewrite andb_true_iff, Nat.eqb_eq, Rltb_true. tauto. }
    unfold post, PropagatorModel.tail. numR.
    destruct (ls_trace s) as [|b tr] eqn:Et; [congruence|].
    assert (Hhead : forall x, head_is s x <-> b = x).
    { intro x. unfold head_is. rewrite Et. tauto. }
    destruct b as [| |crossed|]; [| |destruct crossed|].
    - (* last iteration accepted a substep *)
      destruct (i_acc _ _ I (proj2 (Hhead _) eq_refl)) as [Hb [Hd [g' Hg]]].
      rewrite Hb. cbn [andb negb].
      destruct (Rltb_spec 0 (ls_dist s)); [|lra]. cbn [andb negb].
      destruct (Nat.eqb_spec (ls_nsub s) 0); destruct (Rltb_spec (ls_dist s) step); cbn [andb negb];
        unfold Reqb;
        repeat match goal with |- context [Req_EM_T ?a ?b] => destruct (Req_EM_T a b); try lra end;
        cbn [r_distance r_boundary r_looping r_state r_dir r_g r_nsub r_loopdist r_outcome o_pos];
        rewrite ?onb_set_dir, ?Hg, ?onb_move_internal, ?Hloop;
        repeat split; try lra; try tauto; try lia; try (intros; discriminate); try reflexivity;
        try (eexists; reflexivity); try (intros [? ?]; lra); try (intros [? ?]; lia).
    - (* halved down to the minimum substep: nothing moved *)
      pose proof (i_halve _ _ I (proj2 (Hhead _) eq_refl)) as Hb.
      assert (Hnf : ~ head_is s (BFinish true)) by (rewrite Hhead; discriminate).
      destruct (i_bnd0 _ _ I Hnf Hb) as [Hd0 Hg0].
      assert (Hns : ls_nsub s <> 0%nat).
      { intro Hz. apply (i_nsub _ _ I) in Hz. apply Hhead in Hz. discriminate Hz. }
      rewrite Hb, Hd0. cbn [andb negb].
      destruct (Nat.eqb_spec (ls_nsub s) 0); [contradiction|]. cbn [andb negb].
      destruct (Rltb_spec 0 0); [lra|]. cbn [andb negb].
      unfold Reqb. destruct (Req_EM_T 0 0); [|lra].
      rewrite nfmin_R.
      cbn [r_distance r_boundary r_looping r_state r_dir r_g r_nsub r_loopdist r_outcome o_pos].
      rewrite ?onb_move_internal, ?Hloop.
      assert (0 < Rmin (bump_distance o) step) by (apply Rmin_glb_lt; lra).
      assert (Rmin (bump_distance o) step <= step) by apply Rmin_r.
      repeat split; try lra; try tauto; try lia; try (intros; discriminate); try reflexivity;
        try (eexists; reflexivity); try (intros [? ?]; lia).
    - (* finished on the boundary *)
      destruct (i_fin _ _ I (proj2 (Hhead _) eq_refl)) as [Hb [Hd Hr]].
      assert (Hns : ls_nsub s <> 0%nat).
      { intro Hz. apply (i_nsub _ _ I) in Hz. apply Hhead in Hz. discriminate Hz. }
      rewrite Hb. cbn [andb negb].
      destruct (Nat.eqb_spec (ls_nsub s) 0); [contradiction|]. cbn [andb negb].
      destruct (Rltb_spec 0 (ls_dist s)); [|lra]. cbn [andb negb].
      unfold Reqb. destruct (Req_EM_T (ls_dist s) 0); [lra|].
      cbn [r_distance r_boundary r_looping r_state r_dir r_g r_nsub r_loopdist r_outcome o_pos].
      rewrite ?onb_set_dir, ?onb_move_to_boundary, ?Hloop.
      repeat split; try lra; try tauto; try lia; try (intros; discriminate); try reflexivity;
        try (intros [? ?]; lia).
      eexists. split; reflexivity.
    - (* finished inside (intercept beyond the end of the step) *)
      destruct (i_fin0 _ _ I (proj2 (Hhead _) eq_refl)) as [Hb [Hd [Hr [g' Hg]]]].
      assert (Hns : ls_nsub s <> 0%nat).
      { intro Hz. apply (i_nsub _ _ I) in Hz. apply Hhead in Hz. discriminate Hz. }
      rewrite Hb. cbn [andb negb].
      destruct (Nat.eqb_spec (ls_nsub s) 0); [contradiction|]. cbn [andb negb].
      destruct (Rltb_spec 0 (ls_dist s)); [|lra]. cbn [andb negb].
      destruct (Rltb_spec (ls_dist s) step); cbn [andb negb];
        unfold Reqb;
        repeat match goal with |- context [Req_EM_T ?a ?b] => destruct (Req_EM_T a b); try lra end;
        cbn [r_distance r_boundary r_looping r_state r_dir r_g r_nsub r_loopdist r_outcome o_pos];
        rewrite ?onb_set_dir, ?Hg, ?onb_move_internal, ?Hloop;
        repeat split; try lra; try tauto; try lia; try (intros; discriminate); try reflexivity;
        try (eexists; reflexivity); try (intros [? ?]; lia).
    - (* a retry never ends the loop *)
      destruct (i_retry _ _ I (proj2 (Hhead _) eq_refl)) as [Hr Hn].
      unfold PropagatorModel.continue in Hc. numR.
      apply andb_false_iff in Hc. destruct Hc as [Hc|Hc].
      + apply Rltb_false in Hc. lra.
      + apply Nat.ltb_ge in Hc. lia.
  Qed.

  Lemma body_mom (s : lstate) :
    0 < norm (o_mom (ls_st s)) -> 0 < norm (o_mom (ls_st (body s))).
  Proof.
    intro Hm. unfold PropagatorModel.body.
    pose proof (advance_mom (ls_d s) (ls_rem s) (ls_st s)) as Ha.
    destruct (advance _ _ _) as [d1 sub]. cbn [snd] in Ha.
    destruct (g_find_next _ _) as [g2 l].
    destruct (negb _); [exact Ha|]. destruct (_ && _)%bool; [exact Hm|].
    destruct (_ || _ || _)%bool; [exact Ha|exact Hm].
  Qed.

  Lemma loop_mom : forall fuel (s s' : lstate),
    0 < norm (o_mom (ls_st s)) -> loop fuel s = Some s' -> 0 < norm (o_mom (ls_st s')).
  Proof.
    induction fuel as [|f IH]; intros s s' Hm Hl; [discriminate Hl|].
    cbn [PropagatorModel.loop] in Hl. apply body_mom in Hm.
    destruct (continue (body s)); [exact (IH _ _ Hm Hl)|]. injection Hl as <-. exact Hm.
  Qed.

  (** ** propagate_post *)
  Theorem propagate_post_R fuel d g st r :
    0 < norm (o_mom st) ->
    propagate fuel d g st = Some r -> post g r.
  Proof.
    intros Hm Hp. unfold PropagatorModel.propagate in Hp.
    destruct (loop fuel _) as [s|] eqn:El; [|discriminate Hp]. injection Hp as <-.
    pose proof (init_inv d g st) as I0.
    assert (Hm' : 0 < norm (o_mom (ls_st s))) by (apply (loop_mom fuel (init_state D G g_on_boundary o step d g st) s); [exact Hm|exact El]).
    apply (loop_exit g) in El; try exact I0.
    - destruct El as [I [Hc Hne]]. apply tail_spec; assumption.
    - cbn [init_state ls_rem]. exact step_pos.
    - cbn [init_state ls_nsub]. exact maxsub_pos.
    - unfold head_is. cbn [init_state ls_trace]. tauto.
  Qed.

  (** ** propagate_terminates: accepted substeps are bounded by the budget;
      between two accepts every retry shortens the trial step by at least
      delta_intersection (the intercept is not within delta_intersection of the
      chord end, and a chord is not longer than its arc); halving happens only
      before the first accept and halves the trial step *)
  Lemma loop_terminates g0 (K : nat) : step <= INR K * dint o ->
    forall fuel (s : lstate) (j h : nat),
      Inv g0 s -> 0 < ls_rem s -> (0 < ls_nsub s)%nat -> ~ head_is s (BFinish true) ->
      ls_rem s <= INR j * dint o ->
      (ls_bnd s = true -> ls_rem s <= minsub o * 2 ^ h) ->
      (ls_nsub s * (K + 1) + j + (if ls_bnd s then h else 0) < fuel)%nat ->
      loop fuel s <> None.
  Proof.
    intros HK. induction fuel as [|f IH]; intros s j h I Hr Hn Hf Hj Hh Hfuel; [lia|].
    cbn [PropagatorModel.loop].
    destruct (body_spec g0 s I Hr Hn Hf) as [I' Eff].
    destruct (continue (body s)) eqn:Ec; [|discriminate].
    apply continue_true in Ec. destruct Ec as [Ec1 Ec2].
    assert (Hf' : ~ head_is (body s) (BFinish true)).
    { intro Hx. pose proof (i_fin _ _ I' Hx) as [_ [_ Hz]]. lra. }
    destruct Eff as [[_ [En [Eb Er]]] | [[_ [En [Eb [Eb' Er]]]] | [[_ Er] | [_ [En [Eb Er]]]]]].
    - (* accept *)
      apply (IH (body s) K 0%nat I'); try assumption; try lra.
      + rewrite Eb. discriminate.
      + rewrite Eb, En. destruct (ls_nsub s) as [|n]; [lia|]. cbn [pred].
        destruct (ls_bnd s); nia.
    - (* halve *)
      destruct h as [|h'].
      + specialize (Hh Eb). cbn [pow] in Hh. lra.
      + apply (IH (body s) j h' I'); try assumption; try lra.
        * intros _. specialize (Hh Eb). cbn [pow] in Hh. lra.
        * rewrite Eb', En. rewrite Eb in Hfuel. lia.
    - lra.
    - (* retry *)
      destruct j as [|j'].
      + cbn [INR] in Hj. lra.
      + apply (IH (body s) j' h I'); try assumption; try lra.
        * rewrite S_INR in Hj. lra.
        * intro Hb. rewrite Eb in Hb. specialize (Hh Hb). lra.
        * rewrite Eb, En. lia.
  Qed.

  Theorem propagate_terminates_R (K H : nat) fuel d g st :
    step <= INR K * dint o -> step <= minsub o * 2 ^ H ->
    (max_substeps o * (K + 1) + K + H < fuel)%nat ->
    propagate fuel d g st <> None.
  Proof.
    intros HK HH Hfuel. unfold PropagatorModel.propagate.
    pose proof (init_inv d g st) as I0.
    assert (Hl : loop fuel (init_state D G g_on_boundary o step d g st) <> None).
    { apply (loop_terminates g K HK fuel _ K H I0).
      - exact step_pos.
      - exact maxsub_pos.
      - unfold head_is. cbn [init_state ls_trace]. tauto.
      - exact HK.
      - intros _. exact HH.
      - cbn [init_state ls_nsub ls_bnd]. destruct (g_on_boundary g); lia. }
    destruct (loop fuel _); [discriminate|contradiction].
  Qed.
End Proofs.

(** ** The hypotheses of the propagator theorems, bundled: option validity
    (FieldDriverOptions::operator bool, CELER_EXPECT(step > 0)), the driver's
    contract and the geometry's contract *)
Definition prop_contracts (D G : Type) (advance : D -> R -> ode R -> D * dres R)
    (g_on_boundary : G -> bool) (g_set_dir : G -> vec3 R -> G)
    (g_find_next : G -> R -> G * lin R) (g_move_internal : G -> vec3 R -> G)
    (g_move_to_boundary : G -> G) (o : popts R) (step : R) : Prop :=
  0 < step /\ 0 < minsub o /\ minsub o < dint o /\ (0 < max_substeps o)%nat
  /\ (forall d rem st, 0 < rem ->
        let sub := snd (advance d rem st) in
        0 < d_step sub <= rem /\
        0 < c_len (make_chord (o_pos st) (o_pos (d_state sub))) <= d_step sub)
  /\ (forall d rem st, 0 < norm (o_mom (d_state (snd (advance d rem st)))))
  /\ (forall g lim, 0 < lim ->
        let l := snd (g_find_next g lim) in
        0 <= l_dist l <= lim /\ (g_on_boundary g = false -> 0 < l_dist l))
  /\ (forall g d, g_on_boundary (g_set_dir g d) = g_on_boundary g)
  /\ (forall g lim, g_on_boundary (fst (g_find_next g lim)) = g_on_boundary g)
  /\ (forall g p, g_on_boundary (g_move_internal g p) = false)
  /\ (forall g, g_on_boundary (g_move_to_boundary g) = true).

Theorem propagate_post D G advance g_pos g_on_boundary g_set_dir g_find_next g_move_internal
    g_move_to_boundary o step :
  prop_contracts D G advance g_on_boundary g_set_dir g_find_next g_move_internal g_move_to_boundary o step ->
  forall fuel d g st r, 0 < norm (o_mom st) ->
    propagate D G advance g_pos g_on_boundary g_set_dir g_find_next g_move_internal
      g_move_to_boundary o step fuel d g st = Some r ->
    post D G g_pos g_on_boundary g_set_dir g_move_internal g_move_to_boundary o step g r.
Proof.
  intros (H1 & H2 & H3 & H4 & H5 & H6 & H7 & H8 & H9 & H10 & H11).
  apply propagate_post_R; assumption.
Qed.

Theorem propagate_terminates D G advance g_pos g_on_boundary g_set_dir g_find_next g_move_internal
    g_move_to_boundary o step :
  prop_contracts D G advance g_on_boundary g_set_dir g_find_next g_move_internal g_move_to_boundary o step ->
  forall (K H fuel : nat) d g st,
    step <= INR K * dint o -> step <= minsub o * 2 ^ H ->
    (max_substeps o * (K + 1) + K + H < fuel)%nat ->
    propagate D G advance g_pos g_on_boundary g_set_dir g_find_next g_move_internal
      g_move_to_boundary o step fuel d g st <> None.
Proof.
  intros (H1 & H2 & H3 & H4 & H5 & H6 & H7 & H8 & H9 & H10 & H11).
  apply propagate_terminates_R; assumption.
Qed.

(** the only thing written about the momentum is a unit direction computed
    from the ODE state's momentum; the particle (energy, |p|) is not an output
    of the propagator at all *)
Lemma propagate_dir D G advance g_pos g_on_boundary g_set_dir g_find_next g_move_internal
    g_move_to_boundary o step fuel d g st (r : presult (T:=R) D G) :
  propagate D G advance g_pos g_on_boundary g_set_dir g_find_next g_move_internal
    g_move_to_boundary o step fuel d g st = Some r ->
  r_dir r = make_unit_vector (o_mom (r_state r)) /\
  exists g', r_g r = g_set_dir g' (r_dir r) \/ r_g r = g_move_internal (g_set_dir g' (r_dir r)) (o_pos (r_state r)).
Proof.
  unfold propagate. destruct (loop _ _ _ _ _ _ _ _ _ _) as [s|]; [|discriminate].
  intros [= <-]. unfold tail.
  destruct (_ =? _)%num; cbn [r_dir r_state r_g o_mom o_pos]; (split; [reflexivity|]);
    eexists; [right|left]; reflexivity.
Qed.

(** ** The hypotheses are satisfiable: a straight-line driver in an empty world *)
Definition w_advance (d : unit) (rem : R) (st : ode R) : unit * dres R :=
  (tt, DRes (Ode (V3 (vx (o_pos st) + rem) (vy (o_pos st)) (vz (o_pos st))) (V3 1 0 0)) rem).
Definition w_find_next (g : bool) (lim : R) : bool * lin R := (g, Lin lim false).

Example prop_contracts_satisfiable :
  prop_contracts unit bool w_advance (fun g => g) (fun g _ => g) w_find_next
    (fun _ _ => false) (fun _ => true) (POpts 1 2 1) 1.
Proof.
  unfold prop_contracts. cbn [minsub dint max_substeps].
  assert (Hch : forall (st : ode R) rem, 0 < rem ->
            c_len (make_chord (o_pos st)
                     (V3 (vx (o_pos st) + rem) (vy (o_pos st)) (vz (o_pos st)))) = rem).
  { intros st rem Hr. unfold make_chord, vsub. cbn [c_len vx vy vz]. unfold norm. numR.
    rewrite dot_R. cbn [vx vy vz].
    replace ((vx (o_pos st) + rem - vx (o_pos st)) * (vx (o_pos st) + rem - vx (o_pos st)) +
             (vy (o_pos st) - vy (o_pos st)) * (vy (o_pos st) - vy (o_pos st)) +
             (vz (o_pos st) - vz (o_pos st)) * (vz (o_pos st) - vz (o_pos st))) with (rem * rem) by ring.
    apply sqrt_square. lra. }
  assert (Hn : norm (V3 1 0 0 : vec3 R) = 1).
  { unfold norm. numR. rewrite dot_R. cbn [vx vy vz].
    replace (1 * 1 + 0 * 0 + 0 * 0) with 1 by ring. apply sqrt_1. }
  repeat split; try lra; try lia; try reflexivity;
    cbn [w_advance w_find_next snd fst d_step d_state o_pos o_mom l_dist];
    rewrite ?Hch by assumption; rewrite ?Hn; try lra; intros; lra.
Qed.
