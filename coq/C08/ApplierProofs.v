(** * C08: post-conditions of PropagationApplier over the reals. *)
From Coq Require Import Reals Lra Lia List Bool Arith.
From Celer Require Import Base.Num Base.NumR C08.ApplierModel.
Import ListNotations.
Local Open Scope R_scope.

(** the propagator's own post-condition as proved for FieldPropagator
    ([C08_propagate_post]): 0 < distance <= step, a looping result is not on a
    boundary, and the flag is the geometry's on-boundary state [onb] (the applier
    does not touch the geometry) *)
Definition propagator_post (step : R) (p : propagation R) (onb : bool) : Prop :=
  0 < p_dist p <= step /\ (p_looping p = true -> p_boundary p = false) /\ p_boundary p = onb.

Section ApplierProofs.
  Variables (can_loop stable : bool) (energy : R) (thr : lthreshold R).

  Notation apply_ := (apply_propagation can_loop).

  (** a stopped track (step length 0) is left alone and the propagator is not called *)
  Theorem apply_stopped p s : s_step s = 0 -> apply_ p stable energy thr s = (s, 0%nat).
  Proof.
    intro Hs. unfold apply_propagation. numR. unfold Reqb. rewrite Hs.
    destruct (Req_EM_T 0 0) as [_|Hn]; [reflexivity|congruence].
  Qed.

  Theorem apply_post p s onb :
    0 < s_step s -> propagator_post (s_step s) p onb ->
    let s' := fst (apply_ p stable energy thr s) in
    snd (apply_ p stable energy thr s) = 1%nat
    (* the step never increases and stays positive; it is the travelled distance
       whenever the propagation was cut short *)
    /\ 0 < s_step s' <= s_step s
    /\ s_step s' = p_dist p
    (* boundary <-> boundary action (given the pre-step did not select it), and
       then the geometry is on the boundary *)
    /\ (p_boundary p = true -> s_action s' = ABoundary /\ onb = true)
    /\ (s_action s <> ABoundary -> s_action s' = ABoundary -> p_boundary p = true)
    (* looping bookkeeping *)
    /\ (can_loop = true -> p_looping p = true ->
          s_nloop s' = S (s_nloop s)
          /\ (s_action s' = ATrackingCut <-> (stable = true /\ is_looping thr (S (s_nloop s)) energy = true))
          /\ (s_action s' = ATrackingCut \/ s_action s' = APropLimit))
    /\ (can_loop = true -> p_looping p = false -> s_nloop s' = 0%nat)
    /\ (can_loop = false -> s_nloop s' = s_nloop s)
    (* nothing limited the propagation: step and action are the pre-step's *)
    /\ ((can_loop && p_looping p = false) -> p_boundary p = false -> p_dist p = s_step s ->
          s_action s' = s_action s)
    (* cut short without boundary or looping: the propagation-limit action *)
    /\ ((can_loop && p_looping p = false) -> p_boundary p = false -> p_dist p < s_step s ->
          s_action s' = APropLimit).
  Proof.
    intros Hs [[Hd0 Hd1] [Hlb Hb]]. cbv zeta. unfold apply_propagation. numR. unfold Reqb.
    destruct (Req_EM_T (s_step s) 0) as [Hz|_]; [lra|].
    destruct can_loop, (p_looping p) eqn:El; cbn [andb update_looping].
    - (* looping *)
      rewrite (Hlb eq_refl) in *. cbn [fst snd s_step s_action s_nloop].
      split; [reflexivity|]. split; [lra|]. split; [reflexivity|]. split; [discriminate|].
      split.
      { intros _ Ha. destruct (stable && is_looping thr (S (s_nloop s)) energy); discriminate. }
      split.
      { intros _ _. split; [reflexivity|]. split.
        - destruct stable; cbn [andb]; [destruct (is_looping thr (S (s_nloop s)) energy)|];
            split; intro Hx; try discriminate; try (split; reflexivity); try reflexivity;
            destruct Hx; discriminate.
        - destruct (stable && is_looping thr (S (s_nloop s)) energy); [left|right]; reflexivity. }
      repeat split; intros; try discriminate.
    - destruct (p_boundary p) eqn:Eb; [|destruct (Rltb_spec (p_dist p) (s_step s)) as [Hlt|Hge]];
        cbn [fst snd s_step s_action s_nloop];
        (split; [reflexivity|]); (split; [lra|]); (split; [try reflexivity; lra|]);
        repeat split; intros; try discriminate; try reflexivity; try congruence; try lra.
    - destruct (p_boundary p) eqn:Eb; [|destruct (Rltb_spec (p_dist p) (s_step s)) as [Hlt|Hge]];
        cbn [fst snd s_step s_action s_nloop];
        (split; [reflexivity|]); (split; [lra|]); (split; [try reflexivity; lra|]);
        repeat split; intros; try discriminate; try reflexivity; try congruence; try lra.
    - destruct (p_boundary p) eqn:Eb; [|destruct (Rltb_spec (p_dist p) (s_step s)) as [Hlt|Hge]];
        cbn [fst snd s_step s_action s_nloop];
        (split; [reflexivity|]); (split; [lra|]); (split; [try reflexivity; lra|]);
        repeat split; intros; try discriminate; try reflexivity; try congruence; try lra.
  Qed.
End ApplierProofs.

(** ** a track that keeps looping: after k consecutive looping applications the
    counter is n + k, so a STABLE track is handed to the tracking cut exactly
    when n + k reaches the threshold of its current energy -- it cannot survive
    more than max(max_subthreshold_steps, max_steps) consecutive looping steps *)
Definition looping_call (c : acall R) : Prop :=
  a_can_loop c = true /\ p_looping (a_p c) = true /\ a_step c <> 0.

Theorem looping_run_counts (stable : bool) (thr : lthreshold R) : forall calls n,
  Forall looping_call calls ->
  let rs := apply_many stable thr n calls in
  length rs = length calls /\
  forall k r c, nth_error rs k = Some r -> nth_error calls k = Some c ->
    s_nloop (fst r) = (n + S k)%nat /\
    (s_action (fst r) = ATrackingCut <->
       (stable = true /\ is_looping thr (n + S k) (a_energy c) = true)).
Proof.
  induction calls as [|c rest IH]; intros n Hall; cbn [apply_many].
  - split; [reflexivity|]. intros [|k] r c Hr; discriminate.
  - inversion Hall as [|x l [Hcl [Hlp Hst]] Hrest]; subst.
    assert (Hr0 : apply_propagation (a_can_loop c) (a_p c) stable (a_energy c) thr
                    (Sim (a_step c) (APre (a_pre c)) n)
                  = (Sim (p_dist (a_p c))
                         (if stable && is_looping thr (S n) (a_energy c) then ATrackingCut else APropLimit)
                         (S n), 1%nat)).
    { unfold apply_propagation. cbn [s_step s_nloop]. numR. unfold Reqb.
      destruct (Req_EM_T (a_step c) 0) as [Hz|_]; [contradiction|].
      rewrite Hcl, Hlp. reflexivity. }
    rewrite Hr0. cbn [fst s_nloop].
    specialize (IH (S n) Hrest). cbv zeta in IH. destruct IH as [Hlen IH].
    split; [cbn [length]; rewrite Hlen; reflexivity|].
    intros [|k] r c' Hr Hc; cbn [nth_error] in Hr, Hc.
    + injection Hr as <-. injection Hc as <-. cbn [fst s_nloop s_action].
      replace (n + 1)%nat with (S n) by lia. split; [reflexivity|].
      destruct stable; cbn [andb]; [destruct (is_looping thr (S n) (a_energy c))|];
        split; intro Hx; try discriminate; try (split; reflexivity); try reflexivity;
        try (destruct Hx; discriminate).
    + destruct (IH k r c' Hr Hc) as [I1 I2]. replace (n + S (S k))%nat with (S n + S k)%nat by lia.
      split; assumption.
Qed.

Corollary looping_stable_track_killed (thr : lthreshold R) calls n k r c :
  Forall looping_call calls ->
  nth_error (apply_many true thr n calls) k = Some r -> nth_error calls k = Some c ->
  (Nat.max (max_subthreshold_steps thr) (max_steps thr) <= n + S k)%nat ->
  s_action (fst r) = ATrackingCut.
Proof.
  intros Hall Hr Hc Hk. destruct (looping_run_counts true thr calls n Hall) as [_ H].
  destruct (H k r c Hr Hc) as [_ [_ Hkill]]. apply Hkill. split; [reflexivity|].
  unfold is_looping. destruct (_ <? _)%num; apply Nat.leb_le; lia.
Qed.

(** non-vacuity *)
Example propagator_post_satisfiable : propagator_post 2 (Prop_ 1 true false) true.
Proof. unfold propagator_post. cbn. repeat split; try lra; try discriminate. Qed.
Example looping_call_satisfiable : looping_call (ACall 1 2 1 true (Prop_ (1/2) false true)).
Proof. unfold looping_call. cbn. repeat split; try reflexivity; lra. Qed.
