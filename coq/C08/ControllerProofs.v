(** * C08: the step-size controller of [FieldDriver] ([new_step_scale],
    [one_good_step]) stays within the factors coded in the options, and the
    unconditional chord-sagitta claim is refuted (finding F-C08-4). *)
From Coq Require Import Reals Lra Lia List Bool ZArith Psatz.
From Celer Require Import Base.Num Base.NumR Base.Vec3 C08.PropagatorModel C08.PropagatorProofs
  C08.DriverModel C08.DriverProofs.
Import ListNotations.
Local Open Scope R_scope.

Lemma ln_nonpos_arg x : x <= 0 -> ln x = 0.
Proof. intro Hx. unfold ln. destruct (Rlt_dec 0 x) as [H|H]; [exfalso; lra|reflexivity]. Qed.

Section Controller.
  Variable S : Type.
  Variable stepper : S -> R -> ode R -> S * sres R.
  Variable o : dopts R.
  (** FieldDriverOptions::operator bool / validate_input: the fields used here *)
  Hypothesis safety_rng : 0 < safety o < 1.
  Hypothesis pgrow_neg : pgrow o < 0.
  Hypothesis pshrink_neg : pshrink o < 0.
  Hypothesis max_dec_rng : 0 < max_stepping_decrease o < 1.
  Hypothesis max_inc_rng : 1 < max_stepping_increase o.

  Notation nss := (new_step_scale o).
  Notation ogs_loop := (ogs_loop S stepper o).

  (** a rejected trial (err_sq > 1) shrinks: 0 < scale < safety;
      an accepted one (0 <= err_sq <= 1) never shrinks below safety *)
  Lemma nss_reject e : 1 < e -> 0 < nss e < safety o.
  Proof.
    intro He. unfold new_step_scale. numR. numR. destruct (Rltb_spec 1 e) as [_|H]; [|lra]. cbv iota.
    assert (Hl : 0 < ln e) by (pose proof (ln_increasing 1 e Rlt_0_1 He) as Hq; rewrite ln_1 in Hq; exact Hq).
    assert (Hx : 1 / 2 * pshrink o * ln e < 0) by nra.
    pose proof (exp_pos (1 / 2 * pshrink o * ln e)) as Hp.
    assert (He1 : exp (1 / 2 * pshrink o * ln e) < 1).
    { pose proof (exp_increasing _ _ Hx) as Hq. rewrite exp_0 in Hq. exact Hq. }
    split; nra.
  Qed.

  Lemma nss_accept e : 0 <= e <= 1 -> safety o <= nss e.
  Proof.
    intros [H0 H1]. unfold new_step_scale. numR. numR. destruct (Rltb_spec 1 e) as [H|_]; [lra|]. cbv iota.
    assert (Hl : ln e <= 0).
    { destruct (Rle_lt_dec e 0) as [Hz|Hz]; [rewrite ln_nonpos_arg by exact Hz; lra|].
      destruct (Req_dec e 1) as [->|Hne]; [rewrite ln_1; lra|].
      assert (He1 : e < 1) by lra. pose proof (ln_increasing e 1 Hz He1) as Hq. rewrite ln_1 in Hq. lra. }
    assert (Hx : 0 <= 1 / 2 * pgrow o * ln e) by nra.
    assert (He1 : 1 <= exp (1 / 2 * pgrow o * ln e)).
    { destruct Hx as [Hx|Hx]; [pose proof (exp_increasing _ _ Hx) as Hq; rewrite exp_0 in Hq; lra|rewrite <- Hx, exp_0; lra]. }
    nra.
  Qed.

  (** the factor applied to a rejected trial is within
      [max_stepping_decrease, max(safety, max_stepping_decrease)] (< 1) *)
  Lemma shrink_factor e : 1 < e ->
    max_stepping_decrease o <= nfmax (nss e) (max_stepping_decrease o)
      <= Rmax (safety o) (max_stepping_decrease o).
  Proof.
    intro He. rewrite nfmax_R. pose proof (nss_reject e He) as [Hp Hs]. split.
    - apply Rmax_r.
    - apply Rmax_lub; [eapply Rle_trans; [left; exact Hs|apply Rmax_l]|apply Rmax_r].
  Qed.

  (** the growth factor of the proposed next step is at most
      max_stepping_increase, and at least safety after an accepted trial *)
  Lemma grow_factor e :
    nfmin (nss e) (max_stepping_increase o) <= max_stepping_increase o /\
    (0 <= e <= 1 -> safety o <= nfmin (nss e) (max_stepping_increase o)).
  Proof.
    rewrite nfmin_R. split; [apply Rmin_r|]. intro He. apply Rmin_glb; [apply nss_accept; exact He|lra].
  Qed.

  Definition rho : R := Rmax (safety o) (max_stepping_decrease o).
  Lemma rho_rng : 0 < rho < 1.
  Proof. unfold rho. split; [eapply Rlt_le_trans; [|apply Rmax_l]; lra|apply Rmax_lub_lt; lra]. Qed.

  (** one_good_step: with at most [m] retries after the first trial,
      step * max_dec^(m+1) <= end.step <= step; the proposed next step is at most
      max_stepping_increase * end.step; when the loop succeeded the accepted
      error is <= 1, the returned length is the one the state was integrated
      over, and proposed >= safety * end.step *)
  Lemma ogs_bounds : forall m s step st, 0 < step ->
    let ig := snd (ogs_loop m s step st) in
    step * max_stepping_decrease o ^ (Datatypes.S m) <= ig_step ig <= step
    /\ ig_proposed ig <= ig_step ig * max_stepping_increase o
    /\ (ig_ok ig = true -> exists s0 r, r = snd (stepper s0 (ig_step ig) st) /\ ig_state ig = s_end r
          /\ err_sq_of o r (ig_step ig) (o_mom st) <= 1
          /\ (0 <= err_sq_of o r (ig_step ig) (o_mom st) -> ig_step ig * safety o <= ig_proposed ig))
    /\ (ig_ok ig = false -> ig_proposed ig <= ig_step ig * safety o).
  Proof.
    pose proof rho_rng as Hrho.
    induction m as [|m IH]; intros s step st Hs; cbn [DriverModel.ogs_loop];
      destruct (stepper s step st) as [s1 r] eqn:Est; numR;
      set (e := err_sq_of o r step (o_mom st));
      destruct (Rltb_spec 1 e) as [Hrej|Hacc]; try (apply Rnot_lt_le in Hacc).
    - (* budget exhausted on a rejected trial *)
      pose proof (shrink_factor e Hrej) as [Hf1 Hf2]. fold rho in Hf2.
      pose proof (grow_factor e) as [Hg _]. pose proof (nss_reject e Hrej) as [Hn0 Hn1].
      set (f := nfmax (nss e) (max_stepping_decrease o)) in *.
      cbn [snd ig_step ig_proposed ig_ok ig_state]. cbn [pow].
      assert (Hmin : nfmin (nss e) (max_stepping_increase o) <= safety o).
      { rewrite nfmin_R. eapply Rle_trans; [apply Rmin_l|lra]. }
      assert (Hsf : 0 < step * f) by nra.
      repeat split; try nra; try (intros; discriminate);
        try (apply Rmult_le_compat_l; [lra|assumption]);
        try (intros _; apply Rmult_le_compat_l; [lra|assumption]).
    - (* accepted at the first trial *)
      pose proof (grow_factor e) as [Hg Hg2].
      cbn [snd ig_step ig_proposed ig_ok ig_state]. cbn [pow].
      repeat split; try nra; try (intros; discriminate).
      intros _. exists s, r. rewrite Est. repeat split; try reflexivity; [fold e; lra|].
      fold e. intro He0. specialize (Hg2 (conj He0 Hacc)). nra.
    - (* rejected, retry with the shrunk step *)
      pose proof (shrink_factor e Hrej) as [Hf1 Hf2]. fold rho in Hf2.
      set (f := nfmax (nss e) (max_stepping_decrease o)) in *.
      assert (Hs' : 0 < step * f) by nra.
      specialize (IH s1 (step * f) st Hs'). cbv zeta in IH.
      destruct IH as [[I0 I1] I2]. split; [|exact I2].
      change (max_stepping_decrease o ^ Datatypes.S (Datatypes.S m))
        with (max_stepping_decrease o * max_stepping_decrease o ^ Datatypes.S m).
      set (pw := max_stepping_decrease o ^ Datatypes.S m) in *.
      assert (Hpw : 0 < pw) by (apply pow_lt; lra).
      assert (A1 : step * max_stepping_decrease o * pw <= step * f * pw).
      { apply Rmult_le_compat_r; [lra|]. apply Rmult_le_compat_l; lra. }
      assert (A2 : step * f <= step * 1) by (apply Rmult_le_compat_l; lra).
      split; lra.
    - pose proof (grow_factor e) as [Hg Hg2].
      cbn [snd ig_step ig_proposed ig_ok ig_state].
      assert (Hpw : 0 < max_stepping_decrease o ^ Datatypes.S (Datatypes.S m) <= 1).
      { split; [apply pow_lt; lra|]. rewrite <- (pow1 (Datatypes.S (Datatypes.S m))). apply pow_incr. lra. }
      repeat split; try nra; try (intros; discriminate).
      intros _. exists s, r. rewrite Est. repeat split; try reflexivity; [fold e; lra|].
      fold e. intro He0. specialize (Hg2 (conj He0 Hacc)). nra.
  Qed.
End Controller.

(** ** the unconditional sagitta bound is false: whatever the trial budget
    [max_nsteps >= 1], a stepper whose every trial is too curved makes
    find_next_chord return (after the budget) a state whose sagitta exceeds
    delta_chord + dchord_tol -- with valid options (finding F-C08-4) *)
Definition bad_sres : sres R :=
  SRes (Ode (V3 1 1 0) (V3 1 0 0)) (Ode (V3 2 0 0) (V3 1 0 0)) (Ode (V3 0 0 0) (V3 0 0 0)).
Definition bad_stepper (s : unit) (h : R) (st : ode R) : unit * sres R := (tt, bad_sres).
Definition default_opts (n : nat) : dopts R :=
  DOpts (1/1000000) (25/1000) (1/100000) (1/100000) (1/1000) (-2/10) (-25/100) (9/10) 5 (1/10) n.

Lemma bad_sagitta : distance_chord (V3 0 0 0) (o_pos (s_mid bad_sres)) (o_pos (s_end bad_sres)) = 1.
Proof.
  unfold distance_chord, bad_sres, vsub, cross. cbn [s_mid s_end o_pos vx vy vz]. rewrite !dot_R. numR.
  cbn [vx vy vz].
  replace (((0 - 0) * (0 - 0) - (0 - 0) * (1 - 0)) * ((0 - 0) * (0 - 0) - (0 - 0) * (1 - 0)) +
           ((0 - 0) * (1 - 0) - (2 - 0) * (0 - 0)) * ((0 - 0) * (1 - 0) - (2 - 0) * (0 - 0)) +
           ((2 - 0) * (1 - 0) - (0 - 0) * (1 - 0)) * ((2 - 0) * (1 - 0) - (0 - 0) * (1 - 0)))
    with 4 by ring.
  replace ((2 - 0) * (2 - 0) + (0 - 0) * (0 - 0) + (0 - 0) * (0 - 0)) with 4 by ring.
  replace (4 / 4) with 1 by field. apply sqrt_1.
Qed.

Lemma bad_fnc (n : nat) : forall m step,
  let cs := snd (fnc_loop unit bad_stepper (default_opts n) m tt step (Ode (V3 0 0 0) (V3 1 0 0))) in
  fc_ok cs = false /\ fc_last cs = bad_sres /\ fc_state cs = s_end bad_sres.
Proof.
  induction m as [|m IH]; intro step; cbn [fnc_loop bad_stepper o_pos]; rewrite bad_sagitta; numR;
    (destruct (Rltb_spec (delta_chord (default_opts n) + dchord_tol) 1) as [_|H];
     [|exfalso; unfold dchord_tol, default_opts in H; cbn [delta_chord] in H; numR; lra]).
  - cbn [snd fc_ok fc_last fc_state]. repeat split.
  - apply IH.
Qed.

Theorem chord_sagitta_bounded_refuted : forall n : nat, (1 <= n)%nat ->
  exists (o : dopts R) (step : R) (st : ode R),
    max_nsteps o = n /\ 0 < minimum_step o /\ 0 < delta_chord o /\ 0 < epsilon_step o
    /\ 0 < max_stepping_decrease o < 1 /\ 0 < step /\
    let cs := snd (find_next_chord unit bad_stepper o tt step st) in
    0 < fc_step cs <= step /\ fc_state cs = s_end (fc_last cs) /\
    delta_chord o + dchord_tol
      < distance_chord (o_pos st) (o_pos (s_mid (fc_last cs))) (o_pos (fc_state cs)).
Proof.
  intros n Hn. exists (default_opts n), 1, (Ode (V3 0 0 0) (V3 1 0 0)).
  cbn [max_nsteps minimum_step delta_chord epsilon_step max_stepping_decrease default_opts].
  split; [reflexivity|]. do 5 (split; [lra|]). cbv zeta.
  assert (Hd : 0 < delta_chord (default_opts n)) by (cbn; lra).
  pose proof (fnc_spec unit bad_stepper (default_opts n) Hd (pred n) tt 1 (Ode (V3 0 0 0) (V3 1 0 0)) Rlt_0_1) as Hf.
  cbv zeta in Hf. destruct Hf as [Hr _].
  unfold find_next_chord. cbn [max_nsteps default_opts].
  cbn [max_nsteps default_opts] in Hr.
  destruct (bad_fnc n (pred n) 1) as [Hok [Hlast Hst]]. cbv zeta in *.
  split; [exact Hr|]. split; [rewrite Hst, Hlast; reflexivity|].
  rewrite Hst, Hlast. cbn [o_pos]. rewrite bad_sagitta. unfold dchord_tol. numR. lra.
Qed.

(** the controller hypotheses hold for the default FieldDriverOptions *)
Example controller_opts_satisfiable :
  let o := default_opts 100 in
  0 < safety o < 1 /\ pgrow o < 0 /\ pshrink o < 0 /\ 0 < max_stepping_decrease o < 1
  /\ 1 < max_stepping_increase o.
Proof. cbn. repeat split; lra. Qed.
