(** * C08: the propagator as a state machine across calls.  One
    [FieldPropagator] object may serve many [propagate(step)] calls (as the
    repository's own tests do); its private [state_] is carried from call to
    call.  After EVERY call the internal position equals the geometry's position
    and the geometry's direction is the unit vector of the internal momentum. *)
From Coq Require Import Reals Lra List Bool.
From Celer Require Import Base.Num Base.NumR Base.Vec3 C08.PropagatorModel C08.PropagatorProofs.
Import ListNotations.
Local Open Scope R_scope.

Lemma unit_vector_nonzero (v : vec3 R) : norm (make_unit_vector v) = 1 -> 0 < norm v.
Proof.
  intro Hu. destruct (Rle_lt_dec (norm v) 0) as [Hle|Hlt]; [exfalso|exact Hlt].
  pose proof (norm_nonneg v) as Hn. assert (Hz : norm v = 0) by lra.
  pose proof (norm_sq v) as Hs. rewrite Hz in Hs.
  assert (Hx : vx v = 0) by nra. assert (Hy : vy v = 0) by nra. assert (Hzz : vz v = 0) by nra.
  unfold make_unit_vector, norm in Hu. numR. rewrite !dot_R in Hu. cbn [vx vy vz] in Hu.
  rewrite Hx, Hy, Hzz in Hu.
  replace (0 * (1 / sqrt (0 * 0 + 0 * 0 + 0 * 0)) * (0 * (1 / sqrt (0 * 0 + 0 * 0 + 0 * 0))) +
           0 * (1 / sqrt (0 * 0 + 0 * 0 + 0 * 0)) * (0 * (1 / sqrt (0 * 0 + 0 * 0 + 0 * 0))) +
           0 * (1 / sqrt (0 * 0 + 0 * 0 + 0 * 0)) * (0 * (1 / sqrt (0 * 0 + 0 * 0 + 0 * 0)))) with 0 in Hu by ring.
  rewrite sqrt_0 in Hu. lra.
Qed.

Section History.
  Variables D G : Type.
  Variable advance : D -> R -> ode R -> D * dres R.
  Variable g_pos : G -> vec3 R.
  Variable g_dir : G -> vec3 R.
  Variable g_on_boundary : G -> bool.
  Variable g_set_dir : G -> vec3 R -> G.
  Variable g_find_next : G -> R -> G * lin R.
  Variable g_move_internal : G -> vec3 R -> G.
  Variable g_move_to_boundary : G -> G.
  Variable o : popts R.

  (** get/set contract of the geometry track view *)
  Hypothesis pos_move : forall g p, g_pos (g_move_internal g p) = p.
  Hypothesis pos_set_dir : forall g d, g_pos (g_set_dir g d) = g_pos g.
  Hypothesis dir_set_dir : forall g d, g_dir (g_set_dir g d) = d.
  Hypothesis dir_move : forall g p, g_dir (g_move_internal g p) = g_dir g.

  Definition synced (g : G) (st : ode R) : Prop :=
    o_pos st = g_pos g /\ g_dir g = make_unit_vector (o_mom st).

  Notation propagate_ step := (propagate D G advance g_pos g_on_boundary g_set_dir g_find_next
                                 g_move_internal g_move_to_boundary o step).
  Notation contracts_ step := (prop_contracts D G advance g_on_boundary g_set_dir g_find_next
                                 g_move_internal g_move_to_boundary o step).

  Lemma call_synced step fuel d g st r :
    contracts_ step -> 0 < norm (o_mom st) -> propagate_ step fuel d g st = Some r ->
    synced (r_g r) (r_state r) /\ 0 < norm (o_mom (r_state r)).
  Proof.
    intros Hc Hm Hp.
    pose proof (propagate_post D G advance g_pos g_on_boundary g_set_dir g_find_next g_move_internal
                  g_move_to_boundary o step Hc fuel d g st r Hm Hp) as Hpost.
    pose proof (propagate_dir D G advance g_pos g_on_boundary g_set_dir g_find_next g_move_internal
                  g_move_to_boundary o step fuel d g st r Hp) as [Hdir [g1 Hg]].
    destruct Hpost as [_ [_ [_ [Hunit Hout]]]].
    split; [split|].
    - destruct (r_outcome r).
      + destruct Hout as [_ [_ [_ [_ [g' Hg']]]]]. rewrite Hg', pos_set_dir, pos_move. reflexivity.
      + destruct Hout as [_ [_ [g' [Hg' Hpos]]]]. rewrite Hg', pos_set_dir. exact Hpos.
      + destruct Hout as [_ [_ [_ [g' Hg']]]]. rewrite Hg', pos_set_dir, pos_move. reflexivity.
      + destruct Hout as [_ [_ [_ [_ [_ [g' Hg']]]]]]. rewrite Hg', pos_move. reflexivity.
    - rewrite <- Hdir. destruct Hg as [Hg|Hg]; rewrite Hg; [|rewrite dir_move]; apply dir_set_dir.
    - apply unit_vector_nonzero. rewrite <- Hdir. exact Hunit.
  Qed.

  (** a history of calls on one object: driver state, geometry state and the
      internal ODE state are threaded from each call to the next *)
  Fixpoint run_history (fuel : nat) (d : D) (g : G) (st : ode R) (steps : list R)
      : option (list (presult (T:=R) D G)) :=
    match steps with
    | [] => Some []
    | step :: rest =>
        match propagate_ step fuel d g st with
        | None => None
        | Some r =>
            match run_history fuel (r_d r) (r_g r) (r_state r) rest with
            | None => None
            | Some l => Some (r :: l)
            end
        end
    end.

  Theorem propagator_state_synced : forall steps fuel d g st rs,
    Forall (fun step => contracts_ step) steps -> 0 < norm (o_mom st) ->
    run_history fuel d g st steps = Some rs ->
    Forall (fun r => synced (r_g r) (r_state r) /\ 0 < norm (o_mom (r_state r))) rs.
  Proof.
    induction steps as [|step rest IH]; intros fuel d g st rs Hc Hm Hr; cbn [run_history] in Hr.
    - injection Hr as <-. constructor.
    - inversion Hc as [|x l Hc1 Hc2]; subst.
      destruct (propagate_ step fuel d g st) as [r|] eqn:Ep; [|discriminate].
      destruct (call_synced step fuel d g st r Hc1 Hm Ep) as [Hs Hn].
      destruct (run_history fuel (r_d r) (r_g r) (r_state r) rest) as [l|] eqn:El; [|discriminate].
      injection Hr as <-. constructor; [split; assumption|].
      apply (IH fuel (r_d r) (r_g r) (r_state r) l Hc2 Hn El).
  Qed.
End History.

(** the get/set contract is satisfiable: the scripted geometry of the
    correspondence check (PropagatorModel.v) satisfies it *)
Example geo_getset_satisfiable :
  (forall (g : sgeo (T:=R)) p, sg_pos (s_move_internal g p) = p) /\
  (forall (g : sgeo (T:=R)) d, sg_pos (s_set_dir g d) = sg_pos g) /\
  (forall (g : sgeo (T:=R)) d, sg_dir (s_set_dir g d) = d) /\
  (forall (g : sgeo (T:=R)) p, sg_dir (s_move_internal g p) = sg_dir g).
Proof. repeat split. Qed.
