(** * C08: proofs about the field-driver model over the reals. *)
From Coq Require Import Reals Lra Lia List Bool ZArith Psatz.
From Celer Require Import Base.Num Base.NumR Base.Vec3 C08.PropagatorModel C08.PropagatorProofs
  C08.DriverModel.
Import ListNotations.
Local Open Scope R_scope.

Lemma nfmax_R (a b : R) : nfmax a b = Rmax a b.
Proof.
  unfold nfmax. numR. unfold Rmax, Reqb.
  destruct (Rltb_spec a b); destruct (Rltb_spec b a); destruct (Rle_dec a b);
    destruct (Req_EM_T a a); try lra; try reflexivity.
Qed.

Lemma dchord_tol_pos : 0 < dchord_tol (T:=R).
Proof. unfold dchord_tol. numR. lra. Qed.

Section DriverProofs.
  Variable S : Type.
  Variable stepper : S -> R -> ode R -> S * sres R.
  Variable o : dopts R.

  (** FieldDriverOptions::operator bool (the fields the proofs use) *)
  Hypothesis min_step_pos : 0 < minimum_step o.
  Hypothesis delta_chord_pos : 0 < delta_chord o.
  Hypothesis eps_step_pos : 0 < epsilon_step o.
  Hypothesis max_dec_pos : 0 < max_stepping_decrease o < 1.

  Notation fnc_loop := (fnc_loop S stepper o).
  Notation ogs_loop := (ogs_loop S stepper o).
  Notation integrate_step := (integrate_step S stepper o).
  Notation aa_loop := (aa_loop S stepper o).
  Notation accurate_advance := (accurate_advance S stepper o).
  Notation advance := (advance S stepper o).

  Lemma scale_range dchord : delta_chord o + dchord_tol < dchord ->
    / 2 <= nfmax (sqrt (delta_chord o / dchord)) min_chord_shrink < 1.
  Proof.
    intro Hgt. pose proof dchord_tol_pos as Htol.
    rewrite nfmax_R. unfold min_chord_shrink. numR. numR.
    assert (Hq : 0 <= delta_chord o / dchord < 1).
    { split.
      - apply Rmult_le_pos; [lra|]. left. apply Rinv_0_lt_compat. lra.
      - apply (Rmult_lt_reg_r dchord); [lra|].
        unfold Rdiv. rewrite Rmult_assoc, Rinv_l by lra. lra. }
    assert (sqrt (delta_chord o / dchord) < 1).
    { rewrite <- sqrt_1. apply sqrt_lt_1_alt. lra. }
    split.
    - eapply Rle_trans; [|apply Rmax_r]. lra.
    - apply Rmax_lub_lt; lra.
  Qed.

  (** ** find_next_chord: the step only shrinks, by at most one half per trial;
      when it reports success the sagitta test held for the returned state *)
  Lemma fnc_spec : forall m s step st,
    0 < step ->
    let cs := snd (fnc_loop m s step st) in
    0 < fc_step cs <= step
    /\ step * (/ 2) ^ (Datatypes.S m) <= fc_step cs
    /\ fc_state cs = s_end (fc_last cs)
    /\ (fc_ok cs = true ->
          fc_tried cs = fc_step cs /\
          distance_chord (o_pos st) (o_pos (s_mid (fc_last cs))) (o_pos (s_end (fc_last cs)))
            <= delta_chord o + dchord_tol)
    /\ (fc_ok cs = false -> fc_step cs < fc_tried cs)
    /\ exists s0, fc_last cs = snd (stepper s0 (fc_tried cs) st).
  Proof.
    pose proof dchord_tol_pos as Htol.
    induction m as [|m IH]; intros s step st Hs; cbn [DriverModel.fnc_loop];
      destruct (stepper s step st) as [s1 r] eqn:Est;
      set (dchord := distance_chord (o_pos st) (o_pos (s_mid r)) (o_pos (s_end r))); numR;
      destruct (Rltb_spec (delta_chord o + dchord_tol) dchord) as [Hgt|Hle].
    - (* budget exhausted on a failed trial *)
      pose proof (scale_range dchord Hgt) as Hsc.
      cbn [snd fc_step fc_state fc_ok fc_last fc_tried]. cbn [pow].
      set (sc := nfmax (sqrt (delta_chord o / dchord)) min_chord_shrink) in *.
      repeat split; try nra; try (intros; discriminate).
      exists s. rewrite Est. reflexivity.
    - cbn [snd fc_step fc_state fc_ok fc_last fc_tried]. cbn [pow].
      assert (0 < / 2) by lra.
      repeat split; try nra; try (intros; discriminate); try reflexivity;
        try (fold dchord; lra).
      exists s. rewrite Est. reflexivity.
    - (* failed, retry with the scaled step *)
      pose proof (scale_range dchord Hgt) as Hsc.
      set (sc := nfmax (sqrt (delta_chord o / dchord)) min_chord_shrink) in *.
      assert (Hs' : 0 < step * sc) by nra.
      specialize (IH s1 (step * sc) st Hs'). cbn zeta in IH.
      destruct IH as [[I0 I1] [I2 I3]].
      split; [nra|]. split; [|exact I3].
      change ((/ 2) ^ Datatypes.S (Datatypes.S m)) with (/ 2 * (/ 2) ^ Datatypes.S m).
      assert (0 < (/ 2) ^ Datatypes.S m) by (apply pow_lt; lra).
      nra.
    - cbn [snd fc_step fc_state fc_ok fc_last fc_tried].
      assert (0 < (/ 2) ^ Datatypes.S (Datatypes.S m) <= 1).
      { split; [apply pow_lt; lra|]. rewrite <- (pow1 (Datatypes.S (Datatypes.S m))).
        apply pow_incr. lra. }
      repeat split; try nra; try (intros; discriminate); try reflexivity;
        try (fold dchord; lra).
      exists s. rewrite Est. reflexivity.
  Qed.

  (** ** one_good_step / integrate_step advance by a positive length *)
  Lemma ogs_pos : forall m s step st,
    0 < step -> 0 < ig_step (snd (ogs_loop m s step st)).
  Proof.
    induction m as [|m IH]; intros s step st Hs; cbn [DriverModel.ogs_loop];
      destruct (stepper s step st) as [s1 r]; numR;
      destruct (Rltb 1 (err_sq_of o r step (o_mom st))); cbn [snd ig_step]; try lra.
    - rewrite nfmax_R.
      pose proof (Rmax_r (new_step_scale o (err_sq_of o r step (o_mom st))) (max_stepping_decrease o)).
      nra.
    - apply IH. rewrite nfmax_R.
      pose proof (Rmax_r (new_step_scale o (err_sq_of o r step (o_mom st))) (max_stepping_decrease o)).
      nra.
  Qed.

  Lemma integrate_pos s h st : 0 < h -> 0 < ig_step (snd (integrate_step s h st)).
  Proof.
    intro Hh. unfold DriverModel.integrate_step, DriverModel.one_good_step. numR.
    destruct (Rltb (minimum_step o) h).
    - apply ogs_pos. exact Hh.
    - destruct (stepper s h st) as [s1 r]. cbn [snd ig_step]. exact Hh.
  Qed.

  Lemma aa_pos : forall m s h curve endl hthr st,
    0 < h -> 0 <= curve ->
    0 < snd (fst (snd (aa_loop m s h curve endl hthr st))).
  Proof.
    induction m as [|m IH]; intros s h curve endl hthr st Hh Hc; cbn [DriverModel.aa_loop];
      pose proof (integrate_pos s h st Hh) as Hi;
      destruct (integrate_step s h st) as [s1 ig]; cbn [snd] in Hi; numR;
      destruct (Rltb h hthr || Rleb endl (curve + ig_step ig))%bool eqn:Ex; cbn [snd fst]; try lra.
    apply IH; [|lra].
    apply orb_false_iff in Ex. destruct Ex as [_ Ex]. apply Rleb_false in Ex.
    rewrite nfmin_R, nfmax_R. apply Rmin_glb_lt; [|lra].
    eapply Rlt_le_trans; [exact min_step_pos|apply Rmax_r].
  Qed.

  Lemma accurate_advance_range s step st hinit :
    0 < step -> 0 < d_step (snd (accurate_advance s step st hinit)) <= step.
  Proof.
    intro Hs. unfold DriverModel.accurate_advance.
    set (h := if (_ && _)%bool then hinit else step).
    assert (Hh : 0 < h).
    { unfold h. numR. destruct (Rltb_spec (initial_step_tol * step) hinit) as [Hx|Hx]; cbn [andb]; [|exact Hs].
      destruct (Rltb hinit step); [|exact Hs].
      unfold initial_step_tol in Hx. numR. nra. }
    pose proof (aa_pos (pred (max_nsteps o)) s h 0 step (epsilon_step o * step)%num st Hh (Rle_refl 0)) as Ha.
    numR.
    destruct (aa_loop _ s h 0 step _ st) as [s1 [[stf curve] okf]]. cbn [snd fst] in Ha.
    cbn [snd d_step]. rewrite nfmin_R. split; [apply Rmin_glb_lt; lra|apply Rmin_r].
  Qed.

  (** ** driver_step_in_range *)
  Theorem advance_range (mc : option R) s step st :
    0 < step -> (forall c, mc = Some c -> 0 < c) ->
    let res := advance mc s step st in
    0 < d_step (snd res) <= step
    /\ (forall c, fst (fst res) = Some c -> 0 < c).
  Proof.
    intros Hs Hmc. unfold DriverModel.advance. numR.
    destruct (Rleb_spec step (minimum_step o)) as [Hsm|Hsm].
    { destruct (stepper s step st) as [s1 r0]. cbn [snd fst d_step]. split; [lra|exact Hmc]. }
    set (trial := match mc with None => step | Some c => nfmin step c end).
    assert (Ht : 0 < trial <= step).
    { unfold trial. destruct mc as [c|]; [|lra]. rewrite nfmin_R. specialize (Hmc c eq_refl).
      split; [apply Rmin_glb_lt; lra|apply Rmin_l]. }
    unfold DriverModel.find_next_chord.
    pose proof (fnc_spec (pred (max_nsteps o)) s trial st (proj1 Ht)) as Hf. cbn zeta in Hf.
    destruct (fnc_loop (pred (max_nsteps o)) s trial st) as [s1 cs]. cbn [snd] in Hf.
    destruct Hf as [[F0 F1] _].
    assert (Hmc' : forall c, (if Rltb (fc_step cs) step then Some (fc_step cs * (1 / min_chord_shrink)) else mc) = Some c -> 0 < c).
    { intros c. destruct (Rltb (fc_step cs) step); [|apply Hmc].
      intros [= <-]. unfold min_chord_shrink. numR. numR. nra. }
    destruct (Rltb 1 (fc_errsq cs)).
    - pose proof (accurate_advance_range s1 (fc_step cs) st (step * new_step_scale o (fc_errsq cs))%num F0) as Ha.
      destruct (accurate_advance s1 (fc_step cs) st _) as [s2 r2]. cbn [snd fst] in *.
      split; [lra|exact Hmc'].
    - cbn [snd fst d_step]. split; [lra|exact Hmc'].
  Qed.
End DriverProofs.

(** the option hypotheses are satisfiable: the defaults of FieldDriverOptions *)
Example driver_opts_satisfiable :
  exists o : dopts R, 0 < minimum_step o /\ 0 < delta_chord o /\ 0 < epsilon_step o
                      /\ 0 < max_stepping_decrease o < 1 /\ (0 < max_nsteps o)%nat.
Proof.
  exists (DOpts (1/1000000) (25/1000) (1/100000) (1/100000) (1/1000) (-2/10) (-25/100) (9/10) 5 (1/10) 100).
  cbn [minimum_step delta_chord epsilon_step max_stepping_decrease max_nsteps].
  repeat split; try lra; lia.
Qed.
