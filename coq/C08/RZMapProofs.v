(** * C08: RZMapField interpolation over the reals. *)
From Coq Require Import Reals Lra Lia ZArith Bool Psatz.
From Celer Require Import Base.Num Base.NumR Base.Vec3 C08.PropagatorModel C08.PropagatorProofs C08.RZMap.
Local Open Scope R_scope.

Lemma lerp_ends (lo hi : R) : lerp lo hi 0 = lo /\ lerp lo hi 1 = hi.
Proof. unfold lerp. numR. split; ring. Qed.

Lemma lerp_between (lo hi f : R) : 0 <= f <= 1 -> Rmin lo hi <= lerp lo hi f <= Rmax lo hi.
Proof.
  intros [H0 H1]. unfold lerp. numR. unfold Rmin, Rmax. destruct (Rle_dec lo hi); split; nra.
Qed.

Lemma Int_part_cell (x : R) (i : Z) : IZR i <= x < IZR i + 1 -> Int_part x = i.
Proof.
  intros [H0 H1]. unfold Int_part.
  assert (Hu : (i + 1)%Z = up x).
  { apply tech_up; rewrite plus_IZR; lra. }
  rewrite <- Hu. lia.
Qed.

(** [find_interp] on a uniform grid: a value in cell i gives (i, (v - g[i])/delta)
    with fraction in [0,1); the last grid point gives (size-2, 1) *)
Lemma find_interp_cell (g : ugrid R) (v : R) (i : Z) :
  0 < ug_delta g -> (i + 1 < ug_size g)%Z ->
  ug_at g i <= v < ug_at g (i + 1) ->
  find_interp g v = (i, (v - ug_at g i) / ug_delta g) /\ 0 <= (v - ug_at g i) / ug_delta g < 1.
Proof.
  intros Hd Hi [H0 H1]. unfold find_interp, ug_find, ug_at in *. numR. rewrite plus_IZR in *.
  set (d := ug_delta g) in *. set (f := ug_front g) in *.
  assert (Hx : IZR i <= (v - f) / d < IZR i + 1).
  { split.
    - apply (Rmult_le_reg_r d); [exact Hd|]. unfold Rdiv. rewrite Rmult_assoc, Rinv_l by lra. lra.
    - apply (Rmult_lt_reg_r d); [exact Hd|]. unfold Rdiv. rewrite Rmult_assoc, Rinv_l by lra. lra. }
  rewrite (Int_part_cell _ i Hx).
  destruct (i + 1 =? ug_size g)%Z eqn:E; [apply Z.eqb_eq in E; lia|].
  split.
  - f_equal. field. lra.
  - split.
    + apply (Rmult_le_reg_r d); [exact Hd|]. unfold Rdiv. rewrite Rmult_assoc, Rinv_l by lra. lra.
    + apply (Rmult_lt_reg_r d); [exact Hd|]. unfold Rdiv. rewrite Rmult_assoc, Rinv_l by lra. lra.
Qed.

Lemma find_interp_last (g : ugrid R) :
  0 < ug_delta g -> (2 <= ug_size g)%Z ->
  find_interp g (ug_at g (ug_size g - 1)) = ((ug_size g - 2)%Z, 1).
Proof.
  intros Hd Hs. unfold find_interp, ug_find, ug_at. numR.
  replace ((ug_front g + ug_delta g * IZR (ug_size g - 1) - ug_front g) / ug_delta g)
    with (IZR (ug_size g - 1)) by (field; lra).
  rewrite (Int_part_cell _ (ug_size g - 1)) by lra.
  replace (ug_size g - 1 + 1 =? ug_size g)%Z with true by (symmetry; apply Z.eqb_eq; lia).
  replace (ug_size g - 1 - 1)%Z with (ug_size g - 2)%Z by lia.
  f_equal. replace (ug_size g - 2 + 1)%Z with (ug_size g - 1)%Z by lia.
  rewrite !minus_IZR. field. lra.
Qed.

(** ** the field inside cell (iz, ir): B_z is the linear interpolant IN Z of the
    two nodes at the LOWER r index, the radial component the linear interpolant IN
    R of the two nodes at the LOWER z index; both fractions are in [0,1), so each
    component lies between its two neighbouring node values and equals the node
    value at a node *)
Section Cell.
  Variables (gz gr : ugrid R) (fmap : Z -> R * R) (x y z : R) (iz ir : Z).
  Let r := sqrt (x * x + y * y).
  Hypothesis dz_pos : 0 < ug_delta gz.
  Hypothesis dr_pos : 0 < ug_delta gr.
  Hypothesis iz_ok : (iz + 1 < ug_size gz)%Z.
  Hypothesis ir_ok : (ir + 1 < ug_size gr)%Z.
  Hypothesis z_cell : ug_at gz iz <= z < ug_at gz (iz + 1).
  Hypothesis r_cell : ug_at gr ir <= r < ug_at gr (ir + 1).
  Hypothesis z_valid : ug_front gz <= z <= ug_back gz.
  Hypothesis r_valid : ug_front gr <= r <= ug_back gr.
  Hypothesis r_pos : 0 < r.

  Let fz := (z - ug_at gz iz) / ug_delta gz.
  Let fr := (r - ug_at gr ir) / ug_delta gr.
  Let bz_lo := fst (fmap (rz_id gr iz ir)).
  Let bz_hi := fst (fmap (rz_id gr (iz + 1) ir)).
  Let br_lo := snd (fmap (rz_id gr iz ir)).
  Let br_hi := snd (fmap (rz_id gr iz (ir + 1))).

  Theorem rzmap_in_cell :
    rzmap_field gz gr fmap (V3 x y z)
      = V3 (lerp br_lo br_hi fr / r * x) (lerp br_lo br_hi fr / r * y) (lerp bz_lo bz_hi fz)
    /\ 0 <= fz < 1 /\ 0 <= fr < 1
    /\ Rmin bz_lo bz_hi <= lerp bz_lo bz_hi fz <= Rmax bz_lo bz_hi
    /\ Rmin br_lo br_hi <= lerp br_lo br_hi fr <= Rmax br_lo br_hi
    /\ (z = ug_at gz iz -> lerp bz_lo bz_hi fz = bz_lo)
    /\ (r = ug_at gr ir -> lerp br_lo br_hi fr = br_lo).
  Proof.
    destruct (find_interp_cell gz z iz dz_pos iz_ok z_cell) as [Ez Fz].
    destruct (find_interp_cell gr r ir dr_pos ir_ok r_cell) as [Er Fr].
    fold fz in Ez, Fz. fold fr in Er, Fr.
    split.
    - unfold rzmap_field, rz_valid. cbn [vx vy vz]. numR. fold r.
      destruct z_valid as [Z0 Z1]. destruct r_valid as [R0 R1].
      destruct (Rleb_spec (ug_front gz) z); [|lra]. destruct (Rleb_spec z (ug_back gz)); [|lra].
      destruct (Rleb_spec (ug_front gr) r); [|lra]. destruct (Rleb_spec r (ug_back gr)); [|lra].
      cbn [andb negb]. rewrite Er, Ez. unfold Reqb.
      destruct (Req_EM_T r 0) as [H0|_]; [lra|]. reflexivity.
    - split; [exact Fz|]. split; [exact Fr|].
      split; [apply lerp_between; lra|]. split; [apply lerp_between; lra|].
      split; intro He.
      + unfold fz. rewrite He. replace ((ug_at gz iz - ug_at gz iz) / ug_delta gz) with 0 by (field; lra).
        apply lerp_ends.
      + unfold fr. rewrite He. replace ((ug_at gr ir - ug_at gr ir) / ug_delta gr) with 0 by (field; lra).
        apply lerp_ends.
  Qed.
End Cell.

(** outside the map the field is zero *)
Theorem rzmap_outside (gz gr : ugrid R) (fmap : Z -> R * R) (x y z : R) :
  (z < ug_front gz \/ ug_back gz < z \/ ug_back gr < sqrt (x * x + y * y)) ->
  rzmap_field gz gr fmap (V3 x y z) = V3 0 0 0.
Proof.
  intro Ho. unfold rzmap_field, rz_valid. cbn [vx vy vz]. numR.
  destruct (Rleb_spec (ug_front gz) z); destruct (Rleb_spec z (ug_back gz));
    destruct (Rleb_spec (ug_front gr) (sqrt (x * x + y * y)));
    destruct (Rleb_spec (sqrt (x * x + y * y)) (ug_back gr)); cbn [andb negb]; try reflexivity.
  exfalso. destruct Ho as [Ho|[Ho|Ho]]; lra.
Qed.

(** ** the interpolant is NOT continuous across cells: B_z is taken at the lower
    r node, so it jumps across every r grid line (and B_r across every z grid
    line).  Witness: a 2 x 3 map whose value_z equals the r index. *)
Lemma sqrt_sq0 (a : R) : 0 <= a -> sqrt (a * a + 0 * 0) = a.
Proof. intro Ha. replace (a * a + 0 * 0) with (a * a) by ring. apply sqrt_square. exact Ha. Qed.

Definition wgz : ugrid R := UGrid 0 1 1 2.
Definition wgr : ugrid R := UGrid 0 2 1 3.
Definition wmap (i : Z) : R * R := (IZR (i mod 3), 0).

Lemma wfield_bz (a : R) (ir : Z) : (0 <= ir <= 1)%Z -> 0 < a -> IZR ir <= a < IZR ir + 1 ->
  vz (rzmap_field wgz wgr wmap (V3 a 0 0)) = IZR ir.
Proof.
  intros Hir Ha Hc.
  assert (Hs : sqrt (a * a + 0 * 0) = a) by (apply sqrt_sq0; lra).
  assert (Hat : forall j, ug_at wgr j = IZR j) by (intro j; unfold ug_at, wgr; cbn; numR; ring).
  assert (Hat0 : ug_at wgz 0 = 0) by (unfold ug_at, wgz; cbn; numR; ring).
  assert (Hat1 : ug_at wgz (0 + 1) = 1) by (unfold ug_at, wgz; cbn; numR; ring).
  destruct (rzmap_in_cell wgz wgr wmap a 0 0 0 ir) as [Heq [_ [_ [_ [_ [Hnode _]]]]]];
    try (cbn; lra); try (cbn; lia); try (rewrite Hs).
  - rewrite !Hat, plus_IZR. lra.
  - cbn. destruct Hir as [H0 H1]. apply IZR_le in H0, H1. lra.
  - rewrite Heq. cbn [vz]. rewrite Hnode by (rewrite Hat0; reflexivity).
    unfold rz_id, wmap, wgr. cbn [ug_size fst]. f_equal.
    destruct Hir as [H0 H1]. assert (ir = 0 \/ ir = 1)%Z as [-> | ->] by lia; reflexivity.
Qed.

Theorem rzmap_continuity_refuted :
  exists (gz gr : ugrid R) (fmap : Z -> R * R),
    0 < ug_delta gz /\ 0 < ug_delta gr /\
    forall eps, 0 < eps -> exists r1 r2, 0 < r1 < r2 /\ r2 - r1 < eps /\
      vz (rzmap_field gz gr fmap (V3 r2 0 0)) - vz (rzmap_field gz gr fmap (V3 r1 0 0)) = 1.
Proof.
  exists wgz, wgr, wmap. split; [cbn; lra|]. split; [cbn; lra|].
  intros eps He. set (h := Rmin (eps / 2) (/ 2)).
  assert (Hh : 0 < h <= / 2 /\ h < eps).
  { unfold h. split; [split; [apply Rmin_glb_lt; lra|apply Rmin_r]|].
    eapply Rle_lt_trans; [apply Rmin_l|lra]. }
  exists (1 - h), 1. split; [lra|]. split; [lra|].
  rewrite (wfield_bz 1 1) by (try lia; lra). rewrite (wfield_bz (1 - h) 0) by (try lia; lra). lra.
Qed.
