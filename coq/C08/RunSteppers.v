(** * C08: float entry points of the stepper models for props/C08/run.py *)
From Coq Require Import ZArith List Bool Floats.
From Celer Require Import Base.Num Base.NumF Base.FloatFun Base.Vec3
  C08.PropagatorModel C08.DriverModel C08.Helix C08.StepperBase Generated.C08_steppers C08.Steppers C08.Run.
Import ListNotations.

Definition mk_v3 (l : list float) : vec3 float :=
  match l with [a; b; c] => V3 a b c | _ => V3 0 0 0 end%float.

(** field = [b0(3); gx(3); gy(3); gz(3)] *)
Definition mk_field (l : list float) : vec3 float -> vec3 float :=
  match l with
  | [a1;a2;a3;b1;b2;b3;c1;c2;c3;d1;d2;d3] =>
      lin_field (V3 a1 a2 a3) (V3 b1 b2 b3) (V3 c1 c2 c3) (V3 d1 d2 d3)
  | [a1;a2;a3] => uniform_field (V3 a1 a2 a3)
  | _ => uniform_field (V3 0 0 0)%float
  end.

Definition sresl (r : sres float) := (odel (s_mid r), odel (s_end r), odel (s_err r)).

(** kind 0 = RungeKuttaStepper, 1 = DormandPrinceStepper *)
Definition run_stepper (kind : nat) (coeffi : float) (field : list float) (step : float) (st : list float) :=
  match kind with
  | O => sresl (rk4_mag coeffi (mk_field field) step (mk_ode st))
  | _ => sresl (dp_mag coeffi (mk_field field) step (mk_ode st))
  end.

Definition run_rhs (coeffi : float) (field : list float) (st : list float) :=
  odel (mfe_rhs coeffi (mk_field field) (mk_ode st)).

Definition run_coeffi (e_native mevc_native charge : float) := mfe_coeffi e_native mevc_native charge.
