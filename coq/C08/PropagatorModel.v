(** * C08: model of [FieldPropagator<DriverT,GTV>::operator()(real_type step)]
    (src/celeritas/field/FieldPropagator.hh) over [Num].

    The driver and the geometry are *oracles*: abstract state types [D], [G]
    with the member functions the propagator calls, threaded explicitly.
    Executable definitions only (no proofs here): the scripted instance at the
    end is what [props/C08/run.py] replays against the real template. *)
From Coq Require Import ZArith List Bool.
From Celer Require Import Base.Num Base.Vec3.
Import ListNotations.
Local Open Scope num_scope.

Section Types.
  Context {T : Type} `{Num T}.
  (** celeritas/field/Types.hh *)
  Record ode := Ode { o_pos : vec3 T; o_mom : vec3 T }.
  Record dres := DRes { d_state : ode; d_step : T }.
  (** geocel/Types.hh [Propagation] as returned by [find_next_step] *)
  Record lin := Lin { l_dist : T; l_boundary : bool }.
  (** detail/FieldUtils.hh *)
  Record chord := Chord { c_len : T; c_dir : vec3 T }.
  (** the three driver accessors the propagator reads *)
  Record popts := POpts { minsub : T; dint : T; max_substeps : nat }.

  (** [make_chord]: dir = dst - src; length = norm(dir); dir /= length *)
  Definition make_chord (src dst : vec3 T) : chord :=
    let d := vsub dst src in
    let l := norm d in
    Chord l (V3 (vx d / l) (vy d / l) (vz d / l)).

  (** [is_intercept_close]: delta_sq accumulates from 0 *)
  Definition is_intercept_close (pos dir : vec3 T) (dist : T) (target : vec3 T) (tol : T) : bool :=
    let dsq := ((n0 + nsq (vx pos - vx target + dist * vx dir))
                   + nsq (vy pos - vy target + dist * vy dir))
                   + nsq (vz pos - vz target + dist * vz dir) in
    dsq <=? nsq tol.

  (** [celeritas::min/max] on floating point are [std::fmin/fmax]
      (corecel/math/Algorithms.hh): a NaN argument is ignored *)
  Definition nfmin (a b : T) : T :=
    if a <? b then a else if b <? a then b else if a =? a then a else b.
  Definition nfmax (a b : T) : T :=
    if b <? a then a else if a <? b then b else if a =? a then a else b.

  (** [bump_distance() = delta_intersection() * real_type(0.1)] *)
  Definition bump_distance (o : popts) : T := dint o * nQ 1 10.
End Types.
Arguments ode T : clear implicits.
Arguments dres T : clear implicits.
Arguments lin T : clear implicits.
Arguments chord T : clear implicits.
Arguments popts T : clear implicits.

Section Propagator.
  Context {T : Type} `{Num T}.
  (** oracle state types and member functions *)
  Variables D G : Type.
  Variable advance : D -> T -> ode T -> D * dres T.
  Variable g_pos : G -> vec3 T.
  Variable g_on_boundary : G -> bool.
  Variable g_set_dir : G -> vec3 T -> G.
  Variable g_find_next : G -> T -> G * lin T.
  Variable g_move_internal : G -> vec3 T -> G.
  Variable g_move_to_boundary : G -> G.

  Variable o : popts T.
  Variable step : T.

  (** which of the four branches an iteration took *)
  Inductive branch := BAccept | BHalve | BFinish (crossed : bool) | BRetry.

  (** loop-carried variables *)
  Record lstate := LS {
    ls_d : D; ls_g : G; ls_st : ode T;
    ls_bnd : bool;            (* result.boundary *)
    ls_dist : T;              (* result.distance *)
    ls_rem : T;               (* remaining *)
    ls_nsub : nat;            (* remaining_substeps *)
    ls_trace : list branch    (* ghost: branches taken, most recent first *)
  }.

  (** one pass through the body of the do-while loop *)
  Definition body (s : lstate) : lstate :=
    let st := ls_st s in
    let '(d1, sub) := advance (ls_d s) (ls_rem s) st in
    let ch := make_chord (o_pos st) (o_pos (d_state sub)) in
    let g1 := if minsub o <=? c_len ch then g_set_dir (ls_g s) (c_dir ch) else ls_g s in
    let '(g2, l) := g_find_next g1 (c_len ch + dint o) in
    let upd := d_step sub * l_dist l / c_len ch in
    if negb (l_boundary l) then
      let dist' := ls_dist s + d_step sub in
      LS d1 (g_move_internal g2 (o_pos (d_state sub))) (d_state sub) false dist'
         (step - dist') (pred (ls_nsub s)) (BAccept :: ls_trace s)
    else if ls_bnd s && (l_dist l <? bump_distance o) then
      LS d1 g2 st (ls_bnd s) (ls_dist s) (d_step sub / n2) (ls_nsub s) (BHalve :: ls_trace s)
    else if (upd <=? minsub o)
            || is_intercept_close (o_pos st) (c_dir ch) (l_dist l) (o_pos (d_state sub)) (dint o)
            || (c_len ch =? n0) then
      let bnd' := (l_dist l <=? c_len ch) || (ls_dist s + upd <=? step) || (c_len ch =? n0) in
      let pos' := if bnd' then o_pos st else o_pos (d_state sub) in
      let g3 := if bnd' then g2 else g_move_internal g2 (o_pos (d_state sub)) in
      LS d1 g3 (Ode pos' (o_mom (d_state sub))) bnd' (ls_dist s + nfmin upd (d_step sub))
         n0 (ls_nsub s) (BFinish bnd' :: ls_trace s)
    else
      LS d1 g2 st (ls_bnd s) (ls_dist s) upd (ls_nsub s) (BRetry :: ls_trace s).

  Definition continue (s : lstate) : bool :=
    (minsub o <? ls_rem s) && (0 <? ls_nsub s)%nat.

  (** do { body } while (remaining > minimum_substep && remaining_substeps > 0) *)
  Fixpoint loop (fuel : nat) (s : lstate) : option lstate :=
    match fuel with
    | O => None
    | S f => let s' := body s in if continue s' then loop f s' else Some s'
    end.

  (** how the tail classified the outcome *)
  Inductive outcome := OLooping | OBoundary | OFullStep | OBumped.

  Record presult := PR {
    r_distance : T; r_boundary : bool; r_looping : bool;
    r_state : ode T;          (* state_ at return *)
    r_dir : vec3 T;           (* the direction written to the geometry *)
    r_d : D; r_g : G;
    r_nsub : nat;             (* ghost: remaining_substeps at loop exit *)
    r_loopdist : T;           (* ghost: result.distance at loop exit *)
    r_outcome : outcome;
    r_trace : list branch
  }.

  Definition init_state (d : D) (g : G) (st : ode T) : lstate :=
    LS d g st (g_on_boundary g) n0 step (max_substeps o) [].

  (** everything after the loop *)
  Definition tail (s : lstate) : presult :=
    let looping := (ls_nsub s =? 0)%nat && (ls_dist s <? step) in
    let moved := n0 <? ls_dist s in
    let to_bnd := negb looping && moved && ls_bnd s in
    let g1 := if to_bnd then g_move_to_boundary (ls_g s) else ls_g s in
    let pos1 := if to_bnd then g_pos g1 else o_pos (ls_st s) in
    let dist1 := if negb looping && moved && negb (ls_bnd s) && (ls_dist s <? step)
                 then step else ls_dist s in
    let dir := make_unit_vector (o_mom (ls_st s)) in
    let g2 := g_set_dir g1 dir in
    if dist1 =? n0 then
      let dist2 := nfmin (bump_distance o) step in
      let pos2 := axpy dist2 dir pos1 in
      PR dist2 false looping (Ode pos2 (o_mom (ls_st s))) dir (ls_d s)
         (g_move_internal g2 pos2) (ls_nsub s) (ls_dist s) OBumped (ls_trace s)
    else
      PR dist1 (ls_bnd s) looping (Ode pos1 (o_mom (ls_st s))) dir (ls_d s) g2
         (ls_nsub s) (ls_dist s)
         (if looping then OLooping else if ls_bnd s then OBoundary else OFullStep)
         (ls_trace s).

  (** the constructor reads the start state from the geometry:
      state_.pos = geo.pos(); state_.mom = |p| * geo.dir()  (done by the caller) *)
  Definition propagate (fuel : nat) (d : D) (g : G) (st : ode T) : option presult :=
    match loop fuel (init_state d g st) with
    | None => None
    | Some s => Some (tail s)
    end.
End Propagator.

Arguments LS {T D G}.
Arguments PR {T D G}.
Arguments ls_d {T D G}. Arguments ls_g {T D G}. Arguments ls_st {T D G}.
Arguments ls_bnd {T D G}. Arguments ls_dist {T D G}. Arguments ls_rem {T D G}.
Arguments ls_nsub {T D G}. Arguments ls_trace {T D G}.
Arguments r_distance {T D G}. Arguments r_boundary {T D G}. Arguments r_looping {T D G}.
Arguments r_state {T D G}. Arguments r_dir {T D G}. Arguments r_d {T D G}.
Arguments r_g {T D G}. Arguments r_nsub {T D G}. Arguments r_loopdist {T D G}.
Arguments r_outcome {T D G}. Arguments r_trace {T D G}.

(** ** Scripted oracles: answers are popped from lists, every call is logged.
    Mirrors [ScriptedDriver] / [ScriptedGeo] in props/C08/harness/scripted.cc. *)
Section Scripted.
  Context {T : Type} `{Num T}.

  Inductive gevent :=
  | ESetDir (dir : vec3 T)
  | EFindNext (limit : T)
  | EMoveInternal (pos : vec3 T)
  | EMoveToBoundary.

  (** driver: remaining answers, log of (remaining, state) arguments *)
  Definition sdriver := (list (dres T) * list (T * ode T))%type.
  Definition s_advance (d : sdriver) (rem : T) (st : ode T) : sdriver * dres T :=
    match fst d with
    | a :: r => ((r, (rem, st) :: snd d), a)
    | [] => (([], (rem, st) :: snd d), DRes st rem)
    end.

  (** geometry: remaining answers, position, direction, on-boundary flag,
      distance of the last boundary found, event log *)
  Record sgeo := SGeo {
    sg_ans : list (lin T); sg_pos : vec3 T; sg_dir : vec3 T; sg_onb : bool;
    sg_next : T; sg_log : list gevent }.
  Definition s_set_dir (g : sgeo) (dir : vec3 T) : sgeo :=
    SGeo (sg_ans g) (sg_pos g) dir (sg_onb g) (sg_next g) (ESetDir dir :: sg_log g).
  Definition s_find_next (g : sgeo) (limit : T) : sgeo * lin T :=
    match sg_ans g with
    | a :: r => (SGeo r (sg_pos g) (sg_dir g) (sg_onb g) (l_dist a) (EFindNext limit :: sg_log g), a)
    | [] => (SGeo [] (sg_pos g) (sg_dir g) (sg_onb g) limit (EFindNext limit :: sg_log g), Lin limit false)
    end.
  Definition s_move_internal (g : sgeo) (pos : vec3 T) : sgeo :=
    SGeo (sg_ans g) pos (sg_dir g) false (sg_next g) (EMoveInternal pos :: sg_log g).
  Definition s_move_to_boundary (g : sgeo) : sgeo :=
    SGeo (sg_ans g) (axpy (sg_next g) (sg_dir g) (sg_pos g)) (sg_dir g) true (sg_next g)
         (EMoveToBoundary :: sg_log g).

  Definition propagate_scripted (o : popts T) (step : T) (onb : bool)
      (pos dir : vec3 T) (pmag : T) (dans : list (dres T)) (gans : list (lin T)) :=
    propagate sdriver sgeo s_advance sg_pos sg_onb s_set_dir s_find_next
      s_move_internal s_move_to_boundary o step (length dans)
      (dans, []) (SGeo gans pos dir onb n0 [])
      (Ode pos (V3 (pmag * vx dir) (pmag * vy dir) (pmag * vz dir))).
End Scripted.
