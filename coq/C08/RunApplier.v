(** * C08: float entry point of the PropagationApplier model for props/C08/applier.py *)
From Coq Require Import ZArith List Bool Floats.
From Celer Require Import Base.Num Base.NumF Base.FloatFun C08.ApplierModel.
Import ListNotations.

Definition enc_paction (a : paction) : nat :=
  match a with ABoundary => 0 | ATrackingCut => 3 | APropLimit => 5 | APre c => c end.

(** call = (E, step, pre-step action class, dist, boundary, looping, can_loop) *)
Definition mk_acall (c : float * float * nat * float * bool * bool * bool) : acall float :=
  let '(e, st, pc, d, b, l, cl) := c in ACall st pc e cl (Prop_ d b l).

Definition run_applier (stable : bool) (ms mx : nat) (thr : float)
    (calls : list (float * float * nat * float * bool * bool * bool)) :=
  map (fun r => (s_step (fst r), enc_paction (s_action (fst r)), s_nloop (fst r), snd r))
      (apply_many stable (LThr ms mx thr) 0 (map mk_acall calls)).
