(** * C08: float entry point of the RZMapField model *)
From Coq Require Import ZArith List Bool Floats.
From Celer Require Import Base.Num Base.NumF Base.FloatFun Base.Vec3 C08.RZMap.
Import ListNotations.

(** grids = [zfront; zback; zdelta] nz [rfront; rback; rdelta] nr; map = flat list of (value_z, value_r) *)
Definition run_rzmap (gzl : list float) (nz : Z) (grl : list float) (nr : Z)
    (fm : list (float * float)) (pts : list (float * float * float)) :=
  match gzl, grl with
  | [a; b; c], [d; e; f] =>
      let fmap := fun i : Z => nth (Z.to_nat i) fm (0, 0)%float in
      map (fun p => let '(x, y, z) := p in
                    let v := rzmap_field (UGrid a b c nz) (UGrid d e f nr) fmap (V3 x y z) in
                    (vx v, vy v, vz v)) pts
  | _, _ => []
  end.
