(** * C08: model of [ZHelixStepper<MagFieldEquation<UniformZField>>]
    (src/celeritas/field/ZHelixStepper.hh, MagFieldEquation.hh, UniformZField.hh)
    over [Num].  Executable definitions only. *)
From Coq Require Import ZArith List Bool.
From Celer Require Import Base.Num Base.Vec3 C08.PropagatorModel C08.DriverModel.
Local Open Scope num_scope.

Section Helix.
  Context {T : Type} `{Num T}.

  (** [MagFieldEquation::operator()] with a field value [b] at the position:
      result.pos = momentum_inv * y.mom;
      result.mom = (coeffi * momentum_inv) * cross_product(y.mom, B) *)
  Definition lorentz_rhs (coeffi : T) (b : vec3 T) (y : ode T) : ode T :=
    let minv := n1 / nsqrt (dot (o_mom y) (o_mom y)) in
    Ode (vscale minv (o_mom y)) (vscale (coeffi * minv) (cross (o_mom y) b)).

  (** [ZHelixStepper::move]; [neg] = (helicity == Helicity::negative) *)
  Definition zhelix_move (step radius : T) (neg : bool) (beg rhs : ode T) : ode T :=
    let del_phi := if neg then (- step) / radius else step / radius in
    let s := nsin del_phi in
    let c := ncos del_phi in
    let p := o_pos beg in
    let r := o_pos rhs in
    let momentum := norm (o_mom beg) in
    Ode (V3 (vx p * c - vy p * s) (vx p * s + vy p * c) (vz p + del_phi * radius * vz r))
        (V3 ((vx r * c - vy r * s) * momentum) ((vx r * s + vy r * c) * momentum) (vz r * momentum)).

  Definition zhelix_radius (beg rhs : ode T) : T :=
    nsqrt (dot (o_mom beg) (o_mom beg) - vz (o_mom beg) * vz (o_mom beg)) / norm (o_mom rhs).
  (** Helicity(rhs.mom[0] / rhs.pos[1] > 0): enum { positive = false, negative = true } *)
  Definition zhelix_neg (rhs : ode T) : bool := n0 <? vx (o_mom rhs) / vy (o_pos rhs).

  Definition zhelix_tol : T := nQ 1 10000000000.

  Definition zhelix_step (coeffi bz : T) (step : T) (beg : ode T) : sres T :=
    let rhs := lorentz_rhs coeffi (V3 n0 n0 bz) beg in
    let radius := zhelix_radius beg rhs in
    let neg := zhelix_neg rhs in
    SRes (zhelix_move (nhalf * step) radius neg beg rhs)
         (zhelix_move step radius neg beg rhs)
         (Ode (V3 zhelix_tol zhelix_tol zhelix_tol) (V3 zhelix_tol zhelix_tol zhelix_tol)).
End Helix.
