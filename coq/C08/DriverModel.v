(** * C08: model of [FieldDriver<StepperT>] (src/celeritas/field/FieldDriver.hh)
    and the helpers of detail/FieldUtils.hh over [Num].  The stepper is an
    oracle with explicit state [S].  Executable definitions only. *)
From Coq Require Import ZArith List Bool.
From Celer Require Import Base.Num Base.Vec3 C08.PropagatorModel.
Import ListNotations.
Local Open Scope num_scope.

Section Driver.
  Context {T : Type} `{Num T}.

  (** FieldStepperResult *)
  Record sres := SRes { s_mid : ode T; s_end : ode T; s_err : ode T }.

  (** FieldDriverOptions (errcon is unused by the code) *)
  Record dopts := DOpts {
    minimum_step : T; delta_chord : T; delta_intersection : T;
    epsilon_step : T; epsilon_rel_max : T;
    pgrow : T; pshrink : T; safety : T;
    max_stepping_increase : T; max_stepping_decrease : T;
    max_nsteps : nat }.
  (** static constexpr members *)
  Definition initial_step_tol : T := nQ 1 1000000.
  Definition dchord_tol : T := nQ 1 100000 * nQ 1 10.   (* 1e-5 * units::millimeter (CGS) *)
  Definition min_chord_shrink : T := nhalf.

  (** detail::rel_err_sq *)
  Definition rel_err_sq (err : ode T) (step : T) (mom : vec3 T) : T :=
    let errpos2 := dot (o_pos err) (o_pos err) / (step * step) in
    let errvel2 := dot (o_mom err) (o_mom err) / dot mom mom in
    nfmax errpos2 errvel2.

  (** detail::distance_chord *)
  Definition distance_chord (beg mid en : vec3 T) : T :=
    let beg_mid := vsub mid beg in
    let beg_end := vsub en beg in
    let c := cross beg_end beg_mid in
    nsqrt (dot c c / dot beg_end beg_end).

  Variable S : Type.
  Variable stepper : S -> T -> ode T -> S * sres.
  Variable o : dopts.

  Definition err_sq_of (r : sres) (step : T) (mom : vec3 T) : T :=
    rel_err_sq (s_err r) step mom / (epsilon_rel_max o * epsilon_rel_max o).

  (** new_step_scale: safety * fastpow(err_sq, half * (err_sq > 1 ? pshrink : pgrow)),
      fastpow(a, b) = exp(b * log(a)) *)
  Definition new_step_scale (err_sq : T) : T :=
    safety o * nexp ((nhalf * (if n1 <? err_sq then pshrink o else pgrow o)) * nlog err_sq).

  (** ChordSearch: end.step, end.state, err_sq; [fc_ok] is the ghost
      [succeeded] flag and [fc_last] the last stepper result *)
  Record chord_search := CS { fc_step : T; fc_state : ode T; fc_errsq : T; fc_ok : bool; fc_last : sres; fc_tried : T }.

  (** do { ... } while (!succeeded && --remaining_steps > 0): [m] = iterations
      still allowed after this one *)
  Fixpoint fnc_loop (m : nat) (s : S) (step : T) (st : ode T) : S * chord_search :=
    let '(s1, r) := stepper s step st in
    let dchord := distance_chord (o_pos st) (o_pos (s_mid r)) (o_pos (s_end r)) in
    if delta_chord o + dchord_tol <? dchord then
      let scale := nfmax (nsqrt (delta_chord o / dchord)) min_chord_shrink in
      let step' := step * scale in
      match m with
      | O => (s1, CS step' (s_end r) (err_sq_of r step' (o_mom st)) false r step)
      | Datatypes.S m' => fnc_loop m' s1 step' st
      end
    else (s1, CS step (s_end r) (err_sq_of r step (o_mom st)) true r step).

  Definition find_next_chord (s : S) (step : T) (st : ode T) : S * chord_search :=
    fnc_loop (pred (max_nsteps o)) s step st.

  (** Integration: end.state, end.step, proposed_step *)
  Record integration := IG { ig_state : ode T; ig_step : T; ig_proposed : T; ig_ok : bool }.

  Fixpoint ogs_loop (m : nat) (s : S) (step : T) (st : ode T) : S * integration :=
    let '(s1, r) := stepper s step st in
    let e := err_sq_of r step (o_mom st) in
    if n1 <? e then
      let step' := step * nfmax (new_step_scale e) (max_stepping_decrease o) in
      match m with
      | O => (s1, IG (s_end r) step'
                     (step' * nfmin (new_step_scale e) (max_stepping_increase o)) false)
      | Datatypes.S m' => ogs_loop m' s1 step' st
      end
    else (s1, IG (s_end r) step
                 (step * nfmin (new_step_scale e) (max_stepping_increase o)) true).

  Definition one_good_step (s : S) (step : T) (st : ode T) : S * integration :=
    ogs_loop (pred (max_nsteps o)) s step st.

  Definition integrate_step (s : S) (step : T) (st : ode T) : S * integration :=
    if minimum_step o <? step then one_good_step s step st
    else
      let '(s1, r) := stepper s step st in
      let e := err_sq_of r step (o_mom st) in
      (s1, IG (s_end r) step (step * new_step_scale e) true).

  (** accurate_advance loop; returns (stepper state, last end state, curve_length) *)
  Fixpoint aa_loop (m : nat) (s : S) (h curve endl hthr : T) (st : ode T) : S * (ode T * T * bool) :=
    let '(s1, ig) := integrate_step s h st in
    let curve' := curve + ig_step ig in
    if (h <? hthr) || (endl <=? curve') then (s1, (ig_state ig, curve', true))
    else
      let h' := nfmin (nfmax (ig_proposed ig) (minimum_step o)) (endl - curve') in
      match m with
      | O => (s1, (ig_state ig, curve', false))
      | Datatypes.S m' => aa_loop m' s1 h' curve' endl hthr (ig_state ig)
      end.

  Definition accurate_advance (s : S) (step : T) (st : ode T) (hinitial : T) : S * dres T :=
    let h := if (initial_step_tol * step <? hinitial) && (hinitial <? step) then hinitial else step in
    let '(s1, (stf, curve, _)) := aa_loop (pred (max_nsteps o)) s h n0 step (epsilon_step o * step) st in
    (s1, DRes stf (nfmin curve step)).

  (** driver state: [max_chord_], [None] = +infinity *)
  Definition advance (mc : option T) (s : S) (step : T) (st : ode T) : (option T * S) * dres T :=
    if step <=? minimum_step o then
      let '(s1, r) := stepper s step st in ((mc, s1), DRes (s_end r) step)
    else
      let trial := match mc with
                   | None => step
                   | Some c => nfmin step c
                   end in
      let '(s1, cs) := find_next_chord s trial st in
      let mc' := if fc_step cs <? step then Some (fc_step cs * (n1 / min_chord_shrink)) else mc in
      if n1 <? fc_errsq cs then
        let next_step := step * new_step_scale (fc_errsq cs) in
        let '(s2, r) := accurate_advance s1 (fc_step cs) st next_step in
        ((mc', s2), r)
      else ((mc', s1), DRes (fc_state cs) (fc_step cs)).
End Driver.

Arguments sres T : clear implicits.
Arguments dopts T : clear implicits.

(** ** Scripted stepper: pops absolute answers, logs the calls *)
Section ScriptedStepper.
  Context {T : Type} `{Num T}.
  Definition sstepper := (list (sres T) * list (T * ode T))%type.
  Definition s_step (s : sstepper) (step : T) (st : ode T) : sstepper * sres T :=
    match fst s with
    | a :: r => ((r, (step, st) :: snd s), a)
    | [] => (([], (step, st) :: snd s), SRes st st (Ode (V3 n0 n0 n0) (V3 n0 n0 n0)))
    end.

  (** successive [advance] requests from the same start state on one driver
      object (as the propagator's retries do); returns results, leftover script
      and the call log *)
  Fixpoint advance_many (o : dopts T) (mc : option T) (s : sstepper) (st : ode T)
      (reqs : list T) : list (dres T) * sstepper :=
    match reqs with
    | [] => ([], s)
    | r :: rest =>
        let '((mc', s'), res) := advance sstepper s_step o mc s r st in
        let '(out, sf) := advance_many o mc' s' st rest in
        (res :: out, sf)
    end.
End ScriptedStepper.
