(** * C08: [MagFieldEquation] (coefficient, right-hand side over a field functor)
    and the numerical steppers instantiated with it, as built by
    [make_mag_field_stepper<StepperT>(field, charge)] (MakeMagFieldPropagator.hh).
    The stepper bodies themselves are in Generated/C08_steppers.v (regenerated
    from the headers by translators/steppers.py).  Executable definitions only. *)
From Coq Require Import ZArith List Bool.
From Celer Require Import Base.Num Base.Vec3 C08.PropagatorModel C08.DriverModel C08.Helix
  C08.StepperBase Generated.C08_steppers.
Local Open Scope num_scope.

Section Steppers.
  Context {T : Type} `{Num T}.

  (** [MagFieldEquation::MagFieldEquation]:
      coeffi_ = native_value_from(charge) / native_value_from(OdeState::MomentumUnits{1});
      native_value_from(Quantity<U>{v}) = v * U::value().  [e_native] =
      units::EElectron::value(), [mevc_native] = units::MevPerC::value() *)
  Definition mfe_coeffi (e_native mevc_native charge : T) : T :=
    (charge * e_native) / (n1 * mevc_native).

  (** [MagFieldEquation::operator()]: the field functor is evaluated at y.pos *)
  Definition mfe_rhs (coeffi : T) (field : vec3 T -> vec3 T) (y : ode T) : ode T :=
    lorentz_rhs coeffi (field (o_pos y)) y.

  (** field functors: UniformField (returns its value), UniformZField ({0,0,bz}),
      and the harness's linear test field B(p) = b0 + (gx.p, gy.p, gz.p) *)
  Definition uniform_field (b : vec3 T) : vec3 T -> vec3 T := fun _ => b.
  Definition uniform_z_field (bz : T) : vec3 T -> vec3 T := fun _ => V3 n0 n0 bz.
  Definition lin_field (b0 gx gy gz : vec3 T) : vec3 T -> vec3 T :=
    fun p => V3 (vx b0 + dot gx p) (vy b0 + dot gy p) (vz b0 + dot gz p).

  Definition rk4_mag (coeffi : T) (field : vec3 T -> vec3 T) (step : T) (beg : ode T) : sres T :=
    rk_step (mfe_rhs coeffi field) step beg.
  Definition dp_mag (coeffi : T) (field : vec3 T -> vec3 T) (step : T) (beg : ode T) : sres T :=
    dp_step (mfe_rhs coeffi field) step beg.
End Steppers.
