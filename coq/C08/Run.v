(** * C08: entry points for the correspondence check (float instance). *)
From Coq Require Import ZArith List Bool Floats.
From Celer Require Import Base.Num Base.NumF Base.FloatFun Base.Vec3
  C08.PropagatorModel C08.DriverModel C08.Helix.
Import ListNotations.

Definition v3l (v : vec3 float) : list float := [vx v; vy v; vz v].
Definition odel (s : ode float) : list float := v3l (o_pos s) ++ v3l (o_mom s).
Definition mk_ode (l : list float) : ode float :=
  match l with
  | [a; b; c; d; e; f] => Ode (V3 a b c) (V3 d e f)
  | _ => Ode (V3 0 0 0) (V3 0 0 0)
  end%float.

Definition mk_v3f (l : list float) : vec3 float :=
  match l with [a; b; c] => V3 a b c | _ => V3 0 0 0 end%float.

Definition enc_branch (b : branch) : nat :=
  match b with BAccept => 0 | BHalve => 1 | BFinish true => 2 | BFinish false => 3 | BRetry => 4 end.
Definition enc_outcome (x : outcome) : nat :=
  match x with OLooping => 0 | OBoundary => 1 | OFullStep => 2 | OBumped => 3 end.
Definition enc_gevent (e : gevent (T:=float)) : nat * list float :=
  match e with
  | ESetDir d => (0, v3l d)
  | EFindNext l => (1, [l])
  | EMoveInternal p => (2, v3l p)
  | EMoveToBoundary => (3, [])
  end.

(** driver answers: [step; pos3; mom3]; geometry answers: (dist, boundary) *)
Definition mk_dres (l : list float) : dres float :=
  match l with
  | s :: rest => DRes (mk_ode rest) s
  | [] => DRes (mk_ode []) 0%float
  end.

Definition run_prop (minsub dint : float) (maxsub : nat) (step : float) (onb : bool)
    (pos dir : list float) (pmag : float)
    (dans : list (list float)) (gans : list (float * bool)) :=
  let p := mk_ode (pos ++ dir) in
  match propagate_scripted (POpts minsub dint maxsub) step onb (o_pos p) (o_mom p) pmag
          (map mk_dres dans) (map (fun a => Lin (fst a) (snd a)) gans) with
  | None => None
  | Some r =>
      Some ((r_distance r, r_boundary r, r_looping r),
            (sg_onb (r_g r), v3l (sg_pos (r_g r)), v3l (sg_dir (r_g r))),
            (r_nsub r, enc_outcome (r_outcome r), rev (map enc_branch (r_trace r))),
            rev (map (fun c => fst c :: odel (snd c)) (snd (r_d r))),
            rev (map enc_gevent (sg_log (r_g r))))
  end.

(** a HISTORY of calls on one propagator object (the constructor ran once,
    before the first call).  The internal momentum [state_.mom] of call k is the
    start of call k+1; the start POSITION and the geometry state of call k+1 are
    re-read from the implementation's geometry at the end of call k: by
    [C08_propagator_state_synced] the internal position equals the geometry
    position after every call, and re-reading it keeps the two sides bit-aligned
    (a chord is the difference of two positions, so an ulp of the position is a
    large relative change of a tiny chord).  A stale internal position in the
    implementation shows up as a differing argument of the first [advance].
    Each call gets the absolute answers the implementation's oracles gave during
    that call; logs are per call. *)
Definition prop_out (r : presult (T:=float) sdriver sgeo) :=
  ((r_distance r, r_boundary r, r_looping r),
   (sg_onb (r_g r), v3l (sg_pos (r_g r)), v3l (sg_dir (r_g r))),
   (r_nsub r, enc_outcome (r_outcome r), rev (map enc_branch (r_trace r))),
   rev (map (fun c => fst c :: odel (snd c)) (snd (r_d r))),
   rev (map enc_gevent (sg_log (r_g r)))).

Definition hcall := (float * list (list float) * list (float * bool) * (bool * list float * list float))%type.

Fixpoint prop_many (o : popts float) (mom : vec3 float) (calls : list hcall) :=
  match calls with
  | [] => ([], true)
  | (step, dans, gans, (onb, pos, dir)) :: rest =>
      let g0 := SGeo (map (fun a => Lin (fst a) (snd a)) gans) (mk_v3f pos) (mk_v3f dir) onb 0%float [] in
      match propagate sdriver sgeo s_advance sg_pos sg_onb s_set_dir s_find_next
              s_move_internal s_move_to_boundary o step (length dans) (map mk_dres dans, []) g0
              (Ode (mk_v3f pos) mom) with
      | None => ([], false)
      | Some r => let '(out, ok) := prop_many o (o_mom (r_state r)) rest in (prop_out r :: out, ok)
      end
  end.

Definition run_prop_many (minsub dint : float) (maxsub : nat) (dir : list float) (pmag : float)
    (calls : list hcall) :=
  let d := mk_v3f dir in
  prop_many (POpts minsub dint maxsub) (V3 (pmag * vx d) (pmag * vy d) (pmag * vz d))%float calls.

(** stepper answers: 18 floats mid(6) end(6) err(6) *)
Definition mk_sres (l : list float) : sres float :=
  match l with
  | [a1;a2;a3;a4;a5;a6;b1;b2;b3;b4;b5;b6;c1;c2;c3;c4;c5;c6] =>
      SRes (mk_ode [a1;a2;a3;a4;a5;a6]) (mk_ode [b1;b2;b3;b4;b5;b6]) (mk_ode [c1;c2;c3;c4;c5;c6])
  | _ => SRes (mk_ode []) (mk_ode []) (mk_ode [])
  end.

Definition run_driver (ol : list float) (max_nsteps : nat) (st : list float)
    (reqs : list float) (ans : list (list float)) :=
  match ol with
  | [ms; dc; di; es; er; pg; ps; sf; mi; md] =>
      let o := DOpts ms dc di es er pg ps sf mi md max_nsteps in
      let '(out, s) := advance_many o None (map mk_sres ans, []) (mk_ode st) reqs in
      Some (map (fun r => d_step r :: odel (d_state r)) out,
            rev (map (fun c => fst c :: odel (snd c)) (snd s)),
            length (fst s))
  | _ => None
  end.

(** ZHelixStepper on a UniformZField: [coeffi] is MagFieldEquation's
    coefficient (charge / momentum unit, native), returns mid(6) end(6) *)
Definition run_helix (coeffi bz step : float) (st : list float) :=
  let r := zhelix_step coeffi bz step (mk_ode st) in
  (odel (s_mid r), odel (s_end r)).
