(** * C11: the bound UrbanMsc::apply_step hands to find_safety(max_step) is large enough:
    a safety at or above it never cuts the displacement, so an implementation of
    find_safety(max_step) that stops looking beyond max_step is as good as the full one. *)
From Coq Require Import Reals Lra Lia Psatz ZArith List Bool.
From Celer Require Import Base.Num Base.NumR Base.Vec3
  C12.Solver C12.Surfaces C12.SurfacesProofs C11.Safety C11.SafetyProofs C11.Msc C11.MscProofs.
Local Open Scope R_scope.

Lemma calc_displacement_nonneg g t : 0 <= calc_displacement g t.
Proof. unfold calc_displacement. numR. apply Rmult_le_pos; [lra|apply sqrt_pos]. Qed.

Theorem msc_bound_sufficient safety_tol geom_limit g t s :
  0 <= safety_tol <= 1 / 2 ->
  msc_safety_bound safety_tol geom_limit g t <= s ->
  msc_length safety_tol (Some s) g t = calc_displacement g t /\ geom_limit <= s.
Proof.
  intros Ht Hb. pose proof (calc_displacement_nonneg g t) as Hc.
  unfold msc_safety_bound in Hb.
  pose proof (nmax_ge_l (calc_displacement g t * (n1 + n2 * safety_tol)%num) geom_limit) as H1.
  pose proof (nmax_ge_r (calc_displacement g t * (n1 + n2 * safety_tol)%num) geom_limit) as H2.
  numR. split; [|lra].
  unfold msc_length, nmin. numR.
  destruct (Rltb_spec ((1 - safety_tol) * s) (calc_displacement g t)) as [Hlt|]; [|reflexivity].
  exfalso.
  assert (Hs : calc_displacement g t * (1 + 2 * safety_tol) <= s) by lra.
  assert (Hk : 1 <= (1 - safety_tol) * (1 + 2 * safety_tol)) by nra.
  assert ((1 - safety_tol) * (calc_displacement g t * (1 + 2 * safety_tol)) <= (1 - safety_tol) * s)
    by (apply Rmult_le_compat_l; lra).
  nra.
Qed.
