(** * C11: model of the safety-distance calculation over [Num].
    orange/univ/detail/SurfaceFunctors.hh (CalcSafetyDistance),
    orange/univ/SimpleUnitTracker.hh (safety), orange/OrangeTrackView.hh
    (find_safety), orange/detail/UnitInserter.cc (simple_safety flag).
    [None] models +infinity.  Executable definitions only. *)
From Coq Require Import ZArith List Bool.
From Celer Require Import Base.Num Base.Vec3 C12.Solver C12.Surfaces.
Import ListNotations.
Local Open Scope num_scope.

Section Safety.
  Context {T : Type} `{Num T}.
  Notation vec := (vec3 T).

  (** the vector that calc_normal normalises (for the simple-safety types that normalise) *)
  Definition normal_raw (s : surface T) (pos : vec) : option vec :=
    match s with
    | SSphereCentered _ => Some pos
    | SSphere o _ => Some (vsub pos o)
    | SCylCentered t _ =>
        Some (vset (v_axis t) (vget (v_axis t) pos) (vset (u_axis t) (vget (u_axis t) pos) vzero))
    | _ => None
    end.

  (** std::isnan(dir[0]) where dir = calc_normal(pos).
      IEEE: dir[0] = w_x * (1 / |w|) is NaN exactly when |w| = 0 and w_x = 0
      (0 * inf) - or when it is NaN already.  Coq's R has 1/0 = 0, so the
      IEEE characterisation is part of the model: the first disjunct is the
      test as executed on floats (it subsumes the second there), the second
      one is what makes the R instance faithful. *)
  Definition normal_is_nan (s : surface T) (pos : vec) : bool :=
    let n := surf_normal s pos in
    negb (vx n =? vx n)
    || match normal_raw s pos with
       | Some w => (norm w =? n0) && (vx w =? n0)
       | None => false
       end.

  (** celeritas::min_element over an Intersections array (first minimum;
      comparisons with NaN are false, so a leading NaN stays and a later NaN
      is skipped); [None] = +infinity *)
  Definition olt (a b : option T) : bool :=
    match a, b with
    | Some x, Some y => x <? y
    | Some x, None => x =? x          (* x < +inf: false only for NaN (and +inf) *)
    | None, _ => false
    end.
  Definition min_elt (l : list (option T)) : option T :=
    match l with
    | [] => None
    | x :: r => fold_left (fun res y => if olt y res then y else res) r x
    end.
  (** celeritas::min for floating point = std::fmin: a NaN argument is ignored *)
  Definition fmin_o (acc x : option T) : option T :=
    match x with
    | None => acc
    | Some y =>
        if y =? y then
          match acc with
          | None => Some y
          | Some a => if y <? a then Some y else Some a
          end
        else acc
    end.

  (** CalcSafetyDistance::operator()(S const&) *)
  Definition calc_safety (s : surface T) (pos : vec) : option T :=
    if negb (surf_simple_safety s) then Some n0
    else
      let dir := surf_normal s pos in
      if normal_is_nan s pos then None
      else
        match surf_sense s pos with
        | On => Some n0
        | Outside =>
            let m1 := nofZ (-1) in
            min_elt (surf_intersect s pos (V3 (vx dir * m1) (vy dir * m1) (vz dir * m1)) false)
        | Inside => min_elt (surf_intersect s pos dir false)
        end.

  (** SimpleSafetyGetter over the faces, as computed by UnitInserter::insert_volume:
      flags |= simple_safety iff all faces are simple (incoming flags are kept) *)
  Definition faces_simple (faces : list (surface T)) : bool := forallb surf_simple_safety faces.
  Definition volume_flag (input_flag : bool) (faces : list (surface T)) : bool :=
    input_flag || faces_simple faces.

  (** SimpleUnitTracker::safety(pos, vol) *)
  Definition volume_safety (simple_flag : bool) (faces : list (surface T)) (pos : vec) : option T :=
    if negb simple_flag then Some n0
    else fold_left (fun acc s => fmin_o acc (calc_safety s pos)) faces None.

  (** OrangeTrackView::find_safety(): min over levels of the tracker's safety
      at the level's local position *)
  Record level := LV { lv_flag : bool; lv_faces : list (surface T); lv_pos : vec }.
  Definition level_safety (l : level) : option T := volume_safety (lv_flag l) (lv_faces l) (lv_pos l).
  Definition find_safety (levels : list level) : option T :=
    fold_left (fun acc l => fmin_o acc (level_safety l)) levels None.

  (** OrangeTrackView::find_safety(real_type max_step) - the overload Urban MSC
      calls - forwards to find_safety(): "we can't eliminate anything by
      checking only nearby surfaces" *)
  Definition find_safety_max (levels : list level) (max_step : T) : option T := find_safety levels.
End Safety.
