(** * C11: entry points for the correspondence check (float instance). *)
From Coq Require Import ZArith List Floats.
From Celer Require Import Base.Num Base.NumF Base.Vec3 C12.Solver C12.Surfaces C11.Safety.
Import ListNotations.

Definition ofo (o : option float) : float := match o with Some x => x | None => infinity end.
(** safety of one volume (flag, faces) at a local position *)
Definition run_volume_safety (flag : bool) (faces : list (surface float)) (p : vec3 float) : float :=
  ofo (volume_safety flag faces p).
(** find_safety over levels given as (flag, faces, local position) *)
Definition run_find_safety (levels : list (bool * list (surface float) * vec3 float)) : float :=
  ofo (find_safety (map (fun l => LV (fst (fst l)) (snd (fst l)) (snd l)) levels)).
Definition run_calc_safety (s : surface float) (p : vec3 float) : float := ofo (calc_safety s p).
