(** * C11: entry points for the correspondence check (float instance). *)
From Coq Require Import ZArith List Floats.
From Celer Require Import Base.Num Base.NumF Base.Vec3 C12.Solver C12.Surfaces C11.Safety.
Import ListNotations.

Definition ofo (o : option float) : float := match o with Some x => x | None => infinity end.
(** safety of one volume (flag, faces) at a local position *)
Definition run_volume_safety (flag : bool) (faces : list (surface float)) (p : vec3 float) : float :=
  ofo (volume_safety flag faces p).
(** find_safety over levels given as (flag, faces, local position) *)
Definition run_find_safety (levels : list (bool * list (surface float) * vec3 float)) : float :=
  ofo (find_safety (map (fun l => LV (fst (fst l)) (snd (fst l)) (snd l)) levels)).
Definition run_calc_safety (s : surface float) (p : vec3 float) : float := ofo (calc_safety s p).

(** ** the MSC users of the safety (C11/Msc.v) *)
From Celer Require Import C11.Msc.
Definition run_msc_cdisp (g t : float) : float := calc_displacement g t.
(** (displaced?, displacement) *)
Definition run_msc_disp (tol glim : float) (disp : bool) (safety : option float) (g t : float) (udir : vec3 float)
  : bool * list float :=
  match msc_displacement tol glim false disp safety g t udir with
  | Some d => (true, [vx d; vy d; vz d])
  | None => (false, [0; 0; 0]%float)
  end.
(** (bound handed to find_safety, is_displaced afterwards) for a scripted find_safety answer *)
Definition run_msc_query (tol glim : float) (disp : bool) (g t : float) (answer : option float) : float * bool :=
  (msc_safety_bound tol glim g t, andb disp (negb (safety_is_zero answer))).
Definition run_msc_limit (safety range rf ri lmin sf : float) : float := msc_limit safety range rf ri lmin sf.
Definition run_msc_sample (ms lim lmin sampled : float) : float := msc_step_limit ms lim lmin sampled.
