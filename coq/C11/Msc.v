(** * C11: the Urban MSC users of the safety distance.
    Model of the safety-dependent parts of
      celeritas/em/msc/UrbanMsc.hh (apply_step: safety query, `safety == 0` guard, move),
      celeritas/em/msc/detail/UrbanMscScatter.hh (calc_displacement, the displacement clause of
        operator(), sample_displacement_dir),
      celeritas/em/msc/detail/UrbanMscSafetyStepLimit.hh (limit_ from range / safety, operator()).
    A safety of +inf (find_safety's [None]) is [None] here as well.  Executable definitions only. *)
From Coq Require Import ZArith List Bool.
From Celer Require Import Base.Num Base.Vec3 C12.Solver C12.Surfaces C11.Safety.
Import ListNotations.
Local Open Scope num_scope.

Section Msc.
  Context {T : Type} `{Num T}.
  Notation vec := (vec3 T).

  (** diffsq(a, b) = (a - b) * (a + b) *)
  Definition diffsq (a b : T) : T := (a - b) * (a + b).
  (** UrbanMscScatter::calc_displacement(geom_path, true_path) = 0.73 sqrt(true^2 - geom^2) *)
  Definition calc_displacement (geom_path true_path : T) : T :=
    nQ 73 100 * nsqrt (diffsq true_path geom_path).

  (** UrbanMsc::apply_step: the bound handed to find_safety(max_step):
      displ = max(displ * (1 + 2 * safety_tol), geom_limit) *)
  Definition msc_safety_bound (safety_tol geom_limit geom_path true_path : T) : T :=
    nmax (calc_displacement geom_path true_path * (n1 + n2 * safety_tol)) geom_limit.
  (** `if (safety == 0) msc_step.is_displaced = false` *)
  Definition safety_is_zero (safety : option T) : bool :=
    match safety with Some s => s =? n0 | None => false end.

  (** UrbanMscScatter::operator(), displacement clause:
      length = min(calc_displacement, (1 - safety_tol) * safety_) *)
  Definition msc_length (safety_tol : T) (safety : option T) (geom_path true_path : T) : T :=
    let length := calc_displacement geom_path true_path in
    match safety with
    | Some s => nmin length ((n1 - safety_tol) * s)
    | None => length          (* min(length, +inf) *)
    end.
  (** [udir] = sample_displacement_dir(rng, phi); None = no displacement (action != displaced) *)
  Definition msc_displacement (safety_tol geom_limit : T) (skip_sampling is_displaced : bool)
             (safety : option T) (geom_path true_path : T) (udir : vec) : option vec :=
    if skip_sampling then None
    else if is_displaced then
      let length := msc_length safety_tol safety geom_path true_path in
      if geom_limit <=? length
      then Some (V3 (vx udir * length) (vy udir * length) (vz udir * length))
      else None
    else None.

  (** sample_displacement_dir(rng, phi): u = generate_canonical, b = Bernoulli(0.5) *)
  Definition sample_displacement_dir (min_acc u : T) (b : bool) (phi : T) (inc_dir : vec) : vec :=
    let cbeta := nQ 2160 1000 in
    let cbeta1 := nQ 9988703417569197 10000000000000000 in
    let psi := (- nlog (n1 - u * cbeta1)) / cbeta in
    let phi' := phi + (if b then psi else - psi) in
    rotate min_acc (V3 (ncos phi') (nsin phi') n0) inc_dir.

  (** UrbanMsc::apply_step, geometry part: safety = is_displaced ? find_safety(bound) : 0;
      returns the displacement applied by geo.move_internal(pos + displacement) *)
  Definition msc_apply_step (safety_tol geom_limit : T) (levels : list level)
             (skip_sampling is_displaced : bool) (geom_path true_path : T) (udir : vec) : option vec :=
    let safety := if is_displaced
                  then find_safety_max levels (msc_safety_bound safety_tol geom_limit geom_path true_path)
                  else Some n0 in
    let is_displaced' := is_displaced && negb (safety_is_zero safety) in
    msc_displacement safety_tol geom_limit skip_sampling is_displaced' safety geom_path true_path udir.

  (** ** UrbanMscSafetyStepLimit *)
  (** constructor: limit_ from the range, the cached MscRange and the safety *)
  Definition msc_limit (safety range range_factor range_init limit_min safety_factor : T) : T :=
    let limit := if safety <? range
                 then nmax (range_factor * range_init) (safety_factor * safety)
                 else range in
    nmax limit limit_min.
  (** operator()(rng) with [sampled] = sample_gauss(rng) *)
  Definition msc_step_limit (max_step limit limit_min sampled : T) : T :=
    if max_step <=? limit then max_step
    else if limit =? limit_min then limit_min
    else nclamp sampled limit_min max_step.
End Msc.
