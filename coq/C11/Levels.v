(** * C11: the per-level local positions of OrangeTrackView (LevelStateAccessor pos/dir) under the
    moves that do not change the volume path: move_internal(dist) and move_to_boundary() both do
    `axpy(dist, lsa.dir(), &lsa.pos())` for EVERY level 0..level().  Executable definitions only. *)
From Coq Require Import ZArith List Bool.
From Celer Require Import Base.Num Base.Vec3 C12.Solver C12.Surfaces C12.Transforms.
Import ListNotations.
Local Open Scope num_scope.

Section Levels.
  Context {T : Type} `{Num T}.
  Notation vec := (vec3 T).
  (** one level: the accumulated global -> local transform, local position, local direction *)
  Record lstate := LS { ls_tf : transformation T; ls_pos : vec; ls_dir : vec }.
  (** axpy(dist, dir, &pos) *)
  Definition ls_move (d : T) (l : lstate) : lstate := LS (ls_tf l) (axpy d (ls_dir l) (ls_pos l)) (ls_dir l).
  (** move_internal(dist) / move_to_boundary(): for i in range(level() + 1) *)
  Definition move_all (d : T) (ls : list lstate) : list lstate := map (ls_move d) ls.
  (** the variant that stops at a shallower level k (levels 0..k only) *)
  Definition move_prefix (k : nat) (d : T) (ls : list lstate) : list lstate :=
    map (ls_move d) (firstn (S k) ls) ++ skipn (S k) ls.
  (** set_dir(newdir): every level's direction is the rotated-down global direction *)
  Definition set_dir_all (u : vec) (ls : list lstate) : list lstate :=
    map (fun l => LS (ls_tf l) (ls_pos l) (tf_rotate_down (ls_tf l) u)) ls.
End Levels.
Arguments lstate T : clear implicits.
