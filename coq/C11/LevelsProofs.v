(** * C11: levels_positions_consistent - what min_levels_conservative needs from the navigator:
    every level's local position is the (accumulated) transform of the one global position. *)
From Coq Require Import Reals Lra Lia Psatz ZArith List Bool.
From Celer Require Import Base.Num Base.NumR Base.Vec3
  C12.Solver C12.Surfaces C12.SurfacesProofs C12.Transforms C12.TransformsProofs C11.Levels.
Import ListNotations.
Local Open Scope R_scope.
Notation vec := (vec3 R).

Definition level_consistent (g u : vec) (l : lstate R) : Prop :=
  ls_pos l = tf_down (ls_tf l) g /\ ls_dir l = tf_rotate_down (ls_tf l) u.
Definition levels_consistent (g u : vec) (ls : list (lstate R)) : Prop := Forall (level_consistent g u) ls.

Lemma tf_down_affine (tf : transformation R) (g u : vec) d :
  tf_down tf (vadd g (vscale d u)) = axpy d (tf_rotate_down tf u) (tf_down tf g).
Proof.
  destruct tf as [[[a b c] [e f h] [i j k]] [tx ty tz]], g as [x y z], u as [ux uy uz].
  unfold tf_down, tf_rotate_down, gemv_t, axpy, vadd, vscale, vsub, mget, mrow.
  cbn [tf_rot tf_tra r0 r1 r2 vget vx vy vz]. numR. f_equal; ring.
Qed.

(** move_internal(dist) / move_to_boundary() as coded (all levels): consistency is preserved *)
Theorem levels_positions_consistent_move (g u : vec) d ls :
  levels_consistent g u ls -> levels_consistent (vadd g (vscale d u)) u (move_all d ls).
Proof.
  unfold levels_consistent, move_all. intros Hc. rewrite Forall_map. eapply Forall_impl; [|exact Hc].
  intros l [Hp Hd]. split; cbn [ls_move ls_pos ls_dir ls_tf].
  - rewrite tf_down_affine, Hp, Hd. reflexivity.
  - exact Hd.
Qed.

(** set_dir: consistency (with the new direction) is preserved *)
Theorem levels_positions_consistent_set_dir (g u u' : vec) ls :
  levels_consistent g u ls -> levels_consistent g u' (set_dir_all u' ls).
Proof.
  unfold levels_consistent, set_dir_all. intros Hc. rewrite Forall_map. eapply Forall_impl; [|exact Hc].
  intros l [Hp _]. split; cbn [ls_pos ls_dir ls_tf]; [exact Hp|reflexivity].
Qed.

(** any sequence of moves and direction changes *)
Inductive lop := OpMove (d : R) | OpSetDir (u : vec).
Fixpoint run_ops (ops : list lop) (g u : vec) (ls : list (lstate R)) : vec * vec * list (lstate R) :=
  match ops with
  | [] => (g, u, ls)
  | OpMove d :: r => run_ops r (vadd g (vscale d u)) u (move_all d ls)
  | OpSetDir u' :: r => run_ops r g u' (set_dir_all u' ls)
  end.
Theorem levels_positions_consistent ops : forall g u ls,
  levels_consistent g u ls ->
  let '(g', u', ls') := run_ops ops g u ls in levels_consistent g' u' ls'.
Proof.
  induction ops as [|[d|u'] r IH]; intros g u ls Hc; cbn [run_ops].
  - exact Hc.
  - apply IH. apply levels_positions_consistent_move. exact Hc.
  - apply IH. apply (levels_positions_consistent_set_dir g u u'). exact Hc.
Qed.

(** the variant that moves only levels 0..k (seeded change C11-m5) is NOT consistent:
    two levels, identity transforms, k = 0 *)
Theorem move_prefix_refuted :
  exists (g u : vec) d (ls : list (lstate R)),
    levels_consistent g u ls /\ ~ levels_consistent (vadd g (vscale d u)) u (move_prefix 0 d ls).
Proof.
  set (l0 := LS (TF mat3_id (V3 0 0 0)) (V3 0 0 0) (V3 1 0 0)).
  exists (V3 0 0 0), (V3 1 0 0), 1, [l0; l0].
  assert (Hl : level_consistent (V3 0 0 0) (V3 1 0 0) l0).
  { unfold level_consistent, l0, tf_down, tf_rotate_down, gemv_t, vsub, mat3_id, mget, mrow.
    cbn [ls_pos ls_dir ls_tf tf_rot tf_tra r0 r1 r2 vget vx vy vz]. numR. split; f_equal; ring. }
  split; [constructor; [exact Hl|constructor; [exact Hl|constructor]]|].
  intros Hc. unfold move_prefix in Hc. cbn [firstn skipn map app] in Hc.
  inversion Hc as [|? ? _ Ht]; subst. inversion Ht as [|? ? [Hp _] _]; subst.
  unfold l0, tf_down, gemv_t, vsub, vadd, vscale, mat3_id, mget, mrow in Hp.
  cbn [ls_pos ls_tf tf_rot tf_tra r0 r1 r2 vget vx vy vz] in Hp. numR.
  injection Hp as Hx _ _. lra.
Qed.

Example levels_consistent_example :
  levels_consistent (V3 1 2 3) (V3 0 0 1)
    [LS (TF mat3_id (V3 1 0 0)) (tf_down (TF mat3_id (V3 1 0 0)) (V3 1 2 3)) (tf_rotate_down (TF mat3_id (V3 1 0 0)) (V3 0 0 1))].
Proof. repeat constructor. Qed.
