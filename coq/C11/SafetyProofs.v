(** * C11 proofs (instance R): the simple safety is the Euclidean distance to each
    face, hence conservative; the NaN-normal branch refutes it (finding F4). *)
From Coq Require Import Reals ZArith List Bool Lra Lia Psatz.
From Celer Require Import Base.Num Base.NumR Base.Vec3 C12.Solver C12.Surfaces
  C12.SolverProofs C12.SurfacesProofs C11.Safety.
Import ListNotations.
Local Open Scope R_scope.

(** over R there is no NaN: the faithful min_element / fmin models coincide
    with the plain minimum [min_isect] / [omin] of C12 *)
Lemma Reqb_refl x : Reqb x x = true.
Proof. apply Reqb_true. reflexivity. Qed.
Lemma fold_left_ext' {A B} (f g : A -> B -> A) l a : (forall x y, f x y = g x y) ->
  fold_left f l a = fold_left g l a.
Proof. intros E. revert a. induction l as [|b l IH]; cbn; intros a; [reflexivity|]. rewrite E. apply IH. Qed.
Lemma min_elt_R (l : list (option R)) : min_elt l = min_isect l.
Proof.
  unfold min_elt, min_isect. destruct l as [|x r]; [reflexivity|]. cbn [fold_left].
  replace (omin None x) with x by (destruct x; reflexivity).
  apply fold_left_ext'. intros a b. destruct a as [a|], b as [b|]; cbn; numR; try reflexivity.
  rewrite Reqb_refl. reflexivity.
Qed.
Lemma fmin_o_R (a b : option R) : fmin_o a b = omin a b.
Proof. destruct a as [a|], b as [b|]; cbn; numR; rewrite ?Reqb_refl; reflexivity. Qed.
Lemma volume_safety_R flag faces (p : vec) :
  volume_safety flag faces p =
  if negb flag then Some 0 else fold_left (fun acc s => omin acc (calc_safety s p)) faces None.
Proof.
  unfold volume_safety. destruct flag; cbn [negb]; [|reflexivity].
  apply fold_left_ext'. intros. apply fmin_o_R.
Qed.
Lemma find_safety_R (levels : list (level (T:=R))) :
  find_safety levels = fold_left (fun acc l => omin acc (level_safety l)) levels None.
Proof. unfold find_safety. apply fold_left_ext'. intros. apply fmin_o_R. Qed.

(** ** geometry *)
Definition dist2 (p x : vec) : R := vdot (vsub x p) (vsub x p).
(** strictly the same side of the surface *)
Definition same_side (s : surface R) (p x : vec) : Prop :=
  (surf_f s p < 0 /\ surf_f s x < 0) \/ (0 < surf_f s p /\ 0 < surf_f s x).
(** the open ball of radius rho around p does not touch the surface *)
Definition ball_clear (s : surface R) (p : vec) (rho : R) : Prop :=
  forall x, sqrt (dist2 p x) < rho -> same_side s p x.

Lemma dist2_nonneg p x : 0 <= dist2 p x.
Proof.
  unfold dist2, vdot.
  pose proof (Rle_0_sqr (vx (vsub x p))). pose proof (Rle_0_sqr (vy (vsub x p))).
  pose proof (Rle_0_sqr (vz (vsub x p))). unfold Rsqr in *. lra.
Qed.
Lemma sqrt_lt_sq d rho : 0 <= d -> sqrt d < rho -> d < rho * rho.
Proof.
  intros Hd Hlt. pose proof (sqrt_pos d). pose proof (sqrt_sqrt d Hd). nra.
Qed.
Lemma ball_clear_mono s p r1 r2 : r1 <= r2 -> ball_clear s p r2 -> ball_clear s p r1.
Proof. intros Hr Hb x Hx. apply Hb. lra. Qed.
Lemma ball_clear_zero s p : ball_clear s p 0.
Proof. intros x Hx. exfalso. pose proof (sqrt_pos (dist2 p x)). lra. Qed.

Lemma sumsq2 a b : 0 <= a * a + b * b.
Proof. pose proof (Rle_0_sqr a). pose proof (Rle_0_sqr b). unfold Rsqr in *. lra. Qed.
Lemma sumsq3 a b c : 0 <= a * a + b * b + c * c.
Proof. pose proof (Rle_0_sqr a). pose proof (Rle_0_sqr b). pose proof (Rle_0_sqr c). unfold Rsqr in *. lra. Qed.
Lemma cauchy_schwarz (a b : vec) : vdot a b * vdot a b <= vdot a a * vdot b b.
Proof.
  unfold vdot. destruct a as [a1 a2 a3], b as [b1 b2 b3]. cbn [vx vy vz].
  pose proof (Rle_0_sqr (a1 * b2 - a2 * b1)). pose proof (Rle_0_sqr (a2 * b3 - a3 * b2)).
  pose proof (Rle_0_sqr (a3 * b1 - a1 * b3)). unfold Rsqr in *. nra.
Qed.
Lemma cauchy_schwarz2 (a1 a2 b1 b2 : R) :
  (a1 * b1 + a2 * b2) * (a1 * b1 + a2 * b2) <= (a1 * a1 + a2 * a2) * (b1 * b1 + b2 * b2).
Proof. pose proof (Rle_0_sqr (a1 * b2 - a2 * b1)). unfold Rsqr in *. nra. Qed.

(** |w + e| stays on the same side of r as |w| while |e| < | |w| - r | *)
Lemma ball_radial (ww we ee r rho : R) :
  0 <= r -> 0 <= ww -> 0 <= ee -> we * we <= ww * ee ->
  rho = Rabs (sqrt ww - r) -> ee < rho * rho ->
  (ww - r * r < 0 /\ ww + 2 * we + ee - r * r < 0) \/ (0 < ww - r * r /\ 0 < ww + 2 * we + ee - r * r) \/ False.
Proof.
  intros Hr Hww Hee Hcs Hrho Hlt.
  set (m := sqrt ww) in *. assert (Hm : 0 <= m) by apply sqrt_pos.
  assert (Hmm : m * m = ww) by (apply sqrt_sqrt; assumption).
  set (e := sqrt ee). assert (He : 0 <= e) by apply sqrt_pos.
  assert (Hee' : e * e = ee) by (apply sqrt_sqrt; assumption).
  assert (Hwe : - (m * e) <= we <= m * e).
  { assert (we * we <= (m * e) * (m * e)) by nra.
    assert (0 <= m * e) by nra. split; nra. }
  assert (He_rho : e < rho).
  { assert (0 <= rho) by (rewrite Hrho; apply Rabs_pos). nra. }
  destruct (Rle_lt_dec r m) as [Hge|Hlt'].
  - (* outside or on *)
    rewrite Rabs_pos_eq in Hrho by lra. subst rho.
    right; left. split; [nra|]. assert (r < m - e) by lra. assert (0 <= m - e) by lra.
    assert (r * r < (m - e) * (m - e)) by nra. nra.
  - (* inside *)
    rewrite Rabs_left in Hrho by lra. subst rho.
    left. split; [nra|]. assert (m + e < r) by lra.
    assert ((m + e) * (m + e) < r * r) by nra. nra.
Qed.

(** ** unique nearest root returned first *)
Lemma first_isect_in (r : isect2 (T:=R)) t : first_isect r = Some t -> In (Some t) (isect2_list r).
Proof. destruct r as [[a|] [b|]]; unfold first_isect; cbn; intros E; inversion E; subst; auto. Qed.

Lemma solve_c_first_is a hb c t : a <> 0 -> 0 < t -> qpoly a hb c t = 0 ->
  (forall t', 0 < t' -> qpoly a hb c t' = 0 -> t <= t') ->
  min_isect (isect2_list (solve_c (T:=R) (mk_solver a hb) c)) = Some t.
Proof.
  intros Ha Ht E Hmin.
  rewrite min_isect_pair by (intros t0 t1; apply solve_c_ordered).
  destruct (solve_c_nearest a hb c t Ha Ht E) as (t0 & F & Hle).
  rewrite F. f_equal. apply first_isect_in in F. apply solve_c_spec in F; [|assumption].
  destruct F as [F0 F1]. specialize (Hmin t0 F0 F1). lra.
Qed.

(** ** the three distance theorems *)
Definition surf_ok (s : surface R) : Prop :=
  match s with
  | SPlane n _ => vdot n n = 1
  | SSphereCentered rsq | SSphere _ rsq | SCylCentered _ rsq => 0 < rsq
  | _ => True
  end.

Ltac csafe :=
  unfold calc_safety, normal_is_nan, normal_raw; rewrite !min_elt_R;
  cbn [surf_simple_safety negb surf_normal surf_sense surf_intersect].

Theorem plane_aligned_safety_is_distance t pos p :
  calc_safety (SPlaneAligned t pos) p = Some (Rabs (vget t p - pos)).
Proof.
  csafe. numR. rewrite Reqb_refl. cbn [negb orb].
  unfold plane_aligned_sense, real_to_sense, plane_aligned_intersect, plane_aligned_normal, min_isect. numR.
  set (f := vget t p - pos).
  assert (Hn : vget t (vset t 1 (vzero (T:=R))) = 1) by (destruct t; reflexivity).
  destruct (Rltb_spec f 0) as [Hneg|Hnn].
  - cbn [negb andb]. rewrite Hn.
    assert (Hb : Reqb 1 0 = false) by (apply Reqb_false; lra). rewrite Hb. cbn [negb].
    replace ((pos - vget t p) / 1) with (- f) by (unfold f; field).
    destruct (Rltb_spec 0 (- f)); [|lra]. cbn. rewrite Rabs_left by lra. reflexivity.
  - destruct (Rleb_spec f 0) as [Hz|Hpos].
    + assert (f = 0) by lra. rewrite H. rewrite Rabs_R0. reflexivity.
    + cbn [negb andb].
      assert (Hn' : vget t (V3 (vx (vset t 1 (vzero (T:=R))) * -1) (vy (vset t 1 (vzero (T:=R))) * -1)
                              (vz (vset t 1 (vzero (T:=R))) * -1)) = -1).
      { destruct t; cbn; numR; ring. }
      rewrite Hn'.
      assert (Hb : Reqb (-1) 0 = false) by (apply Reqb_false; lra). rewrite Hb. cbn [negb].
      replace ((pos - vget t p) / -1) with f by (unfold f; field).
      destruct (Rltb_spec 0 f); [|lra]. cbn. rewrite Rabs_pos_eq by lra. reflexivity.
Qed.

Theorem plane_safety_is_distance n d p : vdot n n = 1 ->
  calc_safety (SPlane n d) p = Some (Rabs (vdot n p - d)).
Proof.
  intros Hn. csafe. numR. rewrite Reqb_refl. cbn [negb orb].
  unfold plane_sense, real_to_sense, plane_intersect, plane_normal, min_isect. numR.
  rewrite !dot_vdot. set (f := vdot n p - d).
  destruct (Rltb_spec f 0) as [Hneg|Hnn].
  - cbn [negb andb]. rewrite Hn.
    assert (Hb : Reqb 1 0 = false) by (apply Reqb_false; lra). rewrite Hb. cbn [negb].
    replace ((d - vdot n p) / 1) with (- f) by (unfold f; field).
    destruct (Rltb_spec 0 (- f)); [|lra]. cbn. rewrite Rabs_left by lra. reflexivity.
  - destruct (Rleb_spec f 0) as [Hz|Hpos].
    + assert (f = 0) by lra. rewrite H. rewrite Rabs_R0. reflexivity.
    + cbn [negb andb].
      assert (Hn' : vdot n (V3 (vx n * -1) (vy n * -1) (vz n * -1)) = -1).
      { unfold vdot in *. cbn [vx vy vz]. lra. }
      rewrite Hn'.
      assert (Hb : Reqb (-1) 0 = false) by (apply Reqb_false; lra). rewrite Hb. cbn [negb].
      replace ((d - vdot n p) / -1) with f by (unfold f; field).
      destruct (Rltb_spec 0 f); [|lra]. cbn. rewrite Rabs_pos_eq by lra. reflexivity.
Qed.

(** common core of the sphere and cylinder cases: the solver along +-w/|w| *)
Lemma radial_safety (ww rsq : R) (hb_in hb_out : R) :
  0 < ww -> 0 < rsq -> hb_in = sqrt ww -> hb_out = - sqrt ww ->
  (ww - rsq < 0 -> min_isect (isect2_list (solve_c (T:=R) (mk_solver 1 hb_in) (ww - rsq)))
                   = Some (Rabs (sqrt ww - sqrt rsq))) /\
  (0 < ww - rsq -> min_isect (isect2_list (solve_c (T:=R) (mk_solver 1 hb_out) (ww - rsq)))
                   = Some (Rabs (sqrt ww - sqrt rsq))).
Proof.
  intros Hww Hr -> ->. set (m := sqrt ww). set (r := sqrt rsq).
  assert (Hm : 0 < m) by (apply sqrt_lt_R0; assumption).
  assert (Hrr : 0 < r) by (apply sqrt_lt_R0; assumption).
  assert (Hmm : m * m = ww) by (apply sqrt_sqrt; lra).
  assert (Hr2 : r * r = rsq) by (apply sqrt_sqrt; lra).
  split; intros Hs.
  - assert (m < r) by nra. rewrite Rabs_left by lra.
    apply solve_c_first_is; [lra|lra| |]; unfold qpoly.
    + nra.
    + intros t' Ht' E. assert (F : (t' + m - r) * (t' + m + r) = 0) by nra.
      apply Rmult_integral in F. destruct F; lra.
  - assert (r < m) by nra. rewrite Rabs_pos_eq by lra.
    apply solve_c_first_is; [lra|lra| |]; unfold qpoly.
    + nra.
    + intros t' Ht' E. assert (F : (t' - m - r) * (t' - m + r) = 0) by nra.
      apply Rmult_integral in F. destruct F; lra.
Qed.

Lemma sqrt_eq_0_iff x : 0 <= x -> (sqrt x = 0 <-> x = 0).
Proof. intros Hx. split; [apply sqrt_eq_0; assumption|intros ->; apply sqrt_0]. Qed.

Theorem sphere_safety_is_distance o rsq p : 0 < rsq ->
  let w := vsub p o in vdot w w <> 0 ->
  calc_safety (SSphere o rsq) p = Some (Rabs (sqrt (vdot w w) - sqrt rsq)).
Proof.
  intros Hr w Hw.
  assert (Hww : 0 < vdot w w).
  { unfold vdot in *. pose proof (Rle_0_sqr (vx w)). pose proof (Rle_0_sqr (vy w)). pose proof (Rle_0_sqr (vz w)).
    unfold Rsqr in *. lra. }
  set (m := sqrt (vdot w w)).
  assert (Hm : 0 < m) by (apply sqrt_lt_R0; assumption).
  assert (Hmm : m * m = vdot w w) by (apply sqrt_sqrt; lra).
  csafe. numR. rewrite Reqb_refl. cbn [negb orb].
  unfold norm. rewrite dot_vdot. fold w. numR. fold m.
  assert (Hb : Reqb m 0 = false) by (apply Reqb_false; lra). rewrite Hb. cbn [andb].
  unfold sphere_sense, real_to_sense, sphere_intersect, sphere_normal, make_unit_vector, norm. cbn [negb].
  rewrite !dot_vdot. fold w. fold m. numR.
  destruct (radial_safety (vdot w w) rsq
              (vdot w (V3 (vx w * (1 / m)) (vy w * (1 / m)) (vz w * (1 / m))))
              (vdot w (V3 (vx w * (1 / m) * -1) (vy w * (1 / m) * -1) (vz w * (1 / m) * -1))))
    as [Hin Hout]; try assumption.
  { unfold vdot in *. cbn [vx vy vz]. fold m. field_simplify_eq; lra. }
  { unfold vdot in *. cbn [vx vy vz]. fold m. field_simplify_eq; lra. }
  destruct (Rltb_spec (vdot w w - rsq) 0) as [Hneg|Hnn].
  - apply Hin. assumption.
  - destruct (Rleb_spec (vdot w w - rsq) 0) as [Hz|Hpos].
    + assert (E : vdot w w = rsq) by lra. fold m. rewrite <- E. fold m.
      replace (m - m) with 0 by ring. rewrite Rabs_R0. reflexivity.
    + apply Hout. lra.
Qed.

Theorem sphere_centered_safety_is_distance rsq p : 0 < rsq -> vdot p p <> 0 ->
  calc_safety (SSphereCentered rsq) p = Some (Rabs (sqrt (vdot p p) - sqrt rsq)).
Proof.
  intros Hr Hw.
  assert (Hww : 0 < vdot p p).
  { unfold vdot in *. pose proof (Rle_0_sqr (vx p)). pose proof (Rle_0_sqr (vy p)). pose proof (Rle_0_sqr (vz p)).
    unfold Rsqr in *. lra. }
  set (m := sqrt (vdot p p)).
  assert (Hm : 0 < m) by (apply sqrt_lt_R0; assumption).
  assert (Hmm : m * m = vdot p p) by (apply sqrt_sqrt; lra).
  csafe. numR. rewrite Reqb_refl. cbn [negb orb].
  unfold norm. rewrite dot_vdot. numR. fold m.
  assert (Hb : Reqb m 0 = false) by (apply Reqb_false; lra). rewrite Hb. cbn [andb].
  unfold sphere_centered_sense, real_to_sense, sphere_centered_intersect, sphere_centered_normal,
    make_unit_vector, norm. cbn [negb].
  rewrite !dot_vdot. fold m. numR.
  destruct (radial_safety (vdot p p) rsq
              (vdot p (V3 (vx p * (1 / m)) (vy p * (1 / m)) (vz p * (1 / m))))
              (vdot p (V3 (vx p * (1 / m) * -1) (vy p * (1 / m) * -1) (vz p * (1 / m) * -1))))
    as [Hin Hout]; try assumption.
  { unfold vdot in *. cbn [vx vy vz]. fold m. field_simplify_eq; lra. }
  { unfold vdot in *. cbn [vx vy vz]. fold m. field_simplify_eq; lra. }
  destruct (Rltb_spec (vdot p p - rsq) 0) as [Hneg|Hnn].
  - apply Hin. assumption.
  - destruct (Rleb_spec (vdot p p - rsq) 0) as [Hz|Hpos].
    + assert (E : vdot p p = rsq) by lra. fold m. rewrite <- E. fold m.
      replace (m - m) with 0 by ring. rewrite Rabs_R0. reflexivity.
    + apply Hout. lra.
Qed.

Theorem cylc_safety_is_distance t rsq p : 0 < rsq ->
  let ww := vget (u_axis t) p * vget (u_axis t) p + vget (v_axis t) p * vget (v_axis t) p in
  ww <> 0 ->
  calc_safety (SCylCentered t rsq) p = Some (Rabs (sqrt ww - sqrt rsq)).
Proof.
  intros Hr ww Hw.
  assert (Hww : 0 < ww).
  { unfold ww in *. pose proof (Rle_0_sqr (vget (u_axis t) p)). pose proof (Rle_0_sqr (vget (v_axis t) p)).
    unfold Rsqr in *. lra. }
  set (m := sqrt ww).
  assert (Hm : 0 < m) by (apply sqrt_lt_R0; assumption).
  assert (Hmm : m * m = ww) by (apply sqrt_sqrt; lra).
  assert (Hb : Reqb m 0 = false) by (apply Reqb_false; lra).
  assert (Hmin : Rltb 1 min_a_R = false).
  { apply Rltb_false. unfold min_a_R. lra. }
  destruct (radial_safety ww rsq
              ((vget (u_axis t) p * (1 / m)) * vget (u_axis t) p + (vget (v_axis t) p * (1 / m)) * vget (v_axis t) p)
              ((vget (u_axis t) p * (1 / m) * -1) * vget (u_axis t) p + (vget (v_axis t) p * (1 / m) * -1) * vget (v_axis t) p))
    as [Hin Hout]; try assumption.
  { fold m. unfold ww in Hmm. field_simplify_eq; lra. }
  { fold m. unfold ww in Hmm. field_simplify_eq; lra. }
  fold m in Hin, Hout. fold m.
  remember (Rabs (m - sqrt rsq)) as rhs eqn:Hrhs.
  csafe. numR. rewrite Reqb_refl. cbn [negb orb].
  unfold cylc_sense, real_to_sense, cylc_intersect, cylc_normal, make_unit_vector, norm.
  fold (min_a (T:=R)). rewrite min_a_R_eq.
  destruct t; unfold dot; cbn [vget vset vx vy vz u_axis v_axis vzero] in *; numR.
  all: match goal with |- context [sqrt ?e] => replace e with ww by (unfold ww; ring) end.
  all: fold m; rewrite Hb; cbn [andb].
  all: repeat match goal with |- context [Rltb ?a min_a_R] =>
         lazymatch a with 1 => fail | _ => replace a with 1 by ring end end; rewrite ?Hmin.
  all: match goal with |- context [Rltb ?f 0] => replace f with (ww - rsq) by (unfold ww; ring) end.
  all: destruct (Rltb_spec (ww - rsq) 0) as [Hneg|Hnn];
       [ rewrite <- (Hin Hneg); repeat f_equal; unfold ww; ring
       | destruct (Rleb_spec (ww - rsq) 0) as [Hz|Hpos];
         [ assert (E : ww = rsq) by lra; rewrite Hrhs; unfold m; rewrite E;
           replace (sqrt rsq - sqrt rsq) with 0 by ring; rewrite Rabs_R0; reflexivity
         | assert (Hp : 0 < ww - rsq) by lra; rewrite <- (Hout Hp); repeat f_equal; unfold ww; ring ] ].
Qed.

(** ** a ball of the reported radius does not reach the surface *)
Lemma sqrt_sq_pos r : 0 < r -> sqrt r * sqrt r = r.
Proof. intros. apply sqrt_sqrt. lra. Qed.

Lemma ball_of_radial s p (ww rsq : R) (we_of ee_of : vec -> R) :
  0 < rsq -> 0 <= ww ->
  surf_f s p = ww - rsq ->
  (forall x, surf_f s x = ww + 2 * we_of x + ee_of x - rsq) ->
  (forall x, 0 <= ee_of x /\ ee_of x <= dist2 p x /\ we_of x * we_of x <= ww * ee_of x) ->
  ball_clear s p (Rabs (sqrt ww - sqrt rsq)).
Proof.
  intros Hr Hww Hp Hx Hb x Hd. apply sqrt_lt_sq in Hd; [|apply dist2_nonneg].
  destruct (Hb x) as (He0 & He1 & Hcs).
  pose proof (sqrt_sq_pos rsq Hr) as Hrr.
  assert (Hsr : 0 <= sqrt rsq) by apply sqrt_pos.
  destruct (ball_radial ww (we_of x) (ee_of x) (sqrt rsq) (Rabs (sqrt ww - sqrt rsq)))
    as [[H1 H2]|[[H1 H2]|[]]]; try assumption; try reflexivity; try lra.
  - left. rewrite Hp, Hx. lra.
  - right. rewrite Hp, Hx. lra.
Qed.

Theorem calc_safety_conservative s p rho :
  surf_ok s -> normal_is_nan s p = false -> calc_safety s p = Some rho -> ball_clear s p rho.
Proof.
  intros Hok Hnan Hs.
  destruct s as [a pos|a r|r|a ou ov r|n dd|o r|a o tsq|abc def g|abc def ghi j];
    try (unfold calc_safety in Hs; cbn [surf_simple_safety negb] in Hs; inversion Hs; apply ball_clear_zero).
  - (* PlaneAligned *)
    rewrite plane_aligned_safety_is_distance in Hs. inversion Hs; subst. clear Hs.
    intros x Hd. apply sqrt_lt_sq in Hd; [|apply dist2_nonneg]. unfold same_side, surf_f.
    assert (Hc : (vget a x - vget a p) * (vget a x - vget a p) <= dist2 p x).
    { unfold dist2, vdot, vsub. cbn [vx vy vz]. numR.
      pose proof (Rle_0_sqr (vx x - vx p)). pose proof (Rle_0_sqr (vy x - vy p)). pose proof (Rle_0_sqr (vz x - vz p)).
      unfold Rsqr in *. destruct a; cbn [vget]; lra. }
    set (f := vget a p - pos) in *. set (e := vget a x - vget a p) in *.
    replace (vget a x - pos) with (f + e) by (unfold f, e; ring).
    assert (He : e * e < Rabs f * Rabs f) by lra.
    destruct (Rle_lt_dec 0 f) as [Hf|Hf].
    + rewrite Rabs_pos_eq in He by lra. right. split; nra.
    + rewrite Rabs_left in He by lra. left. split; nra.
  - (* CylCentered *)
    cbn in Hok.
    assert (Hw : vget (u_axis a) p * vget (u_axis a) p + vget (v_axis a) p * vget (v_axis a) p <> 0).
    { intros E. unfold normal_is_nan, normal_raw in Hnan. cbn [surf_normal] in Hnan.
      apply orb_false_elim in Hnan. destruct Hnan as [_ Hn]. apply andb_false_elim in Hn.
      assert (Hu : vget (u_axis a) p = 0) by (destruct a; cbn [vget u_axis v_axis] in *; nra).
      assert (Hv : vget (v_axis a) p = 0) by (destruct a; cbn [vget u_axis v_axis] in *; nra).
      destruct Hn as [Hn|Hn]; numR.
      - apply Reqb_false in Hn. apply Hn. unfold norm, dot.
        destruct a; cbn [vget vset vx vy vz u_axis v_axis vzero] in *; numR; rewrite ?Hu, ?Hv;
          replace (0 * 0 + (0 * 0 + (0 * 0 + 0))) with 0 by ring; apply sqrt_0.
      - apply Reqb_false in Hn. apply Hn.
        destruct a; cbn [vget vset vx vy vz u_axis v_axis vzero] in *; try reflexivity; assumption. }
    rewrite (cylc_safety_is_distance a r p Hok Hw) in Hs. inversion Hs; subst. clear Hs.
    apply (ball_of_radial _ _ _ r
             (fun x => vget (u_axis a) p * (vget (u_axis a) x - vget (u_axis a) p)
                       + vget (v_axis a) p * (vget (v_axis a) x - vget (v_axis a) p))
             (fun x => (vget (u_axis a) x - vget (u_axis a) p) * (vget (u_axis a) x - vget (u_axis a) p)
                       + (vget (v_axis a) x - vget (v_axis a) p) * (vget (v_axis a) x - vget (v_axis a) p)));
      try assumption.
    + apply sumsq2.
    + unfold surf_f, SurfacesProofs.sq. ring.
    + intros x. unfold surf_f, SurfacesProofs.sq. ring.
    + intros x. repeat split.
      * apply sumsq2.
      * unfold dist2, vdot, vsub. cbn [vx vy vz]. numR.
        pose proof (Rle_0_sqr (vx x - vx p)). pose proof (Rle_0_sqr (vy x - vy p)). pose proof (Rle_0_sqr (vz x - vz p)).
        unfold Rsqr in *. destruct a; cbn [vget u_axis v_axis]; lra.
      * apply cauchy_schwarz2.
  - (* SphereCentered *)
    cbn in Hok.
    assert (Hw : vdot p p <> 0).
    { intros E. unfold normal_is_nan, normal_raw in Hnan. cbn [surf_normal] in Hnan.
      apply orb_false_elim in Hnan. destruct Hnan as [_ Hn]. apply andb_false_elim in Hn.
      assert (Hx : vx p = 0 /\ vy p = 0 /\ vz p = 0) by (unfold vdot in E; repeat split; nra).
      destruct Hx as (Hx & Hy & Hz).
      destruct Hn as [Hn|Hn]; numR; apply Reqb_false in Hn; apply Hn.
      - unfold norm. rewrite dot_vdot, E. numR. apply sqrt_0.
      - assumption. }
    rewrite (sphere_centered_safety_is_distance r p Hok Hw) in Hs. inversion Hs; subst. clear Hs.
    apply (ball_of_radial _ _ _ r (fun x => vdot p (vsub x p)) (fun x => dist2 p x)); try assumption.
    + unfold vdot. apply sumsq3.
    + unfold surf_f, vdot, SurfacesProofs.sq. ring.
    + intros x. unfold surf_f, dist2, vdot, vsub, SurfacesProofs.sq. cbn [vx vy vz]. numR. ring.
    + intros x. repeat split; try lra.
      * apply dist2_nonneg.
      * apply cauchy_schwarz.
  - (* Plane *)
    cbn in Hok. rewrite (plane_safety_is_distance n dd p Hok) in Hs. inversion Hs; subst. clear Hs.
    intros x Hd. apply sqrt_lt_sq in Hd; [|apply dist2_nonneg].
    unfold same_side, surf_f. fold (vdot n p). fold (vdot n x).
    set (f := vdot n p - dd) in *. set (e := vdot n (vsub x p)).
    replace (vdot n x - dd) with (f + e) by (unfold f, e, vdot, vsub; cbn [vx vy vz]; numR; ring).
    assert (Hc : e * e <= dist2 p x).
    { pose proof (cauchy_schwarz n (vsub x p)) as CS. rewrite Hok in CS. unfold e, dist2. lra. }
    assert (He : e * e < Rabs f * Rabs f) by lra.
    destruct (Rle_lt_dec 0 f) as [Hf|Hf].
    + rewrite Rabs_pos_eq in He by lra. right. split; nra.
    + rewrite Rabs_left in He by lra. left. split; nra.
  - (* Sphere *)
    cbn in Hok. set (w := vsub p o).
    assert (Hw : vdot w w <> 0).
    { intros E. unfold normal_is_nan, normal_raw in Hnan. cbn [surf_normal] in Hnan.
      apply orb_false_elim in Hnan. destruct Hnan as [_ Hn]. apply andb_false_elim in Hn. fold w in Hn.
      assert (Hx : vx w = 0 /\ vy w = 0 /\ vz w = 0) by (unfold vdot in E; repeat split; nra).
      destruct Hx as (Hx & Hy & Hz).
      destruct Hn as [Hn|Hn]; numR; apply Reqb_false in Hn; apply Hn.
      - unfold norm. rewrite dot_vdot, E. numR. apply sqrt_0.
      - assumption. }
    rewrite (sphere_safety_is_distance o r p Hok Hw) in Hs. inversion Hs; subst. clear Hs. fold w.
    apply (ball_of_radial _ _ _ r (fun x => vdot w (vsub x p)) (fun x => dist2 p x)); try assumption.
    + unfold vdot. apply sumsq3.
    + unfold surf_f, w, vdot, vsub, SurfacesProofs.sq. cbn [vx vy vz]. numR. ring.
    + intros x. unfold surf_f, w, dist2, vdot, vsub, SurfacesProofs.sq. cbn [vx vy vz]. numR. ring.
    + intros x. repeat split; try lra.
      * apply dist2_nonneg.
      * apply cauchy_schwarz.
Qed.

(** ** min over faces / levels *)
Lemma omin_some_le (a : option R) b r :
  omin a b = Some r ->
  (forall x, a = Some x -> r <= x) /\ (forall y, b = Some y -> r <= y) /\ (a = Some r \/ b = Some r).
Proof.
  destruct a as [x|], b as [y|]; cbn; numR.
  - destruct (Rltb_spec y x); intros E; inversion E; subst; repeat split; intros; try (inversion H; subst); auto; lra.
  - intros E; inversion E; subst. repeat split; intros; try discriminate; auto. inversion H; lra.
  - intros E; inversion E; subst. repeat split; intros; try discriminate; auto. inversion H; lra.
  - discriminate.
Qed.

Lemma fold_omin_le {A} (f : A -> option R) (l : list A) acc r :
  fold_left (fun a s => omin a (f s)) l acc = Some r ->
  (forall x, acc = Some x -> r <= x) /\ (forall s y, In s l -> f s = Some y -> r <= y).
Proof.
  revert acc. induction l as [|s l IH]; cbn; intros acc E.
  - split; [intros x Hx; rewrite Hx in E; inversion E; lra|intros ? ? []].
  - apply IH in E. destruct E as [E1 E2].
    split.
    + intros x Hx. subst acc. destruct (f s) as [y|] eqn:Fs; cbn in E1; numR.
      * destruct (Rltb_spec y x); [specialize (E1 y eq_refl)|specialize (E1 x eq_refl)]; lra.
      * apply E1. reflexivity.
    + intros s' y [->|Hin] Fs; [|eapply E2; eauto].
      rewrite Fs in E1. destruct acc as [x|]; cbn in E1; numR.
      * destruct (Rltb_spec y x); [specialize (E1 y eq_refl)|specialize (E1 x eq_refl)]; lra.
      * apply E1. reflexivity.
Qed.


(** SimpleUnitTracker::safety: the ball of the reported radius is on the same
    side of every face, so every sense - hence the volume's logic expression -
    is constant on it *)
Definition faces_ok (faces : list (surface R)) (p : vec) : Prop :=
  forall s, In s faces -> surf_ok s /\ normal_is_nan s p = false.

Lemma calc_safety_some s p : surf_ok s -> normal_is_nan s p = false ->
  exists rho, calc_safety s p = Some rho.
Proof.
  intros Hok Hnan.
  destruct s as [a pos|a r|r|a ou ov r|n dd|o r|a o tsq|abc def g|abc def ghi j];
    try (eexists; unfold calc_safety; cbn [surf_simple_safety negb]; reflexivity).
  - eexists. apply plane_aligned_safety_is_distance.
  - unfold calc_safety. cbn [surf_simple_safety negb]. rewrite Hnan.
    destruct (calc_safety (SCylCentered a r) p) as [x|] eqn:E.
    + unfold calc_safety in E. cbn [surf_simple_safety negb] in E. rewrite Hnan in E. eauto.
    + exfalso. revert E. unfold calc_safety. cbn [surf_simple_safety negb]. rewrite Hnan.
      intros E. 
      assert (Hw : vget (u_axis a) p * vget (u_axis a) p + vget (v_axis a) p * vget (v_axis a) p <> 0).
      { intros E0. unfold normal_is_nan, normal_raw in Hnan. cbn [surf_normal] in Hnan.
        apply orb_false_elim in Hnan. destruct Hnan as [_ Hn]. apply andb_false_elim in Hn.
        assert (Hu : vget (u_axis a) p = 0) by (destruct a; cbn [vget u_axis v_axis] in *; nra).
        assert (Hv : vget (v_axis a) p = 0) by (destruct a; cbn [vget u_axis v_axis] in *; nra).
        destruct Hn as [Hn|Hn]; numR.
        - apply Reqb_false in Hn. apply Hn. unfold norm, dot.
          destruct a; cbn [vget vset vx vy vz u_axis v_axis vzero] in *; numR; rewrite ?Hu, ?Hv;
            replace (0 * 0 + (0 * 0 + (0 * 0 + 0))) with 0 by ring; apply sqrt_0.
        - apply Reqb_false in Hn. apply Hn.
          destruct a; cbn [vget vset vx vy vz u_axis v_axis vzero] in *; try reflexivity; assumption. }
      pose proof (cylc_safety_is_distance a r p Hok Hw) as F. unfold calc_safety in F.
      cbn [surf_simple_safety negb] in F. rewrite Hnan in F. rewrite F in E. discriminate.
  - destruct (calc_safety (SSphereCentered r) p) as [x|] eqn:E; [eauto|exfalso].
    assert (Hw : vdot p p <> 0).
    { intros E0. unfold normal_is_nan, normal_raw in Hnan. cbn [surf_normal] in Hnan.
      apply orb_false_elim in Hnan. destruct Hnan as [_ Hn]. apply andb_false_elim in Hn.
      assert (Hx : vx p = 0 /\ vy p = 0 /\ vz p = 0) by (unfold vdot in E0; repeat split; nra).
      destruct Hx as (Hx & Hy & Hz).
      destruct Hn as [Hn|Hn]; numR; apply Reqb_false in Hn; apply Hn.
      - unfold norm. rewrite dot_vdot, E0. numR. apply sqrt_0.
      - assumption. }
    rewrite (sphere_centered_safety_is_distance r p Hok Hw) in E. discriminate.
  - eexists. apply plane_safety_is_distance. exact Hok.
  - destruct (calc_safety (SSphere o r) p) as [x|] eqn:E; [eauto|exfalso].
    set (w := vsub p o).
    assert (Hw : vdot w w <> 0).
    { intros E0. unfold normal_is_nan, normal_raw in Hnan. cbn [surf_normal] in Hnan.
      apply orb_false_elim in Hnan. destruct Hnan as [_ Hn]. apply andb_false_elim in Hn. fold w in Hn.
      assert (Hx : vx w = 0 /\ vy w = 0 /\ vz w = 0) by (unfold vdot in E0; repeat split; nra).
      destruct Hx as (Hx & Hy & Hz).
      destruct Hn as [Hn|Hn]; numR; apply Reqb_false in Hn; apply Hn.
      - unfold norm. rewrite dot_vdot, E0. numR. apply sqrt_0.
      - assumption. }
    rewrite (sphere_safety_is_distance o r p Hok Hw) in E. discriminate.
Qed.

Theorem min_faces_conservative flag faces p rho :
  faces_ok faces p -> volume_safety flag faces p = Some rho ->
  forall s, In s faces -> ball_clear s p rho.
Proof.
  intros Hok Hs s Hin. rewrite volume_safety_R in Hs.
  destruct flag; cbn [negb] in Hs.
  - apply fold_omin_le in Hs. destruct Hs as [_ Hle].
    destruct (Hok s Hin) as [Ho Hn].
    destruct (calc_safety_some s p Ho Hn) as (rs & Es).
    apply ball_clear_mono with rs; [eapply Hle; eauto|].
    apply calc_safety_conservative; assumption.
  - inversion Hs. apply ball_clear_zero.
Qed.

(** every face keeps its sense on the ball: the volume's logic expression cannot change *)
Lemma same_side_sense s p x : same_side s p x -> surf_sense s x = surf_sense s p.
Proof.
  intros Hs. pose proof (surf_sense_is_sign s x) as Sx. pose proof (surf_sense_is_sign s p) as Sp.
  destruct Hs as [[H1 H2]|[H1 H2]];
    destruct (surf_sense s x), (surf_sense s p); cbn in *; try reflexivity; lra.
Qed.
Theorem min_faces_same_volume flag faces p rho :
  faces_ok faces p -> volume_safety flag faces p = Some rho ->
  forall x, sqrt (dist2 p x) < rho ->
  map (fun s => surf_sense s x) faces = map (fun s => surf_sense s p) faces.
Proof.
  intros Hok Hs x Hx. apply map_ext_in. intros s Hin.
  apply same_side_sense. eapply min_faces_conservative; eauto.
Qed.

(** an infinite volume safety only arises without faces (given defined normals) *)
Theorem volume_safety_inf_no_faces faces p :
  faces_ok faces p -> volume_safety true faces p = None -> faces = [].
Proof.
  intros Hok Hs. destruct faces as [|s l]; [reflexivity|exfalso].
  destruct (Hok s (or_introl eq_refl)) as [Ho Hn].
  destruct (calc_safety_some s p Ho Hn) as (rs & Es).
  rewrite volume_safety_R in Hs. cbn [negb fold_left] in Hs. rewrite Es in Hs. cbn [omin] in Hs.
  assert (G : forall (l : list (surface R)) a, fold_left (fun acc s => omin acc (calc_safety s p)) l (Some a) <> None).
  { clear. induction l as [|s l IH]; cbn; intros a; [discriminate|].
    destruct (calc_safety s p) as [y|]; cbn; [numR; destruct (Rltb y a)|]; apply IH. }
  eapply G; eauto.
Qed.

(** OrangeTrackView::find_safety: min over levels *)
Theorem min_levels_conservative (levels : list (level (T:=R))) rho :
  (forall l, In l levels -> faces_ok (lv_faces l) (lv_pos l)) ->
  find_safety levels = Some rho ->
  forall l, In l levels -> forall s, In s (lv_faces l) -> ball_clear s (lv_pos l) rho.
Proof.
  intros Hok Hs l Hl s Hin. rewrite find_safety_R in Hs.
  apply fold_omin_le in Hs. destruct Hs as [_ Hle].
  destruct (level_safety l) as [rl|] eqn:El.
  - apply ball_clear_mono with rl; [eapply Hle; eauto|].
    unfold level_safety in El. eapply min_faces_conservative; eauto.
  - unfold level_safety in El. destruct (lv_flag l) eqn:Fl; [|rewrite volume_safety_R in El; discriminate].
    apply volume_safety_inf_no_faces in El; [|apply Hok; assumption]. rewrite El in Hin. destruct Hin.
Qed.

(** the overload with a search radius is conservative too, and never smaller than the plain safety *)
Theorem find_safety_max_conservative (levels : list (level (T:=R))) m rho :
  (forall l, In l levels -> faces_ok (lv_faces l) (lv_pos l)) ->
  find_safety_max levels m = Some rho ->
  (forall l, In l levels -> forall s, In s (lv_faces l) -> ball_clear s (lv_pos l) rho) /\
  find_safety levels = Some rho.
Proof. intros Hok Hs. split; [eapply min_levels_conservative; eauto|exact Hs]. Qed.

(** the non-simple fallback *)
Theorem zero_is_conservative faces p s : volume_safety false faces p = Some 0 /\ ball_clear s p 0.
Proof. split; [reflexivity|apply ball_clear_zero]. Qed.

(** ** Finding F4: at the centre of a sphere the normal is NaN and the code
    answers +infinity, although the surface is at distance r *)
Theorem safety_center_refuted :
  exists (s : surface R) (p x : vec),
    surf_ok s /\ calc_safety s p = None /\ find_safety [LV true [s] p] = None /\
    sqrt (dist2 p x) = 2 /\ surf_f s x = 0 /\ ~ same_side s p x.
Proof.
  exists (SSphereCentered 4), (V3 0 0 0), (V3 2 0 0).
  assert (Hc : calc_safety (SSphereCentered 4) (V3 0 0 0) = None).
  { unfold calc_safety, normal_is_nan, normal_raw. cbn [surf_simple_safety negb surf_normal].
    numR. rewrite Reqb_refl. cbn [negb orb]. unfold norm. rewrite dot_vdot. unfold vdot. cbn [vx vy vz]. numR.
    replace (0 * 0 + 0 * 0 + 0 * 0) with 0 by ring. rewrite sqrt_0, Reqb_refl. reflexivity. }
  repeat split.
  - cbn. lra.
  - exact Hc.
  - rewrite find_safety_R. cbn [fold_left]. unfold level_safety. cbn [lv_flag lv_faces lv_pos]. rewrite volume_safety_R. cbn [fold_left negb]. rewrite Hc. reflexivity.
  - unfold dist2, vdot, vsub. cbn [vx vy vz]. numR. replace ((2 - 0) * (2 - 0) + (0 - 0) * (0 - 0) + (0 - 0) * (0 - 0)) with (2 * 2) by ring.
    apply sqrt_square. lra.
  - unfold surf_f, SurfacesProofs.sq. cbn [vx vy vz]. ring.
  - unfold same_side, surf_f, SurfacesProofs.sq. cbn [vx vy vz]. intros [[H1 H2]|[H1 H2]]; lra.
Qed.

(** hypotheses are satisfiable: a point inside a sphere of radius 2 next to a plane *)
Example faces_ok_example :
  faces_ok [SSphereCentered 4; SPlane (V3 1 0 0) 1] (V3 (1/2) 0 0).
Proof.
  intros s [<-|[<-|[]]]; split; cbn; try lra.
  - unfold normal_is_nan, normal_raw. cbn [surf_normal]. numR. rewrite Reqb_refl. cbn [negb orb].
    assert (Hb : Reqb (1 / 2) 0 = false) by (apply Reqb_false; lra). cbn [vx]. rewrite Hb.
    apply andb_false_r.
  - unfold vdot. cbn. lra.
  - unfold normal_is_nan, normal_raw. cbn [surf_normal plane_normal vx]. numR. rewrite Reqb_refl. reflexivity.
Qed.
