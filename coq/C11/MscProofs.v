(** * C11: the MSC displacement never leaves the safety sphere (instance R). *)
From Coq Require Import Reals Lra Lia Psatz ZArith List Bool.
From Celer Require Import Base.Num Base.NumR Base.Vec3
  C12.Solver C12.Surfaces C12.SurfacesProofs C11.Safety C11.SafetyProofs C11.Msc.
Import ListNotations.
Local Open Scope R_scope.

Lemma sq_ge0 (x : R) : 0 <= x * x.
Proof. pose proof (Rle_0_sqr x) as Hx. unfold Rsqr in Hx. exact Hx. Qed.

(** make_unit_vector never returns a vector longer than 1 (0 / 0-safe: over R a zero vector stays zero) *)
Lemma make_unit_vector_le1 (v : vec) : vdot (make_unit_vector v) (make_unit_vector v) <= 1.
Proof.
  destruct v as [a b c]. unfold make_unit_vector, norm. rewrite dot_vdot. unfold vdot. cbn [vx vy vz]. numR.
  set (q := a * a + b * b + c * c). assert (Hq : 0 <= q) by (unfold q; pose proof (sq_ge0 a); pose proof (sq_ge0 b); pose proof (sq_ge0 c); lra).
  destruct (Req_dec q 0) as [Hz|Hnz].
  - pose proof (sq_ge0 a) as Pa. pose proof (sq_ge0 b) as Pb. pose proof (sq_ge0 c) as Pc. unfold q in Hz.
    assert (Ha : a * a = 0) by lra. assert (Hb : b * b = 0) by lra. assert (Hc : c * c = 0) by lra.
    assert (a = 0) by (apply Rmult_integral in Ha; tauto). assert (b = 0) by (apply Rmult_integral in Hb; tauto).
    assert (c = 0) by (apply Rmult_integral in Hc; tauto). subst. lra.
  - assert (Hs : 0 < sqrt q) by (apply sqrt_lt_R0; lra).
    replace (a * (1 / sqrt q) * (a * (1 / sqrt q)) + b * (1 / sqrt q) * (b * (1 / sqrt q)) + c * (1 / sqrt q) * (c * (1 / sqrt q)))
      with (q * ((1 / sqrt q) * (1 / sqrt q))) by (unfold q; ring).
    replace ((1 / sqrt q) * (1 / sqrt q)) with (1 / (sqrt q * sqrt q)) by (field; lra).
    rewrite sqrt_sqrt by lra. right. field. exact Hnz.
Qed.

(** sample_displacement_dir returns (at most) a unit vector *)
Lemma sample_displacement_dir_le1 (min_acc u : R) b phi inc_dir :
  let d := sample_displacement_dir min_acc u b phi inc_dir in vdot d d <= 1.
Proof. cbv zeta. unfold sample_displacement_dir, rotate. apply make_unit_vector_le1. Qed.

Lemma nmin_le_r (a b : R) : nmin a b <= b.
Proof. unfold nmin. numR. destruct (Rltb_spec b a); lra. Qed.
Lemma nmin_le_l (a b : R) : nmin a b <= a.
Proof. unfold nmin. numR. destruct (Rltb_spec b a); lra. Qed.

(** ** the displacement actually applied is no longer than (1 - safety_tol) * safety *)
Theorem msc_displacement_within_safety safety_tol geom_limit skip disp s geom_path true_path (udir d : vec) :
  0 <= geom_limit -> vdot udir udir <= 1 ->
  msc_displacement safety_tol geom_limit skip disp (Some s) geom_path true_path udir = Some d ->
  sqrt (vdot d d) <= (1 - safety_tol) * s /\
  sqrt (vdot d d) <= calc_displacement geom_path true_path /\
  (0 < safety_tol -> 0 < s -> sqrt (vdot d d) < s).
Proof.
  intros Hg Hu Hd. unfold msc_displacement in Hd.
  destruct skip; [discriminate|]. destruct disp; [|discriminate].
  set (len := msc_length safety_tol (Some s) geom_path true_path) in *. numR.
  destruct (Rleb_spec geom_limit len) as [Hle|]; [|discriminate].
  inversion Hd; subst d; clear Hd. unfold vdot. cbn [vx vy vz].
  assert (Hlen0 : 0 <= len) by lra.
  assert (Hnorm : sqrt (vx udir * len * (vx udir * len) + vy udir * len * (vy udir * len) + vz udir * len * (vz udir * len)) <= len).
  { apply Rle_trans with (sqrt (len * len)); [|rewrite sqrt_square by exact Hlen0; lra]. apply sqrt_le_1_alt.
    replace (vx udir * len * (vx udir * len) + vy udir * len * (vy udir * len) + vz udir * len * (vz udir * len))
      with (vdot udir udir * (len * len)) by (unfold vdot; ring).
    pose proof (sq_ge0 len). nra. }
  assert (Hl1 : len <= (1 - safety_tol) * s) by (unfold len, msc_length; numR; apply nmin_le_r).
  assert (Hl2 : len <= calc_displacement geom_path true_path) by (unfold len, msc_length; apply nmin_le_l).
  split; [lra|]. split; [lra|]. intros Ht Hs. nra.
Qed.

(** ** UrbanMsc::apply_step: with the safety of C11 (find_safety(max) = find_safety, conservative)
    the displaced point stays strictly inside the safety sphere, hence on the same side of
    every face of every level: the track cannot have left its volume *)
Theorem msc_displaced_point_in_volume safety_tol geom_limit (levels : list (level (T:=R))) skip disp
        geom_path true_path (udir d : vec) rho :
  0 < safety_tol < 1 -> 0 <= geom_limit -> vdot udir udir <= 1 ->
  (forall l, In l levels -> faces_ok (lv_faces l) (lv_pos l)) ->
  find_safety levels = Some rho ->
  msc_apply_step safety_tol geom_limit levels skip disp geom_path true_path udir = Some d ->
  0 < rho /\ sqrt (vdot d d) <= (1 - safety_tol) * rho /\ sqrt (vdot d d) < rho /\
  forall l, In l levels -> forall s, In s (lv_faces l) ->
    same_side s (lv_pos l) (vadd (lv_pos l) d) /\
    surf_sense s (vadd (lv_pos l) d) = surf_sense s (lv_pos l).
Proof.
  intros Ht Hg Hu Hok Hfs Hd. unfold msc_apply_step in Hd.
  destruct disp.
  2:{ unfold msc_displacement in Hd. cbn [andb] in Hd. destruct skip; discriminate. }
  unfold find_safety_max in Hd. rewrite Hfs in Hd. cbn [andb safety_is_zero] in Hd. numR.
  destruct (Reqb rho 0) eqn:Hz.
  { cbn [negb] in Hd. unfold msc_displacement in Hd. destruct skip; discriminate. }
  apply Reqb_false in Hz. cbn [negb] in Hd.
  assert (Hrho0 : 0 <= rho).
  { unfold msc_displacement in Hd. destruct skip; [discriminate|].
    destruct (geom_limit <=? msc_length safety_tol (Some rho) geom_path true_path)%num eqn:Hl; [|discriminate].
    numR. apply Rleb_true in Hl.
    assert (msc_length safety_tol (Some rho) geom_path true_path <= (1 - safety_tol) * rho)
      by (unfold msc_length; numR; apply nmin_le_r).
    nra. }
  assert (Hrho : 0 < rho) by lra.
  destruct (msc_displacement_within_safety _ _ _ _ _ _ _ _ _ Hg Hu Hd) as [Hb1 [_ Hb3]].
  specialize (Hb3 (proj1 Ht) Hrho).
  split; [exact Hrho|]. split; [exact Hb1|]. split; [exact Hb3|].
  intros l Hl s Hs.
  pose proof (min_levels_conservative levels rho Hok Hfs l Hl s Hs) as Hball.
  assert (Hss : same_side s (lv_pos l) (vadd (lv_pos l) d)).
  { apply Hball. replace (dist2 (lv_pos l) (vadd (lv_pos l) d)) with (vdot d d); [exact Hb3|].
    unfold dist2. f_equal; destruct (lv_pos l) as [a b c], d as [x y z]; unfold vsub, vadd; cbn [vx vy vz]; numR; f_equal; ring. }
  split; [exact Hss|apply same_side_sense; exact Hss].
Qed.

(** non-vacuity: safety 1, tolerance 1 %, true path 5, geometric path 3 (calc_displacement = 2.92):
    the displacement is cut to 0.99 *)
Example msc_displacement_example :
  msc_displacement (1/100) 0 false true (Some 1) 3 5 (V3 1 0 0) = Some (V3 (1 * (99/100)) (0 * (99/100)) (0 * (99/100))).
Proof.
  unfold msc_displacement, msc_length, calc_displacement, diffsq. numR.
  replace ((5 - 3) * (5 + 3)) with (4 * 4) by ring. rewrite sqrt_square by lra.
  unfold nmin. numR. destruct (Rltb_spec ((1 - 1 / 100) * 1) (73 / 100 * 4)) as [|Hc]; [|exfalso; lra].
  destruct (Rleb_spec 0 ((1 - 1 / 100) * 1)) as [|Hc]; [|exfalso; lra].
  cbn [vx vy vz]. f_equal. f_equal; field.
Qed.

(** ** UrbanMscSafetyStepLimit *)
Lemma nmax_ge_l (a b : R) : a <= nmax a b.
Proof. unfold nmax. numR. destruct (Rltb_spec a b); lra. Qed.
Lemma nmax_ge_r (a b : R) : b <= nmax a b.
Proof. unfold nmax. numR. destruct (Rltb_spec a b); lra. Qed.

Theorem msc_limit_bounds safety range range_factor range_init limit_min safety_factor :
  let lim := msc_limit safety range range_factor range_init limit_min safety_factor in
  limit_min <= lim /\
  (safety < range -> safety_factor * safety <= lim /\ range_factor * range_init <= lim) /\
  (range <= safety -> range <= lim).
Proof.
  cbv zeta. unfold msc_limit. numR.
  destruct (Rltb_spec safety range) as [Hlt|Hge].
  - pose proof (nmax_ge_r (nmax (range_factor * range_init) (safety_factor * safety)) limit_min).
    pose proof (nmax_ge_l (nmax (range_factor * range_init) (safety_factor * safety)) limit_min).
    pose proof (nmax_ge_l (range_factor * range_init) (safety_factor * safety)).
    pose proof (nmax_ge_r (range_factor * range_init) (safety_factor * safety)).
    unfold nmax in *. numR. repeat split; intros; lra.
  - pose proof (nmax_ge_r range limit_min). pose proof (nmax_ge_l range limit_min). unfold nmax in *. numR. repeat split; intros; lra.
Qed.

Theorem msc_step_limit_bounds max_step limit limit_min sampled :
  limit_min <= max_step ->
  limit_min <= msc_step_limit max_step limit limit_min sampled <= max_step.
Proof.
  intros Hm. unfold msc_step_limit, nclamp. numR.
  destruct (Rleb_spec max_step limit); [lra|].
  destruct (Reqb limit limit_min); [lra|].
  destruct (Rltb_spec sampled limit_min); [lra|]. destruct (Rltb_spec max_step sampled); lra.
Qed.

Example msc_limit_example : msc_limit 1 10 (1/25) 10 (1/1000) (3/5) = 3/5.
Proof.
  unfold msc_limit, nmax. numR. destruct (Rltb_spec 1 10); [|lra].
  destruct (Rltb_spec (1 / 25 * 10) (3 / 5 * 1)); [|lra]. destruct (Rltb_spec (3 / 5 * 1) (1 / 1000)); lra.
Qed.
