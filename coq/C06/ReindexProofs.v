(** * C06 — proofs about the re-indexing machinery of [Reindex.v] *)
From Coq Require Import List Bool Arith Permutation Lia.
From Celer Require Import C06.Noninterference C06.NoninterferenceProofs C06.Reindex.
Import ListNotations.

(** ** identifiers *)
Lemma aid_eqb_true : forall x y, aid_eqb x y = true <-> x = y.
Proof.
  intros [a|] [b|]; cbn; split; intro H; try discriminate; auto.
  - apply Nat.eqb_eq in H. congruence.
  - inversion H. apply Nat.eqb_refl.
Qed.
Lemma aid_eqb_refl : forall x, aid_eqb x x = true.
Proof. intro; apply aid_eqb_true; auto. Qed.
Lemma aid_eqb_sym : forall x y, aid_eqb x y = aid_eqb y x.
Proof. intros [a|] [b|]; cbn; auto. apply Nat.eqb_sym. Qed.

Ltac aid_norm :=
  unfold aid_leb in *; cbn [aid_ltb aid_eqb negb] in *;
  repeat match goal with
  | H : negb _ = true |- _ => apply negb_true_iff in H
  | H : negb _ = false |- _ => apply negb_false_iff in H
  | H : (_ <? _) = true |- _ => apply Nat.ltb_lt in H
  | H : (_ <? _) = false |- _ => apply Nat.ltb_ge in H
  | H : (_ =? _) = true |- _ => apply Nat.eqb_eq in H
  | H : (_ =? _) = false |- _ => apply Nat.eqb_neq in H
  | H : (_ <=? _) = true |- _ => apply Nat.leb_le in H
  | H : (_ <=? _) = false |- _ => apply Nat.leb_gt in H
  end.
Ltac aid_cases :=
  repeat match goal with
  | x : aid |- _ => destruct x
  end; aid_norm.

(** ** (a) track_slots stays a permutation of 0..n-1 *)
Lemma map_nth_seq_id : forall (l : list nat) d, map (fun p => nth p l d) (seq 0 (length l)) = l.
Proof.
  induction l as [|x l IH]; intro d; [reflexivity|].
  cbn [length seq map nth]. f_equal. rewrite <- seq_shift, map_map. apply IH.
Qed.

Lemma shuffle_perm : forall shuf, shuf_ok shuf -> forall l, Permutation l (shuffle_track_slots shuf l).
Proof.
  intros shuf Hs l. unfold shuffle_track_slots.
  rewrite <- (map_nth_seq_id l 0) at 1.
  apply Permutation_map. apply Permutation_sym. apply Hs.
Qed.

Lemma reindex_step_perm : forall shuf, shuf_ok shuf -> forall op n l l',
  Permutation (seq 0 n) l -> reindex_step shuf op l l' -> Permutation (seq 0 n) l'.
Proof.
  intros shuf Hs op n l l' Hp Hst. destruct op as [| |o st]; cbn in Hst.
  - subst. unfold fill_track_slots. rewrite <- (Permutation_length Hp), seq_length. apply Permutation_refl.
  - subst. eapply Permutation_trans; [exact Hp|]. apply shuffle_perm; auto.
  - destruct (sort_key st o) as [key|]; [|contradiction].
    destruct Hst as [Hp' _]. eapply Permutation_trans; eauto.
Qed.

Theorem reindex_perm : forall shuf, shuf_ok shuf -> forall ops n l,
  reindex_steps shuf ops (fill_track_slots n) l ->
  Permutation (seq 0 n) l /\ NoDup l /\ length l = n.
Proof.
  intros shuf Hs ops n l H.
  assert (Hp : Permutation (seq 0 n) l).
  { assert (G : forall ops l0 l1, Permutation (seq 0 n) l0 -> reindex_steps shuf ops l0 l1 -> Permutation (seq 0 n) l1).
    { clear H. intros ops0. induction ops0 as [|op r IH]; intros l0 l1 Hp H; cbn in H.
      - subst; auto.
      - destruct H as [m [H1 H2]]. eapply IH; [|exact H2]. eapply reindex_step_perm; eauto. }
    eapply G; [|exact H]. apply Permutation_refl. }
  split; [exact Hp|]. split.
  - eapply Permutation_NoDup; [exact Hp|]. apply seq_NoDup.
  - rewrite <- (Permutation_length Hp). apply seq_length.
Qed.

(** the executable sort is an instance of the specification *)
Lemma insert_by_perm : forall key x l, Permutation (x :: l) (insert_by key x l).
Proof.
  intros key x l. induction l as [|y r IH]; cbn; [auto|].
  destruct (aid_ltb (key x) (key y)); [auto|].
  eapply Permutation_trans; [apply perm_swap|]. apply perm_skip. exact IH.
Qed.
Lemma aid_leb_trans : forall x y z, aid_leb x y = true -> aid_leb y z = true -> aid_leb x z = true.
Proof. intros; aid_cases; try discriminate; auto; apply negb_true_iff; apply Nat.ltb_ge; lia. Qed.
Lemma aid_leb_total : forall x y, aid_ltb x y = false -> aid_leb y x = true.
Proof. intros x y H. unfold aid_leb. rewrite H. reflexivity. Qed.
Lemma aid_ltb_leb : forall x y, aid_ltb x y = true -> aid_leb x y = true.
Proof. intros; aid_cases; try discriminate; auto; apply negb_true_iff; apply Nat.ltb_ge; lia. Qed.

Lemma insert_by_sorted : forall key x l,
  sortedb (map key l) = true -> sortedb (map key (insert_by key x l)) = true.
Proof.
  intros key x l. induction l as [|y r IH]; intro Hs; cbn; [reflexivity|].
  cbn in Hs. apply andb_true_iff in Hs. destruct Hs as [Hall Hs].
  destruct (aid_ltb (key x) (key y)) eqn:E; cbn.
  - rewrite Hall, Hs. rewrite (aid_ltb_leb _ _ E). cbn.
    rewrite andb_true_r. apply forallb_forall. intros z Hz.
    rewrite forallb_forall in Hall. eapply aid_leb_trans; [apply aid_ltb_leb; exact E|auto].
  - rewrite (IH Hs), andb_true_r. apply forallb_forall. intros z Hz.
    apply in_map_iff in Hz. destruct Hz as [w [<- Hw]].
    eapply Permutation_in in Hw; [|apply Permutation_sym, insert_by_perm].
    destruct Hw as [<-|Hw].
    + apply aid_leb_total; auto.
    + rewrite forallb_forall in Hall. apply Hall. apply in_map; auto.
Qed.

Lemma sort_by_spec : forall key l, sorted_perm key l (sort_by key l).
Proof.
  intros key l. unfold sorted_perm, sort_by. induction l as [|x r [IHp IHs]]; cbn; [split; auto|].
  split.
  - eapply Permutation_trans; [apply perm_skip; exact IHp|]. apply insert_by_perm.
  - apply insert_by_sorted; auto.
Qed.

(** ** (b) count_tracks_per_action / backfill_action_count *)
Lemma set_nth_length : forall A i (v : A) l, length (set_nth i v l) = length l.
Proof. intros A i v l. revert i. induction l as [|x r IH]; intros [|i]; cbn; auto. Qed.
Lemma set_nth_same : forall A i (v : A) l d, i < length l -> nth i (set_nth i v l) d = v.
Proof. intros A i v l d. revert i. induction l as [|x r IH]; intros [|i] H; cbn in *; try lia; auto. apply IH; lia. Qed.
Lemma set_nth_other : forall A i j (v : A) l d, i <> j -> nth i (set_nth j v l) d = nth i l d.
Proof. intros A i j v l d. revert i j. induction l as [|x r IH]; intros [|i] [|j] H; cbn; auto; try lia. Qed.

Definition memk (a : nat) (ks : list aid) : bool := existsb (aid_eqb (Some a)) ks.

Lemma sortedb_cons : forall k r, sortedb (k :: r) = true ->
  (forall x, In x r -> aid_leb k x = true) /\ sortedb r = true.
Proof.
  intros k r H. cbn in H. apply andb_true_iff in H. destruct H as [H1 H2].
  split; auto. apply forallb_forall; auto.
Qed.

Lemma count_lt_cons : forall a k r,
  count_lt a (k :: r) = (if aid_ltb k (Some a) then 1 else 0) + count_lt a r.
Proof. intros. unfold count_lt. cbn. destruct (aid_ltb k (Some a)); reflexivity. Qed.

Lemma count_lt_zero : forall a r, (forall x, In x r -> aid_leb (Some a) x = true) -> count_lt a r = 0.
Proof.
  intros a r. induction r as [|k r IH]; intro H; [reflexivity|].
  rewrite count_lt_cons, IH by (intros; apply H; right; auto).
  specialize (H k (or_introl eq_refl)). unfold aid_leb in H. apply negb_true_iff in H. rewrite H. reflexivity.
Qed.

Lemma memk_none : forall a r, (forall x, In x r -> aid_leb None x = true) -> memk a r = false.
Proof.
  intros a r H. unfold memk. apply not_true_is_false. intro E.
  apply existsb_exists in E. destruct E as [x [Hx Hxe]]. apply aid_eqb_true in Hxe. subst x.
  specialize (H _ Hx). discriminate.
Qed.

Lemma memk_in : forall a r, memk a r = true <-> In (Some a) r.
Proof.
  intros a r. unfold memk. rewrite existsb_exists. split.
  - intros [x [Hx E]]. apply aid_eqb_true in E. subst; auto.
  - intro H. exists (Some a). split; auto. apply aid_eqb_refl.
Qed.

Lemma count_loop_length : forall r prev i offs, length (count_loop prev i r offs) = length offs.
Proof.
  induction r as [|k r IH]; intros prev i offs; cbn; [reflexivity|].
  rewrite IH. destruct k as [b|]; [|reflexivity]. destruct (aid_eqb (Some b) prev); [reflexivity|apply set_nth_length].
Qed.

Lemma count_loop_nth : forall r prev i offs a,
  sortedb (prev :: r) = true -> a < length offs ->
  nth a (count_loop prev i r offs) None
  = if memk a r && negb (aid_eqb (Some a) prev) then Some (i + count_lt a r) else nth a offs None.
Proof.
  induction r as [|k r IH]; intros prev i offs a Hs Ha.
  - reflexivity.
  - destruct (sortedb_cons _ _ Hs) as [Hall Hs'].
    destruct (sortedb_cons _ _ Hs') as [Hall' _].
    assert (Hpk : aid_leb prev k = true) by (apply Hall; left; auto).
    cbn [count_loop]. destruct k as [b|].
    + assert (Hmem : memk a r = true -> b <= a).
      { intro Hm. apply memk_in in Hm. specialize (Hall' _ Hm). aid_norm. lia. }
      destruct (aid_eqb (Some b) prev) eqn:E.
      * apply aid_eqb_true in E. subst prev.
        rewrite (IH (Some b) (S i) offs a Hs' Ha).
        unfold memk at 2. cbn [existsb]. fold (memk a r).
        rewrite count_lt_cons. cbn [aid_eqb aid_ltb].
        destruct (a =? b) eqn:Eab; cbn [orb negb andb].
        -- rewrite andb_false_r. reflexivity.
        -- rewrite !andb_true_r. destruct (memk a r) eqn:Em; [|reflexivity].
           apply Nat.eqb_neq in Eab. specialize (Hmem eq_refl).
           assert (Hlt : (b <? a) = true) by (apply Nat.ltb_lt; lia). rewrite Hlt. f_equal. lia.
      * rewrite (IH (Some b) (S i) (set_nth b (Some i) offs) a Hs') by (rewrite set_nth_length; auto).
        unfold memk at 2. cbn [existsb]. fold (memk a r).
        rewrite count_lt_cons.
        change (aid_eqb (Some a) (Some b)) with (a =? b).
        change (aid_ltb (Some b) (Some a)) with (b <? a).
        destruct (a =? b) eqn:Eab; cbn [orb negb andb].
        -- apply Nat.eqb_eq in Eab. subst b. rewrite andb_false_r.
           rewrite set_nth_same by auto.
           rewrite E. cbn [negb]. rewrite Nat.ltb_irrefl.
           rewrite count_lt_zero by auto. f_equal. lia.
        -- apply Nat.eqb_neq in Eab. rewrite andb_true_r.
           rewrite set_nth_other by auto.
           destruct (memk a r) eqn:Em; cbn [andb]; [|reflexivity].
           specialize (Hmem eq_refl).
           assert (Hlt : (b <? a) = true) by (apply Nat.ltb_lt; lia). rewrite Hlt.
           assert (Hne : aid_eqb (Some a) prev = false).
           { apply not_true_is_false. intro E2. apply aid_eqb_true in E2. subst prev.
             aid_norm. lia. }
           rewrite Hne. cbn [negb]. f_equal. lia.
    + rewrite (IH None (S i) offs a Hs' Ha).
      rewrite (memk_none a r Hall'). unfold memk. cbn [existsb aid_eqb orb]. fold (memk a r).
      rewrite (memk_none a r Hall'). reflexivity.
Qed.

(** the table before back-filling: the first thread of every action present *)
Lemma count_raw_nth : forall k0 r noffs a,
  sortedb (k0 :: r) = true -> forallb (key_in_bounds noffs) (k0 :: r) = true -> a < noffs ->
  nth a (match k0 with
         | Some b => set_nth b (Some 0) (count_loop k0 1 r (repeat None noffs))
         | None => count_loop k0 1 r (repeat None noffs)
         end) None
  = if memk a (k0 :: r) then Some (count_lt a (k0 :: r)) else None.
Proof.
  intros k0 r noffs a Hs Hb Ha.
  destruct (sortedb_cons _ _ Hs) as [Hall Hs'].
  assert (Hrep : nth a (repeat None noffs) (@None nat) = None).
  { clear. revert a. induction noffs; intros [|a]; cbn; auto. }
  assert (Hlen : length (count_loop k0 1 r (repeat None noffs)) = noffs)
    by (rewrite count_loop_length, repeat_length; auto).
  pose proof (count_loop_nth r k0 1 (repeat None noffs) a Hs) as Hn.
  rewrite repeat_length in Hn. specialize (Hn Ha). rewrite Hrep in Hn.
  unfold memk at 1. cbn [existsb]. fold (memk a r). rewrite count_lt_cons.
  destruct k0 as [b|].
  - cbn [aid_eqb aid_ltb]. cbn in Hb. apply andb_true_iff in Hb. destruct Hb as [Hb _]. apply Nat.ltb_lt in Hb.
    destruct (a =? b) eqn:Eab; cbn [orb].
    + apply Nat.eqb_eq in Eab. subst b. rewrite set_nth_same by lia.
      rewrite Nat.ltb_irrefl, count_lt_zero by auto. reflexivity.
    + apply Nat.eqb_neq in Eab. rewrite set_nth_other by auto. rewrite Hn.
      cbn [aid_eqb]. apply Nat.eqb_neq in Eab. rewrite Eab. cbn [negb]. rewrite andb_true_r.
      destruct (memk a r) eqn:Em; [|reflexivity].
      apply memk_in in Em. specialize (Hall _ Em). apply Nat.eqb_neq in Eab. aid_norm.
      assert (Hlt : (b <? a) = true) by (apply Nat.ltb_lt; lia). rewrite Hlt. reflexivity.
  - rewrite Hn. rewrite (memk_none a r Hall). reflexivity.
Qed.

Lemma backfill_aux_length : forall l, length (backfill_aux l) = length l.
Proof. induction l as [|[v|] r IH]; cbn; auto. Qed.

Lemma backfill_aux_step : forall l a, S a < length l ->
  nth a (backfill_aux l) None
  = match nth a l None with Some v => Some v | None => nth (S a) (backfill_aux l) None end.
Proof.
  induction l as [|x r IH]; intros a Ha; [cbn in Ha; lia|].
  destruct a as [|a].
  - cbn [backfill_aux]. destruct x as [v|]; cbn [nth]; [reflexivity|].
    destruct (backfill_aux r); reflexivity.
  - cbn [backfill_aux]. cbn [length] in Ha.
    destruct x as [v|]; cbn [nth]; apply IH; lia.
Qed.

Lemma backfill_aux_last : forall l a, S a = length l -> nth a (backfill_aux l) None = nth a l None.
Proof.
  induction l as [|x r IH]; intros a Ha; [cbn in Ha; lia|].
  cbn [length] in Ha. destruct a as [|a].
  - destruct r; [|cbn in Ha; lia]. destruct x; reflexivity.
  - cbn [backfill_aux]. destruct x; cbn [nth]; apply IH; lia.
Qed.

Definition valid_below (A : nat) (ks : list aid) : Prop :=
  forall b, In (Some b) ks -> b < A.

Lemma has_ge_false_of_bound : forall A ks, valid_below A ks -> has_ge A ks = false.
Proof.
  intros A ks H. unfold has_ge. apply not_true_is_false. intro E.
  apply existsb_exists in E. destruct E as [[b|] [Hx Hb]]; [|discriminate].
  apply Nat.leb_le in Hb. specialize (H _ Hx). lia.
Qed.

Lemma offset_spec_skip : forall ks a, memk a ks = false -> offset_spec ks a = offset_spec ks (S a).
Proof.
  intros ks a Hm. unfold offset_spec.
  assert (H1 : has_ge a ks = has_ge (S a) ks /\ count_lt a ks = count_lt (S a) ks).
  { induction ks as [|k r IH]; [split; reflexivity|].
    unfold memk in Hm. cbn [existsb] in Hm. apply orb_false_iff in Hm. destruct Hm as [Hk Hm].
    destruct (IH Hm) as [IH1 IH2]. unfold has_ge. cbn [existsb]. fold (has_ge a r) (has_ge (S a) r).
    rewrite !count_lt_cons, IH1, IH2. destruct k as [b|]; cbn [aid_eqb aid_ltb] in *; [|split; reflexivity].
    apply Nat.eqb_neq in Hk.
    destruct (a <=? b) eqn:E1; destruct (S a <=? b) eqn:E2; destruct (b <? a) eqn:E3; destruct (b <? S a) eqn:E4;
      aid_norm; try lia; split; reflexivity. }
  destruct H1 as [-> ->]. reflexivity.
Qed.

Lemma offset_spec_mem : forall ks a, memk a ks = true -> offset_spec ks a = count_lt a ks.
Proof.
  intros ks a Hm. unfold offset_spec.
  assert (H : has_ge a ks = true).
  { apply memk_in in Hm. unfold has_ge. apply existsb_exists. exists (Some a). split; auto. apply Nat.leb_refl. }
  rewrite H. reflexivity.
Qed.

(** closed form of the offsets table: for sorted keys, entry [a] is the
    number of threads whose key is below [a] (or the thread count when no
    valid key >= a remains) *)
Theorem count_offsets : forall act ts A,
  let ks := thread_keys act ts in
  ts <> [] -> 1 <= A -> sortedb ks = true -> valid_below A ks ->
  exists offs, count_tracks_per_action act ts (S A) = Some offs
               /\ length offs = S A
               /\ forall a, a <= A -> nth a offs None = Some (offset_spec ks a).
Proof.
  intros act ts A ks Hne HA Hs Hv.
  unfold count_tracks_per_action. fold ks.
  assert (Hlen : length ks = length ts) by (unfold ks, thread_keys; apply map_length).
  destruct ks as [|k0 r] eqn:Eks.
  { destruct ts; [congruence|discriminate]. }
  assert (Hb : forallb (key_in_bounds (S A)) (k0 :: r) = true).
  { apply forallb_forall. intros [b|] Hx; unfold key_in_bounds; auto. apply Nat.ltb_lt. specialize (Hv _ Hx). lia. }
  rewrite Hb.
  set (o2 := match k0 with
             | Some b => set_nth b (Some 0) (count_loop k0 1 r (repeat None (S A)))
             | None => count_loop k0 1 r (repeat None (S A)) end).
  assert (Ho2 : length o2 = S A).
  { unfold o2. destruct k0; rewrite ?set_nth_length, count_loop_length, repeat_length; reflexivity. }
  unfold backfill_action_count. rewrite Ho2.
  assert (Hlt2 : (S A <? 2) = false) by (apply Nat.ltb_ge; lia). rewrite Hlt2.
  eexists. split; [reflexivity|].
  set (o3 := set_nth (S A - 1) (Some (length ts)) o2).
  assert (Ho3 : length o3 = S A) by (unfold o3; rewrite set_nth_length; auto).
  split; [rewrite backfill_aux_length; auto|].
  assert (Hraw : forall a, a < A -> nth a o3 None = if memk a (k0 :: r) then Some (count_lt a (k0 :: r)) else None).
  { intros a Ha. unfold o3. rewrite set_nth_other by lia. unfold o2. apply count_raw_nth; auto. }
  assert (Hlast : nth A o3 None = Some (length ts)).
  { unfold o3. replace (S A - 1) with A by lia. apply set_nth_same. lia. }
  intros a Ha. remember (A - a) as d eqn:Ed. revert a Ha Ed.
  induction d as [|d IH]; intros a Ha Ed.
  - assert (a = A) by lia. subst a. rewrite backfill_aux_last by lia. rewrite Hlast.
    unfold offset_spec. rewrite has_ge_false_of_bound by auto. rewrite Hlen. reflexivity.
  - rewrite backfill_aux_step by lia. rewrite Hraw by lia.
    destruct (memk a (k0 :: r)) eqn:Em.
    + rewrite offset_spec_mem by auto. reflexivity.
    + rewrite (IH (S a)) by lia. rewrite <- offset_spec_skip by auto. reflexivity.
Qed.

(** ... which is the prefix sum of the per-action counts when every thread
    has a valid action *)
Lemma count_lt_prefix_sum : forall ks a, count_lt a ks = prefix_sum (fun b => count_eq b ks) a.
Proof.
  intros ks a. induction a as [|a IH].
  - cbn. apply count_lt_zero. intros [b|] _; reflexivity.
  - cbn [prefix_sum]. rewrite <- IH. clear IH. unfold count_lt, count_eq.
    induction ks as [|k r IHr]; [reflexivity|]. cbn [filter].
    destruct k as [b|]; cbn [aid_ltb aid_eqb].
    + destruct (b <? S a) eqn:E1; destruct (b <? a) eqn:E2; destruct (b =? a) eqn:E3; aid_norm; cbn [length]; lia.
    + exact IHr.
Qed.

Theorem offsets_are_prefix_sums : forall ks a,
  (forall k, In k ks -> k <> None) ->
  offset_spec ks a = prefix_sum (fun b => count_eq b ks) a.
Proof.
  intros ks a Hv. rewrite <- count_lt_prefix_sum. unfold offset_spec.
  destruct (has_ge a ks) eqn:E; [reflexivity|].
  unfold count_lt. symmetry. f_equal.
  induction ks as [|k r IH]; [reflexivity|]. cbn [filter].
  unfold has_ge in E. cbn [existsb] in E. apply orb_false_iff in E. destruct E as [Ek Er].
  destruct k as [b|]; [|exfalso; eapply Hv; [left; reflexivity|reflexivity]].
  cbn [aid_ltb]. assert (Hlt : (b <? a) = true) by (aid_norm; apply Nat.ltb_lt; lia). rewrite Hlt.
  f_equal. apply IH; auto. intros k Hk. apply Hv. right; auto.
Qed.

(** *** the launch ranges *)
Lemma sorted_prefix : forall ks a t, sortedb ks = true -> t < length ks ->
  (aid_ltb (nth t ks None) (Some a) = true <-> t < count_lt a ks).
Proof.
  induction ks as [|k r IH]; intros a t Hs Ht; [cbn in Ht; lia|].
  destruct (sortedb_cons _ _ Hs) as [Hall Hs'].
  rewrite count_lt_cons. destruct (aid_ltb k (Some a)) eqn:E.
  - destruct t as [|t]; cbn [nth].
    + rewrite E. split; intro; [lia|auto].
    + cbn [length] in Ht. rewrite (IH a t Hs') by lia. lia.
  - assert (Hz : count_lt a r = 0).
    { apply count_lt_zero. intros x Hx. specialize (Hall _ Hx). aid_cases; try discriminate; auto.
      apply negb_true_iff. apply Nat.ltb_ge. lia. }
    rewrite Hz. destruct t as [|t]; cbn [nth].
    + rewrite E. split; [discriminate|lia].
    + cbn [length] in Ht. split; [|lia]. intro H.
      assert (Hin : In (nth t r None) r) by (apply nth_In; lia).
      specialize (Hall _ Hin). destruct (nth t r None); aid_cases; try discriminate; lia.
Qed.

Lemma count_lt_le : forall a ks, count_lt a ks <= length ks.
Proof.
  intros a ks. unfold count_lt. induction ks as [|k r IH]; [auto|]. cbn [filter].
  destruct (aid_ltb k (Some a)); cbn [length]; lia.
Qed.

Lemma offset_spec_le : forall ks a, offset_spec ks a <= length ks.
Proof. intros. unfold offset_spec. destruct (has_ge a ks); [apply count_lt_le|lia]. Qed.

Lemma has_ge_mono : forall ks a, has_ge (S a) ks = true -> has_ge a ks = true.
Proof.
  intros ks a H. unfold has_ge in *. apply existsb_exists in H. apply existsb_exists.
  destruct H as [[b|] [Hx Hb]]; [|discriminate]. exists (Some b). split; auto.
  apply Nat.leb_le in Hb. apply Nat.leb_le. lia.
Qed.

Lemma count_lt_mono : forall ks a, count_lt a ks <= count_lt (S a) ks.
Proof.
  intros ks a. induction ks as [|k r IH]; [auto|]. rewrite !count_lt_cons.
  destruct k as [b|]; cbn [aid_ltb]; [|lia].
  destruct (b <? a) eqn:E1; destruct (b <? S a) eqn:E2; aid_norm; lia.
Qed.

(** the ranges are consecutive intervals inside [0, n]: they are pairwise disjoint *)
Theorem offsets_monotone : forall ks a, offset_spec ks a <= offset_spec ks (S a).
Proof.
  intros ks a. unfold offset_spec. destruct (has_ge (S a) ks) eqn:E.
  - rewrite (has_ge_mono _ _ E). apply count_lt_mono.
  - destruct (has_ge a ks); [apply count_lt_le|lia].
Qed.

(** every thread whose action is [a] lies in the range of [a] ... *)
Theorem action_in_range : forall ks a t,
  sortedb ks = true -> t < length ks -> nth t ks None = Some a ->
  offset_spec ks a <= t < offset_spec ks (S a).
Proof.
  intros ks a t Hs Ht Hk.
  assert (Hin : In (Some a) ks) by (rewrite <- Hk; apply nth_In; auto).
  assert (Hge : has_ge a ks = true).
  { unfold has_ge. apply existsb_exists. exists (Some a). split; auto. apply Nat.leb_refl. }
  unfold offset_spec. rewrite Hge. split.
  - destruct (Nat.le_gt_cases (count_lt a ks) t) as [|Hlt]; auto.
    apply (sorted_prefix ks a t Hs Ht) in Hlt. rewrite Hk in Hlt. unfold aid_ltb in Hlt. apply Nat.ltb_lt in Hlt. lia.
  - destruct (has_ge (S a) ks); [|auto].
    apply (sorted_prefix ks (S a) t Hs Ht). rewrite Hk. unfold aid_ltb. apply Nat.ltb_lt. lia.
Qed.

(** ... and the range of [a] holds nothing but threads whose action is [a]
    or whose action id is invalid (these can only trail the last action present) *)
Theorem range_only_action : forall ks a t,
  sortedb ks = true -> offset_spec ks a <= t < offset_spec ks (S a) ->
  t < length ks /\ (nth t ks None = Some a \/ nth t ks None = None).
Proof.
  intros ks a t Hs [Hlo Hhi].
  assert (Ht : t < length ks) by (pose proof (offset_spec_le ks (S a)); lia).
  split; auto. unfold offset_spec in *.
  destruct (has_ge a ks) eqn:Ea; [|lia].
  assert (Hnlt : aid_ltb (nth t ks None) (Some a) = false).
  { apply not_true_is_false. intro H. apply (sorted_prefix ks a t Hs Ht) in H. lia. }
  destruct (has_ge (S a) ks) eqn:Es.
  - apply (sorted_prefix ks (S a) t Hs Ht) in Hhi.
    destruct (nth t ks None) as [b|]; [|auto]. left. aid_norm. f_equal. lia.
  - destruct (nth t ks None) as [b|] eqn:Ek; [|auto]. left.
    assert (Hin : In (Some b) ks) by (rewrite <- Ek; apply nth_In; auto).
    unfold has_ge in Es. assert (Hb : (S a <=? b) = false).
    { apply not_true_is_false. intro Hc. assert (existsb (fun k => match k with Some b => S a <=? b | None => false end) ks = true).
      { apply existsb_exists. exists (Some b). split; auto. }
      congruence. }
    aid_norm. f_equal. lia.
Qed.

(** the ranges are NOT exactly the threads of the action: threads with an
    invalid action id are swept into the range of the last action present *)
Theorem exact_ranges_refuted :
  exists act ts A offs a t,
    sortedb (thread_keys act ts) = true /\ valid_below A (thread_keys act ts) /\
    count_tracks_per_action act ts (S A) = Some offs /\
    get_action_range offs a = Some (0, 2) /\ t = 1 /\
    nth t (thread_keys act ts) None <> Some a.
Proof.
  exists [Some 0; None], [0; 1], 1, [Some 0; Some 2], 0, 1.
  repeat split; try reflexivity.
  - intros b [H|[H|[]]]; inversion H; lia.
  - cbn. discriminate.
Qed.

(** ** launches *)
Section LaunchProofs.
  Variables field value : Type.
  Local Notation sstate := (sstate field value).
  Local Notation store := (store field value nat).

  Lemma launch_own_pointwise : forall (k : sstate -> sstate) order (sigma : store) i,
    NoDup order ->
    launch Nat.eq_dec (own_slot k) order sigma i = if in_dec Nat.eq_dec i order then k (sigma i) else sigma i.
  Proof.
    intros k order sigma i Hnd.
    rewrite launch_pointwise; auto. apply own_slot_isolated.
  Qed.

  Lemma NoDup_map_inj_on : forall (f : nat -> nat) l,
    NoDup l -> (forall x y, In x l -> In y l -> f x = f y -> x = y) -> NoDup (map f l).
  Proof.
    intros f l Hnd. induction Hnd as [|x l Hx Hnd IH]; intro Hinj; cbn; constructor.
    - intro Hin. apply in_map_iff in Hin. destruct Hin as [y [Hy Hyl]].
      assert (y = x) by (apply Hinj; [right|left|]; auto). subst. contradiction.
    - apply IH. intros; apply Hinj; auto; right; auto.
  Qed.

  Lemma thread_to_slot_nth : forall ts t, ts <> [] -> thread_to_slot ts t = nth t ts 0.
  Proof. intros [|x r] t H; [congruence|reflexivity]. Qed.

  Lemma range_slots_NoDup : forall ts b e, ts <> [] -> NoDup ts -> e <= length ts -> NoDup (range_slots ts b e).
  Proof.
    intros ts b e Hne Hnd He. unfold range_slots. apply NoDup_map_inj_on; [apply seq_NoDup|].
    intros x y Hx Hy Hxy. apply in_seq in Hx. apply in_seq in Hy.
    rewrite !thread_to_slot_nth in Hxy by auto.
    apply (proj1 (NoDup_nth ts 0) Hnd x y); [lia|lia|exact Hxy].
  Qed.

  Lemma in_range_slots : forall ts b e i, ts <> [] ->
    In i (range_slots ts b e) <-> exists t, b <= t < e /\ nth t ts 0 = i.
  Proof.
    intros ts b e i Hne. unfold range_slots. rewrite in_map_iff. split.
    - intros [t [Ht Hin]]. apply in_seq in Hin. rewrite thread_to_slot_nth in Ht by auto. exists t. split; auto. lia.
    - intros [t [Hr Ht]]. exists t. rewrite thread_to_slot_nth by auto. split; auto. apply in_seq. lia.
  Qed.

  Lemma range_slots_all : forall ts, ts <> [] -> range_slots ts 0 (length ts) = ts.
  Proof.
    intros ts Hne. unfold range_slots. rewrite Nat.sub_0_r.
    rewrite <- (map_nth_seq_id ts 0) at 3. apply map_ext. intro t. apply thread_to_slot_nth; auto.
  Qed.

  Lemma range_slots_none : forall n, range_slots [] 0 n = seq 0 n.
  Proof. intro n. unfold range_slots. rewrite Nat.sub_0_r. cbn. apply map_id. Qed.

  (** (c) the host launch over all threads does not depend on the order policy:
      any track_slots reached by re-indexing gives what TrackOrder::none gives *)
  Theorem launch_order_independent : forall shuf, shuf_ok shuf ->
    forall ops n ts (k : sstate -> sstate) (sigma : store) i,
      0 < n -> reindex_steps shuf ops (fill_track_slots n) ts ->
      launch_core k ts n sigma i = launch_core k [] n sigma i.
  Proof.
    intros shuf Hs ops n ts k sigma i Hn Hst.
    destruct (reindex_perm shuf Hs ops n ts Hst) as [Hp [Hnd Hlen]].
    assert (Hne : ts <> []) by (intro E0; rewrite E0 in Hlen; cbn in Hlen; lia).
    unfold launch_core, launch_threads. rewrite range_slots_none.
    rewrite <- Hlen at 1. rewrite range_slots_all by auto.
    apply kernel_perm_invariance; auto. apply Permutation_sym; auto.
  Qed.

  (** the slot-wise meaning of a host launch *)
  Lemma launch_core_pointwise : forall n (k : sstate -> sstate) (sigma : store) i,
    launch_core k [] n sigma i = if i <? n then k (sigma i) else sigma i.
  Proof.
    intros n k sigma i. unfold launch_core, launch_threads. rewrite range_slots_none.
    rewrite launch_own_pointwise by apply seq_NoDup.
    destruct (in_dec Nat.eq_dec i (seq 0 n)) as [H|H]; rewrite in_seq in H;
      destruct (i <? n) eqn:E; aid_norm; auto; lia.
  Qed.

  Lemma nth_map_default : forall A B (f : A -> B) l t d d', t < length l -> nth t (map f l) d = f (nth t l d').
  Proof.
    intros A B f l t d d' H. rewrite (nth_indep _ d (f d')) by (rewrite map_length; auto). apply map_nth.
  Qed.

  (** (b)+(c) the action-range launch (threads [offsets[a], offsets[a+1]) only)
      of a kernel guarded by IsStepActionEqual{a} visits every slot whose action
      is [a] exactly once, and has the same effect as the launch over all
      threads in the plain order *)
  Theorem action_range_launch : forall (action_of : sstate -> aid) (k : sstate -> sstate)
      (sigma : store) ts n A offs a,
    let ks := store_keys action_of sigma ts in
    let ck := cond_kernel (is_action_equal action_of a) k in
    0 < n -> Permutation (seq 0 n) ts -> sortedb ks = true ->
    length offs = S A -> (forall b, b <= A -> nth b offs None = Some (offset_spec ks b)) ->
    a < A ->
    exists st, launch_action_range ck ts offs a sigma = Some st
      /\ NoDup (range_slots ts (offset_spec ks a) (offset_spec ks (S a)))
      /\ (forall s, s < n -> action_of (sigma s) = Some a ->
                    In s (range_slots ts (offset_spec ks a) (offset_spec ks (S a))))
      /\ forall i, st i = launch_core ck [] n sigma i.
  Proof.
    intros action_of k sigma ts n A offs a ks ck Hn Hp Hs Hlen Hoffs Ha.
    assert (Hnd : NoDup ts) by (eapply Permutation_NoDup; [exact Hp|apply seq_NoDup]).
    assert (Hl : length ts = n) by (rewrite <- (Permutation_length Hp); apply seq_length).
    assert (Hne : ts <> []) by (intro E0; rewrite E0 in Hl; cbn in Hl; lia).
    assert (Hkl : length ks = n) by (unfold ks, store_keys; rewrite map_length; auto).
    assert (Hkey : forall t, t < n -> nth t ks None = action_of (sigma (nth t ts 0))).
    { intros t Ht. unfold ks, store_keys. apply (nth_map_default _ _ (fun s => action_of (sigma s)) ts t None 0). lia. }
    unfold launch_action_range, get_action_range. rewrite Hlen.
    assert (Hlt : (S a <? S A) = true) by (apply Nat.ltb_lt; lia). rewrite Hlt.
    rewrite !Hoffs by lia.
    set (b := offset_spec ks a). set (e := offset_spec ks (S a)).
    assert (He : e <= n) by (unfold e; rewrite <- Hkl; apply offset_spec_le).
    eexists. split; [reflexivity|].
    assert (Hrnd : NoDup (range_slots ts b e)) by (apply range_slots_NoDup; auto; lia).
    assert (Hvis : forall s, s < n -> action_of (sigma s) = Some a -> In s (range_slots ts b e)).
    { intros s Hsn Hact.
      assert (Hin : In s ts) by (eapply Permutation_in; [exact Hp|apply in_seq; lia]).
      destruct (In_nth _ _ 0 Hin) as [t [Ht Hts]]. rewrite Hl in Ht.
      apply in_range_slots; auto. exists t. split; auto.
      apply action_in_range; auto; [lia|]. rewrite Hkey by auto. rewrite Hts. exact Hact. }
    split; [exact Hrnd|]. split; [exact Hvis|].
    intro i. rewrite launch_core_pointwise. unfold launch_threads.
    rewrite launch_own_pointwise by auto.
    destruct (in_dec Nat.eq_dec i (range_slots ts b e)) as [Hin|Hnin].
    - apply in_range_slots in Hin; auto. destruct Hin as [t [Hr Ht]].
      assert (Hi : i < n).
      { assert (In i ts) by (rewrite <- Ht; apply nth_In; lia).
        eapply Permutation_in in H; [|apply Permutation_sym; exact Hp]. apply in_seq in H. lia. }
      apply Nat.ltb_lt in Hi. rewrite Hi. reflexivity.
    - destruct (i <? n) eqn:Ei; [|reflexivity]. apply Nat.ltb_lt in Ei.
      unfold ck, cond_kernel, is_action_equal.
      destruct (aid_eqb (action_of (sigma i)) (Some a)) eqn:E; [|reflexivity].
      apply aid_eqb_true in E. exfalso. apply Hnin. apply Hvis; auto.
  Qed.
End LaunchProofs.

(** ** end to end: re-index, sort by action, count, launch by range *)
Section EndToEnd.
  Variables field value : Type.
  Local Notation sstate := (sstate field value).
  Local Notation store := (store field value nat).

  Lemma thread_keys_store_keys : forall (action_of : sstate -> aid) (sigma : store) n ts,
    (forall s, In s ts -> s < n) ->
    thread_keys (map (fun s => action_of (sigma s)) (seq 0 n)) ts = store_keys action_of sigma ts.
  Proof.
    intros action_of sigma n ts H. unfold thread_keys, store_keys. apply map_ext_in. intros s Hs.
    specialize (H s Hs).
    rewrite (nth_map_default _ _ (fun s => action_of (sigma s)) (seq 0 n) s None 0) by (rewrite seq_length; auto).
    rewrite seq_nth by auto. reflexivity.
  Qed.

  (** whatever re-indexing happened before, after SortTracksAction (sort by the
      action id + count_tracks_per_action) the launch of the action's kernel over
      its thread range equals the launch over all threads in the plain order *)
  Theorem sorted_action_launch : forall shuf, shuf_ok shuf ->
    forall ops n ts0 ts A (action_of : sstate -> aid) (k : sstate -> sstate) (sigma : store) a,
      0 < n -> 1 <= A -> a < A ->
      reindex_steps shuf ops (fill_track_slots n) ts0 ->
      sorted_perm (fun s => action_of (sigma s)) ts0 ts ->
      (forall s b, s < n -> action_of (sigma s) = Some b -> b < A) ->
      let act := map (fun s => action_of (sigma s)) (seq 0 n) in
      let ck := cond_kernel (is_action_equal action_of a) k in
      exists offs st,
        count_tracks_per_action act ts (S A) = Some offs
        /\ launch_action_range ck ts offs a sigma = Some st
        /\ (forall i, st i = launch_core ck [] n sigma i)
        /\ (forall i, launch_core ck ts n sigma i = launch_core ck [] n sigma i).
  Proof.
    intros shuf Hshuf ops n ts0 ts A action_of k sigma a Hn HA Ha Hst [Hperm Hsorted] Hbound act ck.
    destruct (reindex_perm shuf Hshuf ops n ts0 Hst) as [Hp0 [_ _]].
    assert (Hp : Permutation (seq 0 n) ts) by (eapply Permutation_trans; eauto).
    assert (Hin : forall s, In s ts -> s < n).
    { intros s Hs. eapply Permutation_in in Hs; [|apply Permutation_sym; exact Hp]. apply in_seq in Hs. lia. }
    assert (Hl : length ts = n) by (rewrite <- (Permutation_length Hp); apply seq_length).
    assert (Hne : ts <> []) by (intro E0; rewrite E0 in Hl; cbn in Hl; lia).
    pose proof (thread_keys_store_keys action_of sigma n ts Hin) as Hk.
    assert (Hsk : store_keys action_of sigma ts = map (fun s => action_of (sigma s)) ts) by reflexivity.
    destruct (count_offsets act ts A Hne HA) as [offs [Hc [Hlen Hoffs]]].
    - unfold act. rewrite Hk, Hsk. exact Hsorted.
    - unfold act. rewrite Hk. intros b Hb. unfold store_keys in Hb. apply in_map_iff in Hb.
      destruct Hb as [s [Hs1 Hs2]]. apply (Hbound s b); auto.
    - unfold act in Hoffs. rewrite Hk in Hoffs.
      destruct (action_range_launch field value action_of k sigma ts n A offs a Hn Hp) as [st [H1 [_ [_ H2]]]]; auto.
      exists offs, st. split; [exact Hc|]. split; [exact H1|]. split; [exact H2|].
      intro i. unfold launch_core, launch_threads. rewrite range_slots_none.
      rewrite <- Hl at 1. rewrite range_slots_all by auto.
      apply kernel_perm_invariance; [apply Permutation_sym; auto|].
      eapply Permutation_NoDup; [exact Hp|apply seq_NoDup].
  Qed.
End EndToEnd.

(** ** non-vacuity *)
Definition ex_shuf (n : nat) : list nat := rev (seq 0 n).
Lemma ex_shuf_ok : shuf_ok ex_shuf.
Proof. intro n. unfold ex_shuf. apply Permutation_sym, Permutation_rev. Qed.

Definition ex_state : sort_state :=
  {| st_status := [1; 0; 2; 0; 1];
     st_along := [Some 2; None; Some 0; None; Some 2];
     st_post := [Some 1; Some 1; Some 3; None; Some 0];
     st_particle := [Some 0; Some 1; Some 0; Some 1; Some 0] |}.

(** a run of fill, shuffle, partition by status, sort by along-step action *)
Example ex_reindex_steps :
  reindex_steps ex_shuf [OpShuffle; OpSort reindex_status ex_state; OpSort reindex_along_step_action ex_state]
                (fill_track_slots 5) [2; 4; 0; 3; 1].
Proof.
  cbn. exists [4; 3; 2; 1; 0]. split; [reflexivity|].
  exists [0; 2; 4; 1; 3]. split.
  - apply (sort_by_spec (fun s => if nth s (st_status ex_state) 0 =? 0 then Some 1 else Some 0) [4; 3; 2; 1; 0]).
  - exists [2; 4; 0; 3; 1]. split; [|reflexivity].
    apply (sort_by_spec (fun s => nth s (st_along ex_state) None) [0; 2; 4; 1; 3]).
Qed.

Example ex_reindex_perm : Permutation (seq 0 5) [2; 4; 0; 3; 1] /\ NoDup [2; 4; 0; 3; 1] /\ length [2; 4; 0; 3; 1] = 5.
Proof. exact (reindex_perm ex_shuf ex_shuf_ok _ 5 _ ex_reindex_steps). Qed.

(** offsets of the sorted example: action 0 -> [0,1), 1 -> [1,1), 2 -> [1,5)
    (the two slots with an invalid action trail in the range of action 2) *)
Example ex_count :
  count_tracks_per_action (st_along ex_state) [2; 4; 0; 3; 1] 4 = Some [Some 0; Some 1; Some 1; Some 5]
  /\ sortedb (thread_keys (st_along ex_state) [2; 4; 0; 3; 1]) = true
  /\ map (offset_spec (thread_keys (st_along ex_state) [2; 4; 0; 3; 1])) [0; 1; 2; 3] = [0; 1; 1; 5].
Proof. repeat split. Qed.

(** all ids valid: offsets = prefix sums of the counts *)
Example ex_prefix_sums :
  let ks := [Some 0; Some 0; Some 2; Some 3; Some 3] in
  (forall k, In k ks -> k <> None)
  /\ map (offset_spec ks) [0; 1; 2; 3; 4] = [0; 2; 2; 3; 5]
  /\ map (fun b => count_eq b ks) [0; 1; 2; 3] = [2; 0; 1; 2].
Proof.
  cbn zeta. split; [|split; reflexivity].
  intros k Hk. cbn in Hk. repeat (destruct Hk as [<-|Hk]; [discriminate|]). contradiction.
Qed.

(** the launch theorem on a concrete store: field = unit, value = nat; the
    slot's value encodes its action (value - 1; 0 = invalid) and the kernel
    adds 10 *)
Definition ex_sigma : store unit nat nat := fun s _ => nth s [3; 0; 1; 0; 3] 0.
Definition ex_action_of (s : sstate unit nat) : aid := match s tt with 0 => None | S a => Some a end.
Definition ex_kernel (s : sstate unit nat) : sstate unit nat := fun f => s f + 10.
Example ex_launch :
  exists st,
    launch_action_range (cond_kernel (is_action_equal ex_action_of 2) ex_kernel) [2; 4; 0; 3; 1]
                        [Some 0; Some 1; Some 1; Some 5] 2 ex_sigma = Some st
    /\ map (fun i => st i tt) [0; 1; 2; 3; 4] = [13; 0; 1; 0; 13]
    /\ map (fun i => launch_core (cond_kernel (is_action_equal ex_action_of 2) ex_kernel) [] 5 ex_sigma i tt)
           [0; 1; 2; 3; 4] = [13; 0; 1; 0; 13].
Proof. eexists. split; [reflexivity|]. split; reflexivity. Qed.
