(** * C06 — the generated obligation [reset_complete]

    [Generated/C06_fields.v] is rewritten from /repo's current sources by
    translators/state_fields.py on every run.  This file classifies every
    per-stream state field it found.  The classes are the ones the abstract
    theorems of [Noninterference.v] need:

    - Reset   : overwritten by BOTH track-initialisation paths of
                InitTracksExecutor (model: [init_track] overwrites [Reset])
    - Reseed  : overwritten for every slot by Stepper::reseed (model: [Persist]/glob)
    - Glob    : host-side counters / stacks whose agreement is a hypothesis of
                [history_independence]; CoreState::reset re-establishes it after
                an aborted event (model: [greset])
    - TempOK  : hand-justified "written before read within a track's life /
                within a step"; each entry cites the line that writes it first
    - Const   : written only when the state is constructed
    - Perm    : the thread->slot permutation (covered by [perm_invariance])

    A field that is in none of the classes makes [reset_complete] false. *)
From Coq Require Import String List Bool.
From Celer Require Import Generated.C06_fields.
Import ListNotations.
Local Open Scope string_scope.

Definition fld := (string * string)%type.
Definition fld_eqb (a b : fld) : bool := String.eqb (fst a) (fst b) && String.eqb (snd a) (snd b).
Definition mem (f : fld) (l : list fld) : bool := existsb (fld_eqb f) l.
Definition inter (a b : list fld) : list fld := filter (fun f => mem f b) a.
Definition subset (a b : list fld) : bool := forallb (fun f => mem f b) a.

(** fields overwritten whichever way a vacant slot is (re)initialised *)
Definition reset_fields : list fld := inter init_primary_writes init_secondary_writes.

(** hand-justified list: (field, where it is written before any read) *)
Definition temp_ok_just : list (fld * string) :=
  [ (* --- physics, per track --- *)
    (("physics.state", "macro_xs"),
     "phys/PhysicsStepUtils.hh:75 calc_physics_step_limit `pstep.macro_xs(total)`, called from phys/detail/PreStepExecutor.hh:101 for every active track before discrete-select reads it");
    (("physics.state", "energy_deposition"),
     "phys/detail/PreStepExecutor.hh:74 `step.reset_energy_deposition()` at the start of every step of an active track");
    (("physics.state", "secondaries"),
     "phys/detail/PreStepExecutor.hh:75 `step.secondaries({})`; read by LocateAlive/ProcessSecondaries only for non-inactive slots");
    (("physics.state", "element"),
     "phys/detail/PreStepExecutor.hh:76 `step.element({})`");
    (("physics.state", "dedx_range"),
     "phys/PhysicsStepUtils.hh:94 `physics.dedx_range(range)` in pre-step whenever the particle has an energy-loss process; read by the along-step energy loss of such particles only");
    (("physics", "per_process_xs"),
     "phys/PhysicsStepUtils.hh:73 `pstep.per_process_xs(ppid) = process_xs` for every process of the track in pre-step; read by select_discrete_interaction for those processes");
    (("physics", "msc_step"),
     "global/alongstep/detail/MscStepLimitApplier.hh:50/60 writes geom_path (limit_step writes the whole MscStep) for every active track before MscApplier.hh:52 reads it");
    (("physics.relaxation", "scratch"),
     "em/interactor/AtomicRelaxationHelper.hh:131 scratch stack handed to AtomicRelaxation, which pushes before it pops");
    (("physics.secondaries", "storage"),
     "corecel/data/StackAllocator: elements are default-constructed on allocation and filled by the interactor before PhysicsStepView::secondaries() exposes them");
    (("physics.secondaries", "size"),
     "phys/detail/PreStepExecutor.hh:52 `alloc.clear()` every step before any allocation");
    (("materials", "element_scratch"),
     "mat/MaterialTrackView.hh:129 scratch for per-element cross sections, filled by the ElementSelector/cross-section calculator before it is sampled (e.g. em/executor/LivermorePEExecutor.hh:50)");
    (* --- ORANGE, per track --- *)
    (("geometry", "surf"),
     "orange/OrangeTrackView.hh:1131 surface(): written together with surface_level; only read when surface_level is valid (is_on_boundary), and the position initialiser clears surface_level (clear_surface, :1142)");
    (("geometry", "sense"),
     "as geometry.surf (written in the same setter, OrangeTrackView.hh:1135)");
    (("geometry", "next_level"),
     "orange/OrangeTrackView.hh:885 next_surface_level(): written by find_next_step_impl together with next_surf; only read when next_surf is valid, and both initialisers clear next_surf (clear_next, :1119)");
    (("geometry", "next_sense"),
     "orange/OrangeTrackView.hh:879 next_surf(OnLocalSurface) writes next_surf and next_sense together; read only when next_surf is valid");
    (("geometry", "temp_sense"), "orange/OrangeTrackView.hh:1043 make_temp_sense(): scratch filled by the tracker's sense calculation before use");
    (("geometry", "temp_face"), "orange/OrangeTrackView.hh:1061 make_temp_next(): intersection scratch, filled by calc_intersections before use");
    (("geometry", "temp_distance"), "orange/OrangeTrackView.hh:1062 as temp_face");
    (("geometry", "temp_isect"), "orange/OrangeTrackView.hh:1064 as temp_face");
    (* --- track initialisation scratch (rewritten every step) --- *)
    (("init", "parents"),
     "track/detail/ProcessSecondariesExecutor.hh:169 writes parents[size-offset] for each queued secondary; InitTracksExecutor.hh:122 reads only entries with tid < num_secondaries of the same step");
    (("init", "indices"),
     "track/InitializeTracksAction.cc fill_sequence(&init.indices) before partition_initializers; only allocated/used for TrackOrder::init_charge (outside C06's quantifier)");
    (("init", "secondary_counts"),
     "track/detail/LocateAliveExecutor.hh:105 writes every slot each step, then exclusive_scan_counts, before ProcessSecondariesExecutor.hh:84 reads");
    (("init", "vacancies"),
     "track/detail/LocateAliveExecutor.hh:89 writes every slot each step, then remove_if_alive compacts; entries beyond counters.num_vacancies are not read");
    (("init", "initializers"),
     "track/detail/ProcessPrimariesExecutor.hh:63 / ProcessSecondariesExecutor.hh:155 write an entry before counters.num_initializers covers it; InitTracksExecutor.hh:92 reads only below num_initializers");
    (* --- host-side step counters recomputed every step before use --- *)
    (("counters", "num_generated"), "global/Stepper.cc `counters.num_generated = 0` at the start of every step");
    (("counters", "num_active"), "track/InitializeTracksAction.cc `counters.num_active = size - num_vacancies` every step");
    (("counters", "num_alive"), "track/ExtendFromSecondariesAction.cc:98 every step");
    (("counters", "num_secondaries"),
     "track/ExtendFromSecondariesAction.cc:76 every step; the value read by InitTracksExecutor in the first step of an event is the one of the last step of the previous event, which is 0 when that event completed (no alive, no queued) and is zeroed by CoreState::reset otherwise");
    (* --- CoreState members --- *)
    (("CoreState", "offsets_"),
     "track/SortTracksAction.cc count_tracks_per_action refills all offsets each step right after sort_tracks, before any action-range launch reads them");
    (("CoreState", "warming_up_"), "global/Stepper.cc warm_up(): set true and restored to false by ScopeExit in the same call");
    (("CoreState", "aux_state_"),
     "auxiliary per-stream states of user actions (step collector buffers, diagnostics accumulators): outputs/scratch, not read by transport; StepGather overwrites its buffers for every slot each step")
  ].
Definition temp_ok : list fld := map fst temp_ok_just.

(** written only at construction (resize) *)
Definition const_ok : list fld :=
  [ ("core", "stream_id"); ("geometry", "max_depth"); ("physics.relaxation", "num_states");
    ("CoreState", "ptr_"); ("CoreState", "device_ref_vec_") ].

(** the thread->slot permutation: any value is fine by [perm_invariance] *)
Definition perm_ok : list fld := [ ("core", "track_slots") ].

(** host-side counters that persist across steps: equal in two states by
    hypothesis of [history_independence]; CoreState::reset must restore them *)
Definition glob_fields : list fld :=
  [ ("counters", "num_initializers"); ("counters", "num_vacancies") ].

(** fields on which ALL slots (live or not) must agree: model's [Persist] *)
Definition persist_fields : list fld :=
  [ ("rng.state", "xorstate"); ("rng.state", "weylstate"); ("sim", "status") ].

Definition classified (f : fld) : bool :=
  mem f reset_fields || mem f reseed_writes || mem f glob_fields
  || mem f temp_ok || mem f const_ok || mem f perm_ok.

Definition reset_complete_b : bool := forallb classified all_state_fields.
Definition unclassified : list fld := filter (fun f => negb (classified f)) all_state_fields.

(** hand lists must not go stale: every entry names an existing field *)
Definition hand_lists_current_b : bool :=
  subset temp_ok all_state_fields && subset const_ok all_state_fields
  && subset perm_ok all_state_fields && subset glob_fields all_state_fields
  && subset persist_fields all_state_fields.

(** the model's [Persist] fields: the generator state is reseeded for every
    slot, the status is both initialised and reset *)
Definition persist_established_b : bool :=
  mem ("rng.state", "xorstate") reseed_writes && mem ("rng.state", "weylstate") reseed_writes
  && mem ("init", "track_counters") reseed_writes
  && mem ("sim", "status") reset_fields && mem ("sim", "status") state_reset_writes.

(** CoreState::reset restores the persistent host counters and vacancies *)
Definition state_reset_covers_glob_b : bool :=
  subset glob_fields state_reset_writes && mem ("init", "vacancies") state_reset_writes.

(** in-place re-initialisation of a dying parent's slot rewrites the same
    sim/particle/physics fields as a fresh initialisation (geometry and
    material are inherited from the parent, a track of the same event) *)
Definition inplace_covers_b : bool :=
  forallb (fun f => mem f inplace_writes
                    || String.eqb (fst f) "geometry" || String.eqb (fst f) "materials.state")
          reset_fields.

(** ** the errored path

    A track whose initialisation fails ([apply_errored]) skips the step-limit
    part of pre-step but is still processed by the tracking cut (which ADDS
    its energy to the step's energy deposition), by the step gather and by
    LocateAlive/ProcessSecondaries (which read the secondaries span).  The
    [temp_ok] justification "cleared at the start of every step" of these
    fields therefore has to hold on EVERY path through PreStepExecutor that a
    non-inactive track can take: the translator derives [prestep_clears] from
    the control flow of PreStepExecutor::operator() (no [return] other than
    the one for inactive slots before the clearing, clearing unconditional). *)
Definition errored_path_reads : list fld :=
  [ ("physics.state", "energy_deposition");   (* TrackingCutExecutor deposit_energy (+=), StepGatherExecutor *)
    ("physics.state", "secondaries") ].       (* LocateAliveExecutor / ProcessSecondariesExecutor for status <> inactive *)
Definition prestep_cleared_temps : list fld :=
  [ ("physics.state", "energy_deposition"); ("physics.state", "secondaries"); ("physics.state", "element") ].
Definition errored_path_clean_b : bool :=
  forallb (fun f => mem f reset_fields || mem f prestep_clears) errored_path_reads
  && subset prestep_cleared_temps prestep_clears
  && subset prestep_cleared_temps temp_ok.
Definition errored_path_dirty : list fld :=
  filter (fun f => negb (mem f reset_fields || mem f prestep_clears)) (errored_path_reads ++ prestep_cleared_temps).

(** ** thread -> slot discipline (hypothesis [isolated] of [perm_invariance])

    Kernels address per-track data through CoreTrackView, which maps the
    thread through [track_slots] (checked shapes above).  Every OTHER place
    that constructs a TrackSlotId explicitly is listed by the translator with
    its number of constructions and must be reviewed here. *)
Definition slot_ctor_reviewed : list (string * string * string) :=
  [ ("celeritas/global/ActionSequence.cc", "1",
     "single-slot host shortcut: reads post_step_action of slot 0 when state.size() == 1 (thread 0 = slot 0)");
    ("celeritas/global/CoreTrackView.hh", "1", "THE thread->slot map (track_slots[thread], identity when unsorted)");
    ("celeritas/optical/action/TrackSlotExecutor.hh", "2", "optical loop (separate state, no re-indexing): thread = slot");
    ("celeritas/optical/action/detail/InitTracksExecutor.hh", "1", "optical loop: thread = slot");
    ("celeritas/optical/action/detail/TrackInitAlgorithms.cc", "1", "optical loop: vacancy list of slot ids");
    ("celeritas/random/RngReseed.cc", "1", "reseed loops over ALL slots (shape-checked)");
    ("celeritas/track/detail/InitTracksExecutor.hh", "4",
     "indexes the per-step scratch arrays vacancies/parents/indices (sized like slots) by a THREAD-derived position; the slot written is the vacancy, the slot read is the parent (never a vacancy of the same launch: a dying parent's slot is re-used in place)");
    ("celeritas/track/detail/LocateAliveExecutor.hh", "1",
     "launched with thread = slot on purpose (identity, NOT through track_slots): vacancies/secondary_counts come out in slot order for every track order");
    ("celeritas/track/detail/ProcessSecondariesExecutor.hh", "2",
     "thread = slot identity as LocateAlive; parents[] scratch indexed by initializer position");
    ("celeritas/user/detail/SimpleCaloExecutor.hh", "1", "iterates the gathered step buffer (slot-indexed) with thread = slot")
  ].
Definition slot_discipline_b : bool :=
  forallb (fun fc => existsb (fun r => String.eqb (fst (fst r)) (fst fc) && String.eqb (snd (fst r)) (snd fc)) slot_ctor_reviewed)
          slot_ctor_files
  && forallb (fun r => existsb (fun fc => String.eqb (fst (fst r)) (fst fc)) slot_ctor_files) slot_ctor_reviewed.
Definition slot_ctor_unreviewed : list (string * string) :=
  filter (fun fc => negb (existsb (fun r => String.eqb (fst (fst r)) (fst fc) && String.eqb (snd (fst r)) (snd fc)) slot_ctor_reviewed))
         slot_ctor_files.

Definition failed_shapes : list string := map fst (filter (fun p => negb (snd p)) shape_checks).
Definition shapes_all_ok_b : bool := forallb snd shape_checks.
