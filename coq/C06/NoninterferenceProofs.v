(** * C06 — proofs about the model of [Noninterference.v] *)
From Coq Require Import List Bool Arith Permutation FunctionalExtensionality Lia.
From Celer Require Import C06.Noninterference.
Import ListNotations.

Section Proofs.
  Variables field value slot G : Type.
  Variable fdec : forall a b : field, {a = b} + {a <> b}.
  Variable sdec : forall a b : slot, {a = b} + {a <> b}.
  Variable status : field.
  Variable is_live : value -> bool.
  Variables Persist Reset : list field.

  Local Notation sstate := (sstate field value).
  Local Notation store := (store field value slot).
  Local Notation sys := (sys field value slot G).
  Local Notation action := (action field value).
  Local Notation phase := (phase field value slot G).
  Local Notation action_ok := (@action_ok field value).
  Local Notation memf := (memf fdec).
  Local Notation inclb := (inclb fdec).
  Local Notation write := (write fdec).
  Local Notation write_list := (write_list fdec).
  Local Notation lookup_last := (lookup_last fdec).
  Local Notation wbr := (wbr fdec).
  Local Notation upd := (upd sdec).
  Local Notation launch := (launch sdec).
  Local Notation pointwise := (pointwise sdec).
  Local Notation isolated := (isolated sdec).
  Local Notation live := (live status is_live).
  Local Notation C0 := (C0 Persist Reset).
  Local Notation view := (view fdec status is_live Persist).
  Local Notation run_kernel := (run_kernel status is_live).
  Local Notation run_global := (run_global fdec status is_live Persist).
  Local Notation run_phase := (run_phase fdec status is_live Persist).
  Local Notation run_phases := (run_phases fdec status is_live Persist).
  Local Notation global_ok := (global_ok status is_live Reset).
  Local Notation phases_ok := (phases_ok status is_live Reset).
  Local Notation check := (check fdec status Persist Reset).
  Local Notation rel := (rel status is_live Persist).
  Local Notation idle_keeps_status := (idle_keeps_status fdec status).

  (** ** basic facts *)
  Lemma memf_true : forall f l, memf f l = true <-> In f l.
  Proof. intros f l. unfold Noninterference.memf. destruct (in_dec fdec f l); split; intros; auto; discriminate. Qed.

  Lemma inclb_true : forall a b, inclb a b = true <-> incl a b.
  Proof.
    intros a b. unfold Noninterference.inclb. rewrite forallb_forall. unfold incl.
    split; intros H f Hf; specialize (H f Hf); apply memf_true; auto.
  Qed.

  Lemma agree_incl : forall C D (s s' : sstate), incl D C -> agree C s s' -> agree D s s'.
  Proof. unfold agree, incl; intros; auto. Qed.

  Lemma agree_app : forall C D (s s' : sstate), agree C s s' -> agree D s s' -> agree (C ++ D) s s'.
  Proof. unfold agree; intros C D s s' H1 H2 f Hf. apply in_app_or in Hf. destruct Hf; auto. Qed.

  Lemma write_list_lookup : forall (ws : list (field * value)) (s : sstate) f,
    write_list s ws f = match lookup_last ws f with Some v => v | None => s f end.
  Proof.
    induction ws as [|[g v] r IH]; intros s f; cbn [Noninterference.write_list Noninterference.lookup_last]; auto.
    rewrite IH. destruct (lookup_last r f); auto.
    unfold Noninterference.write. destruct (fdec f g); auto.
  Qed.

  Lemma lookup_last_in : forall (ws : list (field * value)) f, In f (map fst ws) -> exists v, lookup_last ws f = Some v /\ In (f, v) ws.
  Proof.
    induction ws as [|[g v] r IH]; intros f Hf; cbn in *; [tauto|].
    destruct (in_dec fdec f (map fst r)) as [Hin|Hnin].
    - destruct (IH f Hin) as [v' [Hl Hi]]. rewrite Hl. eauto.
    - destruct Hf as [Hf|Hf]; [subst g|tauto].
      destruct (lookup_last r f) eqn:Hl.
      + exists v0. split; auto. right.
        clear - Hl fdec. revert Hl. induction r as [|[g w] r IH]; cbn; [discriminate|].
        destruct (lookup_last r f) eqn:Hl2.
        * intros H; inversion H; subst. right. auto.
        * destruct (fdec f g); [|discriminate]. intros H; inversion H; subst. left; auto.
      + destruct (fdec f f); [|tauto]. eauto.
  Qed.

  Lemma lookup_last_some_in : forall (ws : list (field * value)) f v, lookup_last ws f = Some v -> In (f, v) ws.
  Proof.
    induction ws as [|[g w] r IH]; cbn; intros f v H; [discriminate|].
    destruct (lookup_last r f) eqn:Hl.
    - inversion H; subst. right. apply IH; auto.
    - destruct (fdec f g); [|discriminate]. inversion H; subst. left; auto.
  Qed.

  Lemma lookup_last_none : forall (ws : list (field * value)) f, lookup_last ws f = None -> ~ In f (map fst ws).
  Proof.
    intros ws f H Hin. destruct (lookup_last_in ws f Hin) as [v [Hl _]]. congruence.
  Qed.

  Lemma write_list_agree : forall D (ws : list (field * value)) (s s' : sstate), agree D s s' -> agree D (write_list s ws) (write_list s' ws).
  Proof.
    intros D ws s s' H f Hf. rewrite !write_list_lookup. destruct (lookup_last ws f); auto.
  Qed.

  (** ** actions, written-before-read *)
  Lemma agree_run_action : forall (a : action) C s s',
    action_ok a -> incl (reads a) C -> agree C s s' -> agree (writes a ++ C) (run a s) (run a s').
  Proof.
    intros a C s s' [Hframe Hdep] Hin Hag f Hf.
    destruct (in_dec fdec f (writes a)) as [Hw|Hw].
    - apply Hdep; auto. eapply agree_incl; eauto.
    - rewrite !Hframe by auto. apply in_app_or in Hf. destruct Hf; [tauto|]. apply Hag; auto.
  Qed.

  Lemma clean_after_incl : forall (acts : list action) C, incl C (clean_after C acts).
  Proof.
    induction acts as [|a r IH]; intros C; cbn; [apply incl_refl|].
    eapply incl_tran; [|apply IH]. apply incl_appr, incl_refl.
  Qed.

  Lemma wbr_agree : forall (acts : list action) C s s',
    Forall action_ok acts -> wbr C acts = true -> agree C s s' ->
    agree (clean_after C acts) (run_actions acts s) (run_actions acts s').
  Proof.
    induction acts as [|a r IH]; intros C s s' Hok Hw Hag; cbn in *; auto.
    inversion Hok; subst. apply andb_true_iff in Hw. destruct Hw as [Hr Hw].
    apply inclb_true in Hr.
    unfold run_actions in *. cbn. apply IH; auto. apply agree_run_action; auto.
  Qed.

  Lemma run_actions_frame : forall (acts : list action) s f,
    Forall action_ok acts -> (forall a, In a acts -> ~ In f (writes a)) -> run_actions acts s f = s f.
  Proof.
    induction acts as [|a r IH]; intros s f Hok Hn; cbn; auto.
    inversion Hok as [|? ? [Hframe _] Hok']; subst.
    unfold run_actions in *. cbn. rewrite IH; auto.
    - apply Hframe. apply Hn. left; auto.
    - intros b Hb. apply Hn. right; auto.
  Qed.

  Lemma mk_action_ok : forall rs ws dflt body, action_ok (mk_action fdec rs ws dflt body).
  Proof.
    clear sdec status is_live Persist Reset.
    intros rs ws dflt body. split; cbn.
    - intros s f Hn. destruct (memf f ws) eqn:Hm; auto. apply memf_true in Hm. tauto.
    - intros s s' Hag f Hf. assert (Hm : memf f ws = true) by (apply memf_true; auto). rewrite Hm.
      f_equal. apply functional_extensionality; intro g. unfold restrict.
      destruct (memf g rs) eqn:Hg; auto. apply memf_true in Hg. auto.
  Qed.

  (** ** thread order does not matter *)
  Lemma launch_pointwise : forall (op : slot -> store -> sstate) order sigma,
    NoDup order -> isolated op order -> forall i, launch op order sigma i = pointwise op order sigma i.
  Proof.
    intros op order. induction order as [|a r IH]; intros sigma Hnd Hiso i.
    - reflexivity.
    - inversion Hnd as [|? ? Hna Hnd']; subst.
      unfold Noninterference.launch in *. cbn [fold_left].
      assert (Hiso' : isolated op r).
      { intros i' j v sg Hj Hne. apply Hiso; [right|]; auto. }
      rewrite (IH (upd sigma a (op a sigma)) Hnd' Hiso' i).
      unfold Noninterference.pointwise.
      destruct (in_dec sdec i r) as [Hir|Hir].
      + destruct (in_dec sdec i (a :: r)) as [_|Hn]; [|exfalso; apply Hn; right; auto].
        apply Hiso; [left; auto|]. intro; subst. tauto.
      + unfold Noninterference.upd. destruct (sdec i a) as [->|Hne].
        * destruct (in_dec sdec a (a :: r)) as [_|Hn]; [auto|exfalso; apply Hn; left; auto].
        * destruct (in_dec sdec i (a :: r)) as [[H|H]|_]; [congruence|tauto|auto].
  Qed.

  Lemma isolated_perm : forall (op : slot -> store -> sstate) o1 o2, Permutation o1 o2 -> isolated op o1 -> isolated op o2.
  Proof.
    intros op o1 o2 Hp Hiso i j v sg Hj Hne. apply Hiso; auto.
    eapply Permutation_in; [apply Permutation_sym|]; eauto.
  Qed.

  Theorem perm_invariance : forall (op : slot -> store -> sstate) o1 o2 sigma,
    Permutation o1 o2 -> NoDup o1 -> isolated op o1 ->
    forall i, launch op o1 sigma i = launch op o2 sigma i.
  Proof.
    intros op o1 o2 sigma Hp Hnd Hiso i.
    rewrite launch_pointwise by auto.
    rewrite launch_pointwise; [|eapply Permutation_NoDup; eauto|eapply isolated_perm; eauto].
    unfold Noninterference.pointwise.
    destruct (in_dec sdec i o1) as [H1|H1]; destruct (in_dec sdec i o2) as [H2|H2]; auto.
    - exfalso. apply H2. eapply Permutation_in; eauto.
    - exfalso. apply H1. eapply Permutation_in; [apply Permutation_sym|]; eauto.
  Qed.

  Lemma own_slot_isolated : forall (k : sstate -> sstate) order, isolated (own_slot k) order.
  Proof.
    intros k order i j v sg _ Hne. unfold Noninterference.own_slot, Noninterference.upd.
    destruct (sdec i j); [congruence|auto].
  Qed.

  (** every re-indexing order (shuffle, by status, by particle, by action) is a
      permutation of the slots: a per-slot kernel gives the same store *)
  Corollary kernel_perm_invariance : forall (k : sstate -> sstate) o1 o2 sigma,
    Permutation o1 o2 -> NoDup o1 ->
    forall i, launch (own_slot k) o1 sigma i = launch (own_slot k) o2 sigma i.
  Proof. intros. apply perm_invariance; auto. apply own_slot_isolated. Qed.

  (** a sequence of per-slot kernels, each in its own thread order, is the
      slot-wise composition *)
  Lemma kernels_slotwise : forall (ks : list ((sstate -> sstate) * list slot)) all sigma,
    NoDup all -> (forall k o, In (k, o) ks -> Permutation all o) ->
    forall i, In i all ->
      fold_left (fun sg ko => launch (own_slot (fst ko)) (snd ko) sg) ks sigma i
      = fold_left (fun s ko => fst ko s) ks (sigma i).
  Proof.
    induction ks as [|[k o] r IH]; intros all sigma Hnd Hperm i Hi; cbn [fold_left fst snd]; auto.
    assert (Hp : Permutation all o) by (apply (Hperm k o); left; auto).
    rewrite (IH all); auto.
    - f_equal. rewrite launch_pointwise.
      + unfold Noninterference.pointwise. destruct (in_dec sdec i o) as [_|Hn]; auto.
        exfalso. apply Hn. eapply Permutation_in; eauto.
      + eapply Permutation_NoDup; eauto.
      + apply own_slot_isolated.
    - intros k' o' H. apply (Hperm k' o'). right; auto.
  Qed.

  (** ** observers *)
  Theorem observer_invariance : forall (S A : Type) (l : list (ostep S A)) x a,
    fst (run_osteps l (x, a)) = fold_left (fun x f => f x) (core_only l) x.
  Proof.
    intros S A l. induction l as [|[f|o] r IH]; intros x a; cbn; auto.
    - unfold run_osteps in *. cbn. apply IH.
    - unfold run_osteps in *. cbn. apply IH.
  Qed.

  (** ** history independence *)
  Hypothesis status_persist : In status Persist.

  Lemma live_agree : forall s s' : sstate, agree Persist s s' -> live s = live s'.
  Proof. intros s s' H. unfold Noninterference.live. rewrite (H status); auto. Qed.

  Lemma C0_persist : incl Persist C0.
  Proof. unfold Noninterference.C0. apply incl_appl, incl_refl. Qed.
  Lemma C0_reset : incl Reset C0.
  Proof. unfold Noninterference.C0. apply incl_appr, incl_refl. Qed.

  Lemma rel_weaken : forall C D (x y : sys), incl D C -> rel C x y -> rel D x y.
  Proof.
    intros C D x y Hi [Hg Hs]. split; auto. intros i. destruct (Hs i) as [Hp Hl]. split; auto.
    intros Hlive. eapply agree_incl; eauto.
  Qed.

  Lemma view_rel : forall C Cr (x y : sys), incl Cr C -> rel C x y -> view Cr (slots x) = view Cr (slots y).
  Proof.
    intros C Cr x y Hi [_ Hs]. apply functional_extensionality; intro i. apply functional_extensionality; intro f.
    destruct (Hs i) as [Hp Hl]. unfold Noninterference.view.
    destruct (memf f Persist) eqn:Hm.
    - apply memf_true in Hm. rewrite (Hp f); auto.
    - fold (live (slots x i)) (live (slots y i)). rewrite <- (live_agree _ _ Hp).
      destruct (live (slots x i)) eqn:Hlive; cbn; auto.
      destruct (memf f Cr) eqn:Hc; auto. apply memf_true in Hc. rewrite (Hl eq_refl f); auto.
  Qed.

  Lemma global_rel : forall C Cr gp (x y : sys),
    global_ok gp -> incl C0 C -> incl Cr C -> rel C x y -> rel C0 (run_global Cr gp x) (run_global Cr gp y).
  Proof.
    intros C Cr gp x y Hok HC0 HCr Hrel.
    pose proof (view_rel C Cr x y HCr Hrel) as Hv. destruct Hrel as [Hg Hs].
    unfold Noninterference.run_global. rewrite <- Hv, <- Hg. cbn.
    set (r := gp (glob x) (view Cr (slots x))).
    split; cbn; auto. intros i. destruct (Hs i) as [Hp Hl]. split.
    - apply write_list_agree; auto.
    - intros Hlive'.
      destruct (live (slots x i)) eqn:Hlive.
      + apply write_list_agree. eapply agree_incl; [apply HC0|]. auto.
      + (* dead slot switched on: everything in Reset has been overwritten *)
        assert (Hst : exists stv, In (status, stv) (snd r i) /\ is_live stv = true).
        { unfold Noninterference.live in Hlive'. rewrite write_list_lookup in Hlive'.
          destruct (lookup_last (snd r i) status) eqn:Hl'.
          - exists v. split; auto. apply lookup_last_some_in; auto.
          - unfold Noninterference.live in Hlive. congruence. }
        pose proof (Hok (glob x) (view Cr (slots x)) i Hst) as Hall.
        intros f Hf. unfold Noninterference.C0 in Hf. apply in_app_or in Hf. destruct Hf as [Hf|Hf].
        * apply write_list_agree with (D := Persist); auto.
        * rewrite !write_list_lookup. destruct (lookup_last_in _ _ (Hall f Hf)) as [v [Hlv _]].
          subst r. cbn in Hlv. rewrite Hlv. auto.
  Qed.

  Lemma idle_status : forall (idle : list action) s,
    Forall action_ok idle -> idle_keeps_status idle = true -> run_actions idle s status = s status.
  Proof.
    intros idle s Hok Hk. apply run_actions_frame; auto.
    intros a Ha Hin. unfold Noninterference.idle_keeps_status in Hk. rewrite forallb_forall in Hk.
    specialize (Hk a Ha). apply negb_true_iff in Hk.
    assert (memf status (writes a) = true) by (apply memf_true; auto). congruence.
  Qed.

  Lemma kernel_rel : forall C acts idle (x y : sys),
    Forall action_ok acts -> Forall action_ok idle -> incl C0 C ->
    wbr C acts = true -> wbr Persist idle = true -> idle_keeps_status idle = true ->
    rel C x y -> rel (clean_after C acts) (run_kernel acts idle x) (run_kernel acts idle y).
  Proof.
    intros C acts idle x y Hacts Hidle HC0 Hw Hwi Hks [Hg Hs].
    split; cbn; auto. intros i. destruct (Hs i) as [Hp Hl].
    rewrite <- (live_agree _ _ Hp).
    assert (HPC : incl Persist C) by (eapply incl_tran; [apply C0_persist|auto]).
    destruct (live (slots x i)) eqn:Hlive.
    - pose proof (wbr_agree acts C _ _ Hacts Hw (Hl eq_refl)) as Hag. split.
      + eapply agree_incl; [|exact Hag]. eapply incl_tran; [exact HPC|apply clean_after_incl].
      + intros _. exact Hag.
    - pose proof (wbr_agree idle Persist _ _ Hidle Hwi Hp) as Hag. split.
      + eapply agree_incl; [|exact Hag]. apply clean_after_incl.
      + intros Hlive'. exfalso. unfold Noninterference.live in Hlive'.
        rewrite idle_status in Hlive' by auto. unfold Noninterference.live in Hlive. congruence.
  Qed.

  Lemma phases_rel : forall ps C (x y : sys),
    phases_ok ps -> incl C0 C -> check C ps = true -> rel C x y ->
    rel C0 (run_phases ps x) (run_phases ps y).
  Proof.
    induction ps as [|p r IH]; intros C x y Hok HC0 Hck Hrel.
    - cbn. eapply rel_weaken; eauto.
    - unfold Noninterference.run_phases in *. cbn [fold_left]. destruct p as [acts idle|Cr gp].
      + cbn in Hok, Hck. destruct Hok as [Ha [Hi Hr]].
        repeat (apply andb_true_iff in Hck; destruct Hck as [Hck ?]).
        eapply (IH (clean_after C acts)); eauto.
        * eapply incl_tran; [exact HC0|apply clean_after_incl].
        * cbn. apply kernel_rel; auto.
      + cbn in Hok, Hck. destruct Hok as [Hgo Hr]. apply andb_true_iff in Hck. destruct Hck as [Hc1 Hc2].
        apply inclb_true in Hc1.
        eapply (IH C0); eauto; [apply incl_refl|]. cbn. eapply global_rel; eauto.
  Qed.

  Variable I : Type.
  Variable step : I -> list phase.
  Local Notation run_steps := (run_steps fdec status is_live Persist step).
  Local Notation trace := (trace fdec status is_live Persist step).

  Hypothesis step_ok : forall i, phases_ok (step i) /\ check C0 (step i) = true.

  Theorem history_independence : forall ins (x y : sys),
    rel C0 x y -> rel C0 (run_steps ins x) (run_steps ins y).
  Proof.
    induction ins as [|i r IH]; intros x y Hrel; cbn; auto.
    unfold Noninterference.run_steps in *. cbn. apply IH.
    destruct (step_ok i) as [H1 H2]. eapply phases_rel; eauto. apply incl_refl.
  Qed.

  Corollary step_records_equal : forall ins (x y : sys), rel C0 x y -> trace ins x = trace ins y.
  Proof.
    induction ins as [|i r IH]; intros x y Hrel; cbn; auto.
    destruct (step_ok i) as [H1 H2].
    assert (Hr : rel C0 (run_phases (step i) x) (run_phases (step i) y))
      by (eapply phases_rel; eauto; apply incl_refl).
    f_equal; [apply Hr|apply IH; auto].
  Qed.

  (** ** begin of an event *)
  Variable E : Type.
  Variable rng_fields : list field.
  Variable seed_of : E -> slot -> field -> value.
  Variable greseed : E -> G -> G.
  Variable greset : G -> G.
  Variable inactive : value.
  Local Notation reseed := (reseed fdec rng_fields seed_of greseed).
  Local Notation core_reset := (core_reset fdec status greset inactive).

  Hypothesis persist_is : forall f, In f Persist -> f = status \/ In f rng_fields.
  Hypothesis status_not_rng : ~ In status rng_fields.

  Lemma reseed_slot : forall e i (s : sstate) f,
    write_list s (map (fun f => (f, seed_of e i f)) rng_fields) f
    = if in_dec fdec f rng_fields then seed_of e i f else s f.
  Proof.
    intros e i s f. rewrite write_list_lookup.
    destruct (in_dec fdec f rng_fields) as [Hin|Hnin].
    - assert (Hm : In f (map fst (map (fun f => (f, seed_of e i f)) rng_fields))).
      { rewrite map_map. cbn. rewrite map_id. auto. }
      destruct (lookup_last_in _ _ Hm) as [v [Hl Hi]]. rewrite Hl.
      apply in_map_iff in Hi. destruct Hi as [g [Hg _]]. inversion Hg; subst; auto.
    - destruct (lookup_last _ f) eqn:Hl; auto.
      apply lookup_last_some_in in Hl. apply in_map_iff in Hl. destruct Hl as [g [Hg Hin]].
      inversion Hg; subst. tauto.
  Qed.

  (** two states that agree on the host data and on the statuses, all slots
      inactive: after reseeding they are related *)
  Theorem reseed_rel : forall e (x y : sys),
    glob x = glob y ->
    (forall i, live (slots x i) = false /\ slots x i status = slots y i status) ->
    rel C0 (reseed e x) (reseed e y).
  Proof.
    intros e x y Hg Hdead. split; cbn; [congruence|]. intros i. destruct (Hdead i) as [Hd Hs]. split.
    - intros f Hf. rewrite !reseed_slot. destruct (in_dec fdec f rng_fields); auto.
      destruct (persist_is f Hf); [subst; auto|tauto].
    - intros Hl. exfalso. unfold Noninterference.live in *. rewrite reseed_slot in Hl.
      destruct (in_dec fdec status rng_fields); [tauto|congruence].
  Qed.

  Hypothesis greset_const : forall g g', greset g = greset g'.
  Hypothesis inactive_dead : is_live inactive = false.

  (** after CoreState::reset + reseed NOTHING of the previous history is left *)
  Theorem reset_reseed_rel : forall e (x y : sys), rel C0 (reseed e (core_reset x)) (reseed e (core_reset y)).
  Proof.
    intros e x y. apply reseed_rel; cbn.
    - apply greset_const.
    - intros i. unfold Noninterference.live, Noninterference.write. destruct (fdec status status); [auto|tauto].
  Qed.

  Corollary event_independent_of_history : forall e ins (x y : sys),
    trace ins (reseed e (core_reset x)) = trace ins (reseed e (core_reset y)).
  Proof. intros. apply step_records_equal. apply reset_reseed_rel. Qed.
End Proofs.
