(** * C06 — a small concrete instance of the abstract model

    Shows that the hypotheses of [history_independence] are satisfiable by a
    stepping loop with the same phase structure as the real one
    (initialise tracks -> pre-step -> along-step -> gather/extend), that the
    decidable check has teeth (a stale read is rejected), and that the
    written-before-read hypothesis is necessary (a model with a stale read
    does depend on its history). *)
From Coq Require Import List Bool Arith Lia.
From Celer Require Import C06.Noninterference C06.NoninterferenceProofs.
Import ListNotations.

Inductive fld := Status | Rng | Energy | Mfp | Xs | Edep | Junk.
Definition fld_dec : forall a b : fld, {a = b} + {a <> b}.
Proof. decide equality. Defined.

Definition value := nat.
Definition slot := nat.
(** host data: queue of primary energies, recorded (energy, deposit) stream *)
Definition G := (list nat * list (nat * nat))%type.

Definition is_live (v : value) : bool := negb (v =? 0).
Definition Persist := [Status; Rng].
Definition Reset := [Energy; Mfp].

(** initialise one queued primary into the first vacant slot of {0, 1} *)
Definition init_gp : gfun fld value slot G := fun g v =>
  match fst g with
  | [] => (g, fun _ => [])
  | e :: q =>
      let ws := [(Energy, e); (Mfp, 0); (Status, 1)] in
      match v 0 Status, v 1 Status with
      | Some 0, _ => ((q, snd g), fun i => if i =? 0 then ws else [])
      | _, Some 0 => ((q, snd g), fun i => if i =? 1 then ws else [])
      | _, _ => (g, fun _ => [])
      end
  end.

(** pre-step: cross section and deposit are (re)computed, the mean free path
    is sampled from the slot's generator when it is zero *)
Definition pre_body (s : sstate fld value) (f : fld) : value :=
  match f with
  | Xs => s Energy / 2 + 1
  | Edep => 0
  | Mfp => if s Mfp =? 0 then 1 + s Rng mod 5 else s Mfp
  | Rng => if s Mfp =? 0 then 7 * s Rng + 3 else s Rng
  | _ => 0
  end.
Definition pre := mk_action fld_dec [Energy; Mfp; Rng] [Xs; Edep; Mfp; Rng] 0 pre_body.

Definition along_body (junk : bool) (s : sstate fld value) (f : fld) : value :=
  let loss := Nat.min (s Energy) (s Xs + (if junk then s Junk else 0)) in
  match f with
  | Energy => s Energy - loss
  | Edep => s Edep + loss
  | Mfp => s Mfp - 1
  | _ => 0
  end.
Definition along := mk_action fld_dec [Energy; Xs; Edep; Mfp] [Energy; Edep; Mfp] 0 (along_body false).
(** a variant that reads a field nobody initialises *)
Definition along_stale := mk_action fld_dec [Energy; Xs; Edep; Mfp; Junk] [Energy; Edep; Mfp] 0 (along_body true).

(** gather the step record of live slots 0, 1 and retire stopped tracks *)
Definition end_gp : gfun fld value slot G := fun g v =>
  let rec i := match v i Status, v i Energy, v i Edep with
               | Some (S _), Some e, Some d => [(e, d)]
               | _, _, _ => []
               end in
  let kill i := match v i Status, v i Energy with
                | Some (S _), Some 0 => [(Status, 0)]
                | _, _ => []
                end in
  ((fst g, snd g ++ rec 0 ++ rec 1), kill).

Definition step (stale : bool) (_ : unit) : list (phase fld value slot G) :=
  [ Global [] init_gp;
    Kernel slot G [pre; if stale then along_stale else along] [];
    Global [Energy; Edep] end_gp ].

Lemma init_gp_shape : forall g v i,
  snd (init_gp g v) i = [] \/ exists e, snd (init_gp g v) i = [(Energy, e); (Mfp, 0); (Status, 1)].
Proof.
  intros g v i. unfold init_gp. destruct (fst g) as [|e q]; [left; reflexivity|].
  destruct (v 0 Status) as [[|n0]|]; cbn [snd].
  - destruct (i =? 0); [right; eexists; reflexivity|left; reflexivity].
  - destruct (v 1 Status) as [[|n1]|]; cbn [snd]; try (left; reflexivity).
    destruct (i =? 1); [right; eexists; reflexivity|left; reflexivity].
  - destruct (v 1 Status) as [[|n1]|]; cbn [snd]; try (left; reflexivity).
    destruct (i =? 1); [right; eexists; reflexivity|left; reflexivity].
Qed.

Lemma init_gp_ok : global_ok Status is_live Reset init_gp.
Proof.
  intros g v i w. subst w. destruct (init_gp_shape g v i) as [->|[e ->]].
  - intros [? [[] _]].
  - intros _ f [<-|[<-|[]]]; cbn; auto.
Qed.

Lemma end_gp_ok : global_ok Status is_live Reset end_gp.
Proof.
  intros g v i w. subst w. cbn [end_gp snd].
  destruct (v i Status) as [[|n]|]; destruct (v i Energy) as [[|e]|]; cbn;
    intros [stv [Hin Hl]]; try contradiction.
  destruct Hin as [Hq|[]]. inversion Hq; subst. discriminate.
Qed.

Lemma step_ok : forall i, phases_ok Status is_live Reset (step false i)
                          /\ check fld_dec Status Persist Reset (C0 Persist Reset) (step false i) = true.
Proof.
  intros []. split; [|reflexivity]. cbn.
  split; [apply init_gp_ok|].
  split; [apply Forall_cons; [apply mk_action_ok|apply Forall_cons; [apply mk_action_ok|apply Forall_nil]]|].
  split; [apply Forall_nil|]. split; [apply end_gp_ok|exact Logic.I].
Qed.

(** the decidable discipline rejects the stale read *)
Example check_rejects_stale_read :
  check fld_dec Status Persist Reset (C0 Persist Reset) (step true tt) = false.
Proof. reflexivity. Qed.

(** instance of the theorem *)
Example history_independence_instance : forall ins x y,
  rel Status is_live Persist (C0 Persist Reset) x y ->
  trace fld_dec Status is_live Persist (step false) ins x
  = trace fld_dec Status is_live Persist (step false) ins y.
Proof.
  intros. eapply step_records_equal; eauto using step_ok. cbn; auto.
Qed.

(** two concrete states: a fresh one and one with left-overs in every field
    that is neither reseeded nor reset *)
Definition fresh : sys fld value slot G :=
  {| glob := ([9; 4], []); slots := fun i f => match f with Rng => 11 + i | _ => 0 end |}.
Definition used : sys fld value slot G :=
  {| glob := ([9; 4], []);
     slots := fun i f => match f with Rng => 11 + i | Status => 0 | Junk => 5 | _ => 42 + i end |}.

Lemma fresh_used_rel : rel Status is_live Persist (C0 Persist Reset) fresh used.
Proof.
  split; [reflexivity|]. intros i. split.
  - intros f [<-|[<-|[]]]; reflexivity.
  - cbn. discriminate.
Qed.

Example same_records_on_fresh_and_used :
  trace fld_dec Status is_live Persist (step false) [tt; tt; tt; tt; tt; tt] fresh
  = trace fld_dec Status is_live Persist (step false) [tt; tt; tt; tt; tt; tt] used.
Proof. apply history_independence_instance, fresh_used_rel. Qed.

(** the run is not trivial: tracks are created, lose energy and are retired *)
Example records_nontrivial :
  snd (glob (run_steps fld_dec Status is_live Persist (step false) [tt; tt; tt; tt; tt; tt] fresh))
  = [(4, 5); (1, 3); (1, 3); (0, 1); (0, 1)] /\
  fst (glob (run_steps fld_dec Status is_live Persist (step false) [tt; tt; tt; tt; tt; tt] fresh)) = [].
Proof. vm_compute. split; reflexivity. Qed.

(** ... and the hypothesis is needed: with the stale read the same two
    states give different records *)
Example stale_read_depends_on_history :
  trace fld_dec Status is_live Persist (step true) [tt; tt] fresh
  <> trace fld_dec Status is_live Persist (step true) [tt; tt] used.
Proof. vm_compute. discriminate. Qed.
