(** * C06 — abstract model of per-stream state, kernels, initialisation and reseeding

    Definitions only (proofs are in [NoninterferenceProofs.v]).

    - a track slot's private state is a finite map [field -> value]
      ([sstate]); the RNG state and the status are ordinary fields;
    - an [action] is a record [{reads; writes; run}]; [action_ok] says that
      [run] changes only [writes] and that what it writes depends only on
      [reads];
    - a kernel launch runs a per-slot operation for a list of slots in some
      thread order ([launch]); [pointwise] is the order-free meaning;
    - a stepping iteration is a list of [phase]s: per-slot [Kernel]s (the
      action list of the step; dead slots run the [idle] list) and [Global]
      phases (process primaries, initialise tracks, extend from secondaries,
      sorting, gathering of step records ...) that see the slots only through
      [view]: the fields all slots agree on ([Persist]: generator state,
      status) plus, for live slots, the fields of the current clean set;
    - [init_track] is the instance of a [Global] phase that makes a dead slot
      live: [global_ok] demands that such a phase overwrites all of [Reset];
    - [reseed] overwrites the generator fields of every slot and the event's
      track counter (in [glob]); [core_reset] is CoreState::reset. *)
From Coq Require Import List Bool Arith Permutation.
Import ListNotations.

Set Implicit Arguments.

Section Model.
  Variables field value slot G : Type.
  Variable field_eq_dec : forall a b : field, {a = b} + {a <> b}.
  Variable slot_eq_dec : forall a b : slot, {a = b} + {a <> b}.

  (** ** slot state *)
  Definition sstate := field -> value.
  Definition memf (f : field) (l : list field) : bool :=
    if in_dec field_eq_dec f l then true else false.
  Definition inclb (a b : list field) : bool := forallb (fun f => memf f b) a.
  Definition agree (C : list field) (s s' : sstate) : Prop :=
    forall f, In f C -> s f = s' f.
  Definition write (s : sstate) (f : field) (v : value) : sstate :=
    fun g => if field_eq_dec g f then v else s g.
  Fixpoint write_list (s : sstate) (ws : list (field * value)) : sstate :=
    match ws with
    | [] => s
    | (f, v) :: r => write_list (write s f v) r
    end.
  (** value of the last write to [f] in [ws] *)
  Fixpoint lookup_last (ws : list (field * value)) (f : field) : option value :=
    match ws with
    | [] => None
    | (g, v) :: r =>
        match lookup_last r f with
        | Some v' => Some v'
        | None => if field_eq_dec f g then Some v else None
        end
    end.

  (** ** actions *)
  Record action := { reads : list field; writes : list field; run : sstate -> sstate }.
  Definition action_ok (a : action) : Prop :=
    (forall s f, ~ In f (writes a) -> run a s f = s f) /\
    (forall s s', agree (reads a) s s' -> forall f, In f (writes a) -> run a s f = run a s' f).
  Definition run_actions (acts : list action) (s : sstate) : sstate :=
    fold_left (fun s a => run a s) acts s.
  (** written-before-read: every action reads only fields of the clean set,
      which grows by what has been written *)
  Fixpoint wbr (C : list field) (acts : list action) : bool :=
    match acts with
    | [] => true
    | a :: r => inclb (reads a) C && wbr (writes a ++ C) r
    end.
  Fixpoint clean_after (C : list field) (acts : list action) : list field :=
    match acts with
    | [] => C
    | a :: r => clean_after (writes a ++ C) r
    end.

  (** an action given by its read set, its write set and a body that is handed
      only the restriction of the state to the read set: [action_ok] by
      construction ([mk_action_ok]) *)
  Definition restrict (rs : list field) (dflt : value) (s : sstate) : sstate :=
    fun f => if memf f rs then s f else dflt.
  Definition mk_action (rs ws : list field) (dflt : value) (body : sstate -> field -> value) : action :=
    {| reads := rs; writes := ws;
       run := fun s f => if memf f ws then body (restrict rs dflt s) f else s f |}.

  (** ** kernel launches in a thread order *)
  Definition store := slot -> sstate.
  Definition upd (sigma : store) (i : slot) (s : sstate) : store :=
    fun j => if slot_eq_dec j i then s else sigma j.
  (** sequential host loop over the threads; [order] = track_slots read off
      thread by thread; [op i sigma] = new state of slot [i] *)
  Definition launch (op : slot -> store -> sstate) (order : list slot) (sigma : store) : store :=
    fold_left (fun sg i => upd sg i (op i sg)) order sigma.
  Definition pointwise (op : slot -> store -> sstate) (order : list slot) (sigma : store) : store :=
    fun i => if in_dec slot_eq_dec i order then op i sigma else sigma i.
  (** [op i] is insensitive to what the launch does to the other launched slots *)
  Definition isolated (op : slot -> store -> sstate) (order : list slot) : Prop :=
    forall i j v sigma, In j order -> j <> i -> op i (upd sigma j v) = op i sigma.
  (** the usual kernel: slot [i] is updated from its own state only *)
  Definition own_slot (k : sstate -> sstate) : slot -> store -> sstate := fun i sigma => k (sigma i).

  (** ** observers (action timing, status checker): they see everything but
      write only their own data [A] *)
  Section Observers.
    Variables S A : Type.
    Inductive ostep := Core (f : S -> S) | Obs (o : S -> A -> A).
    Definition run_ostep (st : S * A) (o : ostep) : S * A :=
      match o with
      | Core f => (f (fst st), snd st)
      | Obs g => (fst st, g (fst st) (snd st))
      end.
    Definition run_osteps (l : list ostep) (st : S * A) : S * A := fold_left run_ostep l st.
    Fixpoint core_only (l : list ostep) : list (S -> S) :=
      match l with
      | [] => []
      | Core f :: r => f :: core_only r
      | Obs _ :: r => core_only r
      end.
  End Observers.

  (** ** the stream: global host data + slots *)
  Record sys := { glob : G; slots : store }.

  Variable status : field.
  Variable is_live : value -> bool.
  Definition live (s : sstate) : bool := is_live (s status).

  (** [Persist]: fields on which two runs agree for EVERY slot (generator
      state, status); [Reset]: fields overwritten by track initialisation *)
  Variables Persist Reset : list field.
  Definition C0 : list field := Persist ++ Reset.

  (** what a global phase can see of the slots with clean set [C] *)
  Definition view (C : list field) (sigma : store) : slot -> field -> option value :=
    fun i f =>
      if memf f Persist then Some (sigma i f)
      else if live (sigma i) && memf f C then Some (sigma i f)
      else None.

  Definition gfun := G -> (slot -> field -> option value) -> G * (slot -> list (field * value)).

  Inductive phase :=
  | Kernel (acts idle : list action)
  | Global (Cr : list field) (gp : gfun).

  Definition run_kernel (acts idle : list action) (x : sys) : sys :=
    {| glob := glob x;
       slots := fun i => if live (slots x i) then run_actions acts (slots x i)
                         else run_actions idle (slots x i) |}.
  Definition run_global (Cr : list field) (gp : gfun) (x : sys) : sys :=
    let r := gp (glob x) (view Cr (slots x)) in
    {| glob := fst r; slots := fun i => write_list (slots x i) (snd r i) |}.
  Definition run_phase (x : sys) (p : phase) : sys :=
    match p with
    | Kernel acts idle => run_kernel acts idle x
    | Global Cr gp => run_global Cr gp x
    end.
  Definition run_phases (ps : list phase) (x : sys) : sys := fold_left run_phase ps x.

  (** a global phase that switches a slot to a live status must overwrite all
      of [Reset] in that slot (this is [init_track]) *)
  Definition global_ok (gp : gfun) : Prop :=
    forall g v i, let w := snd (gp g v) i in
      (exists stv, In (status, stv) w /\ is_live stv = true) ->
      forall f, In f Reset -> In f (map fst w).
  Definition idle_keeps_status (idle : list action) : bool :=
    forallb (fun a => negb (memf status (writes a))) idle.

  Fixpoint phases_ok (ps : list phase) : Prop :=
    match ps with
    | [] => True
    | Kernel acts idle :: r => Forall action_ok acts /\ Forall action_ok idle /\ phases_ok r
    | Global _ gp :: r => global_ok gp /\ phases_ok r
    end.
  (** the decidable part: the read/write discipline along the step *)
  Fixpoint check (C : list field) (ps : list phase) : bool :=
    match ps with
    | [] => true
    | Kernel acts idle :: r =>
        wbr C acts && wbr Persist idle && idle_keeps_status idle && check (clean_after C acts) r
    | Global Cr gp :: r => inclb Cr C && check C0 r
    end.

  (** the relation between a run on a fresh state and a run on a used one *)
  Definition rel (C : list field) (x y : sys) : Prop :=
    glob x = glob y /\
    forall i, agree Persist (slots x i) (slots y i) /\
              (live (slots x i) = true -> agree C (slots x i) (slots y i)).

  (** ** stepping with per-step inputs (primaries) *)
  Variable I : Type.
  Variable step : I -> list phase.
  Definition run_steps (ins : list I) (x : sys) : sys :=
    fold_left (fun x i => run_phases (step i) x) ins x.
  (** host data (counters, StepperResult, recorded step stream) after each step *)
  Fixpoint trace (ins : list I) (x : sys) : list G :=
    match ins with
    | [] => []
    | i :: r => let x' := run_phases (step i) x in glob x' :: trace r x'
    end.

  (** ** begin of an event *)
  Variable E : Type.
  Variable rng_fields : list field.
  Variable seed_of : E -> slot -> field -> value.     (* from (seed, event*slots + slot) *)
  Variable greseed : E -> G -> G.                      (* zero the event's track counter *)
  Variable greset : G -> G.                            (* counters, vacancies *)
  Variable inactive : value.
  Definition reseed (e : E) (x : sys) : sys :=
    {| glob := greseed e (glob x);
       slots := fun i => write_list (slots x i) (map (fun f => (f, seed_of e i f)) rng_fields) |}.
  Definition core_reset (x : sys) : sys :=
    {| glob := greset (glob x); slots := fun i => write (slots x i) status inactive |}.
End Model.
