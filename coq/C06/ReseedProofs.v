(** * C06 — proofs about [reseed_rng] *)
From Coq Require Import NArith List Lia.
From Celer Require Import C06.Reseed.
Import ListNotations.
Local Open Scope N_scope.

(** the generators after reseeding are a function of (seed, event, slot count)
    only: the stream that owns the state is not an input *)
Theorem reseed_independent_of_stream : forall seed size event s1 s2,
  reseed_rng seed size s1 event = reseed_rng seed size s2 event.
Proof. reflexivity. Qed.

Theorem reseed_init_independent_of_stream : forall seed size event slot s1 s2,
  reseed_init seed size s1 event slot = reseed_init seed size s2 event slot.
Proof. reflexivity. Qed.

(** every slot is reseeded *)
Theorem reseed_covers_all_slots : forall seed size stream event,
  length (reseed_rng seed size stream event) = N.to_nat size.
Proof. intros. unfold reseed_rng. rewrite map_length, seq_length. reflexivity. Qed.

(** distinct (event, slot) pairs get distinct subsequences (as long as the
    64-bit product does not wrap): events never share random streams *)
Theorem reseed_subsequences_distinct : forall seed size stream e1 e2 i1 i2,
  i1 < size -> i2 < size ->
  (e1 + 1) * size <= ull_max -> (e2 + 1) * size <= ull_max ->
  ri_subsequence (reseed_init seed size stream e1 i1) = ri_subsequence (reseed_init seed size stream e2 i2) ->
  e1 = e2 /\ i1 = i2.
Proof.
  intros seed size stream e1 e2 i1 i2 H1 H2 B1 B2 H.
  unfold reseed_init, ri_subsequence in H.
  assert (L1 : e1 * size + i1 < ull_max) by nia.
  assert (L2 : e2 * size + i2 < ull_max) by nia.
  rewrite (N.mod_small _ _ L1), (N.mod_small _ _ L2) in H.
  assert (e1 = e2).
  { destruct (N.lt_trichotomy e1 e2) as [Hlt|[Heq|Hgt]]; [exfalso|exact Heq|exfalso].
    - assert ((e1 + 1) * size <= e2 * size) by (apply N.mul_le_mono_r; lia). nia.
    - assert ((e2 + 1) * size <= e1 * size) by (apply N.mul_le_mono_r; lia). nia. }
  subst. split; [reflexivity|lia].
Qed.

Example ex_reseed :
  reseed_rng 12345 3 0 7 = reseed_rng 12345 3 5 7
  /\ map ri_subsequence (reseed_rng 12345 3 5 7) = [21; 22; 23].
Proof. split; reflexivity. Qed.
