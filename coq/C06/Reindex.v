(** * C06 — model of the re-indexing machinery (definitions only)

    C++ modelled (branch for branch; [None] results are the assertion /
    undefined-behaviour sites, CELERITAS_DEBUG=0 so nothing guards them):

    - [fill_sequence(&state->track_slots)]  (CoreTrackData.cc)      : [fill_track_slots]
    - [detail::shuffle_track_slots]         (TrackSlotUtils.cc)     : [shuffle_track_slots]
      std::shuffle driven by mt19937 seeded with the slot COUNT: a fixed
      sequence of position swaps that depends on the count only, i.e. a
      position permutation [shuf n] applied to the array (oracle).
    - [detail::sort_tracks]                 (TrackSortUtils.cc)     : [sort_key], [sorted_perm]
      std::partition / std::sort are specified, not implemented: the result
      is SOME permutation of the input whose keys are sorted.
    - [detail::count_tracks_per_action], [detail::backfill_action_count],
      [ActionAccessor]                      (TrackSortUtils.{cc,hh})
    - [CoreState::get_action_range]         (CoreState.cc)
    - [CoreTrackView] thread -> slot map, [TrackExecutor],
      [ConditionalTrackExecutor], [IsStepActionEqual]/[IsAlongStepActionEqual],
      [launch_core]/[launch_action] (host: all threads) and the action-range
      launch of ActionLauncher.device.hh. *)
From Coq Require Import List Bool Arith Permutation.
From Celer Require Import C06.Noninterference.
Import ListNotations.

(** ** identifiers: OpaqueId with [None] = the invalid id.  The raw invalid
    value is size_type(-1), which compares GREATER than every valid id
    (CELER_DEFINE_OPAQUEID_CMP compares the raw values). *)
Definition aid := option nat.
Definition aid_ltb (x y : aid) : bool :=
  match x, y with
  | Some a, Some b => a <? b
  | Some _, None => true
  | None, _ => false
  end.
Definition aid_leb (x y : aid) : bool := negb (aid_ltb y x).
Definition aid_eqb (x y : aid) : bool :=
  match x, y with
  | Some a, Some b => a =? b
  | None, None => true
  | _, _ => false
  end.

(** ** track_slots: thread -> slot *)
Definition fill_track_slots (n : nat) : list nat := seq 0 n.

(** [shuf n] = the position permutation performed by std::shuffle with
    mt19937{n} on n elements: result[p] = input[shuf n [p]] *)
Definition shuffle_track_slots (shuf : nat -> list nat) (l : list nat) : list nat :=
  map (fun p => nth p l 0) (shuf (length l)).
Definition shuf_ok (shuf : nat -> list nat) : Prop :=
  forall n, Permutation (shuf n) (seq 0 n).

(** ** sort_tracks *)
Inductive track_order :=
| order_none | init_charge | reindex_shuffle | reindex_status | reindex_particle_type
| reindex_along_step_action | reindex_step_limit_action | reindex_both_action.

(** what sort_tracks reads, indexed by SLOT: sim.status (0 = inactive),
    sim.along_step_action, sim.post_step_action, particles.particle_id *)
Record sort_state := {
  st_status : list nat;
  st_along : list aid;
  st_post : list aid;
  st_particle : list aid }.

(** get_action_ptr: [None] = CELER_ASSERT_UNREACHABLE *)
Definition get_action_ptr (st : sort_state) (o : track_order) : option (list aid) :=
  match o with
  | reindex_along_step_action => Some (st_along st)
  | reindex_step_limit_action => Some (st_post st)
  | _ => None
  end.

(** the key by which sort_tracks orders the slots.  std::partition with
    IsNotInactive puts the slots with status != inactive first: key 0 for
    them, 1 for inactive.  [None] = the default: branch (unreachable). *)
Definition sort_key (st : sort_state) (o : track_order) : option (nat -> aid) :=
  match o with
  | reindex_status => Some (fun s => if nth s (st_status st) 0 =? 0 then Some 1 else Some 0)
  | reindex_along_step_action => Some (fun s => nth s (st_along st) None)
  | reindex_step_limit_action => Some (fun s => nth s (st_post st) None)
  | reindex_particle_type => Some (fun s => nth s (st_particle st) None)
  | _ => None
  end.

Fixpoint sortedb (ks : list aid) : bool :=
  match ks with
  | [] => true
  | k :: r => forallb (aid_leb k) r && sortedb r
  end.

(** specification of std::sort / std::partition: some sorted permutation *)
Definition sorted_perm (key : nat -> aid) (l l' : list nat) : Prop :=
  Permutation l l' /\ sortedb (map key l') = true.

(** one executable instance (insertion sort), used for non-vacuity
    and by the correspondence check for the unique sorted KEY sequence *)
Fixpoint insert_by (key : nat -> aid) (x : nat) (l : list nat) : list nat :=
  match l with
  | [] => [x]
  | y :: r => if aid_ltb (key x) (key y) then x :: y :: r else y :: insert_by key x r
  end.
Definition sort_by (key : nat -> aid) (l : list nat) : list nat :=
  fold_right (insert_by key) [] l.

(** ** the re-indexing operations a state can undergo *)
Inductive reindex_op :=
| OpFill                                        (* resize: fill_sequence *)
| OpShuffle                                     (* resize with reindex_shuffle *)
| OpSort (o : track_order) (st : sort_state).   (* SortTracksAction::step *)

Definition reindex_step (shuf : nat -> list nat) (op : reindex_op) (l l' : list nat) : Prop :=
  match op with
  | OpFill => l' = fill_track_slots (length l)
  | OpShuffle => l' = shuffle_track_slots shuf l
  | OpSort o st =>
      match sort_key st o with
      | Some key => sorted_perm key l l'
      | None => False        (* unreachable branch: not a behaviour *)
      end
  end.
Fixpoint reindex_steps (shuf : nat -> list nat) (ops : list reindex_op) (l l' : list nat) : Prop :=
  match ops with
  | [] => l' = l
  | op :: r => exists m, reindex_step shuf op l m /\ reindex_steps shuf r m l'
  end.

(** ** count_tracks_per_action / backfill_action_count *)
Fixpoint set_nth {A} (i : nat) (v : A) (l : list A) : list A :=
  match l, i with
  | [], _ => []
  | _ :: r, 0 => v :: r
  | x :: r, S i' => x :: set_nth i' v r
  end.

(** ActionAccessor for threads 0..size-1: action_[track_slots_[tid]] *)
Definition thread_keys (act : list aid) (ts : list nat) : list aid :=
  map (fun s => nth s act None) ts.

(** the loop [for i = 1 .. size-1] ([prev] = get_action(i-1)) *)
Fixpoint count_loop (prev : aid) (i : nat) (ks : list aid) (offs : list (option nat)) : list (option nat) :=
  match ks with
  | [] => offs
  | k :: r =>
      count_loop k (S i) r
        (match k with
         | None => offs                                   (* if (!current_action) continue; *)
         | Some a => if aid_eqb k prev then offs else set_nth a (Some i) offs
         end)
  end.

(** the reverse loop of backfill_action_count: an invalid entry takes the
    (already back-filled) value of its right neighbour; the last entry is
    not visited *)
Fixpoint backfill_aux (l : list (option nat)) : list (option nat) :=
  match l with
  | [] => []
  | x :: r =>
      let r' := backfill_aux r in
      match x with
      | Some v => Some v :: r'
      | None => hd None r' :: r'
      end
  end.

(** [None] = CELER_EXPECT(offsets.size() >= 2) *)
Definition backfill_action_count (offs : list (option nat)) (n : nat) : option (list (option nat)) :=
  if length offs <? 2 then None
  else Some (backfill_aux (set_nth (length offs - 1) (Some n) offs)).

Definition key_in_bounds (noffs : nat) (k : aid) : bool :=
  match k with Some a => a <? noffs | None => true end.

(** [noffs] = offsets.size() = num_actions + 1.  [None]: empty state
    (get_action(ThreadId{0}) reads track_slots[0]), an action id that indexes
    outside [offsets] (out-of-bounds write), or the CELER_EXPECT of backfill *)
Definition count_tracks_per_action (act : list aid) (ts : list nat) (noffs : nat)
  : option (list (option nat)) :=
  match thread_keys act ts with
  | [] => None
  | k0 :: r =>
      if forallb (key_in_bounds noffs) (k0 :: r) then
        let o1 := count_loop k0 1 r (repeat None noffs) in
        let o2 := match k0 with Some a => set_nth a (Some 0) o1 | None => o1 end in
        backfill_action_count o2 (length ts)
      else None
  end.

(** CoreState::get_action_range: [None] = CELER_EXPECT(action_id + 1 < size)
    or an invalid ThreadId in the table *)
Definition get_action_range (offs : list (option nat)) (a : nat) : option (nat * nat) :=
  if S a <? length offs then
    match nth a offs None, nth (S a) offs None with
    | Some b, Some e => Some (b, e)
    | _, _ => None
    end
  else None.

(** number of threads whose key is below / equal to action [a] *)
Definition count_lt (a : nat) (ks : list aid) : nat :=
  length (filter (fun k => aid_ltb k (Some a)) ks).
Definition count_eq (a : nat) (ks : list aid) : nat :=
  length (filter (fun k => aid_eqb k (Some a)) ks).
Definition has_ge (a : nat) (ks : list aid) : bool :=
  existsb (fun k => match k with Some b => a <=? b | None => false end) ks.
(** the offsets table in closed form *)
Definition offset_spec (ks : list aid) (a : nat) : nat :=
  if has_ge a ks then count_lt a ks else length ks.
Fixpoint prefix_sum (f : nat -> nat) (a : nat) : nat :=
  match a with 0 => 0 | S a' => prefix_sum f a' + f a' end.

(** ** TrackExecutor and launches *)
(** CoreTrackView: track_slots.empty() ? thread : track_slots[thread] *)
Definition thread_to_slot (ts : list nat) (t : nat) : nat :=
  match ts with [] => t | _ => nth t ts 0 end.
(** the slots visited, in thread order, by a launch over threads [b, e) *)
Definition range_slots (ts : list nat) (b e : nat) : list nat :=
  map (thread_to_slot ts) (seq b (e - b)).

Section Launch.
  Variables field value : Type.
  Local Notation sstate := (sstate field value).
  Local Notation store := (store field value nat).

  (** ConditionalTrackExecutor: apply the track executor only where the
      condition on the slot's own sim state holds *)
  Definition cond_kernel (applies : sstate -> bool) (k : sstate -> sstate) : sstate -> sstate :=
    fun s => if applies s then k s else s.
  (** IsStepActionEqual{a} / IsAlongStepActionEqual{a} *)
  Definition is_action_equal (action_of : sstate -> aid) (a : nat) : sstate -> bool :=
    fun s => aid_eqb (action_of s) (Some a).

  (** sequential loop over the threads [b, e) through the thread->slot map *)
  Definition launch_threads (k : sstate -> sstate) (ts : list nat) (b e : nat) (sigma : store) : store :=
    launch Nat.eq_dec (own_slot k) (range_slots ts b e) sigma.
  (** host launch_core / launch_action: every thread of the state *)
  Definition launch_core (k : sstate -> sstate) (ts : list nat) (n : nat) (sigma : store) : store :=
    launch_threads k ts 0 n sigma.
  (** ActionLauncher (device) with has_action_range && is_action_sorted:
      only the threads of the action's range; [None] = get_action_range failed *)
  Definition launch_action_range (k : sstate -> sstate) (ts : list nat) (offs : list (option nat))
             (a : nat) (sigma : store) : option store :=
    match get_action_range offs a with
    | Some (b, e) => Some (launch_threads k ts b e sigma)
    | None => None
    end.
  (** keys seen by count_tracks_per_action when the action lives in the store *)
  Definition store_keys (action_of : sstate -> aid) (sigma : store) (ts : list nat) : list aid :=
    map (fun s => action_of (sigma s)) ts.
End Launch.
Arguments cond_kernel {field value}.
Arguments is_action_equal {field value}.
Arguments launch_threads {field value}.
Arguments launch_core {field value}.
Arguments launch_action_range {field value}.
Arguments store_keys {field value}.

(** ** boolean checkers used by the correspondence check on the C++ outputs *)
Definition is_perm_of_seqb (n : nat) (l : list nat) : bool :=
  (length l =? n) && forallb (fun i => existsb (Nat.eqb i) l) (seq 0 n).
