(** * C06 — model of [reseed_rng] (src/celeritas/random/RngReseed.cc), definitions only

    For every slot [i] of the state the generator is re-initialised from
    [Initializer_t{seed = params.seed, subsequence = event_id * size + i}]
    (unsigned 64-bit arithmetic).  The [StreamId] argument is NOT used. *)
From Coq Require Import NArith List.
Import ListNotations.
Local Open Scope N_scope.

Record rng_init := { ri_seed : N; ri_subsequence : N; ri_offset : N }.

Definition ull_max : N := 2 ^ 64.

(** the initializer given to slot [slot] of a [size]-slot state owned by
    stream [stream] when reseeding for [event] *)
Definition reseed_init (seed size stream event slot : N) : rng_init :=
  {| ri_seed := seed;
     ri_subsequence := (event * size + slot) mod ull_max;
     ri_offset := 0 |}.

(** what the whole call does to the generator part of the state: one
    initializer per slot, for ALL slots 0..size-1 *)
Definition reseed_rng (seed size stream event : N) : list rng_init :=
  map (fun i => reseed_init seed size stream event (N.of_nat i)) (seq 0 (N.to_nat size)).

(** entry point for the correspondence check *)
Definition run_reseed_subsequences (seed size stream event : N) : list N :=
  map ri_subsequence (reseed_rng seed size stream event).
