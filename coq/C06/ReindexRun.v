(** * C06 — entry points of the re-indexing model for the correspondence check *)
From Coq Require Import List Bool Arith.
From Celer Require Import C06.Reindex.
Import ListNotations.

Definition mk_state (status : list nat) (along post particle : list aid) : sort_state :=
  {| st_status := status; st_along := along; st_post := post; st_particle := particle |}.

(** check of a C++ sort_tracks result [out] for input [inp] (a permutation of
    0..n-1): (is a permutation of 0..n-1, keys sorted, keys of the result,
    keys of the model's sort); [None] = order not handled by sort_tracks *)
Definition run_sort_check (o : track_order) (st : sort_state) (inp out : list nat)
  : option (bool * bool * list aid * list aid) :=
  match sort_key st o with
  | None => None
  | Some key => Some (is_perm_of_seqb (length inp) out, sortedb (map key out),
                      map key out, map key (sort_by key inp))
  end.

Definition run_count (o : track_order) (st : sort_state) (ts : list nat) (noffs : nat)
  : option (list (option nat)) :=
  match get_action_ptr st o with
  | None => None
  | Some act => count_tracks_per_action act ts noffs
  end.

Definition run_backfill (offs : list (option nat)) (n : nat) := backfill_action_count offs n.
Definition run_shuffle (pi l : list nat) : list nat := shuffle_track_slots (fun _ => pi) l.
Definition run_fill (n : nat) : list nat := fill_track_slots n.
(** ranges of all actions 0..A-1 from an offsets table *)
Definition run_ranges (offs : list (option nat)) : list (option (nat * nat)) :=
  map (get_action_range offs) (seq 0 (length offs - 1)).
