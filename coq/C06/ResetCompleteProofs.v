(** * C06 — the generated obligations, discharged by computation on the
    field lists that the translator has just extracted from the sources *)
From Coq Require Import String List Bool.
From Celer Require Import Generated.C06_fields C06.ResetComplete.
Import ListNotations.

Lemma shapes_all_ok : shapes_all_ok_b = true.
Proof. vm_compute. reflexivity. Qed.

Lemma reset_complete : reset_complete_b = true.
Proof. vm_compute. reflexivity. Qed.

Lemma unclassified_nil : unclassified = [].
Proof. vm_compute. reflexivity. Qed.

Lemma hand_lists_current : hand_lists_current_b = true.
Proof. vm_compute. reflexivity. Qed.

Lemma persist_established : persist_established_b = true.
Proof. vm_compute. reflexivity. Qed.

Lemma state_reset_covers_glob : state_reset_covers_glob_b = true.
Proof. vm_compute. reflexivity. Qed.

Lemma inplace_covers : inplace_covers_b = true.
Proof. vm_compute. reflexivity. Qed.

Lemma slot_discipline : slot_discipline_b = true.
Proof. vm_compute. reflexivity. Qed.

Lemma errored_path_clean : errored_path_clean_b = true.
Proof. vm_compute. reflexivity. Qed.
