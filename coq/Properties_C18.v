(** * C18 property theorems — statements only; proofs live in coq/C18/*Proofs.v.
    Each theorem is closed by [exact] and followed by [Print Assumptions]. *)
From Coq Require Import List Arith Bool ZArith Reals Permutation.
From Celer Require Import Base.Num Base.NumR Base.NumF C18.Algorithms C18.Specs C18.ArrayLemmas C18.SearchProofs
  C18.IntProofs C18.HeapsortProofs C18.IndexProofs C18.Grids C18.GridProofs C18.GridWitness C18.GridFlocq.
Import ListNotations.

(** ** celeritas::sort (heap sort): for every strict weak order and every array
    the result is sorted and is a permutation of the input *)
Theorem C18_sort_sorted : forall (A : Type) (d : A) (cmp : A -> A -> bool),
  strict_weak_order cmp -> forall l, sorted cmp d (sort d cmp l).
Proof. exact (@sort_sorted). Qed.
Print Assumptions C18_sort_sorted.

Theorem C18_sort_permutation : forall (A : Type) (d : A) (cmp : A -> A -> bool) (l : list A),
  Permutation l (sort d cmp l).
Proof. exact (@sort_permutation). Qed.
Print Assumptions C18_sort_permutation.

(** sift_down extends the heap by one node; make_heap builds a heap *)
Theorem C18_sift_down_heap : forall (A : Type) (d : A) (cmp : A -> A -> bool),
  strict_weak_order cmp -> forall l len start, len <= length l ->
  heap_from d cmp l len (S start) ->
  heap_from d cmp (sift_down d cmp l len start) len start /\
  (forall i, len <= i -> get d (sift_down d cmp l len start) i = get d l i).
Proof. exact (@sift_down_heap). Qed.
Print Assumptions C18_sift_down_heap.

Theorem C18_make_heap_is_heap : forall (A : Type) (d : A) (cmp : A -> A -> bool),
  strict_weak_order cmp -> forall l, heap_from d cmp (make_heap d cmp l) (length l) 0.
Proof. exact (@make_heap_is_heap). Qed.
Print Assumptions C18_make_heap_is_heap.

(** std::lower_bound semantics, for every strict weak order and sorted list *)
Theorem C18_lower_bound_spec : forall (A : Type) (d : A) (cmp : A -> A -> bool),
  strict_weak_order cmp -> forall l v, sorted cmp d l ->
  let k := lower_bound d cmp l v in
  k <= length l /\ (forall i, i < k -> cmp (get d l i) v = true) /\
  (forall i, k <= i -> i < length l -> cmp (get d l i) v = false).
Proof. exact (@lower_bound_spec). Qed.
Print Assumptions C18_lower_bound_spec.

Theorem C18_upper_bound_spec : forall (A : Type) (d : A) (cmp : A -> A -> bool),
  strict_weak_order cmp -> forall l v, sorted cmp d l ->
  let k := upper_bound d cmp l v in
  k <= length l /\ (forall i, i < k -> cmp v (get d l i) = false) /\
  (forall i, k <= i -> i < length l -> cmp v (get d l i) = true).
Proof. exact (@upper_bound_spec). Qed.
Print Assumptions C18_upper_bound_spec.

Theorem C18_lower_bound_linear_eq : forall (A : Type) (d : A) (cmp : A -> A -> bool),
  strict_weak_order cmp -> forall l v, sorted cmp d l ->
  lower_bound_linear cmp l v = lower_bound d cmp l v.
Proof. exact (@lower_bound_linear_eq). Qed.
Print Assumptions C18_lower_bound_linear_eq.

Theorem C18_find_sorted_spec : forall (A : Type) (d : A) (cmp : A -> A -> bool),
  strict_weak_order cmp -> forall l v, sorted cmp d l ->
  let r := find_sorted d cmp l v in
  (r < length l /\ equiv cmp (get d l r) v /\ forall i, i < r -> ~ equiv cmp (get d l i) v)
  \/ (r = length l /\ forall i, i < length l -> ~ equiv cmp (get d l i) v).
Proof. exact (@find_sorted_spec). Qed.
Print Assumptions C18_find_sorted_spec.

Theorem C18_min_element_first_min : forall (A : Type) (d : A) (cmp : A -> A -> bool),
  strict_weak_order cmp -> forall l, l <> [] ->
  let r := min_element cmp l in
  r < length l /\ (forall j, j < length l -> cmp (get d l j) (get d l r) = false) /\
  (forall j, j < r -> cmp (get d l r) (get d l j) = true).
Proof. exact (@min_element_first_min). Qed.
Print Assumptions C18_min_element_first_min.

Theorem C18_partition_spec : forall (A : Type) (d : A) (p : A -> bool) (l : list A),
  let r := partition d p l in
  Permutation l (fst r) /\ snd r = count p l /\ snd r <= length l /\
  (forall i, i < snd r -> p (get d (fst r) i) = true) /\
  (forall i, snd r <= i -> i < length l -> p (get d (fst r) i) = false).
Proof. exact (@partition_spec). Qed.
Print Assumptions C18_partition_spec.

Theorem C18_ceil_div_spec : forall top bottom, 0 < bottom ->
  let q := ceil_div top bottom in
  top <= q * bottom /\ (forall q', top <= q' * bottom -> q <= q').
Proof. exact ceil_div_spec. Qed.
Print Assumptions C18_ceil_div_spec.

Theorem C18_local_work_total : forall t w, 0 < w -> sum_upto (local_work t w) w = t.
Proof. exact local_work_total. Qed.
Print Assumptions C18_local_work_total.

Theorem C18_ipow_spec : forall n,
  (forall v : Z, ipow 1%Z Z.mul n v = (v ^ Z.of_nat n)%Z) /\
  (forall v : R, ipow 1%R Rmult n v = pow v n).
Proof. exact ipow_spec. Qed.
Print Assumptions C18_ipow_spec.

(** ** ranges, including negative steps *)
Theorem C18_range_elements : forall a b s, (a <= b)%Z -> s <> 0%Z ->
  step_range a b s =
    if (0 <? s)%Z then arith (Z.to_nat ((b - 1 - a) / s + 1)) a s
    else arith (Z.to_nat ((b - a) / (- s))) (b + s) s.
Proof. exact range_elements. Qed.
Print Assumptions C18_range_elements.

Theorem C18_range_plain : forall a b, (a <= b)%Z -> range a b = arith (Z.to_nat (b - a)) a 1.
Proof. exact range_plain. Qed.
Print Assumptions C18_range_plain.

Theorem C18_arith_nth : forall n v s k, k < n -> nth k (arith n v s) 0%Z = (v + Z.of_nat k * s)%Z.
Proof. exact arith_nth. Qed.
Print Assumptions C18_arith_nth.

(** ** indexers *)
Theorem C18_hyperslab_bijective : forall dims, dims <> [] -> Forall (lt 0) dims ->
  (forall coords, coords_valid dims coords ->
     hyperslab_index dims coords < prod dims /\
     hyperslab_coords dims (hyperslab_index dims coords) = coords) /\
  (forall index, index < prod dims ->
     coords_valid dims (hyperslab_coords dims index) /\
     hyperslab_index dims (hyperslab_coords dims index) = index).
Proof. exact hyperslab_bijective. Qed.
Print Assumptions C18_hyperslab_bijective.

Theorem C18_ragged_right_bijective : forall offsets, 2 <= length offsets -> offsets_mono offsets ->
  (forall a b, a + 1 < length offsets -> b < off offsets (a + 1) - off offsets a ->
     ragged_coords offsets (ragged_index offsets (a, b)) = (a, b)) /\
  (forall index, off offsets 0 <= index -> index < off offsets (length offsets - 1) ->
     let c := ragged_coords offsets index in
     fst c + 1 < length offsets /\ snd c < off offsets (fst c + 1) - off offsets (fst c) /\
     ragged_index offsets c = index).
Proof. exact ragged_right_bijective. Qed.
Print Assumptions C18_ragged_right_bijective.

(** ** grids (instance R of coq/C18/Grids.v) *)
Local Open Scope R_scope.

Theorem C18_uniform_find : forall g v, ug_valid g -> ug_front g <= v < ug_back g ->
  let i := ug_find g v in
  (0 <= i)%Z /\ (i + 1 < ug_size g)%Z /\ ug_at g i <= v < ug_at g (i + 1).
Proof. exact ug_find_spec. Qed.
Print Assumptions C18_uniform_find.

(** the index law bin + 1 < size of the CURRENT UniformGrid::find (with the
    step back of commit e0c3783) for any monotone rounding with relative error
    u at the grid spacing and at the top quotient (binary64: u = 2^-53,
    size <= 2^52, no underflow) *)
Theorem C18_uniform_find_rounded_in_range : forall (rnd : R -> R) (u : R),
  0 <= u -> (forall x y, x <= y -> rnd x <= rnd y) -> rnd 0 = 0 ->
  forall front back size v,
  (2 <= size)%Z -> 2 * IZR size * u < 1 -> front <= v < back ->
  let D := rnd (back - front) in
  let delta := rnd (D / IZR (size - 1)) in
  0 < D -> (D / IZR (size - 1)) * (1 - u) <= delta ->
  rnd (D / delta) <= (D / delta) * (1 + u) ->
  let bin := rfind rnd front back size v in
  (0 <= bin)%Z /\ (bin + 1 < size)%Z.
Proof. exact rfind_in_range. Qed.
Print Assumptions C18_uniform_find_rounded_in_range.

(** ... and for IEEE-754 binary64 itself: [rnd64] is Flocq's round-to-nearest-even
    onto the binary64 format (FLT_exp (-1074) 53), i.e. the value every
    non-overflowing binary64 -, / returns; [rfind rnd64] is UniformGrid::find
    (with from_bounds' delta) evaluated with those roundings.  Holds for every
    grid of 2 .. 2^52-1 points whose spacing is not subnormal. *)
Theorem C18_uniform_find_binary64_in_range : forall front back size v,
  (2 <= size < 4503599627370496)%Z -> front <= v < back ->
  Raux.bpow Zaux.radix2 (-1022) <= rnd64 (back - front) / IZR (size - 1) ->
  let bin := rfind rnd64 front back size v in
  (0 <= bin)%Z /\ (bin + 1 < size)%Z.
Proof. exact find_bin_float_in_range. Qed.
Print Assumptions C18_uniform_find_binary64_in_range.

(** without the step back the law fails on binary64 (finding F3, repaired) *)
Theorem C18_uniform_find_raw_refuted : exists (front back : PrimFloat.float) (size : Z) (v : PrimFloat.float),
  PrimFloat.leb front v = true /\ PrimFloat.ltb v back = true /\
  (ug_find_raw (ug_from_bounds front back size) v + 1 = size)%Z /\
  (ug_find (ug_from_bounds front back size) v + 1 < size)%Z.
Proof. exact uniform_find_raw_refuted. Qed.
Print Assumptions C18_uniform_find_raw_refuted.

Theorem C18_nonuniform_find_spec : forall (g : list R) v, increasing g -> (2 <= length g)%nat ->
  get 0 g 0 <= v < get 0 g (length g - 1) ->
  let i := nu_find g v in
  (i + 1 < length g)%nat /\ get 0 g i <= v < get 0 g (i + 1).
Proof. exact nu_find_spec. Qed.
Print Assumptions C18_nonuniform_find_spec.

Theorem C18_find_interp_fraction : forall (g : list R) v, increasing g -> (2 <= length g)%nat ->
  get 0 g 0 <= v < get 0 g (length g - 1) ->
  let r := find_interp_n g v in
  (fst r + 1 < length g)%nat /\ 0 <= snd r < 1 /\
  v = get 0 g (fst r) + snd r * (get 0 g (fst r + 1) - get 0 g (fst r)).
Proof. exact find_interp_n_fraction. Qed.
Print Assumptions C18_find_interp_fraction.

Theorem C18_find_interp_uniform_fraction : forall g v, ug_valid g -> ug_front g <= v < ug_back g ->
  let r := find_interp_u g v in
  (0 <= fst r)%Z /\ (fst r + 1 < ug_size g)%Z /\ 0 <= snd r < 1.
Proof. exact find_interp_u_fraction. Qed.
Print Assumptions C18_find_interp_uniform_fraction.

Theorem C18_lin_interp_between : forall xl yl xr yr x : R, xl < xr -> xl <= x <= xr ->
  lin_interp xl yl xr yr xl = yl /\ lin_interp xl yl xr yr xr = yr /\
  Rmin yl yr <= lin_interp xl yl xr yr x <= Rmax yl yr.
Proof. exact lin_interp_spec. Qed.
Print Assumptions C18_lin_interp_between.

Theorem C18_twod_bilinear_at_nodes : forall (xs ys vals : list R) i j,
  increasing xs -> increasing ys -> (i + 1 < length xs)%nat -> (j + 1 < length ys)%nat ->
  twod xs ys vals (get 0 xs i) (get 0 ys j) = get 0 vals (i * length ys + j).
Proof. exact twod_at_nodes. Qed.
Print Assumptions C18_twod_bilinear_at_nodes.
