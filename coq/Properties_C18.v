(** * C18 property theorems — statements only; proofs live in coq/C18/*Proofs.v.
    Each theorem is closed by [exact] and followed by [Print Assumptions]. *)
From Coq Require Import List Arith Bool ZArith Reals Permutation.
From Celer Require Import Base.Num Base.NumR Base.NumF C18.Algorithms C18.Specs C18.ArrayLemmas C18.SearchProofs
  C18.IntProofs C18.HeapsortProofs C18.IndexProofs C18.Grids C18.GridProofs C18.GridWitness C18.GridFlocq
  C18.RangeImpl C18.RangeImplProofs C18.Span C18.SpanProofs C18.Math C18.MathProofs C18.MathWitness C18.IndexEndProofs.
Import ListNotations.

(** ** celeritas::sort (heap sort): for every strict weak order and every array
    the result is sorted and is a permutation of the input *)
Theorem C18_sort_sorted : forall (A : Type) (d : A) (cmp : A -> A -> bool),
  strict_weak_order cmp -> forall l, sorted cmp d (sort d cmp l).
Proof. exact (@sort_sorted). Qed.
Print Assumptions C18_sort_sorted.

Theorem C18_sort_permutation : forall (A : Type) (d : A) (cmp : A -> A -> bool) (l : list A),
  Permutation l (sort d cmp l).
Proof. exact (@sort_permutation). Qed.
Print Assumptions C18_sort_permutation.

(** sift_down extends the heap by one node; make_heap builds a heap *)
Theorem C18_sift_down_heap : forall (A : Type) (d : A) (cmp : A -> A -> bool),
  strict_weak_order cmp -> forall l len start, len <= length l ->
  heap_from d cmp l len (S start) ->
  heap_from d cmp (sift_down d cmp l len start) len start /\
  (forall i, len <= i -> get d (sift_down d cmp l len start) i = get d l i).
Proof. exact (@sift_down_heap). Qed.
Print Assumptions C18_sift_down_heap.

Theorem C18_make_heap_is_heap : forall (A : Type) (d : A) (cmp : A -> A -> bool),
  strict_weak_order cmp -> forall l, heap_from d cmp (make_heap d cmp l) (length l) 0.
Proof. exact (@make_heap_is_heap). Qed.
Print Assumptions C18_make_heap_is_heap.

(** std::lower_bound semantics, for every strict weak order and sorted list *)
Theorem C18_lower_bound_spec : forall (A : Type) (d : A) (cmp : A -> A -> bool),
  strict_weak_order cmp -> forall l v, sorted cmp d l ->
  let k := lower_bound d cmp l v in
  k <= length l /\ (forall i, i < k -> cmp (get d l i) v = true) /\
  (forall i, k <= i -> i < length l -> cmp (get d l i) v = false).
Proof. exact (@lower_bound_spec). Qed.
Print Assumptions C18_lower_bound_spec.

Theorem C18_upper_bound_spec : forall (A : Type) (d : A) (cmp : A -> A -> bool),
  strict_weak_order cmp -> forall l v, sorted cmp d l ->
  let k := upper_bound d cmp l v in
  k <= length l /\ (forall i, i < k -> cmp v (get d l i) = false) /\
  (forall i, k <= i -> i < length l -> cmp v (get d l i) = true).
Proof. exact (@upper_bound_spec). Qed.
Print Assumptions C18_upper_bound_spec.

Theorem C18_lower_bound_linear_eq : forall (A : Type) (d : A) (cmp : A -> A -> bool),
  strict_weak_order cmp -> forall l v, sorted cmp d l ->
  lower_bound_linear cmp l v = lower_bound d cmp l v.
Proof. exact (@lower_bound_linear_eq). Qed.
Print Assumptions C18_lower_bound_linear_eq.

Theorem C18_find_sorted_spec : forall (A : Type) (d : A) (cmp : A -> A -> bool),
  strict_weak_order cmp -> forall l v, sorted cmp d l ->
  let r := find_sorted d cmp l v in
  (r < length l /\ equiv cmp (get d l r) v /\ forall i, i < r -> ~ equiv cmp (get d l i) v)
  \/ (r = length l /\ forall i, i < length l -> ~ equiv cmp (get d l i) v).
Proof. exact (@find_sorted_spec). Qed.
Print Assumptions C18_find_sorted_spec.

Theorem C18_min_element_first_min : forall (A : Type) (d : A) (cmp : A -> A -> bool),
  strict_weak_order cmp -> forall l, l <> [] ->
  let r := min_element cmp l in
  r < length l /\ (forall j, j < length l -> cmp (get d l j) (get d l r) = false) /\
  (forall j, j < r -> cmp (get d l r) (get d l j) = true).
Proof. exact (@min_element_first_min). Qed.
Print Assumptions C18_min_element_first_min.

Theorem C18_partition_spec : forall (A : Type) (d : A) (p : A -> bool) (l : list A),
  let r := partition d p l in
  Permutation l (fst r) /\ snd r = count p l /\ snd r <= length l /\
  (forall i, i < snd r -> p (get d (fst r) i) = true) /\
  (forall i, snd r <= i -> i < length l -> p (get d (fst r) i) = false).
Proof. exact (@partition_spec). Qed.
Print Assumptions C18_partition_spec.

Theorem C18_ceil_div_spec : forall top bottom, 0 < bottom ->
  let q := ceil_div top bottom in
  top <= q * bottom /\ (forall q', top <= q' * bottom -> q <= q').
Proof. exact ceil_div_spec. Qed.
Print Assumptions C18_ceil_div_spec.

Theorem C18_local_work_total : forall t w, 0 < w -> sum_upto (local_work t w) w = t.
Proof. exact local_work_total. Qed.
Print Assumptions C18_local_work_total.

Theorem C18_ipow_spec : forall n,
  (forall v : Z, ipow 1%Z Z.mul n v = (v ^ Z.of_nat n)%Z) /\
  (forall v : R, ipow 1%R Rmult n v = pow v n).
Proof. exact ipow_spec. Qed.
Print Assumptions C18_ipow_spec.

(** ** ranges, including negative steps *)
Theorem C18_range_elements : forall a b s, (a <= b)%Z -> s <> 0%Z ->
  step_range a b s =
    if (0 <? s)%Z then arith (Z.to_nat ((b - 1 - a) / s + 1)) a s
    else arith (Z.to_nat ((b - a) / (- s))) (b + s) s.
Proof. exact range_elements. Qed.
Print Assumptions C18_range_elements.

Theorem C18_range_plain : forall a b, (a <= b)%Z -> range a b = arith (Z.to_nat (b - a)) a 1.
Proof. exact range_plain. Qed.
Print Assumptions C18_range_plain.

Theorem C18_arith_nth : forall n v s k, k < n -> nth k (arith n v s) 0%Z = (v + Z.of_nat k * s)%Z.
Proof. exact arith_nth. Qed.
Print Assumptions C18_arith_nth.

(** ** Range.hh / RangeImpl.hh on machine integers ([Signed w] / [Unsigned w] counters with
    explicit two's-complement wrap-around; [cap] = number of loop iterations observed) *)
Theorem C18_Range_spec : forall ct a b cap, (0 < width ct)%Z -> in_range ct a -> in_range ct b -> (a <= b)%Z ->
  Z.to_nat (b - a) <= cap ->
  range_elems cap ct a b = arith (Z.to_nat (b - a)) a 1 /\
  (Range_empty a b = true <-> a = b) /\
  ((b - a <= ct_max ct)%Z -> Range_size ct a b = (b - a)%Z /\
     ((a < b)%Z -> Range_back ct a b = (b - 1)%Z /\ Range_front a = a)).
Proof. exact Range_spec. Qed.
Print Assumptions C18_Range_spec.

Theorem C18_Range_step_pos_spec : forall ct a b s cap, (0 < width ct)%Z ->
  in_range ct a -> in_range ct b -> (a <= b)%Z -> (0 < s <= ct_max ct)%Z ->
  ((a < b)%Z -> (a + Z.of_nat (n_pos a b s) * s <= ct_max ct)%Z) -> n_pos a b s <= cap ->
  StepRange_elems cap (Range_step_signed ct a b s) = arith (n_pos a b s) a s.
Proof. exact Range_step_pos_spec. Qed.
Print Assumptions C18_Range_step_pos_spec.

Theorem C18_Range_step_unsigned_pos_spec : forall w a b s cap, (0 < w)%Z ->
  in_range (Unsigned w) a -> in_range (Unsigned w) b -> (a <= b)%Z -> (0 < s <= ct_max (Unsigned w))%Z ->
  ((a < b)%Z -> (a + Z.of_nat (n_pos a b s) * s <= ct_max (Unsigned w))%Z) -> n_pos a b s <= cap ->
  StepRange_elems cap (Range_step_unsigned (Unsigned w) a b s) = arith (n_pos a b s) a s.
Proof. exact Range_step_unsigned_pos_spec. Qed.
Print Assumptions C18_Range_step_unsigned_pos_spec.

Theorem C18_Range_step_neg_spec : forall w a b s cap, (0 < w)%Z ->
  in_range (Signed w) a -> in_range (Signed w) b -> (a <= b)%Z -> (- 2 ^ (w - 1) <= s < 0)%Z ->
  (ct_min (Signed w) <= b + (Z.of_nat (n_neg a b s) + 1) * s)%Z -> n_neg a b s <= cap ->
  StepRange_elems cap (Range_step_signed (Signed w) a b s) = arith (n_neg a b s) (b + s) s.
Proof. exact Range_step_neg_spec. Qed.
Print Assumptions C18_Range_step_neg_spec.

(** a negative step on an UNSIGNED range of length >= |s| is empty, not the reversed range *)
Theorem C18_Range_step_neg_unsigned_empty : forall w a b s cap, (0 < w)%Z ->
  in_range (Unsigned w) a -> in_range (Unsigned w) b -> (a <= b)%Z -> (s < 0)%Z -> (- s <= b - a)%Z ->
  StepRange_elems cap (Range_step_signed (Unsigned w) a b s) = [].
Proof. exact Range_step_neg_unsigned_empty. Qed.
Print Assumptions C18_Range_step_neg_unsigned_empty.

(** ... and on a shorter one it yields values below [a]: range(3u, 3u).step(-1) = 2, 1, 0 *)
Theorem C18_Range_step_neg_unsigned_junk_refuted :
  StepRange_elems 10 (Range_step_signed (Unsigned 32) 3 3 (-1)) = [2; 1; 0]%Z /\
  StepRange_elems 10 (Range_step_signed (Unsigned 32) 3 5 (-3)) = [2]%Z.
Proof. exact Range_step_neg_unsigned_junk. Qed.
Print Assumptions C18_Range_step_neg_unsigned_junk_refuted.

Theorem C18_count_step_spec : forall n ct v s, (0 < width ct)%Z -> in_range ct v ->
  in_range ct (v + (Z.of_nat n - 1) * s) -> count_step_elems n ct v s = arith n v s.
Proof. exact count_step_spec. Qed.
Print Assumptions C18_count_step_spec.

Theorem C18_count_spec : forall n ct v, (0 < width ct)%Z -> in_range ct v ->
  (v + Z.of_nat n - 1 <= ct_max ct)%Z -> count_elems n ct v = arith n v 1.
Proof. exact count_spec. Qed.
Print Assumptions C18_count_spec.

Theorem C18_enum_range_spec : forall ct size, (0 < width ct)%Z -> (0 <= size <= ct_max ct)%Z ->
  enum_range ct size = arith (Z.to_nat size) 0 1 /\
  Forall (fun v => (0 <= v < size)%Z /\ enum_is_valid size v = true) (enum_range ct size) /\
  enum_is_valid size size = true.
Proof. exact enum_range_spec. Qed.
Print Assumptions C18_enum_range_spec.

(** ** Span subviews = firstn / skipn of the viewed elements *)
Theorem C18_span_first_spec : forall (A : Type) (buf : list A) s count, span_wf buf s ->
  (0 <= count)%Z -> first_pre s count = true ->
  span_elems buf (span_first s count) = firstn (Z.to_nat count) (span_elems buf s) /\
  span_wf buf (span_first s count) /\ length (span_elems buf (span_first s count)) = Z.to_nat count.
Proof. exact (@span_first_spec). Qed.
Print Assumptions C18_span_first_spec.

Theorem C18_span_last_spec : forall (A : Type) (buf : list A) s count, span_wf buf s ->
  (0 <= count)%Z -> last_pre s count = true ->
  span_elems buf (span_last s count) = skipn (Z.to_nat (span_size s - count)) (span_elems buf s) /\
  span_wf buf (span_last s count) /\ length (span_elems buf (span_last s count)) = Z.to_nat count.
Proof. exact (@span_last_spec). Qed.
Print Assumptions C18_span_last_spec.

Theorem C18_span_subspan_spec : forall (A : Type) (buf : list A) s offset count, span_wf buf s ->
  (0 <= offset)%Z -> (0 <= count)%Z -> std_subspan_pre s offset count = true ->
  span_elems buf (span_subspan s offset count)
    = firstn (Z.to_nat (subspan_count s offset count)) (skipn (Z.to_nat offset) (span_elems buf s)) /\
  span_wf buf (span_subspan s offset count) /\
  span_size (span_subspan s offset count) = subspan_count s offset count.
Proof. exact (@span_subspan_spec). Qed.
Print Assumptions C18_span_subspan_spec.

Theorem C18_subspan_pre_explicit_count : forall s offset count, (0 <= span_size s)%Z ->
  (0 <= offset)%Z -> (0 <= count)%Z -> count <> dynamic_extent -> (offset + count < size_mod)%Z ->
  subspan_pre s offset count = std_subspan_pre s offset count.
Proof. exact subspan_pre_explicit_count. Qed.
Print Assumptions C18_subspan_pre_explicit_count.

(** the CELER_EXPECT of subspan(offset, count = dynamic_extent) wraps: it rejects the valid
    subspan(0) and accepts the invalid subspan(size()+1) (result size 2^64-1), for every size *)
Theorem C18_subspan_pre_default_count_refuted : forall p n, (0 <= n < dynamic_extent)%Z ->
  let s : span := (p, n) in
  (std_subspan_pre s 0 dynamic_extent = true /\ subspan_pre s 0 dynamic_extent = false) /\
  (std_subspan_pre s (n + 1) dynamic_extent = false /\ subspan_pre s (n + 1) dynamic_extent = true /\
   span_size (span_subspan s (n + 1) dynamic_extent) = dynamic_extent) /\
  (forall offset, (1 <= offset <= n)%Z -> subspan_pre s offset dynamic_extent = true).
Proof. exact subspan_pre_default_count_refuted. Qed.
Print Assumptions C18_subspan_pre_default_count_refuted.

(** ** indexers *)
Theorem C18_hyperslab_bijective : forall dims, dims <> [] -> Forall (lt 0) dims ->
  (forall coords, coords_valid dims coords ->
     hyperslab_index dims coords < prod dims /\
     hyperslab_coords dims (hyperslab_index dims coords) = coords) /\
  (forall index, index < prod dims ->
     coords_valid dims (hyperslab_coords dims index) /\
     hyperslab_index dims (hyperslab_coords dims index) = index).
Proof. exact hyperslab_bijective. Qed.
Print Assumptions C18_hyperslab_bijective.

(** HyperslabInverseIndexer on its FULL precondition domain [0, size] (the CELER_EXPECT is
    [index <= hyperslab_size(dims)]): mixed-radix digits with an UNBOUNDED leading digit
    (the code keeps the whole remaining quotient for axis 0), round trip through
    HyperslabIndexer for EVERY index, leading digit <= dims[0] inside the precondition, and the
    one-past-the-end index maps to (dims[0], 0, ..., 0) *)
Theorem C18_hyperslab_inverse_spec : forall dims, dims <> [] -> Forall (lt 0) dims ->
  forall index,
  let coords := hyperslab_coords dims index in
  length coords = length dims /\
  Forall2 lt (tl coords) (tl dims) /\
  hd 0 coords = index / prod (tl dims) /\
  hyperslab_index dims coords = index.
Proof. exact hyperslab_inverse_spec. Qed.
Print Assumptions C18_hyperslab_inverse_spec.

Theorem C18_hyperslab_inverse_leading : forall dims, dims <> [] -> Forall (lt 0) dims ->
  forall index, index <= prod dims ->
  hd 0 (hyperslab_coords dims index) <= hd 0 dims /\
  (index < prod dims -> hd 0 (hyperslab_coords dims index) < hd 0 dims).
Proof. exact hyperslab_inverse_leading. Qed.
Print Assumptions C18_hyperslab_inverse_leading.

Theorem C18_hyperslab_inverse_end : forall dims, dims <> [] -> Forall (lt 0) dims ->
  hyperslab_coords dims (prod dims) = hd 0 dims :: repeat 0 (length dims - 1) /\
  hyperslab_index dims (hyperslab_coords dims (prod dims)) = prod dims.
Proof. exact hyperslab_inverse_end. Qed.
Print Assumptions C18_hyperslab_inverse_end.

Theorem C18_ragged_right_bijective : forall offsets, 2 <= length offsets -> offsets_mono offsets ->
  (forall a b, a + 1 < length offsets -> b < off offsets (a + 1) - off offsets a ->
     ragged_coords offsets (ragged_index offsets (a, b)) = (a, b)) /\
  (forall index, off offsets 0 <= index -> index < off offsets (length offsets - 1) ->
     let c := ragged_coords offsets index in
     fst c + 1 < length offsets /\ snd c < off offsets (fst c + 1) - off offsets (fst c) /\
     ragged_index offsets c = index).
Proof. exact ragged_right_bijective. Qed.
Print Assumptions C18_ragged_right_bijective.

(** ** scalar helpers of Algorithms.hh: integers (Z, unsigned wrap-around explicit) *)
Theorem C18_all_any_spec : forall (A : Type) (p : A -> bool) (l : list A),
  all_of p l = forallb p l /\ any_of p l = existsb p l.
Proof. exact all_any_spec. Qed.
Print Assumptions C18_all_any_spec.

Theorem C18_all_adjacent_spec : forall (A : Type) (d : A) (p : A -> A -> bool) (l : list A),
  all_adjacent p l = true <-> (forall i, S i < length l -> p (nth i l d) (nth (S i) l d) = true).
Proof. exact all_adjacent_spec. Qed.
Print Assumptions C18_all_adjacent_spec.

Theorem C18_imin_imax_spec : forall a b : Z, m_imin a b = Z.min a b /\ m_imax a b = Z.max a b.
Proof. exact imin_imax_spec. Qed.
Print Assumptions C18_imin_imax_spec.

Theorem C18_iclamp_spec : forall v lo hi : Z, (lo <= hi)%Z ->
  m_iclamp v lo hi = Z.min hi (Z.max lo v) /\ (lo <= m_iclamp v lo hi <= hi)%Z.
Proof. exact iclamp_spec. Qed.
Print Assumptions C18_iclamp_spec.

Theorem C18_isignum_spec : forall x : Z, m_isignum x = Z.sgn x.
Proof. exact isignum_spec. Qed.
Print Assumptions C18_isignum_spec.

Theorem C18_fma_u_spec : forall w a b y, (0 <= a)%Z -> (0 <= b)%Z -> (0 <= y)%Z ->
  ((a * b + y < 2 ^ w)%Z -> m_fma_u w a b y = (a * b + y)%Z) /\
  ((0 < w)%Z -> (0 <= m_fma_u w a b y < 2 ^ w)%Z).
Proof. exact fma_u_spec. Qed.
Print Assumptions C18_fma_u_spec.

Theorem C18_negate_u_spec : forall w v, (0 < w)%Z -> (0 <= v < 2 ^ w)%Z ->
  m_negate_u w v = (if (v =? 0)%Z then 0 else 2 ^ w - v)%Z /\ m_negate_u w (m_negate_u w v) = v.
Proof. exact negate_u_spec. Qed.
Print Assumptions C18_negate_u_spec.

Theorem C18_diffsq_u_spec : forall w a b, (0 < w)%Z -> m_diffsq_u w a b = ((a * a - b * b) mod 2 ^ w)%Z.
Proof. exact diffsq_u_spec. Qed.
Print Assumptions C18_diffsq_u_spec.

(** ceil_div in a w-bit unsigned type is the exact ceiling for EVERY representable top (no
    overflow near 2^w - 1, unlike (top + bottom - 1) / bottom) *)
Theorem C18_ceil_div_u_spec : forall w top bottom, (0 <= top < 2 ^ w)%Z -> (1 <= bottom)%Z ->
  m_ceil_div_u w top bottom = Z.of_nat (ceil_div (Z.to_nat top) (Z.to_nat bottom)) /\
  (m_ceil_div_u w top bottom <= top)%Z.
Proof. exact ceil_div_u_spec. Qed.
Print Assumptions C18_ceil_div_u_spec.

Theorem C18_ipow_u_spec : forall w n v, (0 < w)%Z ->
  ipow (1 mod 2 ^ w)%Z (mul_u w) n v = ((v ^ Z.of_nat n) mod 2 ^ w)%Z.
Proof. exact ipow_u_spec. Qed.
Print Assumptions C18_ipow_u_spec.

(** binary64 facts (PrimFloat): negate never returns -0; min/max ignore NaN; signum(NaN) = 0 *)
Theorem C18_negate_no_signed_zero :
  FloatOps.Prim2SF (m_negate PrimFloat.zero) = SpecFloat.S754_zero false /\
  FloatOps.Prim2SF (m_negate PrimFloat.neg_zero) = SpecFloat.S754_zero false /\
  FloatOps.Prim2SF (PrimFloat.opp PrimFloat.zero) = SpecFloat.S754_zero true.
Proof. exact negate_no_signed_zero. Qed.
Print Assumptions C18_negate_no_signed_zero.

Theorem C18_fmin_fmax_nan : forall x : PrimFloat.float,
  (m_fmin PrimFloat.nan x = x /\ m_fmax PrimFloat.nan x = x) /\
  (PrimFloat.eqb x x = true -> m_fmin x PrimFloat.nan = x /\ m_fmax x PrimFloat.nan = x).
Proof. exact fmin_fmax_nan. Qed.
Print Assumptions C18_fmin_fmax_nan.

Theorem C18_signum_clamp_nan :
  m_signum PrimFloat.nan = 0%Z /\ PrimFloat.is_nan (m_clamp_to_nonneg PrimFloat.nan) = true /\
  m_signum PrimFloat.neg_zero = 0%Z /\ m_signum PrimFloat.neg_infinity = (-1)%Z /\
  m_signum PrimFloat.infinity = 1%Z.
Proof. exact signum_clamp_nan. Qed.
Print Assumptions C18_signum_clamp_nan.

(** in binary64 eumod can return denom itself (r + denom rounds up), outside [0, |denom|) *)
Theorem C18_eumod_rounds_to_denom_refuted : exists r d : PrimFloat.float,
  PrimFloat.ltb r PrimFloat.zero = true /\ PrimFloat.ltb PrimFloat.zero d = true /\
  PrimFloat.ltb (PrimFloat.opp d) r = true /\ m_eumod_r r d = d.
Proof. exact eumod_rounds_to_denom_refuted. Qed.
Print Assumptions C18_eumod_rounds_to_denom_refuted.

(** ** grids (instance R of coq/C18/Grids.v) *)
Local Open Scope R_scope.

Theorem C18_uniform_find : forall g v, ug_valid g -> ug_front g <= v < ug_back g ->
  let i := ug_find g v in
  (0 <= i)%Z /\ (i + 1 < ug_size g)%Z /\ ug_at g i <= v < ug_at g (i + 1).
Proof. exact ug_find_spec. Qed.
Print Assumptions C18_uniform_find.

(** the index law bin + 1 < size of the CURRENT UniformGrid::find (with the
    step back of commit e0c3783) for any monotone rounding with relative error
    u at the grid spacing and at the top quotient (binary64: u = 2^-53,
    size <= 2^52, no underflow) *)
Theorem C18_uniform_find_rounded_in_range : forall (rnd : R -> R) (u : R),
  0 <= u -> (forall x y, x <= y -> rnd x <= rnd y) -> rnd 0 = 0 ->
  forall front back size v,
  (2 <= size)%Z -> 2 * IZR size * u < 1 -> front <= v < back ->
  let D := rnd (back - front) in
  let delta := rnd (D / IZR (size - 1)) in
  0 < D -> (D / IZR (size - 1)) * (1 - u) <= delta ->
  rnd (D / delta) <= (D / delta) * (1 + u) ->
  let bin := rfind rnd front back size v in
  (0 <= bin)%Z /\ (bin + 1 < size)%Z.
Proof. exact rfind_in_range. Qed.
Print Assumptions C18_uniform_find_rounded_in_range.

(** ... and for IEEE-754 binary64 itself: [rnd64] is Flocq's round-to-nearest-even
    onto the binary64 format (FLT_exp (-1074) 53), i.e. the value every
    non-overflowing binary64 -, / returns; [rfind rnd64] is UniformGrid::find
    (with from_bounds' delta) evaluated with those roundings.  Holds for every
    grid of 2 .. 2^52-1 points whose spacing is not subnormal. *)
Theorem C18_uniform_find_binary64_in_range : forall front back size v,
  (2 <= size < 4503599627370496)%Z -> front <= v < back ->
  Raux.bpow Zaux.radix2 (-1022) <= rnd64 (back - front) / IZR (size - 1) ->
  let bin := rfind rnd64 front back size v in
  (0 <= bin)%Z /\ (bin + 1 < size)%Z.
Proof. exact find_bin_float_in_range. Qed.
Print Assumptions C18_uniform_find_binary64_in_range.

(** without the step back the law fails on binary64 (finding F3, repaired) *)
Theorem C18_uniform_find_raw_refuted : exists (front back : PrimFloat.float) (size : Z) (v : PrimFloat.float),
  PrimFloat.leb front v = true /\ PrimFloat.ltb v back = true /\
  (ug_find_raw (ug_from_bounds front back size) v + 1 = size)%Z /\
  (ug_find (ug_from_bounds front back size) v + 1 < size)%Z.
Proof. exact uniform_find_raw_refuted. Qed.
Print Assumptions C18_uniform_find_raw_refuted.

Theorem C18_nonuniform_find_spec : forall (g : list R) v, increasing g -> (2 <= length g)%nat ->
  get 0 g 0 <= v < get 0 g (length g - 1) ->
  let i := nu_find g v in
  (i + 1 < length g)%nat /\ get 0 g i <= v < get 0 g (i + 1).
Proof. exact nu_find_spec. Qed.
Print Assumptions C18_nonuniform_find_spec.

Theorem C18_find_interp_fraction : forall (g : list R) v, increasing g -> (2 <= length g)%nat ->
  get 0 g 0 <= v < get 0 g (length g - 1) ->
  let r := find_interp_n g v in
  (fst r + 1 < length g)%nat /\ 0 <= snd r < 1 /\
  v = get 0 g (fst r) + snd r * (get 0 g (fst r + 1) - get 0 g (fst r)).
Proof. exact find_interp_n_fraction. Qed.
Print Assumptions C18_find_interp_fraction.

Theorem C18_find_interp_uniform_fraction : forall g v, ug_valid g -> ug_front g <= v < ug_back g ->
  let r := find_interp_u g v in
  (0 <= fst r)%Z /\ (fst r + 1 < ug_size g)%Z /\ 0 <= snd r < 1.
Proof. exact find_interp_u_fraction. Qed.
Print Assumptions C18_find_interp_uniform_fraction.

Theorem C18_lin_interp_between : forall xl yl xr yr x : R, xl < xr -> xl <= x <= xr ->
  lin_interp xl yl xr yr xl = yl /\ lin_interp xl yl xr yr xr = yr /\
  Rmin yl yr <= lin_interp xl yl xr yr x <= Rmax yl yr.
Proof. exact lin_interp_spec. Qed.
Print Assumptions C18_lin_interp_between.

Theorem C18_twod_bilinear_at_nodes : forall (xs ys vals : list R) i j,
  increasing xs -> increasing ys -> (i + 1 < length xs)%nat -> (j + 1 < length ys)%nat ->
  twod xs ys vals (get 0 xs i) (get 0 ys j) = get 0 vals (i * length ys + j).
Proof. exact twod_at_nodes. Qed.
Print Assumptions C18_twod_bilinear_at_nodes.

(** ** scalar helpers of Algorithms.hh over R *)
Theorem C18_clamp_spec : forall v lo hi : R, clamp_pre lo hi = true ->
  lo <= m_clamp v lo hi <= hi /\ (lo <= v <= hi -> m_clamp v lo hi = v) /\
  m_clamp v lo hi = Rmin hi (Rmax lo v).
Proof. exact clamp_spec. Qed.
Print Assumptions C18_clamp_spec.

Theorem C18_clamp_to_nonneg_spec : forall v : R,
  m_clamp_to_nonneg v = Rmax 0 v /\ 0 <= m_clamp_to_nonneg v.
Proof. exact clamp_to_nonneg_spec. Qed.
Print Assumptions C18_clamp_to_nonneg_spec.

Theorem C18_fmin_fmax_spec : forall a b : R, m_fmin a b = Rmin a b /\ m_fmax a b = Rmax a b.
Proof. exact fmin_fmax_spec. Qed.
Print Assumptions C18_fmin_fmax_spec.

Theorem C18_fastpow_spec : forall a b : R, 0 < a ->
  fastpow_pre a b = true /\ m_fastpow a b = Rpower a b /\
  (forall n : nat, m_fastpow a (INR n) = a ^ n).
Proof. exact fastpow_spec. Qed.
Print Assumptions C18_fastpow_spec.

Theorem C18_negate_spec : forall v : R,
  m_negate v = - v /\ m_negate (m_negate v) = v /\ m_negate 0 = 0.
Proof. exact negate_spec. Qed.
Print Assumptions C18_negate_spec.

Theorem C18_diffsq_spec : forall a b : R, m_diffsq a b = a * a - b * b.
Proof. exact diffsq_spec. Qed.
Print Assumptions C18_diffsq_spec.

Theorem C18_signum_spec : forall x : R,
  (m_signum x = 1%Z <-> 0 < x) /\ (m_signum x = 0%Z <-> x = 0) /\ (m_signum x = (-1)%Z <-> x < 0) /\
  x = IZR (m_signum x) * Rabs x.
Proof. exact signum_spec. Qed.
Print Assumptions C18_signum_spec.

Theorem C18_rsqrt_spec : forall x : R, 0 < x ->
  m_rsqrt x = / sqrt x /\ 0 < m_rsqrt x /\ m_rsqrt x * m_rsqrt x * x = 1.
Proof. exact rsqrt_spec. Qed.
Print Assumptions C18_rsqrt_spec.

(** eumod with the exact fmod: result in [0, |denom|) and congruent to numer modulo denom *)
Theorem C18_eumod_spec : forall numer denom : R, denom <> 0 ->
  let r := m_eumod Rfmod numer denom in
  0 <= r < Rabs denom /\ exists k : Z, numer = r + IZR k * denom.
Proof. exact eumod_spec. Qed.
Print Assumptions C18_eumod_spec.
