(** * C18 property theorems — statements only; proofs live in coq/C18/*Proofs.v.
    Each theorem is closed by [exact] and followed by [Print Assumptions]. *)
From Coq Require Import List Arith Bool ZArith Reals Permutation.
From Celer Require Import C18.Algorithms C18.Specs C18.ArrayLemmas C18.SearchProofs C18.IntProofs.
Import ListNotations.

(** std::lower_bound semantics, for every strict weak order and sorted list *)
Theorem C18_lower_bound_spec : forall (A : Type) (d : A) (cmp : A -> A -> bool),
  strict_weak_order cmp -> forall l v, sorted cmp d l ->
  let k := lower_bound d cmp l v in
  k <= length l /\ (forall i, i < k -> cmp (get d l i) v = true) /\
  (forall i, k <= i -> i < length l -> cmp (get d l i) v = false).
Proof. exact (@lower_bound_spec). Qed.
Print Assumptions C18_lower_bound_spec.

Theorem C18_upper_bound_spec : forall (A : Type) (d : A) (cmp : A -> A -> bool),
  strict_weak_order cmp -> forall l v, sorted cmp d l ->
  let k := upper_bound d cmp l v in
  k <= length l /\ (forall i, i < k -> cmp v (get d l i) = false) /\
  (forall i, k <= i -> i < length l -> cmp v (get d l i) = true).
Proof. exact (@upper_bound_spec). Qed.
Print Assumptions C18_upper_bound_spec.

Theorem C18_lower_bound_linear_eq : forall (A : Type) (d : A) (cmp : A -> A -> bool),
  strict_weak_order cmp -> forall l v, sorted cmp d l ->
  lower_bound_linear cmp l v = lower_bound d cmp l v.
Proof. exact (@lower_bound_linear_eq). Qed.
Print Assumptions C18_lower_bound_linear_eq.

Theorem C18_find_sorted_spec : forall (A : Type) (d : A) (cmp : A -> A -> bool),
  strict_weak_order cmp -> forall l v, sorted cmp d l ->
  let r := find_sorted d cmp l v in
  (r < length l /\ equiv cmp (get d l r) v /\ forall i, i < r -> ~ equiv cmp (get d l i) v)
  \/ (r = length l /\ forall i, i < length l -> ~ equiv cmp (get d l i) v).
Proof. exact (@find_sorted_spec). Qed.
Print Assumptions C18_find_sorted_spec.

Theorem C18_min_element_first_min : forall (A : Type) (d : A) (cmp : A -> A -> bool),
  strict_weak_order cmp -> forall l, l <> [] ->
  let r := min_element cmp l in
  r < length l /\ (forall j, j < length l -> cmp (get d l j) (get d l r) = false) /\
  (forall j, j < r -> cmp (get d l r) (get d l j) = true).
Proof. exact (@min_element_first_min). Qed.
Print Assumptions C18_min_element_first_min.

Theorem C18_partition_spec : forall (A : Type) (d : A) (p : A -> bool) (l : list A),
  let r := partition d p l in
  Permutation l (fst r) /\ snd r = count p l /\ snd r <= length l /\
  (forall i, i < snd r -> p (get d (fst r) i) = true) /\
  (forall i, snd r <= i -> i < length l -> p (get d (fst r) i) = false).
Proof. exact (@partition_spec). Qed.
Print Assumptions C18_partition_spec.

Theorem C18_ceil_div_spec : forall top bottom, 0 < bottom ->
  let q := ceil_div top bottom in
  top <= q * bottom /\ (forall q', top <= q' * bottom -> q <= q').
Proof. exact ceil_div_spec. Qed.
Print Assumptions C18_ceil_div_spec.

Theorem C18_local_work_total : forall t w, 0 < w -> sum_upto (local_work t w) w = t.
Proof. exact local_work_total. Qed.
Print Assumptions C18_local_work_total.

Theorem C18_ipow_spec : forall n,
  (forall v : Z, ipow 1%Z Z.mul n v = (v ^ Z.of_nat n)%Z) /\
  (forall v : R, ipow 1%R Rmult n v = pow v n).
Proof. intro n; split; [exact (ipow_spec_Z n) | exact (ipow_spec_R n)]. Qed.
Print Assumptions C18_ipow_spec.
