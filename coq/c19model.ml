
(** val negb : bool -> bool **)

let negb = function
| true -> false
| false -> true

type nat =
| O
| S of nat

(** val option_map : ('a1 -> 'a2) -> 'a1 option -> 'a2 option **)

let option_map f = function
| Some a -> Some (f a)
| None -> None

(** val fst : ('a1 * 'a2) -> 'a1 **)

let fst = function
| (x, _) -> x

(** val snd : ('a1 * 'a2) -> 'a2 **)

let snd = function
| (_, y) -> y

(** val length : 'a1 list -> nat **)

let rec length = function
| [] -> O
| _ :: l' -> S (length l')

(** val app : 'a1 list -> 'a1 list -> 'a1 list **)

let rec app l m =
  match l with
  | [] -> m
  | a :: l1 -> a :: (app l1 m)

type comparison =
| Eq
| Lt
| Gt

(** val compOpp : comparison -> comparison **)

let compOpp = function
| Eq -> Eq
| Lt -> Gt
| Gt -> Lt

module Coq__1 = struct
 (** val add : nat -> nat -> nat **)
 let rec add n0 m =
   match n0 with
   | O -> m
   | S p -> S (add p m)
end
include Coq__1

(** val mul : nat -> nat -> nat **)

let rec mul n0 m =
  match n0 with
  | O -> O
  | S p -> add m (mul p m)

type positive =
| XI of positive
| XO of positive
| XH

type n =
| N0
| Npos of positive

type z =
| Z0
| Zpos of positive
| Zneg of positive

(** val eqb : bool -> bool -> bool **)

let eqb b1 b2 =
  if b1 then b2 else if b2 then false else true

module Nat =
 struct
  (** val eqb : nat -> nat -> bool **)

  let rec eqb n0 m =
    match n0 with
    | O -> (match m with
            | O -> true
            | S _ -> false)
    | S n' -> (match m with
               | O -> false
               | S m' -> eqb n' m')

  (** val leb : nat -> nat -> bool **)

  let rec leb n0 m =
    match n0 with
    | O -> true
    | S n' -> (match m with
               | O -> false
               | S m' -> leb n' m')

  (** val ltb : nat -> nat -> bool **)

  let ltb n0 m =
    leb (S n0) m
 end

module Pos =
 struct
  (** val succ : positive -> positive **)

  let rec succ = function
  | XI p -> XO (succ p)
  | XO p -> XI p
  | XH -> XO XH

  (** val add : positive -> positive -> positive **)

  let rec add x y =
    match x with
    | XI p ->
      (match y with
       | XI q -> XO (add_carry p q)
       | XO q -> XI (add p q)
       | XH -> XO (succ p))
    | XO p ->
      (match y with
       | XI q -> XI (add p q)
       | XO q -> XO (add p q)
       | XH -> XI p)
    | XH -> (match y with
             | XI q -> XO (succ q)
             | XO q -> XI q
             | XH -> XO XH)

  (** val add_carry : positive -> positive -> positive **)

  and add_carry x y =
    match x with
    | XI p ->
      (match y with
       | XI q -> XI (add_carry p q)
       | XO q -> XO (add_carry p q)
       | XH -> XI (succ p))
    | XO p ->
      (match y with
       | XI q -> XO (add_carry p q)
       | XO q -> XI (add p q)
       | XH -> XO (succ p))
    | XH ->
      (match y with
       | XI q -> XI (succ q)
       | XO q -> XO (succ q)
       | XH -> XI XH)

  (** val pred_double : positive -> positive **)

  let rec pred_double = function
  | XI p -> XI (XO p)
  | XO p -> XI (pred_double p)
  | XH -> XH

  (** val mul : positive -> positive -> positive **)

  let rec mul x y =
    match x with
    | XI p -> add y (XO (mul p y))
    | XO p -> XO (mul p y)
    | XH -> y

  (** val compare_cont : comparison -> positive -> positive -> comparison **)

  let rec compare_cont r x y =
    match x with
    | XI p ->
      (match y with
       | XI q -> compare_cont r p q
       | XO q -> compare_cont Gt p q
       | XH -> Gt)
    | XO p ->
      (match y with
       | XI q -> compare_cont Lt p q
       | XO q -> compare_cont r p q
       | XH -> Gt)
    | XH -> (match y with
             | XH -> r
             | _ -> Lt)

  (** val compare : positive -> positive -> comparison **)

  let compare =
    compare_cont Eq

  (** val eqb : positive -> positive -> bool **)

  let rec eqb p q =
    match p with
    | XI p0 -> (match q with
                | XI q0 -> eqb p0 q0
                | _ -> false)
    | XO p0 -> (match q with
                | XO q0 -> eqb p0 q0
                | _ -> false)
    | XH -> (match q with
             | XH -> true
             | _ -> false)

  (** val iter_op : ('a1 -> 'a1 -> 'a1) -> positive -> 'a1 -> 'a1 **)

  let rec iter_op op p a =
    match p with
    | XI p0 -> op a (iter_op op p0 (op a a))
    | XO p0 -> iter_op op p0 (op a a)
    | XH -> a

  (** val to_nat : positive -> nat **)

  let to_nat x =
    iter_op Coq__1.add x (S O)

  (** val of_succ_nat : nat -> positive **)

  let rec of_succ_nat = function
  | O -> XH
  | S x -> succ (of_succ_nat x)
 end

module N =
 struct
  (** val add : n -> n -> n **)

  let add n0 m =
    match n0 with
    | N0 -> m
    | Npos p -> (match m with
                 | N0 -> n0
                 | Npos q -> Npos (Pos.add p q))

  (** val mul : n -> n -> n **)

  let mul n0 m =
    match n0 with
    | N0 -> N0
    | Npos p -> (match m with
                 | N0 -> N0
                 | Npos q -> Npos (Pos.mul p q))

  (** val to_nat : n -> nat **)

  let to_nat = function
  | N0 -> O
  | Npos p -> Pos.to_nat p

  (** val of_nat : nat -> n **)

  let of_nat = function
  | O -> N0
  | S n' -> Npos (Pos.of_succ_nat n')
 end

module Z =
 struct
  (** val double : z -> z **)

  let double = function
  | Z0 -> Z0
  | Zpos p -> Zpos (XO p)
  | Zneg p -> Zneg (XO p)

  (** val succ_double : z -> z **)

  let succ_double = function
  | Z0 -> Zpos XH
  | Zpos p -> Zpos (XI p)
  | Zneg p -> Zneg (Pos.pred_double p)

  (** val pred_double : z -> z **)

  let pred_double = function
  | Z0 -> Zneg XH
  | Zpos p -> Zpos (Pos.pred_double p)
  | Zneg p -> Zneg (XI p)

  (** val pos_sub : positive -> positive -> z **)

  let rec pos_sub x y =
    match x with
    | XI p ->
      (match y with
       | XI q -> double (pos_sub p q)
       | XO q -> succ_double (pos_sub p q)
       | XH -> Zpos (XO p))
    | XO p ->
      (match y with
       | XI q -> pred_double (pos_sub p q)
       | XO q -> double (pos_sub p q)
       | XH -> Zpos (Pos.pred_double p))
    | XH ->
      (match y with
       | XI q -> Zneg (XO q)
       | XO q -> Zneg (Pos.pred_double q)
       | XH -> Z0)

  (** val add : z -> z -> z **)

  let add x y =
    match x with
    | Z0 -> y
    | Zpos x' ->
      (match y with
       | Z0 -> x
       | Zpos y' -> Zpos (Pos.add x' y')
       | Zneg y' -> pos_sub x' y')
    | Zneg x' ->
      (match y with
       | Z0 -> x
       | Zpos y' -> pos_sub y' x'
       | Zneg y' -> Zneg (Pos.add x' y'))

  (** val opp : z -> z **)

  let opp = function
  | Z0 -> Z0
  | Zpos x0 -> Zneg x0
  | Zneg x0 -> Zpos x0

  (** val sub : z -> z -> z **)

  let sub m n0 =
    add m (opp n0)

  (** val mul : z -> z -> z **)

  let mul x y =
    match x with
    | Z0 -> Z0
    | Zpos x' ->
      (match y with
       | Z0 -> Z0
       | Zpos y' -> Zpos (Pos.mul x' y')
       | Zneg y' -> Zneg (Pos.mul x' y'))
    | Zneg x' ->
      (match y with
       | Z0 -> Z0
       | Zpos y' -> Zneg (Pos.mul x' y')
       | Zneg y' -> Zpos (Pos.mul x' y'))

  (** val compare : z -> z -> comparison **)

  let compare x y =
    match x with
    | Z0 -> (match y with
             | Z0 -> Eq
             | Zpos _ -> Lt
             | Zneg _ -> Gt)
    | Zpos x' -> (match y with
                  | Zpos y' -> Pos.compare x' y'
                  | _ -> Gt)
    | Zneg x' ->
      (match y with
       | Zneg y' -> compOpp (Pos.compare x' y')
       | _ -> Lt)

  (** val leb : z -> z -> bool **)

  let leb x y =
    match compare x y with
    | Gt -> false
    | _ -> true

  (** val ltb : z -> z -> bool **)

  let ltb x y =
    match compare x y with
    | Lt -> true
    | _ -> false

  (** val eqb : z -> z -> bool **)

  let eqb x y =
    match x with
    | Z0 -> (match y with
             | Z0 -> true
             | _ -> false)
    | Zpos p -> (match y with
                 | Zpos q -> Pos.eqb p q
                 | _ -> false)
    | Zneg p -> (match y with
                 | Zneg q -> Pos.eqb p q
                 | _ -> false)

  (** val to_nat : z -> nat **)

  let to_nat = function
  | Zpos p -> Pos.to_nat p
  | _ -> O

  (** val of_nat : nat -> z **)

  let of_nat = function
  | O -> Z0
  | S n1 -> Zpos (Pos.of_succ_nat n1)

  (** val pos_div_eucl : positive -> z -> z * z **)

  let rec pos_div_eucl a b =
    match a with
    | XI a' ->
      let (q, r) = pos_div_eucl a' b in
      let r' = add (mul (Zpos (XO XH)) r) (Zpos XH) in
      if ltb r' b
      then ((mul (Zpos (XO XH)) q), r')
      else ((add (mul (Zpos (XO XH)) q) (Zpos XH)), (sub r' b))
    | XO a' ->
      let (q, r) = pos_div_eucl a' b in
      let r' = mul (Zpos (XO XH)) r in
      if ltb r' b
      then ((mul (Zpos (XO XH)) q), r')
      else ((add (mul (Zpos (XO XH)) q) (Zpos XH)), (sub r' b))
    | XH -> if leb (Zpos (XO XH)) b then (Z0, (Zpos XH)) else ((Zpos XH), Z0)

  (** val div_eucl : z -> z -> z * z **)

  let div_eucl a b =
    match a with
    | Z0 -> (Z0, Z0)
    | Zpos a' ->
      (match b with
       | Z0 -> (Z0, a)
       | Zpos _ -> pos_div_eucl a' b
       | Zneg b' ->
         let (q, r) = pos_div_eucl a' (Zpos b') in
         (match r with
          | Z0 -> ((opp q), Z0)
          | _ -> ((opp (add q (Zpos XH))), (add b r))))
    | Zneg a' ->
      (match b with
       | Z0 -> (Z0, a)
       | Zpos _ ->
         let (q, r) = pos_div_eucl a' b in
         (match r with
          | Z0 -> ((opp q), Z0)
          | _ -> ((opp (add q (Zpos XH))), (sub b r)))
       | Zneg b' -> let (q, r) = pos_div_eucl a' (Zpos b') in (q, (opp r)))

  (** val div : z -> z -> z **)

  let div a b =
    let (q, _) = div_eucl a b in q

  (** val modulo : z -> z -> z **)

  let modulo a b =
    let (_, r) = div_eucl a b in r
 end

(** val concat : 'a1 list list -> 'a1 list **)

let rec concat = function
| [] -> []
| x :: l0 -> app x (concat l0)

(** val map : ('a1 -> 'a2) -> 'a1 list -> 'a2 list **)

let rec map f = function
| [] -> []
| a :: t -> (f a) :: (map f t)

(** val fold_left : ('a1 -> 'a2 -> 'a1) -> 'a2 list -> 'a1 -> 'a1 **)

let rec fold_left f l a0 =
  match l with
  | [] -> a0
  | b :: t -> fold_left f t (f a0 b)

(** val existsb : ('a1 -> bool) -> 'a1 list -> bool **)

let rec existsb f = function
| [] -> false
| a :: l0 -> (||) (f a) (existsb f l0)

(** val forallb : ('a1 -> bool) -> 'a1 list -> bool **)

let rec forallb f = function
| [] -> true
| a :: l0 -> (&&) (f a) (forallb f l0)

(** val combine : 'a1 list -> 'a2 list -> ('a1 * 'a2) list **)

let rec combine l l' =
  match l with
  | [] -> []
  | x :: tl ->
    (match l' with
     | [] -> []
     | y :: tl' -> (x, y) :: (combine tl tl'))

(** val firstn : nat -> 'a1 list -> 'a1 list **)

let rec firstn n0 l =
  match n0 with
  | O -> []
  | S n1 -> (match l with
             | [] -> []
             | a :: l0 -> a :: (firstn n1 l0))

(** val skipn : nat -> 'a1 list -> 'a1 list **)

let rec skipn n0 l =
  match n0 with
  | O -> l
  | S n1 -> (match l with
             | [] -> []
             | _ :: l0 -> skipn n1 l0)

(** val repeat : 'a1 -> nat -> 'a1 list **)

let rec repeat x = function
| O -> []
| S k -> x :: (repeat x k)

type ascii =
| Ascii of bool * bool * bool * bool * bool * bool * bool * bool

(** val zero : ascii **)

let zero =
  Ascii (false, false, false, false, false, false, false, false)

(** val one : ascii **)

let one =
  Ascii (true, false, false, false, false, false, false, false)

(** val shift : bool -> ascii -> ascii **)

let shift c = function
| Ascii (a1, a2, a3, a4, a5, a6, a7, _) ->
  Ascii (c, a1, a2, a3, a4, a5, a6, a7)

(** val eqb0 : ascii -> ascii -> bool **)

let eqb0 a b =
  let Ascii (a0, a1, a2, a3, a4, a5, a6, a7) = a in
  let Ascii (b0, b1, b2, b3, b4, b5, b6, b7) = b in
  if if if if if if if eqb a0 b0 then eqb a1 b1 else false
                 then eqb a2 b2
                 else false
              then eqb a3 b3
              else false
           then eqb a4 b4
           else false
        then eqb a5 b5
        else false
     then eqb a6 b6
     else false
  then eqb a7 b7
  else false

(** val ascii_of_pos : positive -> ascii **)

let ascii_of_pos =
  let rec loop n0 p =
    match n0 with
    | O -> zero
    | S n' ->
      (match p with
       | XI p' -> shift true (loop n' p')
       | XO p' -> shift false (loop n' p')
       | XH -> one)
  in loop (S (S (S (S (S (S (S (S O))))))))

(** val ascii_of_N : n -> ascii **)

let ascii_of_N = function
| N0 -> zero
| Npos p -> ascii_of_pos p

(** val ascii_of_nat : nat -> ascii **)

let ascii_of_nat a =
  ascii_of_N (N.of_nat a)

(** val n_of_digits : bool list -> n **)

let rec n_of_digits = function
| [] -> N0
| b :: l' ->
  N.add (if b then Npos XH else N0) (N.mul (Npos (XO XH)) (n_of_digits l'))

(** val n_of_ascii : ascii -> n **)

let n_of_ascii = function
| Ascii (a0, a1, a2, a3, a4, a5, a6, a7) ->
  n_of_digits
    (a0 :: (a1 :: (a2 :: (a3 :: (a4 :: (a5 :: (a6 :: (a7 :: []))))))))

(** val nat_of_ascii : ascii -> nat **)

let nat_of_ascii a =
  N.to_nat (n_of_ascii a)

type string =
| EmptyString
| String of ascii * string

(** val eqb1 : string -> string -> bool **)

let rec eqb1 s1 s2 =
  match s1 with
  | EmptyString ->
    (match s2 with
     | EmptyString -> true
     | String (_, _) -> false)
  | String (c1, s1') ->
    (match s2 with
     | EmptyString -> false
     | String (c2, s2') -> if eqb0 c1 c2 then eqb1 s1' s2' else false)

(** val append : string -> string -> string **)

let rec append s1 s2 =
  match s1 with
  | EmptyString -> s2
  | String (c, s1') -> String (c, (append s1' s2))

type flt = z

(** val sIGNBIT : z **)

let sIGNBIT =
  Zpos (XO (XO (XO (XO (XO (XO (XO (XO (XO (XO (XO (XO (XO (XO (XO (XO (XO
    (XO (XO (XO (XO (XO (XO (XO (XO (XO (XO (XO (XO (XO (XO (XO (XO (XO (XO
    (XO (XO (XO (XO (XO (XO (XO (XO (XO (XO (XO (XO (XO (XO (XO (XO (XO (XO
    (XO (XO (XO (XO (XO (XO (XO (XO (XO (XO
    XH)))))))))))))))))))))))))))))))))))))))))))))))))))))))))))))))

(** val f_INF : z **)

let f_INF =
  Zpos (XO (XO (XO (XO (XO (XO (XO (XO (XO (XO (XO (XO (XO (XO (XO (XO (XO
    (XO (XO (XO (XO (XO (XO (XO (XO (XO (XO (XO (XO (XO (XO (XO (XO (XO (XO
    (XO (XO (XO (XO (XO (XO (XO (XO (XO (XO (XO (XO (XO (XO (XO (XO (XO (XI
    (XI (XI (XI (XI (XI (XI (XI (XI (XI
    XH))))))))))))))))))))))))))))))))))))))))))))))))))))))))))))))

(** val f_MAX : z **)

let f_MAX =
  Zpos (XI (XI (XI (XI (XI (XI (XI (XI (XI (XI (XI (XI (XI (XI (XI (XI (XI
    (XI (XI (XI (XI (XI (XI (XI (XI (XI (XI (XI (XI (XI (XI (XI (XI (XI (XI
    (XI (XI (XI (XI (XI (XI (XI (XI (XI (XI (XI (XI (XI (XI (XI (XI (XI (XO
    (XI (XI (XI (XI (XI (XI (XI (XI (XI
    XH))))))))))))))))))))))))))))))))))))))))))))))))))))))))))))))

(** val f_ONE : z **)

let f_ONE =
  Zpos (XO (XO (XO (XO (XO (XO (XO (XO (XO (XO (XO (XO (XO (XO (XO (XO (XO
    (XO (XO (XO (XO (XO (XO (XO (XO (XO (XO (XO (XO (XO (XO (XO (XO (XO (XO
    (XO (XO (XO (XO (XO (XO (XO (XO (XO (XO (XO (XO (XO (XO (XO (XO (XO (XI
    (XI (XI (XI (XI (XI (XI (XI (XI
    XH)))))))))))))))))))))))))))))))))))))))))))))))))))))))))))))

(** val f_ZERO : z **)

let f_ZERO =
  Z0

(** val f_NINF : z **)

let f_NINF =
  Z.add sIGNBIT f_INF

(** val valid_fltb : flt -> bool **)

let valid_fltb b =
  (&&) (Z.leb Z0 b) (Z.ltb b (Z.mul (Zpos (XO XH)) sIGNBIT))

(** val fmag : flt -> z **)

let fmag b =
  Z.modulo b sIGNBIT

(** val fsign : flt -> z **)

let fsign b =
  Z.div b sIGNBIT

(** val is_nan : flt -> bool **)

let is_nan b =
  Z.ltb f_INF (fmag b)

(** val is_inf : flt -> bool **)

let is_inf b =
  Z.eqb (fmag b) f_INF

(** val is_max : flt -> bool **)

let is_max b =
  Z.eqb (fmag b) f_MAX

(** val is_zero : flt -> bool **)

let is_zero b =
  Z.eqb (fmag b) Z0

(** val copysign : z -> flt -> flt **)

let copysign m b =
  Z.add m (Z.mul (fsign b) sIGNBIT)

(** val is_finite : flt -> bool **)

let is_finite b =
  Z.ltb (fmag b) f_INF

(** val fkey : flt -> z **)

let fkey b =
  if Z.eqb (fsign b) Z0 then fmag b else Z.opp (fmag b)

(** val feqb : flt -> flt -> bool **)

let feqb a b =
  (&&) ((&&) (negb (is_nan a)) (negb (is_nan b))) (Z.eqb (fkey a) (fkey b))

(** val fleb : flt -> flt -> bool **)

let fleb a b =
  (&&) ((&&) (negb (is_nan a)) (negb (is_nan b))) (Z.leb (fkey a) (fkey b))

(** val fltb : flt -> flt -> bool **)

let fltb a b =
  (&&) ((&&) (negb (is_nan a)) (negb (is_nan b))) (Z.ltb (fkey a) (fkey b))

type json =
| JNull
| JBool of bool
| JInt of z
| JFlt of flt
| JStr of string
| JArr of json list
| JObj of (string * json) list

(** val jfind : string -> (string * json) list -> json option **)

let rec jfind k = function
| [] -> None
| p :: r -> let (k', v) = p in if eqb1 k k' then Some v else jfind k r

(** val jget : string -> json -> json option **)

let jget k = function
| JObj m -> jfind k m
| _ -> None

(** val jcontains : string -> json -> bool **)

let jcontains k j =
  match jget k j with
  | Some _ -> true
  | None -> false

(** val wire : json -> json **)

let rec wire j = match j with
| JFlt f -> if is_finite f then JFlt f else JNull
| JArr l -> JArr (map wire l)
| JObj m -> JObj (map (fun kv -> ((fst kv), (wire (snd kv)))) m)
| _ -> j

(** val jfinite : json -> bool **)

let rec jfinite = function
| JFlt f -> is_finite f
| JArr l -> forallb jfinite l
| JObj m -> forallb (fun kv -> jfinite (snd kv)) m
| _ -> true

(** val obind : 'a1 option -> ('a1 -> 'a2 option) -> 'a2 option **)

let obind o f =
  match o with
  | Some a -> f a
  | None -> None

(** val dec_list : (json -> 'a1 option) -> json list -> 'a1 list option **)

let rec dec_list d = function
| [] -> Some []
| x :: r ->
  obind (d x) (fun a -> obind (dec_list d r) (fun t -> Some (a :: t)))

(** val dec_arr : (json -> 'a1 option) -> json -> 'a1 list option **)

let dec_arr d = function
| JArr l -> dec_list d l
| _ -> None

(** val dec_real : json -> flt option **)

let dec_real = function
| JFlt f -> Some f
| _ -> None

(** val dec_int : json -> z option **)

let dec_int = function
| JInt z0 -> Some z0
| _ -> None

(** val dec_str : json -> string option **)

let dec_str = function
| JStr s -> Some s
| _ -> None

type label = { l_name : string; l_ext : string }

(** val empty_label : label **)

let empty_label =
  { l_name = EmptyString; l_ext = EmptyString }

(** val aT : ascii **)

let aT =
  Ascii (false, false, false, false, false, false, true, false)

(** val label_to_string : label -> string **)

let label_to_string l =
  if eqb1 l.l_ext EmptyString
  then l.l_name
  else append l.l_name (String (aT, l.l_ext))

(** val rsplit_at : string -> (string * string) option **)

let rec rsplit_at = function
| EmptyString -> None
| String (c, r) ->
  (match rsplit_at r with
   | Some p -> let (a, b) = p in Some ((String (c, a)), b)
   | None -> if eqb0 c aT then Some (EmptyString, r) else None)

(** val label_from_separator : string -> label **)

let label_from_separator s =
  match rsplit_at s with
  | Some p -> let (a, b) = p in { l_name = a; l_ext = b }
  | None -> { l_name = s; l_ext = EmptyString }

(** val enc_label : label -> json **)

let enc_label l =
  JStr (label_to_string l)

(** val dec_label : json -> label option **)

let dec_label j =
  obind (dec_str j) (fun s -> Some (label_from_separator s))

(** val has_at : string -> bool **)

let rec has_at = function
| EmptyString -> false
| String (c, r) -> (||) (eqb0 c aT) (has_at r)

(** val wfb_label : label -> bool **)

let wfb_label l =
  (&&) (negb (has_at l.l_ext))
    ((||) (negb (eqb1 l.l_ext EmptyString)) (negb (has_at l.l_name)))

type vec3 = (flt * flt) * flt

(** val vmap : (flt -> flt) -> vec3 -> vec3 **)

let vmap f = function
| (p, c) -> let (a, b) = p in (((f a), (f b)), (f c))

(** val vall : (flt -> bool) -> vec3 -> bool **)

let vall f = function
| (p, c) -> let (a, b) = p in (&&) ((&&) (f a) (f b)) (f c)

(** val enc_vec3 : vec3 -> json **)

let enc_vec3 = function
| (p, c) ->
  let (a, b) = p in JArr ((JFlt a) :: ((JFlt b) :: ((JFlt c) :: [])))

(** val dec_vec3 : json -> vec3 option **)

let dec_vec3 = function
| JArr l ->
  (match l with
   | [] -> None
   | a :: l0 ->
     (match l0 with
      | [] -> None
      | b :: l1 ->
        (match l1 with
         | [] -> None
         | c :: l2 ->
           (match l2 with
            | [] ->
              obind (dec_real a) (fun x ->
                obind (dec_real b) (fun y ->
                  obind (dec_real c) (fun z0 -> Some ((x, y), z0))))
            | _ :: _ -> None))))
| _ -> None

type bbox = { b_lo : vec3; b_hi : vec3 }

(** val null_bbox : bbox **)

let null_bbox =
  { b_lo = ((f_INF, f_INF), f_INF); b_hi = ((f_NINF, f_NINF), f_NINF) }

(** val inf_bbox : bbox **)

let inf_bbox =
  { b_lo = ((f_NINF, f_NINF), f_NINF); b_hi = ((f_INF, f_INF), f_INF) }

(** val bbox_nonnull : bbox -> bool **)

let bbox_nonnull b =
  let (p, e) = b.b_lo in
  let (a, c) = p in
  let (p0, e') = b.b_hi in
  let (a', c') = p0 in (&&) ((&&) (fleb a a') (fleb c c')) (fleb e e')

(** val v3_eqb : vec3 -> vec3 -> bool **)

let v3_eqb u v =
  let (p, c) = u in
  let (a, b) = p in
  let (p0, c') = v in
  let (a', b') = p0 in (&&) ((&&) (feqb a a') (feqb b b')) (feqb c c')

(** val bbox_eqb : bbox -> bbox -> bool **)

let bbox_eqb a b =
  (&&) (v3_eqb a.b_lo b.b_lo) (v3_eqb a.b_hi b.b_hi)

(** val inf_to_max : flt -> flt **)

let inf_to_max x =
  if is_inf x then copysign f_MAX x else x

(** val max_to_inf : flt -> flt **)

let max_to_inf x =
  if is_max x then copysign f_INF x else x

(** val enc_bbox : bbox -> json **)

let enc_bbox b =
  if bbox_nonnull b
  then JArr
         ((enc_vec3 (vmap inf_to_max b.b_lo)) :: ((enc_vec3
                                                    (vmap inf_to_max b.b_hi)) :: []))
  else JNull

(** val dec_bbox : json -> bbox option **)

let dec_bbox = function
| JNull -> Some null_bbox
| JArr l ->
  (match l with
   | [] -> None
   | lo :: l0 ->
     (match l0 with
      | [] -> None
      | hi :: l1 ->
        (match l1 with
         | [] ->
           obind (dec_vec3 lo) (fun l2 ->
             obind (dec_vec3 hi) (fun h -> Some { b_lo =
               (vmap max_to_inf l2); b_hi = (vmap max_to_inf h) }))
         | _ :: _ -> None)))
| _ -> None

(** val get_bbox : json -> bbox option **)

let get_bbox j =
  match jget (String ((Ascii (false, true, false, false, false, true, true,
          false)), (String ((Ascii (false, true, false, false, false, true,
          true, false)), (String ((Ascii (true, true, true, true, false,
          true, true, false)), (String ((Ascii (false, false, false, true,
          true, true, true, false)), EmptyString)))))))) j with
  | Some b -> dec_bbox b
  | None -> Some inf_bbox

(** val coord_ok : flt -> bool **)

let coord_ok x =
  (&&) ((&&) (valid_fltb x) (negb (is_nan x))) (negb (is_max x))

(** val bbox_bits_eqb : bbox -> bbox -> bool **)

let bbox_bits_eqb a b =
  let (p, a3) = a.b_lo in
  let (a1, a2) = p in
  let (p0, a6) = a.b_hi in
  let (a4, a5) = p0 in
  let (p1, b3) = b.b_lo in
  let (b1, b2) = p1 in
  let (p2, b6) = b.b_hi in
  let (b4, b5) = p2 in
  (&&)
    ((&&)
      ((&&) ((&&) ((&&) (Z.eqb a1 b1) (Z.eqb a2 b2)) (Z.eqb a3 b3))
        (Z.eqb a4 b4)) (Z.eqb a5 b5)) (Z.eqb a6 b6)

(** val wfb_bbox : bbox -> bool **)

let wfb_bbox b =
  (&&) ((&&) (vall coord_ok b.b_lo) (vall coord_ok b.b_hi))
    ((||) (bbox_nonnull b) (bbox_bits_eqb b null_bbox))

type zorder =
| ZInvalid
| ZBackground
| ZMedia
| ZArray
| ZHole
| ZImplExt
| ZExterior

(** val zorder_char : zorder -> ascii **)

let zorder_char = function
| ZInvalid -> Ascii (true, false, false, false, false, true, false, false)
| ZBackground -> Ascii (false, true, false, false, false, false, true, false)
| ZMedia -> Ascii (true, false, true, true, false, false, true, false)
| ZArray -> Ascii (true, false, false, false, false, false, true, false)
| ZHole -> Ascii (false, false, false, true, false, false, true, false)
| ZImplExt -> Ascii (false, false, false, true, true, true, true, false)
| ZExterior -> Ascii (false, false, false, true, true, false, true, false)

(** val zorder_eqb : zorder -> zorder -> bool **)

let zorder_eqb a b =
  eqb0 (zorder_char a) (zorder_char b)

(** val to_zorder : ascii -> zorder **)

let to_zorder c =
  if eqb0 c (Ascii (true, false, false, false, false, true, false, false))
  then ZInvalid
  else if eqb0 c (Ascii (false, true, false, false, false, false, true,
            false))
       then ZBackground
       else if eqb0 c (Ascii (true, false, true, true, false, false, true,
                 false))
            then ZMedia
            else if eqb0 c (Ascii (true, false, false, false, false, false,
                      true, false))
                 then ZArray
                 else if eqb0 c (Ascii (false, false, false, true, false,
                           false, true, false))
                      then ZHole
                      else if eqb0 c (Ascii (false, false, false, true, true,
                                true, true, false))
                           then ZImplExt
                           else if eqb0 c (Ascii (false, false, false, true,
                                     true, false, true, false))
                                then ZExterior
                                else ZInvalid

(** val dec_zorder : json -> zorder option **)

let dec_zorder = function
| JInt z0 ->
  if Z.eqb z0 (Zpos XH)
  then Some ZBackground
  else if Z.eqb z0 (Zpos (XO XH))
       then Some ZMedia
       else if Z.eqb z0 (Zpos (XI XH))
            then Some ZArray
            else if Z.eqb z0 (Zpos (XO (XO XH)))
                 then Some ZHole
                 else if (||)
                           (Z.eqb z0 (Zpos (XO (XI (XI (XI (XI (XI (XI (XI
                             (XI (XI (XI (XI (XI (XI (XI XH)))))))))))))))))
                           (Z.eqb z0 (Zpos (XO (XI (XI (XI (XI (XI (XI (XI
                             (XI (XI (XI (XI (XI (XI (XI (XI (XI (XI (XI (XI
                             (XI (XI (XI (XI (XI (XI (XI (XI (XI (XI (XI (XI
                             (XI (XI (XI (XI (XI (XI (XI (XI (XI (XI (XI (XI
                             (XI (XI (XI (XI (XI (XI (XI (XI (XI (XI (XI (XI
                             (XI (XI (XI (XI (XI (XI (XI
                             XH)))))))))))))))))))))))))))))))))))))))))))))))))))))))))))))))))
                      then Some ZImplExt
                      else if (||)
                                (Z.eqb z0 (Zpos (XI (XO (XI (XI (XI (XI (XI
                                  (XI (XI (XI (XI (XI (XI (XI (XI
                                  XH)))))))))))))))))
                                (Z.eqb z0 (Zpos (XI (XI (XI (XI (XI (XI (XI
                                  (XI (XI (XI (XI (XI (XI (XI (XI (XI (XI (XI
                                  (XI (XI (XI (XI (XI (XI (XI (XI (XI (XI (XI
                                  (XI (XI (XI (XI (XI (XI (XI (XI (XI (XI (XI
                                  (XI (XI (XI (XI (XI (XI (XI (XI (XI (XI (XI
                                  (XI (XI (XI (XI (XI (XI (XI (XI (XI (XI (XI
                                  (XI
                                  XH)))))))))))))))))))))))))))))))))))))))))))))))))))))))))))))))))
                           then Some ZExterior
                           else None
| JStr s ->
  (match s with
   | EmptyString -> None
   | String (c, s0) ->
     (match s0 with
      | EmptyString -> Some (to_zorder c)
      | String (_, _) -> None))
| _ -> None

(** val uINT : z **)

let uINT =
  Zpos (XO (XO (XO (XO (XO (XO (XO (XO (XO (XO (XO (XO (XO (XO (XO (XO (XO
    (XO (XO (XO (XO (XO (XO (XO (XO (XO (XO (XO (XO (XO (XO (XO (XO (XO (XO
    (XO (XO (XO (XO (XO (XO (XO (XO (XO (XO (XO (XO (XO (XO (XO (XO (XO (XO
    (XO (XO (XO (XO (XO (XO (XO (XO (XO (XO (XO
    XH))))))))))))))))))))))))))))))))))))))))))))))))))))))))))))))))

(** val lBEGIN : z **)

let lBEGIN =
  Z.sub uINT (Zpos (XI (XI XH)))

(** val lTRUE : z **)

let lTRUE =
  Z.add lBEGIN (Zpos (XO XH))

(** val lOR : z **)

let lOR =
  Z.add lBEGIN (Zpos (XI XH))

(** val lAND : z **)

let lAND =
  Z.add lBEGIN (Zpos (XO (XO XH)))

(** val lNOT : z **)

let lNOT =
  Z.add lBEGIN (Zpos (XI (XO XH)))

(** val tok_char : z -> ascii **)

let tok_char t =
  let i = Z.sub t lBEGIN in
  if Z.eqb i Z0
  then Ascii (false, false, false, true, false, true, false, false)
  else if Z.eqb i (Zpos XH)
       then Ascii (true, false, false, true, false, true, false, false)
       else if Z.eqb i (Zpos (XO XH))
            then Ascii (false, true, false, true, false, true, false, false)
            else if Z.eqb i (Zpos (XI XH))
                 then Ascii (false, false, true, true, true, true, true,
                        false)
                 else if Z.eqb i (Zpos (XO (XO XH)))
                      then Ascii (false, true, true, false, false, true,
                             false, false)
                      else if Z.eqb i (Zpos (XI (XO XH)))
                           then Ascii (false, true, true, true, true, true,
                                  true, false)
                           else Ascii (false, false, false, false, false,
                                  false, false, false)

(** val digit_char : z -> ascii **)

let digit_char d =
  ascii_of_nat
    (add (S (S (S (S (S (S (S (S (S (S (S (S (S (S (S (S (S (S (S (S (S (S (S
      (S (S (S (S (S (S (S (S (S (S (S (S (S (S (S (S (S (S (S (S (S (S (S (S
      (S O)))))))))))))))))))))))))))))))))))))))))))))))) (Z.to_nat d))

(** val dec_digits : nat -> z -> string **)

let rec dec_digits fuel n0 =
  match fuel with
  | O -> EmptyString
  | S f ->
    if Z.ltb n0 (Zpos (XO (XI (XO XH))))
    then String ((digit_char n0), EmptyString)
    else append (dec_digits f (Z.div n0 (Zpos (XO (XI (XO XH)))))) (String
           ((digit_char (Z.modulo n0 (Zpos (XO (XI (XO XH)))))), EmptyString))

(** val z_to_string : z -> string **)

let z_to_string n0 =
  dec_digits (S (S (S (S (S (S (S (S (S (S (S (S (S (S (S (S (S (S (S (S
    O)))))))))))))))))))) n0

(** val tok_string : z -> string **)

let tok_string t =
  if Z.leb lBEGIN t then String ((tok_char t), EmptyString) else z_to_string t

(** val join_sp : string list -> string **)

let rec join_sp = function
| [] -> EmptyString
| a :: r ->
  (match r with
   | [] -> a
   | _ :: _ ->
     append a (String ((Ascii (false, false, false, false, false, true,
       false, false)), (join_sp r))))

(** val logic_to_string : z list -> string **)

let logic_to_string l =
  join_sp (map tok_string l)

(** val is_digit : ascii -> bool **)

let is_digit c =
  let n0 = Z.of_nat (nat_of_ascii c) in
  (&&) (Z.leb (Zpos (XO (XO (XO (XO (XI XH)))))) n0)
    (Z.leb n0 (Zpos (XI (XO (XO (XI (XI XH)))))))

(** val digit_val : ascii -> z **)

let digit_val c =
  Z.sub (Z.of_nat (nat_of_ascii c)) (Zpos (XO (XO (XO (XO (XI XH))))))

(** val tok_of_char : ascii -> z option **)

let tok_of_char c =
  if eqb0 c (Ascii (false, true, false, true, false, true, false, false))
  then Some lTRUE
  else if eqb0 c (Ascii (false, false, true, true, true, true, true, false))
       then Some lOR
       else if eqb0 c (Ascii (false, true, true, false, false, true, false,
                 false))
            then Some lAND
            else if eqb0 c (Ascii (false, true, true, true, true, true, true,
                      false))
                 then Some lNOT
                 else None

(** val s2l : string -> z list -> z -> bool -> z list option **)

let rec s2l s res surf reading =
  match s with
  | EmptyString -> Some (if reading then app res (surf :: []) else res)
  | String (v, r) ->
    if is_digit v
    then s2l r res
           (Z.modulo
             (Z.add
               (Z.mul (Zpos (XO (XI (XO XH)))) (if reading then surf else Z0))
               (digit_val v)) uINT) true
    else let res' = if reading then app res (surf :: []) else res in
         (match tok_of_char v with
          | Some t -> s2l r (app res' (t :: [])) surf false
          | None ->
            if eqb0 v (Ascii (false, false, false, false, false, true, false,
                 false))
            then s2l r res' surf false
            else None)

(** val string_to_logic : string -> z list option **)

let string_to_logic s =
  s2l s [] Z0 false

(** val wfb_token : z -> bool **)

let wfb_token t =
  (||)
    ((||)
      ((||) ((||) ((&&) (Z.leb Z0 t) (Z.ltb t lBEGIN)) (Z.eqb t lTRUE))
        (Z.eqb t lOR)) (Z.eqb t lAND)) (Z.eqb t lNOT)

type obz = { obz_inner : bbox; obz_outer : bbox; obz_tid : z }

type volume = { v_label : label; v_faces : z list; v_logic : z list;
                v_bbox : bbox; v_obz : obz option; v_flags : z;
                v_zorder : zorder }

(** val opt_entry : bool -> string -> json -> (string * json) list **)

let opt_entry c k v =
  if c then (k, v) :: [] else []

(** val enc_volume : volume -> json **)

let enc_volume v =
  JObj
    (app (((String ((Ascii (false, true, true, false, false, true, true,
      false)), (String ((Ascii (true, false, false, false, false, true, true,
      false)), (String ((Ascii (true, true, false, false, false, true, true,
      false)), (String ((Ascii (true, false, true, false, false, true, true,
      false)), (String ((Ascii (true, true, false, false, true, true, true,
      false)), EmptyString)))))))))), (JArr
      (map (fun x -> JInt x) v.v_faces))) :: [])
      (app
        (opt_entry (negb (match v.v_logic with
                          | [] -> true
                          | _ :: _ -> false)) (String ((Ascii (false, false,
          true, true, false, true, true, false)), (String ((Ascii (true,
          true, true, true, false, true, true, false)), (String ((Ascii
          (true, true, true, false, false, true, true, false)), (String
          ((Ascii (true, false, false, true, false, true, true, false)),
          (String ((Ascii (true, true, false, false, false, true, true,
          false)), EmptyString)))))))))) (JStr (logic_to_string v.v_logic)))
        (app
          (opt_entry (negb (bbox_eqb v.v_bbox inf_bbox)) (String ((Ascii
            (false, true, false, false, false, true, true, false)), (String
            ((Ascii (false, true, false, false, false, true, true, false)),
            (String ((Ascii (true, true, true, true, false, true, true,
            false)), (String ((Ascii (false, false, false, true, true, true,
            true, false)), EmptyString)))))))) (enc_bbox v.v_bbox))
          (app
            (opt_entry (negb (Z.eqb v.v_flags Z0)) (String ((Ascii (false,
              true, true, false, false, true, true, false)), (String ((Ascii
              (false, false, true, true, false, true, true, false)), (String
              ((Ascii (true, false, false, false, false, true, true, false)),
              (String ((Ascii (true, true, true, false, false, true, true,
              false)), (String ((Ascii (true, true, false, false, true, true,
              true, false)), EmptyString)))))))))) (JInt v.v_flags))
            (opt_entry (negb (zorder_eqb v.v_zorder ZMedia)) (String ((Ascii
              (false, true, false, true, true, true, true, false)), (String
              ((Ascii (true, true, true, true, false, true, true, false)),
              (String ((Ascii (false, true, false, false, true, true, true,
              false)), (String ((Ascii (false, false, true, false, false,
              true, true, false)), (String ((Ascii (true, false, true, false,
              false, true, true, false)), (String ((Ascii (false, true,
              false, false, true, true, true, false)),
              EmptyString)))))))))))) (JStr (String
              ((zorder_char v.v_zorder), EmptyString))))))))

(** val dec_volume : json -> volume option **)

let dec_volume j =
  obind
    (jget (String ((Ascii (false, true, true, false, false, true, true,
      false)), (String ((Ascii (true, false, false, false, false, true, true,
      false)), (String ((Ascii (true, true, false, false, false, true, true,
      false)), (String ((Ascii (true, false, true, false, false, true, true,
      false)), (String ((Ascii (true, true, false, false, true, true, true,
      false)), EmptyString)))))))))) j) (fun fj ->
    obind (dec_arr dec_int fj) (fun faces ->
      obind
        (match jget (String ((Ascii (false, true, true, false, false, true,
                 true, false)), (String ((Ascii (false, false, true, true,
                 false, true, true, false)), (String ((Ascii (true, false,
                 false, false, false, true, true, false)), (String ((Ascii
                 (true, true, true, false, false, true, true, false)),
                 (String ((Ascii (true, true, false, false, true, true, true,
                 false)), EmptyString)))))))))) j with
         | Some f -> dec_int f
         | None -> Some Z0) (fun flags ->
        obind
          (match jget (String ((Ascii (false, true, false, true, true, true,
                   true, false)), (String ((Ascii (true, true, true, true,
                   false, true, true, false)), (String ((Ascii (false, true,
                   false, false, true, true, true, false)), (String ((Ascii
                   (false, false, true, false, false, true, true, false)),
                   (String ((Ascii (true, false, true, false, false, true,
                   true, false)), (String ((Ascii (false, true, false, false,
                   true, true, true, false)), EmptyString)))))))))))) j with
           | Some z0 -> dec_zorder z0
           | None -> Some ZMedia) (fun zo ->
          if zorder_eqb zo ZBackground
          then Some { v_label = empty_label; v_faces = faces; v_logic =
                 (lTRUE :: (lNOT :: [])); v_bbox = null_bbox; v_obz = None;
                 v_flags = flags; v_zorder = zo }
          else obind
                 (jget (String ((Ascii (false, false, true, true, false,
                   true, true, false)), (String ((Ascii (true, true, true,
                   true, false, true, true, false)), (String ((Ascii (true,
                   true, true, false, false, true, true, false)), (String
                   ((Ascii (true, false, false, true, false, true, true,
                   false)), (String ((Ascii (true, true, false, false, false,
                   true, true, false)), EmptyString)))))))))) j) (fun lj ->
                 obind (dec_str lj) (fun ls ->
                   obind (string_to_logic ls) (fun logic ->
                     obind (get_bbox j) (fun bb -> Some { v_label =
                       empty_label; v_faces = faces; v_logic = logic;
                       v_bbox = bb; v_obz = None; v_flags = flags; v_zorder =
                       zo }))))))))

(** val is_nil : 'a1 list -> bool **)

let is_nil = function
| [] -> true
| _ :: _ -> false

(** val list_eqb : z list -> z list -> bool **)

let list_eqb a b =
  (&&) (Z.eqb (Z.of_nat (length a)) (Z.of_nat (length b)))
    (forallb (fun p -> Z.eqb (fst p) (snd p)) (combine a b))

(** val wfb_volume : volume -> bool **)

let wfb_volume v =
  (&&)
    ((&&)
      ((&&)
        ((&&) ((&&) (forallb wfb_token v.v_logic) (negb (is_nil v.v_logic)))
          (wfb_bbox v.v_bbox))
        (match v.v_obz with
         | Some _ -> false
         | None -> true)) (wfb_label v.v_label))
    ((||) (negb (zorder_eqb v.v_zorder ZBackground))
      ((&&) (list_eqb v.v_logic (lTRUE :: (lNOT :: [])))
        (bbox_bits_eqb v.v_bbox null_bbox)))

type surf_type =
| Spx
| Spy
| Spz
| Scxc
| Scyc
| Sczc
| Ssc
| Scx
| Scy
| Scz
| Sp
| Ss
| Skx
| Sky
| Skz
| Ssq
| Sgq
| Sinv

(** val all_surf_types : surf_type list **)

let all_surf_types =
  Spx :: (Spy :: (Spz :: (Scxc :: (Scyc :: (Sczc :: (Ssc :: (Scx :: (Scy :: (Scz :: (Sp :: (Ss :: (Skx :: (Sky :: (Skz :: (Ssq :: (Sgq :: (Sinv :: [])))))))))))))))))

(** val surf_name : surf_type -> string **)

let surf_name = function
| Spx ->
  String ((Ascii (false, false, false, false, true, true, true, false)),
    (String ((Ascii (false, false, false, true, true, true, true, false)),
    EmptyString)))
| Spy ->
  String ((Ascii (false, false, false, false, true, true, true, false)),
    (String ((Ascii (true, false, false, true, true, true, true, false)),
    EmptyString)))
| Spz ->
  String ((Ascii (false, false, false, false, true, true, true, false)),
    (String ((Ascii (false, true, false, true, true, true, true, false)),
    EmptyString)))
| Scxc ->
  String ((Ascii (true, true, false, false, false, true, true, false)),
    (String ((Ascii (false, false, false, true, true, true, true, false)),
    (String ((Ascii (true, true, false, false, false, true, true, false)),
    EmptyString)))))
| Scyc ->
  String ((Ascii (true, true, false, false, false, true, true, false)),
    (String ((Ascii (true, false, false, true, true, true, true, false)),
    (String ((Ascii (true, true, false, false, false, true, true, false)),
    EmptyString)))))
| Sczc ->
  String ((Ascii (true, true, false, false, false, true, true, false)),
    (String ((Ascii (false, true, false, true, true, true, true, false)),
    (String ((Ascii (true, true, false, false, false, true, true, false)),
    EmptyString)))))
| Ssc ->
  String ((Ascii (true, true, false, false, true, true, true, false)),
    (String ((Ascii (true, true, false, false, false, true, true, false)),
    EmptyString)))
| Scx ->
  String ((Ascii (true, true, false, false, false, true, true, false)),
    (String ((Ascii (false, false, false, true, true, true, true, false)),
    EmptyString)))
| Scy ->
  String ((Ascii (true, true, false, false, false, true, true, false)),
    (String ((Ascii (true, false, false, true, true, true, true, false)),
    EmptyString)))
| Scz ->
  String ((Ascii (true, true, false, false, false, true, true, false)),
    (String ((Ascii (false, true, false, true, true, true, true, false)),
    EmptyString)))
| Sp ->
  String ((Ascii (false, false, false, false, true, true, true, false)),
    EmptyString)
| Ss ->
  String ((Ascii (true, true, false, false, true, true, true, false)),
    EmptyString)
| Skx ->
  String ((Ascii (true, true, false, true, false, true, true, false)),
    (String ((Ascii (false, false, false, true, true, true, true, false)),
    EmptyString)))
| Sky ->
  String ((Ascii (true, true, false, true, false, true, true, false)),
    (String ((Ascii (true, false, false, true, true, true, true, false)),
    EmptyString)))
| Skz ->
  String ((Ascii (true, true, false, true, false, true, true, false)),
    (String ((Ascii (false, true, false, true, true, true, true, false)),
    EmptyString)))
| Ssq ->
  String ((Ascii (true, true, false, false, true, true, true, false)),
    (String ((Ascii (true, false, false, false, true, true, true, false)),
    EmptyString)))
| Sgq ->
  String ((Ascii (true, true, true, false, false, true, true, false)),
    (String ((Ascii (true, false, false, false, true, true, true, false)),
    EmptyString)))
| Sinv ->
  String ((Ascii (true, false, false, true, false, true, true, false)),
    (String ((Ascii (false, true, true, true, false, true, true, false)),
    (String ((Ascii (false, true, true, false, true, true, true, false)),
    EmptyString)))))

(** val surf_arity : surf_type -> nat **)

let surf_arity = function
| Scx -> S (S (S O))
| Scy -> S (S (S O))
| Scz -> S (S (S O))
| Sp -> S (S (S (S O)))
| Ss -> S (S (S (S O)))
| Skx -> S (S (S (S O)))
| Sky -> S (S (S (S O)))
| Skz -> S (S (S (S O)))
| Ssq -> S (S (S (S (S (S (S O))))))
| Sgq -> S (S (S (S (S (S (S (S (S (S O)))))))))
| Sinv -> S (S (S (S (S (S O)))))
| _ -> S O

(** val find_surf : string -> surf_type list -> surf_type option **)

let rec find_surf s = function
| [] -> None
| t :: r -> if eqb1 s (surf_name t) then Some t else find_surf s r

(** val to_surface_type : string -> surf_type option **)

let to_surface_type s =
  find_surf s all_surf_types

(** val visit_supported : surf_type -> bool **)

let visit_supported = function
| Sinv -> false
| _ -> true

(** val opt_map : ('a1 -> 'a2 option) -> 'a1 list -> 'a2 list option **)

let rec opt_map f = function
| [] -> Some []
| a :: r ->
  obind (f a) (fun x -> obind (opt_map f r) (fun t -> Some (x :: t)))

type surface = { s_type : surf_type; s_data : flt list }

(** val enc_surfaces : surface list -> json **)

let enc_surfaces ss =
  JObj (((String ((Ascii (false, false, true, false, true, true, true,
    false)), (String ((Ascii (true, false, false, true, true, true, true,
    false)), (String ((Ascii (false, false, false, false, true, true, true,
    false)), (String ((Ascii (true, false, true, false, false, true, true,
    false)), (String ((Ascii (true, true, false, false, true, true, true,
    false)), EmptyString)))))))))), (JArr
    (map (fun s -> JStr (surf_name s.s_type)) ss))) :: (((String ((Ascii
    (false, false, true, false, false, true, true, false)), (String ((Ascii
    (true, false, false, false, false, true, true, false)), (String ((Ascii
    (false, false, true, false, true, true, true, false)), (String ((Ascii
    (true, false, false, false, false, true, true, false)),
    EmptyString)))))))), (JArr
    (map (fun x -> JFlt x) (concat (map (fun s -> s.s_data) ss))))) :: (((String
    ((Ascii (true, true, false, false, true, true, true, false)), (String
    ((Ascii (true, false, false, true, false, true, true, false)), (String
    ((Ascii (false, true, false, true, true, true, true, false)), (String
    ((Ascii (true, false, true, false, false, true, true, false)), (String
    ((Ascii (true, true, false, false, true, true, true, false)),
    EmptyString)))))))))), (JArr
    (map (fun s -> JInt (Z.of_nat (length s.s_data))) ss))) :: [])))

(** val unzip_surfaces :
    surf_type list -> z list -> flt list -> surface list option **)

let rec unzip_surfaces types sizes data =
  match types with
  | [] -> Some []
  | t :: tr ->
    (match sizes with
     | [] -> None
     | n0 :: sr ->
       if negb (visit_supported t)
       then None
       else if negb (Z.eqb n0 (Z.of_nat (surf_arity t)))
            then None
            else if Nat.ltb (length data) (surf_arity t)
                 then None
                 else obind
                        (unzip_surfaces tr sr (skipn (surf_arity t) data))
                        (fun rest -> Some ({ s_type = t; s_data =
                        (firstn (surf_arity t) data) } :: rest)))

(** val dec_surfaces : json -> surface list option **)

let dec_surfaces j =
  obind
    (jget (String ((Ascii (false, false, true, false, true, true, true,
      false)), (String ((Ascii (true, false, false, true, true, true, true,
      false)), (String ((Ascii (false, false, false, false, true, true, true,
      false)), (String ((Ascii (true, false, true, false, false, true, true,
      false)), (String ((Ascii (true, true, false, false, true, true, true,
      false)), EmptyString)))))))))) j) (fun tj ->
    obind (dec_arr dec_str tj) (fun names ->
      obind
        (jget (String ((Ascii (false, false, true, false, false, true, true,
          false)), (String ((Ascii (true, false, false, false, false, true,
          true, false)), (String ((Ascii (false, false, true, false, true,
          true, true, false)), (String ((Ascii (true, false, false, false,
          false, true, true, false)), EmptyString)))))))) j) (fun dj ->
        obind (dec_arr dec_real dj) (fun data ->
          obind
            (jget (String ((Ascii (true, true, false, false, true, true,
              true, false)), (String ((Ascii (true, false, false, true,
              false, true, true, false)), (String ((Ascii (false, true,
              false, true, true, true, true, false)), (String ((Ascii (true,
              false, true, false, false, true, true, false)), (String ((Ascii
              (true, true, false, false, true, true, true, false)),
              EmptyString)))))))))) j) (fun sj ->
            obind (dec_arr dec_int sj) (fun sizes ->
              obind (opt_map to_surface_type names) (fun types ->
                unzip_surfaces types sizes data)))))))

(** val wfb_surface : surface -> bool **)

let wfb_surface s =
  (&&)
    ((&&) (visit_supported s.s_type)
      (Nat.eqb (length s.s_data) (surf_arity s.s_type)))
    (forallb is_finite s.s_data)

type transform =
| NoTrans
| Transl of vec3
| Transf of vec3 * vec3 * vec3 * vec3

(** val v3list : vec3 -> flt list **)

let v3list = function
| (p, c) -> let (a, b) = p in a :: (b :: (c :: []))

(** val transform_data : transform -> flt list **)

let transform_data = function
| NoTrans -> []
| Transl t0 -> v3list t0
| Transf (r0, r1, r2, t0) ->
  app (v3list r0) (app (v3list r1) (app (v3list r2) (v3list t0)))

(** val enc_transform : transform -> json **)

let enc_transform t =
  JArr (map (fun x -> JFlt x) (transform_data t))

(** val transform_of_data : flt list -> transform option **)

let transform_of_data = function
| [] -> Some NoTrans
| a :: l ->
  (match l with
   | [] -> None
   | b :: l0 ->
     (match l0 with
      | [] -> None
      | c :: l1 ->
        (match l1 with
         | [] -> Some (Transl ((a, b), c))
         | d0 :: l2 ->
           (match l2 with
            | [] -> None
            | e :: l3 ->
              (match l3 with
               | [] -> None
               | f :: l4 ->
                 (match l4 with
                  | [] -> None
                  | g :: l5 ->
                    (match l5 with
                     | [] -> None
                     | h :: l6 ->
                       (match l6 with
                        | [] -> None
                        | i :: l7 ->
                          (match l7 with
                           | [] -> None
                           | x :: l8 ->
                             (match l8 with
                              | [] -> None
                              | y :: l9 ->
                                (match l9 with
                                 | [] -> None
                                 | z0 :: l10 ->
                                   (match l10 with
                                    | [] ->
                                      Some (Transf (((a, b), c), ((d0, e),
                                        f), ((g, h), i), ((x, y), z0)))
                                    | _ :: _ -> None))))))))))))

(** val dec_transform : json -> transform option **)

let dec_transform j =
  obind (dec_arr dec_real j) transform_of_data

(** val wfb_transform : transform -> bool **)

let wfb_transform t =
  forallb is_finite (transform_data t)

(** val make_transform : vec3 -> transform **)

let make_transform t =
  if vall is_zero t then NoTrans else Transl t

type daughter = { d_univ : z; d_trans : transform }

type unit_in = { u_surfaces : surface list; u_volumes : volume list;
                 u_bbox : bbox; u_daughters : (z * daughter) list;
                 u_surface_labels : label list; u_label : label }

(** val set_label : (label * volume) -> volume **)

let set_label = function
| (l, v) ->
  { v_label = l; v_faces = v.v_faces; v_logic = v.v_logic; v_bbox = v.v_bbox;
    v_obz = v.v_obz; v_flags = v.v_flags; v_zorder = v.v_zorder }

(** val enc_unit : unit_in -> json **)

let enc_unit u =
  JObj
    (app (((String ((Ascii (true, true, true, true, true, false, true,
      false)), (String ((Ascii (false, false, true, false, true, true, true,
      false)), (String ((Ascii (true, false, false, true, true, true, true,
      false)), (String ((Ascii (false, false, false, false, true, true, true,
      false)), (String ((Ascii (true, false, true, false, false, true, true,
      false)), EmptyString)))))))))), (JStr (String ((Ascii (true, false,
      true, false, true, true, true, false)), (String ((Ascii (false, true,
      true, true, false, true, true, false)), (String ((Ascii (true, false,
      false, true, false, true, true, false)), (String ((Ascii (false, false,
      true, false, true, true, true, false)),
      EmptyString)))))))))) :: (((String ((Ascii (true, false, true, true,
      false, true, true, false)), (String ((Ascii (false, false, true, false,
      false, true, true, false)), EmptyString)))), (JObj (((String ((Ascii
      (false, true, true, true, false, true, true, false)), (String ((Ascii
      (true, false, false, false, false, true, true, false)), (String ((Ascii
      (true, false, true, true, false, true, true, false)), (String ((Ascii
      (true, false, true, false, false, true, true, false)),
      EmptyString)))))))), (enc_label u.u_label)) :: []))) :: (((String
      ((Ascii (true, true, false, false, true, true, true, false)), (String
      ((Ascii (true, false, true, false, true, true, true, false)), (String
      ((Ascii (false, true, false, false, true, true, true, false)), (String
      ((Ascii (false, true, true, false, false, true, true, false)), (String
      ((Ascii (true, false, false, false, false, true, true, false)), (String
      ((Ascii (true, true, false, false, false, true, true, false)), (String
      ((Ascii (true, false, true, false, false, true, true, false)), (String
      ((Ascii (true, true, false, false, true, true, true, false)),
      EmptyString)))))))))))))))), (enc_surfaces u.u_surfaces)) :: (((String
      ((Ascii (false, true, true, false, true, true, true, false)), (String
      ((Ascii (true, true, true, true, false, true, true, false)), (String
      ((Ascii (false, false, true, true, false, true, true, false)), (String
      ((Ascii (true, false, true, false, true, true, true, false)), (String
      ((Ascii (true, false, true, true, false, true, true, false)), (String
      ((Ascii (true, false, true, false, false, true, true, false)), (String
      ((Ascii (true, true, false, false, true, true, true, false)),
      EmptyString)))))))))))))), (JArr
      (map enc_volume u.u_volumes))) :: (((String ((Ascii (true, true, false,
      false, true, true, true, false)), (String ((Ascii (true, false, true,
      false, true, true, true, false)), (String ((Ascii (false, true, false,
      false, true, true, true, false)), (String ((Ascii (false, true, true,
      false, false, true, true, false)), (String ((Ascii (true, false, false,
      false, false, true, true, false)), (String ((Ascii (true, true, false,
      false, false, true, true, false)), (String ((Ascii (true, false, true,
      false, false, true, true, false)), (String ((Ascii (true, true, true,
      true, true, false, true, false)), (String ((Ascii (false, false, true,
      true, false, true, true, false)), (String ((Ascii (true, false, false,
      false, false, true, true, false)), (String ((Ascii (false, true, false,
      false, false, true, true, false)), (String ((Ascii (true, false, true,
      false, false, true, true, false)), (String ((Ascii (false, false, true,
      true, false, true, true, false)), (String ((Ascii (true, true, false,
      false, true, true, true, false)),
      EmptyString)))))))))))))))))))))))))))), (JArr
      (map enc_label u.u_surface_labels))) :: (((String ((Ascii (false, true,
      true, false, true, true, true, false)), (String ((Ascii (true, true,
      true, true, false, true, true, false)), (String ((Ascii (false, false,
      true, true, false, true, true, false)), (String ((Ascii (true, false,
      true, false, true, true, true, false)), (String ((Ascii (true, false,
      true, true, false, true, true, false)), (String ((Ascii (true, false,
      true, false, false, true, true, false)), (String ((Ascii (true, true,
      true, true, true, false, true, false)), (String ((Ascii (false, false,
      true, true, false, true, true, false)), (String ((Ascii (true, false,
      false, false, false, true, true, false)), (String ((Ascii (false, true,
      false, false, false, true, true, false)), (String ((Ascii (true, false,
      true, false, false, true, true, false)), (String ((Ascii (false, false,
      true, true, false, true, true, false)), (String ((Ascii (true, true,
      false, false, true, true, true, false)),
      EmptyString)))))))))))))))))))))))))), (JArr
      (map (fun v -> enc_label v.v_label) u.u_volumes))) :: []))))))
      (app
        (opt_entry
          ((&&) (bbox_nonnull u.u_bbox) (negb (bbox_eqb u.u_bbox inf_bbox)))
          (String ((Ascii (false, true, false, false, false, true, true,
          false)), (String ((Ascii (false, true, false, false, false, true,
          true, false)), (String ((Ascii (true, true, true, true, false,
          true, true, false)), (String ((Ascii (false, false, false, true,
          true, true, true, false)), EmptyString)))))))) (enc_bbox u.u_bbox))
        (if is_nil u.u_daughters
         then []
         else ((String ((Ascii (false, false, false, false, true, true, true,
                false)), (String ((Ascii (true, false, false, false, false,
                true, true, false)), (String ((Ascii (false, true, false,
                false, true, true, true, false)), (String ((Ascii (true,
                false, true, false, false, true, true, false)), (String
                ((Ascii (false, true, true, true, false, true, true, false)),
                (String ((Ascii (false, false, true, false, true, true, true,
                false)), (String ((Ascii (true, true, true, true, true,
                false, true, false)), (String ((Ascii (true, true, false,
                false, false, true, true, false)), (String ((Ascii (true,
                false, true, false, false, true, true, false)), (String
                ((Ascii (false, false, true, true, false, true, true,
                false)), (String ((Ascii (false, false, true, true, false,
                true, true, false)), (String ((Ascii (true, true, false,
                false, true, true, true, false)),
                EmptyString)))))))))))))))))))))))), (JArr
                (map (fun kd -> JInt (fst kd)) u.u_daughters))) :: (((String
                ((Ascii (false, false, true, false, false, true, true,
                false)), (String ((Ascii (true, false, false, false, false,
                true, true, false)), (String ((Ascii (true, false, true,
                false, true, true, true, false)), (String ((Ascii (true,
                true, true, false, false, true, true, false)), (String
                ((Ascii (false, false, false, true, false, true, true,
                false)), (String ((Ascii (false, false, true, false, true,
                true, true, false)), (String ((Ascii (true, false, true,
                false, false, true, true, false)), (String ((Ascii (false,
                true, false, false, true, true, true, false)), (String
                ((Ascii (true, true, false, false, true, true, true, false)),
                EmptyString)))))))))))))))))), (JArr
                (map (fun kd -> JInt (snd kd).d_univ) u.u_daughters))) :: (((String
                ((Ascii (false, false, true, false, true, true, true,
                false)), (String ((Ascii (false, true, false, false, true,
                true, true, false)), (String ((Ascii (true, false, false,
                false, false, true, true, false)), (String ((Ascii (false,
                true, true, true, false, true, true, false)), (String ((Ascii
                (true, true, false, false, true, true, true, false)), (String
                ((Ascii (false, true, true, false, false, true, true,
                false)), (String ((Ascii (true, true, true, true, false,
                true, true, false)), (String ((Ascii (false, true, false,
                false, true, true, true, false)), (String ((Ascii (true,
                false, true, true, false, true, true, false)), (String
                ((Ascii (true, true, false, false, true, true, true, false)),
                EmptyString)))))))))))))))))))), (JArr
                (map (fun kd -> enc_transform (snd kd).d_trans) u.u_daughters))) :: [])))))

(** val first_key : string list -> json -> json option **)

let rec first_key ks j =
  match ks with
  | [] -> None
  | k :: r -> (match jget k j with
               | Some v -> Some v
               | None -> first_key r j)

(** val emplace :
    z -> daughter -> (z * daughter) list -> (z * daughter) list **)

let rec emplace k d m = match m with
| [] -> (k, d) :: []
| p :: r ->
  let (k', d') = p in
  if Z.ltb k k'
  then (k, d) :: m
  else if Z.eqb k k' then m else (k', d') :: (emplace k d r)

(** val chunk3 : flt list -> vec3 list **)

let rec chunk3 = function
| [] -> []
| a :: l0 ->
  (match l0 with
   | [] -> []
   | b :: l1 -> (match l1 with
                 | [] -> []
                 | c :: r -> ((a, b), c) :: (chunk3 r)))

(** val dec_daughters_key :
    string -> json -> (z * daughter) list -> (z * daughter) list option **)

let dec_daughters_key key j acc =
  match jget key j with
  | Some pj ->
    obind (dec_arr dec_int pj) (fun parents ->
      obind
        (jget (String ((Ascii (false, false, true, false, false, true, true,
          false)), (String ((Ascii (true, false, false, false, false, true,
          true, false)), (String ((Ascii (true, false, true, false, true,
          true, true, false)), (String ((Ascii (true, true, true, false,
          false, true, true, false)), (String ((Ascii (false, false, false,
          true, false, true, true, false)), (String ((Ascii (false, false,
          true, false, true, true, true, false)), (String ((Ascii (true,
          false, true, false, false, true, true, false)), (String ((Ascii
          (false, true, false, false, true, true, true, false)), (String
          ((Ascii (true, true, false, false, true, true, true, false)),
          EmptyString)))))))))))))))))) j) (fun dj ->
        obind (dec_arr dec_int dj) (fun ds ->
          if negb (Nat.eqb (length parents) (length ds))
          then None
          else obind
                 (match jget (String ((Ascii (false, false, true, false,
                          true, true, true, false)), (String ((Ascii (false,
                          true, false, false, true, true, true, false)),
                          (String ((Ascii (true, false, false, false, false,
                          true, true, false)), (String ((Ascii (false, true,
                          true, true, false, true, true, false)), (String
                          ((Ascii (true, true, false, false, true, true,
                          true, false)), (String ((Ascii (false, true, true,
                          false, false, true, true, false)), (String ((Ascii
                          (true, true, true, true, false, true, true,
                          false)), (String ((Ascii (false, true, false,
                          false, true, true, true, false)), (String ((Ascii
                          (true, false, true, true, false, true, true,
                          false)), (String ((Ascii (true, true, false, false,
                          true, true, true, false)),
                          EmptyString)))))))))))))))))))) j with
                  | Some j0 ->
                    (match j0 with
                     | JArr ts -> dec_list dec_transform ts
                     | _ -> None)
                  | None ->
                    (match jget (String ((Ascii (false, false, true, false,
                             true, true, true, false)), (String ((Ascii
                             (false, true, false, false, true, true, true,
                             false)), (String ((Ascii (true, false, false,
                             false, false, true, true, false)), (String
                             ((Ascii (false, true, true, true, false, true,
                             true, false)), (String ((Ascii (true, true,
                             false, false, true, true, true, false)), (String
                             ((Ascii (false, false, true, true, false, true,
                             true, false)), (String ((Ascii (true, false,
                             false, false, false, true, true, false)),
                             (String ((Ascii (false, false, true, false,
                             true, true, true, false)), (String ((Ascii
                             (true, false, false, true, false, true, true,
                             false)), (String ((Ascii (true, true, true,
                             true, false, true, true, false)), (String
                             ((Ascii (false, true, true, true, false, true,
                             true, false)), (String ((Ascii (true, true,
                             false, false, true, true, true, false)),
                             EmptyString)))))))))))))))))))))))) j with
                     | Some tj ->
                       obind (dec_arr dec_real tj) (fun tr ->
                         if negb
                              (Nat.eqb (mul (S (S (S O))) (length parents))
                                (length tr))
                         then None
                         else Some (map make_transform (chunk3 tr)))
                     | None -> None)) (fun transforms ->
                 if negb (Nat.eqb (length transforms) (length parents))
                 then None
                 else Some
                        (fold_left (fun m pdt ->
                          emplace (fst (fst pdt)) { d_univ = (snd (fst pdt));
                            d_trans = (snd pdt) } m)
                          (combine (combine parents ds) transforms) acc)))))
  | None -> Some acc

(** val dec_unit : json -> unit_in option **)

let dec_unit j =
  obind
    (jget (String ((Ascii (true, false, true, true, false, true, true,
      false)), (String ((Ascii (false, false, true, false, false, true, true,
      false)), EmptyString)))) j) (fun md ->
    obind
      (jget (String ((Ascii (false, true, true, true, false, true, true,
        false)), (String ((Ascii (true, false, false, false, false, true,
        true, false)), (String ((Ascii (true, false, true, true, false, true,
        true, false)), (String ((Ascii (true, false, true, false, false,
        true, true, false)), EmptyString)))))))) md) (fun nj ->
      obind (dec_label nj) (fun lab ->
        obind
          (jget (String ((Ascii (true, true, false, false, true, true, true,
            false)), (String ((Ascii (true, false, true, false, true, true,
            true, false)), (String ((Ascii (false, true, false, false, true,
            true, true, false)), (String ((Ascii (false, true, true, false,
            false, true, true, false)), (String ((Ascii (true, false, false,
            false, false, true, true, false)), (String ((Ascii (true, true,
            false, false, false, true, true, false)), (String ((Ascii (true,
            false, true, false, false, true, true, false)), (String ((Ascii
            (true, true, false, false, true, true, true, false)),
            EmptyString)))))))))))))))) j) (fun sj ->
          obind (dec_surfaces sj) (fun surfaces ->
            obind
              (match first_key ((String ((Ascii (false, true, true, false,
                       true, true, true, false)), (String ((Ascii (true,
                       true, true, true, false, true, true, false)), (String
                       ((Ascii (false, false, true, true, false, true, true,
                       false)), (String ((Ascii (true, false, true, false,
                       true, true, true, false)), (String ((Ascii (true,
                       false, true, true, false, true, true, false)), (String
                       ((Ascii (true, false, true, false, false, true, true,
                       false)), (String ((Ascii (true, true, false, false,
                       true, true, true, false)),
                       EmptyString)))))))))))))) :: ((String ((Ascii (true,
                       true, false, false, false, true, true, false)),
                       (String ((Ascii (true, false, true, false, false,
                       true, true, false)), (String ((Ascii (false, false,
                       true, true, false, true, true, false)), (String
                       ((Ascii (false, false, true, true, false, true, true,
                       false)), (String ((Ascii (true, true, false, false,
                       true, true, true, false)),
                       EmptyString)))))))))) :: [])) j with
               | Some vj -> dec_arr dec_volume vj
               | None -> Some []) (fun vols ->
              obind
                (match first_key ((String ((Ascii (false, true, true, false,
                         true, true, true, false)), (String ((Ascii (true,
                         true, true, true, false, true, true, false)),
                         (String ((Ascii (false, false, true, true, false,
                         true, true, false)), (String ((Ascii (true, false,
                         true, false, true, true, true, false)), (String
                         ((Ascii (true, false, true, true, false, true, true,
                         false)), (String ((Ascii (true, false, true, false,
                         false, true, true, false)), (String ((Ascii (true,
                         true, true, true, true, false, true, false)),
                         (String ((Ascii (false, false, true, true, false,
                         true, true, false)), (String ((Ascii (true, false,
                         false, false, false, true, true, false)), (String
                         ((Ascii (false, true, false, false, false, true,
                         true, false)), (String ((Ascii (true, false, true,
                         false, false, true, true, false)), (String ((Ascii
                         (false, false, true, true, false, true, true,
                         false)), (String ((Ascii (true, true, false, false,
                         true, true, true, false)),
                         EmptyString)))))))))))))))))))))))))) :: ((String
                         ((Ascii (true, true, false, false, false, true,
                         true, false)), (String ((Ascii (true, false, true,
                         false, false, true, true, false)), (String ((Ascii
                         (false, false, true, true, false, true, true,
                         false)), (String ((Ascii (false, false, true, true,
                         false, true, true, false)), (String ((Ascii (true,
                         true, true, true, true, false, true, false)),
                         (String ((Ascii (false, true, true, true, false,
                         true, true, false)), (String ((Ascii (true, false,
                         false, false, false, true, true, false)), (String
                         ((Ascii (true, false, true, true, false, true, true,
                         false)), (String ((Ascii (true, false, true, false,
                         false, true, true, false)), (String ((Ascii (true,
                         true, false, false, true, true, true, false)),
                         EmptyString)))))))))))))))))))) :: [])) j with
                 | Some lj -> dec_arr dec_label lj
                 | None -> Some []) (fun labels ->
                obind
                  (if is_nil labels
                   then Some vols
                   else if Nat.eqb (length labels) (length vols)
                        then Some (map set_label (combine labels vols))
                        else None) (fun vols' ->
                  obind
                    (match first_key ((String ((Ascii (true, true, false,
                             false, true, true, true, false)), (String
                             ((Ascii (true, false, true, false, true, true,
                             true, false)), (String ((Ascii (false, true,
                             false, false, true, true, true, false)), (String
                             ((Ascii (false, true, true, false, false, true,
                             true, false)), (String ((Ascii (true, false,
                             false, false, false, true, true, false)),
                             (String ((Ascii (true, true, false, false,
                             false, true, true, false)), (String ((Ascii
                             (true, false, true, false, false, true, true,
                             false)), (String ((Ascii (true, true, true,
                             true, true, false, true, false)), (String
                             ((Ascii (false, false, true, true, false, true,
                             true, false)), (String ((Ascii (true, false,
                             false, false, false, true, true, false)),
                             (String ((Ascii (false, true, false, false,
                             false, true, true, false)), (String ((Ascii
                             (true, false, true, false, false, true, true,
                             false)), (String ((Ascii (false, false, true,
                             true, false, true, true, false)), (String
                             ((Ascii (true, true, false, false, true, true,
                             true, false)),
                             EmptyString)))))))))))))))))))))))))))) :: ((String
                             ((Ascii (true, true, false, false, true, true,
                             true, false)), (String ((Ascii (true, false,
                             true, false, true, true, true, false)), (String
                             ((Ascii (false, true, false, false, true, true,
                             true, false)), (String ((Ascii (false, true,
                             true, false, false, true, true, false)), (String
                             ((Ascii (true, false, false, false, false, true,
                             true, false)), (String ((Ascii (true, true,
                             false, false, false, true, true, false)),
                             (String ((Ascii (true, false, true, false,
                             false, true, true, false)), (String ((Ascii
                             (true, true, true, true, true, false, true,
                             false)), (String ((Ascii (false, true, true,
                             true, false, true, true, false)), (String
                             ((Ascii (true, false, false, false, false, true,
                             true, false)), (String ((Ascii (true, false,
                             true, true, false, true, true, false)), (String
                             ((Ascii (true, false, true, false, false, true,
                             true, false)), (String ((Ascii (true, true,
                             false, false, true, true, true, false)),
                             EmptyString)))))))))))))))))))))))))) :: [])) j with
                     | Some lj -> dec_arr dec_label lj
                     | None -> Some []) (fun slabels ->
                    if negb
                         ((||) (Nat.eqb (length slabels) (length surfaces))
                           (is_nil slabels))
                    then None
                    else obind (get_bbox j) (fun bb ->
                           obind
                             (dec_daughters_key (String ((Ascii (false,
                               false, false, false, true, true, true,
                               false)), (String ((Ascii (true, false, false,
                               false, false, true, true, false)), (String
                               ((Ascii (false, true, false, false, true,
                               true, true, false)), (String ((Ascii (true,
                               false, true, false, false, true, true,
                               false)), (String ((Ascii (false, true, true,
                               true, false, true, true, false)), (String
                               ((Ascii (false, false, true, false, true,
                               true, true, false)), (String ((Ascii (true,
                               true, true, true, true, false, true, false)),
                               (String ((Ascii (false, true, true, false,
                               true, true, true, false)), (String ((Ascii
                               (true, true, true, true, false, true, true,
                               false)), (String ((Ascii (false, false, true,
                               true, false, true, true, false)), (String
                               ((Ascii (true, false, true, false, true, true,
                               true, false)), (String ((Ascii (true, false,
                               true, true, false, true, true, false)),
                               (String ((Ascii (true, false, true, false,
                               false, true, true, false)), (String ((Ascii
                               (true, true, false, false, true, true, true,
                               false)),
                               EmptyString)))))))))))))))))))))))))))) j [])
                             (fun dm1 ->
                             obind
                               (dec_daughters_key (String ((Ascii (false,
                                 false, false, false, true, true, true,
                                 false)), (String ((Ascii (true, false,
                                 false, false, false, true, true, false)),
                                 (String ((Ascii (false, true, false, false,
                                 true, true, true, false)), (String ((Ascii
                                 (true, false, true, false, false, true,
                                 true, false)), (String ((Ascii (false, true,
                                 true, true, false, true, true, false)),
                                 (String ((Ascii (false, false, true, false,
                                 true, true, true, false)), (String ((Ascii
                                 (true, true, true, true, true, false, true,
                                 false)), (String ((Ascii (true, true, false,
                                 false, false, true, true, false)), (String
                                 ((Ascii (true, false, true, false, false,
                                 true, true, false)), (String ((Ascii (false,
                                 false, true, true, false, true, true,
                                 false)), (String ((Ascii (false, false,
                                 true, true, false, true, true, false)),
                                 (String ((Ascii (true, true, false, false,
                                 true, true, true, false)),
                                 EmptyString)))))))))))))))))))))))) j dm1)
                               (fun dm -> Some { u_surfaces = surfaces;
                               u_volumes = vols'; u_bbox = bb; u_daughters =
                               dm; u_surface_labels = slabels; u_label =
                               lab }))))))))))))

(** val keys_sorted : (z * daughter) list -> bool **)

let rec keys_sorted = function
| [] -> true
| p :: r ->
  let (k, _) = p in
  (match r with
   | [] -> true
   | p0 :: _ -> let (k', _) = p0 in (&&) (Z.ltb k k') (keys_sorted r))

(** val wfb_unit : unit_in -> bool **)

let wfb_unit u =
  (&&)
    ((&&)
      ((&&)
        ((&&)
          ((&&)
            ((&&)
              ((&&)
                ((&&) (forallb wfb_surface u.u_surfaces)
                  (forallb wfb_volume u.u_volumes)) (wfb_bbox u.u_bbox))
              (bbox_nonnull u.u_bbox)) (keys_sorted u.u_daughters))
          (forallb (fun kd -> wfb_transform (snd kd).d_trans) u.u_daughters))
        (forallb wfb_label u.u_surface_labels))
      ((||) (Nat.eqb (length u.u_surface_labels) (length u.u_surfaces))
        (is_nil u.u_surface_labels))) (wfb_label u.u_label)

type rectarray = { r_grid : ((flt list * flt list) * flt list);
                   r_daughters : daughter list; r_label : label }

(** val rect_translation : daughter -> flt list option **)

let rect_translation d =
  match d.d_trans with
  | NoTrans -> Some (f_ZERO :: (f_ZERO :: (f_ZERO :: [])))
  | Transl t -> Some (v3list t)
  | Transf (_, _, _, _) -> None

(** val opt_concat :
    ('a1 -> 'a2 list option) -> 'a1 list -> 'a2 list option **)

let rec opt_concat f = function
| [] -> Some []
| a :: r ->
  obind (f a) (fun x -> obind (opt_concat f r) (fun t -> Some (app x t)))

(** val enc_rectarray : rectarray -> json option **)

let enc_rectarray r =
  obind (opt_concat rect_translation r.r_daughters) (fun tr ->
    let (p, gz) = r.r_grid in
    let (gx, gy) = p in
    Some (JObj (((String ((Ascii (true, true, true, true, true, false, true,
    false)), (String ((Ascii (false, false, true, false, true, true, true,
    false)), (String ((Ascii (true, false, false, true, true, true, true,
    false)), (String ((Ascii (false, false, false, false, true, true, true,
    false)), (String ((Ascii (true, false, true, false, false, true, true,
    false)), EmptyString)))))))))), (JStr (String ((Ascii (false, true,
    false, false, true, true, true, false)), (String ((Ascii (true, false,
    true, false, false, true, true, false)), (String ((Ascii (true, true,
    false, false, false, true, true, false)), (String ((Ascii (false, false,
    true, false, true, true, true, false)), (String ((Ascii (true, false,
    false, false, false, true, true, false)), (String ((Ascii (false, true,
    false, false, true, true, true, false)), (String ((Ascii (false, true,
    false, false, true, true, true, false)), (String ((Ascii (true, false,
    false, false, false, true, true, false)), (String ((Ascii (true, false,
    false, true, true, true, true, false)),
    EmptyString)))))))))))))))))))) :: (((String ((Ascii (true, false, true,
    true, false, true, true, false)), (String ((Ascii (false, false, true,
    false, false, true, true, false)), EmptyString)))), (JObj (((String
    ((Ascii (false, true, true, true, false, true, true, false)), (String
    ((Ascii (true, false, false, false, false, true, true, false)), (String
    ((Ascii (true, false, true, true, false, true, true, false)), (String
    ((Ascii (true, false, true, false, false, true, true, false)),
    EmptyString)))))))), (enc_label r.r_label)) :: []))) :: (((String ((Ascii
    (false, false, false, true, true, true, true, false)), EmptyString)),
    (JArr (map (fun x -> JFlt x) gx))) :: (((String ((Ascii (true, false,
    false, true, true, true, true, false)), EmptyString)), (JArr
    (map (fun x -> JFlt x) gy))) :: (((String ((Ascii (false, true, false,
    true, true, true, true, false)), EmptyString)), (JArr
    (map (fun x -> JFlt x) gz))) :: (((String ((Ascii (false, false, true,
    false, false, true, true, false)), (String ((Ascii (true, false, false,
    false, false, true, true, false)), (String ((Ascii (true, false, true,
    false, true, true, true, false)), (String ((Ascii (true, true, true,
    false, false, true, true, false)), (String ((Ascii (false, false, false,
    true, false, true, true, false)), (String ((Ascii (false, false, true,
    false, true, true, true, false)), (String ((Ascii (true, false, true,
    false, false, true, true, false)), (String ((Ascii (false, true, false,
    false, true, true, true, false)), (String ((Ascii (true, true, false,
    false, true, true, true, false)), EmptyString)))))))))))))))))), (JArr
    (map (fun d -> JInt d.d_univ) r.r_daughters))) :: (((String ((Ascii
    (false, false, true, false, true, true, true, false)), (String ((Ascii
    (false, true, false, false, true, true, true, false)), (String ((Ascii
    (true, false, false, false, false, true, true, false)), (String ((Ascii
    (false, true, true, true, false, true, true, false)), (String ((Ascii
    (true, true, false, false, true, true, true, false)), (String ((Ascii
    (false, false, true, true, false, true, true, false)), (String ((Ascii
    (true, false, false, false, false, true, true, false)), (String ((Ascii
    (false, false, true, false, true, true, true, false)), (String ((Ascii
    (true, false, false, true, false, true, true, false)), (String ((Ascii
    (true, true, true, true, false, true, true, false)), (String ((Ascii
    (false, true, true, true, false, true, true, false)), (String ((Ascii
    (true, true, false, false, true, true, true, false)),
    EmptyString)))))))))))))))))))))))), (JArr
    (map (fun x -> JFlt x) tr))) :: [])))))))))

(** val iNVALID_ID : z **)

let iNVALID_ID =
  Zpos (XI (XI (XI (XI (XI (XI (XI (XI (XI (XI (XI (XI (XI (XI (XI (XI (XI
    (XI (XI (XI (XI (XI (XI (XI (XI (XI (XI (XI (XI (XI (XI (XI (XI (XI (XI
    (XI (XI (XI (XI (XI (XI (XI (XI (XI (XI (XI (XI (XI (XI (XI (XI (XI (XI
    (XI (XI (XI (XI (XI (XI (XI (XI (XI (XI
    XH)))))))))))))))))))))))))))))))))))))))))))))))))))))))))))))))

(** val default_daughter : daughter **)

let default_daughter =
  { d_univ = iNVALID_ID; d_trans = NoTrans }

(** val list_set : 'a1 list -> nat -> 'a1 -> 'a1 list option **)

let rec list_set l i x =
  match l with
  | [] -> None
  | a :: r ->
    (match i with
     | O -> Some (x :: r)
     | S i' -> obind (list_set r i' x) (fun t -> Some (a :: t)))

(** val place_daughters :
    z list -> daughter list -> daughter list -> daughter list option **)

let rec place_daughters ps ds acc =
  match ps with
  | [] -> (match ds with
           | [] -> Some acc
           | _ :: _ -> None)
  | p :: pr ->
    (match ds with
     | [] -> Some acc
     | d :: dr ->
       if Z.ltb p Z0
       then None
       else obind (list_set acc (Z.to_nat p) d) (fun acc' ->
              place_daughters pr dr acc'))

(** val dec_grid : string -> json -> flt list option **)

let dec_grid k j =
  obind (jget k j) (fun gj ->
    obind (dec_arr dec_real gj) (fun g ->
      if Nat.ltb (length g) (S (S O)) then None else Some g))

(** val dec_rectarray : json -> rectarray option **)

let dec_rectarray j =
  obind
    (jget (String ((Ascii (true, false, true, true, false, true, true,
      false)), (String ((Ascii (false, false, true, false, false, true, true,
      false)), EmptyString)))) j) (fun md ->
    obind
      (jget (String ((Ascii (false, true, true, true, false, true, true,
        false)), (String ((Ascii (true, false, false, false, false, true,
        true, false)), (String ((Ascii (true, false, true, true, false, true,
        true, false)), (String ((Ascii (true, false, true, false, false,
        true, true, false)), EmptyString)))))))) md) (fun nj ->
      obind (dec_label nj) (fun lab ->
        obind
          (dec_grid (String ((Ascii (false, false, false, true, true, true,
            true, false)), EmptyString)) j) (fun gx ->
          obind
            (dec_grid (String ((Ascii (true, false, false, true, true, true,
              true, false)), EmptyString)) j) (fun gy ->
            obind
              (dec_grid (String ((Ascii (false, true, false, true, true,
                true, true, false)), EmptyString)) j) (fun gz ->
              if jcontains (String ((Ascii (false, false, true, false, true,
                   true, true, false)), (String ((Ascii (false, true, false,
                   false, true, true, true, false)), (String ((Ascii (true,
                   false, false, false, false, true, true, false)), (String
                   ((Ascii (false, true, true, true, false, true, true,
                   false)), (String ((Ascii (true, true, false, false, true,
                   true, true, false)), (String ((Ascii (false, true, true,
                   false, false, true, true, false)), (String ((Ascii (true,
                   true, true, true, false, true, true, false)), (String
                   ((Ascii (false, true, false, false, true, true, true,
                   false)), (String ((Ascii (true, false, true, true, false,
                   true, true, false)), (String ((Ascii (true, true, false,
                   false, true, true, true, false)),
                   EmptyString)))))))))))))))))))) j
              then None
              else obind
                     (match jget (String ((Ascii (false, false, false, false,
                              true, true, true, false)), (String ((Ascii
                              (true, false, false, false, false, true, true,
                              false)), (String ((Ascii (false, true, false,
                              false, true, true, true, false)), (String
                              ((Ascii (true, false, true, false, false, true,
                              true, false)), (String ((Ascii (false, true,
                              true, true, false, true, true, false)), (String
                              ((Ascii (false, false, true, false, true, true,
                              true, false)), (String ((Ascii (true, true,
                              true, true, true, false, true, false)), (String
                              ((Ascii (true, true, false, false, false, true,
                              true, false)), (String ((Ascii (true, false,
                              true, false, false, true, true, false)),
                              (String ((Ascii (false, false, true, true,
                              false, true, true, false)), (String ((Ascii
                              (false, false, true, true, false, true, true,
                              false)), (String ((Ascii (true, true, false,
                              false, true, true, true, false)),
                              EmptyString)))))))))))))))))))))))) j with
                      | Some pj -> dec_arr dec_int pj
                      | None -> Some []) (fun parents ->
                     obind
                       (jget (String ((Ascii (false, false, true, false,
                         false, true, true, false)), (String ((Ascii (true,
                         false, false, false, false, true, true, false)),
                         (String ((Ascii (true, false, true, false, true,
                         true, true, false)), (String ((Ascii (true, true,
                         true, false, false, true, true, false)), (String
                         ((Ascii (false, false, false, true, false, true,
                         true, false)), (String ((Ascii (false, false, true,
                         false, true, true, true, false)), (String ((Ascii
                         (true, false, true, false, false, true, true,
                         false)), (String ((Ascii (false, true, false, false,
                         true, true, true, false)), (String ((Ascii (true,
                         true, false, false, true, true, true, false)),
                         EmptyString)))))))))))))))))) j) (fun dj ->
                       obind (dec_arr dec_int dj) (fun ds ->
                         obind
                           (jget (String ((Ascii (false, false, true, false,
                             true, true, true, false)), (String ((Ascii
                             (false, true, false, false, true, true, true,
                             false)), (String ((Ascii (true, false, false,
                             false, false, true, true, false)), (String
                             ((Ascii (false, true, true, true, false, true,
                             true, false)), (String ((Ascii (true, true,
                             false, false, true, true, true, false)), (String
                             ((Ascii (false, false, true, true, false, true,
                             true, false)), (String ((Ascii (true, false,
                             false, false, false, true, true, false)),
                             (String ((Ascii (false, false, true, false,
                             true, true, true, false)), (String ((Ascii
                             (true, false, false, true, false, true, true,
                             false)), (String ((Ascii (true, true, true,
                             true, false, true, true, false)), (String
                             ((Ascii (false, true, true, true, false, true,
                             true, false)), (String ((Ascii (true, true,
                             false, false, true, true, true, false)),
                             EmptyString)))))))))))))))))))))))) j)
                           (fun tj ->
                           obind (dec_arr dec_real tj) (fun tr ->
                             if negb
                                  (Nat.eqb (mul (S (S (S O))) (length ds))
                                    (length tr))
                             then None
                             else let dl =
                                    map (fun ut -> { d_univ = (fst ut);
                                      d_trans = (make_transform (snd ut)) })
                                      (combine ds (chunk3 tr))
                                  in
                                  obind
                                    (if is_nil parents
                                     then Some dl
                                     else place_daughters parents dl
                                            (repeat default_daughter
                                              (length ds))) (fun daughters ->
                                    Some { r_grid = ((gx, gy), gz);
                                    r_daughters = daughters; r_label = lab }))))))))))))

(** val rect_daughter_ok : daughter -> bool **)

let rect_daughter_ok d =
  match d.d_trans with
  | NoTrans -> true
  | Transl t -> (&&) (negb (vall is_zero t)) (vall is_finite t)
  | Transf (_, _, _, _) -> false

(** val grid_ok : flt list -> bool **)

let grid_ok g =
  (&&) (Nat.leb (S (S O)) (length g)) (forallb is_finite g)

(** val wfb_rectarray : rectarray -> bool **)

let wfb_rectarray r =
  let (p, gz) = r.r_grid in
  let (gx, gy) = p in
  (&&)
    ((&&) ((&&) ((&&) (grid_ok gx) (grid_ok gy)) (grid_ok gz))
      (forallb rect_daughter_ok r.r_daughters)) (wfb_label r.r_label)

type tolerance = { t_rel : flt; t_abs : flt }

(** val tol_valid : tolerance -> bool **)

let tol_valid t =
  (&&) ((&&) (fltb f_ZERO t.t_rel) (fltb t.t_rel f_ONE)) (fltb f_ZERO t.t_abs)

(** val enc_tolerance : tolerance -> json **)

let enc_tolerance t =
  JObj (((String ((Ascii (false, true, false, false, true, true, true,
    false)), (String ((Ascii (true, false, true, false, false, true, true,
    false)), (String ((Ascii (false, false, true, true, false, true, true,
    false)), EmptyString)))))), (JFlt t.t_rel)) :: (((String ((Ascii (true,
    false, false, false, false, true, true, false)), (String ((Ascii (false,
    true, false, false, false, true, true, false)), (String ((Ascii (true,
    true, false, false, true, true, true, false)), EmptyString)))))), (JFlt
    t.t_abs)) :: []))

(** val dec_tolerance : json -> tolerance option **)

let dec_tolerance j =
  obind
    (jget (String ((Ascii (false, true, false, false, true, true, true,
      false)), (String ((Ascii (true, false, true, false, false, true, true,
      false)), (String ((Ascii (false, false, true, true, false, true, true,
      false)), EmptyString)))))) j) (fun rj ->
    obind (dec_real rj) (fun rel ->
      if negb ((&&) (fltb f_ZERO rel) (fltb rel f_ONE))
      then None
      else obind
             (jget (String ((Ascii (true, false, false, false, false, true,
               true, false)), (String ((Ascii (false, true, false, false,
               false, true, true, false)), (String ((Ascii (true, true,
               false, false, true, true, true, false)), EmptyString)))))) j)
             (fun aj ->
             obind (dec_real aj) (fun ab ->
               if negb (fltb f_ZERO ab)
               then None
               else Some { t_rel = rel; t_abs = ab }))))

(** val f_DEFAULT_TOL : flt **)

let f_DEFAULT_TOL =
  Zpos (XI (XI (XO (XI (XO (XI (XO (XO (XI (XO (XO (XI (XO (XI (XI (XO (XO
    (XO (XI (XO (XO (XI (XO (XI (XI (XO (XO (XI (XO (XI (XO (XO (XI (XI (XO
    (XI (XO (XI (XO (XO (XI (XI (XO (XI (XI (XO (XO (XO (XO (XO (XO (XO (XI
    (XO (XI (XO (XO (XI (XI (XI (XI
    XH)))))))))))))))))))))))))))))))))))))))))))))))))))))))))))))

(** val default_tol : tolerance **)

let default_tol =
  { t_rel = f_DEFAULT_TOL; t_abs = f_DEFAULT_TOL }

(** val wfb_tolerance : tolerance -> bool **)

let wfb_tolerance t =
  (&&) (tol_valid t) (is_finite t.t_abs)

type universe =
| UUnit of unit_in
| URect of rectarray

type orange_input = { oi_universes : universe list; oi_tol : tolerance }

(** val nATIVE_UNITS : string **)

let nATIVE_UNITS =
  String ((Ascii (true, true, false, false, false, true, true, false)),
    (String ((Ascii (true, true, true, false, false, true, true, false)),
    (String ((Ascii (true, true, false, false, true, true, true, false)),
    EmptyString)))))

(** val enc_universe : universe -> json option **)

let enc_universe = function
| UUnit u0 -> Some (enc_unit u0)
| URect r -> enc_rectarray r

(** val enc_input : orange_input -> json option **)

let enc_input x =
  obind (opt_map enc_universe x.oi_universes) (fun us -> Some (JObj
    (app (((String ((Ascii (true, true, true, true, true, false, true,
      false)), (String ((Ascii (false, true, true, false, false, true, true,
      false)), (String ((Ascii (true, true, true, true, false, true, true,
      false)), (String ((Ascii (false, true, false, false, true, true, true,
      false)), (String ((Ascii (true, false, true, true, false, true, true,
      false)), (String ((Ascii (true, false, false, false, false, true, true,
      false)), (String ((Ascii (false, false, true, false, true, true, true,
      false)), EmptyString)))))))))))))), (JStr (String ((Ascii (true, true,
      true, true, false, false, true, false)), (String ((Ascii (false, true,
      false, false, true, false, true, false)), (String ((Ascii (true, false,
      false, false, false, false, true, false)), (String ((Ascii (false,
      true, true, true, false, false, true, false)), (String ((Ascii (true,
      true, true, false, false, false, true, false)), (String ((Ascii (true,
      false, true, false, false, false, true, false)),
      EmptyString)))))))))))))) :: (((String ((Ascii (true, true, true, true,
      true, false, true, false)), (String ((Ascii (false, true, true, false,
      true, true, true, false)), (String ((Ascii (true, false, true, false,
      false, true, true, false)), (String ((Ascii (false, true, false, false,
      true, true, true, false)), (String ((Ascii (true, true, false, false,
      true, true, true, false)), (String ((Ascii (true, false, false, true,
      false, true, true, false)), (String ((Ascii (true, true, true, true,
      false, true, true, false)), (String ((Ascii (false, true, true, true,
      false, true, true, false)), EmptyString)))))))))))))))), (JInt
      Z0)) :: (((String ((Ascii (true, false, true, false, true, true, true,
      false)), (String ((Ascii (false, true, true, true, false, true, true,
      false)), (String ((Ascii (true, false, false, true, false, true, true,
      false)), (String ((Ascii (false, true, true, false, true, true, true,
      false)), (String ((Ascii (true, false, true, false, false, true, true,
      false)), (String ((Ascii (false, true, false, false, true, true, true,
      false)), (String ((Ascii (true, true, false, false, true, true, true,
      false)), (String ((Ascii (true, false, true, false, false, true, true,
      false)), (String ((Ascii (true, true, false, false, true, true, true,
      false)), EmptyString)))))))))))))))))), (JArr us)) :: [])))
      (app
        (opt_entry (tol_valid x.oi_tol) (String ((Ascii (false, false, true,
          false, true, true, true, false)), (String ((Ascii (true, true,
          true, true, false, true, true, false)), (String ((Ascii (false,
          false, true, true, false, true, true, false)), EmptyString))))))
          (enc_tolerance x.oi_tol)) (((String ((Ascii (true, true, true,
        true, true, false, true, false)), (String ((Ascii (true, false, true,
        false, true, true, true, false)), (String ((Ascii (false, true, true,
        true, false, true, true, false)), (String ((Ascii (true, false,
        false, true, false, true, true, false)), (String ((Ascii (false,
        false, true, false, true, true, true, false)), (String ((Ascii (true,
        true, false, false, true, true, true, false)),
        EmptyString)))))))))))), (JStr nATIVE_UNITS)) :: [])))))

(** val str_in : string -> string list -> bool **)

let str_in s l =
  existsb (eqb1 s) l

(** val dec_universe : json -> universe option **)

let dec_universe j =
  obind
    (jget (String ((Ascii (true, true, true, true, true, false, true,
      false)), (String ((Ascii (false, false, true, false, true, true, true,
      false)), (String ((Ascii (true, false, false, true, true, true, true,
      false)), (String ((Ascii (false, false, false, false, true, true, true,
      false)), (String ((Ascii (true, false, true, false, false, true, true,
      false)), EmptyString)))))))))) j) (fun tj ->
    obind (dec_str tj) (fun ty ->
      if str_in ty ((String ((Ascii (true, false, true, false, true, true,
           true, false)), (String ((Ascii (false, true, true, true, false,
           true, true, false)), (String ((Ascii (true, false, false, true,
           false, true, true, false)), (String ((Ascii (false, false, true,
           false, true, true, true, false)), EmptyString)))))))) :: ((String
           ((Ascii (true, true, false, false, true, true, true, false)),
           (String ((Ascii (true, false, false, true, false, true, true,
           false)), (String ((Ascii (true, false, true, true, false, true,
           true, false)), (String ((Ascii (false, false, false, false, true,
           true, true, false)), (String ((Ascii (false, false, true, true,
           false, true, true, false)), (String ((Ascii (true, false, true,
           false, false, true, true, false)), (String ((Ascii (false, false,
           false, false, false, true, false, false)), (String ((Ascii (true,
           false, true, false, true, true, true, false)), (String ((Ascii
           (false, true, true, true, false, true, true, false)), (String
           ((Ascii (true, false, false, true, false, true, true, false)),
           (String ((Ascii (false, false, true, false, true, true, true,
           false)), EmptyString)))))))))))))))))))))) :: []))
      then obind (dec_unit j) (fun u -> Some (UUnit u))
      else if str_in ty ((String ((Ascii (false, true, false, false, true,
                true, true, false)), (String ((Ascii (true, false, true,
                false, false, true, true, false)), (String ((Ascii (true,
                true, false, false, false, true, true, false)), (String
                ((Ascii (false, false, true, false, true, true, true,
                false)), (String ((Ascii (true, false, false, false, false,
                true, true, false)), (String ((Ascii (false, true, false,
                false, true, true, true, false)), (String ((Ascii (false,
                true, false, false, true, true, true, false)), (String
                ((Ascii (true, false, false, false, false, true, true,
                false)), (String ((Ascii (true, false, false, true, true,
                true, true, false)),
                EmptyString)))))))))))))))))) :: ((String ((Ascii (false,
                true, false, false, true, true, true, false)), (String
                ((Ascii (true, false, true, false, false, true, true,
                false)), (String ((Ascii (true, true, false, false, false,
                true, true, false)), (String ((Ascii (false, false, true,
                false, true, true, true, false)), (String ((Ascii (true,
                false, false, false, false, true, true, false)), (String
                ((Ascii (false, true, true, true, false, true, true, false)),
                (String ((Ascii (true, true, true, false, false, true, true,
                false)), (String ((Ascii (true, false, true, false, true,
                true, true, false)), (String ((Ascii (false, false, true,
                true, false, true, true, false)), (String ((Ascii (true,
                false, false, false, false, true, true, false)), (String
                ((Ascii (false, true, false, false, true, true, true,
                false)), (String ((Ascii (false, false, false, false, false,
                true, false, false)), (String ((Ascii (true, false, false,
                false, false, true, true, false)), (String ((Ascii (false,
                true, false, false, true, true, true, false)), (String
                ((Ascii (false, true, false, false, true, true, true,
                false)), (String ((Ascii (true, false, false, false, false,
                true, true, false)), (String ((Ascii (true, false, false,
                true, true, true, true, false)),
                EmptyString)))))))))))))))))))))))))))))))))) :: []))
           then obind (dec_rectarray j) (fun r -> Some (URect r))
           else None))

(** val dec_input : json -> orange_input option **)

let dec_input j =
  obind
    (jget (String ((Ascii (true, true, true, true, true, false, true,
      false)), (String ((Ascii (false, true, true, false, false, true, true,
      false)), (String ((Ascii (true, true, true, true, false, true, true,
      false)), (String ((Ascii (false, true, false, false, true, true, true,
      false)), (String ((Ascii (true, false, true, true, false, true, true,
      false)), (String ((Ascii (true, false, false, false, false, true, true,
      false)), (String ((Ascii (false, false, true, false, true, true, true,
      false)), EmptyString)))))))))))))) j) (fun fj ->
    obind (dec_str fj) (fun fmt ->
      if negb
           (str_in fmt ((String ((Ascii (true, true, true, true, false, true,
             true, false)), (String ((Ascii (false, true, false, false, true,
             true, true, false)), (String ((Ascii (true, false, false, false,
             false, true, true, false)), (String ((Ascii (false, true, true,
             true, false, true, true, false)), (String ((Ascii (true, true,
             true, false, false, true, true, false)), (String ((Ascii (true,
             false, true, false, false, true, true, false)),
             EmptyString)))))))))))) :: ((String ((Ascii (true, true, true,
             true, false, false, true, false)), (String ((Ascii (false, true,
             false, false, true, false, true, false)), (String ((Ascii (true,
             false, false, false, false, false, true, false)), (String
             ((Ascii (false, true, true, true, false, false, true, false)),
             (String ((Ascii (true, true, true, false, false, false, true,
             false)), (String ((Ascii (true, false, true, false, false,
             false, true, false)), EmptyString)))))))))))) :: ((String
             ((Ascii (true, true, false, false, true, false, true, false)),
             (String ((Ascii (true, true, false, false, false, false, true,
             false)), (String ((Ascii (true, false, false, false, false,
             false, true, false)), (String ((Ascii (false, false, true, true,
             false, false, true, false)), (String ((Ascii (true, false, true,
             false, false, false, true, false)), (String ((Ascii (false,
             false, false, false, false, true, false, false)), (String
             ((Ascii (true, true, true, true, false, false, true, false)),
             (String ((Ascii (false, true, false, false, true, false, true,
             false)), (String ((Ascii (true, false, false, false, false,
             false, true, false)), (String ((Ascii (false, true, true, true,
             false, false, true, false)), (String ((Ascii (true, true, true,
             false, false, false, true, false)), (String ((Ascii (true,
             false, true, false, false, false, true, false)),
             EmptyString)))))))))))))))))))))))) :: []))))
      then None
      else obind
             (match jget (String ((Ascii (true, true, true, true, true,
                      false, true, false)), (String ((Ascii (false, true,
                      true, false, true, true, true, false)), (String ((Ascii
                      (true, false, true, false, false, true, true, false)),
                      (String ((Ascii (false, true, false, false, true, true,
                      true, false)), (String ((Ascii (true, true, false,
                      false, true, true, true, false)), (String ((Ascii
                      (true, false, false, true, false, true, true, false)),
                      (String ((Ascii (true, true, true, true, false, true,
                      true, false)), (String ((Ascii (false, true, true,
                      true, false, true, true, false)),
                      EmptyString)))))))))))))))) j with
              | Some vj -> dec_int vj
              | None -> Some Z0) (fun _ ->
             obind
               (match jget (String ((Ascii (true, true, true, true, true,
                        false, true, false)), (String ((Ascii (true, false,
                        true, false, true, true, true, false)), (String
                        ((Ascii (false, true, true, true, false, true, true,
                        false)), (String ((Ascii (true, false, false, true,
                        false, true, true, false)), (String ((Ascii (false,
                        false, true, false, true, true, true, false)),
                        (String ((Ascii (true, true, false, false, true,
                        true, true, false)), EmptyString)))))))))))) j with
                | Some uj ->
                  obind (dec_str uj) (fun s ->
                    if eqb1 s nATIVE_UNITS then Some () else None)
                | None -> Some ()) (fun _ ->
               obind
                 (jget (String ((Ascii (true, false, true, false, true, true,
                   true, false)), (String ((Ascii (false, true, true, true,
                   false, true, true, false)), (String ((Ascii (true, false,
                   false, true, false, true, true, false)), (String ((Ascii
                   (false, true, true, false, true, true, true, false)),
                   (String ((Ascii (true, false, true, false, false, true,
                   true, false)), (String ((Ascii (false, true, false, false,
                   true, true, true, false)), (String ((Ascii (true, true,
                   false, false, true, true, true, false)), (String ((Ascii
                   (true, false, true, false, false, true, true, false)),
                   (String ((Ascii (true, true, false, false, true, true,
                   true, false)), EmptyString)))))))))))))))))) j) (fun uj ->
                 obind (dec_arr dec_universe uj) (fun us ->
                   obind
                     (match jget (String ((Ascii (false, false, true, false,
                              true, true, true, false)), (String ((Ascii
                              (true, true, true, true, false, true, true,
                              false)), (String ((Ascii (false, false, true,
                              true, false, true, true, false)),
                              EmptyString)))))) j with
                      | Some tj -> dec_tolerance tj
                      | None -> Some default_tol) (fun tol -> Some
                     { oi_universes = us; oi_tol = tol })))))))

(** val wfb_universe : universe -> bool **)

let wfb_universe = function
| UUnit u0 -> wfb_unit u0
| URect r -> wfb_rectarray r

(** val wfb_input : orange_input -> bool **)

let wfb_input x =
  (&&) (forallb wfb_universe x.oi_universes) (wfb_tolerance x.oi_tol)

(** val dump_label : label -> json **)

let dump_label l =
  JArr ((JStr l.l_name) :: ((JStr l.l_ext) :: []))

(** val dump_vec3 : vec3 -> json **)

let dump_vec3 v =
  JArr (map (fun x -> JFlt x) (v3list v))

(** val dump_bbox : bbox -> json **)

let dump_bbox b =
  JArr ((dump_vec3 b.b_lo) :: ((dump_vec3 b.b_hi) :: []))

(** val dump_transform : transform -> json **)

let dump_transform t =
  JObj (((String ((Ascii (true, true, false, true, false, true, true,
    false)), EmptyString)), (JInt
    (match t with
     | NoTrans -> Z0
     | Transl _ -> Zpos XH
     | Transf (_, _, _, _) -> Zpos (XO XH)))) :: (((String ((Ascii (false,
    false, true, false, false, true, true, false)), EmptyString)), (JArr
    (map (fun x -> JFlt x) (transform_data t)))) :: []))

(** val zorder_value : zorder -> z **)

let zorder_value = function
| ZInvalid -> Z0
| ZBackground -> Zpos XH
| ZMedia -> Zpos (XO XH)
| ZArray -> Zpos (XI XH)
| ZHole -> Zpos (XO (XO XH))
| ZImplExt -> Z.sub uINT (Zpos (XO XH))
| ZExterior -> Z.sub uINT (Zpos XH)

(** val dump_volume : volume -> json **)

let dump_volume v =
  JObj (((String ((Ascii (false, false, true, true, false, true, true,
    false)), (String ((Ascii (true, false, false, false, false, true, true,
    false)), (String ((Ascii (false, true, false, false, false, true, true,
    false)), (String ((Ascii (true, false, true, false, false, true, true,
    false)), (String ((Ascii (false, false, true, true, false, true, true,
    false)), EmptyString)))))))))), (dump_label v.v_label)) :: (((String
    ((Ascii (false, true, true, false, false, true, true, false)), (String
    ((Ascii (true, false, false, false, false, true, true, false)), (String
    ((Ascii (true, true, false, false, false, true, true, false)), (String
    ((Ascii (true, false, true, false, false, true, true, false)), (String
    ((Ascii (true, true, false, false, true, true, true, false)),
    EmptyString)))))))))), (JArr
    (map (fun x -> JInt x) v.v_faces))) :: (((String ((Ascii (false, false,
    true, true, false, true, true, false)), (String ((Ascii (true, true,
    true, true, false, true, true, false)), (String ((Ascii (true, true,
    true, false, false, true, true, false)), (String ((Ascii (true, false,
    false, true, false, true, true, false)), (String ((Ascii (true, true,
    false, false, false, true, true, false)), EmptyString)))))))))), (JArr
    (map (fun x -> JInt x) v.v_logic))) :: (((String ((Ascii (false, true,
    false, false, false, true, true, false)), (String ((Ascii (false, true,
    false, false, false, true, true, false)), (String ((Ascii (true, true,
    true, true, false, true, true, false)), (String ((Ascii (false, false,
    false, true, true, true, true, false)), EmptyString)))))))),
    (dump_bbox v.v_bbox)) :: (((String ((Ascii (true, true, true, true,
    false, true, true, false)), (String ((Ascii (false, true, false, false,
    false, true, true, false)), (String ((Ascii (false, true, false, true,
    true, true, true, false)), EmptyString)))))),
    (match v.v_obz with
     | Some o ->
       JObj (((String ((Ascii (true, false, false, true, false, true, true,
         false)), (String ((Ascii (false, true, true, true, false, true,
         true, false)), (String ((Ascii (false, true, true, true, false,
         true, true, false)), (String ((Ascii (true, false, true, false,
         false, true, true, false)), (String ((Ascii (false, true, false,
         false, true, true, true, false)), EmptyString)))))))))),
         (dump_bbox o.obz_inner)) :: (((String ((Ascii (true, true, true,
         true, false, true, true, false)), (String ((Ascii (true, false,
         true, false, true, true, true, false)), (String ((Ascii (false,
         false, true, false, true, true, true, false)), (String ((Ascii
         (true, false, true, false, false, true, true, false)), (String
         ((Ascii (false, true, false, false, true, true, true, false)),
         EmptyString)))))))))), (dump_bbox o.obz_outer)) :: (((String ((Ascii
         (false, false, true, false, true, true, true, false)), (String
         ((Ascii (true, false, false, true, false, true, true, false)),
         (String ((Ascii (false, false, true, false, false, true, true,
         false)), EmptyString)))))), (JInt o.obz_tid)) :: [])))
     | None -> JNull)) :: (((String ((Ascii (false, true, true, false, false,
    true, true, false)), (String ((Ascii (false, false, true, true, false,
    true, true, false)), (String ((Ascii (true, false, false, false, false,
    true, true, false)), (String ((Ascii (true, true, true, false, false,
    true, true, false)), (String ((Ascii (true, true, false, false, true,
    true, true, false)), EmptyString)))))))))), (JInt
    v.v_flags)) :: (((String ((Ascii (false, true, false, true, true, true,
    true, false)), (String ((Ascii (true, true, true, true, false, true,
    true, false)), (String ((Ascii (false, true, false, false, true, true,
    true, false)), (String ((Ascii (false, false, true, false, false, true,
    true, false)), (String ((Ascii (true, false, true, false, false, true,
    true, false)), (String ((Ascii (false, true, false, false, true, true,
    true, false)), EmptyString)))))))))))), (JInt
    (zorder_value v.v_zorder))) :: [])))))))

(** val surf_index : surf_type -> surf_type list -> z -> z **)

let rec surf_index t l i =
  match l with
  | [] -> Zneg XH
  | t' :: r ->
    if eqb1 (surf_name t) (surf_name t')
    then i
    else surf_index t r (Z.add i (Zpos XH))

(** val dump_surface : surface -> json **)

let dump_surface s =
  JObj (((String ((Ascii (false, false, true, false, true, true, true,
    false)), EmptyString)), (JInt
    (surf_index s.s_type all_surf_types Z0))) :: (((String ((Ascii (false,
    false, true, false, false, true, true, false)), EmptyString)), (JArr
    (map (fun x -> JFlt x) s.s_data))) :: []))

(** val dump_unit : unit_in -> json **)

let dump_unit u =
  JObj (((String ((Ascii (true, true, false, true, false, true, true,
    false)), EmptyString)), (JStr (String ((Ascii (true, false, true, false,
    true, true, true, false)), (String ((Ascii (false, true, true, true,
    false, true, true, false)), (String ((Ascii (true, false, false, true,
    false, true, true, false)), (String ((Ascii (false, false, true, false,
    true, true, true, false)), EmptyString)))))))))) :: (((String ((Ascii
    (false, false, true, true, false, true, true, false)), (String ((Ascii
    (true, false, false, false, false, true, true, false)), (String ((Ascii
    (false, true, false, false, false, true, true, false)), (String ((Ascii
    (true, false, true, false, false, true, true, false)), (String ((Ascii
    (false, false, true, true, false, true, true, false)),
    EmptyString)))))))))), (dump_label u.u_label)) :: (((String ((Ascii
    (true, true, false, false, true, true, true, false)), (String ((Ascii
    (true, false, true, false, true, true, true, false)), (String ((Ascii
    (false, true, false, false, true, true, true, false)), (String ((Ascii
    (false, true, true, false, false, true, true, false)), (String ((Ascii
    (true, false, false, false, false, true, true, false)), (String ((Ascii
    (true, true, false, false, false, true, true, false)), (String ((Ascii
    (true, false, true, false, false, true, true, false)), (String ((Ascii
    (true, true, false, false, true, true, true, false)),
    EmptyString)))))))))))))))), (JArr
    (map dump_surface u.u_surfaces))) :: (((String ((Ascii (false, true,
    true, false, true, true, true, false)), (String ((Ascii (true, true,
    true, true, false, true, true, false)), (String ((Ascii (false, false,
    true, true, false, true, true, false)), (String ((Ascii (true, false,
    true, false, true, true, true, false)), (String ((Ascii (true, false,
    true, true, false, true, true, false)), (String ((Ascii (true, false,
    true, false, false, true, true, false)), (String ((Ascii (true, true,
    false, false, true, true, true, false)), EmptyString)))))))))))))), (JArr
    (map dump_volume u.u_volumes))) :: (((String ((Ascii (false, true, false,
    false, false, true, true, false)), (String ((Ascii (false, true, false,
    false, false, true, true, false)), (String ((Ascii (true, true, true,
    true, false, true, true, false)), (String ((Ascii (false, false, false,
    true, true, true, true, false)), EmptyString)))))))),
    (dump_bbox u.u_bbox)) :: (((String ((Ascii (false, false, true, false,
    false, true, true, false)), (String ((Ascii (true, false, false, false,
    false, true, true, false)), (String ((Ascii (true, false, true, false,
    true, true, true, false)), (String ((Ascii (true, true, true, false,
    false, true, true, false)), (String ((Ascii (false, false, false, true,
    false, true, true, false)), (String ((Ascii (false, false, true, false,
    true, true, true, false)), (String ((Ascii (true, false, true, false,
    false, true, true, false)), (String ((Ascii (false, true, false, false,
    true, true, true, false)), (String ((Ascii (true, true, false, false,
    true, true, true, false)), EmptyString)))))))))))))))))), (JArr
    (map (fun kd -> JArr ((JInt (fst kd)) :: ((JInt
      (snd kd).d_univ) :: ((dump_transform (snd kd).d_trans) :: []))))
      u.u_daughters))) :: (((String ((Ascii (true, true, false, false, true,
    true, true, false)), (String ((Ascii (true, false, true, false, true,
    true, true, false)), (String ((Ascii (false, true, false, false, true,
    true, true, false)), (String ((Ascii (false, true, true, false, false,
    true, true, false)), (String ((Ascii (true, false, false, false, false,
    true, true, false)), (String ((Ascii (true, true, false, false, false,
    true, true, false)), (String ((Ascii (true, false, true, false, false,
    true, true, false)), (String ((Ascii (true, true, true, true, true,
    false, true, false)), (String ((Ascii (false, false, true, true, false,
    true, true, false)), (String ((Ascii (true, false, false, false, false,
    true, true, false)), (String ((Ascii (false, true, false, false, false,
    true, true, false)), (String ((Ascii (true, false, true, false, false,
    true, true, false)), (String ((Ascii (false, false, true, true, false,
    true, true, false)), (String ((Ascii (true, true, false, false, true,
    true, true, false)), EmptyString)))))))))))))))))))))))))))), (JArr
    (map dump_label u.u_surface_labels))) :: [])))))))

(** val dump_rect : rectarray -> json **)

let dump_rect r =
  let (p, gz) = r.r_grid in
  let (gx, gy) = p in
  JObj (((String ((Ascii (true, true, false, true, false, true, true,
  false)), EmptyString)), (JStr (String ((Ascii (false, true, false, false,
  true, true, true, false)), (String ((Ascii (true, false, true, false,
  false, true, true, false)), (String ((Ascii (true, true, false, false,
  false, true, true, false)), (String ((Ascii (false, false, true, false,
  true, true, true, false)), EmptyString)))))))))) :: (((String ((Ascii
  (false, false, true, true, false, true, true, false)), (String ((Ascii
  (true, false, false, false, false, true, true, false)), (String ((Ascii
  (false, true, false, false, false, true, true, false)), (String ((Ascii
  (true, false, true, false, false, true, true, false)), (String ((Ascii
  (false, false, true, true, false, true, true, false)),
  EmptyString)))))))))), (dump_label r.r_label)) :: (((String ((Ascii (true,
  true, true, false, false, true, true, false)), (String ((Ascii (false,
  true, false, false, true, true, true, false)), (String ((Ascii (true,
  false, false, true, false, true, true, false)), (String ((Ascii (false,
  false, true, false, false, true, true, false)), EmptyString)))))))), (JArr
  ((JArr (map (fun x -> JFlt x) gx)) :: ((JArr
  (map (fun x -> JFlt x) gy)) :: ((JArr
  (map (fun x -> JFlt x) gz)) :: []))))) :: (((String ((Ascii (false, false,
  true, false, false, true, true, false)), (String ((Ascii (true, false,
  false, false, false, true, true, false)), (String ((Ascii (true, false,
  true, false, true, true, true, false)), (String ((Ascii (true, true, true,
  false, false, true, true, false)), (String ((Ascii (false, false, false,
  true, false, true, true, false)), (String ((Ascii (false, false, true,
  false, true, true, true, false)), (String ((Ascii (true, false, true,
  false, false, true, true, false)), (String ((Ascii (false, true, false,
  false, true, true, true, false)), (String ((Ascii (true, true, false,
  false, true, true, true, false)), EmptyString)))))))))))))))))), (JArr
  (map (fun d -> JArr ((JInt
    d.d_univ) :: ((dump_transform d.d_trans) :: []))) r.r_daughters))) :: []))))

(** val dump_input : orange_input -> json **)

let dump_input x =
  JObj (((String ((Ascii (true, false, true, false, true, true, true,
    false)), (String ((Ascii (false, true, true, true, false, true, true,
    false)), (String ((Ascii (true, false, false, true, false, true, true,
    false)), (String ((Ascii (false, true, true, false, true, true, true,
    false)), (String ((Ascii (true, false, true, false, false, true, true,
    false)), (String ((Ascii (false, true, false, false, true, true, true,
    false)), (String ((Ascii (true, true, false, false, true, true, true,
    false)), (String ((Ascii (true, false, true, false, false, true, true,
    false)), (String ((Ascii (true, true, false, false, true, true, true,
    false)), EmptyString)))))))))))))))))), (JArr
    (map (fun u ->
      match u with
      | UUnit u0 -> dump_unit u0
      | URect r -> dump_rect r) x.oi_universes))) :: (((String ((Ascii
    (false, false, true, false, true, true, true, false)), (String ((Ascii
    (true, true, true, true, false, true, true, false)), (String ((Ascii
    (false, false, true, true, false, true, true, false)), EmptyString)))))),
    (JArr ((JFlt x.oi_tol.t_rel) :: ((JFlt x.oi_tol.t_abs) :: [])))) :: []))

(** val run_rt :
    orange_input -> ((bool * json option) * json option) * json option **)

let run_rt x =
  match enc_input x with
  | Some j ->
    ((((wfb_input x), (Some j)),
      (if jfinite j then None else Some (wire j))),
      (option_map dump_input (dec_input (wire j))))
  | None -> ((((wfb_input x), None), None), None)

(** val run_dec : json -> json option **)

let run_dec j =
  option_map dump_input (dec_input j)

(** val run_consts :
    ((((((flt * flt) * string) * z) * z) * z) * json) * json **)

let run_consts =
  (((((((default_tol.t_rel, default_tol.t_abs), nATIVE_UNITS), lBEGIN),
    f_MAX), iNVALID_ID), (dump_bbox null_bbox)), (dump_bbox inf_bbox))
