(** * C04: float entry points for the bremsstrahlung photon-energy samplers (SB / relativistic).
    The cross-section oracle is the list of values the real calculator returned, one per iteration. *)
From Coq Require Import ZArith List Floats.
From Celer Require Import Base.Num Base.NumF Base.FloatFun Base.Stream Base.Vec3 C15.Samplers C04.Common C04.BremEnergy.
Import ListNotations.

Definition run_brem_energy (sb : bool) (cut e_inc dc xs_max : float) (xsl : list float) (s : list float) :=
  let xs := fun (i : nat) (_ : float) => nth i xsl 0%float in
  match (if sb then sb_energy cut e_inc dc xs xs_max s else rb_energy cut e_inc dc xs xs_max s) with
  | None => None
  | Some (e, s') => Some (e, Z.of_nat (length s - length s'))
  end.
