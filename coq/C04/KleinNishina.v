(** * Klein-Nishina interactor (src/celeritas/em/interactor/KleinNishinaInteractor.hh) *)
From Coq Require Import ZArith List Bool.
From Celer Require Import Base.Num Base.Stream Base.Vec3 C15.Samplers C04.Common.
Import ListNotations.
Local Open Scope num_scope.

Section KN.
  Context {T : Type} `{Num T}.
  Notation M := (M T).

  (** shared_.inv_electron_mass, incident energy [MeV], incident direction *)
  Record kn_params := KN { kn_inv_me : T; kn_energy : T; kn_dir : vec3 T }.

  (** KleinNishinaInteractor::secondary_cutoff() = 1e-4 MeV *)
  Definition kn_cutoff : T := nQ 1 10000.

  Definition kn_k (p : kn_params) : T := kn_energy p * kn_inv_me p.
  Definition kn_eps0 (k : T) : T := n1 / (n1 + n2 * k).

  (** one pass of the do-while body: (epsilon, 1 - cos theta, reject_prob) *)
  Definition kn_candidate (k eps0 : T) : M (T * T * T) :=
    f1 <- bernoulli2 (- nlog eps0) (nhalf * (n1 - nsq eps0)) ;;
    '(eps, eps_sq) <- (if f1 then e <- reciprocal n1 eps0 ;; ret (e, e * e)
                       else e2 <- uniform (nsq eps0) n1 ;; ret (nsqrt e2, e2)) ;;
    (* min((1 - epsilon) / (epsilon * k), 2): bounded since /repo 01d8a4d *)
    let omc := nmin ((n1 - eps) / (eps * k)) n2 in
    let sintheta_sq := omc * (n2 - omc) in
    ret (eps, omc, eps * sintheta_sq / (n1 + eps_sq)).

  (** the rejection loop: returns (epsilon, one_minus_costheta) *)
  Fixpoint kn_loop (fuel : nat) (k eps0 : T) : M (T * T) :=
    match fuel with
    | O => fail
    | S f =>
        '(eps, omc, reject_prob) <- kn_candidate k eps0 ;;
        rej <- bernoulli reject_prob ;;
        if rej then kn_loop f k eps0 else ret (eps, omc)
    end.

  (** final state from the accepted (epsilon, 1 - cos theta) *)
  Definition kn_assemble (p : kn_params) (eps omc : T) : M (interaction T) :=
    let e_out := eps * kn_energy p in
    dir <- exiting_direction (n1 - omc) (kn_dir p) ;;
    let e_sec := kn_energy p - e_out in
    if e_sec <? kn_cutoff then
      ret (Inter Scattered e_out dir [sec_clear] e_sec)
    else
      let edir := calc_exiting_direction (kn_energy p) (kn_dir p) e_out dir in
      ret (Inter Scattered e_out dir [Sec PElectron e_sec edir] n0).

  Definition kn_sample (p : kn_params) (a : alloc) : M (interaction T * alloc) :=
    fun s =>
    match allocate 1 a with
    | None => Some ((from_failure, a), s)
    | Some a' =>
        ('(eps, omc) <- kn_loop (length s) (kn_k p) (kn_eps0 (kn_k p)) ;;
         r <- kn_assemble p eps omc ;; ret (r, a')) s
    end.
End KN.
Arguments kn_params T : clear implicits.
