(** * Ionisation final state, Moller-Bhabha, Mu/Had ionisation: proofs over R *)
From Coq Require Import Reals ZArith List Bool Lra Lia Psatz.
From Celer Require Import Base.Num Base.NumR Base.Stream Base.Vec3 C15.Samplers C15.SamplersProofs
  C04.Common C04.CommonProofs C04.KleinNishinaProofs C04.Ionization.
Import ListNotations.
Local Open Scope R_scope.

(** ** IoniFinalStateHelper *)
Lemma ioni_final_inv_gen (e_inc : R) dir p_inc m_inc t_e m_e s r s' :
  ioni_final e_inc dir p_inc m_inc t_e m_e s = Some (r, s') ->
  exists sdir, exiting_direction (ioni_costheta e_inc p_inc m_inc t_e m_e) dir s = Some (sdir, s') /\
    r = Inter Scattered (e_inc - t_e)
          (if Rltb 0 (e_inc - t_e) then calc_exiting_direction p_inc dir (sqrt (t_e * (t_e + 2 * m_e))) sdir else dir)
          [Sec PElectron t_e sdir] 0.
Proof.
  unfold ioni_final. intros E. apply bind_some in E as (sdir & s1 & E1 & E). apply ret_some in E.
  inversion E; subst. exists sdir. split; [exact E1|reflexivity].
Qed.
(** the primary keeps moving (T_e < E): direction from the momentum balance *)
Lemma ioni_final_inv (e_inc : R) dir p_inc m_inc t_e m_e s r s' : t_e < e_inc ->
  ioni_final e_inc dir p_inc m_inc t_e m_e s = Some (r, s') ->
  exists sdir, exiting_direction (ioni_costheta e_inc p_inc m_inc t_e m_e) dir s = Some (sdir, s') /\
    r = Inter Scattered (e_inc - t_e)
          (calc_exiting_direction p_inc dir (sqrt (t_e * (t_e + 2 * m_e))) sdir) [Sec PElectron t_e sdir] 0.
Proof.
  intros Hlt E. apply ioni_final_inv_gen in E as (sdir & E1 & Hr). exists sdir. split; [exact E1|].
  assert (Hb : Rltb 0 (e_inc - t_e) = true) by (apply Rltb_true; lra). rewrite Hb in Hr. exact Hr.
Qed.

Theorem ioni_energy_conserved (e_inc : R) dir p_inc m_inc t_e m_e s r s' :
  ioni_final e_inc dir p_inc m_inc t_e m_e s = Some (r, s') ->
  e_inc = i_energy r + sec_energy_sum (i_secs r) + i_deposit r.
Proof.
  intros E. apply ioni_final_inv_gen in E as (sdir & _ & Hr). subst r.
  unfold sec_energy_sum. cbn [i_energy i_secs i_deposit map nsum s_energy]. numR. ring.
Qed.

(** kinematic limit: T_e <= T_max  <->  cos(theta) <= 1 *)
Definition tmax_R (m_inc e_inc m_e : R) : R :=
  2 * m_e * e_inc * (e_inc + 2 * m_inc) / (m_inc * m_inc + m_e * m_e + 2 * m_e * (e_inc + m_inc)).

Lemma calc_tmax_R (m_inc e_inc m_e : R) : 0 < m_inc -> 0 < m_e -> 0 <= e_inc ->
  calc_tmax m_inc e_inc m_e = tmax_R m_inc e_inc m_e.
Proof.
  intros HM Hm HE. unfold calc_tmax, tmax_R. numR. field. split; [nra|lra].
Qed.

Lemma ioni_costheta_raw_range (e_inc m_inc t_e m_e : R) :
  0 < m_inc -> 0 < m_e -> 0 < e_inc -> 0 < t_e <= tmax_R m_inc e_inc m_e ->
  0 < ioni_costheta_raw e_inc (sqrt (e_inc * e_inc + 2 * m_inc * e_inc)) m_inc t_e m_e <= 1.
Proof.
  intros HM Hm HE [Ht0 Ht]. unfold ioni_costheta_raw. numR.
  set (pe2 := t_e * (t_e + 2 * m_e)). set (pi2 := e_inc * e_inc + 2 * m_inc * e_inc).
  assert (Hpe2 : 0 < pe2) by (unfold pe2; nra). assert (Hpi2 : 0 < pi2) by (unfold pi2; nra).
  assert (Hpe : 0 < sqrt pe2) by (apply sqrt_lt_R0; exact Hpe2).
  assert (Hpi : 0 < sqrt pi2) by (apply sqrt_lt_R0; exact Hpi2).
  assert (Hden : 0 < sqrt pe2 * sqrt pi2) by (apply Rmult_lt_0_compat; assumption).
  set (num := t_e * (e_inc + m_inc + m_e)). assert (Hnum : 0 < num) by (unfold num; nra).
  split; [apply Rdiv_lt_0_compat; assumption|].
  apply div_le_c; [exact Hden|]. rewrite Rmult_1_l.
  (* compare squares *)
  apply Rsqr_incr_0_var; [|lra]. unfold Rsqr.
  replace (sqrt pe2 * sqrt pi2 * (sqrt pe2 * sqrt pi2)) with ((sqrt pe2 * sqrt pe2) * (sqrt pi2 * sqrt pi2)) by ring.
  rewrite !sqrt_sqrt by lra.
  (* num^2 <= pe2 * pi2  <=>  t_e * D <= 2 m_e E (E + 2M) *)
  set (D := m_inc * m_inc + m_e * m_e + 2 * m_e * (e_inc + m_inc)) in *.
  assert (HD : 0 < D) by (unfold D; nra).
  assert (Hk : t_e * D <= 2 * m_e * e_inc * (e_inc + 2 * m_inc)).
  { unfold tmax_R in Ht. fold D in Ht.
    apply Rmult_le_compat_r with (r := D) in Ht; [|lra].
    replace (2 * m_e * e_inc * (e_inc + 2 * m_inc) / D * D) with (2 * m_e * e_inc * (e_inc + 2 * m_inc)) in Ht
      by (field; lra). exact Ht. }
  unfold num, pe2, pi2.
  replace (t_e * (e_inc + m_inc + m_e) * (t_e * (e_inc + m_inc + m_e)))
    with (t_e * (t_e * (D + e_inc * (e_inc + 2 * m_inc)))) by (unfold D; ring).
  replace (t_e * (t_e + 2 * m_e) * (e_inc * e_inc + 2 * m_inc * e_inc))
    with (t_e * ((t_e + 2 * m_e) * (e_inc * (e_inc + 2 * m_inc)))) by ring.
  apply Rmult_le_compat_l; [lra|]. nra.
Qed.

(** the bound min(., 1) of the repaired code is the identity in exact arithmetic (T_e <= T_max) *)
Lemma ioni_costheta_eq (e_inc m_inc t_e m_e : R) :
  0 < m_inc -> 0 < m_e -> 0 < e_inc -> 0 < t_e <= tmax_R m_inc e_inc m_e ->
  ioni_costheta e_inc (sqrt (e_inc * e_inc + 2 * m_inc * e_inc)) m_inc t_e m_e
  = ioni_costheta_raw e_inc (sqrt (e_inc * e_inc + 2 * m_inc * e_inc)) m_inc t_e m_e.
Proof.
  intros HM Hm HE Ht. pose proof (ioni_costheta_raw_range e_inc m_inc t_e m_e HM Hm HE Ht) as Hr.
  unfold ioni_costheta, nmin. numR.
  destruct (Rltb_spec 1 (ioni_costheta_raw e_inc (sqrt (e_inc * e_inc + 2 * m_inc * e_inc)) m_inc t_e m_e)); [lra|reflexivity].
Qed.
Lemma ioni_costheta_range (e_inc m_inc t_e m_e : R) :
  0 < m_inc -> 0 < m_e -> 0 < e_inc -> 0 < t_e <= tmax_R m_inc e_inc m_e ->
  0 < ioni_costheta e_inc (sqrt (e_inc * e_inc + 2 * m_inc * e_inc)) m_inc t_e m_e <= 1.
Proof.
  intros HM Hm HE Ht. rewrite ioni_costheta_eq by assumption. apply ioni_costheta_raw_range; assumption.
Qed.
(** ... and it bounds the cosine by 1 for EVERY secondary energy (also above T_max by rounding) *)
Lemma ioni_costheta_le_1 (e_inc p_inc m_inc t_e m_e : R) : ioni_costheta e_inc p_inc m_inc t_e m_e <= 1.
Proof.
  unfold ioni_costheta, nmin. numR. destruct (Rltb_spec 1 (ioni_costheta_raw e_inc p_inc m_inc t_e m_e)); lra.
Qed.

(** momentum: p_inc d_inc = p' d' + p_e d_e, with p' = sqrt(T'(T' + 2M)), T' = E - T_e *)
Theorem ioni_momentum_conserved (e_inc m_inc t_e m_e : R) dir s r s' sec :
  0 < m_inc -> 0 < m_e -> 0 < e_inc -> 0 < t_e < tmax_R m_inc e_inc m_e -> t_e < e_inc ->
  unitv dir -> rot_branch_ok dir ->
  ioni_final e_inc dir (sqrt (e_inc * e_inc + 2 * m_inc * e_inc)) m_inc t_e m_e s = Some (r, s') ->
  i_secs r = [sec] ->
  let p_inc := sqrt (e_inc * e_inc + 2 * m_inc * e_inc) in
  let p_out := sqrt (i_energy r * (i_energy r + 2 * m_inc)) in
  let p_e := sqrt (s_energy sec * (s_energy sec + 2 * m_e)) in
  vx dir * p_inc = vx (i_dir r) * p_out + vx (s_dir sec) * p_e /\
  vy dir * p_inc = vy (i_dir r) * p_out + vy (s_dir sec) * p_e /\
  vz dir * p_inc = vz (i_dir r) * p_out + vz (s_dir sec) * p_e.
Proof.
  intros HM Hm HE [Ht0 Ht] HtE Hd Hb E Hsec.
  apply (ioni_final_inv _ _ _ _ _ _ _ _ _ HtE) in E as (sdir & Ed & Hr). subst r. cbn [i_secs] in Hsec. inversion Hsec; subst sec.
  cbn [i_energy i_dir s_energy s_dir]. cbv zeta.
  set (pinc := sqrt (e_inc * e_inc + 2 * m_inc * e_inc)) in *.
  set (pe := sqrt (t_e * (t_e + 2 * m_e))) in *.
  assert (Hct : 0 < ioni_costheta e_inc pinc m_inc t_e m_e <= 1)
    by (apply ioni_costheta_range; try assumption; lra).
  assert (Hcos : -1 <= ioni_costheta e_inc pinc m_inc t_e m_e <= 1) by lra.
  destruct (exiting_direction_spec _ _ _ _ _ Ed Hcos Hd) as (u & _ & Hsd & Hpol). specialize (Hpol Hb).
  assert (Hpi2 : 0 < e_inc * e_inc + 2 * m_inc * e_inc) by nra.
  assert (Hpe2 : 0 < t_e * (t_e + 2 * m_e)) by nra.
  assert (Hpinc : 0 < pinc) by (apply sqrt_lt_R0; exact Hpi2).
  assert (Hpe : 0 < pe) by (apply sqrt_lt_R0; exact Hpe2).
  assert (Hpinc2 : pinc * pinc = e_inc * e_inc + 2 * m_inc * e_inc) by (apply sqrt_sqrt; lra).
  assert (Hpe2' : pe * pe = t_e * (t_e + 2 * m_e)) by (apply sqrt_sqrt; lra).
  set (T' := e_inc - t_e) in *.
  assert (Hsq : dot (momentum_diff pinc dir pe sdir) (momentum_diff pinc dir pe sdir) = T' * (T' + 2 * m_inc)).
  { rewrite momentum_diff_sq by assumption. rewrite Hpol. unfold pinc.
    rewrite ioni_costheta_eq by (try assumption; lra). fold pinc. unfold ioni_costheta_raw. numR. fold pe.
    replace (2 * pinc * pe * (t_e * (e_inc + m_inc + m_e) / (pe * pinc))) with (2 * (t_e * (e_inc + m_inc + m_e)))
      by (field; lra).
    rewrite Hpinc2, Hpe2'. unfold T'. ring. }
  assert (HT' : 0 < T' * (T' + 2 * m_inc)) by (unfold T'; nra).
  set (pout := sqrt (T' * (T' + 2 * m_inc))).
  assert (Hpout : 0 < pout) by (apply sqrt_lt_R0; exact HT').
  assert (Hpout2 : pout * pout = T' * (T' + 2 * m_inc)) by (apply sqrt_sqrt; lra).
  unfold calc_exiting_direction. rewrite (make_unit_vector_scale _ pout Hpout) by (rewrite Hsq; lra).
  unfold momentum_diff. cbn [vx vy vz]. numR. repeat split; field; lra.
Qed.

Theorem ioni_outputs_valid (e_inc m_inc t_e m_e : R) dir s r s' :
  0 < m_e <= m_inc -> 0 < e_inc -> 0 < t_e <= tmax_R m_inc e_inc m_e -> t_e < e_inc ->
  unitv dir ->
  ioni_final e_inc dir (sqrt (e_inc * e_inc + 2 * m_inc * e_inc)) m_inc t_e m_e s = Some (r, s') ->
  -1 <= ioni_costheta e_inc (sqrt (e_inc * e_inc + 2 * m_inc * e_inc)) m_inc t_e m_e <= 1 /\
  i_action r = Scattered /\ 0 < i_energy r < e_inc /\ unitv (i_dir r) /\ i_deposit r = 0 /\
  exists sec, i_secs r = [sec] /\ s_pid sec = PElectron /\ s_energy sec = t_e /\ unitv (s_dir sec).
Proof.
  intros [Hm HmM] HE [Ht0 Ht] HtE Hd E.
  assert (HM : 0 < m_inc) by lra.
  apply (ioni_final_inv _ _ _ _ _ _ _ _ _ HtE) in E as (sdir & Ed & Hr). subst r.
  set (pinc := sqrt (e_inc * e_inc + 2 * m_inc * e_inc)) in *.
  assert (Hct : 0 < ioni_costheta e_inc pinc m_inc t_e m_e <= 1)
    by (apply ioni_costheta_range; try assumption; lra).
  assert (Hcos : -1 <= ioni_costheta e_inc pinc m_inc t_e m_e <= 1) by lra.
  destruct (exiting_direction_spec _ _ _ _ _ Ed Hcos Hd) as (u & _ & Hsd & _).
  cbn [i_action i_energy i_dir i_deposit i_secs]. numR.
  split; [exact Hcos|]. split; [reflexivity|]. split; [lra|]. split.
  - apply make_unit_vector_unit. apply momentum_diff_pos; try assumption.
    + apply sqrt_pos.
    + apply sqrt_pos.
    + (* p_inc <> p_e since p_inc^2 - p_e^2 > 0 *)
      intro Heq. assert (Hsqeq : pinc * pinc = sqrt (t_e * (t_e + 2 * m_e)) * sqrt (t_e * (t_e + 2 * m_e)))
        by (rewrite Heq; reflexivity).
      unfold pinc in Hsqeq. rewrite !sqrt_sqrt in Hsqeq by nra. nra.
  - split; [reflexivity|]. eexists; split; [reflexivity|]. cbn [s_pid s_energy s_dir]. repeat split; assumption.
Qed.

(** the primary is stopped by the collision (T_e = E <= T_max, Bhabha at eps = 1): since /repo a57af2a it keeps the
    incident direction (a unit vector), zero energy; the secondary is valid as before *)
Theorem ioni_outputs_valid_stopped_primary (e_inc m_inc m_e : R) dir s r s' :
  0 < m_e <= m_inc -> 0 < e_inc -> e_inc <= tmax_R m_inc e_inc m_e -> unitv dir ->
  ioni_final e_inc dir (sqrt (e_inc * e_inc + 2 * m_inc * e_inc)) m_inc e_inc m_e s = Some (r, s') ->
  i_action r = Scattered /\ i_energy r = 0 /\ i_dir r = dir /\ unitv (i_dir r) /\ i_deposit r = 0 /\
  exists sec, i_secs r = [sec] /\ s_pid sec = PElectron /\ s_energy sec = e_inc /\ unitv (s_dir sec).
Proof.
  intros [Hm HmM] HE Ht Hd E. assert (HM : 0 < m_inc) by lra.
  apply ioni_final_inv_gen in E as (sdir & Ed & Hr). subst r.
  set (pinc := sqrt (e_inc * e_inc + 2 * m_inc * e_inc)) in *.
  assert (Hct : 0 < ioni_costheta e_inc pinc m_inc e_inc m_e <= 1)
    by (apply ioni_costheta_range; try assumption; lra).
  assert (Hcos : -1 <= ioni_costheta e_inc pinc m_inc e_inc m_e <= 1) by lra.
  destruct (exiting_direction_spec _ _ _ _ _ Ed Hcos Hd) as (u & _ & Hsd & _).
  assert (Hb : Rltb 0 (e_inc - e_inc) = false) by (apply Rltb_false; lra). rewrite Hb.
  cbn [i_action i_energy i_dir i_deposit i_secs].
  split; [reflexivity|]. split; [ring|]. split; [reflexivity|]. split; [exact Hd|]. split; [reflexivity|].
  eexists; split; [reflexivity|]. cbn [s_pid s_energy s_dir]. repeat split; assumption.
Qed.

(** ** energy samplers: supports *)
(** generic loop: the accepted epsilon is 1/x for a uniform x in [inv_max, inv_min) *)
Lemma eps_loop_spec (inv_max inv_min : R) g gden : inv_max <= inv_min -> 0 < inv_max ->
  forall fuel s eps s', eps_loop fuel inv_max inv_min g gden s = Some (eps, s') -> canon s ->
  / inv_min <= eps <= / inv_max /\ canon s' /\ (length s' < length s)%nat.
Proof.
  intros Hle Hpos. induction fuel as [|f IH]; intros s eps s' E Hc; [discriminate|].
  cbn [eps_loop] in E. apply bind_some in E as (x & s1 & E1 & E).
  destruct s as [|u s0]; [discriminate|]. rewrite uniform_run in E1. inversion E1; subst; clear E1.
  apply canon_cons in Hc as [[Hu0 Hu1] Hc].
  apply bind_some in E as (rej & s2 & E2 & E).
  destruct s1 as [|t s0']; [discriminate|]. unfold rejection, bind, draw, ret in E2. inversion E2; subst; clear E2.
  apply canon_cons in Hc as [_ Hc].
  match type of E with context [if ?b then _ else _] => destruct b end.
  - destruct (IH _ _ _ E Hc) as (A & B & L). split; [exact A|]. split; [exact B|]. cbn [length] in *. lia.
  - apply ret_some in E. inversion E; subst. numR.
    set (x := (inv_min - inv_max) * u + inv_max).
    assert (Hx : inv_max <= x <= inv_min) by (unfold x; nra).
    assert (Hxp : 0 < x) by lra.
    split; [|split; [exact Hc|cbn [length]; lia]].
    split.
    + unfold Rdiv. rewrite Rmult_1_l. apply Rinv_le_contravar; lra.
    + unfold Rdiv. rewrite Rmult_1_l. apply Rinv_le_contravar; lra.
Qed.

(** ** MollerBhabhaInteractor *)
Definition mb_ok (p : mb_params R) : Prop :=
  0 < mb_me p /\ 0 < mb_cut p /\ unitv (mb_dir p) /\
  (if mb_is_electron p then 2 * mb_cut p < mb_energy p else mb_cut p < mb_energy p).

Lemma mb_sample_inv (p : mb_params R) a s r a' s' :
  mb_sample p a s = Some ((r, a'), s') ->
  (allocate 1 a = None /\ r = from_failure /\ a' = a /\ s' = s) \/
  (allocate 1 a = Some a' /\ exists eps s1,
     (if mb_is_electron p then moller_sample (mb_me p) (mb_cut p) (mb_energy p)
      else bhabha_sample (mb_me p) (mb_cut p) (mb_energy p)) s = Some (eps, s1) /\
     ioni_final (mb_energy p) (mb_dir p) (calc_momentum (mb_me p) (mb_energy p)) (mb_me p)
       (mb_energy p * eps) (mb_me p) s1 = Some (r, s')).
Proof.
  unfold mb_sample. destruct (allocate 1 a) as [a1|].
  - intros E. right. apply bind_some in E as (eps & s1 & E1 & E).
    apply bind_some in E as (r1 & s2 & E2 & E). apply ret_some in E. inversion E; subst.
    split; [reflexivity|]. exists eps, s1. split; assumption.
  - intros E. inversion E; subst. left. repeat split; reflexivity.
Qed.

Theorem mb_failure_is_atomic (p : mb_params R) (a : alloc) s :
  allocate 1 a = None -> mb_sample p a s = Some ((from_failure, a), s).
Proof. intros Ha. unfold mb_sample. rewrite Ha. reflexivity. Qed.

Theorem mb_energy_conserved (p : mb_params R) a s r a' s' :
  mb_sample p a s = Some ((r, a'), s') -> i_action r <> Failed ->
  mb_energy p = i_energy r + sec_energy_sum (i_secs r) + i_deposit r.
Proof.
  intros E Hf. apply mb_sample_inv in E as [(_ & Hr & _)|(_ & eps & s1 & _ & E2)].
  - subst r. contradiction Hf. reflexivity.
  - apply ioni_energy_conserved in E2. exact E2.
Qed.

(** the sampled energy fraction lies in [cut/E, max fraction] *)
Lemma mb_eps_range (p : mb_params R) s eps s1 : mb_ok p -> canon s ->
  (if mb_is_electron p then moller_sample (mb_me p) (mb_cut p) (mb_energy p)
   else bhabha_sample (mb_me p) (mb_cut p) (mb_energy p)) s = Some (eps, s1) ->
  mb_cut p / mb_energy p <= eps <= (if mb_is_electron p then 1 / 2 else 1) /\ canon s1.
Proof.
  intros (Hme & Hcut & Hd & HE) Hc E.
  assert (HEp : 0 < mb_energy p) by (destruct (mb_is_electron p); lra).
  assert (Hminf : 0 < mb_cut p / mb_energy p) by (apply Rdiv_lt_0_compat; lra).
  destruct (mb_is_electron p).
  - unfold moller_sample in E. numR. numR.
    assert (Hm2 : mb_cut p / mb_energy p < 1 / 2) by (apply div_lt_c; lra).
    assert (H2 : 1 / (1 / 2) = 2) by field. rewrite H2 in E.
    assert (H1 : 2 <= 1 / (mb_cut p / mb_energy p)) by (apply div_ge_c; lra).
    destruct (eps_loop_spec _ _ _ _ H1 ltac:(lra) _ _ _ _ E Hc) as ([A B] & C & _). split; [|exact C].
    replace (/ (1 / (mb_cut p / mb_energy p))) with (mb_cut p / mb_energy p) in A by (field; lra). lra.
  - unfold bhabha_sample in E. numR. numR.
    assert (Hm2 : mb_cut p / mb_energy p < 1) by (apply div_lt_c; lra).
    assert (H2 : 1 / 1 = 1) by field. rewrite H2 in E.
    assert (H1 : 1 <= 1 / (mb_cut p / mb_energy p)) by (apply div_ge_c; lra).
    destruct (eps_loop_spec _ _ _ _ H1 ltac:(lra) _ _ _ _ E Hc) as ([A B] & C & _). split; [|exact C].
    replace (/ (1 / (mb_cut p / mb_energy p))) with (mb_cut p / mb_energy p) in A by (field; lra).
    rewrite Rinv_1 in B. lra.
Qed.

(** valid final state; the secondary is above the production cut.  For an
    incident positron the hypothesis eps < 1 excludes the single point where the
    positron stops (T_e = E, zero exiting momentum). *)
Theorem mb_outputs_valid (p : mb_params R) a s r a' s' :
  mb_ok p -> canon s -> mb_sample p a s = Some ((r, a'), s') -> i_action r <> Failed ->
  (forall sec, i_secs r = [sec] -> s_energy sec < mb_energy p) ->
  i_action r = Scattered /\ 0 < i_energy r < mb_energy p /\ unitv (i_dir r) /\ i_deposit r = 0 /\
  exists sec, i_secs r = [sec] /\ s_pid sec = PElectron /\ mb_cut p <= s_energy sec /\ unitv (s_dir sec).
Proof.
  intros Hok Hc E Hf Hlt. pose proof Hok as (Hme & Hcut & Hd & HE).
  apply mb_sample_inv in E as [(_ & Hr & _)|(_ & eps & s1 & E1 & E2)].
  { subst r. contradiction Hf. reflexivity. }
  destruct (mb_eps_range p s eps s1 Hok Hc E1) as [[Hlo Hhi] Hc1].
  assert (HEp : 0 < mb_energy p) by (destruct (mb_is_electron p); lra).
  assert (Hte_lo : mb_cut p <= mb_energy p * eps).
  { apply Rmult_le_compat_l with (r := mb_energy p) in Hlo; [|lra].
    replace (mb_energy p * (mb_cut p / mb_energy p)) with (mb_cut p) in Hlo by (field; lra). exact Hlo. }
  assert (Htmax : tmax_R (mb_me p) (mb_energy p) (mb_me p) = mb_energy p).
  { unfold tmax_R. field. nra. }
  assert (Hte_lt : mb_energy p * eps < mb_energy p).
  { pose proof (ioni_final_inv_gen _ _ _ _ _ _ _ _ _ E2) as (sdir & _ & Hr). subst r.
    specialize (Hlt _ eq_refl). cbn [s_energy] in Hlt. exact Hlt. }
  unfold calc_momentum in E2. numR.
  replace (mb_energy p * mb_energy p + 2 * mb_me p * mb_energy p)
    with (mb_energy p * mb_energy p + 2 * mb_me p * mb_energy p) in E2 by ring.
  pose proof (ioni_outputs_valid (mb_energy p) (mb_me p) (mb_energy p * eps) (mb_me p) (mb_dir p) s1 r s') as V.
  destruct V as (_ & Ha & Hen & Hdir & Hdep & sec & Hs & Hp & Hse & Hsd); try assumption; try lra.
  repeat split; try assumption; try lra.
  exists sec. repeat split; try assumption. rewrite Hse. exact Hte_lo.
Qed.

(** ** MuHadIonizationInteractor *)
Lemma mh_sample_inv (p : mh_params R) a s r a' s' :
  mh_sample p a s = Some ((r, a'), s') ->
  let tmax := calc_tmax (mh_minc p) (mh_energy p) (mh_me p) in
  (tmax <= mh_tmin p /\ r = from_unchanged /\ a' = a /\ s' = s) \/
  (mh_tmin p < tmax /\ allocate 1 a = None /\ r = from_failure /\ a' = a /\ s' = s) \/
  (mh_tmin p < tmax /\ allocate 1 a = Some a' /\ exists t_e s1,
     mh_loop (length s) p tmax s = Some (t_e, s1) /\
     ioni_final (mh_energy p) (mh_dir p) (calc_momentum (mh_minc p) (mh_energy p)) (mh_minc p)
       t_e (mh_me p) s1 = Some (r, s')).
Proof.
  unfold mh_sample. cbv zeta. numR.
  destruct (Rleb_spec (calc_tmax (mh_minc p) (mh_energy p) (mh_me p)) (mh_tmin p)) as [Hle|Hgt].
  - intros E. inversion E; subst. left. repeat split; try reflexivity. exact Hle.
  - destruct (allocate 1 a) as [a1|].
    + intros E. right. right. apply bind_some in E as (t_e & s1 & E1 & E).
      apply bind_some in E as (r1 & s2 & E2 & E). apply ret_some in E. inversion E; subst.
      split; [lra|]. split; [reflexivity|]. exists t_e, s1. split; assumption.
    + intros E. inversion E; subst. right. left. repeat split; try reflexivity. lra.
Qed.

Theorem mh_failure_is_atomic (p : mh_params R) (a : alloc) s :
  mh_tmin p < calc_tmax (mh_minc p) (mh_energy p) (mh_me p) -> allocate 1 a = None ->
  mh_sample p a s = Some ((from_failure, a), s).
Proof.
  intros Ht Ha. unfold mh_sample. cbv zeta. numR.
  destruct (Rleb_spec (calc_tmax (mh_minc p) (mh_energy p) (mh_me p)) (mh_tmin p)) as [Hle|Hgt]; [lra|].
  rewrite Ha. reflexivity.
Qed.

Theorem mh_energy_conserved (p : mh_params R) a s r a' s' :
  mh_sample p a s = Some ((r, a'), s') -> i_action r = Scattered ->
  mh_energy p = i_energy r + sec_energy_sum (i_secs r) + i_deposit r.
Proof.
  intros E Hf. apply mh_sample_inv in E. cbv zeta in E.
  destruct E as [(_ & Hr & _)|[(_ & _ & Hr & _)|(_ & _ & t_e & s1 & _ & E2)]]; try (subst r; discriminate).
  apply ioni_energy_conserved in E2. exact E2.
Qed.

(** the sampled energy lies in [tmin, tmax] *)
Lemma mh_loop_spec (p : mh_params R) (tmax : R) : 0 < mh_tmin p < tmax ->
  forall fuel s t_e s', mh_loop fuel p tmax s = Some (t_e, s') -> canon s ->
  mh_tmin p <= t_e <= tmax /\ canon s'.
Proof.
  intros [Hlo Hhi]. induction fuel as [|f IH]; intros s t_e s' E Hc; [discriminate|].
  cbn [mh_loop] in E. apply bind_some in E as (x & s1 & E1 & E).
  destruct s as [|u s0]; [discriminate|]. apply canon_cons in Hc as [Hu Hc].
  destruct (inverse_square_support (mh_tmin p) tmax u s0 Hlo (Rlt_le _ _ Hhi) Hu) as (x' & Ex & Hx).
  rewrite Ex in E1. inversion E1; subst; clear E1.
  apply bind_some in E as (rej & s2 & E2 & E).
  destruct s1 as [|t s1']; [discriminate|]. unfold rejection, bind, draw, ret in E2. inversion E2; subst; clear E2.
  apply canon_cons in Hc as [_ Hc].
  match type of E with context [if ?b then _ else _] => destruct b end.
  - apply (IH _ _ _ E Hc).
  - apply ret_some in E. inversion E; subst. split; assumption.
Qed.

(** Bethe-Bloch / Bragg: every candidate is accepted with probability >= 1 - beta^2 > 0,
    so the loop exits at the first test draw below 1 - beta^2 *)
Theorem mh_bb_accept_lower_bound (p : mh_params R) (tmax energy : R) :
  mh_kind_ p <> KMuBB -> 0 < mh_minc p -> 0 < mh_energy p -> 0 < tmax -> 0 <= energy <= tmax ->
  1 - beta_sq (mh_minc p) (mh_energy p) <= mh_target p tmax energy /\
  0 < 1 - beta_sq (mh_minc p) (mh_energy p) /\ mh_envelope p tmax = 1.
Proof.
  intros Hk HM HE Htm [He0 He1].
  assert (Hb : 0 < beta_sq (mh_minc p) (mh_energy p) < 1).
  { unfold beta_sq. numR. set (q := mh_minc p / (mh_energy p + mh_minc p)).
    assert (0 < q < 1). { unfold q. split; [apply Rdiv_lt_0_compat; lra | apply div_lt_c; lra]. }
    nra. }
  assert (Hfrac : 0 <= energy / tmax <= 1).
  { split; [apply div_ge_c; lra | apply div_le_c; lra]. }
  unfold mh_target, mh_envelope. destruct (mh_kind_ p); try contradiction; numR;
    (split; [|split; [lra|reflexivity]]);
    replace (beta_sq (mh_minc p) (mh_energy p) / tmax * energy)
      with (beta_sq (mh_minc p) (mh_energy p) * (energy / tmax)) by (field; lra); nra.
Qed.

Theorem mh_bb_terminates_on_low_draw (p : mh_params R) (tmax : R) fuel u t s :
  mh_kind_ p <> KMuBB -> 0 < mh_minc p -> 0 < mh_energy p -> 0 < mh_tmin p < tmax ->
  canonical u -> 0 <= t <= 1 - beta_sq (mh_minc p) (mh_energy p) ->
  exists e, mh_loop (S fuel) p tmax (u :: t :: s) = Some (e, s) /\ mh_tmin p <= e <= tmax.
Proof.
  intros Hk HM HE [Hlo Hhi] Hu [Ht0 Ht].
  destruct (inverse_square_support (mh_tmin p) tmax u (t :: s) Hlo (Rlt_le _ _ Hhi) Hu) as (x & Ex & Hx).
  exists x. split; [|exact Hx]. cbn [mh_loop]. unfold bind at 1. rewrite Ex. unfold bind at 1.
  unfold rejection, bind, draw, ret.
  destruct (mh_bb_accept_lower_bound p tmax x Hk HM HE) as (Hacc & _ & Henv); try lra.
  rewrite Henv. numR.
  assert (Hf : Rltb (mh_target p tmax x) (1 * t) = false) by (apply Rltb_false; lra).
  rewrite Hf. reflexivity.
Qed.
