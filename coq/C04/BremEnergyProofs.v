(** * Bremsstrahlung photon-energy samplers (SB / relativistic): proofs over R *)
From Coq Require Import Reals ZArith List Bool Lra Lia Psatz.
From Celer Require Import Base.Num Base.NumR Base.Stream Base.Vec3 C15.Samplers C15.SamplersProofs
  C04.Common C04.CommonProofs C04.KleinNishinaProofs C04.FinalStates C04.FinalStatesProofs C04.BremEnergy.
Import ListNotations.
Local Open Scope R_scope.

(** the candidate of one iteration lies in [tmin, tmax] (strictly below tmax when tmin < tmax) *)
Lemma be_candidate_range (tmin tmax dc u : R) s : 0 < tmin <= tmax -> 0 <= dc -> canonical u ->
  exists esq, reciprocal (tmin * tmin + dc) (tmax * tmax + dc) (u :: s) = Some (esq, s) /\
    tmin <= sqrt (esq - dc) <= tmax /\ (tmin < tmax -> sqrt (esq - dc) < tmax).
Proof.
  intros [Ht0 Ht] Hdc [Hu0 Hu1].
  set (a := tmin * tmin + dc). set (b := tmax * tmax + dc).
  assert (Ha : 0 < a) by (unfold a; nra). assert (Hab : a <= b) by (unfold a, b; nra).
  eexists; split; [reflexivity|]. numR.
  assert (Hr : 1 <= 1 / a * b).
  { apply Rmult_le_reg_l with a; [lra|]. replace (a * (1 / a * b)) with b by (field; lra). lra. }
  pose proof (ln_nonneg _ Hr) as Hl. set (q := 1 / a * b) in *.
  assert (Haq : a * q = b) by (unfold q; field; lra).
  assert (H1 : exp 0 <= exp (ln q * u)) by (apply exp_le; nra).
  assert (H2 : exp (ln q * u) <= exp (ln q)) by (apply exp_le; nra).
  rewrite exp_0 in H1. rewrite exp_ln in H2 by lra.
  set (x := a * exp (ln q * u)) in *.
  assert (Hx : a <= x <= b) by (unfold x; split; nra).
  assert (Hlo : tmin <= sqrt (x - dc)).
  { rewrite <- (sqrt_square tmin) at 1 by lra. apply sqrt_le_1; unfold a in *; nra. }
  assert (Hhi : sqrt (x - dc) <= tmax).
  { rewrite <- (sqrt_square tmax) at 1 by lra. apply sqrt_le_1; unfold a, b in *; nra. }
  split; [split; assumption|]. intros Hlt.
  assert (Hab' : a < b) by (unfold a, b; nra).
  assert (Hq1 : 1 < q). { apply Rmult_lt_reg_l with a; [lra|]. rewrite Haq. lra. }
  assert (Hlq : 0 < ln q) by (rewrite <- ln_1; apply ln_increasing; lra).
  assert (H3 : exp (ln q * u) < exp (ln q)) by (apply exp_increasing; nra).
  rewrite exp_ln in H3 by lra.
  assert (Hxb : x < b) by (unfold x; nra).
  rewrite <- (sqrt_square tmax) at 1 by lra. apply sqrt_lt_1; unfold a, b in *; nra.
Qed.

Lemma be_loop_step (tmin_sq tmax_sq dc : R) xs xs_max f i u t s :
  be_loop (S f) i tmin_sq tmax_sq dc xs xs_max (u :: t :: s) =
  let e := sqrt ((tmin_sq + dc) * exp (ln (1 / (tmin_sq + dc) * (tmax_sq + dc)) * u) - dc) in
  if Rltb (xs i e) (xs_max * t) then be_loop f (S i) tmin_sq tmax_sq dc xs xs_max s else Some (e, s).
Proof.
  cbn [be_loop]. unfold reciprocal, rejection, bind, draw, ret. numR. cbv zeta.
  destruct (Rltb _ _); reflexivity.
Qed.

Lemma be_loop_short (tmin_sq tmax_sq dc : R) xs xs_max f i s : (length s < 2)%nat ->
  be_loop (S f) i tmin_sq tmax_sq dc xs xs_max s = None.
Proof. destruct s as [|a [|b s0]]; cbn [length]; intros Hl; try lia; reflexivity. Qed.

(** the sampled photon energy lies in [tmin, tmax], for EVERY cross-section oracle *)
Theorem be_loop_range (tmin tmax dc : R) xs xs_max : 0 < tmin <= tmax -> 0 <= dc ->
  forall fuel i s e s', be_loop fuel i (tmin * tmin) (tmax * tmax) dc xs xs_max s = Some (e, s') -> canon s ->
  tmin <= e <= tmax /\ (tmin < tmax -> e < tmax) /\ canon s' /\ (length s' < length s)%nat.
Proof.
  intros Ht Hdc. induction fuel as [|f IH]; intros i s e s' E Hc; [discriminate|].
  destruct s as [|u [|t s0]]; try (rewrite be_loop_short in E by (cbn; lia); discriminate).
  apply canon_cons in Hc as [Hu Hc]. apply canon_cons in Hc as [_ Hc].
  destruct (be_candidate_range tmin tmax dc u (t :: s0) Ht Hdc Hu) as (esq & Er & Hr & Hs).
  unfold reciprocal, bind, draw, ret in Er. numR. inversion Er as [Heq]. clear Er.
  rewrite be_loop_step in E. cbv zeta in E. rewrite Heq in E.
  destruct (Rltb _ _).
  - destruct (IH _ _ _ _ E Hc) as (A & B & C & D). repeat split; try tauto. cbn [length]. lia.
  - inversion E; subst. repeat split; try tauto. cbn [length]. lia.
Qed.

(** acceptance given the table maximum: if the oracle is at least p_min * xs_max on [tmin, tmax], every
    candidate is accepted by a test draw <= p_min; an iteration consumes exactly two uniforms *)
Theorem be_terminates_on_low_draw (tmin tmax dc : R) xs xs_max pmin f i u t s :
  0 < tmin <= tmax -> 0 <= dc -> 0 < xs_max ->
  (forall e, tmin <= e <= tmax -> pmin * xs_max <= xs i e) ->
  canonical u -> 0 <= t <= pmin ->
  exists e, be_loop (S f) i (tmin * tmin) (tmax * tmax) dc xs xs_max (u :: t :: s) = Some (e, s) /\
    tmin <= e <= tmax.
Proof.
  intros Ht Hdc Hmax Hxs Hu [Ht0 Ht1].
  destruct (be_candidate_range tmin tmax dc u (t :: s) Ht Hdc Hu) as (esq & Er & Hr & _).
  unfold reciprocal, bind, draw, ret in Er. numR. inversion Er as [Heq]. clear Er.
  rewrite be_loop_step. cbv zeta. rewrite Heq. exists (sqrt (esq - dc)). split; [|exact Hr].
  specialize (Hxs _ Hr).
  assert (Hf : Rltb (xs i (sqrt (esq - dc))) (xs_max * t) = false) by (apply Rltb_false; nra).
  rewrite Hf. reflexivity.
Qed.

(** ... and conversely a candidate whose cross section is 0 is rejected by every positive test draw, so the bound
    above is only as good as min(xs)/max(xs) of the table: a data property, reported by the check *)
Theorem be_zero_xs_rejected (tmin_sq tmax_sq dc : R) xs xs_max f i u t s :
  0 < xs_max -> 0 < t -> (forall e, xs i e = 0) ->
  be_loop (S f) i tmin_sq tmax_sq dc xs xs_max (u :: t :: s) = be_loop f (S i) tmin_sq tmax_sq dc xs xs_max s.
Proof.
  intros Hm Ht Hz. rewrite be_loop_step. cbv zeta. rewrite Hz.
  assert (Hf : Rltb 0 (xs_max * t) = true) by (apply Rltb_true; nra). rewrite Hf. reflexivity.
Qed.

(** SBEnergySampler: photon energy in [cut, E_inc) *)
Theorem sb_energy_in_range (cut e_inc dc : R) xs xs_max s e s' :
  0 < cut < e_inc -> 0 <= dc -> canon s -> sb_energy cut e_inc dc xs xs_max s = Some (e, s') ->
  cut <= e < e_inc /\ canon s' /\ (length s' < length s)%nat.
Proof.
  intros [Hc0 Hc1] Hdc Hc E. unfold sb_energy in E. numR.
  destruct (be_loop_range cut e_inc dc xs xs_max ltac:(lra) Hdc _ _ _ _ _ E Hc) as ([A _] & B & C & D).
  split; [split; [exact A|apply B; lra]|]. split; assumption.
Qed.

(** RBEnergySampler: photon energy in [min(cut, E), E]; in [cut, E) when cut < E <= 1e8 MeV *)
Theorem rb_energy_in_range (cut e_inc dc : R) xs xs_max s e s' :
  0 < cut < e_inc -> e_inc <= 100000000 -> 0 <= dc -> canon s ->
  rb_energy cut e_inc dc xs xs_max s = Some (e, s') ->
  cut <= e < e_inc /\ canon s' /\ (length s' < length s)%nat.
Proof.
  intros [Hc0 Hc1] Hhi Hdc Hc E. unfold rb_energy, high_energy_limit in E. numR.
  assert (H1 : Rltb e_inc cut = false) by (apply Rltb_false; lra). rewrite H1 in E.
  destruct (Rltb_spec e_inc 100000000) as [Hlt|Hge].
  - destruct (be_loop_range cut e_inc dc xs xs_max ltac:(lra) Hdc _ _ _ _ _ E Hc) as ([A _] & B & C & D).
    split; [split; [exact A|apply B; lra]|]. split; assumption.
  - assert (He : e_inc = 100000000) by lra. rewrite <- He in E.
    destruct (be_loop_range cut e_inc dc xs xs_max ltac:(lra) Hdc _ _ _ _ _ E Hc) as ([A _] & B & C & D).
    split; [split; [exact A|apply B; lra]|]. split; assumption.
Qed.

(** the interactor with the modelled energy loop and any angular sampler with support [-1, 1]: the
    hypothesis of [brem_outputs_valid] on the energy sampler is now a theorem *)
Lemma be_sampler_support (esampler angle : M R R) (cut e_inc : R) :
  (forall s0 e s1, canon s0 -> esampler s0 = Some (e, s1) -> cut <= e < e_inc /\ canon s1) ->
  (forall s0 c s1, canon s0 -> angle s0 = Some (c, s1) -> -1 <= c <= 1 /\ canon s1) ->
  forall s0 eg ct s1, canon s0 -> (e <- esampler ;; c <- angle ;; ret (e, c)) s0 = Some ((eg, ct), s1) ->
  cut <= eg < e_inc /\ -1 <= ct <= 1 /\ canon s1.
Proof.
  intros He Ha s0 eg ct s1 Hc E. apply bind_some in E as (e & s2 & E1 & E).
  apply bind_some in E as (c & s3 & E2 & E). apply ret_some in E. inversion E; subst.
  destruct (He _ _ _ Hc E1) as [A B]. destruct (Ha _ _ _ B E2) as [C D]. tauto.
Qed.

Theorem sb_outputs_valid (angle : M R R) (cut e_inc m_inc dc : R) xs xs_max dir a s r a' s' :
  0 <= m_inc -> 0 < cut < e_inc -> 0 <= dc -> unitv dir -> canon s ->
  (forall s0 c s1, canon s0 -> angle s0 = Some (c, s1) -> -1 <= c <= 1 /\ canon s1) ->
  sb_sample angle cut e_inc dc xs xs_max dir (sqrt (e_inc * e_inc + 2 * m_inc * e_inc)) a s = Some ((r, a'), s') ->
  i_action r <> Failed ->
  i_action r = Scattered /\ 0 < i_energy r /\ unitv (i_dir r) /\ i_deposit r = 0 /\
  e_inc = i_energy r + sec_energy_sum (i_secs r) + i_deposit r /\
  exists sec, i_secs r = [sec] /\ s_pid sec = PGamma /\ cut <= s_energy sec < e_inc /\ unitv (s_dir sec).
Proof.
  intros Hm Hcut Hdc Hd Hc Ha E Hf. unfold sb_sample in E.
  assert (Hsup := be_sampler_support (sb_energy cut e_inc dc xs xs_max) angle cut e_inc
            (fun s0 e s1 H0 H1 => let '(conj A (conj B _)) := sb_energy_in_range cut e_inc dc xs xs_max s0 e s1 Hcut Hdc H0 H1 in conj A B) Ha).
  pose proof (brem_energy_conserved _ _ _ _ _ _ _ _ _ E Hf) as Hen.
  pose proof (brem_outputs_valid _ cut e_inc m_inc dir a s r a' s' Hm (proj1 Hcut) Hd Hc Hsup E Hf) as V.
  destruct V as (A & B & C & D & sec & S1 & S2 & S3 & S4).
  assert (Hs : s_energy sec < e_inc).
  { rewrite S1, D in Hen. unfold sec_energy_sum in Hen. cbn [map nsum] in Hen. numR. lra. }
  repeat split; try assumption; try lra. exists sec. repeat split; try assumption; lra.
Qed.

Theorem rb_outputs_valid (angle : M R R) (cut e_inc m_inc dc : R) xs xs_max dir a s r a' s' :
  0 <= m_inc -> 0 < cut < e_inc -> e_inc <= 100000000 -> 0 <= dc -> unitv dir -> canon s ->
  (forall s0 c s1, canon s0 -> angle s0 = Some (c, s1) -> -1 <= c <= 1 /\ canon s1) ->
  rb_sample angle cut e_inc dc xs xs_max dir (sqrt (e_inc * e_inc + 2 * m_inc * e_inc)) a s = Some ((r, a'), s') ->
  i_action r <> Failed ->
  i_action r = Scattered /\ 0 < i_energy r /\ unitv (i_dir r) /\ i_deposit r = 0 /\
  e_inc = i_energy r + sec_energy_sum (i_secs r) + i_deposit r /\
  exists sec, i_secs r = [sec] /\ s_pid sec = PGamma /\ cut <= s_energy sec < e_inc /\ unitv (s_dir sec).
Proof.
  intros Hm Hcut Hhi Hdc Hd Hc Ha E Hf. unfold rb_sample in E.
  assert (Hsup := be_sampler_support (rb_energy cut e_inc dc xs xs_max) angle cut e_inc
            (fun s0 e s1 H0 H1 => let '(conj A (conj B _)) := rb_energy_in_range cut e_inc dc xs xs_max s0 e s1 Hcut Hhi Hdc H0 H1 in conj A B) Ha).
  pose proof (brem_energy_conserved _ _ _ _ _ _ _ _ _ E Hf) as Hen.
  pose proof (brem_outputs_valid _ cut e_inc m_inc dir a s r a' s' Hm (proj1 Hcut) Hd Hc Hsup E Hf) as V.
  destruct V as (A & B & C & D & sec & S1 & S2 & S3 & S4).
  assert (Hs : s_energy sec < e_inc).
  { rewrite S1, D in Hen. unfold sec_energy_sum in Hen. cbn [map nsum] in Hen. numR. lra. }
  repeat split; try assumption; try lra. exists sec. repeat split; try assumption; lra.
Qed.

Example be_nonvacuous : exists e, be_loop 1 0 (1 * 1) (2 * 2) 0 (fun _ _ => 1) 1 [0; 1 / 2] = Some (e, []) /\ 1 <= e <= 2.
Proof.
  destruct (be_terminates_on_low_draw 1 2 0 (fun _ _ => 1) 1 1 0 0 0 (1 / 2) []) as (e & E & Hr);
    try lra; try (unfold canonical; lra). { intros; lra. }
  exists e. split; assumption.
Qed.
