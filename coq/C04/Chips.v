(** * Neutron-nucleus elastic scattering: neutron/interactor/ChipsNeutronElasticInteractor.hh
    with celeritas/phys/FourVector.hh (boost_vector, boost).  The momentum-transfer sampler
    (detail::MomentumTransferSampler, CHIPS parameterisation) is an ORACLE: its value Q^2 [MeV^2] is an
    input; its contract (clamp(q_sq, 0, max_q_sq), max_q_sq = 4 M^2 p^2 / (2 M E + m^2 + M^2) = 4 p_cm^2)
    is the hypothesis 0 <= Q^2 <= 4 p_cm^2 of the energy theorems.  cos(theta) is clamped to [-1, 1] since /repo
    commit 2618c34 ([chips_final]); [chips_final_unclamped] is the code before that repair (kept for the
    _before_repair_refuted witness).  Executable over any [Num]; no proofs here. *)
From Coq Require Import ZArith List Bool.
From Celer Require Import Base.Num Base.Stream Base.Vec3 C15.Samplers C04.Common.
Import ListNotations.
Local Open Scope num_scope.

Section Chips.
  Context {T : Type} `{Num T}.
  Notation M := (M T).

  Record fourvec := FV { fv_mom : vec3 T; fv_e : T }.
  (** boost_vector(p) = (1 / p.energy) * p.mom *)
  Definition boost_vector (p : fourvec) : vec3 T := vscale (n1 / fv_e p) (fv_mom p).
  (** boost(v, &p) *)
  Definition boost (v : vec3 T) (p : fourvec) : fourvec :=
    let v_sq := dot v v in
    let vp := dot v (fv_mom p) in
    let gamma := n1 / nsqrt (n1 - v_sq) in
    let lambda := (if n0 <? v_sq then (gamma - n1) * vp / v_sq else n0) + gamma * fv_e p in
    FV (axpy lambda v (fv_mom p)) (gamma * (fv_e p + vp)).

  (** clamp_to_nonneg *)
  Definition clamp_to_nonneg (v : T) : T := if v <? n0 then n0 else v.

  (** neutron mass, incident kinetic energy, direction, target nuclear mass *)
  Record chips_params := CH { ch_mn : T; ch_energy : T; ch_dir : vec3 T; ch_mtarget : T }.

  Definition ch_cm_p (p : chips_params) : T :=
    let e_n := ch_mn p + ch_energy p in
    calc_momentum (ch_mn p) (ch_energy p)
    / nsqrt (n1 + nsq (ch_mn p / ch_mtarget p) + n2 * e_n / ch_mtarget p).
  (** 1 - 0.5 * Q^2 / cm_p^2 *)
  Definition ch_cos_raw (p : chips_params) (q2 : T) : T := n1 - nhalf * q2 / nsq (ch_cm_p p).
  (** current code: clamp(1 - 0.5 * Q^2 / cm_p^2, -1, 1) *)
  Definition ch_cos_theta (p : chips_params) (q2 : T) : T := nclamp (ch_cos_raw p q2) (- n1) n1.

  (** operator() from the cosine on; the momentum transfer is drawn BEFORE phi *)
  Definition chips_final_cos (p : chips_params) (cos_theta : T) : M (interaction T) :=
    let mn := ch_mn p in
    let mt := ch_mtarget p in
    let e_n := mn + ch_energy p in
    let p_n := calc_momentum mn (ch_energy p) in
    let cm_p := ch_cm_p p in
    phi <- uniform n0 twopi ;;
    let cm_mom := vscale cm_p (from_spherical cos_theta phi) in
    let nlv1 := FV cm_mom (nsqrt (nsq cm_p + nsq mn)) in
    let lv := FV (V3 n0 n0 p_n) (e_n + mt) in
    let nlv1' := boost (boost_vector lv) nlv1 in
    let direction := rotate min_acc (make_unit_vector (fv_mom nlv1')) (ch_dir p) in
    let lv_e := fv_e lv - fv_e nlv1' in
    ret (Inter Scattered (fv_e nlv1' - mn) direction [] (clamp_to_nonneg (lv_e - mt))).

  (** [q2] = value returned by sample_momentum_square_(rng) *)
  Definition chips_final (p : chips_params) (q2 : T) : M (interaction T) := chips_final_cos p (ch_cos_theta p q2).
  (** the code before commit 2618c34 (no clamp) *)
  Definition chips_final_unclamped (p : chips_params) (q2 : T) : M (interaction T) := chips_final_cos p (ch_cos_raw p q2).
End Chips.
Arguments chips_params T : clear implicits.
Arguments fourvec T : clear implicits.
