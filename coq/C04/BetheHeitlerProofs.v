(** * Bethe-Heitler + TsaiUrban: proofs over R *)
From Coq Require Import Reals ZArith List Bool Lra Lia Psatz.
From Celer Require Import Base.Num Base.NumR Base.Stream Base.Vec3 C15.Samplers C15.SamplersProofs
  C04.Common C04.CommonProofs C04.KleinNishinaProofs C04.BetheHeitler.
Import ListNotations.
Local Open Scope R_scope.

(** ** TsaiUrban: the returned cosine is in [-1, 1] *)
Lemma neg_ln_prod_nonneg (a b : R) : canonical a -> canonical b -> 0 <= - ln (a * b).
Proof.
  intros [Ha0 Ha1] [Hb0 Hb1]. destruct (Rle_lt_dec (a * b) 0) as [Hz|Hp].
  - unfold ln. destruct (Rlt_dec 0 (a * b)) as [Hlt|Hnlt]; [exfalso; lra|]. rewrite Ropp_0. apply Rle_refl.
  - assert (a * b < 1) by nra. assert (ln (a * b) < 0) by (rewrite <- ln_1; apply ln_increasing; lra). lra.
Qed.

Lemma tu_loop_spec (umax : R) : 0 < umax -> forall fuel s c s',
  tu_loop fuel umax s = Some (c, s') -> canon s -> -1 <= c <= 1 /\ canon s'.
Proof.
  intros Hu. induction fuel as [|f IH]; intros s c s' E Hc; [discriminate|].
  cbn [tu_loop] in E.
  destruct s as [|a [|b [|t s0]]]; try discriminate.
  apply canon_cons in Hc as [Ha Hc]. apply canon_cons in Hc as [Hb Hc]. apply canon_cons in Hc as [Ht Hc].
  unfold bind at 1 in E. cbn [draw] in E. unfold bind at 1 in E. cbn [draw] in E.
  unfold bind at 1 in E. rewrite bernoulli_run in E. numR; numR.
  pose proof (neg_ln_prod_nonneg a b Ha Hb) as Hn.
  set (u := - ln (a * b) * (if Rltb t (25 / 100) then 16 / 10 else 16 / 10 / 3)) in *.
  assert (Hu0 : 0 <= u).
  { unfold u. destruct (Rltb t (25 / 100)); apply Rmult_le_pos; lra. }
  destruct (Rltb_spec umax u) as [Hgt|Hle].
  - apply (IH _ _ _ E Hc).
  - apply ret_some in E. inversion E; subst. split; [|exact Hc].
    assert (Hq : 0 <= u / umax <= 1) by (split; [apply div_ge_c; lra | apply div_le_c; lra]).
    nra.
Qed.

Lemma tsai_urban_range (energy mass : R) s c s' : 0 <= energy -> 0 < mass ->
  tsai_urban energy mass s = Some (c, s') -> canon s -> -1 <= c <= 1 /\ canon s'.
Proof.
  intros He Hm E Hc. unfold tsai_urban in E. apply (tu_loop_spec (tu_umax energy mass)) in E; [exact E| |exact Hc].
  unfold tu_umax. numR; numR. assert (0 <= energy / mass) by (apply div_ge_c; lra). lra.
Qed.

(** ** interactor *)
Definition bh_ok (p : bh_params R) : Prop :=
  0 < bh_me p /\ 2 * bh_me p <= bh_energy p /\ unitv (bh_dir p).

Lemma bh_sample_inv (p : bh_params R) a s r a' s' :
  bh_sample p a s = Some ((r, a'), s') ->
  (allocate 2 a = None /\ r = from_failure /\ a' = a /\ s' = s) \/
  (allocate 2 a = Some a' /\ exists eps s1, bh_sample_eps p s = Some (eps, s1) /\
     bh_assemble p eps s1 = Some (r, s')).
Proof.
  unfold bh_sample. destruct (allocate 2 a) as [a1|].
  - intros E. right. apply bind_some in E as (eps & s1 & E1 & E). apply bind_some in E as (r1 & s2 & E2 & E).
    apply ret_some in E. inversion E; subst. split; [reflexivity|]. eauto.
  - intros E. inversion E; subst. left. repeat split; reflexivity.
Qed.

Theorem bh_failure_is_atomic (p : bh_params R) (a : alloc) s :
  allocate 2 a = None -> bh_sample p a s = Some ((from_failure, a), s).
Proof. intros Ha. unfold bh_sample. rewrite Ha. reflexivity. Qed.

Lemma bh_assemble_inv (p : bh_params R) eps s r s' :
  bh_assemble p eps s = Some (r, s') ->
  exists (sw : bool) phi c0 c1 s1 s2 s3,
    s = (if sw then s else s) /\
    let e0 := (1 - eps) * bh_energy p - bh_me p in
    let e1 := eps * bh_energy p - bh_me p in
    let ee := if sw then e1 else e0 in
    let ep := if sw then e0 else e1 in
    bernoulli (1 / 2) s = Some (sw, s1) /\ uniform 0 twopi s1 = Some (phi, s2) /\
    tsai_urban ee (bh_me p) s2 = Some (c0, s3) /\ tsai_urban ep (bh_me p) s3 = Some (c1, s') /\
    r = Inter Absorbed 0 vzero
          [Sec PElectron ee (rotate (min_acc (T:=R)) (from_spherical c0 phi) (bh_dir p));
           Sec PPositron ep (rotate (min_acc (T:=R)) (from_spherical c1 (phi + npi)) (bh_dir p))] 0.
Proof.
  unfold bh_assemble. intros E. apply bind_some in E as (sw & s1 & E1 & E).
  numR; numR. destruct sw.
  - apply bind_some in E as (phi & s2 & E2 & E). apply bind_some in E as (c0 & s3 & E3 & E).
    apply bind_some in E as (c1 & s4 & E4 & E). apply ret_some in E. inversion E; subst.
    exists true, phi, c0, c1, s1, s2, s3. split; [reflexivity|]. cbv zeta. repeat split; assumption.
  - apply bind_some in E as (phi & s2 & E2 & E). apply bind_some in E as (c0 & s3 & E3 & E).
    apply bind_some in E as (c1 & s4 & E4 & E). apply ret_some in E. inversion E; subst.
    exists false, phi, c0, c1, s1, s2, s3. split; [reflexivity|]. cbv zeta. repeat split; assumption.
Qed.

(** E_gamma = T- + T+ + 2 m c^2 (one positron created) *)
Theorem bh_energy_conserved (p : bh_params R) a s r a' s' :
  bh_sample p a s = Some ((r, a'), s') -> i_action r <> Failed ->
  i_action r = Absorbed /\ i_deposit r = 0 /\
  bh_energy p = sec_energy_sum (i_secs r) + 2 * bh_me p.
Proof.
  intros E Hf. apply bh_sample_inv in E as [(_ & Hr & _)|(_ & eps & s1 & _ & E)].
  - subst r. contradiction Hf. reflexivity.
  - apply bh_assemble_inv in E as (sw & phi & c0 & c1 & t1 & t2 & t3 & _ & H). cbv zeta in H.
    destruct H as (_ & _ & _ & _ & Hr). subst r.
    unfold sec_energy_sum. cbn [i_action i_deposit i_secs map nsum s_energy]. numR; numR.
    destruct sw; repeat split; ring.
Qed.

(** final state valid whenever the sampled energy fraction is in [m/E, 1/2] *)
Theorem bh_assemble_valid (p : bh_params R) eps s r s' :
  bh_ok p -> canon s -> bh_eps0 p <= eps <= 1 / 2 -> bh_assemble p eps s = Some (r, s') ->
  exists em ep, i_secs r = [em; ep] /\ s_pid em = PElectron /\ s_pid ep = PPositron /\
    0 <= s_energy em /\ 0 <= s_energy ep /\ unitv (s_dir em) /\ unitv (s_dir ep).
Proof.
  intros (Hm & HE & Hd) Hc [Hlo Hhi] E.
  apply bh_assemble_inv in E as (sw & phi & c0 & c1 & t1 & t2 & t3 & _ & H). cbv zeta in H.
  destruct H as (E1 & E2 & E3 & E4 & Hr).
  assert (HEp : 0 < bh_energy p) by lra.
  assert (Hlo' : bh_me p <= eps * bh_energy p).
  { unfold bh_eps0 in Hlo. numR. apply Rmult_le_compat_r with (r := bh_energy p) in Hlo; [|lra].
    replace (bh_me p / bh_energy p * bh_energy p) with (bh_me p) in Hlo by (field; lra). exact Hlo. }
  assert (He1 : 0 <= eps * bh_energy p - bh_me p) by lra.
  assert (He0 : 0 <= (1 - eps) * bh_energy p - bh_me p) by nra.
  destruct s as [|u0 s0]; [discriminate|]. rewrite bernoulli_run in E1. inversion E1; subst; clear E1.
  apply canon_cons in Hc as [_ Hc].
  destruct t1 as [|u1 t1']; [discriminate|]. rewrite uniform_run in E2. inversion E2; subst; clear E2.
  apply canon_cons in Hc as [_ Hc].
  assert (Hee : 0 <= (if Rltb u0 (1 / 2) then eps * bh_energy p - bh_me p else (1 - eps) * bh_energy p - bh_me p))
    by (destruct (Rltb u0 (1 / 2)); assumption).
  assert (Hep : 0 <= (if Rltb u0 (1 / 2) then (1 - eps) * bh_energy p - bh_me p else eps * bh_energy p - bh_me p))
    by (destruct (Rltb u0 (1 / 2)); assumption).
  destruct (tsai_urban_range _ _ _ _ _ Hee Hm E3 Hc) as [Hc0 Hc3].
  destruct (tsai_urban_range _ _ _ _ _ Hep Hm E4 Hc3) as [Hc1 _].
  eexists; eexists. split; [reflexivity|]. cbn [s_pid s_energy s_dir].
  repeat split; try assumption; apply rotate_unit; try assumption; apply from_spherical_unitv; assumption.
Qed.

(** ** the sampled energy fraction is in [m/E, 1/2] *)
Lemma Rcbrt_range (u : R) : canonical u -> 0 <= Rcbrt u <= 1.
Proof.
  intros [H0 H1]. unfold Rcbrt. destruct (Rlt_dec 0 u) as [Hp|Hn].
  - unfold Rpower. split; [left; apply exp_pos|].
    rewrite <- exp_0. apply exp_le.
    assert (ln u < 0) by (rewrite <- ln_1; apply ln_increasing; lra). nra.
  - destruct (Rlt_dec u 0); lra.
Qed.

Lemma bh_eps_min_range (p : bh_params R) : bh_ok p -> bh_eps0 p <= bh_eps_min p <= 1 / 2.
Proof.
  intros (Hm & HE & _). unfold bh_eps_min. cbv zeta. numR; numR.
  assert (He0 : bh_eps0 p <= 1 / 2).
  { unfold bh_eps0. numR. apply div_le_c; lra. }
  match goal with |- context [sqrt ?x] => pose proof (sqrt_pos x) as Hs; set (sq := sqrt x) in * end.
  destruct (Rltb_spec (bh_eps0 p) (1 / 2 - 1 / 2 * sq)); split; lra.
Qed.

Lemma bh_loop_spec (p : bh_params R) (eps_min fz f10 f20 : R) : eps_min <= 1 / 2 ->
  forall fuel s eps s', bh_loop fuel p eps_min fz f10 f20 s = Some (eps, s') -> canon s ->
  eps_min <= eps <= 1 / 2 /\ canon s'.
Proof.
  intros Hmin. induction fuel as [|f IH]; intros s eps s' E Hc; [discriminate|].
  cbn [bh_loop] in E. apply bind_some in E as (c & s1 & E1 & E).
  destruct s as [|u0 s0]; [discriminate|]. unfold bernoulli2 in E1. rewrite bernoulli_run in E1.
  inversion E1; subst; clear E1. apply canon_cons in Hc as [_ Hc].
  apply bind_some in E as (u & s2 & E2 & E). apply draw_some in E2. subst s1.
  apply canon_cons in Hc as [Hu Hc].
  match type of E with context [if ?b then _ else _] => destruct b end.
  - apply bind_some in E as (t & s3 & E3 & E). apply draw_some in E3. subst s2.
    apply canon_cons in Hc as [_ Hc]. numR; numR.
    match type of E with context [if ?b then _ else _] => destruct b end.
    + apply (IH _ _ _ E Hc).
    + apply ret_some in E. inversion E; subst. split; [|exact Hc].
      pose proof (Rcbrt_range u Hu) as Hcb. nra.
  - apply bind_some in E as (t & s3 & E3 & E). apply draw_some in E3. subst s2.
    apply canon_cons in Hc as [_ Hc]. numR; numR.
    match type of E with context [if ?b then _ else _] => destruct b end.
    + apply (IH _ _ _ E Hc).
    + apply ret_some in E. inversion E; subst. split; [|exact Hc].
      destruct Hu as [Hu0 Hu1]. nra.
Qed.

Lemma bh_sample_eps_range (p : bh_params R) s eps s' : bh_ok p -> canon s ->
  bh_sample_eps p s = Some (eps, s') -> bh_eps0 p <= eps <= 1 / 2 /\ canon s'.
Proof.
  intros Hok Hc E. pose proof (bh_eps_min_range p Hok) as [Hlo Hhi].
  unfold bh_sample_eps in E. numR; numR.
  destruct (Rltb_spec (bh_energy p) 2) as [Hlt|Hge].
  - destruct s as [|u s0]; [discriminate|]. apply canon_cons in Hc as [Hu Hc].
    destruct (uniform_support (bh_eps0 p) (1 / 2) u s0) as (x & Ex & Hx & _); [lra|exact Hu|].
    rewrite Ex in E. inversion E; subst. split; [lra|exact Hc].
  - apply bh_loop_spec in E; [|exact Hhi|exact Hc]. destruct E as [[A B] C]. split; [lra|exact C].
Qed.

Theorem bh_outputs_valid (p : bh_params R) a s r a' s' :
  bh_ok p -> canon s -> bh_sample p a s = Some ((r, a'), s') -> i_action r <> Failed ->
  exists em ep, i_secs r = [em; ep] /\ s_pid em = PElectron /\ s_pid ep = PPositron /\
    0 <= s_energy em /\ 0 <= s_energy ep /\ unitv (s_dir em) /\ unitv (s_dir ep).
Proof.
  intros Hok Hc E Hf. apply bh_sample_inv in E as [(_ & Hr & _)|(_ & eps & s1 & E1 & E2)].
  - subst r. contradiction Hf. reflexivity.
  - destruct (bh_sample_eps_range p s eps s1 Hok Hc E1) as [Hr Hc1].
    apply (bh_assemble_valid p eps s1 r s' Hok Hc1 Hr E2).
Qed.
