(** * The real Rayleigh parameter table (regenerated from RayleighModel.cc on every run) satisfies the
    data hypothesis [ry_ok] of C04_rayleigh_outputs_valid, for all 100 elements. *)
From Coq Require Import Reals ZArith List Bool Lra.
From Celer Require Import Base.Num Base.NumR Base.Vec3 C04.Common C04.CommonProofs C04.Rayleigh
  C04.RayleighProofs C04.RayleighTable.
Import ListNotations.
Local Open Scope R_scope.

Definition ry_elem_ok (e : list R * list R * list R) : Prop :=
  let '(a, b, n) := e in
  length a = 3%nat /\ length b = 3%nat /\ length n = 3%nat /\
  Forall (fun x => 0 <= x) a /\ Forall (fun x => 0 < x) b /\ Forall ry_n_ok n.

Ltac ry_elem :=
  unfold ry_elem_ok, ry_n_ok; repeat split; try reflexivity; repeat (constructor; try lra).

Theorem ry_table_ok : length ry_table = 100%nat /\ Forall ry_elem_ok ry_table.
Proof.
  split; [reflexivity|]. unfold ry_table.
  repeat (apply Forall_cons; [ry_elem|]). apply Forall_nil.
Qed.

(** hence every element of the table, at every positive energy, satisfies [ry_ok] *)
Theorem ry_table_elements_ok (E kfac : R) (d : vec3 R) : 0 < E -> 0 < kfac ->
  Forall (fun e => let '(a, b, n) := e in ry_ok (RY E d a b n kfac)) ry_table.
Proof.
  intros HE Hk. destruct ry_table_ok as [_ H]. eapply Forall_impl; [|exact H].
  intros [[a b] n] (_ & _ & _ & _ & Hb & Hn). unfold ry_ok. cbn [ry_kfac ry_energy ry_b ry_n]. auto.
Qed.
