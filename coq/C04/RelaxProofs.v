(** * The allocation 1 + max_secondary is sufficient for every relaxation cascade: proofs over R *)
From Coq Require Import Reals ZArith List Bool Lra Lia.
From Celer Require Import Base.Num Base.NumR C04.Relax.
Import ListNotations.
Local Open Scope R_scope.

(** ** per-element minima *)
Lemma nmin_R (a b : R) : nmin a b = Rmin a b.
Proof.
  unfold nmin. numR. unfold Rmin. destruct (Rltb_spec b a) as [Hlt|Hge]; destruct (Rle_dec a b); lra.
Qed.

Lemma elem_min_le_init (cuts : list R) : forall init, elem_min init cuts <= init.
Proof.
  unfold elem_min. induction cuts as [|c r IH]; intros init; cbn [fold_left]; [lra|].
  apply Rle_trans with (nmin init c); [apply IH|]. rewrite nmin_R. apply Rmin_l.
Qed.

(** the recorded cut is <= the cut of EVERY material containing the element *)
Theorem elem_min_le_all (cuts : list R) : forall init c, In c cuts -> elem_min init cuts <= c.
Proof.
  unfold elem_min. induction cuts as [|c0 r IH]; intros init c Hin; [contradiction|].
  cbn [fold_left]. destruct Hin as [->|Hin].
  - apply Rle_trans with (nmin init c); [apply (elem_min_le_init r)|]. rewrite nmin_R. apply Rmin_r.
  - apply IH. exact Hin.
Qed.

(** ** cascades: the vacancy [v] is filled by a sampled transition [t] of its shell, which leaves vacancies in
    [rt_init t] and (non-radiative) [rt_auger t]; or it is not filled (no data / no transition sampled).
    [h] bounds the nesting depth. *)
Inductive cascade (shells : list (list (rtrans R))) : nat -> option nat -> list (rtrans R) -> Prop :=
| casc_stop : forall h v, cascade shells h v []
| casc_step : forall h i trs t l1 l2, nth_error shells i = Some trs -> In t trs ->
    cascade shells h (rt_init t) l1 -> cascade shells h (rt_auger t) l2 ->
    cascade shells (S h) (Some i) (t :: l1 ++ l2).

Lemma emitted_app (ce cg : R) l1 l2 : emitted ce cg (l1 ++ l2) = (emitted ce cg l1 + emitted ce cg l2)%nat.
Proof. unfold emitted. induction l1 as [|t r IH]; cbn [app fold_right]; [reflexivity|]. rewrite IH. lia. Qed.

Lemma fold_max_ge {A} (f : A -> nat) (l : list A) (x : A) : In x l ->
  (f x <= fold_right (fun t acc => Nat.max (f t) acc) 0%nat l)%nat.
Proof.
  induction l as [|y r IH]; intros Hin; [contradiction|]. cbn [fold_right].
  destruct Hin as [->|Hin]; [lia|]. specialize (IH Hin). lia.
Qed.

(** the pre-computed maximum bounds the secondaries of every cascade of depth <= fuel, under the SAME cuts *)
Theorem max_sec_bounds_cascade shells (ce cg : R) : forall fuel h v l,
  cascade shells h v l -> (h <= fuel)%nat -> (emitted ce cg l <= max_sec fuel shells ce cg v)%nat.
Proof.
  induction fuel as [|f IH]; intros h v l Hc Hh.
  - inversion Hc; subst; [cbn; lia|lia].
  - inversion Hc as [|h' i trs t l1 l2 Hn Hin H1 H2]; subst; [cbn [emitted fold_right]; lia|].
    cbn [max_sec]. rewrite Hn.
    apply Nat.le_trans with (emits ce cg t + max_sec f shells ce cg (rt_init t) + max_sec f shells ce cg (rt_auger t))%nat.
    + change (emitted ce cg (t :: l1 ++ l2)) with (emits ce cg t + emitted ce cg (l1 ++ l2))%nat.
      rewrite emitted_app.
      pose proof (IH _ _ _ H1 ltac:(lia)). pose proof (IH _ _ _ H2 ltac:(lia)). lia.
    + apply (fold_max_ge (fun t => (emits ce cg t + max_sec f shells ce cg (rt_init t)
                                    + max_sec f shells ce cg (rt_auger t))%nat) trs t Hin).
Qed.

(** lower cuts emit at least as much *)
Lemma emits_antitone (ce cg ce' cg' : R) t : ce' <= ce -> cg' <= cg -> (emits ce cg t <= emits ce' cg' t)%nat.
Proof.
  intros He Hg. unfold emits. numR.
  destruct (Rleb_spec ce (rt_energy t)); destruct (Rleb_spec ce' (rt_energy t)); try lra;
  destruct (Rleb_spec cg (rt_energy t)); destruct (Rleb_spec cg' (rt_energy t)); try lra;
  destruct (rt_auger t); cbn; lia.
Qed.
Lemma emitted_antitone (ce cg ce' cg' : R) l : ce' <= ce -> cg' <= cg -> (emitted ce cg l <= emitted ce' cg' l)%nat.
Proof.
  intros He Hg. unfold emitted. induction l as [|t r IH]; cbn [fold_right]; [lia|].
  pose proof (emits_antitone ce cg ce' cg' t He Hg). lia.
Qed.

Lemma max_secondary_ge shells (ce cg : R) fuel i : (i < length shells)%nat ->
  (max_sec fuel shells ce cg (Some i) <= max_secondary fuel shells ce cg)%nat.
Proof.
  intros Hi. unfold max_secondary.
  apply (fold_max_ge (fun i => max_sec fuel shells ce cg (Some i)) (seq 0 (length shells)) i).
  apply in_seq. lia.
Qed.

(** ** the allocation is sufficient: for an element whose recorded cuts are the minima over the materials
    containing it, a cascade in ANY of those materials (true per-material cuts (ce_m, cg_m)) starting from any
    subshell emits at most max_secondary secondaries *)
Theorem allocation_sufficient shells (e_cuts g_cuts : list R) (init_e init_g ce_m cg_m : R) fuel h i l :
  In ce_m e_cuts -> In cg_m g_cuts -> (i < length shells)%nat ->
  cascade shells h (Some i) l -> (h <= fuel)%nat ->
  (emitted ce_m cg_m l <= max_secondary fuel shells (elem_min init_e e_cuts) (elem_min init_g g_cuts))%nat.
Proof.
  intros He Hg Hi Hc Hh.
  apply Nat.le_trans with (emitted (elem_min init_e e_cuts) (elem_min init_g g_cuts) l).
  - apply emitted_antitone; apply elem_min_le_all; assumption.
  - apply Nat.le_trans with (max_sec fuel shells (elem_min init_e e_cuts) (elem_min init_g g_cuts) (Some i)).
    + apply (max_sec_bounds_cascade _ _ _ _ _ _ _ Hc Hh).
    + apply max_secondary_ge. exact Hi.
Qed.

(** ... and a recorded cut ABOVE a material's cut breaks it (what the merged-minimum change C04-m5 does): one Auger
    transition of 5 (energy units) with material cut 1 but recorded cut 10 *)
Theorem allocation_insufficient_with_too_high_cut :
  exists shells l, cascade shells 1 (Some 0%nat) l /\
    (max_secondary 2 shells 10%R 1%R < emitted 1%R 1%R l)%nat.
Proof.
  exists [[RT (T:=R) None (Some 1%nat) 5]], [RT (T:=R) None (Some 1%nat) 5]. split.
  - apply (casc_step _ 0 0 [RT (T:=R) None (Some 1%nat) 5] (RT (T:=R) None (Some 1%nat) 5) [] []);
      [reflexivity|left; reflexivity|constructor|constructor].
  - unfold max_secondary, emitted, max_sec, emits. cbn [length seq fold_right nth_error rt_energy rt_auger rt_init]. numR.
    destruct (Rleb_spec 10 5); [lra|]. destruct (Rleb_spec 1 5); [|lra]. cbn. lia.
Qed.

Example allocation_sufficient_nonvacuous : In 1 [3; 1] /\ elem_min 100 [3; 1] = 1.
Proof. split; [right; left; reflexivity|]. unfold elem_min. cbn [fold_left]. rewrite !nmin_R. unfold Rmin.
  destruct (Rle_dec 100 3); [lra|]. destruct (Rle_dec 3 1); [lra|]. reflexivity. Qed.
