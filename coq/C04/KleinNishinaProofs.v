(** * Klein-Nishina: proofs over R *)
From Coq Require Import Reals ZArith List Bool Lra Lia Psatz.
From Celer Require Import Base.Num Base.NumR Base.Stream Base.Vec3 C15.Samplers C15.SamplersProofs
  C04.Common C04.CommonProofs C04.KleinNishina.
Import ListNotations.
Local Open Scope R_scope.

Lemma div_le_c (a b c : R) : 0 < b -> a <= c * b -> a / b <= c.
Proof. intros Hb H. apply Rmult_le_reg_r with b; [exact Hb|]. replace (a / b * b) with a by (field; lra). exact H. Qed.
Lemma div_ge_c (a b c : R) : 0 < b -> c * b <= a -> c <= a / b.
Proof. intros Hb H. apply Rmult_le_reg_r with b; [exact Hb|]. replace (a / b * b) with a by (field; lra). exact H. Qed.
Lemma div_lt_c (a b c : R) : 0 < b -> a < c * b -> a / b < c.
Proof. intros Hb H. apply Rmult_lt_reg_r with b; [exact Hb|]. replace (a / b * b) with a by (field; lra). exact H. Qed.
Lemma div_gt_c (a b c : R) : 0 < b -> c * b < a -> c < a / b.
Proof. intros Hb H. apply Rmult_lt_reg_r with b; [exact Hb|]. replace (a / b * b) with a by (field; lra). exact H. Qed.

(** parameters are physical: positive energy, inv_electron_mass = 1/m, unit direction *)
Definition kn_ok (me : R) (p : kn_params R) : Prop :=
  0 < me /\ kn_inv_me p = / me /\ 0 < kn_energy p /\ unitv (kn_dir p).

Lemma kn_eps0_range (k : R) : 0 < k -> 0 < kn_eps0 k < 1 /\ kn_eps0 k * (1 + 2 * k) = 1.
Proof.
  intros Hk. unfold kn_eps0, n2. numR. split; [split|].
  - apply Rdiv_lt_0_compat; lra.
  - apply div_lt_c; lra.
  - field. lra.
Qed.

(** the kinematic part shared by both branches of a candidate *)
Lemma kn_kinematics (k eps0 eps : R) : 0 < k -> 0 < eps0 -> eps0 * (1 + 2 * k) = 1 -> eps0 <= eps <= 1 ->
  let omc := (1 - eps) / (eps * k) in
  0 <= omc <= 2 /\ 0 <= eps * (omc * (2 - omc)) / (1 + eps * eps) <= 1 / 2.
Proof.
  intros Hk He0 He0k [Hlo Hhi]. cbv zeta.
  assert (Hd : 0 < eps * k) by nra.
  set (omc := (1 - eps) / (eps * k)).
  assert (Ho : 0 <= omc <= 2).
  { split; [apply div_ge_c; [exact Hd|lra] | apply div_le_c; [exact Hd|nra]]. }
  split; [exact Ho|]. clearbody omc.
  assert (Hs2 : 0 <= omc * (2 - omc) <= 1).
  { split; [apply Rmult_le_pos; lra|]. pose proof (Rle_0_sqr (1 - omc)) as Hq. unfold Rsqr in Hq. lra. }
  assert (Hden : 0 < 1 + eps * eps) by nra.
  split.
  - apply div_ge_c; [exact Hden|]. rewrite Rmult_0_l. apply Rmult_le_pos; lra.
  - apply div_le_c; [exact Hden|]. pose proof (Rle_0_sqr (1 - eps)) as Hq. unfold Rsqr in Hq.
    assert (eps * (omc * (2 - omc)) <= eps * 1) by (apply Rmult_le_compat_l; lra). lra.
Qed.

Definition kn_pair (eps0 u1 u2 : R) : R * R :=
  if Rltb u1 (- ln eps0 / (- ln eps0 + 1 / 2 * (1 - eps0 * eps0)))
  then (let e := 1 * exp (ln (1 / 1 * eps0) * u2) in (e, e * e))
  else (let e2 := (1 - eps0 * eps0) * u2 + eps0 * eps0 in (sqrt e2, e2)).

Lemma kn_candidate_run (k eps0 u1 u2 : R) s :
  kn_candidate k eps0 (u1 :: u2 :: s) =
  let pr := kn_pair eps0 u1 u2 in
  let omc := nmin ((1 - fst pr) / (fst pr * k)) 2 in
  Some ((fst pr, omc, fst pr * (omc * (2 - omc)) / (1 + snd pr)), s).
Proof.
  unfold kn_candidate, kn_pair, bernoulli2, bernoulli, reciprocal, uniform, bind, draw, ret.
  cbn [nltb NumR]. 
  match goal with |- context [Rltb u1 ?pp] => change pp with (- ln eps0 / (- ln eps0 + 1 / 2 * (1 - eps0 * eps0))) end.
  destruct (Rltb u1 _); reflexivity.
Qed.

Lemma kn_candidate_short (k eps0 : R) s : (length s < 2)%nat -> kn_candidate k eps0 s = None.
Proof.
  destruct s as [|u1 [|u2 s0]]; cbn [length]; intros Hl; try lia; [reflexivity|].
  unfold kn_candidate, bernoulli2, bernoulli, reciprocal, uniform, bind, draw, ret.
  destruct (nltb u1 _); reflexivity.
Qed.

Lemma kn_candidate_spec (k : R) s eps omc rp s' :
  kn_candidate k (kn_eps0 k) s = Some ((eps, omc, rp), s') -> 0 < k -> canon s ->
  exists u1 u2, s = u1 :: u2 :: s' /\ kn_eps0 k <= eps <= 1 /\
    omc = (1 - eps) / (eps * k) /\ 0 <= omc <= 2 /\ 0 <= rp <= 1 / 2.
Proof.
  intros E Hk Hc. destruct (kn_eps0_range k Hk) as [[He0 He1] He0k]. set (eps0 := kn_eps0 k) in *. clearbody eps0.
  destruct s as [|u1 [|u2 s0]]; try (rewrite kn_candidate_short in E by (cbn; lia); discriminate).
  apply canon_cons in Hc as [Hu1 Hc]. apply canon_cons in Hc as [[Hu20 Hu21] Hc].
  rewrite kn_candidate_run in E. cbv zeta in E. inversion E; subst; clear E. exists u1, u2. split; [reflexivity|].
  assert (Hr : eps0 <= fst (kn_pair eps0 u1 u2) <= 1 /\
               snd (kn_pair eps0 u1 u2) = fst (kn_pair eps0 u1 u2) * fst (kn_pair eps0 u1 u2)).
  { unfold kn_pair. destruct (Rltb u1 _); cbv zeta; cbn [fst snd].
    - replace (1 / 1 * eps0) with eps0 by field.
      assert (Hln : ln eps0 < 0) by (rewrite <- ln_1; apply ln_increasing; lra).
      split; [|reflexivity]. split.
      + rewrite <- (exp_ln eps0) at 1 by lra. rewrite Rmult_1_l. apply exp_le. nra.
      + rewrite Rmult_1_l. rewrite <- exp_0. apply exp_le. nra.
    - set (e2 := (1 - eps0 * eps0) * u2 + eps0 * eps0).
      assert (Hq : 0 < eps0 * eps0 < 1) by nra.
      assert (Hm0 : 0 <= (1 - eps0 * eps0) * u2) by (apply Rmult_le_pos; lra).
      assert (Hm1 : (1 - eps0 * eps0) * u2 <= (1 - eps0 * eps0) * 1) by (apply Rmult_le_compat_l; lra).
      assert (He2 : eps0 * eps0 <= e2 <= 1) by (unfold e2; lra).
      split; [|rewrite sqrt_sqrt; [reflexivity|lra]]. split.
      + rewrite <- (sqrt_square eps0) at 1 by lra. apply sqrt_le_1; nra.
      + rewrite <- sqrt_1. apply sqrt_le_1; nra. }
  destruct Hr as [Hr Hsq]. rewrite Hsq.
  pose proof (kn_kinematics k eps0 _ Hk He0 He0k Hr) as [Ho Hp]. cbv zeta in *.
  (* the bound min(., 2) of the repaired code is the identity in exact arithmetic *)
  set (X := (1 - fst (kn_pair eps0 u1 u2)) / (fst (kn_pair eps0 u1 u2) * k)) in *.
  assert (Hid : nmin X 2 = X) by (unfold nmin; numR; destruct (Rltb_spec 2 X); [lra|reflexivity]).
  rewrite Hid.
  repeat split; try lra.
Qed.

(** ** acceptance bound and termination *)
Theorem kn_accept_lower_bound (k : R) s eps omc rp s' :
  kn_candidate k (kn_eps0 k) s = Some ((eps, omc, rp), s') -> 0 < k -> canon s -> rp <= 1 / 2.
Proof. intros E Hk Hc. destruct (kn_candidate_spec _ _ _ _ _ _ E Hk Hc) as (? & ? & ? & ? & ? & ? & ?). lra. Qed.

Lemma kn_candidate_total (k : R) u1 u2 s : exists r, kn_candidate k (kn_eps0 k) (u1 :: u2 :: s) = Some (r, s).
Proof. rewrite kn_candidate_run. cbv zeta. eexists; reflexivity. Qed.

(** one iteration consumes exactly three uniforms and exits when the test draw is >= 1/2 *)
Theorem kn_terminates_on_high_draw (k : R) fuel u1 u2 u3 s :
  0 < k -> canon [u1; u2; u3] -> 1 / 2 <= u3 ->
  exists r, kn_loop (S fuel) k (kn_eps0 k) (u1 :: u2 :: u3 :: s) = Some (r, s).
Proof.
  intros Hk Hc Hu3. destruct (kn_candidate_total k u1 u2 (u3 :: s)) as [[[eps omc] rp] E].
  assert (Hc' : canon (u1 :: u2 :: u3 :: s) \/ True) by (right; exact I).
  assert (Hrp : rp <= 1 / 2).
  { (* the candidate only looks at u1, u2 *)
    destruct (kn_candidate_total k u1 u2 []) as [[[eps' omc'] rp'] E'].
    assert (Hsame : (eps', omc', rp') = (eps, omc, rp)).
    { rewrite kn_candidate_run in E, E'. cbv zeta in E, E'. inversion E; inversion E'; reflexivity. }
    inversion Hsame; subst.
    apply (kn_accept_lower_bound k [u1; u2] eps omc rp [] E' Hk).
    apply canon_cons in Hc as [H1 Hc]. apply canon_cons in Hc as [H2 _]. apply canon_cons; split; [exact H1|].
    apply canon_cons; split; [exact H2|constructor]. }
  cbn [kn_loop]. unfold bind at 1. rewrite E. unfold bind at 1. rewrite bernoulli_run.
  assert (Hf : Rltb u3 rp = false) by (apply Rltb_false; lra). rewrite Hf. eexists; reflexivity.
Qed.

(** on any canonical stream the loop exits no later than the first iteration
    whose test draw is >= 1/2 *)
Theorem kn_loop_exits_by_first_high_draw (k : R) : 0 < k ->
  forall (n : nat) (pre : list R), length pre = (3 * n)%nat -> canon pre ->
  forall u1 u2 u3 s fuel, canon [u1; u2; u3] -> 1 / 2 <= u3 -> (n < fuel)%nat ->
  exists r s', kn_loop fuel k (kn_eps0 k) (pre ++ u1 :: u2 :: u3 :: s) = Some (r, s') /\
               (length s <= length s')%nat.
Proof.
  intros Hk. induction n as [|n IH]; intros pre Hlen Hpre u1 u2 u3 s fuel Hc Hu3 Hf.
  - destruct pre; [|discriminate]. destruct fuel as [|f]; [lia|].
    destruct (kn_terminates_on_high_draw k f u1 u2 u3 s Hk Hc Hu3) as [r E]. exists r, s. split; [exact E|lia].
  - destruct pre as [|a [|b [|c pre']]]; try (cbn in Hlen; lia).
    destruct fuel as [|f]; [lia|].
    apply canon_cons in Hpre as [Ha Hpre]. apply canon_cons in Hpre as [Hb Hpre]. apply canon_cons in Hpre as [Hcc Hpre].
    cbn [app]. destruct (kn_candidate_total k a b (c :: pre' ++ u1 :: u2 :: u3 :: s)) as [[[eps omc] rp] E].
    cbn [kn_loop]. unfold bind at 1. rewrite E. unfold bind at 1. rewrite bernoulli_run.
    destruct (Rltb c rp).
    + apply IH; try assumption; [cbn in Hlen; lia | lia].
    + exists (eps, omc), (pre' ++ u1 :: u2 :: u3 :: s). split; [reflexivity|].
      rewrite app_length. cbn [length]. lia.
Qed.

(** ** loop result *)
Lemma kn_loop_spec (k : R) : 0 < k -> forall fuel s eps omc s',
  kn_loop fuel k (kn_eps0 k) s = Some ((eps, omc), s') -> canon s ->
  kn_eps0 k <= eps <= 1 /\ omc = (1 - eps) / (eps * k) /\ 0 <= omc <= 2 /\ canon s' /\
  (length s' < length s)%nat.
Proof.
  intros Hk. induction fuel as [|f IH]; intros s eps omc s' E Hc; [discriminate|].
  cbn [kn_loop] in E. apply bind_some in E as ([[e o] rp] & s1 & E1 & E).
  destruct (kn_candidate_spec _ _ _ _ _ _ E1 Hk Hc) as (u1 & u2 & Hs & He & Ho & Hor & Hrp). subst s.
  apply canon_cons in Hc as [_ Hc]. apply canon_cons in Hc as [_ Hc].
  apply bind_some in E as (rej & s2 & E2 & E).
  destruct s1 as [|u3 s1']; [discriminate|]. rewrite bernoulli_run in E2. inversion E2; subst; clear E2.
  apply canon_cons in Hc as [_ Hc].
  destruct (Rltb u3 rp).
  - destruct (IH _ _ _ _ E Hc) as (A & B & C & D & L). repeat split; try tauto. cbn [length]. lia.
  - apply ret_some in E. inversion E; subst. repeat split; try tauto. cbn [length]. lia.
Qed.

(** ** final state *)
Lemma kn_sample_inv (p : kn_params R) a s r a' s' :
  kn_sample p a s = Some ((r, a'), s') ->
  (allocate 1 a = None /\ r = from_failure /\ a' = a /\ s' = s) \/
  (allocate 1 a = Some a' /\ exists eps omc s1,
     kn_loop (length s) (kn_k p) (kn_eps0 (kn_k p)) s = Some ((eps, omc), s1) /\
     kn_assemble p eps omc s1 = Some (r, s')).
Proof.
  unfold kn_sample. destruct (allocate 1 a) as [a1|].
  - intros E. right. apply bind_some in E as ([eps omc] & s1 & E1 & E).
    apply bind_some in E as (r1 & s2 & E2 & E). apply ret_some in E. inversion E; subst.
    split; [reflexivity|]. exists eps, omc, s1. split; assumption.
  - intros E. inversion E; subst. left. repeat split; reflexivity.
Qed.

Lemma kn_assemble_inv (p : kn_params R) eps omc s r s' :
  kn_assemble p eps omc s = Some (r, s') ->
  exists dir, exiting_direction (1 - omc) (kn_dir p) s = Some (dir, s') /\
    let e_out := eps * kn_energy p in
    let e_sec := kn_energy p - e_out in
    (e_sec < 1 / 10000 /\ r = Inter Scattered e_out dir [sec_clear] e_sec) \/
    (1 / 10000 <= e_sec /\
     r = Inter Scattered e_out dir
           [Sec PElectron e_sec (calc_exiting_direction (kn_energy p) (kn_dir p) e_out dir)] 0).
Proof.
  unfold kn_assemble. intros E. apply bind_some in E as (dir & s1 & E1 & E). exists dir.
  unfold kn_cutoff in E. numR.
  destruct (Rltb_spec (kn_energy p - eps * kn_energy p) (1 / 10000)) as [Hlt|Hge];
    apply ret_some in E; inversion E; subst.
  - split; [exact E1|]. left. split; [exact Hlt|reflexivity].
  - split; [exact E1|]. right. split; [lra|reflexivity].
Qed.

Theorem kn_failure_is_atomic (p : kn_params R) (a : alloc) s :
  allocate 1 a = None ->
  kn_sample p a s = Some ((from_failure, a), s) /\
  i_action (from_failure (T:=R)) = Failed /\ i_secs (from_failure (T:=R)) = [].
Proof. intros Ha. unfold kn_sample. rewrite Ha. repeat split. Qed.

Theorem kn_fails_only_on_exhausted_storage (p : kn_params R) a s r a' s' :
  kn_sample p a s = Some ((r, a'), s') -> i_action r = Failed -> allocate 1 a = None /\ a' = a /\ s' = s.
Proof.
  intros E Hf. apply kn_sample_inv in E as [(Ha & _ & Ha' & Hs)|(Ha & eps & omc & s1 & _ & E2)]; [tauto|].
  apply kn_assemble_inv in E2 as (dir & _ & [[_ Hr]|[_ Hr]]); subst r; discriminate.
Qed.

Theorem kn_energy_conserved (p : kn_params R) a s r a' s' :
  kn_sample p a s = Some ((r, a'), s') -> i_action r <> Failed ->
  kn_energy p = i_energy r + sec_energy_sum (i_secs r) + i_deposit r.
Proof.
  intros E Hf. apply kn_sample_inv in E as [(_ & Hr & _)|(Ha & eps & omc & s1 & _ & E2)].
  - subst r. contradiction Hf. reflexivity.
  - apply kn_assemble_inv in E2 as (dir & _ & [[_ Hr]|[_ Hr]]); subst r;
      unfold sec_energy_sum; cbn [i_energy i_secs i_deposit map nsum s_energy sec_clear]; numR; ring.
Qed.

Theorem kn_outputs_valid (me : R) (p : kn_params R) a s r a' s' :
  kn_ok me p -> canon s -> kn_sample p a s = Some ((r, a'), s') -> i_action r <> Failed ->
  i_action r = Scattered /\ 0 < i_energy r <= kn_energy p /\ unitv (i_dir r) /\ 0 <= i_deposit r /\
  a' = ((fst a + 1)%nat, snd a) /\
  exists sec, i_secs r = [sec] /\
    ((s_pid sec = PNone /\ s_energy sec = 0 /\ i_deposit r < 1 / 10000) \/
     (s_pid sec = PElectron /\ 1 / 10000 <= s_energy sec /\ unitv (s_dir sec) /\ i_deposit r = 0)).
Proof.
  intros (Hme & Hinv & HE & Hd) Hc E Hf.
  apply kn_sample_inv in E as [(_ & Hr & _)|(Ha & eps & omc & s1 & E1 & E2)].
  { subst r. contradiction Hf. reflexivity. }
  assert (Hk : 0 < kn_k p).
  { unfold kn_k. numR. rewrite Hinv. apply Rmult_lt_0_compat; [exact HE|]. apply Rinv_0_lt_compat; exact Hme. }
  destruct (kn_loop_spec _ Hk _ _ _ _ _ E1 Hc) as (He & Ho & Hor & Hc1 & _).
  destruct (kn_eps0_range _ Hk) as [[He0 He1] _].
  apply kn_assemble_inv in E2 as (dir & Ed & Hcase).
  assert (Hcos : -1 <= 1 - omc <= 1) by lra.
  destruct (exiting_direction_spec _ _ _ _ _ Ed Hcos Hd) as (u & _ & Hdir & _).
  destruct a as [size cap]. apply allocate_some in Ha as [Ha' _].
  cbv zeta in Hcase. destruct Hcase as [[Hlt Hr]|[Hge Hr]]; subst r; cbn [i_action i_energy i_dir i_deposit i_secs fst snd].
  - repeat split; try assumption; try nra.
    eexists; split; [reflexivity|]. left. cbn. repeat split; try reflexivity. exact Hlt.
  - repeat split; try assumption; try nra.
    eexists; split; [reflexivity|]. right. cbn [s_pid s_energy s_dir]. repeat split; try reflexivity; try lra.
    apply make_unit_vector_unit. apply momentum_diff_pos; try assumption; nra.
Qed.

(** momentum: E d_in = E' d' + p_e d_e with p_e = sqrt(T (T + 2 m)), whenever
    the electron is emitted and the tree's rotate() recovers the azimuth of the
    incident direction faithfully (branch hypothesis) *)
Theorem kn_momentum_conserved (me : R) (p : kn_params R) a s r a' s' sec :
  kn_ok me p -> canon s -> rot_branch_ok (kn_dir p) ->
  kn_sample p a s = Some ((r, a'), s') -> i_secs r = [sec] -> s_pid sec = PElectron ->
  let pe := sqrt (s_energy sec * (s_energy sec + 2 * me)) in
  let E := kn_energy p in
  vx (kn_dir p) * E = vx (i_dir r) * i_energy r + vx (s_dir sec) * pe /\
  vy (kn_dir p) * E = vy (i_dir r) * i_energy r + vy (s_dir sec) * pe /\
  vz (kn_dir p) * E = vz (i_dir r) * i_energy r + vz (s_dir sec) * pe.
Proof.
  intros (Hme & Hinv & HE & Hd) Hc Hb E Hsec Hpid.
  apply kn_sample_inv in E as [(_ & Hr & _)|(Ha & eps & omc & s1 & E1 & E2)].
  { subst r. discriminate. }
  assert (Hk : 0 < kn_k p).
  { unfold kn_k. numR. rewrite Hinv. apply Rmult_lt_0_compat; [exact HE|]. apply Rinv_0_lt_compat; exact Hme. }
  destruct (kn_loop_spec _ Hk _ _ _ _ _ E1 Hc) as (He & Ho & Hor & Hc1 & _).
  destruct (kn_eps0_range _ Hk) as [[He0 He1] _].
  apply kn_assemble_inv in E2 as (dir & Ed & Hcase).
  assert (Hcos : -1 <= 1 - omc <= 1) by lra.
  destruct (exiting_direction_spec _ _ _ _ _ Ed Hcos Hd) as (u & _ & Hdir & Hpol). specialize (Hpol Hb).
  cbv zeta in Hcase. destruct Hcase as [[Hlt Hr]|[Hge Hr]]; subst r; cbn [i_secs] in Hsec; inversion Hsec; subst sec.
  { discriminate. }
  cbn [i_dir i_energy s_energy s_dir]. cbv zeta.
  set (En := kn_energy p) in *. set (T := En - eps * En) in *.
  assert (Hsq : dot (momentum_diff En (kn_dir p) (eps * En) dir) (momentum_diff En (kn_dir p) (eps * En) dir)
                = T * (T + 2 * me)).
  { rewrite momentum_diff_sq by assumption. rewrite Hpol. rewrite Ho. unfold kn_k. numR. rewrite Hinv.
    unfold T. fold En. field. split; lra. }
  assert (HT : 0 < T * (T + 2 * me)) by (apply Rmult_lt_0_compat; lra).
  set (pe := sqrt (T * (T + 2 * me))).
  assert (Hpe : 0 < pe) by (apply sqrt_lt_R0; exact HT).
  assert (Hpe2 : pe * pe = T * (T + 2 * me)) by (apply sqrt_sqrt; lra).
  unfold calc_exiting_direction. rewrite (make_unit_vector_scale _ pe Hpe) by (rewrite Hsq; lra).
  unfold momentum_diff. cbn [vx vy vz]. numR. repeat split; field; lra.
Qed.
