(** * C04 common lemmas (instance R): stream monad, allocator, vectors, rotate. *)
From Coq Require Import Reals ZArith List Bool Lra Lia Psatz.
From Celer Require Import Base.Num Base.NumR Base.Stream Base.Vec3 C15.Samplers C15.SamplersProofs C04.Common.
Import ListNotations.
Local Open Scope R_scope.

(** ** stream monad *)
Lemma bind_some {A B} (m : M R A) (f : A -> M R B) s r :
  bind m f s = Some r -> exists a s', m s = Some (a, s') /\ f a s' = Some r.
Proof. unfold bind. destruct (m s) as [[a s']|]; [|discriminate]. intros E. eauto. Qed.
Lemma ret_some {A} (a : A) (s : list R) r : ret a s = Some r -> r = (a, s).
Proof. unfold ret. intros E; inversion E; reflexivity. Qed.
Lemma draw_some (s : list R) u s' : draw s = Some (u, s') -> s = u :: s'.
Proof. destruct s; simpl; intros E; inversion E; reflexivity. Qed.

(** all elements of a stream are canonical uniforms *)
Definition canon (s : list R) : Prop := Forall canonical s.
Lemma canon_cons u s : canon (u :: s) <-> canonical u /\ canon s.
Proof. unfold canon. split; [intros F; inversion F; auto | intros [? ?]; constructor; auto]. Qed.

(** ** allocator *)
Lemma allocate_none n size cap : allocate n (size, cap) = None <-> (cap < size + n)%nat.
Proof. unfold allocate. destruct (Nat.leb_spec (size + n) cap); split; intros; try easy; lia. Qed.
Lemma allocate_some n size cap a : allocate n (size, cap) = Some a ->
  a = ((size + n)%nat, cap) /\ (size + n <= cap)%nat.
Proof. unfold allocate. destruct (Nat.leb_spec (size + n) cap); intros E; inversion E; auto. Qed.

(** ** vectors *)
Definition unitv (v : vec3 R) : Prop := dot v v = 1.
Lemma dot_R (a b : vec3 R) : dot a b = vx a * vx b + vy a * vy b + vz a * vz b.
Proof. unfold dot, nfma. numR. ring. Qed.

Lemma make_unit_vector_unit (v : vec3 R) : 0 < dot v v -> unitv (make_unit_vector v).
Proof.
  intros Hp. unfold unitv, make_unit_vector, norm. rewrite !dot_R in *. cbn [vx vy vz]. numR.
  set (d := vx v * vx v + vy v * vy v + vz v * vz v) in *.
  assert (Hs : sqrt d * sqrt d = d) by (apply sqrt_sqrt; lra).
  assert (Hs0 : 0 < sqrt d) by (apply sqrt_lt_R0; lra).
  replace (vx v * (1 / sqrt d) * (vx v * (1 / sqrt d)) + vy v * (1 / sqrt d) * (vy v * (1 / sqrt d))
           + vz v * (1 / sqrt d) * (vz v * (1 / sqrt d))) with (d / (sqrt d * sqrt d)).
  - rewrite Hs. field. lra.
  - unfold d. field. fold d. lra.
Qed.

(** make_unit_vector of a vector of norm 1 is the vector itself *)
Lemma make_unit_vector_id (v : vec3 R) : dot v v = 1 -> make_unit_vector v = v.
Proof.
  intros Hd. unfold make_unit_vector, norm. rewrite Hd. numR. rewrite sqrt_1.
  destruct v as [a b c]; cbn [vx vy vz]. f_equal; field.
Qed.

(** scaling: make_unit_vector v = v / |v| *)
Lemma make_unit_vector_scale (v : vec3 R) (n : R) : 0 < n -> dot v v = n * n ->
  make_unit_vector v = V3 (vx v / n) (vy v / n) (vz v / n).
Proof.
  intros Hn Hd. unfold make_unit_vector, norm. rewrite Hd. numR. rewrite sqrt_square by lra.
  f_equal; field; lra.
Qed.

Lemma from_spherical_unitv (c p : R) : -1 <= c <= 1 -> unitv (from_spherical c p).
Proof. apply from_spherical_unit. Qed.
Lemma from_spherical_z (c p : R) : vz (from_spherical c p) = c.
Proof. reflexivity. Qed.

(** Cauchy-Schwarz for unit vectors *)
Lemma dot_unit_le_1 (a b : vec3 R) : unitv a -> unitv b -> dot a b <= 1.
Proof.
  unfold unitv. rewrite !dot_R. destruct a as [a1 a2 a3], b as [b1 b2 b3]; cbn [vx vy vz]. intros Ha Hb.
  pose proof (Rle_0_sqr (a1 - b1)) as H1. pose proof (Rle_0_sqr (a2 - b2)) as H2. pose proof (Rle_0_sqr (a3 - b3)) as H3.
  unfold Rsqr in *. lra.
Qed.

(** ** rotate *)
Definition sintheta_of (rot : vec3 R) : R := sqrt (1 - vz rot * vz rot).

(** the (cos phi, sin phi) pair chosen by rotate; [fixed] selects the repaired
    near-z branch *)
Definition rot_phi (fixed : bool) (rot : vec3 R) : R * R :=
  let st := sintheta_of rot in
  if Rleb (5 / 1000) st then (vx rot * (1 / st), vy rot * (1 / st))
  else if fixed then
    (if Rltb 0 (vx rot * vx rot + vy rot * vy rot) then
       let inv := 1 / sqrt (vx rot * vx rot + vy rot * vy rot) in (vx rot * inv, vy rot * inv)
     else (1, 0))
  else
    (if Rltb 0 st then
       let c := vx rot / sqrt (vx rot * vx rot + vy rot * vy rot) in (c, sqrt (1 - c * c))
     else (1, 0)).

Definition rotate_raw_sel (fixed : bool) : R -> vec3 R -> vec3 R -> vec3 R :=
  if fixed then rotate_raw_new else rotate_raw_old.

Lemma rotate_raw_eq (fixed : bool) (dir rot : vec3 R) :
  rotate_raw_sel fixed (min_acc (T:=R)) dir rot =
  let st := sintheta_of rot in
  let '(c, s) := rot_phi fixed rot in
  let a := vz rot * vx dir + st * vz dir in
  V3 (a * c - s * vy dir) (a * s + c * vy dir) (- st * vx dir + vz rot * vz dir).
Proof.
  destruct fixed; unfold rotate_raw_sel, rotate_raw_new, rotate_raw_old, rot_phi, sintheta_of, min_acc; numR;
    (destruct (Rleb _ _); [reflexivity|]; destruct (Rltb _ _); reflexivity).
Qed.

(** [Base.Vec3.rotate_raw] is one of the two frozen copies *)
Lemma base_rotate_is :
  (forall m (d r : vec3 R), rotate_raw m d r = rotate_raw_old m d r) \/
  (forall m (d r : vec3 R), rotate_raw m d r = rotate_raw_new m d r).
Proof. first [left; intros; reflexivity | right; intros; reflexivity]. Qed.

Lemma sintheta_sq (rot : vec3 R) : unitv rot ->
  sintheta_of rot * sintheta_of rot = 1 - vz rot * vz rot /\ 0 <= sintheta_of rot /\
  1 - vz rot * vz rot = vx rot * vx rot + vy rot * vy rot.
Proof.
  unfold unitv. rewrite dot_R. intros Hu. unfold sintheta_of.
  assert (0 <= 1 - vz rot * vz rot) by nra.
  split; [apply sqrt_sqrt; assumption|]. split; [apply sqrt_pos | lra].
Qed.

(** in every branch the azimuth pair is on the unit circle *)
Lemma rot_phi_circle (fixed : bool) (rot : vec3 R) : unitv rot ->
  let '(c, s) := rot_phi fixed rot in c * c + s * s = 1.
Proof.
  intros Hu. destruct (sintheta_sq rot Hu) as (Hss & Hs0 & Hxy).
  unfold rot_phi. set (st := sintheta_of rot) in *.
  destruct (Rleb_spec (5 / 1000) st) as [Hge|Hlt].
  - replace (vx rot * (1 / st) * (vx rot * (1 / st)) + vy rot * (1 / st) * (vy rot * (1 / st)))
      with ((vx rot * vx rot + vy rot * vy rot) / (st * st)) by (field; lra).
    rewrite <- Hxy, Hss. field. nra.
  - set (h := vx rot * vx rot + vy rot * vy rot) in *.
    destruct fixed.
    + destruct (Rltb_spec 0 h) as [Hh|Hh0]; [|lra].
      assert (Hsh : sqrt h * sqrt h = h) by (apply sqrt_sqrt; lra).
      assert (Hsh0 : 0 < sqrt h) by (apply sqrt_lt_R0; lra).
      cbv zeta.
      replace (vx rot * (1 / sqrt h) * (vx rot * (1 / sqrt h)) + vy rot * (1 / sqrt h) * (vy rot * (1 / sqrt h)))
        with ((vx rot * vx rot + vy rot * vy rot) / (sqrt h * sqrt h)) by (field; lra).
      rewrite Hsh. fold h. field. lra.
    + destruct (Rltb_spec 0 st) as [Hpos|Hz]; [|lra].
      assert (Hh : 0 < h) by nra.
      assert (Hsh : sqrt h * sqrt h = h) by (apply sqrt_sqrt; lra).
      assert (Hsh0 : 0 < sqrt h) by (apply sqrt_lt_R0; lra).
      set (c := vx rot / sqrt h).
      assert (Hc : c * c = vx rot * vx rot / h).
      { unfold c. replace (vx rot / sqrt h * (vx rot / sqrt h)) with (vx rot * vx rot / (sqrt h * sqrt h)) by (field; lra).
        rewrite Hsh. reflexivity. }
      assert (Hc1 : 0 <= 1 - c * c).
      { rewrite Hc. assert (Hq : vx rot * vx rot / h <= 1).
        { apply Rmult_le_reg_r with h; [exact Hh|].
          replace (vx rot * vx rot / h * h) with (vx rot * vx rot) by (field; lra).
          pose proof (Rle_0_sqr (vy rot)) as Hy2. unfold Rsqr in Hy2. unfold h. lra. }
        lra. }
      rewrite sqrt_sqrt by exact Hc1. lra.
Qed.

(** the raw rotated vector already has norm 1 (orthogonal matrix) *)
Lemma rotate_raw_sel_unit (fixed : bool) (dir rot : vec3 R) : unitv dir -> unitv rot ->
  unitv (rotate_raw_sel fixed (min_acc (T:=R)) dir rot).
Proof.
  intros Hd Hr. rewrite rotate_raw_eq. pose proof (rot_phi_circle fixed rot Hr) as Hc.
  destruct (sintheta_sq rot Hr) as (Hss & Hs0 & Hxy).
  destruct (rot_phi fixed rot) as [c s]. cbv zeta. set (st := sintheta_of rot) in *.
  unfold unitv in *. rewrite dot_R in *. cbn [vx vy vz].
  destruct dir as [dx dy dz]; cbn [vx vy vz] in *.
  set (rz := vz rot) in *.
  replace ((((rz * dx + st * dz) * c - s * dy) * ((rz * dx + st * dz) * c - s * dy)
     + ((rz * dx + st * dz) * s + c * dy) * ((rz * dx + st * dz) * s + c * dy)
     + (- st * dx + rz * dz) * (- st * dx + rz * dz)))
   with ((c * c + s * s) * ((rz * dx + st * dz) * (rz * dx + st * dz) + dy * dy)
         + (- st * dx + rz * dz) * (- st * dx + rz * dz)) by ring.
  rewrite Hc.
  replace (1 * ((rz * dx + st * dz) * (rz * dx + st * dz) + dy * dy) + (- st * dx + rz * dz) * (- st * dx + rz * dz))
    with ((rz * rz + st * st) * (dx * dx + dz * dz) + dy * dy) by ring.
  rewrite Hss. nra.
Qed.

(** The branch hypotheses under which the pinned code recovers the azimuth of
    [rot] faithfully: generic branch, or near-z branch with non-negative y, or
    exactly on the axis.  The repaired code needs no hypothesis. *)
Definition rot_branch_ok (rot : vec3 R) : Prop :=
  5 / 1000 <= sintheta_of rot \/ 0 <= vy rot.

Lemma rot_phi_faithful (fixed : bool) (rot : vec3 R) : unitv rot -> (fixed = true \/ rot_branch_ok rot) ->
  let '(c, s) := rot_phi fixed rot in
  vx rot = sintheta_of rot * c /\ vy rot = sintheta_of rot * s.
Proof.
  intros Hu Hb. unfold rot_branch_ok in Hb. destruct (sintheta_sq rot Hu) as (Hss & Hs0 & Hxy).
  unfold rot_phi. set (st := sintheta_of rot) in *.
  destruct (Rleb_spec (5 / 1000) st) as [Hge|Hlt].
  - split; field; lra.
  - set (h := vx rot * vx rot + vy rot * vy rot) in *.
    assert (Hsth : st * st = h) by lra.
    destruct fixed.
    + destruct (Rltb_spec 0 h) as [Hh|Hh0].
      * assert (Hsh : sqrt h * sqrt h = h) by (apply sqrt_sqrt; lra).
        assert (Hsh0 : 0 < sqrt h) by (apply sqrt_lt_R0; lra).
        assert (Hst : st = sqrt h) by (apply Rsqr_inj; [lra|lra|unfold Rsqr; lra]).
        cbv zeta. rewrite Hst. split; field; lra.
      * assert (Hx0 : vx rot = 0) by (unfold h in Hh0; nra).
        assert (Hy0 : vy rot = 0) by (unfold h in Hh0; nra).
        assert (Hst0 : st = 0) by nra. rewrite Hx0, Hy0, Hst0. split; ring.
    + destruct Hb as [Hb|[Hb|Hy]]; [discriminate|lra|].
      destruct (Rltb_spec 0 st) as [Hpos|Hz].
      * assert (Hh : 0 < h) by nra.
        assert (Hsh : sqrt h * sqrt h = h) by (apply sqrt_sqrt; lra).
        assert (Hsh0 : 0 < sqrt h) by (apply sqrt_lt_R0; lra).
        assert (Hst : st = sqrt h) by (apply Rsqr_inj; [lra|lra|unfold Rsqr; lra]).
        split.
        -- rewrite Hst. field. lra.
        -- set (c := vx rot / sqrt h).
           assert (Hc : 1 - c * c = (vy rot / sqrt h) * (vy rot / sqrt h)).
           { unfold c. replace (vy rot / sqrt h * (vy rot / sqrt h)) with (vy rot * vy rot / (sqrt h * sqrt h)) by (field; lra).
             replace (vx rot / sqrt h * (vx rot / sqrt h)) with (vx rot * vx rot / (sqrt h * sqrt h)) by (field; lra).
             rewrite Hsh. unfold h. field. fold h. lra. }
           rewrite Hc. rewrite sqrt_square.
           ++ rewrite Hst. field. lra.
           ++ apply Rmult_le_pos; [lra|]. apply Rlt_le, Rinv_0_lt_compat; lra.
      * assert (Hst0 : st = 0) by lra.
        assert (Hh0 : h = 0) by (rewrite <- Hsth, Hst0; ring).
        assert (Hx0 : vx rot = 0) by (unfold h in Hh0; nra).
        assert (Hy0 : vy rot = 0) by (unfold h in Hh0; nra).
        rewrite Hx0, Hy0, Hst0. split; ring.
Qed.

Lemma rotate_raw_sel_polar (fixed : bool) (dir rot : vec3 R) : unitv dir -> unitv rot ->
  (fixed = true \/ rot_branch_ok rot) ->
  dot (rotate_raw_sel fixed (min_acc (T:=R)) dir rot) rot = vz dir.
Proof.
  intros Hd Hr Hb. rewrite rotate_raw_eq.
  pose proof (rot_phi_circle fixed rot Hr) as Hc. pose proof (rot_phi_faithful fixed rot Hr Hb) as Hf.
  destruct (sintheta_sq rot Hr) as (Hss & Hs0 & Hxy).
  destruct (rot_phi fixed rot) as [c s]. cbv zeta. destruct Hf as [Hx Hy]. set (st := sintheta_of rot) in *.
  rewrite dot_R. cbn [vx vy vz]. rewrite Hx, Hy.
  replace (((vz rot * vx dir + st * vz dir) * c - s * vy dir) * (st * c)
           + ((vz rot * vx dir + st * vz dir) * s + c * vy dir) * (st * s)
           + (- st * vx dir + vz rot * vz dir) * vz rot)
    with ((c * c + s * s) * st * (vz rot * vx dir + st * vz dir) + (- st * vx dir + vz rot * vz dir) * vz rot) by ring.
  rewrite Hc. replace (1 * st * (vz rot * vx dir + st * vz dir) + (- st * vx dir + vz rot * vz dir) * vz rot)
    with ((st * st + vz rot * vz rot) * vz dir) by ring.
  rewrite Hss. ring.
Qed.

(** *** statements about [Base.Vec3.rotate] (whichever copy it currently is) *)
Theorem rotate_unit (dir rot : vec3 R) : unitv dir -> unitv rot ->
  unitv (rotate (min_acc (T:=R)) dir rot).
Proof.
  intros Hd Hr. unfold rotate.
  destruct base_rotate_is as [E|E]; rewrite E.
  - pose proof (rotate_raw_sel_unit false dir rot Hd Hr) as Hu. cbn [rotate_raw_sel] in Hu.
    rewrite make_unit_vector_id by exact Hu. exact Hu.
  - pose proof (rotate_raw_sel_unit true dir rot Hd Hr) as Hu. cbn [rotate_raw_sel] in Hu.
    rewrite make_unit_vector_id by exact Hu. exact Hu.
Qed.

(** the tree's [rotate] ([Base.Vec3.rotate], currently the pinned text; the proof
    goes through [base_rotate_is] and survives a switch of Base to the candidate
    repair): polar angle preserved under the branch hypothesis *)
Theorem rotate_preserves_polar (dir rot : vec3 R) : unitv dir -> unitv rot -> rot_branch_ok rot ->
  dot (rotate (min_acc (T:=R)) dir rot) rot = vz dir.
Proof.
  intros Hd Hr Hb. unfold rotate.
  destruct base_rotate_is as [E|E]; rewrite E.
  - pose proof (rotate_raw_sel_unit false dir rot Hd Hr) as Hu. cbn [rotate_raw_sel] in Hu.
    rewrite make_unit_vector_id by exact Hu. apply (rotate_raw_sel_polar false); auto.
  - pose proof (rotate_raw_sel_unit true dir rot Hd Hr) as Hu. cbn [rotate_raw_sel] in Hu.
    rewrite make_unit_vector_id by exact Hu. apply (rotate_raw_sel_polar true); auto.
Qed.

(** the tree's rotate IS the pinned copy (stops compiling when Base is repaired:
    then re-target the _refuted statements) *)
Lemma base_rotate_old : forall m (d r : vec3 R), rotate_raw m d r = rotate_raw_old m d r.
Proof. intros; reflexivity. Qed.

(** the pinned code preserved it only under the branch hypothesis *)
Theorem rotate_old_preserves_polar (dir rot : vec3 R) : unitv dir -> unitv rot -> rot_branch_ok rot ->
  dot (rotate_old (min_acc (T:=R)) dir rot) rot = vz dir.
Proof.
  intros Hd Hr Hb. unfold rotate_old.
  pose proof (rotate_raw_sel_unit false dir rot Hd Hr) as Hu. cbn [rotate_raw_sel] in Hu.
  rewrite make_unit_vector_id by exact Hu. apply (rotate_raw_sel_polar false); auto.
Qed.

(** the repaired formula preserves the polar angle for every unit [rot] *)
Theorem rotate_new_unit (dir rot : vec3 R) : unitv dir -> unitv rot ->
  unitv (rotate_new (min_acc (T:=R)) dir rot).
Proof.
  intros Hd Hr. unfold rotate_new. pose proof (rotate_raw_sel_unit true dir rot Hd Hr) as Hu.
  cbn [rotate_raw_sel] in Hu. rewrite make_unit_vector_id by exact Hu. exact Hu.
Qed.
Theorem rotate_new_preserves_polar (dir rot : vec3 R) : unitv dir -> unitv rot ->
  dot (rotate_new (min_acc (T:=R)) dir rot) rot = vz dir.
Proof.
  intros Hd Hr. unfold rotate_new. pose proof (rotate_raw_sel_unit true dir rot Hd Hr) as Hu.
  cbn [rotate_raw_sel] in Hu. rewrite make_unit_vector_id by exact Hu. apply (rotate_raw_sel_polar true); auto.
Qed.

(** In the near-z branch of the pinned code with rot.y < 0 the sign of rot.y
    is dropped: rotate_old(+z, rot) is the mirror image of rot, not rot.
    Witness on the unit sphere with rational coordinates (t = 1/1000 in the
    Pythagorean parametrisation). *)
Definition wit_rot : vec3 R := V3 0 (- 2000 / 1000001) (999999 / 1000001).
Definition wit_dir : vec3 R := V3 0 0 1.

Lemma wit_rot_unit : unitv wit_rot.
Proof. unfold unitv, wit_rot. rewrite dot_R. cbn [vx vy vz]. field. Qed.
Lemma wit_sintheta : sintheta_of wit_rot = 2000 / 1000001.
Proof.
  unfold sintheta_of, wit_rot. cbn [vz].
  replace (1 - 999999 / 1000001 * (999999 / 1000001)) with ((2000 / 1000001) * (2000 / 1000001)) by field.
  apply sqrt_square. lra.
Qed.

Lemma wit_rot_phi : rot_phi false wit_rot = (0, 1).
Proof.
  unfold rot_phi. rewrite wit_sintheta.
  destruct (Rleb_spec (5 / 1000) (2000 / 1000001)) as [H1|H1]; [lra|].
  destruct (Rltb_spec 0 (2000 / 1000001)) as [H2|H2]; [|lra].
  unfold wit_rot; cbn [vx vy vz].
  assert (E : forall x, 0 / x = 0) by (intros; unfold Rdiv; ring). rewrite E.
  replace (1 - 0 * 0) with 1 by ring. rewrite sqrt_1. reflexivity.
Qed.

Theorem rotate_old_preserves_polar_small_branch_refuted :
  exists dir rot : vec3 R, unitv dir /\ unitv rot /\
    0 < sintheta_of rot < 5 / 1000 /\ vy rot < 0 /\
    dot (rotate_old (min_acc (T:=R)) dir rot) rot <> vz dir.
Proof.
  exists wit_dir, wit_rot.
  assert (Hd : unitv wit_dir) by (unfold unitv, wit_dir; rewrite dot_R; cbn [vx vy vz]; ring).
  pose proof wit_rot_unit as Hr. pose proof wit_sintheta as Hs.
  split; [exact Hd|]. split; [exact Hr|]. split; [rewrite Hs; lra|]. split; [unfold wit_rot; cbn [vy]; lra|].
  unfold rotate_old. pose proof (rotate_raw_sel_unit false _ _ Hd Hr) as Hu. cbn [rotate_raw_sel] in Hu.
  rewrite make_unit_vector_id by exact Hu.
  pose proof (rotate_raw_eq false wit_dir wit_rot) as Eq. cbn [rotate_raw_sel] in Eq. rewrite Eq.
  rewrite wit_rot_phi, Hs. cbv zeta.
  rewrite dot_R. unfold wit_dir, wit_rot. cbn [vx vy vz]. lra.
Qed.

(** ** exiting direction sampler and momentum difference *)
Lemma exiting_direction_run (c : R) (d : vec3 R) u s :
  exiting_direction c d (u :: s) =
  Some (rotate (min_acc (T:=R)) (from_spherical c ((twopi - 0) * u + 0)) d, s).
Proof. reflexivity. Qed.

Lemma exiting_direction_spec (c : R) (d : vec3 R) s v s' :
  exiting_direction c d s = Some (v, s') -> -1 <= c <= 1 -> unitv d ->
  exists u, s = u :: s' /\ unitv v /\ (rot_branch_ok d -> dot v d = c).
Proof.
  intros E Hc Hd. destruct s as [|u s0]; [discriminate|]. rewrite exiting_direction_run in E.
  inversion E; subst. exists u. split; [reflexivity|].
  pose proof (from_spherical_unitv c ((twopi - 0) * u + 0) Hc) as Hf.
  split; [apply rotate_unit; assumption|]. intros Hb. rewrite rotate_preserves_polar by assumption. reflexivity.
Qed.

(** |p_in d_in - p_out d_out|^2 for unit vectors *)
Lemma momentum_diff_sq (pin pout : R) (din dout : vec3 R) : unitv din -> unitv dout ->
  dot (momentum_diff pin din pout dout) (momentum_diff pin din pout dout)
  = pin * pin + pout * pout - 2 * pin * pout * dot dout din.
Proof.
  unfold unitv, momentum_diff. rewrite !dot_R. cbn [vx vy vz]. numR. intros H1 H2.
  destruct din as [a b c], dout as [x y z]; cbn [vx vy vz] in *. nra.
Qed.

Lemma momentum_diff_pos (pin pout : R) (din dout : vec3 R) : unitv din -> unitv dout ->
  0 <= pin -> 0 <= pout -> pin <> pout ->
  0 < dot (momentum_diff pin din pout dout) (momentum_diff pin din pout dout).
Proof.
  intros H1 H2 Hi Ho Hne. rewrite momentum_diff_sq by assumption.
  pose proof (dot_unit_le_1 dout din H2 H1) as Hle.
  assert (Hp : 0 <= pin * pout) by nra.
  assert (Hq : 0 < (pin - pout) * (pin - pout)).
  { destruct (Rtotal_order pin pout) as [Hlt|[He|Hgt]]; [nra|contradiction|nra]. }
  nra.
Qed.

(** the same refutation stated about the tree's [Base.Vec3.rotate] *)
Theorem rotate_preserves_polar_small_branch_refuted :
  exists dir rot : vec3 R, unitv dir /\ unitv rot /\
    0 < sintheta_of rot < 5 / 1000 /\ vy rot < 0 /\
    dot (rotate (min_acc (T:=R)) dir rot) rot <> vz dir.
Proof.
  destruct rotate_old_preserves_polar_small_branch_refuted as (d & r & H1 & H2 & H3 & H4 & H5).
  exists d, r. repeat split; try assumption; try tauto.
Qed.
