(** * Rayleigh scattering (RayleighInteractor.hh) *)
From Coq Require Import ZArith List Bool.
From Celer Require Import Base.Num Base.Stream Base.Vec3 C15.Samplers C04.Common.
Import ListNotations.
Local Open Scope num_scope.

Section Rayleigh.
  Context {T : Type} `{Num T}.
  Notation M := (M T).

  (** fastpow(a, b) = exp(b log a) *)
  Definition fastpow (a b : T) : T := nexp (b * nlog a).
  Definition fit_slice : T := nQ 2 100.

  (** energy, direction, element parameters a, b, n (three each), and
      kfac = centimeter / (c h) * (1 MeV in native units) *)
  Record ry_params := RY { ry_energy : T; ry_dir : vec3 T; ry_a : list T; ry_b : list T; ry_n : list T; ry_kfac : T }.

  Definition ry_factor (p : ry_params) : T := nsq (ry_kfac p * ry_energy p).
  Definition ry_weight1 (factor b n : T) : T :=
    let x := nfma factor b b in
    if fit_slice <? x then n1 - fastpow (n1 + x) (- n)
    else n * x * (n1 - (n - n1) / n2 * x * (n1 - (n - n2) / nofZ 3 * x)).
  Definition ry_weights (p : ry_params) : list T :=
    map (fun bn => ry_weight1 (ry_factor p) (fst bn) (snd bn)) (combine (ry_b p) (ry_n p)).
  Definition ry_probs (p : ry_params) : list T :=
    let ws := ry_weights p in
    let raw := map (fun wabn => match wabn with (w, (a, (b, n))) => w * a / (b * n) end)
                   (combine ws (combine (ry_a p) (combine (ry_b p) (ry_n p)))) in
    let inv_sum := n1 / (nth 0 raw n0 + nth 1 raw n0 + nth 2 raw n0) in
    map (fun q => nfma inv_sum q n0) raw.

  Fixpoint ry_loop (fuel : nat) (p : ry_params) (ws probs : list T) : M T :=
    match fuel with
    | O => fail
    | S f =>
        index <- selector probs n1 ;;
        let w := nth index ws n0 in
        let ninv := n1 / nth index (ry_n p) n1 in
        let b := nth index (ry_b p) n1 in
        u <- draw ;;
        let y := w * u in
        let x := if y <? fit_slice
                 then y * ninv * (n1 + nhalf * (ninv + n1) * y * (n1 - (ninv + n2) * y / nofZ 3))
                 else fastpow (n1 - y) (- ninv) - n1 in
        let cost := n1 - n2 * x / (b * ry_factor p) in
        t <- draw ;;
        if orb (n1 + nsq cost <? n2 * t) (cost <? - n1) then ry_loop f p ws probs else ret cost
    end.

  Definition ry_sample (p : ry_params) (a : alloc) : M (interaction T * alloc) :=
    fun s =>
    (cost <- ry_loop (length s) p (ry_weights p) (ry_probs p) ;;
     d <- exiting_direction cost (ry_dir p) ;;
     ret (Inter Scattered (ry_energy p) d [] n0, a)) s.
End Rayleigh.
Arguments ry_params T : clear implicits.
