(** * Acceptance lower bounds and termination of the rejection loops (proofs over R)

    For every loop: [<m>_accept_lower_bound] (a candidate drawn from the loop's own proposal
    is accepted whenever the test uniform is below / above an explicit bound that is positive on
    the whole applicability interval) and the deterministic corollary [<m>_terminates_on_*_draw]
    (one iteration consumes a fixed number of uniforms and exits when its test draw is in the
    accepting range). *)
From Coq Require Import Reals ZArith List Bool Lra Lia Psatz.
From Celer Require Import Base.Num Base.NumR Base.Stream Base.Vec3 C15.Samplers C15.SamplersProofs
  C04.Common C04.CommonProofs C04.KleinNishinaProofs C04.EPlusGG C04.Ionization C04.IonizationProofs
  C04.AcceptNumerics.
Import ListNotations.
Local Open Scope R_scope.

(** ** e+ annihilation: reject_prob(eps) <= 1 - 2 (tau+1)/(tau+2)^2 on the whole epsilon interval *)
Definition ep_pmin (tau : R) : R := 2 * (tau + 1) / ((tau + 2) * (tau + 2)).

Lemma ep_pmin_pos (tau : R) : 0 < tau -> 0 < ep_pmin tau <= 1 / 2.
Proof.
  intros Ht. unfold ep_pmin. split.
  - apply Rdiv_lt_0_compat; nra.
  - apply div_le_c; nra.
Qed.

(** the bound is decreasing in tau: on (0, tau_max] it is at least its value at tau_max *)
Lemma ep_pmin_antitone (tau tmax : R) : 0 < tau <= tmax -> ep_pmin tmax <= ep_pmin tau.
Proof.
  intros [Ht Hle]. unfold ep_pmin.
  apply div_le_c; [nra|].
  replace (2 * (tau + 1) / ((tau + 2) * (tau + 2)) * ((tmax + 2) * (tmax + 2)))
    with (2 * (tau + 1) * ((tmax + 2) * (tmax + 2)) / ((tau + 2) * (tau + 2))) by (field; lra).
  apply div_ge_c; [nra|].
  (* (tmax+1)(tau+2)^2 <= (tau+1)(tmax+2)^2  <=>  (tmax - tau)(tau tmax + tau + tmax) >= 0 *)
  assert (H : 0 <= (tmax - tau) * (tau * tmax + tau + tmax)) by (apply Rmult_le_pos; nra).
  nra.
Qed.

Lemma ep_q_facts (tau : R) : 0 < tau ->
  let q := sqrt (tau / (tau + 2)) * (1 / 2) in
  0 <= q /\ q < 1 / 2 /\ q * q = tau / (tau + 2) / 4.
Proof.
  intros Ht. cbv zeta.
  assert (Hr : 0 < tau / (tau + 2) < 1).
  { split; [apply Rdiv_lt_0_compat; lra | apply div_lt_c; lra]. }
  assert (Hs : sqrt (tau / (tau + 2)) * sqrt (tau / (tau + 2)) = tau / (tau + 2)) by (apply sqrt_sqrt; lra).
  assert (Hs1 : sqrt (tau / (tau + 2)) < 1) by (rewrite <- sqrt_1; apply sqrt_lt_1; lra).
  assert (Hs0 : 0 <= sqrt (tau / (tau + 2))) by apply sqrt_pos.
  split; [lra|]. split; [lra|]. nra.
Qed.

Theorem ep_accept_lower_bound (tau eps : R) : 0 < tau ->
  let q := sqrt (tau / (tau + 2)) * (1 / 2) in
  1 / 2 - q <= eps <= 1 / 2 + q ->
  ep_reject_prob tau eps <= 1 - ep_pmin tau /\ 0 < ep_pmin tau.
Proof.
  intros Ht. cbv zeta. intros Hr. destruct (ep_q_facts tau Ht) as (Hq0 & Hq1 & Hq2). cbv zeta in *.
  set (q := sqrt (tau / (tau + 2)) * (1 / 2)) in *.
  split; [|apply ep_pmin_pos; exact Ht].
  assert (He : 0 < eps) by lra.
  (* eps^2 <= eps - 1/(2 (tau+2)) *)
  assert (Hd : (eps - 1 / 2) * (eps - 1 / 2) <= q * q) by nra. rewrite Hq2 in Hd.
  assert (Hk : tau / (tau + 2) / 4 = 1 / 4 - 1 / (2 * (tau + 2))) by (field; lra).
  rewrite Hk in Hd.
  assert (Hi : 1 / (2 * (tau + 2)) * (2 * (tau + 2)) = 1) by (field; lra).
  set (w := 1 / (2 * (tau + 2))) in *.
  assert (Hw : 0 < w) by (unfold w; apply Rdiv_lt_0_compat; lra).
  assert (He2 : eps * eps <= eps - w) by nra.
  unfold ep_reject_prob, ep_pmin. numR.
  set (t2 := tau + 2) in *.
  assert (Ht2 : 2 < t2) by (unfold t2; lra).
  replace (tau + 1) with (t2 - 1) by (unfold t2; ring).
  assert (Hden : 0 < eps * (t2 * t2)) by nra.
  apply Rle_trans with ((eps * eps * (t2 * t2) - 2 * (t2 - 1) * eps + 1) / (eps * (t2 * t2))); [right; field; lra|].
  apply div_le_c; [exact Hden|].
  replace ((1 - 2 * (t2 - 1) / (t2 * t2)) * (eps * (t2 * t2))) with (eps * (t2 * t2) - 2 * (t2 - 1) * eps)
    by (field; lra).
  (* eps^2 t2^2 + 1 <= eps t2^2 : from eps^2 <= eps - w and w t2^2 = t2/2 >= 1 *)
  assert (Hwt : w * (t2 * t2) = t2 / 2) by (unfold w; field; lra).
  assert (Hm : eps * eps * (t2 * t2) <= (eps - w) * (t2 * t2)) by (apply Rmult_le_compat_r; nra).
  nra.
Qed.

(** one iteration = two uniforms (candidate, test); it exits when the test draw is >= 1 - p_min(tau) *)
Theorem ep_terminates_on_high_draw (tau : R) fuel u t s : 0 < tau ->
  canonical u -> 1 - ep_pmin tau <= t ->
  exists eps, ep_loop (S fuel) tau (u :: t :: s) = Some (eps, s) /\
    1 / 2 - ep_sqgrate tau <= eps <= 1 / 2 + ep_sqgrate tau.
Proof.
  intros Ht Hu Htt. destruct (ep_q_facts tau Ht) as (Hq0 & Hq1 & Hq2). cbv zeta in *.
  assert (Hsq : ep_sqgrate tau = sqrt (tau / (tau + 2)) * (1 / 2)) by (unfold ep_sqgrate; numR; reflexivity).
  cbn [ep_loop]. numR; numR. rewrite Hsq.
  set (q := sqrt (tau / (tau + 2)) * (1 / 2)) in *.
  destruct (reciprocal_support (1 / 2 - q) (1 / 2 + q) u (t :: s)) as (eps & Er & Hr); [lra|lra|exact Hu|].
  exists eps. split; [|exact Hr].
  unfold bind at 1. rewrite Er. unfold bind at 1. rewrite bernoulli_run.
  destruct (ep_accept_lower_bound tau eps Ht Hr) as [Hb _].
  assert (Hf : Rltb t (ep_reject_prob tau eps) = false) by (apply Rltb_false; lra).
  rewrite Hf. reflexivity.
Qed.

(** on the applicability interval (0, T_max] (T_max = 1e8 MeV in EPlusGGModel): a uniform bound *)
Corollary ep_terminates_uniform (tau tmax : R) fuel u t s : 0 < tau <= tmax ->
  canonical u -> 1 - ep_pmin tmax <= t ->
  exists eps, ep_loop (S fuel) tau (u :: t :: s) = Some (eps, s).
Proof.
  intros Ht Hu Htt. pose proof (ep_pmin_antitone tau tmax Ht) as Ha.
  destruct (ep_terminates_on_high_draw tau fuel u t s) as (eps & E & _); [lra|exact Hu|lra|].
  exists eps. exact E.
Qed.

Example ep_accept_nonvacuous : 1 / 2 - sqrt (2 / (2 + 2)) * (1 / 2) <= 1 / 2 <= 1 / 2 + sqrt (2 / (2 + 2)) * (1 / 2)
  /\ ep_pmin 2 = 3 / 8.
Proof. pose proof (sqrt_pos (2 / (2 + 2))). split; [lra|]. unfold ep_pmin. field. Qed.

(** no bound independent of the energy exists: at the upper end of the epsilon interval the
    acceptance probability of the candidate is at most 3/(tau+2) -> 0 *)
Theorem ep_accept_uniform_in_tau_refuted (tau : R) : 0 < tau ->
  let eps := 1 / 2 + sqrt (tau / (tau + 2)) * (1 / 2) in
  1 - ep_reject_prob tau eps <= 3 / (tau + 2).
Proof.
  intros Ht. cbv zeta. destruct (ep_q_facts tau Ht) as (Hq0 & Hq1 & Hq2). cbv zeta in *.
  set (q := sqrt (tau / (tau + 2)) * (1 / 2)) in *.
  unfold ep_reject_prob. numR. set (t2 := tau + 2) in *.
  assert (Ht2 : 2 < t2) by (unfold t2; lra).
  assert (Hk : tau / t2 / 4 = 1 / 4 - 1 / (2 * t2)) by (unfold t2; field; lra). rewrite Hk in Hq2.
  set (e := 1 / 2 + q) in *.
  assert (He : 1 / 2 <= e < 1) by (unfold e; lra).
  (* (1-e) = 1/2 - q,  e (1-e) = 1/4 - q^2 = 1/(2 t2) *)
  assert (Hprod : e * (1 - e) = 1 / (2 * t2)) by (unfold e; nra).
  assert (H1e : 1 - e <= 1 / t2).
  { assert (Hx : (1 - e) * (1 / 2) <= 1 / (2 * t2)) by nra.
    replace (1 / (2 * t2)) with (1 / t2 * (1 / 2)) in Hx by (field; lra). lra. }
  assert (Hinv : 0 < 1 / t2) by (apply Rdiv_lt_0_compat; lra).
  replace (tau + 1) with (t2 - 1) by (unfold t2; ring).
  (* 1 - e + (2 (t2-1) e - 1)/(e t2^2) <= 1/t2 + 2/t2 *)
  assert (Hfrac : (2 * (t2 - 1) * e - 1) / (e * (t2 * t2)) <= 2 / t2).
  { apply div_le_c; [nra|]. replace (2 / t2 * (e * (t2 * t2))) with (2 * e * t2) by (field; lra). nra. }
  replace (3 / t2) with (1 / t2 + 2 / t2) by (field; lra). lra.
Qed.

(** ** Moller: g(eps) / g(1/2) >= 4/9 for every eps in (0, 1/2] and gamma >= 1 *)
Lemma moller_g_bounds (gamma eps : R) : 1 <= gamma -> 0 <= eps <= 1 / 2 ->
  let a := (2 * gamma - 1) / (gamma * gamma) in
  0 < a <= 1 /\ moller_g gamma (1 / 2) = 9 / 4 - 5 / 4 * a /\ 1 - a / 2 <= moller_g gamma eps.
Proof.
  intros Hg [He0 He1]. cbv zeta.
  set (a := (2 * gamma - 1) / (gamma * gamma)).
  assert (Ha : 0 < a <= 1).
  { unfold a. split; [apply Rdiv_lt_0_compat; nra|]. apply div_le_c; [nra|].
    pose proof (Rle_0_sqr (gamma - 1)) as Hq. unfold Rsqr in Hq. lra. }
  split; [exact Ha|]. unfold moller_g. numR. fold a. split; [field|].
  set (c := 1 - eps). assert (Hc : 1 / 2 <= c <= 1) by (unfold c; lra).
  assert (Hfr : 0 <= (1 - a * c) / (c * c)).
  { apply div_ge_c; [nra|]. nra. }
  assert (Hs : 0 <= eps * eps * (1 - a + (1 - a * c) / (c * c))).
  { apply Rmult_le_pos; [nra|lra]. }
  nra.
Qed.

Theorem moller_accept_lower_bound (gamma eps : R) : 1 <= gamma -> 0 <= eps <= 1 / 2 ->
  4 / 9 * moller_g gamma (1 / 2) <= moller_g gamma eps /\ 0 < moller_g gamma (1 / 2).
Proof.
  intros Hg He. destruct (moller_g_bounds gamma eps Hg He) as (Ha & Hh & Hlo). cbv zeta in *.
  rewrite Hh. split; lra.
Qed.

Theorem moller_terminates_on_low_draw (me cut e_inc : R) fuel u t s :
  0 < me -> 0 < cut -> 2 * cut <= e_inc -> canonical u -> 0 <= t <= 4 / 9 ->
  exists eps, eps_loop (S fuel) (1 / (1 / 2)) (1 / (cut / e_inc))
                (moller_g (1 + e_inc / me)) (moller_g (1 + e_inc / me) (1 / 2)) (u :: t :: s) = Some (eps, s) /\
    cut / e_inc <= eps <= 1 / 2.
Proof.
  intros Hme Hcut HE [Hu0 Hu1] [Ht0 Ht1].
  assert (HEp : 0 < e_inc) by lra.
  assert (Hg : 1 <= 1 + e_inc / me).
  { assert (0 < e_inc / me) by (apply Rdiv_lt_0_compat; lra). lra. }
  assert (H2 : 1 / (1 / 2) = 2) by field. rewrite H2.
  assert (Hinv : 1 / (cut / e_inc) = e_inc / cut) by (field; lra). rewrite Hinv.
  assert (H1 : 2 <= e_inc / cut) by (apply div_ge_c; lra).
  cbn [eps_loop]. unfold bind at 1. rewrite uniform_run. unfold bind at 1.
  set (x := (e_inc / cut - 2) * u + 2).
  assert (Hx : 2 <= x <= e_inc / cut) by (unfold x; nra).
  assert (Heps : cut / e_inc <= 1 / x <= 1 / 2).
  { split.
    - apply div_ge_c; [lra|]. apply Rmult_le_reg_r with (e_inc / cut); [lra|].
      replace (cut / e_inc * x * (e_inc / cut)) with x by (field; lra). lra.
    - apply div_le_c; lra. }
  exists (1 / x). split; [|exact Heps]. numR.
  unfold rejection, bind, draw, ret. numR.
  assert (He : 0 <= 1 / x <= 1 / 2).
  { split; [|lra]. apply Rle_trans with (cut / e_inc); [|lra]. left. apply Rdiv_lt_0_compat; lra. }
  destruct (moller_accept_lower_bound _ _ Hg He) as [Hb Hp].
  assert (Hf : Rltb (moller_g (1 + e_inc / me) (1 / x)) (moller_g (1 + e_inc / me) (1 / 2) * t) = false).
  { apply Rltb_false. nra. }
  rewrite Hf. reflexivity.
Qed.

Example moller_accept_nonvacuous : 1 <= 3 /\ 0 <= 1 / 4 <= 1 / 2 /\ 0 < (1 : R) /\ 2 * 1 <= (3 : R).
Proof. lra. Qed.

(** ** Bhabha: g(eps, eps) / g(minf, 1) >= 1/10 for every eps in [0, 1], minf in [0, 1], gamma >= 1
    (the numerical polynomial bound is AcceptNumerics.bhabha_G_ratio, in y = 1/(1+gamma)) *)
Lemma bhabha_g_G (gamma emin emax : R) : 1 <= gamma ->
  bhabha_g gamma emin emax = bhabha_G (1 / (1 + gamma)) emin emax /\ 0 <= 1 / (1 + gamma) <= 1 / 2.
Proof.
  intros Hg. split.
  - unfold bhabha_g, bhabha_G. numR. field. repeat split; lra.
  - split; [apply div_ge_c; lra | apply div_le_c; lra].
Qed.

Lemma bhabha_G_emin_mono (y m : R) : 0 <= y <= 1 / 2 -> 0 <= m -> bhabha_G y m 1 <= bhabha_G y 0 1.
Proof.
  intros Hy Hm. unfold bhabha_G.
  set (z := 1 - 2 * y). assert (Hz : 0 <= z) by (unfold z; lra).
  assert (HB : 0 <= z / ((1 - y) * (1 - y))) by (apply div_ge_c; nra).
  set (B := z / ((1 - y) * (1 - y))) in *.
  assert (H3 : 0 <= m * m * m * (z * z + z * z * z)).
  { apply Rmult_le_pos; [apply Rmult_le_pos; [apply Rmult_le_pos|]; lra|].
    assert (0 <= z * z) by nra. assert (0 <= z * z * z) by (apply Rmult_le_pos; lra). lra. }
  assert (H1 : 0 <= m * (2 - y * y)) by (apply Rmult_le_pos; nra).
  assert (Hs : 0 <= (m * m * m * (z * z + z * z * z) + m * (2 - y * y)) * B) by (apply Rmult_le_pos; lra).
  nra.
Qed.

Theorem bhabha_accept_lower_bound (gamma minf eps : R) : 1 <= gamma -> 0 <= minf <= 1 -> 0 <= eps <= 1 ->
  1 / 10 * bhabha_g gamma minf 1 <= bhabha_g gamma eps eps /\ 0 < bhabha_g gamma minf 1.
Proof.
  intros Hg Hm He.
  destruct (bhabha_g_G gamma minf 1 Hg) as [E1 Hy]. destruct (bhabha_g_G gamma eps eps Hg) as [E2 _].
  rewrite E1, E2.
  pose proof (bhabha_G_ratio _ _ Hy He). pose proof (bhabha_G_pos _ _ Hy Hm).
  pose proof (bhabha_G_emin_mono _ minf Hy (proj1 Hm)). lra.
Qed.

Theorem bhabha_terminates_on_low_draw (me cut e_inc : R) fuel u t s :
  0 < me -> 0 < cut <= e_inc -> canonical u -> 0 <= t <= 1 / 10 ->
  exists eps, eps_loop (T:=R) (S fuel) (1 / 1) (1 / (cut / e_inc))
                (fun e : R => bhabha_g (1 + e_inc / me) e e) (bhabha_g (1 + e_inc / me) (cut / e_inc) 1)
                (u :: t :: s) = Some (eps, s) /\ cut / e_inc <= eps <= 1.
Proof.
  intros Hme [Hcut HE] [Hu0 Hu1] [Ht0 Ht1].
  assert (HEp : 0 < e_inc) by lra.
  assert (Hg : 1 <= 1 + e_inc / me).
  { assert (0 < e_inc / me) by (apply Rdiv_lt_0_compat; lra). lra. }
  assert (H2 : 1 / 1 = 1) by field. rewrite H2.
  assert (Hinv : 1 / (cut / e_inc) = e_inc / cut) by (field; lra). rewrite Hinv.
  assert (H1 : 1 <= e_inc / cut) by (apply div_ge_c; lra).
  assert (Hminf : 0 < cut / e_inc <= 1) by (split; [apply Rdiv_lt_0_compat; lra | apply div_le_c; lra]).
  cbn [eps_loop]. unfold bind at 1. rewrite uniform_run. unfold bind at 1.
  set (x := (e_inc / cut - 1) * u + 1).
  assert (Hx : 1 <= x <= e_inc / cut) by (unfold x; nra).
  assert (Heps : cut / e_inc <= 1 / x <= 1).
  { split.
    - apply div_ge_c; [lra|]. apply Rmult_le_reg_r with (e_inc / cut); [lra|].
      replace (cut / e_inc * x * (e_inc / cut)) with x by (field; lra). lra.
    - apply div_le_c; lra. }
  exists (1 / x). split; [|exact Heps]. numR.
  unfold rejection, bind, draw, ret. numR.
  assert (He : 0 <= 1 / x <= 1) by lra.
  destruct (bhabha_accept_lower_bound _ (cut / e_inc) _ Hg ltac:(lra) He) as [Hb Hp].
  assert (Hf : Rltb (bhabha_g (1 + e_inc / me) (1 / x) (1 / x))
                    (bhabha_g (1 + e_inc / me) (cut / e_inc) 1 * t) = false).
  { apply Rltb_false. nra. }
  rewrite Hf. reflexivity.
Qed.

Example bhabha_accept_nonvacuous : 1 <= 3 /\ 0 <= 1 / 4 <= 1 /\ 0 < (1 : R) <= 4.
Proof. lra. Qed.

(** ** MuBB (muon Bethe-Bloch with radiative corrections), incident energy up to 1e8 MeV:
    target / envelope >= 2/5 (1 - beta^2) for every candidate energy in (0, tmax].
    Hypotheses on the magnitudes: 1 + 2 tmax / m_e <= 4e8 and 2 (E + M) / M <= 2e6, both true on the
    applicability interval E <= 1e8 MeV for M = m_mu, m_e (checked in the Example below). *)
Lemma tmax_R_le_energy (m_inc e_inc m_e : R) : 0 < m_inc -> 0 < m_e -> 0 <= e_inc ->
  tmax_R m_inc e_inc m_e <= e_inc.
Proof.
  intros HM Hm HE. unfold tmax_R. apply div_le_c; [nra|].
  pose proof (Rle_0_sqr (m_inc - m_e)) as Hq. unfold Rsqr in Hq. nra.
Qed.

Lemma alpha_over_twopi_R : alpha_over_twopi (T:=R) = alpha_c.
Proof. unfold alpha_over_twopi, twopi, npi, alpha_c. numR. reflexivity. Qed.

Lemma mh_beta_sq_range (M E : R) : 0 < M -> 0 < E -> 0 < beta_sq M E < 1.
Proof.
  intros HM HE. unfold beta_sq. numR. set (q := M / (E + M)).
  assert (0 < q < 1). { unfold q. split; [apply Rdiv_lt_0_compat; lra | apply div_lt_c; lra]. }
  nra.
Qed.

Lemma ln_le_mono (x y : R) : 0 < x -> x <= y -> ln x <= ln y.
Proof. intros Hx [Hlt| ->]; [left; apply ln_increasing; assumption|right; reflexivity]. Qed.

Theorem mubb_accept_lower_bound (p : mh_params R) (tmax energy : R) :
  mh_kind_ p = KMuBB -> 0 < mh_minc p -> 0 < mh_me p -> 0 < mh_energy p ->
  0 < energy <= tmax -> tmax <= mh_energy p ->
  1 + 2 * tmax / mh_me p <= 400000000 -> 2 * (mh_energy p + mh_minc p) / mh_minc p <= 2000000 ->
  2 / 5 * (1 - beta_sq (mh_minc p) (mh_energy p)) * mh_envelope p tmax <= mh_target p tmax energy /\
  0 < 1 - beta_sq (mh_minc p) (mh_energy p) /\ 1 <= mh_envelope p tmax.
Proof.
  intros Hk HM Hm HE [He0 He1] Htm Hb1 Hb2.
  pose proof (mh_beta_sq_range _ _ HM HE) as Hb.
  set (bsq := beta_sq (mh_minc p) (mh_energy p)) in *.
  assert (Htmax : 0 < tmax) by lra.
  assert (Hfrac : 0 <= energy / tmax <= 1) by (split; [apply div_ge_c; lra | apply div_le_c; lra]).
  set (etot := mh_energy p + mh_minc p).
  assert (Het : 0 < etot) by (unfold etot; lra).
  (* t0 >= 1 - beta^2 *)
  assert (Ht0 : 1 - bsq <= 1 - bsq / tmax * energy + 1 / 2 * (energy / etot * (energy / etot))).
  { replace (bsq / tmax * energy) with (bsq * (energy / tmax)) by (field; lra).
    pose proof (Rle_0_sqr (energy / etot)) as Hq. unfold Rsqr in Hq. nra. }
  (* envelope in [1, 5/4] *)
  assert (Henv : 1 <= mh_envelope p tmax <= 5 / 4).
  { unfold mh_envelope. rewrite Hk. rewrite alpha_over_twopi_R. numR.
    destruct (andb _ _); [|lra]. fold etot.
    set (L := ln (2 * etot / mh_minc p)).
    assert (Harg : 2 <= 2 * etot / mh_minc p) by (apply div_ge_c; unfold etot; lra).
    assert (HL0 : 0 <= L) by (apply ln_nonneg; lra).
    assert (HL1 : L <= ln 2000000) by (apply ln_le_mono; [lra|unfold etot; exact Hb2]).
    pose proof alpha_c_pos. pose proof alpha_c_ln_env.
    assert (L * L <= ln 2000000 * ln 2000000) by nra.
    assert (0 <= alpha_c * (L * L)) by (apply Rmult_le_pos; nra).
    assert (alpha_c * (L * L) <= alpha_c * (ln 2000000 * ln 2000000)) by (apply Rmult_le_compat_l; lra).
    lra. }
  split; [|split; lra].
  unfold mh_target. rewrite Hk. rewrite alpha_over_twopi_R. numR; numR. fold bsq etot.
  set (t0 := 1 - bsq / tmax * energy + 1 / 2 * (energy / etot * (energy / etot))) in *.
  assert (Hlow : 2 / 5 * (1 - bsq) * mh_envelope p tmax <= 1 / 2 * t0).
  { assert (Hpp : 0 <= (1 - bsq) * (5 / 4 - mh_envelope p tmax)) by (apply Rmult_le_pos; lra). lra. }
  assert (Ht0p : 0 < t0) by lra.
  match goal with |- context [if ?c then _ else _] => destruct c end; [|lra].
  (* radiative correction factor >= 1/2 *)
  set (a1 := ln (1 + 2 * energy / mh_me p)).
  set (a3 := ln (4 * etot * (etot - energy) / (mh_minc p * mh_minc p))).
  assert (Ha1arg : 1 <= 1 + 2 * energy / mh_me p <= 400000000).
  { assert (0 <= 2 * energy / mh_me p) by (apply div_ge_c; lra).
    assert (2 * energy / mh_me p <= 2 * tmax / mh_me p).
    { apply div_le_c; [lra|]. replace (2 * tmax / mh_me p * mh_me p) with (2 * tmax) by (field; lra). lra. }
    lra. }
  assert (Ha10 : 0 <= a1) by (apply ln_nonneg; lra).
  assert (Ha11 : a1 <= ln 400000000) by (apply ln_le_mono; lra).
  assert (Ha3 : 0 <= a3).
  { apply ln_nonneg. apply div_ge_c; [nra|]. unfold etot. nra. }
  pose proof alpha_c_pos as Hc0. pose proof alpha_c_ln_a1 as Hc1.
  assert (Hsq : a1 * a1 <= ln 400000000 * ln 400000000) by nra.
  assert (Hprod : - (a1 * a1) <= a1 * (a3 - a1)) by nra.
  assert (Hca : alpha_c * (a1 * a1) <= 1 / 2).
  { apply Rle_trans with (alpha_c * (ln 400000000 * ln 400000000)); [apply Rmult_le_compat_l; lra|lra]. }
  assert (HF : 1 / 2 <= 1 + alpha_c * a1 * (a3 - a1)).
  { assert (alpha_c * (- (a1 * a1)) <= alpha_c * (a1 * (a3 - a1))) by (apply Rmult_le_compat_l; lra). nra. }
  apply Rle_trans with (1 / 2 * t0); [exact Hlow|]. nra.
Qed.

Theorem mubb_terminates_on_low_draw (p : mh_params R) (tmax : R) fuel u t s :
  mh_kind_ p = KMuBB -> 0 < mh_minc p -> 0 < mh_me p -> 0 < mh_energy p ->
  0 < mh_tmin p < tmax -> tmax <= mh_energy p ->
  1 + 2 * tmax / mh_me p <= 400000000 -> 2 * (mh_energy p + mh_minc p) / mh_minc p <= 2000000 ->
  canonical u -> 0 <= t <= 2 / 5 * (1 - beta_sq (mh_minc p) (mh_energy p)) ->
  exists e, mh_loop (S fuel) p tmax (u :: t :: s) = Some (e, s) /\ mh_tmin p <= e <= tmax.
Proof.
  intros Hk HM Hm HE [Hlo Hhi] Htm Hb1 Hb2 Hu [Ht0 Ht].
  destruct (inverse_square_support (mh_tmin p) tmax u (t :: s) Hlo (Rlt_le _ _ Hhi) Hu) as (x & Ex & Hx).
  exists x. split; [|exact Hx]. cbn [mh_loop]. unfold bind at 1. rewrite Ex. unfold bind at 1.
  unfold rejection, bind, draw, ret.
  destruct (mubb_accept_lower_bound p tmax x Hk HM Hm HE) as (Hacc & Hbp & Henv); try lra.
  numR.
  assert (Hf : Rltb (mh_target p tmax x) (mh_envelope p tmax * t) = false).
  { apply Rltb_false. apply Rle_trans with (2 / 5 * (1 - beta_sq (mh_minc p) (mh_energy p)) * mh_envelope p tmax); [|exact Hacc].
    nra. }
  rewrite Hf. reflexivity.
Qed.

(** the magnitude hypotheses hold at the top of the applicability interval (E = 1e8 MeV, muon) *)
Example mubb_accept_nonvacuous :
  let M := 1056583745 / 10000000 in let me := 51099891 / 100000000 in let E := 100000000 in
  tmax_R M E me <= E /\ 1 + 2 * E / me <= 400000000 /\ 2 * (E + M) / M <= 2000000.
Proof.
  cbv zeta. split; [apply tmax_R_le_energy; lra|]. split.
  - apply Rplus_le_reg_l with (-1). ring_simplify. apply div_le_c; lra.
  - apply div_le_c; lra.
Qed.
