(** * Bethe-Heitler rejection loop: no positive per-candidate acceptance bound exists (refutation),
    and what does hold (exit on a candidate at the symmetric point). Proofs over R. *)
From Coq Require Import Reals ZArith List Bool Lra Lia Psatz.
From Celer Require Import Base.Num Base.NumR Base.Stream Base.Vec3 C15.Samplers C15.SamplersProofs
  C04.Common C04.CommonProofs C04.KleinNishinaProofs C04.BetheHeitler C04.AcceptNumerics.
Import ListNotations.
Local Open Scope R_scope.

(** delta_max (screening function zero) and eps1 as computed in [bh_eps_min] *)
Definition bh_dmax (p : bh_params R) : R := exp ((42038 / 1000 - bh_fz p) / (829 / 100)) - 958 / 1000.
Definition bh_eps1 (p : bh_params R) : R := 1 / 2 - 1 / 2 * sqrt (1 - bh_delta_min p / bh_dmax p).

(** the regime where the lower end of the epsilon interval is the screening cut-off eps1 (> eps0):
    e.g. E just above 2 MeV, or E > 50 MeV on heavy elements *)
Definition bh_screened (p : bh_params R) : Prop :=
  0 < bh_me p /\ 0 < bh_energy p /\ 0 < bh_cbrt_z p /\ 14 / 10 < bh_dmax p /\
  bh_delta_min p < bh_dmax p /\ bh_eps0 p <= bh_eps1 p.

Lemma bh_eps_min_screened (p : bh_params R) : bh_screened p ->
  bh_eps_min p = bh_eps1 p /\ bh_impact p (bh_eps1 p) = bh_dmax p /\
  bh_f1 (bh_dmax p) = bh_fz p /\ bh_f2 (bh_dmax p) = bh_fz p.
Proof.
  intros (Hme & HE & Hc & Hd14 & Hdm & He).
  assert (He0 : 0 < bh_eps0 p) by (unfold bh_eps0; numR; apply Rdiv_lt_0_compat; lra).
  assert (Hdmin : 0 < bh_delta_min p).
  { unfold bh_delta_min. numR. apply Rmult_lt_0_compat; [apply Rdiv_lt_0_compat; lra|exact He0]. }
  split; [|split].
  - unfold bh_eps_min. numR; numR. fold (bh_dmax p). fold (bh_eps1 p).
    destruct (Rltb_spec (bh_eps0 p) (bh_eps1 p)) as [Hlt|Hge]; [reflexivity|apply Rle_antisym; lra].
  - (* eps1 (1 - eps1) = delta_min / (4 delta_max) *)
    set (r := bh_delta_min p / bh_dmax p).
    assert (Hr : 0 < r < 1) by (unfold r; split; [apply Rdiv_lt_0_compat; lra | apply div_lt_c; lra]).
    assert (Hs : sqrt (1 - r) * sqrt (1 - r) = 1 - r) by (apply sqrt_sqrt; lra).
    assert (Hprod : bh_eps1 p * (1 - bh_eps1 p) = r / 4) by (unfold bh_eps1; fold r; nra).
    unfold bh_impact. numR. rewrite Hprod. unfold r, bh_delta_min. numR. field.
    repeat split; lra.
  - assert (Hf : 42038 / 1000 - 829 / 100 * ln (bh_dmax p + 958 / 1000) = bh_fz p).
    { unfold bh_dmax. replace (exp ((42038 / 1000 - bh_fz p) / (829 / 100)) - 958 / 1000 + 958 / 1000)
        with (exp ((42038 / 1000 - bh_fz p) / (829 / 100))) by ring.
      rewrite ln_exp. field. }
    unfold bh_f1, bh_f2. numR.
    assert (Hb : Rltb (14 / 10) (bh_dmax p) = true) by (apply Rltb_true; exact Hd14).
    rewrite Hb. split; exact Hf.
Qed.

(** In the screened regime the candidate drawn with u = 0 in the uniform branch is eps = eps_min, its
    rejection function value is exactly 0, and it is rejected for EVERY positive test draw: there is
    no p_min > 0 such that every candidate is accepted when the test uniform is below p_min. *)
Theorem bh_accept_lower_bound_refuted (p : bh_params R) f10 f20 fuel u1 t s : bh_screened p ->
  let st := (1 / 2 - bh_eps_min p) * (1 / 2 - bh_eps_min p) * f10 in
  let sf := 15 / 10 * f20 in
  st / (st + sf) <= u1 -> 0 < t ->
  bh_loop (S fuel) p (bh_eps_min p) (bh_fz p) f10 f20 (u1 :: 0 :: t :: s) =
  bh_loop fuel p (bh_eps_min p) (bh_fz p) f10 f20 s.
Proof.
  intros Hs. cbv zeta. intros Hu1 Ht.
  destruct (bh_eps_min_screened p Hs) as (Hem & Himp & Hf1 & Hf2).
  cbn [bh_loop]. unfold bernoulli2. unfold bind at 1. rewrite bernoulli_run. numR; numR.
  match goal with |- context [Rltb u1 ?r] => assert (Hb : Rltb u1 r = false) by (apply Rltb_false; exact Hu1) end.
  rewrite Hb. unfold bind at 1. cbn [draw]. unfold bind at 1. cbn [draw].
  replace (bh_eps_min p + (1 / 2 - bh_eps_min p) * 0) with (bh_eps_min p) by ring.
  rewrite Hem, Himp, Hf2.
  replace ((bh_fz p - bh_fz p) / f20) with 0 by (unfold Rdiv; ring).
  assert (Hr : Rltb 0 t = true) by (apply Rltb_true; exact Ht). rewrite Hr. reflexivity.
Qed.

(** the regime is inhabited: a 2 MeV photon on hydrogen (Z = 1), m_e = 0.51099891 MeV *)
Definition bh_witness : bh_params R := BH (51099891 / 100000000) 2 (V3 0 0 1) 1 0 0.
Example bh_witness_screened : bh_screened bh_witness /\
  (let st := (1 / 2 - bh_eps_min bh_witness) * (1 / 2 - bh_eps_min bh_witness)
             * (bh_f1 (bh_delta_min bh_witness) - bh_fz bh_witness) in
   let sf := 15 / 10 * (bh_f2 (bh_delta_min bh_witness) - bh_fz bh_witness) in
   st / (st + sf) <= 1 / 2).
Proof.
  assert (Hfz : bh_fz bh_witness = 8 / 3 * 0).
  { unfold bh_fz, bh_witness. cbn [bh_energy bh_log_z bh_coulomb]. numR.
    assert (Hb : Rltb 50 2 = false) by (apply Rltb_false; lra). rewrite Hb. reflexivity. }
  assert (Hdmax : bh_dmax bh_witness = bhw_dmax) by (unfold bh_dmax, bhw_dmax; rewrite Hfz; reflexivity).
  assert (Hdmin : bh_delta_min bh_witness = bhw_dmin).
  { unfold bh_delta_min, bhw_dmin, bh_eps0, bhw_eps0, bh_witness. cbn [bh_me bh_energy bh_cbrt_z]. numR. reflexivity. }
  assert (He0 : bh_eps0 bh_witness = bhw_eps0) by (unfold bh_eps0, bhw_eps0, bh_witness; cbn [bh_me bh_energy]; numR; reflexivity).
  destruct bhw_facts as (H14 & [Hd0 Hd1] & [He Heh]).
  assert (Hscr : bh_screened bh_witness).
  { unfold bh_screened. rewrite Hdmax, Hdmin, He0. unfold bh_eps1. rewrite Hdmax, Hdmin.
    unfold bh_witness. cbn [bh_me bh_energy bh_cbrt_z]. repeat split; lra. }
  split; [exact Hscr|]. cbv zeta.
  destruct (bh_eps_min_screened _ Hscr) as (Hem & _). rewrite Hem. unfold bh_eps1. rewrite Hdmax, Hdmin, Hfz.
  destruct bhw_f0_pos as [Hm14 Hf0].
  assert (Hb : Rltb (14 / 10) bhw_dmin = true) by (apply Rltb_true; exact Hm14).
  unfold bh_f1, bh_f2. numR. rewrite Hb.
  set (f0 := 42038 / 1000 - 829 / 100 * ln (bhw_dmin + 958 / 1000)) in *.
  set (h := 1 / 2 - (1 / 2 - 1 / 2 * sqrt (1 - bhw_dmin / bhw_dmax))).
  assert (Hh : 0 <= h <= 1 / 2) by (unfold h; unfold bhw_eps0 in He; lra).
  replace (f0 - 8 / 3 * 0) with f0 by ring.
  assert (Hhh : 0 <= h * h <= 1 / 4) by nra.
  assert (Hp0 : 0 <= h * h * f0) by (apply Rmult_le_pos; lra).
  assert (Hp1 : h * h * f0 <= 1 / 4 * f0) by (apply Rmult_le_compat_r; lra).
  apply div_le_c; lra.
Qed.

(** what does hold: a candidate at the symmetric point eps = 1/2 (u = 0 in the cube-root branch)
    has rejection value 1 and is accepted by every canonical test draw; each iteration consumes exactly
    three uniforms *)
Theorem bh_terminates_on_symmetric_candidate (p : bh_params R) eps_min fuel u1 t s :
  0 < bh_f1 (bh_delta_min p) - bh_fz p -> 0 < bh_me p -> 0 < bh_energy p -> 0 < bh_cbrt_z p ->
  let f10 := bh_f1 (bh_delta_min p) - bh_fz p in
  let f20 := bh_f2 (bh_delta_min p) - bh_fz p in
  u1 < (1 / 2 - eps_min) * (1 / 2 - eps_min) * f10 / ((1 / 2 - eps_min) * (1 / 2 - eps_min) * f10 + 15 / 10 * f20) ->
  canonical t ->
  bh_loop (S fuel) p eps_min (bh_fz p) f10 f20 (u1 :: 0 :: t :: s) = Some (1 / 2, s).
Proof.
  intros Hf10 Hme HE Hc. cbv zeta. intros Hu1 [Ht0 Ht1].
  cbn [bh_loop]. unfold bernoulli2. unfold bind at 1. rewrite bernoulli_run. numR; numR.
  match goal with |- context [Rltb u1 ?r] => assert (Hb : Rltb u1 r = true) by (apply Rltb_true; exact Hu1) end.
  rewrite Hb. unfold bind at 1. cbn [draw]. unfold bind at 1. cbn [draw].
  assert (Hcb : Rcbrt 0 = 0) by (unfold Rcbrt; destruct (Rlt_dec 0 0); [lra|reflexivity]). rewrite Hcb.
  replace (1 / 2 - (1 / 2 - eps_min) * 0) with (1 / 2) by ring.
  assert (Himp : bh_impact p (1 / 2) = bh_delta_min p).
  { unfold bh_impact, bh_delta_min. numR. field. unfold bh_eps0. numR. repeat split; lra. }
  rewrite Himp.
  replace ((bh_f1 (bh_delta_min p) - bh_fz p) / (bh_f1 (bh_delta_min p) - bh_fz p)) with 1 by (field; lra).
  assert (Hr : Rltb 1 t = false) by (apply Rltb_false; lra). rewrite Hr. reflexivity.
Qed.
