(** * Allocation size of the atomic-relaxation cascade:
    AtomicRelaxationParams::AtomicRelaxationParams (per-element minima of the electron / gamma production cuts over
    the materials containing the element, src/celeritas/em/params/AtomicRelaxationParams.cc) and
    detail::MaxSecondariesCalculator (src/celeritas/em/detail/Utils.cc; the memo table [visited_] is an
    optimisation of the plain recursion modelled here, fuel = recursion depth).  Executable; no proofs here. *)
From Coq Require Import ZArith List Bool.
From Celer Require Import Base.Num.
Import ListNotations.
Local Open Scope num_scope.

Section Relax.
  Context {T : Type} `{Num T}.

  (** AtomicRelaxTransition: initial_shell, auger_shell (None = invalid SubshellId), energy *)
  Record rtrans := RT { rt_init : option nat; rt_auger : option nat; rt_energy : T }.

  (** running minimum of one production cut over the materials containing the element
      (electron_cutoff[el] = min(electron_cutoff[el], cutoffs.energy(electron)), started from max_quantity) *)
  Definition elem_min (init : T) (cuts : list T) : T := fold_left nmin cuts init.

  (** 1 if the transition produces a secondary above the cut of its particle type *)
  Definition emits (ce cg : T) (t : rtrans) : nat :=
    if orb (andb (ce <=? rt_energy t) (match rt_auger t with Some _ => true | None => false end))
           (andb (cg <=? rt_energy t) (match rt_auger t with Some _ => false | None => true end))
    then 1%nat else 0%nat.

  (** MaxSecondariesCalculator::calc(vacancy_shell) *)
  Fixpoint max_sec (fuel : nat) (shells : list (list rtrans)) (ce cg : T) (v : option nat) : nat :=
    match fuel with
    | O => 0%nat
    | S f =>
        match v with
        | None => 0%nat
        | Some i =>
            match nth_error shells i with
            | None => 0%nat
            | Some trs =>
                fold_right (fun t acc => Nat.max (emits ce cg t + max_sec f shells ce cg (rt_init t)
                                                  + max_sec f shells ce cg (rt_auger t))%nat acc) 0%nat trs
            end
        end
    end.

  (** MaxSecondariesCalculator::operator(): maximum over every subshell the initial vacancy could be in *)
  Definition max_secondary (fuel : nat) (shells : list (list rtrans)) (ce cg : T) : nat :=
    fold_right (fun i acc => Nat.max (max_sec fuel shells ce cg (Some i)) acc) 0%nat (seq 0 (length shells)).

  (** number of secondaries a list of sampled transitions emits under the cuts of the material *)
  Definition emitted (ce cg : T) (l : list rtrans) : nat := fold_right (fun t acc => (emits ce cg t + acc)%nat) 0%nat l.
End Relax.
Arguments rtrans T : clear implicits.
