(** * Rayleigh and Tier-B final states: proofs over R *)
From Coq Require Import Reals ZArith List Bool Lra Lia Psatz.
From Celer Require Import Base.Num Base.NumR Base.Stream Base.Vec3 C15.Samplers C15.SamplersProofs
  C04.Common C04.CommonProofs C04.KleinNishinaProofs C04.Rayleigh C04.FinalStates.
Import ListNotations.
Local Open Scope R_scope.

(** ** Rayleigh *)
Lemma ry_loop_spec (p : ry_params R) ws probs : forall fuel s c s',
  ry_loop fuel p ws probs s = Some (c, s') -> -1 <= c.
Proof.
  induction fuel as [|f IH]; intros s c s' E; [discriminate|].
  cbn [ry_loop] in E. apply bind_some in E as (i & s1 & _ & E).
  apply bind_some in E as (u & s2 & _ & E). apply bind_some in E as (t & s3 & _ & E).
  match type of E with context [if orb ?a ?b then _ else _] => destruct a eqn:Ea; destruct b eqn:Eb end;
    cbn [orb] in E; try (apply (IH _ _ _ E)).
  apply ret_some in E. inversion E; subst. apply Rltb_false in Eb. exact Eb.
Qed.

(** elastic: energy unchanged, no secondaries, no deposit, allocator untouched *)
Theorem ry_energy_conserved (p : ry_params R) a s r a' s' :
  ry_sample p a s = Some ((r, a'), s') ->
  i_action r = Scattered /\ i_energy r = ry_energy p /\ i_secs r = [] /\ i_deposit r = 0 /\ a' = a.
Proof.
  unfold ry_sample. intros E. apply bind_some in E as (c & s1 & _ & E).
  apply bind_some in E as (d & s2 & _ & E). apply ret_some in E. inversion E; subst. repeat split.
Qed.

(** the accepted cosine is >= -1 by the loop's exit test; the exiting direction
    is a unit vector whenever it is also <= 1 (x >= 0, a property of the fitted
    form-factor parameters a, b, n > 0 that is not modelled) *)
Theorem ry_outputs_valid_partial (p : ry_params R) a s r a' s' :
  unitv (ry_dir p) -> ry_sample p a s = Some ((r, a'), s') ->
  exists c s1, ry_loop (length s) p (ry_weights p) (ry_probs p) s = Some (c, s1) /\ -1 <= c /\
    (c <= 1 -> unitv (i_dir r)).
Proof.
  intros Hd E. unfold ry_sample in E. apply bind_some in E as (c & s1 & E1 & E).
  apply bind_some in E as (d & s2 & E2 & E). apply ret_some in E. inversion E; subst.
  exists c, s1. split; [exact E1|]. pose proof (ry_loop_spec _ _ _ _ _ _ _ E1) as Hc. split; [exact Hc|].
  intros Hc1. cbn [i_dir].
  destruct (exiting_direction_spec _ _ _ _ _ E2 (conj Hc Hc1) Hd) as (u & _ & Hu & _). exact Hu.
Qed.

(** ** BremFinalStateHelper and the bremsstrahlung interactor shell *)
Lemma brem_final_inv (e_inc : R) dir p_inc e_gamma ct s r s' :
  brem_final e_inc dir p_inc e_gamma ct s = Some (r, s') ->
  exists gdir, exiting_direction ct dir s = Some (gdir, s') /\
    r = Inter Scattered (e_inc - e_gamma) (calc_exiting_direction p_inc dir e_gamma gdir) [Sec PGamma e_gamma gdir] 0.
Proof.
  unfold brem_final. intros E. apply bind_some in E as (g & s1 & E1 & E). apply ret_some in E.
  inversion E; subst. eauto.
Qed.

Theorem brem_energy_conserved (sampler : M R (R * R)) (e_inc : R) dir p_inc a s r a' s' :
  brem_sample sampler e_inc dir p_inc a s = Some ((r, a'), s') -> i_action r <> Failed ->
  e_inc = i_energy r + sec_energy_sum (i_secs r) + i_deposit r.
Proof.
  unfold brem_sample. destruct (allocate 1 a) as [a1|]; intros E Hf.
  - apply bind_some in E as ([eg ct] & s1 & _ & E). apply bind_some in E as (r1 & s2 & E2 & E).
    apply ret_some in E. inversion E; subst. apply brem_final_inv in E2 as (g & _ & Hr). subst r1.
    unfold sec_energy_sum. cbn [i_energy i_secs i_deposit map nsum s_energy]. numR. ring.
  - inversion E; subst. contradiction Hf. reflexivity.
Qed.

Theorem brem_failure_is_atomic (sampler : M R (R * R)) (e_inc : R) dir p_inc (a : alloc) s :
  allocate 1 a = None -> brem_sample sampler e_inc dir p_inc a s = Some ((from_failure, a), s).
Proof. intros Ha. unfold brem_sample. rewrite Ha. reflexivity. Qed.

(** valid final state for every sampler whose outputs lie in the documented
    support: gamma energy in [cut, E), |cos theta| <= 1 *)
Theorem brem_outputs_valid (sampler : M R (R * R)) (cut e_inc m_inc : R) dir a s r a' s' :
  0 <= m_inc -> 0 < cut -> unitv dir -> canon s ->
  (forall s0 eg ct s1, canon s0 -> sampler s0 = Some ((eg, ct), s1) -> cut <= eg < e_inc /\ -1 <= ct <= 1 /\ canon s1) ->
  brem_sample sampler e_inc dir (sqrt (e_inc * e_inc + 2 * m_inc * e_inc)) a s = Some ((r, a'), s') ->
  i_action r <> Failed ->
  i_action r = Scattered /\ 0 < i_energy r < e_inc /\ unitv (i_dir r) /\ i_deposit r = 0 /\
  exists g, i_secs r = [g] /\ s_pid g = PGamma /\ cut <= s_energy g /\ unitv (s_dir g).
Proof.
  intros HM Hcut Hd Hc Hsup E Hf. unfold brem_sample in E. destruct (allocate 1 a) as [a1|].
  2:{ inversion E; subst. contradiction Hf. reflexivity. }
  apply bind_some in E as ([eg ct] & s1 & E1 & E). apply bind_some in E as (r1 & s2 & E2 & E).
  apply ret_some in E. inversion E; subst.
  destruct (Hsup _ _ _ _ Hc E1) as ([Hlo Hhi] & Hct & Hc1).
  apply brem_final_inv in E2 as (g & Eg & Hr). subst r1.
  destruct (exiting_direction_spec _ _ _ _ _ Eg Hct Hd) as (u & _ & Hg & _).
  cbn [i_action i_energy i_dir i_deposit i_secs]. numR.
  split; [reflexivity|]. split; [lra|]. split.
  - apply make_unit_vector_unit. apply momentum_diff_pos; try assumption; try lra.
    + apply sqrt_pos.
    + intro Heq. assert (Hs : sqrt (e_inc * e_inc + 2 * m_inc * e_inc) * sqrt (e_inc * e_inc + 2 * m_inc * e_inc) = eg * eg)
        by (rewrite Heq; reflexivity).
      rewrite sqrt_sqrt in Hs by nra. nra.
  - split; [reflexivity|]. eexists; split; [reflexivity|]. cbn [s_pid s_energy s_dir]. repeat split; assumption.
Qed.

(** ** Coulomb scattering final state *)
Theorem coulomb_energy_conserved (m_inc e_inc m_target : R) dir ct s r s' :
  coulomb_final m_inc e_inc m_target dir ct s = Some (r, s') ->
  i_action r = Scattered /\ i_secs r = [] /\ e_inc = i_energy r + i_deposit r.
Proof.
  unfold coulomb_final. intros E. apply bind_some in E as (d & s1 & _ & E). apply ret_some in E.
  inversion E; subst. cbn [i_action i_secs i_energy i_deposit]. numR. repeat split. ring.
Qed.

Theorem coulomb_outputs_valid (m_inc e_inc m_target : R) dir ct s r s' :
  0 <= m_inc -> 0 < e_inc -> 2 * m_inc <= m_target -> 0 < m_target -> -1 <= ct <= 1 -> unitv dir ->
  coulomb_final m_inc e_inc m_target dir ct s = Some (r, s') ->
  0 <= i_deposit r <= e_inc /\ 0 <= i_energy r /\ unitv (i_dir r).
Proof.
  intros Hm HE Hmt Hmt0 Hct Hd E. unfold coulomb_final in E. apply bind_some in E as (d & s1 & E1 & E).
  apply ret_some in E. inversion E; subst. cbn [i_deposit i_energy i_dir].
  destruct (exiting_direction_spec _ _ _ _ _ E1 Hct Hd) as (u & _ & Hu & _).
  unfold coulomb_recoil. numR; numR.
  set (w := 1 - ct). assert (Hw : 0 <= w <= 2) by (unfold w; lra).
  assert (Hden : 0 < m_target + (m_inc + e_inc) * w) by nra.
  assert (Hrec : 0 <= (e_inc * e_inc + 2 * m_inc * e_inc) * w / (m_target + (m_inc + e_inc) * w) <= e_inc).
  { clearbody w. assert (Hmw : m_inc * w <= m_target) by nra.
    split; [apply div_ge_c; [exact Hden|] | apply div_le_c; [exact Hden|]].
    - rewrite Rmult_0_l. apply Rmult_le_pos; nra.
    - assert (e_inc * (m_inc * w) <= e_inc * m_target) by (apply Rmult_le_compat_l; lra). nra. }
  repeat split; try lra. exact Hu.
Qed.

(** ** Livermore photoelectric bookkeeping *)
Theorem livermore_energy_conserved (e_inc binding : R) edir relax :
  (forall secs esum, relax = Some (secs, esum) -> esum = sec_energy_sum secs) ->
  let r := livermore_final e_inc binding edir relax in
  i_action r = Absorbed /\ e_inc = sec_energy_sum (i_secs r) + i_deposit r.
Proof.
  intros Hsum. cbv zeta. unfold livermore_final. destruct relax as [[secs esum]|].
  - rewrite (Hsum secs esum eq_refl). unfold sec_energy_sum.
    cbn [i_action i_secs i_deposit map nsum s_energy]. numR. split; [reflexivity|]. ring.
  - unfold sec_energy_sum. cbn [i_action i_secs i_deposit map nsum s_energy]. numR. split; [reflexivity|]. ring.
Qed.

Theorem livermore_outputs_valid (e_inc binding : R) edir relax :
  0 <= binding <= e_inc -> unitv edir ->
  (forall secs esum, relax = Some (secs, esum) -> 0 <= esum <= binding) ->
  let r := livermore_final e_inc binding edir relax in
  0 <= i_deposit r /\ exists el rest, i_secs r = el :: rest /\ s_pid el = PElectron /\ 0 <= s_energy el /\ unitv (s_dir el).
Proof.
  intros [Hb0 Hb1] Hd Hrel. cbv zeta. unfold livermore_final. destruct relax as [[secs esum]|].
  - destruct (Hrel secs esum eq_refl) as [H0 H1]. cbn [i_deposit i_secs]. numR. split; [lra|].
    eexists; eexists; split; [reflexivity|]. cbn [s_pid s_energy s_dir]. repeat split; [lra|exact Hd].
  - cbn [i_deposit i_secs]. split; [lra|].
    eexists; eexists; split; [reflexivity|]. cbn [s_pid s_energy s_dir]. numR. repeat split; [lra|exact Hd].
Qed.

Theorem livermore_no_shell_energy_conserved (e_inc : R) :
  i_secs (livermore_no_shell e_inc) = [] /\ i_deposit (livermore_no_shell e_inc) = e_inc.
Proof. split; reflexivity. Qed.

(** ** atomic relaxation: thresholds by particle type and energy bookkeeping *)
Definition sec_cut (cut_g cut_e : R) (s : secondary R) : R :=
  match s_pid s with PElectron => cut_e | PGamma => cut_g | _ => 0 end.

Lemma relax_emit_spec (cut_g cut_e : R) : forall trs s secs esum s',
  relax_emit cut_g cut_e trs s = Some ((secs, esum), s') -> canon s ->
  Forall (fun x => sec_cut cut_g cut_e x <= s_energy x /\ unitv (s_dir x) /\
                   (s_pid x = PElectron \/ s_pid x = PGamma)) secs /\
  esum = sec_energy_sum secs /\
  esum + relax_suppressed cut_g cut_e trs = tr_energy_sum trs /\ canon s'.
Proof.
  induction trs as [|t r IH]; intros s secs esum s' E Hc.
  - apply ret_some in E. inversion E; subst. unfold sec_energy_sum, tr_energy_sum. cbn. numR.
    repeat split; try constructor; try lra. exact Hc.
  - cbn [relax_emit relax_suppressed] in E |- *. numR.
    destruct (Rleb_spec (if tr_auger t then cut_e else cut_g) (tr_energy t)) as [Hge|Hlt].
    + apply bind_some in E as (d & s1 & E1 & E).
      destruct s as [|u1 [|u2 s0]]; try discriminate.
      apply canon_cons in Hc as [Hu1 Hc]. apply canon_cons in Hc as [Hu2 Hc].
      destruct (isotropic_unit u1 u2 s0 Hu1 Hu2) as (v & Ev & Hv). rewrite Ev in E1. inversion E1; subst; clear E1.
      apply bind_some in E as ([l e] & s2 & E2 & E). apply ret_some in E. inversion E; subst; clear E.
      destruct (IH _ _ _ _ E2 Hc) as (HF & He & Hs & Hc').
      unfold sec_energy_sum, tr_energy_sum in *. cbn [map nsum s_energy]. numR.
      split; [|split; [rewrite He; reflexivity|split; [lra|exact Hc']]].
      constructor; [|exact HF]. unfold sec_cut. cbn [s_pid s_energy s_dir].
      destruct (tr_auger t); (split; [exact Hge|split; [exact Hv|tauto]]).
    + destruct (IH _ _ _ _ E Hc) as (HF & He & Hs & Hc').
      unfold tr_energy_sum in *. cbn [map nsum]. numR. repeat split; try assumption. lra.
Qed.

(** every relaxation secondary is at or above the production cut of its own particle
    type, and the energy of the suppressed transitions stays in the local deposit *)
Theorem livermore_relax_thresholds_and_deposit (e_inc binding : R) edir (cut_g cut_e : R) trs s r s' :
  canon s -> livermore_relax e_inc binding edir cut_g cut_e trs s = Some (r, s') ->
  exists el secs, i_secs r = el :: secs /\ s_pid el = PElectron /\ s_energy el = e_inc - binding /\
    Forall (fun x => sec_cut cut_g cut_e x <= s_energy x /\ unitv (s_dir x) /\
                     (s_pid x = PElectron \/ s_pid x = PGamma)) secs /\
    i_deposit r = (binding - tr_energy_sum trs) + relax_suppressed cut_g cut_e trs /\
    e_inc = sec_energy_sum (i_secs r) + i_deposit r.
Proof.
  intros Hc E. unfold livermore_relax in E. apply bind_some in E as ([secs esum] & s1 & E1 & E).
  apply ret_some in E. inversion E; subst; clear E.
  destruct (relax_emit_spec _ _ _ _ _ _ _ E1 Hc) as (HF & He & Hs & _).
  unfold livermore_final. eexists; exists secs. cbn [i_secs i_deposit s_pid s_energy]. numR.
  split; [reflexivity|]. split; [reflexivity|]. split; [reflexivity|]. split; [exact HF|].
  split; [lra|]. unfold sec_energy_sum in *. cbn [map nsum s_energy]. numR. lra.
Qed.

(** ** Livermore subshell selection below thresh_lo: the selected shell is accessible *)
Lemma lpe_select_lo_spec (e cutoff : R) : forall shells i xs k,
  lpe_select_lo e cutoff shells i xs = Some k ->
  (i <= k < i + length shells)%nat /\ fst (nth (k - i) shells (0, 0)) <= e.
Proof.
  induction shells as [|[b sx] r IH]; intros i xs k E; [discriminate|].
  cbn [lpe_select_lo] in E. numR.
  destruct (Rltb_spec e b) as [Hlt|Hge].
  - destruct (IH _ _ _ E) as [Hr Hb]. cbn [length]. split; [lia|].
    replace (k - i)%nat with (S (k - S i)) by lia. exact Hb.
  - destruct (Rltb_spec cutoff (xs + sx)) as [Hc|Hc].
    + inversion E; subst. cbn [length]. split; [lia|]. rewrite Nat.sub_diag. cbn. lra.
    + destruct (IH _ _ _ E) as [Hr Hb]. cbn [length]. split; [lia|].
      replace (k - i)%nat with (S (k - S i)) by lia. exact Hb.
Qed.

(** low-energy branch: whatever the tabulated values and the uniform, the photoelectron
    (if any) has non-negative kinetic energy and E = T_e + deposit; when every binding
    energy exceeds E nothing is emitted and E is deposited *)
Theorem livermore_lo_valid (e_inc cutoff : R) shells edir :
  0 <= e_inc -> Forall (fun s => 0 <= fst s) shells ->
  let r := livermore_lo e_inc cutoff shells edir in
  i_action r = Absorbed /\ 0 <= i_deposit r <= e_inc /\
  Forall (fun x => 0 <= s_energy x) (i_secs r) /\
  e_inc = sec_energy_sum (i_secs r) + i_deposit r /\
  (Forall (fun s => e_inc < fst s) shells -> i_secs r = [] /\ i_deposit r = e_inc).
Proof.
  intros He Hpos. cbv zeta. unfold livermore_lo.
  destruct (lpe_select_lo e_inc cutoff shells 0 n0) as [k|] eqn:E.
  - destruct (lpe_select_lo_spec _ _ _ _ _ _ E) as [[_ Hk] Hb]. rewrite Nat.sub_0_r in Hb. cbn [plus] in Hk.
    assert (Hb0 : 0 <= fst (nth k shells (0, 0))).
    { rewrite Forall_forall in Hpos. apply Hpos. apply nth_In. exact Hk. }
    unfold livermore_final, sec_energy_sum. cbn [i_action i_deposit i_secs map nsum s_energy]. numR.
    split; [reflexivity|]. split; [lra|]. split; [constructor; [cbn [s_energy]; lra|constructor]|]. split; [ring|].
    intros Hall. exfalso. rewrite Forall_forall in Hall.
    assert (e_inc < fst (nth k shells (0, 0))) by (apply Hall; apply nth_In; exact Hk). lra.
  - unfold livermore_no_shell, sec_energy_sum. cbn [i_action i_deposit i_secs map nsum]. numR.
    split; [reflexivity|]. split; [lra|]. split; [constructor|]. split; [ring|]. intros _. split; reflexivity.
Qed.
