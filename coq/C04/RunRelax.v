(** * C04: float entry point for the relaxation allocation size (per-element minima + max_secondary) *)
From Coq Require Import ZArith List Floats.
From Celer Require Import Base.Num Base.NumF C04.Relax.
Import ListNotations.

(** transitions as (initial_shell | -1, auger_shell | -1, energy) *)
Definition mk_tr (t : Z * Z * float) : rtrans float :=
  let '(i, a, e) := t in
  RT (if (i <? 0)%Z then None else Some (Z.to_nat i)) (if (a <? 0)%Z then None else Some (Z.to_nat a)) e.

(** [e_cuts], [g_cuts]: the cuts of the materials containing the element, in material order; the running minima
    start from +infinity (max_quantity) *)
Definition run_max_secondary (shells : list (list (Z * Z * float))) (e_cuts g_cuts : list float) : Z :=
  let sh := map (map mk_tr) shells in
  Z.of_nat (max_secondary (S (length sh)) sh (elem_min infinity e_cuts) (elem_min infinity g_cuts)).
