(** * Ionisation: IoniFinalStateHelper, Moller/Bhabha and Mu/Had energy distributions,
    MollerBhabhaInteractor, MuHadIonizationInteractor. *)
From Coq Require Import ZArith List Bool.
From Celer Require Import Base.Num Base.Stream Base.Vec3 C15.Samplers C04.Common.
Import ListNotations.
Local Open Scope num_scope.

Section Ioni.
  Context {T : Type} `{Num T}.
  Notation M := (M T).

  (** detail::IoniFinalStateHelper::operator() *)
  Definition ioni_costheta_raw (e_inc p_inc m_inc t_e m_e : T) : T :=
    t_e * (e_inc + m_inc + m_e) / (nsqrt (t_e * (t_e + n2 * m_e)) * p_inc).
  (** min(..., 1): bounded since /repo 14a7210 *)
  Definition ioni_costheta (e_inc p_inc m_inc t_e m_e : T) : T :=
    nmin (ioni_costheta_raw e_inc p_inc m_inc t_e m_e) n1.
  Definition ioni_final (e_inc : T) (dir : vec3 T) (p_inc m_inc t_e m_e : T) : M (interaction T) :=
    let momentum := nsqrt (t_e * (t_e + n2 * m_e)) in
    let costheta := ioni_costheta e_inc p_inc m_inc t_e m_e in
    sdir <- exiting_direction costheta dir ;;
    (* since /repo a57af2a: a primary stopped by the collision (E' = 0, Bhabha at the kinematic maximum) keeps the
       incident direction; the momentum difference cannot be normalised *)
    let e_out := e_inc - t_e in
    ret (Inter Scattered e_out
           (if n0 <? e_out then calc_exiting_direction p_inc dir momentum sdir else dir)
           [Sec PElectron t_e sdir] n0).

  (** ** Moller *)
  Definition moller_g (gamma epsilon : T) : T :=
    let two_gamma_term := (n2 * gamma - n1) / nsq gamma in
    let complement_frac := n1 - epsilon in
    n1 - two_gamma_term * epsilon
    + nsq epsilon * (n1 - two_gamma_term + (n1 - two_gamma_term * complement_frac) / nsq complement_frac).
  (** ** Bhabha *)
  Definition bhabha_g (gamma emin emax : T) : T :=
    let y := n1 / (n1 + gamma) in
    let y_sq := nsq y in
    let one_minus_2y := n1 - n2 * y in
    let b1 := n2 - y_sq in
    let b2 := one_minus_2y * (nofZ 3 + y_sq) in
    let b4 := one_minus_2y * one_minus_2y * one_minus_2y in
    let b3 := nsq one_minus_2y + b4 in
    let beta_sq := n1 - n1 / nsq gamma in
    n1 + (nsq (nsq emax) * b4 - (emin * emin * emin) * b3 + nsq emax * b2 - emin * b1) * beta_sq.

  (** sample epsilon = T_e / E: [g eps] = rejection function value at eps, [gden] its bound *)
  Fixpoint eps_loop (fuel : nat) (inv_max inv_min : T) (g : T -> T) (gden : T) : M T :=
    match fuel with
    | O => fail
    | S f =>
        x <- uniform inv_max inv_min ;;
        let epsilon := n1 / x in
        rej <- rejection (g epsilon) gden ;;
        if rej then eps_loop f inv_max inv_min g gden else ret epsilon
    end.

  Definition moller_sample (me cut e_inc : T) : M T :=
    fun s =>
    let minf := cut / e_inc in
    let gamma := n1 + e_inc / me in
    eps_loop (length s) (n1 / nhalf) (n1 / minf) (moller_g gamma) (moller_g gamma nhalf) s.
  Definition bhabha_sample (me cut e_inc : T) : M T :=
    fun s =>
    let minf := cut / e_inc in
    let gamma := n1 + e_inc / me in
    eps_loop (length s) (n1 / n1) (n1 / minf) (fun e => bhabha_g gamma e e) (bhabha_g gamma minf n1) s.

  (** MollerBhabhaInteractor *)
  Record mb_params := MB { mb_me : T; mb_cut : T; mb_energy : T; mb_dir : vec3 T; mb_is_electron : bool }.
  Definition mb_sample (p : mb_params) (a : alloc) : M (interaction T * alloc) :=
    fun s =>
    match allocate 1 a with
    | None => Some ((from_failure, a), s)
    | Some a' =>
        (eps <- (if mb_is_electron p then moller_sample (mb_me p) (mb_cut p) (mb_energy p)
                 else bhabha_sample (mb_me p) (mb_cut p) (mb_energy p)) ;;
         let t_e := mb_energy p * eps in
         r <- ioni_final (mb_energy p) (mb_dir p) (calc_momentum (mb_me p) (mb_energy p)) (mb_me p) t_e (mb_me p) ;;
         ret (r, a')) s
    end.

  (** ** muon / hadron ionisation *)
  (** detail::calc_max_secondary_energy *)
  Definition calc_tmax (m_inc e_inc me : T) : T :=
    let mass_ratio := me / m_inc in
    let tau := e_inc / m_inc in
    n2 * me * tau * (tau + n2) / (n1 + n2 * (tau + n1) * mass_ratio + nsq mass_ratio).
  (** ParticleTrackView::beta_sq *)
  Definition beta_sq (m_inc e_inc : T) : T := n1 - nsq (m_inc / (e_inc + m_inc)).

  Inductive mh_kind := KBetheBloch | KMuBB | KBragg.
  (** incident mass, energy, direction, electron mass, minimum secondary energy
      (cutoff; for Bragg/ICRU73QO min(cutoff, lowest * M / m_p)), distribution *)
  Record mh_params := MH { mh_minc : T; mh_energy : T; mh_dir : vec3 T; mh_me : T; mh_tmin : T; mh_kind_ : mh_kind }.

  Definition alpha_over_twopi : T := nQ 72973525693 10000000000000 / twopi.

  (** value of the rejection target and envelope for a candidate energy *)
  Definition mh_target (p : mh_params) (tmax energy : T) : T :=
    let bsq := beta_sq (mh_minc p) (mh_energy p) in
    match mh_kind_ p with
    | KBetheBloch | KBragg => n1 - (bsq / tmax) * energy
    | KMuBB =>
        let etot := mh_energy p + mh_minc p in
        let t0 := n1 - (bsq / tmax) * energy + nhalf * nsq (energy / etot) in
        if andb (andb (nQ 250 1 <? mh_energy p) (nQ 1 10 <? tmax)) (nQ 1 10 <? energy) then
          let a1 := nlog (n1 + n2 * energy / mh_me p) in
          let a3 := nlog (nofZ 4 * etot * (etot - energy) / nsq (mh_minc p)) in
          t0 * (n1 + alpha_over_twopi * a1 * (a3 - a1))
        else t0
    end.
  Definition mh_envelope (p : mh_params) (tmax : T) : T :=
    match mh_kind_ p with
    | KBetheBloch | KBragg => n1
    | KMuBB =>
        if andb (nQ 250 1 <? mh_energy p) (nQ 1 10 <? tmax) then
          n1 + alpha_over_twopi * nsq (nlog (n2 * (mh_energy p + mh_minc p) / mh_minc p))
        else n1
    end.

  Fixpoint mh_loop (fuel : nat) (p : mh_params) (tmax : T) : M T :=
    match fuel with
    | O => fail
    | S f =>
        energy <- inverse_square (mh_tmin p) tmax ;;
        rej <- rejection (mh_target p tmax energy) (mh_envelope p tmax) ;;
        if rej then mh_loop f p tmax else ret energy
    end.

  Definition mh_sample (p : mh_params) (a : alloc) : M (interaction T * alloc) :=
    fun s =>
    let tmax := calc_tmax (mh_minc p) (mh_energy p) (mh_me p) in
    if tmax <=? mh_tmin p then Some ((from_unchanged, a), s)
    else match allocate 1 a with
    | None => Some ((from_failure, a), s)
    | Some a' =>
        (t_e <- mh_loop (length s) p tmax ;;
         r <- ioni_final (mh_energy p) (mh_dir p) (calc_momentum (mh_minc p) (mh_energy p)) (mh_minc p) t_e (mh_me p) ;;
         ret (r, a')) s
    end.
End Ioni.
Arguments mb_params T : clear implicits.
Arguments mh_params T : clear implicits.
