(** * Bethe-Heitler pair production (BetheHeitlerInteractor.hh, LPM branch not modelled)
      and TsaiUrbanDistribution. *)
From Coq Require Import ZArith List Bool.
From Celer Require Import Base.Num Base.Stream Base.Vec3 C15.Samplers C04.Common.
Import ListNotations.
Local Open Scope num_scope.

Section BH.
  Context {T : Type} `{Num T}.
  Notation M := (M T).

  (** TsaiUrbanDistribution(energy, mass) *)
  Definition tu_umax (energy mass : T) : T := n2 * (n1 + energy / mass).
  Fixpoint tu_loop (fuel : nat) (umax : T) : M T :=
    match fuel with
    | O => fail
    | S f =>
        a <- draw ;; b <- draw ;;
        let uu := - nlog (a * b) in
        c <- bernoulli (nQ 25 100) ;;
        let u := uu * (if c then nQ 16 10 else nQ 16 10 / nofZ 3) in
        if umax <? u then tu_loop f umax else ret (n1 - n2 * nsq (u / umax))
    end.
  Definition tsai_urban (energy mass : T) : M T :=
    fun s => tu_loop (length s) (tu_umax energy mass) s.

  (** electron mass, incident gamma energy, direction; element cbrt(Z), log(Z), Coulomb correction *)
  Record bh_params := BH { bh_me : T; bh_energy : T; bh_dir : vec3 T; bh_cbrt_z : T; bh_log_z : T; bh_coulomb : T }.

  Definition bh_f1 (delta : T) : T :=
    if nQ 14 10 <? delta then nQ 42038 1000 - nQ 829 100 * nlog (delta + nQ 958 1000)
    else nQ 42184 1000 - delta * (nQ 7444 1000 - nQ 1623 1000 * delta).
  Definition bh_f2 (delta : T) : T :=
    if nQ 14 10 <? delta then nQ 42038 1000 - nQ 829 100 * nlog (delta + nQ 958 1000)
    else nQ 41326 1000 - delta * (nQ 5848 1000 - nQ 902 1000 * delta).
  Definition bh_eps0 (p : bh_params) : T := bh_me p / bh_energy p.
  Definition bh_impact (p : bh_params) (eps : T) : T :=
    nofZ 136 / bh_cbrt_z p * bh_eps0 p / (eps * (n1 - eps)).
  Definition bh_fz (p : bh_params) : T :=
    let f := nofZ 8 / nofZ 3 * bh_log_z p in
    if nofZ 50 <? bh_energy p then f + nofZ 8 * bh_coulomb p else f.
  Definition bh_delta_min (p : bh_params) : T := nofZ 544 / bh_cbrt_z p * bh_eps0 p.
  Definition bh_eps_min (p : bh_params) : T :=
    let delta_max := nexp ((nQ 42038 1000 - bh_fz p) / nQ 829 100) - nQ 958 1000 in
    let eps1 := nhalf - nhalf * nsqrt (n1 - bh_delta_min p / delta_max) in
    nmax (bh_eps0 p) eps1.

  (** rejection loop for E >= 2 MeV: returns epsilon *)
  Fixpoint bh_loop (fuel : nat) (p : bh_params) (eps_min fz f10 f20 : T) : M T :=
    match fuel with
    | O => fail
    | S f =>
        c <- bernoulli2 (nsq (nhalf - eps_min) * f10) (nQ 15 10 * f20) ;;
        u <- draw ;;
        let '(eps, g) :=
          if c then
            let eps := nhalf - (nhalf - eps_min) * ncbrt u in
            (eps, (bh_f1 (bh_impact p eps) - fz) / f10)
          else
            let eps := eps_min + (nhalf - eps_min) * u in
            (eps, (bh_f2 (bh_impact p eps) - fz) / f20) in
        t <- draw ;;
        if g <? t then bh_loop f p eps_min fz f10 f20 else ret eps
    end.

  Definition bh_sample_eps (p : bh_params) : M T :=
    fun s =>
    if bh_energy p <? n2 then uniform (bh_eps0 p) nhalf s
    else
      let fz := bh_fz p in
      bh_loop (length s) p (bh_eps_min p) fz (bh_f1 (bh_delta_min p) - fz) (bh_f2 (bh_delta_min p) - fz) s.

  Definition bh_assemble (p : bh_params) (eps : T) : M (interaction T) :=
    let e0 := (n1 - eps) * bh_energy p - bh_me p in
    let e1 := eps * bh_energy p - bh_me p in
    sw <- bernoulli nhalf ;;
    let '(ee, ep) := if sw then (e1, e0) else (e0, e1) in
    phi <- uniform n0 twopi ;;
    c0 <- tsai_urban ee (bh_me p) ;;
    let d0 := rotate min_acc (from_spherical c0 phi) (bh_dir p) in
    c1 <- tsai_urban ep (bh_me p) ;;
    let d1 := rotate min_acc (from_spherical c1 (phi + npi)) (bh_dir p) in
    ret (Inter Absorbed n0 vzero [Sec PElectron ee d0; Sec PPositron ep d1] n0).

  Definition bh_sample (p : bh_params) (a : alloc) : M (interaction T * alloc) :=
    fun s =>
    match allocate 2 a with
    | None => Some ((from_failure, a), s)
    | Some a' => (eps <- bh_sample_eps p ;; r <- bh_assemble p eps ;; ret (r, a')) s
    end.
End BH.
Arguments bh_params T : clear implicits.
