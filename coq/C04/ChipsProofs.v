(** * CHIPS neutron elastic scattering: proofs over R *)
From Coq Require Import Reals ZArith List Bool Lra Lia Psatz.
From Celer Require Import Base.Num Base.NumR Base.Stream Base.Vec3 C15.Samplers C15.SamplersProofs
  C04.Common C04.CommonProofs C04.KleinNishinaProofs C04.Chips.
Import ListNotations.
Local Open Scope R_scope.

Definition ch_ok (p : chips_params R) : Prop := 0 < ch_mn p /\ 0 < ch_energy p /\ 0 < ch_mtarget p.

(** the neutron four-vector after the boost back to the laboratory, as in [chips_final] *)
Definition ch_boosted (p : chips_params R) (q2 phi : R) : fourvec R :=
  let mn := ch_mn p in
  let mt := ch_mtarget p in
  let e_n := mn + ch_energy p in
  let p_n := calc_momentum mn (ch_energy p) in
  let cm_p := ch_cm_p p in
  let nlv1 := FV (vscale cm_p (from_spherical (ch_cos_theta p q2) phi)) (sqrt (cm_p * cm_p + mn * mn)) in
  boost (boost_vector (FV (V3 0 0 p_n) (e_n + mt))) nlv1.

Lemma chips_final_run (p : chips_params R) (q2 u : R) s :
  chips_final p q2 (u :: s) =
  let b := ch_boosted p q2 ((twopi - 0) * u + 0) in
  Some (Inter Scattered (fv_e b - ch_mn p)
          (rotate (min_acc (T:=R)) (make_unit_vector (fv_mom b)) (ch_dir p)) []
          (clamp_to_nonneg (ch_mn p + ch_energy p + ch_mtarget p - fv_e b - ch_mtarget p)), s).
Proof. reflexivity. Qed.

(** pure algebra: energy of the boosted neutron *)
Lemma chips_boost_algebra (m M en pn r q2 : R) :
  0 < M -> 0 < r -> 0 < pn -> 0 < en + M ->
  r * r = m * m + M * M + 2 * en * M -> pn * pn = en * en - m * m ->
  (en + M) / r * ((m * m + en * M) / r
                  + pn / (en + M) * (pn * M / r * (1 - 1 / 2 * q2 / (pn * M / r * (pn * M / r)))))
  = en - q2 / (2 * M).
Proof.
  intros HM Hr Hpn HeM Hr2 Hpn2.
  assert (H1 : (en + M) / r * ((m * m + en * M) / r
                  + pn / (en + M) * (pn * M / r * (1 - 1 / 2 * q2 / (pn * M / r * (pn * M / r)))))
             = ((en + M) * (m * m + en * M) + pn * pn * M) / (r * r) - q2 / (2 * M)) by (field; lra).
  rewrite H1, Hr2, Hpn2.
  assert (Hs : 0 < m * m + M * M + 2 * en * M) by (rewrite <- Hr2; nra).
  field. lra.
Qed.

Section ChipsKin.
  Variable p : chips_params R.
  Hypothesis Hok : ch_ok p.
  Let m := ch_mn p.
  Let M := ch_mtarget p.
  Let T := ch_energy p.
  Let en := m + T.
  Let pn := sqrt (T * T + 2 * m * T).
  Let r := sqrt (m * m + M * M + 2 * en * M).

  Lemma ch_basic : 0 < m /\ 0 < M /\ 0 < T /\ 0 < pn /\ 0 < r /\
    pn * pn = en * en - m * m /\ r * r = m * m + M * M + 2 * en * M.
  Proof.
    destruct Hok as (Hm & HT & HM). fold m T M in Hm, HT, HM.
    assert (H1 : 0 < T * T + 2 * m * T) by nra.
    assert (H2 : 0 < m * m + M * M + 2 * en * M) by (unfold en; nra).
    repeat split; try assumption.
    - apply sqrt_lt_R0; exact H1.
    - apply sqrt_lt_R0; exact H2.
    - unfold pn. rewrite sqrt_sqrt by lra. unfold en. ring.
    - unfold r. rewrite sqrt_sqrt by lra. reflexivity.
  Qed.

  Lemma ch_momentum_eq : calc_momentum m T = pn.
  Proof. unfold calc_momentum, pn. numR. reflexivity. Qed.

  Lemma ch_cm_p_eq : ch_cm_p p = pn * M / r /\ 0 < ch_cm_p p.
  Proof.
    destruct ch_basic as (Hm & HM & HT & Hpn & Hr & Hpn2 & Hr2).
    assert (E : ch_cm_p p = pn * M / r).
    { unfold ch_cm_p. fold m T M. rewrite ch_momentum_eq. numR. fold en.
      assert (Hd : 1 + m / M * (m / M) + 2 * en / M = r / M * (r / M)).
      { replace (r / M * (r / M)) with (r * r / (M * M)) by (field; lra). rewrite Hr2. field. lra. }
      rewrite Hd. rewrite sqrt_square by (apply Rlt_le, Rdiv_lt_0_compat; lra). field. split; lra. }
    split; [exact E|]. rewrite E. apply Rdiv_lt_0_compat; [nra|lra].
  Qed.

  (** the contract of the momentum-transfer oracle gives a valid cosine *)
  Lemma ch_cos_range (q2 : R) : 0 <= q2 <= 4 * (ch_cm_p p * ch_cm_p p) -> -1 <= ch_cos_theta p q2 <= 1.
  Proof.
    intros [H0 H1]. destruct ch_cm_p_eq as [_ Hc]. unfold ch_cos_theta. numR; numR.
    set (c2 := ch_cm_p p * ch_cm_p p) in *. assert (Hc2 : 0 < c2) by (unfold c2; nra).
    assert (Hq : 0 <= 1 / 2 * q2 / c2 <= 2) by (split; [apply div_ge_c; lra | apply div_le_c; lra]).
    lra.
  Qed.

  (** E' = E_n - Q^2 / (2 M): the recoil energy is Q^2 / (2 M) *)
  Lemma ch_boosted_energy (q2 phi : R) : fv_e (ch_boosted p q2 phi) = en - q2 / (2 * M).
  Proof.
    destruct ch_basic as (Hm & HM & HT & Hpn & Hr & Hpn2 & Hr2).
    destruct ch_cm_p_eq as [Ecm Hcm].
    unfold ch_boosted. fold m M T en. rewrite ch_momentum_eq. cbv zeta.
    unfold boost, boost_vector, vscale, dot, from_spherical. cbn [fv_e fv_mom vx vy vz]. numR.
    set (c := ch_cos_theta p q2). set (k := 1 / (en + M)).
    assert (HeM : 0 < en + M) by (unfold en; lra).
    assert (Hvsq : k * pn * (k * pn) + (k * 0 * (k * 0) + (k * 0 * (k * 0) + 0)) = pn / (en + M) * (pn / (en + M)))
      by (unfold k; field; lra).
    rewrite Hvsq.
    assert (Hg : 1 - pn / (en + M) * (pn / (en + M)) = r / (en + M) * (r / (en + M))).
    { replace (r / (en + M) * (r / (en + M))) with (r * r / ((en + M) * (en + M))) by (field; lra).
      rewrite Hr2. replace (pn / (en + M) * (pn / (en + M))) with (pn * pn / ((en + M) * (en + M))) by (field; lra).
      rewrite Hpn2. field. lra. }
    rewrite Hg. rewrite sqrt_square by (apply Rlt_le, Rdiv_lt_0_compat; lra).
    assert (Hst : ch_cm_p p * ch_cm_p p + m * m = (m * m + en * M) / r * ((m * m + en * M) / r)).
    { rewrite Ecm. replace ((m * m + en * M) / r * ((m * m + en * M) / r))
        with ((m * m + en * M) * (m * m + en * M) / (r * r)) by (field; lra).
      replace (pn * M / r * (pn * M / r) + m * m) with ((pn * pn * (M * M) + m * m * (r * r)) / (r * r)) by (field; lra).
      rewrite Hr2, Hpn2. f_equal. ring. }
    rewrite Hst. rewrite sqrt_square by (apply Rlt_le, Rdiv_lt_0_compat; [unfold en; nra|lra]).
    replace (k * pn * (ch_cm_p p * c) + (k * 0 * (ch_cm_p p * (sqrt (1 - c * c) * sin phi)) +
             (k * 0 * (ch_cm_p p * (sqrt (1 - c * c) * cos phi)) + 0)))
      with (pn / (en + M) * (ch_cm_p p * c)) by (unfold k; field; lra).
    unfold c, ch_cos_theta. numR; numR. rewrite Ecm.
    replace (1 / (r / (en + M))) with ((en + M) / r) by (field; lra).
    apply chips_boost_algebra; assumption.
  Qed.

  (** the largest recoil 4 p_cm^2 / (2 M) never exceeds the incident kinetic energy *)
  Lemma ch_max_recoil : 4 * (ch_cm_p p * ch_cm_p p) / (2 * M) <= T.
  Proof.
    destruct ch_basic as (Hm & HM & HT & Hpn & Hr & Hpn2 & Hr2). destruct ch_cm_p_eq as [Ecm _].
    rewrite Ecm. replace (4 * (pn * M / r * (pn * M / r)) / (2 * M)) with (2 * (pn * pn) * M / (r * r)) by (field; lra).
    rewrite Hr2, Hpn2. apply div_le_c; [unfold en; nra|].
    unfold en. pose proof (Rle_0_sqr (m - M)) as Hq. unfold Rsqr in Hq. nra.
  Qed.
End ChipsKin.

(** energy conservation and validity of the energies, for every Q^2 within the oracle's contract: the
    clamp on the recoil energy never fires, T = E_out + E_recoil with E_recoil = Q^2 / (2 M) *)
Theorem chips_energy_conserved (p : chips_params R) (q2 : R) s r s' :
  ch_ok p -> 0 <= q2 <= 4 * (ch_cm_p p * ch_cm_p p) -> chips_final p q2 s = Some (r, s') ->
  i_action r = Scattered /\ i_secs r = [] /\
  i_deposit r = q2 / (2 * ch_mtarget p) /\ i_energy r = ch_energy p - q2 / (2 * ch_mtarget p) /\
  ch_energy p = i_energy r + sec_energy_sum (i_secs r) + i_deposit r /\
  0 <= i_deposit r /\ 0 <= i_energy r <= ch_energy p /\ -1 <= ch_cos_theta p q2 <= 1 /\
  exists u, s = u :: s'.
Proof.
  intros Hok Hq E. destruct s as [|u s0]; [discriminate|]. rewrite chips_final_run in E. cbv zeta in E.
  set (b := ch_boosted p q2 ((twopi - 0) * u + 0)) in E.
  assert (Hb : fv_e b = ch_mn p + ch_energy p - q2 / (2 * ch_mtarget p)) by (apply ch_boosted_energy; exact Hok).
  clearbody b. injection E as Hr Hs. subst r s'. cbn [i_action i_secs i_deposit i_energy].
  rewrite Hb.
  pose proof (ch_max_recoil p Hok) as Hmax. destruct Hok as (Hm & HT & HM).
  set (rec := q2 / (2 * ch_mtarget p)).
  assert (Hrec : 0 <= rec <= ch_energy p).
  { unfold rec. split; [apply div_ge_c; lra|].
    apply Rle_trans with (4 * (ch_cm_p p * ch_cm_p p) / (2 * ch_mtarget p)); [|exact Hmax].
    apply div_le_c; [lra|]. replace (4 * (ch_cm_p p * ch_cm_p p) / (2 * ch_mtarget p) * (2 * ch_mtarget p))
      with (4 * (ch_cm_p p * ch_cm_p p)) by (field; lra). lra. }
  assert (Hcl : clamp_to_nonneg (ch_mn p + ch_energy p + ch_mtarget p - (ch_mn p + ch_energy p - rec) - ch_mtarget p) = rec).
  { unfold clamp_to_nonneg. numR.
    replace (ch_mn p + ch_energy p + ch_mtarget p - (ch_mn p + ch_energy p - rec) - ch_mtarget p) with rec by ring.
    destruct (Rltb_spec rec 0); [lra|reflexivity]. }
  rewrite Hcl. unfold sec_energy_sum. cbn [map nsum]. numR.
  repeat split; try reflexivity; try lra.
  - apply (ch_cos_range p (conj Hm (conj HT HM))); assumption.
  - apply (ch_cos_range p (conj Hm (conj HT HM))); assumption.
  - exists u. reflexivity.
Qed.

(** outside the contract the clamp hides an energy excess: a (hypothetical) Q^2 < 0 gives E_out > T with zero
    deposit, i.e. the interactor relies on the sampler's clamp(q_sq, 0, max) *)
Theorem chips_negative_q2_breaks_energy (p : chips_params R) (q2 u : R) s :
  ch_ok p -> q2 < 0 ->
  exists r, chips_final p q2 (u :: s) = Some (r, s) /\ i_deposit r = 0 /\ ch_energy p < i_energy r.
Proof.
  intros Hok Hq. rewrite chips_final_run. cbv zeta. eexists; split; [reflexivity|].
  cbn [i_deposit i_energy]. rewrite (ch_boosted_energy p Hok). destruct Hok as (Hm & HT & HM).
  assert (Hrec : q2 / (2 * ch_mtarget p) < 0).
  { apply div_lt_c; lra. }
  split.
  - unfold clamp_to_nonneg. numR.
    match goal with |- context [Rltb ?a 0] => assert (Hb : Rltb a 0 = true) by (apply Rltb_true; lra) end.
    rewrite Hb. reflexivity.
  - lra.
Qed.

Example chips_nonvacuous : ch_ok (CH 939 10 (V3 0 0 1) 3727) /\ 0 <= 0 <= 4 * (ch_cm_p (CH 939 10 (V3 0 0 1) 3727) * ch_cm_p (CH 939 10 (V3 0 0 1) 3727)).
Proof.
  assert (Hok : ch_ok (CH 939 10 (V3 0 0 1) 3727)) by (unfold ch_ok; cbn; lra).
  split; [exact Hok|]. destruct (ch_cm_p_eq _ Hok) as [_ H]. nra.
Qed.
