(** * CHIPS neutron elastic scattering: proofs over R *)
From Coq Require Import Reals ZArith List Bool Lra Lia Psatz.
From Celer Require Import Base.Num Base.NumR Base.Stream Base.Vec3 C15.Samplers C15.SamplersProofs
  C04.Common C04.CommonProofs C04.KleinNishinaProofs C04.Chips.
Import ListNotations.
Local Open Scope R_scope.

Definition ch_ok (p : chips_params R) : Prop := 0 < ch_mn p /\ 0 < ch_energy p /\ 0 < ch_mtarget p.

(** the neutron four-vector after the boost back to the laboratory, as in [chips_final] *)
Definition ch_boosted (p : chips_params R) (c phi : R) : fourvec R :=
  let mn := ch_mn p in
  let mt := ch_mtarget p in
  let e_n := mn + ch_energy p in
  let p_n := calc_momentum mn (ch_energy p) in
  let cm_p := ch_cm_p p in
  let nlv1 := FV (vscale cm_p (from_spherical c phi)) (sqrt (cm_p * cm_p + mn * mn)) in
  boost (boost_vector (FV (V3 0 0 p_n) (e_n + mt))) nlv1.

Lemma chips_final_cos_run (p : chips_params R) (c u : R) s :
  chips_final_cos p c (u :: s) =
  let b := ch_boosted p c ((twopi - 0) * u + 0) in
  Some (Inter Scattered (fv_e b - ch_mn p)
          (rotate (min_acc (T:=R)) (make_unit_vector (fv_mom b)) (ch_dir p)) []
          (clamp_to_nonneg (ch_mn p + ch_energy p + ch_mtarget p - fv_e b - ch_mtarget p)), s).
Proof. reflexivity. Qed.

(** pure algebra: energy of the boosted neutron *)
Lemma chips_boost_algebra (m M en pn r c : R) :
  0 < M -> 0 < r -> 0 < pn -> 0 < en + M ->
  r * r = m * m + M * M + 2 * en * M -> pn * pn = en * en - m * m ->
  (en + M) / r * ((m * m + en * M) / r + pn / (en + M) * (pn * M / r * c))
  = en - pn * pn * M / (r * r) * (1 - c).
Proof.
  intros HM Hr Hpn HeM Hr2 Hpn2.
  assert (H1 : (en + M) / r * ((m * m + en * M) / r + pn / (en + M) * (pn * M / r * c))
             = ((en + M) * (m * m + en * M) + pn * pn * M) / (r * r) - pn * pn * M / (r * r) * (1 - c)) by (field; lra).
  rewrite H1. f_equal. rewrite Hr2, Hpn2.
  assert (Hs : 0 < m * m + M * M + 2 * en * M) by (rewrite <- Hr2; nra).
  field. lra.
Qed.

Section ChipsKin.
  Variable p : chips_params R.
  Hypothesis Hok : ch_ok p.
  Let m := ch_mn p.
  Let M := ch_mtarget p.
  Let T := ch_energy p.
  Let en := m + T.
  Let pn := sqrt (T * T + 2 * m * T).
  Let r := sqrt (m * m + M * M + 2 * en * M).

  Lemma ch_basic : 0 < m /\ 0 < M /\ 0 < T /\ 0 < pn /\ 0 < r /\
    pn * pn = en * en - m * m /\ r * r = m * m + M * M + 2 * en * M.
  Proof.
    destruct Hok as (Hm & HT & HM). fold m T M in Hm, HT, HM.
    assert (H1 : 0 < T * T + 2 * m * T) by nra.
    assert (H2 : 0 < m * m + M * M + 2 * en * M) by (unfold en; nra).
    repeat split; try assumption.
    - apply sqrt_lt_R0; exact H1.
    - apply sqrt_lt_R0; exact H2.
    - unfold pn. rewrite sqrt_sqrt by lra. unfold en. ring.
    - unfold r. rewrite sqrt_sqrt by lra. reflexivity.
  Qed.

  Lemma ch_momentum_eq : calc_momentum m T = pn.
  Proof. unfold calc_momentum, pn. numR. reflexivity. Qed.

  Lemma ch_cm_p_eq : ch_cm_p p = pn * M / r /\ 0 < ch_cm_p p.
  Proof.
    destruct ch_basic as (Hm & HM & HT & Hpn & Hr & Hpn2 & Hr2).
    assert (E : ch_cm_p p = pn * M / r).
    { unfold ch_cm_p. fold m T M. rewrite ch_momentum_eq. numR. fold en.
      assert (Hd : 1 + m / M * (m / M) + 2 * en / M = r / M * (r / M)).
      { replace (r / M * (r / M)) with (r * r / (M * M)) by (field; lra). rewrite Hr2. field. lra. }
      rewrite Hd. rewrite sqrt_square by (apply Rlt_le, Rdiv_lt_0_compat; lra). field. split; lra. }
    split; [exact E|]. rewrite E. apply Rdiv_lt_0_compat; [nra|lra].
  Qed.

  (** the contract of the momentum-transfer oracle gives a valid raw cosine; the clamp is then the identity *)
  Lemma ch_cos_raw_range (q2 : R) : 0 <= q2 <= 4 * (ch_cm_p p * ch_cm_p p) -> -1 <= ch_cos_raw p q2 <= 1.
  Proof.
    intros [H0 H1]. destruct ch_cm_p_eq as [_ Hc]. unfold ch_cos_raw. numR; numR.
    set (c2 := ch_cm_p p * ch_cm_p p) in *. assert (Hc2 : 0 < c2) by (unfold c2; nra).
    assert (Hq : 0 <= 1 / 2 * q2 / c2 <= 2) by (split; [apply div_ge_c; lra | apply div_le_c; lra]).
    lra.
  Qed.
  (** the clamped cosine is in [-1, 1] for EVERY q2 (rounding excess, even a wrong sampler) *)
  Lemma ch_cos_theta_range (q2 : R) : -1 <= ch_cos_theta p q2 <= 1.
  Proof.
    unfold ch_cos_theta, nclamp. numR. destruct (Rltb_spec (ch_cos_raw p q2) (- (1))); [lra|].
    destruct (Rltb_spec 1 (ch_cos_raw p q2)); lra.
  Qed.
  Lemma ch_cos_theta_in_contract (q2 : R) : 0 <= q2 <= 4 * (ch_cm_p p * ch_cm_p p) ->
    ch_cos_theta p q2 = ch_cos_raw p q2.
  Proof.
    intros Hq. pose proof (ch_cos_raw_range q2 Hq). unfold ch_cos_theta, nclamp. numR.
    destruct (Rltb_spec (ch_cos_raw p q2) (- (1))); [lra|]. destruct (Rltb_spec 1 (ch_cos_raw p q2)); [lra|reflexivity].
  Qed.

  (** facts shared by the energy and the momentum of the boosted neutron *)
  Lemma ch_boost_facts : 0 < en + M /\
    sqrt (1 - pn / (en + M) * (pn / (en + M))) = r / (en + M) /\
    sqrt (ch_cm_p p * ch_cm_p p + m * m) = (m * m + en * M) / r.
  Proof.
    destruct ch_basic as (Hm & HM & HT & Hpn & Hr & Hpn2 & Hr2). destruct ch_cm_p_eq as [Ecm Hcm].
    assert (HeM : 0 < en + M) by (unfold en; lra). split; [exact HeM|]. split.
    - assert (Hg : 1 - pn / (en + M) * (pn / (en + M)) = r / (en + M) * (r / (en + M))).
      { replace (r / (en + M) * (r / (en + M))) with (r * r / ((en + M) * (en + M))) by (field; lra).
        rewrite Hr2. replace (pn / (en + M) * (pn / (en + M))) with (pn * pn / ((en + M) * (en + M))) by (field; lra).
        rewrite Hpn2. field. lra. }
      rewrite Hg. apply sqrt_square. apply Rlt_le, Rdiv_lt_0_compat; lra.
    - assert (Hst : ch_cm_p p * ch_cm_p p + m * m = (m * m + en * M) / r * ((m * m + en * M) / r)).
      { rewrite Ecm. replace ((m * m + en * M) / r * ((m * m + en * M) / r))
          with ((m * m + en * M) * (m * m + en * M) / (r * r)) by (field; lra).
        replace (pn * M / r * (pn * M / r) + m * m) with ((pn * pn * (M * M) + m * m * (r * r)) / (r * r)) by (field; lra).
        rewrite Hr2, Hpn2. f_equal. ring. }
      rewrite Hst. apply sqrt_square. apply Rlt_le, Rdiv_lt_0_compat; [unfold en; nra|lra].
  Qed.

  (** E' = E_n - (p^2 M / s) (1 - cos theta), for every cosine and azimuth *)
  Lemma ch_boosted_energy_c (c phi : R) : fv_e (ch_boosted p c phi) = en - pn * pn * M / (r * r) * (1 - c).
  Proof.
    destruct ch_basic as (Hm & HM & HT & Hpn & Hr & Hpn2 & Hr2).
    destruct ch_cm_p_eq as [Ecm Hcm]. destruct ch_boost_facts as (HeM & Hg & Hst).
    unfold ch_boosted. fold m M T en. rewrite ch_momentum_eq. cbv zeta.
    unfold boost, boost_vector, vscale, dot, from_spherical. cbn [fv_e fv_mom vx vy vz]. numR.
    set (k := 1 / (en + M)).
    assert (Hvsq : k * pn * (k * pn) + (k * 0 * (k * 0) + (k * 0 * (k * 0) + 0)) = pn / (en + M) * (pn / (en + M)))
      by (unfold k; field; lra).
    rewrite Hvsq, Hg, Hst.
    replace (k * pn * (ch_cm_p p * c) + (k * 0 * (ch_cm_p p * (sqrt (1 - c * c) * sin phi)) +
             (k * 0 * (ch_cm_p p * (sqrt (1 - c * c) * cos phi)) + 0)))
      with (pn / (en + M) * (ch_cm_p p * c)) by (unfold k; field; lra).
    rewrite Ecm. replace (1 / (r / (en + M))) with ((en + M) / r) by (field; lra).
    apply chips_boost_algebra; assumption.
  Qed.

  (** within the contract: E' = E_n - Q^2 / (2 M): the recoil energy is Q^2 / (2 M) *)
  Lemma ch_boosted_energy (q2 phi : R) : fv_e (ch_boosted p (ch_cos_raw p q2) phi) = en - q2 / (2 * M).
  Proof.
    destruct ch_basic as (Hm & HM & HT & Hpn & Hr & Hpn2 & Hr2). destruct ch_cm_p_eq as [Ecm Hcm].
    rewrite ch_boosted_energy_c. unfold ch_cos_raw. numR; numR. rewrite Ecm. field. repeat split; lra.
  Qed.

  (** the largest recoil 2 p^2 M / s = 4 p_cm^2 / (2 M) never exceeds the incident kinetic energy; strictly below
      it unless the target has exactly the neutron's mass *)
  Lemma ch_max_recoil_c : 2 * (pn * pn * M / (r * r)) <= T /\ (m <> M -> 2 * (pn * pn * M / (r * r)) < T).
  Proof.
    destruct ch_basic as (Hm & HM & HT & Hpn & Hr & Hpn2 & Hr2).
    assert (Hs : 0 < m * m + M * M + 2 * en * M) by (unfold en; nra).
    replace (2 * (pn * pn * M / (r * r))) with (2 * (pn * pn) * M / (r * r)) by (field; lra).
    rewrite Hr2, Hpn2. split.
    - apply div_le_c; [exact Hs|]. unfold en. pose proof (Rle_0_sqr (m - M)) as Hq. unfold Rsqr in Hq. nra.
    - intros Hne. apply div_lt_c; [exact Hs|]. unfold en.
      assert (Hq : 0 < (m - M) * (m - M)) by (destruct (Rtotal_order m M) as [H|[H|H]]; [nra|contradiction|nra]). nra.
  Qed.
  Lemma ch_max_recoil : 4 * (ch_cm_p p * ch_cm_p p) / (2 * M) <= T.
  Proof.
    destruct ch_basic as (Hm & HM & HT & Hpn & Hr & Hpn2 & Hr2). destruct ch_cm_p_eq as [Ecm _].
    destruct ch_max_recoil_c as [H _]. rewrite Ecm.
    replace (4 * (pn * M / r * (pn * M / r)) / (2 * M)) with (2 * (pn * pn * M / (r * r))) by (field; lra). exact H.
  Qed.

  (** |p'|^2 > 0 for every cosine in [-1, 1] when the target mass differs from the neutron mass *)
  Lemma ch_boosted_mom_pos (c phi : R) : -1 <= c <= 1 -> m <> M ->
    0 < dot (fv_mom (ch_boosted p c phi)) (fv_mom (ch_boosted p c phi)).
  Proof.
    intros Hc Hne. destruct ch_basic as (Hm & HM & HT & Hpn & Hr & Hpn2 & Hr2).
    destruct ch_cm_p_eq as [Ecm Hcm]. destruct ch_boost_facts as (HeM & Hg & Hst).
    rewrite dot_R. unfold ch_boosted. fold m M T en. rewrite ch_momentum_eq. cbv zeta.
    unfold boost, boost_vector, vscale, axpy, dot, from_spherical. cbn [fv_e fv_mom vx vy vz]. numR.
    set (k := 1 / (en + M)).
    assert (Hvsq : k * pn * (k * pn) + (k * 0 * (k * 0) + (k * 0 * (k * 0) + 0)) = pn / (en + M) * (pn / (en + M)))
      by (unfold k; field; lra).
    rewrite Hvsq, Hg, Hst.
    replace (k * pn * (ch_cm_p p * c) + (k * 0 * (ch_cm_p p * (sqrt (1 - c * c) * sin phi)) +
             (k * 0 * (ch_cm_p p * (sqrt (1 - c * c) * cos phi)) + 0)))
      with (pn / (en + M) * (ch_cm_p p * c)) by (unfold k; field; lra).
    assert (Hb : Rltb 0 (pn / (en + M) * (pn / (en + M))) = true).
    { apply Rltb_true. assert (0 < pn / (en + M)) by (apply Rdiv_lt_0_compat; lra). nra. }
    rewrite Hb.
    set (st := sqrt (1 - c * c)). assert (Hst2 : st * st = 1 - c * c) by (apply sqrt_sqrt; nra).
    assert (Hst0 : 0 <= st) by apply sqrt_pos.
    set (lam := (1 / (r / (en + M)) - 1) * (pn / (en + M) * (ch_cm_p p * c)) / (pn / (en + M) * (pn / (en + M)))
                + 1 / (r / (en + M)) * ((m * m + en * M) / r)).
    (* z component in closed form *)
    assert (Hz : lam * (k * pn) + ch_cm_p p * c = pn * (M * c * (en + M) + m * m + en * M) / (r * r)).
    { unfold lam, k. rewrite Ecm. field. repeat split; lra. }
    replace (lam * (k * 0) + ch_cm_p p * (st * cos phi)) with (ch_cm_p p * st * cos phi) by (unfold k; field; lra).
    replace (lam * (k * 0) + ch_cm_p p * (st * sin phi)) with (ch_cm_p p * st * sin phi) by (unfold k; field; lra).
    rewrite Hz. set (z := pn * (M * c * (en + M) + m * m + en * M) / (r * r)).
    assert (Hxy : ch_cm_p p * st * cos phi * (ch_cm_p p * st * cos phi) + ch_cm_p p * st * sin phi * (ch_cm_p p * st * sin phi)
                  = ch_cm_p p * ch_cm_p p * (1 - c * c)).
    { pose proof (sin2_cos2 phi) as Hsc. unfold Rsqr in Hsc.
      replace (ch_cm_p p * st * cos phi * (ch_cm_p p * st * cos phi) + ch_cm_p p * st * sin phi * (ch_cm_p p * st * sin phi))
        with (ch_cm_p p * ch_cm_p p * (st * st) * (sin phi * sin phi + cos phi * cos phi)) by ring.
      rewrite Hsc, Hst2. ring. }
    rewrite Hxy.
    assert (Hcm2 : 0 < ch_cm_p p * ch_cm_p p) by nra.
    destruct (Rlt_dec (c * c) 1) as [Hlt|Hge].
    - assert (0 < ch_cm_p p * ch_cm_p p * (1 - c * c)) by (apply Rmult_lt_0_compat; lra).
      pose proof (Rle_0_sqr z) as Hq. unfold Rsqr in Hq. lra.
    - assert (Hc1 : c = 1 \/ c = -1) by (destruct (Rtotal_order c 0) as [H|[H|H]]; [right|exfalso|left]; nra).
      assert (Hz0 : z <> 0).
      { unfold z. assert (Hrr : 0 < r * r) by nra.
        destruct Hc1 as [-> | ->].
        - assert (0 < pn * (M * 1 * (en + M) + m * m + en * M) / (r * r)).
          { apply Rdiv_lt_0_compat; [|lra]. apply Rmult_lt_0_compat; [lra|unfold en; nra]. } lra.
        - replace (M * -1 * (en + M) + m * m + en * M) with ((m - M) * (m + M)) by ring.
          intro Hz0. apply Rmult_eq_compat_r with (r := r * r) in Hz0.
          replace (pn * ((m - M) * (m + M)) / (r * r) * (r * r)) with (pn * ((m - M) * (m + M))) in Hz0 by (field; lra).
          rewrite Rmult_0_l in Hz0. apply Rmult_integral in Hz0 as [Hz0|Hz0]; [lra|].
          apply Rmult_integral in Hz0 as [Hz0|Hz0]; [apply Hne; lra|lra]. }
      assert (0 < z * z) by (destruct (Rtotal_order z 0) as [H|[H|H]]; [nra|contradiction|nra]).
      assert (0 <= ch_cm_p p * ch_cm_p p * (1 - c * c)) by (apply Rmult_le_pos; nra). lra.
  Qed.
End ChipsKin.

(** ** the repaired interactor: valid final state for EVERY momentum transfer the sampler can return (including a
    rounding excess over 4 p_cm^2, or any other value: the clamp bounds the cosine) *)
Theorem chips_outputs_valid (p : chips_params R) (q2 : R) s r s' :
  ch_ok p -> ch_mn p <> ch_mtarget p -> unitv (ch_dir p) -> chips_final p q2 s = Some (r, s') ->
  i_action r = Scattered /\ i_secs r = [] /\ -1 <= ch_cos_theta p q2 <= 1 /\
  0 <= i_deposit r /\ 0 < i_energy r <= ch_energy p /\ unitv (i_dir r) /\
  ch_energy p = i_energy r + sec_energy_sum (i_secs r) + i_deposit r /\ exists u, s = u :: s'.
Proof.
  intros Hok Hne Hd E. destruct s as [|u s0]; [discriminate|]. unfold chips_final in E.
  rewrite chips_final_cos_run in E. cbv zeta in E.
  pose proof (ch_cos_theta_range p q2) as Hc. set (c := ch_cos_theta p q2) in *.
  set (b := ch_boosted p c ((twopi - 0) * u + 0)) in E.
  pose proof (ch_boosted_energy_c p Hok c ((twopi - 0) * u + 0)) as Hb. fold b in Hb.
  pose proof (ch_boosted_mom_pos p Hok c ((twopi - 0) * u + 0) Hc Hne) as Hp. fold b in Hp.
  destruct (ch_max_recoil_c p Hok) as [Hmax Hmaxs]. specialize (Hmaxs Hne).
  clearbody b. injection E as Hr Hs. subst r s'. cbn [i_action i_secs i_deposit i_energy i_dir].
  rewrite Hb. destruct Hok as (Hm & HT & HM).
  set (K := sqrt (ch_energy p * ch_energy p + 2 * ch_mn p * ch_energy p) *
            sqrt (ch_energy p * ch_energy p + 2 * ch_mn p * ch_energy p) * ch_mtarget p /
            (sqrt (ch_mn p * ch_mn p + ch_mtarget p * ch_mtarget p + 2 * (ch_mn p + ch_energy p) * ch_mtarget p) *
             sqrt (ch_mn p * ch_mn p + ch_mtarget p * ch_mtarget p + 2 * (ch_mn p + ch_energy p) * ch_mtarget p))) in *.
  assert (HK : 0 <= K).
  { unfold K. apply div_ge_c.
    - assert (0 < sqrt (ch_mn p * ch_mn p + ch_mtarget p * ch_mtarget p + 2 * (ch_mn p + ch_energy p) * ch_mtarget p))
        by (apply sqrt_lt_R0; nra). nra.
    - rewrite Rmult_0_l. apply Rmult_le_pos; [|lra].
      pose proof (sqrt_pos (ch_energy p * ch_energy p + 2 * ch_mn p * ch_energy p)). nra. }
  set (rec := K * (1 - c)) in *.
  assert (Hrec : 0 <= rec < ch_energy p) by (unfold rec; split; nra).
  assert (Hcl : clamp_to_nonneg (ch_mn p + ch_energy p + ch_mtarget p - (ch_mn p + ch_energy p - rec) - ch_mtarget p) = rec).
  { unfold clamp_to_nonneg. numR.
    replace (ch_mn p + ch_energy p + ch_mtarget p - (ch_mn p + ch_energy p - rec) - ch_mtarget p) with rec by ring.
    destruct (Rltb_spec rec 0); [lra|reflexivity]. }
  rewrite Hcl. unfold sec_energy_sum. cbn [map nsum]. numR.
  repeat split; try reflexivity; try lra.
  - apply rotate_unit; [apply make_unit_vector_unit; exact Hp|exact Hd].
  - exists u. reflexivity.
Qed.

(** within the sampler's contract the clamp is the identity and the recoil energy is Q^2 / (2 M) *)
Theorem chips_energy_conserved (p : chips_params R) (q2 : R) s r s' :
  ch_ok p -> 0 <= q2 <= 4 * (ch_cm_p p * ch_cm_p p) -> chips_final p q2 s = Some (r, s') ->
  i_action r = Scattered /\ i_secs r = [] /\
  i_deposit r = q2 / (2 * ch_mtarget p) /\ i_energy r = ch_energy p - q2 / (2 * ch_mtarget p) /\
  ch_energy p = i_energy r + sec_energy_sum (i_secs r) + i_deposit r /\
  0 <= i_deposit r /\ 0 <= i_energy r <= ch_energy p /\ -1 <= ch_cos_theta p q2 <= 1 /\
  exists u, s = u :: s'.
Proof.
  intros Hok Hq E. destruct s as [|u s0]; [discriminate|]. unfold chips_final in E.
  rewrite (ch_cos_theta_in_contract p Hok q2 Hq) in E. rewrite chips_final_cos_run in E. cbv zeta in E.
  set (b := ch_boosted p (ch_cos_raw p q2) ((twopi - 0) * u + 0)) in E.
  assert (Hb : fv_e b = ch_mn p + ch_energy p - q2 / (2 * ch_mtarget p)) by (apply ch_boosted_energy; exact Hok).
  clearbody b. injection E as Hr Hs. subst r s'. cbn [i_action i_secs i_deposit i_energy].
  rewrite Hb.
  pose proof (ch_max_recoil p Hok) as Hmax. pose proof (ch_cos_theta_range p q2) as Hcr. destruct Hok as (Hm & HT & HM).
  set (rec := q2 / (2 * ch_mtarget p)).
  assert (Hrec : 0 <= rec <= ch_energy p).
  { unfold rec. split; [apply div_ge_c; lra|].
    apply Rle_trans with (4 * (ch_cm_p p * ch_cm_p p) / (2 * ch_mtarget p)); [|exact Hmax].
    apply div_le_c; [lra|]. replace (4 * (ch_cm_p p * ch_cm_p p) / (2 * ch_mtarget p) * (2 * ch_mtarget p))
      with (4 * (ch_cm_p p * ch_cm_p p)) by (field; lra). lra. }
  assert (Hcl : clamp_to_nonneg (ch_mn p + ch_energy p + ch_mtarget p - (ch_mn p + ch_energy p - rec) - ch_mtarget p) = rec).
  { unfold clamp_to_nonneg. numR.
    replace (ch_mn p + ch_energy p + ch_mtarget p - (ch_mn p + ch_energy p - rec) - ch_mtarget p) with rec by ring.
    destruct (Rltb_spec rec 0); [lra|reflexivity]. }
  rewrite Hcl. unfold sec_energy_sum. cbn [map nsum]. numR.
  repeat split; try reflexivity; try lra.
  exists u. reflexivity.
Qed.

(** BEFORE the repair (no clamp): a momentum transfer exceeding 4 p_cm^2 (as rounding produces on the real sampler:
    formerly KNOWN finding chips-costheta-exceeds-1-by-rounding-nan-direction) gives cos(theta) < -1, i.e. the square
    root of a negative number in from_spherical *)
Theorem chips_costheta_before_repair_refuted (p : chips_params R) (q2 : R) :
  ch_ok p -> 4 * (ch_cm_p p * ch_cm_p p) < q2 ->
  ch_cos_raw p q2 < -1 /\ 1 - ch_cos_raw p q2 * ch_cos_raw p q2 < 0 /\ ch_cos_theta p q2 = -1.
Proof.
  intros Hok Hq. destruct (ch_cm_p_eq p Hok) as [_ Hc].
  assert (Hraw : ch_cos_raw p q2 < -1).
  { unfold ch_cos_raw. numR; numR. set (c2 := ch_cm_p p * ch_cm_p p) in *. assert (Hc2 : 0 < c2) by (unfold c2; nra).
    assert (2 < 1 / 2 * q2 / c2) by (apply div_gt_c; lra). lra. }
  split; [exact Hraw|]. split; [nra|].
  unfold ch_cos_theta, nclamp. numR. destruct (Rltb_spec (ch_cos_raw p q2) (- (1))); [reflexivity|lra].
Qed.

(** the interactor still relies on the sampler for Q^2 >= 0 only through the clamp: a negative Q^2 is clamped to
    cos(theta) = 1 (no energy transfer) *)
Theorem chips_negative_q2_is_forward (p : chips_params R) (q2 : R) : ch_ok p -> q2 < 0 -> ch_cos_theta p q2 = 1.
Proof.
  intros Hok Hq. destruct (ch_cm_p_eq p Hok) as [_ Hc].
  assert (Hraw : 1 < ch_cos_raw p q2).
  { unfold ch_cos_raw. numR; numR. set (c2 := ch_cm_p p * ch_cm_p p) in *. assert (Hc2 : 0 < c2) by (unfold c2; nra).
    assert (1 / 2 * q2 / c2 < 0) by (apply div_lt_c; lra). lra. }
  unfold ch_cos_theta, nclamp. numR. destruct (Rltb_spec (ch_cos_raw p q2) (- (1))); [lra|].
  destruct (Rltb_spec 1 (ch_cos_raw p q2)); [reflexivity|lra].
Qed.

Example chips_nonvacuous : ch_ok (CH 939 10 (V3 0 0 1) 3727) /\ (939 : R) <> 3727 /\
  0 <= 0 <= 4 * (ch_cm_p (CH 939 10 (V3 0 0 1) 3727) * ch_cm_p (CH 939 10 (V3 0 0 1) 3727)).
Proof.
  assert (Hok : ch_ok (CH 939 10 (V3 0 0 1) 3727)) by (unfold ch_ok; cbn; lra).
  split; [exact Hok|]. split; [lra|]. destruct (ch_cm_p_eq _ Hok) as [_ H]. nra.
Qed.
