(** * Tier B final states: the energy / angle samplers are abstract inputs, the
    bookkeeping is modelled.  BremFinalStateHelper (Seltzer-Berger, relativistic,
    combined and muon bremsstrahlung), CoulombScatteringInteractor's final state,
    LivermorePEInteractor's energy bookkeeping. *)
From Coq Require Import ZArith List Bool.
From Celer Require Import Base.Num Base.Stream Base.Vec3 C15.Samplers C04.Common.
Import ListNotations.
Local Open Scope num_scope.

Section Final.
  Context {T : Type} `{Num T}.
  Notation M := (M T).

  (** detail::BremFinalStateHelper: gamma energy and polar cosine already sampled *)
  Definition brem_final (e_inc : T) (dir : vec3 T) (p_inc e_gamma costheta : T) : M (interaction T) :=
    gdir <- exiting_direction costheta dir ;;
    ret (Inter Scattered (e_inc - e_gamma) (calc_exiting_direction p_inc dir e_gamma gdir)
           [Sec PGamma e_gamma gdir] n0).
  (** interactor shell common to the four bremsstrahlung models: allocate, then
      sample (gamma energy, cos theta) with the model's samplers, then the helper *)
  Definition brem_sample (sampler : M (T * T)) (e_inc : T) (dir : vec3 T) (p_inc : T) (a : alloc)
    : M (interaction T * alloc) :=
    fun s =>
    match allocate 1 a with
    | None => Some ((from_failure, a), s)
    | Some a' => ('(eg, ct) <- sampler ;; r <- brem_final e_inc dir p_inc eg ct ;; ret (r, a')) s
    end.

  (** CoulombScatteringInteractor: cos theta already sampled (WentzelDistribution) *)
  Definition coulomb_recoil (m_inc e_inc m_target cos_theta : T) : T :=
    let momsq := nsq e_inc + n2 * m_inc * e_inc in
    let pmass := m_inc + e_inc in
    momsq * (n1 - cos_theta) / (m_target + pmass * (n1 - cos_theta)).
  Definition coulomb_final (m_inc e_inc m_target : T) (dir : vec3 T) (cos_theta : T) : M (interaction T) :=
    d <- exiting_direction cos_theta dir ;;
    let recoil := coulomb_recoil m_inc e_inc m_target cos_theta in
    ret (Inter Scattered (e_inc - recoil) d [] recoil).

  (** LivermorePEInteractor bookkeeping after the shell (binding energy) and the
      electron direction are sampled; [relax] = the secondaries produced by
      AtomicRelaxation and their total energy (outgoing.energy), if enabled *)
  Definition livermore_final (e_inc binding : T) (edir : vec3 T) (relax : option (list (secondary T) * T))
    : interaction T :=
    let electron := Sec PElectron (e_inc - binding) edir in
    match relax with
    | Some (secs, esum) => Inter Absorbed n0 vzero (electron :: secs) (binding - esum)
    | None => Inter Absorbed n0 vzero [electron] binding
    end.
  (** no shell can be ionised: everything deposited locally *)
  Definition livermore_no_shell (e_inc : T) : interaction T := Inter Absorbed n0 vzero [] e_inc.
End Final.
