(** * Tier B final states: the energy / angle samplers are abstract inputs, the
    bookkeeping is modelled.  BremFinalStateHelper (Seltzer-Berger, relativistic,
    combined and muon bremsstrahlung), CoulombScatteringInteractor's final state,
    LivermorePEInteractor's energy bookkeeping. *)
From Coq Require Import ZArith List Bool.
From Celer Require Import Base.Num Base.Stream Base.Vec3 C15.Samplers C04.Common.
Import ListNotations.
Local Open Scope num_scope.

Section Final.
  Context {T : Type} `{Num T}.
  Notation M := (M T).

  (** detail::BremFinalStateHelper: gamma energy and polar cosine already sampled *)
  Definition brem_final (e_inc : T) (dir : vec3 T) (p_inc e_gamma costheta : T) : M (interaction T) :=
    gdir <- exiting_direction costheta dir ;;
    ret (Inter Scattered (e_inc - e_gamma) (calc_exiting_direction p_inc dir e_gamma gdir)
           [Sec PGamma e_gamma gdir] n0).
  (** interactor shell common to the four bremsstrahlung models: allocate, then
      sample (gamma energy, cos theta) with the model's samplers, then the helper *)
  Definition brem_sample (sampler : M (T * T)) (e_inc : T) (dir : vec3 T) (p_inc : T) (a : alloc)
    : M (interaction T * alloc) :=
    fun s =>
    match allocate 1 a with
    | None => Some ((from_failure, a), s)
    | Some a' => ('(eg, ct) <- sampler ;; r <- brem_final e_inc dir p_inc eg ct ;; ret (r, a')) s
    end.

  (** CoulombScatteringInteractor: cos theta already sampled (WentzelDistribution) *)
  Definition coulomb_recoil (m_inc e_inc m_target cos_theta : T) : T :=
    let momsq := nsq e_inc + n2 * m_inc * e_inc in
    let pmass := m_inc + e_inc in
    momsq * (n1 - cos_theta) / (m_target + pmass * (n1 - cos_theta)).
  Definition coulomb_final (m_inc e_inc m_target : T) (dir : vec3 T) (cos_theta : T) : M (interaction T) :=
    d <- exiting_direction cos_theta dir ;;
    let recoil := coulomb_recoil m_inc e_inc m_target cos_theta in
    ret (Inter Scattered (e_inc - recoil) d [] recoil).

  (** LivermorePEInteractor bookkeeping after the shell (binding energy) and the
      electron direction are sampled; [relax] = the secondaries produced by
      AtomicRelaxation and their total energy (outgoing.energy), if enabled *)
  Definition livermore_final (e_inc binding : T) (edir : vec3 T) (relax : option (list (secondary T) * T))
    : interaction T :=
    let electron := Sec PElectron (e_inc - binding) edir in
    match relax with
    | Some (secs, esum) => Inter Absorbed n0 vzero (electron :: secs) (binding - esum)
    | None => Inter Absorbed n0 vzero [electron] binding
    end.
  (** AtomicRelaxation::operator(): the cascade of sampled transitions is abstract
      (vacancy stack and transition selection are not modelled: Tier B); what is
      concrete is, per sampled transition, the threshold test against the production
      cut OF THE EMITTED PARTICLE'S OWN TYPE (Auger electron: electron cut;
      fluorescence photon: gamma cut), the isotropic direction, and the energy
      bookkeeping (sum of the emitted energies). *)
  Record transition := Tr { tr_auger : bool; tr_energy : T }.
  Fixpoint relax_emit (cut_g cut_e : T) (trs : list transition) : M (list (secondary T) * T) :=
    match trs with
    | [] => ret ([], n0)
    | t :: r =>
        let cutoff := if tr_auger t then cut_e else cut_g in
        if cutoff <=? tr_energy t then
          d <- isotropic ;;
          '(l, e) <- relax_emit cut_g cut_e r ;;
          ret (Sec (if tr_auger t then PElectron else PGamma) (tr_energy t) d :: l, tr_energy t + e)
        else relax_emit cut_g cut_e r
    end.
  (** energy of the transitions that were NOT emitted (below their cut) *)
  Fixpoint relax_suppressed (cut_g cut_e : T) (trs : list transition) : T :=
    match trs with
    | [] => n0
    | t :: r =>
        let cutoff := if tr_auger t then cut_e else cut_g in
        if cutoff <=? tr_energy t then relax_suppressed cut_g cut_e r
        else tr_energy t + relax_suppressed cut_g cut_e r
    end.
  Definition tr_energy_sum (trs : list transition) : T := nsum (map tr_energy trs).
  (** Livermore PE with relaxation: photoelectron + relaxation products *)
  Definition livermore_relax (e_inc binding : T) (edir : vec3 T) (cut_g cut_e : T) (trs : list transition)
    : M (interaction T) :=
    '(secs, esum) <- relax_emit cut_g cut_e trs ;;
    ret (livermore_final e_inc binding edir (Some (secs, esum))).

  (** no shell can be ionised: everything deposited locally *)
  Definition livermore_no_shell (e_inc : T) : interaction T := Inter Absorbed n0 vzero [] e_inc.

  (** LivermorePEInteractor::sample_subshell, branch E < thresh_lo (tabulated subshell
      cross sections): shells = (binding energy, inv_cube_energy * xs(E)) from the
      innermost; a shell whose binding energy exceeds E is skipped; the first shell at
      which the accumulated cross section exceeds [cutoff] = u * total is selected;
      falling through the loop selects NO shell (SubshellId{}).  The tabulated values
      are inputs (Tier B); the skip test and the fall-through are concrete. *)
  Fixpoint lpe_select_lo (e cutoff : T) (shells : list (T * T)) (i : nat) (xs : T) : option nat :=
    match shells with
    | [] => None
    | (binding, sxs) :: r =>
        if e <? binding then lpe_select_lo e cutoff r (S i) xs
        else let xs' := xs + sxs in
             if cutoff <? xs' then Some i else lpe_select_lo e cutoff r (S i) xs'
    end.
  (** final state of the low-energy branch (no relaxation): selected shell -> photoelectron
      E - E_bind, deposit E_bind; no shell -> everything deposited *)
  Definition livermore_lo (e_inc cutoff : T) (shells : list (T * T)) (edir : vec3 T) : interaction T :=
    match lpe_select_lo e_inc cutoff shells 0 n0 with
    | Some i => livermore_final e_inc (fst (nth i shells (n0, n0))) edir None
    | None => livermore_no_shell e_inc
    end.

End Final.
