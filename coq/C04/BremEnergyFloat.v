(** * Float witness (binary64, vm_compute) for the known finding
    relbrem-photon-below-cut-by-density-correction-rounding: the model of detail::RBEnergySampler, run on the float
    instance at E = 1e8 MeV, gamma cut 1e-3 MeV, density correction 1.3003e8 MeV^2 (Cu) with candidate draw u = 0,
    returns a photon energy BELOW the cut -- the real-number theorem C04_rb_energy_in_range (cut <= e) does not
    survive the rounding of sqrt(esq - d_rho) when d_rho >> cut^2. *)
From Coq Require Import ZArith List Floats.
From Celer Require Import Base.Num Base.NumF Base.FloatFun Base.Stream Base.Vec3 C15.Samplers C04.Common C04.BremEnergy.
Import ListNotations.
Open Scope float_scope.

Definition rbw_cut : float := 0x1.0624dd2f1a9fcp-10.      (* 1e-3 *)
Definition rbw_energy : float := 0x1.7d784p+26.             (* 1e8 *)
Definition rbw_dc : float := 0x1.f00623d77cc0ep+26.         (* 130029711.36698934, from the real RBDiffXsCalculator *)
Definition rbw_result : option (float * list float) :=
  rb_energy rbw_cut rbw_energy rbw_dc (fun _ _ => 1) 1 [0; 0].

(** accepted at the first iteration (2 draws) with an energy in [cut (1 - 1e-3), cut) *)
Definition rb_witness_below_cut : bool :=
  match rbw_result with
  | Some (e, []) => andb (e <? rbw_cut) (rbw_cut * 0x1.ff7ced916872bp-1 <? e)
  | _ => false
  end.

Theorem rb_energy_below_cut_float_refuted : rb_witness_below_cut = true.
Proof. vm_compute. reflexivity. Qed.
