(** * e+ annihilation: proofs over R *)
From Coq Require Import Reals ZArith List Bool Lra Lia Psatz.
From Celer Require Import Base.Num Base.NumR Base.Stream Base.Vec3 C15.Samplers C15.SamplersProofs
  C04.Common C04.CommonProofs C04.KleinNishinaProofs C04.EPlusGG.
Import ListNotations.
Local Open Scope R_scope.

Definition ep_ok (p : ep_params R) : Prop := 0 < ep_me p /\ 0 <= ep_energy p /\ unitv (ep_dir p).

Lemma ep_sample_inv fixed (p : ep_params R) a s r a' s' :
  ep_sample fixed p a s = Some ((r, a'), s') ->
  (allocate 2 a = None /\ r = from_failure /\ a' = a /\ s' = s) \/
  (allocate 2 a = Some a' /\ ep_energy p = 0 /\ ep_at_rest p s = Some (r, s')) \/
  (allocate 2 a = Some a' /\ ep_energy p <> 0 /\ exists epsil s1,
     ep_loop (length s) (ep_tau p) s = Some (epsil, s1) /\ ep_assemble fixed p epsil s1 = Some (r, s')).
Proof.
  unfold ep_sample. destruct (allocate 2 a) as [a1|].
  - numR; numR. unfold Reqb. destruct (Req_EM_T (ep_energy p) 0) as [Hz|Hnz]; intros E; right.
    + left. apply bind_some in E as (r1 & s1 & E1 & E). apply ret_some in E. inversion E; subst. auto.
    + right. apply bind_some in E as (epsil & s1 & E1 & E). apply bind_some in E as (r1 & s2 & E2 & E).
      apply ret_some in E. inversion E; subst. split; [reflexivity|]. split; [exact Hnz|]. eauto.
  - intros E. inversion E; subst. left. repeat split; reflexivity.
Qed.

Theorem ep_failure_is_atomic fixed (p : ep_params R) (a : alloc) s :
  allocate 2 a = None -> ep_sample fixed p a s = Some ((from_failure, a), s).
Proof. intros Ha. unfold ep_sample. rewrite Ha. reflexivity. Qed.

(** the clamp of the repaired code is the identity on [-1, 1] *)
Lemma nclamp_unit_id (x : R) : -1 <= x <= 1 -> nclamp x (- (1)) 1 = x.
Proof. intros Hx. unfold nclamp. numR. destruct (Rltb_spec x (- (1))); [lra|]. destruct (Rltb_spec 1 x); [lra|reflexivity]. Qed.

Lemma ep_assemble_inv fixed (p : ep_params R) epsil s r s' :
  ep_assemble fixed p epsil s = Some (r, s') ->
  let tau := ep_tau p in
  let cost := nclamp ((epsil * (tau + 2) - 1) / (epsil * sqrt (tau * (tau + 2)))) (- (1)) 1 in
  let etot := ep_energy p + 2 * ep_me p in
  exists d0, exiting_direction cost (ep_dir p) s = Some (d0, s') /\
    r = Inter Absorbed 0 vzero
          [Sec PGamma (epsil * etot) d0;
           Sec PGamma (etot - epsil * etot)
             (if fixed then calc_exiting_direction (sqrt (ep_energy p * etot)) (ep_dir p) (epsil * etot) d0
              else calc_exiting_direction (sqrt (ep_energy p * etot)) (ep_dir p) (ep_energy p) (ep_dir p))] 0.
Proof.
  unfold ep_assemble. intros E. apply bind_some in E as (d0 & s1 & E1 & E). apply ret_some in E.
  inversion E; subst. exists d0. split; [exact E1|]. destruct fixed; reflexivity.
Qed.

(** energy: T + 2 m c^2 (annihilated positron) = sum of the gamma energies *)
Theorem ep_energy_conserved fixed (p : ep_params R) a s r a' s' :
  ep_sample fixed p a s = Some ((r, a'), s') -> i_action r <> Failed ->
  i_action r = Absorbed /\ i_deposit r = 0 /\
  ep_energy p + 2 * ep_me p = sec_energy_sum (i_secs r).
Proof.
  intros E Hf. apply ep_sample_inv in E as [(_ & Hr & _)|[(_ & Hz & E)|(_ & _ & epsil & s1 & _ & E)]].
  - subst r. contradiction Hf. reflexivity.
  - unfold ep_at_rest in E. apply bind_some in E as (d & s1 & _ & E). apply ret_some in E. inversion E; subst.
    unfold sec_energy_sum. cbn [i_action i_deposit i_secs map nsum s_energy]. numR; numR. rewrite Hz. repeat split; ring.
  - apply ep_assemble_inv in E as (d0 & _ & Hr). subst r.
    unfold sec_energy_sum. cbn [i_action i_deposit i_secs map nsum s_energy]. numR; numR. repeat split; ring.
Qed.

(** ** in-flight kinematics *)
Section InFlight.
  Variables (m E : R).
  Hypothesis Hm : 0 < m.
  Hypothesis HE : 0 < E.
  Let etot := E + 2 * m.
  Let tau := E / m.

  Lemma ep_tau_ratio : tau / (tau + 2) = E / etot.
  Proof. unfold tau, etot. field. split; lra. Qed.
  Lemma ep_sqrt_tau : sqrt (tau * (tau + 2)) = sqrt (E * etot) / m.
  Proof.
    replace (tau * (tau + 2)) with (E * etot / (m * m)) by (unfold tau, etot; field; lra).
    rewrite sqrt_div_alt by nra. rewrite sqrt_square by lra. reflexivity.
  Qed.
  Lemma ep_cost_eq (eps : R) : 0 < eps ->
    (eps * (tau + 2) - 1) / (eps * sqrt (tau * (tau + 2))) = (eps * etot - m) / (eps * sqrt (E * etot)).
  Proof.
    intros He. rewrite ep_sqrt_tau.
    assert (0 < sqrt (E * etot)) by (apply sqrt_lt_R0; unfold etot; nra).
    unfold tau, etot in *. field. repeat split; lra.
  Qed.

  Lemma ep_interval : let q := sqrt (tau / (tau + 2)) * (1 / 2) in
    0 < 1 / 2 - q /\ q * q = E / etot / 4 /\ 0 <= q.
  Proof.
    cbv zeta. rewrite ep_tau_ratio.
    assert (Hr : 0 < E / etot < 1).
    { unfold etot. split; [apply Rdiv_lt_0_compat; lra | apply div_lt_c; lra]. }
    assert (Hs : sqrt (E / etot) * sqrt (E / etot) = E / etot) by (apply sqrt_sqrt; lra).
    assert (Hs1 : sqrt (E / etot) < 1).
    { rewrite <- sqrt_1. apply sqrt_lt_1; lra. }
    assert (Hs0 : 0 <= sqrt (E / etot)) by apply sqrt_pos.
    split; [lra|]. split; [|lra]. nra.
  Qed.

  (** |cos theta| <= 1 for every epsil in the sampling interval *)
  Lemma ep_cost_range (eps : R) :
    let q := sqrt (tau / (tau + 2)) * (1 / 2) in
    1 / 2 - q <= eps <= 1 / 2 + q ->
    -1 <= (eps * (tau + 2) - 1) / (eps * sqrt (tau * (tau + 2))) <= 1.
  Proof.
    cbv zeta. intros Hr. destruct ep_interval as (Ha & Hq2 & Hq0). cbv zeta in *.
    set (q := sqrt (tau / (tau + 2)) * (1 / 2)) in *.
    assert (He : 0 < eps) by lra. rewrite ep_cost_eq by exact He.
    assert (Het : 0 < etot) by (unfold etot; lra).
    assert (Hpm2 : 0 < E * etot) by nra.
    set (pm := sqrt (E * etot)). assert (Hpm : 0 < pm) by (apply sqrt_lt_R0; exact Hpm2).
    assert (Hpmsq : pm * pm = E * etot) by (apply sqrt_sqrt; lra).
    assert (Hden : 0 < eps * pm) by (apply Rmult_lt_0_compat; assumption).
    (* eps (1 - eps) >= m / (2 etot) *)
    assert (Hprod : m <= 2 * etot * (eps * (1 - eps))).
    { assert (Hd : (eps - 1 / 2) * (eps - 1 / 2) <= q * q) by nra.
      rewrite Hq2 in Hd.
      assert (Hx : eps * (1 - eps) >= 1 / 4 - E / etot / 4) by nra.
      assert (Hy : 2 * etot * (1 / 4 - E / etot / 4) = m) by (unfold etot; field; lra).
      nra. }
    (* (eps etot - m)^2 <= (eps pm)^2 *)
    assert (Hsq : (eps * etot - m) * (eps * etot - m) <= (eps * pm) * (eps * pm)).
    { replace (eps * pm * (eps * pm)) with (eps * eps * (pm * pm)) by ring. rewrite Hpmsq.
      unfold etot in *. nra. }
    split.
    - apply div_ge_c; [exact Hden|]. apply Rnot_lt_le. intro Hlt. nra.
    - apply div_le_c; [exact Hden|]. apply Rnot_lt_le. intro Hlt. nra.
  Qed.

  (** |p d - E_gamma d0|^2 = (E_tot - E_gamma)^2 when d . d0 = cos theta *)
  Lemma ep_recoil_sq (eps : R) (d d0 : vec3 R) : 0 < eps -> unitv d -> unitv d0 ->
    dot d0 d = (eps * (tau + 2) - 1) / (eps * sqrt (tau * (tau + 2))) ->
    dot (momentum_diff (sqrt (E * etot)) d (eps * etot) d0) (momentum_diff (sqrt (E * etot)) d (eps * etot) d0)
    = (etot - eps * etot) * (etot - eps * etot).
  Proof.
    intros He Hd Hd0 Hdot. rewrite momentum_diff_sq by assumption. rewrite Hdot, ep_cost_eq by exact He.
    assert (Het : 0 < etot) by (unfold etot; lra).
    assert (Hpm2 : 0 < E * etot) by nra.
    set (pm := sqrt (E * etot)). assert (Hpm : 0 < pm) by (apply sqrt_lt_R0; exact Hpm2).
    assert (Hpmsq : pm * pm = E * etot) by (apply sqrt_sqrt; lra).
    replace (2 * pm * (eps * etot) * ((eps * etot - m) / (eps * pm))) with (2 * etot * (eps * etot - m)) by (field; lra).
    rewrite Hpmsq. unfold etot. ring.
  Qed.
End InFlight.

Lemma ep_loop_spec (tau : R) : 0 < tau -> forall fuel s eps s',
  ep_loop fuel tau s = Some (eps, s') -> canon s ->
  1 / 2 - ep_sqgrate tau <= eps <= 1 / 2 + ep_sqgrate tau /\ canon s'.
Proof.
  intros Ht. induction fuel as [|f IH]; intros s eps s' E Hc; [discriminate|].
  cbn [ep_loop] in E. apply bind_some in E as (x & s1 & E1 & E).
  destruct s as [|u s0]; [discriminate|]. apply canon_cons in Hc as [Hu Hc].
  assert (Hq : 0 < 1 / 2 - ep_sqgrate tau /\ 0 <= ep_sqgrate tau).
  { pose proof (ep_interval 1 tau Rlt_0_1 Ht) as Hi. cbv zeta in Hi.
    replace (tau / 1) with tau in Hi by field. unfold ep_sqgrate. numR; numR. lra. }
  numR; numR. destruct (reciprocal_support (1 / 2 - ep_sqgrate tau) (1 / 2 + ep_sqgrate tau) u s0) as (x' & Ex & Hx);
    try lra; try assumption.
  rewrite Ex in E1. inversion E1; subst; clear E1.
  apply bind_some in E as (rej & s2 & E2 & E).
  destruct s1 as [|t s1']; [discriminate|]. rewrite bernoulli_run in E2. inversion E2; subst; clear E2.
  apply canon_cons in Hc as [_ Hc].
  match type of E with context [if ?b then _ else _] => destruct b end.
  - apply (IH _ _ _ E Hc).
  - apply ret_some in E. inversion E; subst. split; assumption.
Qed.

(** valid final state of an in-flight annihilation (tree's code; candidate repair under the branch hypothesis) *)
Theorem ep_outputs_valid fixed (p : ep_params R) a s r a' s' :
  ep_ok p -> 0 < ep_energy p -> canon s -> (fixed = false \/ rot_branch_ok (ep_dir p)) ->
  ep_sample fixed p a s = Some ((r, a'), s') -> i_action r <> Failed ->
  exists g0 g1, i_secs r = [g0; g1] /\ s_pid g0 = PGamma /\ s_pid g1 = PGamma /\
    0 < s_energy g0 /\ 0 < s_energy g1 /\ unitv (s_dir g0) /\ unitv (s_dir g1).
Proof.
  intros (Hm & _ & Hd) HE Hc Hfix E Hf.
  apply ep_sample_inv in E as [(_ & Hr & _)|[(_ & Hz & _)|(_ & _ & epsil & s1 & E1 & E2)]].
  { subst r. contradiction Hf. reflexivity. }
  { lra. }
  assert (Ht : 0 < ep_tau p) by (unfold ep_tau; numR; apply Rdiv_lt_0_compat; lra).
  destruct (ep_loop_spec _ Ht _ _ _ _ E1 Hc) as [Hr Hc1].
  pose proof (ep_interval (ep_me p) (ep_energy p) Hm HE) as (Ha & Hq2 & Hq0). cbv zeta in *.
  unfold ep_sqgrate in Hr. numR; numR. fold (ep_tau p) in Hr.
  change (ep_energy p / ep_me p) with (ep_tau p) in *.
  set (q := sqrt (ep_tau p / (ep_tau p + 2)) * (1 / 2)) in *.
  assert (Hq1 : q < 1 / 2) by lra.
  assert (He : 0 < epsil < 1) by lra.
  pose proof (ep_cost_range (ep_me p) (ep_energy p) Hm HE epsil) as Hcos. cbv zeta in Hcos.
  change (ep_energy p / ep_me p) with (ep_tau p) in Hcos. specialize (Hcos Hr).
  apply ep_assemble_inv in E2 as (d0 & Ed & Hres). cbv zeta in Ed.
  rewrite nclamp_unit_id in Ed by exact Hcos.
  destruct (exiting_direction_spec _ _ _ _ _ Ed Hcos Hd) as (u & _ & Hd0 & Hpol).
  set (etot := ep_energy p + 2 * ep_me p) in *. assert (Het : 0 < etot) by (unfold etot; lra).
  subst r. eexists; eexists. split; [reflexivity|]. cbn [s_pid s_energy s_dir].
  split; [reflexivity|]. split; [reflexivity|].
  split; [nra|]. split; [nra|]. split; [exact Hd0|].
  destruct fixed.
  - destruct Hfix as [Hx|Hb]; [discriminate|]. specialize (Hpol Hb).
    apply make_unit_vector_unit.
    rewrite (ep_recoil_sq (ep_me p) (ep_energy p) Hm HE epsil) ; try assumption; try lra.
    + fold etot. assert (Hpos : 0 < etot - epsil * etot) by nra. apply Rmult_lt_0_compat; exact Hpos.
  - apply make_unit_vector_unit. apply momentum_diff_pos; try assumption.
    + apply sqrt_pos.
    + lra.
    + intro Heq. assert (Hsq : sqrt (ep_energy p * etot) * sqrt (ep_energy p * etot) = ep_energy p * ep_energy p)
        by (rewrite Heq; reflexivity).
      rewrite sqrt_sqrt in Hsq by nra. unfold etot in Hsq. nra.
Qed.

(** CANDIDATE REPAIR (fixed = true), NOT IN THE TREE: momentum is conserved in flight *)
Theorem ep_momentum_conserved (p : ep_params R) a s r a' s' g0 g1 :
  ep_ok p -> 0 < ep_energy p -> canon s -> rot_branch_ok (ep_dir p) ->
  ep_sample true p a s = Some ((r, a'), s') -> i_secs r = [g0; g1] ->
  let pin := sqrt (ep_energy p * (ep_energy p + 2 * ep_me p)) in
  vx (ep_dir p) * pin = vx (s_dir g0) * s_energy g0 + vx (s_dir g1) * s_energy g1 /\
  vy (ep_dir p) * pin = vy (s_dir g0) * s_energy g0 + vy (s_dir g1) * s_energy g1 /\
  vz (ep_dir p) * pin = vz (s_dir g0) * s_energy g0 + vz (s_dir g1) * s_energy g1.
Proof.
  intros (Hm & _ & Hd) HE Hc Hb E Hsecs.
  apply ep_sample_inv in E as [(_ & Hr & _)|[(_ & Hz & _)|(_ & _ & epsil & s1 & E1 & E2)]].
  { subst r. discriminate. }
  { lra. }
  assert (Ht : 0 < ep_tau p) by (unfold ep_tau; numR; apply Rdiv_lt_0_compat; lra).
  destruct (ep_loop_spec _ Ht _ _ _ _ E1 Hc) as [Hr Hc1].
  pose proof (ep_interval (ep_me p) (ep_energy p) Hm HE) as (Ha & Hq2 & Hq0). cbv zeta in *.
  unfold ep_sqgrate in Hr. numR; numR. fold (ep_tau p) in Hr.
  change (ep_energy p / ep_me p) with (ep_tau p) in *.
  set (q := sqrt (ep_tau p / (ep_tau p + 2)) * (1 / 2)) in *.
  assert (He : 0 < epsil < 1) by lra.
  pose proof (ep_cost_range (ep_me p) (ep_energy p) Hm HE epsil) as Hcos. cbv zeta in Hcos.
  change (ep_energy p / ep_me p) with (ep_tau p) in Hcos. specialize (Hcos Hr).
  apply ep_assemble_inv in E2 as (d0 & Ed & Hres). cbv zeta in Ed.
  rewrite nclamp_unit_id in Ed by exact Hcos.
  destruct (exiting_direction_spec _ _ _ _ _ Ed Hcos Hd) as (u & _ & Hd0 & Hpol). specialize (Hpol Hb).
  set (etot := ep_energy p + 2 * ep_me p) in *. assert (Het : 0 < etot) by (unfold etot; lra).
  subst r. cbn [i_secs] in Hsecs. inversion Hsecs; subst g0 g1. cbn [s_energy s_dir]. cbv zeta.
  assert (Hsq := ep_recoil_sq (ep_me p) (ep_energy p) Hm HE epsil (ep_dir p) d0 (proj1 He) Hd Hd0 Hpol).
  fold etot in Hsq.
  assert (He2 : 0 < etot - epsil * etot) by nra.
  unfold calc_exiting_direction. rewrite (make_unit_vector_scale _ (etot - epsil * etot) He2) by exact Hsq.
  unfold momentum_diff. cbn [vx vy vz]. numR; numR. repeat split; field; lra.
Qed.

(** pinned code: the second gamma leaves along the incident direction, and
    momentum is not conserved.  Witness at the level of the final-state assembly:
    m = 1, T = 6 (tau = 6, tau2 = 8), epsil = 1/4 (inside the sampling interval),
    incident along +z: the outgoing z-momentum exceeds the incident momentum. *)
Theorem ep_momentum_old_refuted :
  exists (p : ep_params R) (epsil u : R) r,
    ep_ok p /\ 0 < ep_energy p /\ canonical u /\
    1 / 2 - ep_sqgrate (ep_tau p) <= epsil <= 1 / 2 + ep_sqgrate (ep_tau p) /\
    ep_assemble false p epsil [u] = Some (r, []) /\
    exists g0 g1, i_secs r = [g0; g1] /\
      vz (ep_dir p) * sqrt (ep_energy p * (ep_energy p + 2 * ep_me p))
      <> vz (s_dir g0) * s_energy g0 + vz (s_dir g1) * s_energy g1.
Proof.
  set (p := EP 1 6 (V3 0 0 1)).
  assert (Hd : unitv (ep_dir p)) by (unfold unitv; rewrite dot_R; cbn; ring).
  assert (Hok : ep_ok p) by (unfold ep_ok, p; cbn [ep_me ep_energy ep_dir]; repeat split; try lra; exact Hd).
  assert (HE : 0 < ep_energy p) by (unfold p; cbn [ep_energy]; lra).
  assert (Htau : ep_tau p = 6) by (unfold ep_tau; cbn; numR; field).
  assert (Hsq34 : sqrt (6 / (6 + 2)) * sqrt (6 / (6 + 2)) = 6 / (6 + 2)) by (apply sqrt_sqrt; lra).
  assert (Hs0 : 0 <= sqrt (6 / (6 + 2))) by apply sqrt_pos.
  assert (Hs : 1 / 2 <= sqrt (6 / (6 + 2))) by nra.
  destruct (ep_assemble false p (1 / 4) [0]) as [[r s']|] eqn:E.
  2:{ unfold ep_assemble, bind, exiting_direction, uniform, draw, ret in E. discriminate. }
  assert (Hs' : s' = []).
  { unfold ep_assemble, bind, exiting_direction, uniform, draw, ret in E. cbn in E. inversion E. reflexivity. }
  subst s'. exists p, (1 / 4), 0, r.
  split; [exact Hok|]. split; [exact HE|]. split; [unfold canonical; lra|].
  split. { rewrite Htau. unfold ep_sqgrate. numR; numR. lra. }
  split; [exact E|].
  apply ep_assemble_inv in E as (d0 & Ed & Hr). cbv zeta in Ed. rewrite Htau in Ed.
  assert (Hs48 : sqrt (6 * (6 + 2)) * sqrt (6 * (6 + 2)) = 6 * (6 + 2)) by (apply sqrt_sqrt; lra).
  assert (Hs48p : 0 < sqrt (6 * (6 + 2))) by (apply sqrt_lt_R0; lra).
  assert (Hs48b : sqrt (6 * (6 + 2)) < 7) by nra.
  set (cost := (1 / 4 * (6 + 2) - 1) / (1 / 4 * sqrt (6 * (6 + 2)))) in *.
  assert (Hcv : 4 / 7 < cost <= 1).
  { unfold cost. split.
    - apply div_gt_c; [lra|]. lra.
    - apply div_le_c; [lra|]. nra. }
  assert (Hcos : -1 <= cost <= 1) by lra.
  rewrite nclamp_unit_id in Ed by exact Hcos.
  destruct (exiting_direction_spec _ _ _ _ _ Ed Hcos Hd) as (u & _ & Hd0 & Hpol). specialize (Hpol ltac:(right; cbn; lra)).
  rewrite dot_R in Hpol. cbn [ep_dir p vx vy vz] in Hpol.
  assert (Hz0 : vz d0 = cost) by lra.
  subst r. eexists; eexists. split; [reflexivity|]. cbn [s_energy s_dir ep_dir ep_energy ep_me p vz].
  (* second gamma: along +z *)
  set (pm := sqrt (6 * (6 + 2 * 1))).
  assert (Hpm : pm = sqrt (6 * (6 + 2))) by (unfold pm; f_equal; ring).
  assert (Hpm6 : 6 < pm) by (rewrite Hpm; nra).
  assert (Hd1 : calc_exiting_direction pm (V3 0 0 1) 6 (V3 0 0 1) = V3 0 0 1).
  { unfold calc_exiting_direction. rewrite (make_unit_vector_scale _ (pm - 6)).
    - unfold momentum_diff. cbn [vx vy vz]. numR; numR. f_equal; field; lra.
    - lra.
    - rewrite dot_R. unfold momentum_diff. cbn [vx vy vz]. numR; numR. ring. }
  rewrite Hd1. cbn [vz]. rewrite Hz0. rewrite Hpm. lra.
Qed.
